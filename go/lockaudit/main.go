// lockaudit: a syntactic audit of the lock discipline the atomic-step abstraction of C15 assumes.
//
//	lockaudit <path/to/client.go>
//
// For every method of type `client` that touches a protected field (the maps and lists that hold cluster
// state) it checks that the access happens while `<recv>.lock` is held: lexically after `lock.Lock()` /
// `lock.RLock()` at the top level of the method body and before the matching `Unlock` (a `defer ...Unlock()`
// holds to the end); writes need the write lock. Methods that do not lock themselves must be on the
// "caller holds the write lock" list, and then every call site is checked for the write lock instead.
// Lock calls in nested blocks, or any shape the audit does not understand, are reported (never ignored).
// Output: one line per method, then `AUDIT ok` / `AUDIT FAILED n`; exit status 1 on failure.
// This is an audit, not a proof: it is listed in the trusted base of C15.
package main

import (
	"fmt"
	"go/ast"
	"go/parser"
	"go/token"
	"os"
	"sort"
)

var protected = map[string]bool{
	"brokers": true, "metadata": true, "metadataTopics": true, "cachedPartitionsResults": true,
	"controllerID": true, "coordinators": true, "seedBrokers": true, "deadSeeds": true,
}

// methods that rely on their caller holding the write lock
var callerHoldsWrite = map[string]bool{
	"updateBroker": true, "registerBroker": true, "setPartitionCache": true, "randomizeSeedBrokers": true,
}

// functions that run before the client is shared (no lock needed)
var constructors = map[string]bool{"NewClient": true}

const (
	none = iota
	rlock
	wlock
)

type finding struct{ fn, msg string }

var findings []finding
var fset = token.NewFileSet()

func report(fn string, pos token.Pos, f string, a ...interface{}) {
	findings = append(findings, finding{fn, fmt.Sprintf("%s: %s", fset.Position(pos), fmt.Sprintf(f, a...))})
}

// lockCall recognises <recv>.lock.<M>() and returns M
func lockCall(e ast.Expr, recv string) string {
	c, ok := e.(*ast.CallExpr)
	if !ok {
		return ""
	}
	s, ok := c.Fun.(*ast.SelectorExpr)
	if !ok {
		return ""
	}
	l, ok := s.X.(*ast.SelectorExpr)
	if !ok || l.Sel.Name != "lock" {
		return ""
	}
	if id, ok := l.X.(*ast.Ident); !ok || id.Name != recv {
		return ""
	}
	return s.Sel.Name
}

func isProtectedSel(e ast.Expr, recv string) (string, bool) {
	s, ok := e.(*ast.SelectorExpr)
	if !ok {
		return "", false
	}
	id, ok := s.X.(*ast.Ident)
	if !ok || id.Name != recv || !protected[s.Sel.Name] {
		return "", false
	}
	return s.Sel.Name, true
}

// root of an lvalue: client.brokers[x] -> client.brokers
func lvalueRoot(e ast.Expr) ast.Expr {
	for {
		switch x := e.(type) {
		case *ast.IndexExpr:
			e = x.X
		case *ast.ParenExpr:
			e = x.X
		default:
			return e
		}
	}
}

type audit struct {
	fn       string
	recv     string
	held     int
	deferred bool
	selfLock bool
	accesses int
}

// inspect one top-level statement with the lock state current at that statement
func (a *audit) stmt(s ast.Stmt, top bool) {
	// lock transitions are only understood at the top level of the body
	if es, ok := s.(*ast.ExprStmt); ok {
		switch lockCall(es.X, a.recv) {
		case "Lock":
			if !top {
				report(a.fn, s.Pos(), "lock taken in a nested block: shape not understood")
			}
			a.held, a.selfLock = wlock, true
			return
		case "RLock":
			if !top {
				report(a.fn, s.Pos(), "lock taken in a nested block: shape not understood")
			}
			a.held, a.selfLock = rlock, true
			return
		case "Unlock", "RUnlock":
			if !top {
				report(a.fn, s.Pos(), "lock released in a nested block: shape not understood")
			}
			a.held = none
			return
		}
	}
	if ds, ok := s.(*ast.DeferStmt); ok {
		switch lockCall(ds.Call, a.recv) {
		case "Unlock", "RUnlock":
			if !top {
				report(a.fn, s.Pos(), "deferred unlock in a nested block: shape not understood")
			}
			a.deferred = true
			return
		}
	}
	writes := map[ast.Expr]bool{}
	ast.Inspect(s, func(n ast.Node) bool {
		switch x := n.(type) {
		case *ast.FuncLit:
			// a closure may run later, on another goroutine: its accesses are judged with no lock held
			saved := a.held
			a.held = none
			for _, st := range x.Body.List {
				a.stmt(st, false)
			}
			a.held = saved
			return false
		case *ast.AssignStmt:
			for _, l := range x.Lhs {
				writes[lvalueRoot(l)] = true
			}
		case *ast.IncDecStmt:
			writes[lvalueRoot(x.X)] = true
		case *ast.CallExpr:
			if id, ok := x.Fun.(*ast.Ident); ok && id.Name == "delete" && len(x.Args) > 0 {
				writes[lvalueRoot(x.Args[0])] = true
			}
			if m := lockCall(x, a.recv); m != "" {
				report(a.fn, x.Pos(), "lock.%s() inside an expression or nested statement: shape not understood", m)
			}
			if sel, ok := x.Fun.(*ast.SelectorExpr); ok {
				if id, ok := sel.X.(*ast.Ident); ok && id.Name == a.recv && callerHoldsWrite[sel.Sel.Name] {
					if a.held != wlock && !constructors[a.fn] && !callerHoldsWrite[a.fn] {
						report(a.fn, x.Pos(), "calls %s without holding the write lock", sel.Sel.Name)
					}
				}
			}
		}
		return true
	})
	ast.Inspect(s, func(n ast.Node) bool {
		if _, ok := n.(*ast.FuncLit); ok {
			return false
		}
		e, ok := n.(ast.Expr)
		if !ok {
			return true
		}
		if name, ok := isProtectedSel(e, a.recv); ok {
			a.accesses++
			if constructors[a.fn] || callerHoldsWrite[a.fn] {
				return true
			}
			if a.held == none {
				report(a.fn, e.Pos(), "%s.%s accessed without the lock", a.recv, name)
			} else if writes[e] && a.held != wlock {
				report(a.fn, e.Pos(), "%s.%s written under the read lock", a.recv, name)
			}
		}
		return true
	})
}

func main() {
	if len(os.Args) != 2 {
		fmt.Fprintln(os.Stderr, "usage: lockaudit client.go")
		os.Exit(2)
	}
	f, err := parser.ParseFile(fset, os.Args[1], nil, 0)
	if err != nil {
		fmt.Fprintln(os.Stderr, err)
		os.Exit(2)
	}
	type row struct {
		name string
		note string
	}
	var rows []row
	seenHelpers := map[string]bool{}
	for _, d := range f.Decls {
		fd, ok := d.(*ast.FuncDecl)
		if !ok || fd.Body == nil {
			continue
		}
		a := &audit{fn: fd.Name.Name}
		if fd.Recv != nil && len(fd.Recv.List) == 1 && len(fd.Recv.List[0].Names) == 1 {
			if st, ok := fd.Recv.List[0].Type.(*ast.StarExpr); ok {
				if id, ok := st.X.(*ast.Ident); ok && id.Name == "client" {
					a.recv = fd.Recv.List[0].Names[0].Name
				}
			}
		}
		if a.recv == "" {
			if !constructors[a.fn] {
				continue
			}
			a.recv = "client" // the constructor's local variable
		}
		for _, st := range fd.Body.List {
			a.stmt(st, true)
		}
		if a.selfLock && !a.deferred && a.held != none {
			report(a.fn, fd.End(), "returns with the lock held")
		}
		if callerHoldsWrite[a.fn] {
			seenHelpers[a.fn] = true
			if a.selfLock {
				report(a.fn, fd.Pos(), "is on the caller-holds-the-lock list but locks itself")
			}
		}
		if a.accesses > 0 {
			kind := "locks itself"
			if constructors[a.fn] {
				kind = "constructor (client not shared yet)"
			} else if callerHoldsWrite[a.fn] {
				kind = "caller holds the write lock (call sites checked)"
			}
			rows = append(rows, row{a.fn, fmt.Sprintf("%d protected accesses, %s", a.accesses, kind)})
		}
	}
	for h := range callerHoldsWrite {
		if !seenHelpers[h] {
			findings = append(findings, finding{h, "helper on the caller-holds-the-lock list not found in the file"})
		}
	}
	sort.Slice(rows, func(i, j int) bool { return rows[i].name < rows[j].name })
	for _, r := range rows {
		fmt.Printf("METHOD %s: %s\n", r.name, r.note)
	}
	for _, fd := range findings {
		fmt.Printf("FINDING %s: %s\n", fd.fn, fd.msg)
	}
	if len(findings) > 0 {
		fmt.Printf("AUDIT FAILED %d\n", len(findings))
		os.Exit(1)
	}
	fmt.Printf("AUDIT ok %d methods\n", len(rows))
}
