module lockaudit

go 1.13
