//go:build verif
// +build verif

// Verification shim for C15 (client metadata): read-only views of the client's candidate lists, which the
// constructor shuffles with a time-seeded generator. Scripted MockBroker handlers: see c19_shim.go.
package sarama

// VerifC15SeedAddrs returns the addresses of client.seedBrokers and client.deadSeeds, in order.
func VerifC15SeedAddrs(c Client) (seeds, dead []string) {
	cl, ok := c.(*client)
	if !ok {
		return nil, nil
	}
	cl.lock.RLock()
	defer cl.lock.RUnlock()
	for _, b := range cl.seedBrokers {
		seeds = append(seeds, b.addr)
	}
	for _, b := range cl.deadSeeds {
		dead = append(dead, b.addr)
	}
	return seeds, dead
}
