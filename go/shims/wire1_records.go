//go:build verif

// In-package access for the C09/C10 records-layer checks (builder b-wire1): encode / decode of Record,
// recordsArray, RecordBatch, MessageSet, Records, ControlRecord, response / request headers on raw bytes, and the
// package's compress / decompress.  Nothing here is used by the library itself.
package sarama

import (
	"encoding/binary"
	"fmt"
	"io"
	"net"
	"runtime"
	"time"
)

type verifRecords struct{ recs []*Record }

func (v *verifRecords) encode(pe packetEncoder) error { return recordsArray(v.recs).encode(pe) }

type verifControlKey struct{ cr *ControlRecord }
type verifControlValue struct{ cr *ControlRecord }

// ControlRecord.encode writes key and value in one call; run it with a throw-away encoder for the other half.
func (v *verifControlKey) encode(pe packetEncoder) error {
	v.cr.encode(pe, &prepEncoder{})
	return nil
}
func (v *verifControlValue) encode(pe packetEncoder) error {
	v.cr.encode(&prepEncoder{}, pe)
	return nil
}

// a body that is just raw bytes, with a chosen key / version / header version
type verifRawBody struct {
	k, v, hv int16
	raw      []byte
}

func (b *verifRawBody) encode(pe packetEncoder) error             { return pe.putRawBytes(b.raw) }
func (b *verifRawBody) decode(pd packetDecoder, v int16) error    { return nil }
func (b *verifRawBody) key() int16                                { return b.k }
func (b *verifRawBody) version() int16                            { return b.v }
func (b *verifRawBody) headerVersion() int16                      { return b.hv }
func (b *verifRawBody) requiredVersion() KafkaVersion             { return MinVersion }

// VerifEncodeValue encodes one of: *Record, []*Record, *RecordBatch, *MessageSet, *Records,
// VerifControlHalf, VerifRequest — through prepEncoder, encode() and a final realEncoder pass (as VerifEncodeScript).
type VerifControlHalf struct {
	CR    *ControlRecord
	Value bool
}
type VerifRequest struct {
	HeaderVersion, Key, Version int16
	CorrelationID               int32
	ClientID                    string
	Body                        []byte
}

// VerifFetchBlock: a FetchResponseBlock encoded / decoded at a protocol version.
type VerifFetchBlock struct {
	Block   *FetchResponseBlock
	Version int16
}

type verifFetchBlockEnc struct {
	b *FetchResponseBlock
	v int16
}

func (e *verifFetchBlockEnc) encode(pe packetEncoder) error { return e.b.encode(pe, e.v) }

func verifCloneRecords(r *Records) *Records {
	c := *r
	if c.MsgSet != nil {
		c.MsgSet = verifCloneSet(c.MsgSet)
	}
	if c.RecordBatch != nil {
		b := *c.RecordBatch
		b.compressedRecords = nil
		c.RecordBatch = &b
	}
	return &c
}

// fresh copy (no encoder caches) that keeps the aliasing between Records and the elements of RecordsSet
func verifCloneFetchBlock(b *FetchResponseBlock) *FetchResponseBlock {
	c := *b
	c.RecordsSet = nil
	if b.RecordsSet != nil {
		c.RecordsSet = []*Records{}
	}
	c.Records = nil
	for _, r := range b.RecordsSet {
		cr := verifCloneRecords(r)
		c.RecordsSet = append(c.RecordsSet, cr)
		if b.Records == r {
			c.Records = cr
		}
	}
	if b.Records != nil && c.Records == nil {
		c.Records = verifCloneRecords(b.Records)
	}
	return &c
}

func verifAsEncoder(x interface{}) func() encoder {
	switch v := x.(type) {
	case VerifFetchBlock:
		return func() encoder { return &verifFetchBlockEnc{verifCloneFetchBlock(v.Block), v.Version} }
	case *Record:
		return func() encoder { c := *v; c.length = varintLengthField{}; return &c }
	case []*Record:
		return func() encoder {
			cp := make([]*Record, len(v))
			for i := range v {
				c := *v[i]
				c.length = varintLengthField{}
				cp[i] = &c
			}
			return &verifRecords{cp}
		}
	case *RecordBatch:
		return func() encoder { c := *v; c.compressedRecords = nil; return &c }
	case *MessageSet:
		return func() encoder { return verifCloneSet(v) }
	case *Records:
		return func() encoder {
			c := *v
			if c.MsgSet != nil {
				c.MsgSet = verifCloneSet(c.MsgSet)
			}
			if c.RecordBatch != nil {
				b := *c.RecordBatch
				b.compressedRecords = nil
				c.RecordBatch = &b
			}
			return &c
		}
	case VerifControlHalf:
		if v.Value {
			return func() encoder { return &verifControlValue{v.CR} }
		}
		return func() encoder { return &verifControlKey{v.CR} }
	case VerifRequest:
		return func() encoder {
			return &request{correlationID: v.CorrelationID, clientID: v.ClientID, body: &verifRawBody{v.Key, v.Version, v.HeaderVersion, v.Body}}
		}
	}
	panic(fmt.Sprintf("verif: cannot encode %T", x))
}

// fresh copy: Message.encode keeps a compressedCache between the two passes
func verifCloneSet(s *MessageSet) *MessageSet {
	if s == nil {
		return nil
	}
	c := &MessageSet{PartialTrailingMessage: s.PartialTrailingMessage, OverflowMessage: s.OverflowMessage}
	for _, b := range s.Messages {
		m := *b.Msg
		m.compressedCache = nil
		c.Messages = append(c.Messages, &MessageBlock{Offset: b.Offset, Msg: &m})
	}
	return c
}

func verifEncErrID2(err error) int {
	if err == nil {
		return 0
	}
	if id := VerifEncErrID(err); id != 99 {
		return id
	}
	m := err.Error()
	switch {
	case containsStr(m, "invalid timestamp"):
		return 4
	case containsStr(m, "unsupported compression codec"):
		// RecordBatch.encode reports a wrong Version with this text too
		return 5
	}
	return 99
}

func containsStr(s, sub string) bool {
	for i := 0; i+len(sub) <= len(s); i++ {
		if s[i:i+len(sub)] == sub {
			return true
		}
	}
	return false
}

// VerifEncodeValue: Status 0 ok / 100 panic / encoder error id (4 invalid timestamp, 5 batch version or codec).
func VerifEncodeValue(x interface{}) (res VerifEncodeResult) {
	mk := verifAsEncoder(x)
	res.PrepLen, res.RealOff = -1, -1
	func() {
		defer func() {
			if r := recover(); r != nil {
				res.Panic = fmt.Sprint(r)
			}
		}()
		var prep prepEncoder
		if err := mk().encode(&prep); err == nil {
			res.PrepLen = prep.length
		}
	}()
	var e encoder
	func() {
		defer func() {
			if r := recover(); r != nil {
				res.Status = 100
				res.Panic = fmt.Sprint(r)
			}
		}()
		e = mk()
		b, err := encode(e, nil)
		res.Status = verifEncErrID2(err)
		res.Bytes = b
	}()
	if res.Status == 0 && res.PrepLen >= 0 {
		func() {
			defer func() {
				if r := recover(); r != nil {
					res.Panic = fmt.Sprint(r)
					res.RealOff = -2
				}
			}()
			// the same object again (as a retry re-encodes it): the varint length fields hold their adjusted values
			re := realEncoder{raw: make([]byte, res.PrepLen)}
			if err := e.encode(&re); err == nil {
				res.RealOff = re.off
				res.RealSame = string(re.raw) == string(res.Bytes)
			}
		}()
	}
	return res
}

// VerifCompress / VerifDecompress expose compress.go / decompress.go.
func VerifCompress(codec int8, level int, data []byte) (out []byte, err error) {
	defer func() {
		if r := recover(); r != nil {
			err = fmt.Errorf("panic: %v", r)
		}
	}()
	return compress(CompressionCodec(codec), level, data)
}
func VerifDecompress(codec int8, data []byte) (out []byte, err error) {
	defer func() {
		if r := recover(); r != nil {
			err = fmt.Errorf("panic: %v", r)
		}
	}()
	return decompress(CompressionCodec(codec), data)
}

// VerifDecoded is the outcome of decoding one value at buf[start:].
type VerifDecoded struct {
	Status int // 0 ok, 100 panic, otherwise VerifDecErrID
	Off    int
	Panic  string

	Record  *Record
	Recs    []*Record
	Batch   *RecordBatch
	Set     *MessageSet
	Records *Records
	Control *ControlRecord
	FBlock  *FetchResponseBlock
	Length  int32 // response header
	Corr    int32
	Key     int16 // request header
	Version int16
	Client  string
}

// VerifHeaderVersion returns allocateBody(key, version).headerVersion(), or -1 when the key is unknown.
func VerifHeaderVersion(key, version int16) int {
	b := allocateBody(key, version)
	if b == nil {
		return -1
	}
	return int(b.headerVersion())
}

// VerifDecodeValue decodes kind at buf[start:] with a realDecoder whose buffer has capacity = length.
// kinds: record | records (n) | batch | mset | top | control (value = aux) | resphdr (n = header version) | reqhdr
func VerifDecodeValue(kind string, buf []byte, start int, n int, aux []byte) (res VerifDecoded) {
	if len(aux) == 1 && aux[0] == 0xfe && kind != "control" {
		// "fresh pools": two collections empty the sync.Pools of the decompressors (gzip / lz4 readers)
		runtime.GC()
		runtime.GC()
	}
	raw := make([]byte, len(buf))
	copy(raw, buf)
	rd := &realDecoder{raw: raw, off: start}
	defer func() {
		if r := recover(); r != nil {
			res = VerifDecoded{Status: 100, Panic: fmt.Sprint(r)}
		}
	}()
	var err error
	switch kind {
	case "record":
		res.Record = &Record{}
		err = res.Record.decode(rd)
	case "records":
		arr := make([]*Record, n)
		err = recordsArray(arr).decode(rd)
		res.Recs = arr
	case "batch":
		res.Batch = &RecordBatch{}
		err = res.Batch.decode(rd)
	case "mset":
		res.Set = &MessageSet{}
		err = res.Set.decode(rd)
	case "top":
		res.Records = &Records{}
		err = res.Records.decode(rd)
	case "fblock":
		res.FBlock = &FetchResponseBlock{}
		err = res.FBlock.decode(rd, int16(n))
		if err == nil {
			// what the consumer does with the control batches of a decoded block (consumer.go parseResponse)
			for _, records := range res.FBlock.RecordsSet {
				if control, cerr := records.isControl(); cerr == nil && control {
					_, _ = records.getControlRecord()
				}
			}
		}
	case "control":
		res.Control = &ControlRecord{}
		v := make([]byte, len(aux))
		copy(v, aux)
		err = res.Control.decode(rd, &realDecoder{raw: v})
	case "resphdr":
		h := responseHeader{}
		err = h.decode(rd, int16(n))
		res.Length, res.Corr = h.length, h.correlationID
	case "reqhdr":
		// request.decode up to (not including) the body: the same statements, the body being a no-op decoder
		var key, version int16
		if key, err = rd.getInt16(); err != nil {
			break
		}
		if version, err = rd.getInt16(); err != nil {
			break
		}
		if res.Corr, err = rd.getInt32(); err != nil {
			break
		}
		if res.Client, err = rd.getString(); err != nil {
			break
		}
		res.Key, res.Version = key, version
		body := allocateBody(key, version)
		if body == nil {
			err = PacketDecodingError{fmt.Sprintf("unknown request key (%d)", key)}
			break
		}
		if body.headerVersion() >= 2 {
			_, err = rd.getUVarint()
		}
	default:
		panic("verif: unknown decode kind " + kind)
	}
	res.Status = VerifDecErrID(err)
	res.Off = rd.off
	return res
}

// VerifDecodeRequestHeader runs the real request.decode on a request whose body is a known type, to tie the
// "reqhdr" transcription above to the code: returns what request.decode itself extracted.
func VerifDecodeRequestHeader(buf []byte) (key, version int16, corr int32, client string, status int) {
	defer func() {
		if r := recover(); r != nil {
			status = 100
		}
	}()
	raw := make([]byte, len(buf))
	copy(raw, buf)
	req := &request{}
	rd := &realDecoder{raw: raw}
	err := req.decode(rd)
	if req.body != nil {
		key, version = req.body.key(), req.body.version()
	}
	return key, version, req.correlationID, req.clientID, VerifDecErrID(err)
}

// VerifReceiveResult: what Broker.responseReceiver did with one response frame.
//   Status 0   the frame header was accepted (the body was delivered, or reading the body from the connection failed)
//          100 the receiver goroutine panicked, 102 nothing happened within the deadline
//          otherwise VerifDecErrID of the error the receiver reported for the header (99: length out of range /
//          correlation id mismatch)
type VerifReceiveResult struct {
	Status int
	Panic  string
	Header []byte // the header bytes as sent (correlation id of the request filled in)
	Corr   int32
}

// VerifBrokerReceive opens a real Broker against a raw TCP server on the loopback interface, sends one request whose
// response uses the given header version (0: ApiVersions, 1: ListPartitionReassignments) and lets the server answer
// with frame (bytes 4..8 replaced by the request's correlation id), then close the connection.
func VerifBrokerReceive(headerVersion int16, frame []byte) (res VerifReceiveResult) {
	ln, err := net.Listen("tcp", "127.0.0.1:0")
	if err != nil {
		panic(err)
	}
	defer ln.Close()
	sent := make(chan []byte, 1)
	go func() {
		conn, err := ln.Accept()
		if err != nil {
			sent <- nil
			return
		}
		defer conn.Close()
		var sz [4]byte
		if _, err := io.ReadFull(conn, sz[:]); err != nil {
			sent <- nil
			return
		}
		req := make([]byte, binary.BigEndian.Uint32(sz[:]))
		if _, err := io.ReadFull(conn, req); err != nil || len(req) < 8 {
			sent <- nil
			return
		}
		out := append([]byte{}, frame...)
		if len(out) >= 8 {
			copy(out[4:8], req[4:8])
		}
		_, _ = conn.Write(out)
		sent <- out
		time.Sleep(50 * time.Millisecond)
	}()

	panicked := make(chan interface{}, 1)
	events := make(chan error, 4) // nil = delivered
	oldHandler := PanicHandler
	PanicHandler = func(v interface{}) {
		select {
		case panicked <- v:
		default:
		}
	}
	VerifSetObserver(func(kind string, args ...interface{}) {
		switch kind {
		case "broker.recv.delivered":
			select {
			case events <- nil:
			default:
			}
		case "broker.recv.failed":
			var e error = io.ErrUnexpectedEOF
			if len(args) >= 3 {
				if x, ok := args[2].(error); ok {
					e = x
				}
			}
			select {
			case events <- e:
			default:
			}
		}
	})
	defer func() {
		VerifSetObserver(nil)
		PanicHandler = oldHandler
	}()

	conf := NewConfig()
	conf.Version = V2_4_0_0
	conf.Net.ReadTimeout = 400 * time.Millisecond
	conf.Net.DialTimeout = time.Second
	broker := NewBroker(ln.Addr().String())
	if err := broker.Open(conf); err != nil {
		panic(err)
	}
	if ok, err := broker.Connected(); !ok || err != nil {
		panic(fmt.Sprint("verif: broker not connected: ", err))
	}
	go func() {
		defer func() { _ = recover() }()
		if headerVersion >= 1 {
			_, _ = broker.ListPartitionReassignments(&ListPartitionReassignmentsRequest{TimeoutMs: 100})
		} else {
			_, _ = broker.ApiVersions(&ApiVersionsRequest{})
		}
	}()
	if out := <-sent; out != nil {
		hl := int(getHeaderLength(headerVersion))
		if len(out) >= hl {
			res.Header = out[:hl]
		}
		if len(out) >= 8 {
			res.Corr = int32(binary.BigEndian.Uint32(out[4:8]))
		}
	}
	select {
	case v := <-panicked:
		res.Status, res.Panic = 100, fmt.Sprint(v)
	case e := <-events:
		switch {
		case e == nil:
			res.Status = 0
		default:
			id := VerifDecErrID(e)
			if id == 99 {
				if _, ok := e.(PacketDecodingError); !ok {
					id = 0 // an I/O error while reading the body: the header had been accepted
				}
			}
			res.Status = id
		}
	case <-time.After(3 * time.Second):
		res.Status = 102
	}
	go func() { defer func() { _ = recover() }(); _ = broker.Close() }()
	return res
}
