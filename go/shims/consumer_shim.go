//go:build verif
// +build verif

package sarama

// In-package access for the consumer checks (C03, C11, C18 consumer half) of /verif.
// Added to package sarama by -overlay at build time; nothing here is part of /repo.

import "fmt"

// VerifConsumerEncodeBatch / VerifConsumerEncodeSet: the real encoders of the stored units of a log.
func VerifConsumerEncodeBatch(b *RecordBatch) ([]byte, error) { return encode(b, nil) }
func VerifConsumerEncodeSet(s *MessageSet) ([]byte, error)    { return encode(s, nil) }

// VerifConsumerDecodeFetch runs the real FetchResponse decoder on a response body.
func VerifConsumerDecodeFetch(raw []byte, version int16) (*FetchResponse, error) {
	r := &FetchResponse{}
	if err := versionedDecode(raw, r, version); err != nil {
		return nil, err
	}
	return r, nil
}

// VerifConsumerSession wraps a minimal partitionConsumer so that the real parseResponse (and through it
// parseMessages / parseRecords) can be called on decoded responses, keeping offset / fetchSize between calls.
type VerifConsumerSession struct{ child *partitionConsumer }

func VerifNewConsumerSession(conf *Config, topic string, partition int32, offset int64) *VerifConsumerSession {
	return &VerifConsumerSession{child: &partitionConsumer{
		conf:      conf,
		topic:     topic,
		partition: partition,
		offset:    offset,
		fetchSize: conf.Consumer.Fetch.Default,
		errors:    make(chan *ConsumerError, 64),
		broker:    &brokerConsumer{broker: &Broker{id: 1}},
	}}
}

type VerifConsumerParseOut struct {
	Msgs      []*ConsumerMessage
	Err       error
	Offset    int64
	FetchSize int32
	HWM       int64
	Pref      int32
	Sent      []error // errors handed to sendError (conf.Consumer.Return.Errors must be true)
	Panic     string
}

func (s *VerifConsumerSession) Parse(resp *FetchResponse) (out VerifConsumerParseOut) {
	defer func() {
		if r := recover(); r != nil {
			out.Panic = fmt.Sprint(r)
		}
		c := s.child
		out.Offset, out.FetchSize, out.HWM, out.Pref = c.offset, c.fetchSize, c.highWaterMarkOffset, c.preferredReadReplica
		for {
			select {
			case e := <-c.errors:
				out.Sent = append(out.Sent, e.Err)
				continue
			default:
			}
			break
		}
	}()
	out.Msgs, out.Err = s.child.parseResponse(resp)
	return
}

// What a FetchRequest asks for.
type VerifConsumerFetchBlock struct {
	Topic     string
	Partition int32
	Offset    int64
	MaxBytes  int32
}
type VerifConsumerFetchInfo struct {
	Version   int16
	Isolation IsolationLevel
	Blocks    []VerifConsumerFetchBlock
}

type verifConsumerRaw struct{ raw []byte }

func (r *verifConsumerRaw) encode(pe packetEncoder) error { return pe.putRawBytes(r.raw) }
func (r *verifConsumerRaw) headerVersion() int16          { return 0 }

type verifConsumerDrop struct{}

func (verifConsumerDrop) encode(pe packetEncoder) error { return fmt.Errorf("verif: drop connection") }
func (verifConsumerDrop) headerVersion() int16          { return 0 }

// VerifConsumerFetchResponder is a MockResponse for "FetchRequest": F gets the request and returns the raw
// response body (the harness encodes it), nil for "no answer", or an empty non-nil slice to drop the connection.
type VerifConsumerFetchResponder struct {
	F func(VerifConsumerFetchInfo) []byte
}

func (m *VerifConsumerFetchResponder) For(reqBody versionedDecoder) encoderWithHeader {
	req := reqBody.(*FetchRequest)
	info := VerifConsumerFetchInfo{Version: req.Version, Isolation: req.Isolation}
	for topic, parts := range req.blocks {
		for p, b := range parts {
			info.Blocks = append(info.Blocks, VerifConsumerFetchBlock{Topic: topic, Partition: p, Offset: b.fetchOffset, MaxBytes: b.maxBytes})
		}
	}
	raw := m.F(info)
	if raw == nil {
		return nil
	}
	if len(raw) == 0 {
		return verifConsumerDrop{}
	}
	return &verifConsumerRaw{raw: raw}
}

// VerifConsumerMetaResponder is a MockResponse for "MetadataRequest": F builds the response (leaders may come and
// go between calls) for the request's version and topics.
type VerifConsumerMetaResponder struct {
	F func(version int16, topics []string) *MetadataResponse
}

func (m *VerifConsumerMetaResponder) For(reqBody versionedDecoder) encoderWithHeader {
	req := reqBody.(*MetadataRequest)
	res := m.F(req.version(), req.Topics)
	res.Version = req.version()
	return res
}
