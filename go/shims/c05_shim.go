//go:build verif
// +build verif

package sarama

// C05 (idempotent producer): read-only access to the transaction manager and to the label of a produce set
// for the harness (go/harness/internal/idembroker). Added by -overlay; nothing is written to /repo.

// VerifC05TxnState returns (producer id, epoch, copy of the sequence counters) of an async producer
// (ok=false if p is not the library's implementation).
func VerifC05TxnState(p AsyncProducer) (pid int64, epoch int16, seqs map[string]int32, ok bool) {
	ap, isAP := p.(*asyncProducer)
	if !isAP || ap.txnmgr == nil {
		return 0, 0, nil, false
	}
	ap.txnmgr.mutex.Lock()
	defer ap.txnmgr.mutex.Unlock()
	seqs = map[string]int32{}
	for k, v := range ap.txnmgr.sequenceNumbers {
		seqs[k] = v
	}
	return ap.txnmgr.producerID, ap.txnmgr.producerEpoch, seqs, true
}

// VerifC05SetLabel returns (producer id, epoch) a produce set was created with; x is the *produceSet argument
// of the hook points bridge.send / retryBatch.send.
func VerifC05SetLabel(x interface{}) (pid int64, epoch int16, ok bool) {
	ps, isSet := x.(*produceSet)
	if !isSet || ps == nil {
		return 0, 0, false
	}
	return ps.producerID, ps.producerEpoch, true
}

// VerifC05Epoch reads the current epoch through any hook argument that is the producer.
func VerifC05Epoch(x interface{}) (int16, bool) {
	ap, ok := x.(*asyncProducer)
	if !ok || ap.txnmgr == nil {
		return 0, false
	}
	_, ep := ap.txnmgr.getProducerID()
	return ep, true
}
