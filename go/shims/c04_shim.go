//go:build verif
// +build verif

package sarama

// In-package access for the C04 check (builder b-c04): drive a real produceSet (newProduceSet, add, buildRequest)
// and brokerProducer.handleSuccess without a network, encode the request like Broker.send does and decode it like
// the mock broker does; scripted MockBroker handlers; read-only decoding of three producer hook points.
// Added by -overlay; nothing here is used by the library and nothing is written to /repo.

import (
	"bytes"
	"fmt"
	"reflect"
	"runtime"
	"strings"
	"sync"
	"time"
)

// VerifC04Msg is one message for VerifC04Build: the message (Topic, Partition, Key, Value, Headers, Timestamp,
// Metadata set by the caller) plus the unexported stamps.
type VerifC04Msg struct {
	Msg   *ProducerMessage
	Seq   int32
	Flags int
}

// VerifC04Part is one partition of the set / of the decoded request.
type VerifC04Part struct {
	Topic      string
	Partition  int32
	Msgs       []*ProducerMessage // partitionSet.msgs, in order
	Decoded    Records            // what decodeRequest returned for this partition
	HasDecoded bool
	Retries    []int // VerifC04Steer only: retries of Msgs
}

// VerifC04Resend: the same produce set built and encoded a SECOND time (as the bridge does with the set retryBatch re-sends:
// the same RecordBatch and Record objects, whose length fields and serialization caches hold what the first pass left).
type VerifC04Resend struct {
	Done      bool
	Panic     string
	EncodeErr string
	DecodeErr string
	Same      bool // the bytes are those of the first encoding
	Parts     []VerifC04Part
}

type VerifC04Result struct {
	Resend     VerifC04Resend
	AddErrs    []int // per message: 0 ok, 1 Encode() error, 2 out-of-sequence assertion, 9 other
	Version    int16 // req.Version
	Acks       int16
	ReqBytes   int
	Parts      []VerifC04Part
	Panic      string // buildRequest / encode panicked
	EncodeErr  string
	DecodeErr  string
	ExtraParts int // partitions in the decoded request that the set does not have
}

func verifC04Parent(conf *Config, pid int64, epoch int16) *asyncProducer {
	return &asyncProducer{
		conf:      conf,
		txnmgr:    &transactionManager{producerID: pid, producerEpoch: epoch, sequenceNumbers: map[string]int32{}},
		errors:    make(chan *ProducerError, 4096),
		successes: make(chan *ProducerMessage, 4096),
		retries:   make(chan *ProducerMessage, 4096),
		input:     make(chan *ProducerMessage, 4096),
	}
}

// VerifC04Set is an opaque handle on a produceSet built by VerifC04Build (for VerifC04HandleSuccess).
type VerifC04Set struct {
	parent *asyncProducer
	set    *produceSet
}

// VerifC04Build: newProduceSet, add every message, buildRequest, encode (request header + body, as Broker.send),
// decodeRequest (as MockBroker.handleRequests).
func VerifC04Build(conf *Config, pid int64, epoch int16, msgs []VerifC04Msg) (res VerifC04Result, h *VerifC04Set) {
	parent := verifC04Parent(conf, pid, epoch)
	ps := newProduceSet(parent)
	h = &VerifC04Set{parent: parent, set: ps}
	for _, m := range msgs {
		m.Msg.sequenceNumber = m.Seq
		m.Msg.flags = flagSet(m.Flags)
		err := ps.add(m.Msg)
		switch {
		case err == nil:
			res.AddErrs = append(res.AddErrs, 0)
		case strings.Contains(err.Error(), "out of sequence"):
			res.AddErrs = append(res.AddErrs, 2)
		case strings.Contains(err.Error(), "verif-encode"):
			res.AddErrs = append(res.AddErrs, 1)
		default:
			res.AddErrs = append(res.AddErrs, 9)
		}
	}
	for topic, parts := range ps.msgs {
		for partition, set := range parts {
			res.Parts = append(res.Parts, VerifC04Part{Topic: topic, Partition: partition, Msgs: append([]*ProducerMessage(nil), set.msgs...)})
		}
	}
	if ps.empty() {
		return res, h
	}
	var buf []byte
	func() {
		defer func() {
			if r := recover(); r != nil {
				res.Panic = fmt.Sprint(r)
			}
		}()
		req := ps.buildRequest()
		res.Version = req.Version
		res.Acks = int16(req.RequiredAcks)
		var err error
		buf, err = encode(&request{correlationID: 77, clientID: conf.ClientID, body: req}, conf.MetricRegistry)
		if err != nil {
			res.EncodeErr = err.Error()
		}
	}()
	if res.Panic != "" || res.EncodeErr != "" {
		return res, h
	}
	res.ReqBytes = len(buf)
	var decoded *request
	func() {
		defer func() {
			if r := recover(); r != nil {
				res.DecodeErr = "panic: " + fmt.Sprint(r)
			}
		}()
		var err error
		decoded, _, err = decodeRequest(bytes.NewReader(buf))
		if err != nil {
			res.DecodeErr = err.Error()
		}
	}()
	if res.DecodeErr != "" {
		return res, h
	}
	pr, ok := decoded.body.(*ProduceRequest)
	if !ok {
		res.DecodeErr = "not a produce request"
		return res, h
	}
	if pr.Version != res.Version {
		res.DecodeErr = fmt.Sprintf("request version %d decoded as %d", res.Version, pr.Version)
		return res, h
	}
	seen := 0
	for i := range res.Parts {
		p := &res.Parts[i]
		if recs, ok := pr.records[p.Topic][p.Partition]; ok {
			p.Decoded, p.HasDecoded = recs, true
			seen++
		}
	}
	total := 0
	for _, parts := range pr.records {
		total += len(parts)
	}
	res.ExtraParts = total - seen
	if conf.Version.IsAtLeast(V0_11_0_0) {
		// only record batches are ever re-sent as a set (idempotent retryBatch)
		rs := &res.Resend
		rs.Done = true
		var buf2 []byte
		func() {
			defer func() {
				if r := recover(); r != nil {
					rs.Panic = fmt.Sprint(r)
				}
			}()
			req2 := ps.buildRequest()
			var err error
			buf2, err = encode(&request{correlationID: 77, clientID: conf.ClientID, body: req2}, conf.MetricRegistry)
			if err != nil {
				rs.EncodeErr = err.Error()
			}
		}()
		if rs.Panic == "" && rs.EncodeErr == "" {
			rs.Same = bytes.Equal(buf, buf2)
			func() {
				defer func() {
					if r := recover(); r != nil {
						rs.DecodeErr = "panic: " + fmt.Sprint(r)
					}
				}()
				d2, _, err := decodeRequest(bytes.NewReader(buf2))
				if err != nil {
					rs.DecodeErr = err.Error()
					return
				}
				if pr2, ok := d2.body.(*ProduceRequest); ok {
					rs.Parts = VerifC04RequestParts(pr2)
				} else {
					rs.DecodeErr = "not a produce request"
				}
			}()
		}
	}
	return res, h
}

// VerifC04Success is one message delivered on the successes channel by VerifC04HandleSuccess.
type VerifC04Success struct {
	Msg       *ProducerMessage
	Offset    int64
	Timestamp time.Time // msg.Timestamp as delivered
}

// VerifC04HandleSuccess runs brokerProducer.handleSuccess on the set with a response holding, for every partition
// of the set, ErrNoError and the base offset bases(topic, partition).  Returns the successes in channel order and
// the number of error events.  The block's Timestamp (zero: none) is the log-append time the broker answered.
func (h *VerifC04Set) VerifC04HandleSuccess(version int16, bases func(topic string, partition int32) (int64, time.Time)) (out []VerifC04Success, nerr int) {
	p := h.parent
	bp := &brokerProducer{parent: p, broker: &Broker{id: 1}, buffer: newProduceSet(p), currentRetries: map[string]map[int32]error{}}
	resp := &ProduceResponse{Version: version, Blocks: map[string]map[int32]*ProduceResponseBlock{}}
	n := 0
	h.set.eachPartition(func(topic string, partition int32, pSet *partitionSet) {
		if resp.Blocks[topic] == nil {
			resp.Blocks[topic] = map[int32]*ProduceResponseBlock{}
		}
		base, ts := bases(topic, partition)
		resp.Blocks[topic][partition] = &ProduceResponseBlock{Err: ErrNoError, Offset: base, Timestamp: ts}
		n += len(pSet.msgs)
	})
	p.inFlight.Add(n)
	bp.handleSuccess(h.set, resp)
	for {
		select {
		case m := <-p.successes:
			out = append(out, VerifC04Success{m, m.Offset, m.Timestamp})
			continue
		case <-p.errors:
			nerr++
			continue
		default:
		}
		break
	}
	return out, nerr
}

// ---------------------------------------------------------------- end-to-end part

// VerifC04Drop as a handler result makes the mock broker close the connection without answering.
type VerifC04Drop struct{}

type verifC04Dropper struct{}

func (verifC04Dropper) encode(pe packetEncoder) error { return fmt.Errorf("verif: drop") }
func (verifC04Dropper) headerVersion() int16          { return 0 }

// VerifC04SetHandler installs a handler on a MockBroker: it gets the decoded body and returns nil (no answer),
// VerifC04Drop{} or a pointer to a response struct.  Runs under the mock broker's lock.
func (b *MockBroker) VerifC04SetHandler(h func(body interface{}) interface{}) {
	b.setHandler(func(req *request) encoderWithHeader {
		switch r := h(req.body).(type) {
		case nil:
			return nil
		case VerifC04Drop:
			return verifC04Dropper{}
		case encoderWithHeader:
			return r
		default:
			panic("VerifC04SetHandler: unsupported answer " + reflect.TypeOf(r).String())
		}
	})
}

// VerifC04RequestParts lists the decoded records of a produce request.
func VerifC04RequestParts(req *ProduceRequest) []VerifC04Part {
	var out []VerifC04Part
	for topic, parts := range req.records {
		for partition, recs := range parts {
			out = append(out, VerifC04Part{Topic: topic, Partition: partition, Decoded: recs, HasDecoded: true})
		}
	}
	return out
}

// VerifC04Hook is a decoded producer hook point: "bp.add" (a message accepted by buffer.add: Flags must be 0),
// "bridge.send" (a set handed to the network: per partition the messages in order), "tp.forward" (Partition after
// the topic worker's pass, Retries).
type VerifC04Hook struct {
	Kind      string
	Msg       *ProducerMessage
	Flags     int
	Retries   int
	Partition int32
	Set       []VerifC04Part
	HWM       int // VerifC04Steer only
	// bp.recv / bp.add / bp.waitForSpace: identity of the broker worker; bp.recv: its refusal state for the message
	BP       interface{}
	Closing  bool // bp.closing != nil
	Retrying bool // bp.currentRetries[topic][partition] != nil
	AddErr   bool // return.error: the error is one of produceSet.add (sequence assertion, encoder error)
	HasSeq   bool  // msg.hasSequence at the hook point (idempotent producer: the message carries a sequence number)
	Goid     int64 // goroutine that reached the hook point
}

func verifC04Goid() int64 {
	var buf [64]byte
	n := runtime.Stack(buf[:], false)
	var id int64
	for _, c := range buf[len("goroutine "):n] {
		if c < '0' || c > '9' {
			break
		}
		id = id*10 + int64(c-'0')
	}
	return id
}

func verifC04Decorate(hk *VerifC04Hook, kind string, args []interface{}) {
	hk.Goid = verifC04Goid()
	if hk.Msg != nil {
		hk.HasSeq = hk.Msg.hasSequence
	}
	for _, a := range args {
		switch v := a.(type) {
		case *brokerProducer:
			hk.BP = v
			if kind == "bp.recv" && hk.Msg != nil {
				hk.Closing = v.closing != nil
				hk.Retrying = v.currentRetries[hk.Msg.Topic][hk.Msg.Partition] != nil
			}
		case error:
			if kind == "return.error" && v != nil {
				hk.AddErr = strings.Contains(v.Error(), "out of sequence") || strings.Contains(v.Error(), "verif-encode")
			}
		}
	}
}

var verifC04Mu sync.Mutex

// VerifC04Observe installs an observer that forwards the three hook points to f (serialised).
func VerifC04Observe(f func(VerifC04Hook)) {
	if f == nil {
		VerifSetObserver(nil)
		return
	}
	VerifSetObserver(func(kind string, args ...interface{}) {
		switch kind {
		case "bp.add", "tp.forward", "bp.recv", "bp.waitForSpace", "retry.enqueue", "return.error", "return.success", "pp.send":
			m, ok := args[0].(*ProducerMessage)
			if !ok || m == nil {
				return
			}
			hk := VerifC04Hook{Kind: kind, Msg: m, Flags: int(m.flags), Retries: m.retries, Partition: m.Partition}
			verifC04Decorate(&hk, kind, args)
			verifC04Mu.Lock()
			f(hk)
			verifC04Mu.Unlock()
		case "bridge.send":
			set, ok := args[1].(*produceSet)
			if !ok || set == nil {
				return
			}
			hk := VerifC04Hook{Kind: kind}
			for topic, parts := range set.msgs {
				for partition, ps := range parts {
					hk.Set = append(hk.Set, VerifC04Part{Topic: topic, Partition: partition, Msgs: append([]*ProducerMessage(nil), ps.msgs...)})
				}
			}
			verifC04Mu.Lock()
			f(hk)
			verifC04Mu.Unlock()
		}
	})
}

// VerifC04Trace installs a debugging observer: every hook point with the message (if any) it concerns.
func VerifC04Trace(f func(line string)) {
	VerifSetObserver(func(kind string, args ...interface{}) {
		line := kind
		for _, a := range args {
			switch v := a.(type) {
			case *ProducerMessage:
				if v != nil {
					line += fmt.Sprintf(" msg{meta=%v p=%d retries=%d flags=%d seq=%d}", v.Metadata, v.Partition, v.retries, v.flags, v.sequenceNumber)
				}
			case *brokerProducer:
				line += fmt.Sprintf(" bp=%p closing=%v cur=%v buf=%d", v, v.closing, v.currentRetries, v.buffer.bufferCount)
			case *partitionProducer:
				line += fmt.Sprintf(" pp=%d hwm=%d bp=%p", v.partition, v.highWatermark, v.brokerProducer)
			case *produceSet:
				for t, ps := range v.msgs {
					for p, s := range ps {
						line += fmt.Sprintf(" set[%s/%d]=%d", t, p, len(s.msgs))
						for _, m := range s.msgs {
							line += fmt.Sprintf("(%v f%d)", m.Metadata, m.flags)
						}
					}
				}
			case error:
				line += " err=" + v.Error()
			case KError:
				line += " kerr=" + v.Error()
			}
		}
		verifC04Mu.Lock()
		f(line)
		verifC04Mu.Unlock()
	})
}

// VerifC04Steer installs an observer that is NOT serialised and may block the goroutine that reached the hook
// point (steering).  Every hook point is forwarded: Msg is the first *ProducerMessage argument (if any), Set the
// first *produceSet argument with the retry count of its messages, HWM the int argument of pp.newHWM.
func VerifC04Steer(f func(VerifC04Hook)) {
	VerifSetObserver(func(kind string, args ...interface{}) {
		hk := VerifC04Hook{Kind: kind, HWM: -1}
		for _, a := range args {
			switch v := a.(type) {
			case *ProducerMessage:
				if v != nil && hk.Msg == nil {
					hk.Msg, hk.Flags, hk.Retries, hk.Partition = v, int(v.flags), v.retries, v.Partition
				}
			case *produceSet:
				if v != nil && hk.Set == nil {
					for topic, parts := range v.msgs {
						for partition, ps := range parts {
							p := VerifC04Part{Topic: topic, Partition: partition, Msgs: append([]*ProducerMessage(nil), ps.msgs...)}
							for _, m := range ps.msgs {
								p.Retries = append(p.Retries, m.retries)
							}
							hk.Set = append(hk.Set, p)
						}
					}
				}
			case int:
				hk.HWM = v
			}
		}
		verifC04Decorate(&hk, kind, args)
		f(hk)
	})
}
