//go:build verif
// +build verif

package sarama

// In-package decoding of the producer hook points (hooks/producer_points.patch) into plain exported
// values for the verification harness (go/harness/internal/cluster). Nothing here changes behaviour:
// every function only reads fields of the objects handed to verifPoint, on the goroutine that owns them.

import (
	"errors"
	"sort"

	"github.com/eapache/go-resiliency/breaker"
)

// VerifProdIdentified is implemented by the harness' ProducerMessage.Metadata values.
type VerifProdIdentified interface{ VerifID() int64 }

// VerifProdMsg is a snapshot of a ProducerMessage at a hook point.
type VerifProdMsg struct {
	ID         int64 // identity from Metadata (-1: not an application message, e.g. a syn/fin/shutdown marker)
	Topic      string
	Partition  int32
	Retries    int
	Flags      int // 0 data, 1 syn, 2 fin, 4 shutdown
	Seq        int32
	Epoch      int16
	HasSeq     bool
	Size       int  // byteSize at the producer's protocol generation
	HasHeaders bool // Headers != nil
	Offset     int64
	Ptr        *ProducerMessage
}

// VerifProdPart is one partition of a produce set.
type VerifProdPart struct {
	Topic     string
	Partition int32
	Msgs      []VerifProdMsg
	Verdict   int   // bp.response: 0 ok, -1 no block, -2 response==nil (acks=0), otherwise the KError code
	Offset    int64 // bp.response: base offset of the block
}

// VerifProdEvent is one decoded hook point.
type VerifProdEvent struct {
	Kind     string
	Producer interface{} // *asyncProducer (identity only)
	Actor    interface{} // *partitionProducer / *brokerProducer (identity only), nil otherwise
	Msg      *VerifProdMsg
	Err      int // error class (VerifProdErrClass)
	// actor-local state and environment reads, by kind (see cluster/observe.go)
	Flag        bool // dispatcher.recv: shuttingDown; bp.waitForSpace: forceRollover
	Topic       string
	Partition   int32
	HWM         int   // pp.*: highWatermark (pp.newHWM: the new one)
	HasBP       bool  // pp.*: brokerProducer != nil
	Leader      int32 // pp.*: leader id (-1 none); bp.*: broker id; retryBatch.leader: leader id
	BufCount    int   // bp.*: buffer.bufferCount
	BufBytes    int   // bp.*: buffer.bufferBytes
	BufEpoch    int16 // bp.*: buffer.producerEpoch
	Overflow    bool  // bp.recv: buffer.wouldOverflow(msg)
	Closing     bool  // bp.*: closing != nil
	Retrying    bool  // bp.recv: currentRetries[topic][partition] != nil
	TimerSet    bool
	TimerFired  bool
	TxnEpoch    int16 // current epoch of the transaction manager
	Set         []VerifProdPart
	RespErr     int // bp.response: class of response.err (0 none)
	RespNil     bool
	LevelBufLen []int  // pp.*: len(retryState[i].buf)
	LevelChaser []bool // pp.*: retryState[i].expectChaser
}

func verifVersion(p *asyncProducer) int {
	if p.conf.Version.IsAtLeast(V0_11_0_0) {
		return 2
	}
	return 1
}

func verifMsg(p *asyncProducer, m *ProducerMessage) *VerifProdMsg {
	if m == nil {
		return nil
	}
	v := &VerifProdMsg{ID: -1, Topic: m.Topic, Partition: m.Partition, Retries: m.retries, Flags: int(m.flags),
		Seq: m.sequenceNumber, Epoch: m.producerEpoch, HasSeq: m.hasSequence, HasHeaders: m.Headers != nil, Offset: m.Offset, Ptr: m}
	if id, ok := m.Metadata.(VerifProdIdentified); ok {
		v.ID = id.VerifID()
	}
	if p != nil {
		v.Size = m.byteSize(verifVersion(p))
	}
	return v
}

// VerifProdErrClass maps an error to a small integer: 0 nil, the Kafka code for a KError (999 for ErrUnknown),
// 1001.. for the library's sentinel errors, 1004 for anything else (network level).
func VerifProdErrClass(err error) int {
	if err == nil {
		return 0
	}
	var k KError
	if errors.As(err, &k) {
		if k == ErrUnknown {
			return 999
		}
		return int(k)
	}
	var pe PacketEncodingError
	if errors.As(err, &pe) {
		return 1005
	}
	var ce ConfigurationError
	if errors.As(err, &ce) {
		return 1002
	}
	var ve VerifProdError
	if errors.As(err, &ve) {
		return int(ve)
	}
	switch {
	case errors.Is(err, ErrShuttingDown):
		return 1001
	case errors.Is(err, ErrIncompleteResponse):
		return 1003
	case errors.Is(err, ErrInvalidPartition):
		return 1007
	case errors.Is(err, ErrOutOfBrokers):
		return 1009
	case errors.Is(err, breaker.ErrBreakerOpen):
		return 1010
	case errors.Is(err, ErrClosedClient):
		return 1013
	}
	if err.Error() == "assertion failed: message out of sequence added to a batch" {
		return 1012
	}
	return 1004
}

// VerifProdError is an error with a chosen class (harness partitioners / encoders use 1006 / 1011).
type VerifProdError int

func (e VerifProdError) Error() string { return "verif: scripted error" }

func verifSet(p *asyncProducer, ps *produceSet) []VerifProdPart {
	if ps == nil {
		return nil
	}
	var out []VerifProdPart
	for topic, parts := range ps.msgs {
		for partition, set := range parts {
			vp := VerifProdPart{Topic: topic, Partition: partition}
			for _, m := range set.msgs {
				vp.Msgs = append(vp.Msgs, *verifMsg(p, m))
			}
			out = append(out, vp)
		}
	}
	sort.Slice(out, func(i, j int) bool {
		if out[i].Topic != out[j].Topic {
			return out[i].Topic < out[j].Topic
		}
		return out[i].Partition < out[j].Partition
	})
	return out
}

func verifPP(e *VerifProdEvent, pp *partitionProducer) {
	e.Actor, e.Producer = pp, pp.parent
	e.Topic, e.Partition = pp.topic, pp.partition
	e.HWM = pp.highWatermark
	e.HasBP = pp.brokerProducer != nil
	e.Leader = -1
	if pp.leader != nil {
		e.Leader = pp.leader.ID()
	}
	for _, rs := range pp.retryState {
		e.LevelBufLen = append(e.LevelBufLen, len(rs.buf))
		e.LevelChaser = append(e.LevelChaser, rs.expectChaser)
	}
	e.TxnEpoch = verifTxnEpoch(pp.parent)
}

func verifTxnEpoch(p *asyncProducer) int16 {
	_, ep := p.txnmgr.getProducerID()
	return ep
}

func verifBP(e *VerifProdEvent, bp *brokerProducer) {
	e.Actor, e.Producer = bp, bp.parent
	e.Leader = bp.broker.ID()
	e.BufCount, e.BufBytes, e.BufEpoch = bp.buffer.bufferCount, bp.buffer.bufferBytes, bp.buffer.producerEpoch
	e.Closing = bp.closing != nil
	e.TimerSet, e.TimerFired = bp.timer != nil, bp.timerFired
	e.TxnEpoch = verifTxnEpoch(bp.parent)
}

// VerifProducerDecode turns the arguments of a producer hook point into a VerifProdEvent (nil for points of
// other components).
func VerifProducerDecode(kind string, args []interface{}) *VerifProdEvent {
	e := &VerifProdEvent{Kind: kind, Leader: -1}
	switch kind {
	case "dispatcher.recv":
		p := args[2].(*asyncProducer)
		e.Producer, e.Msg, e.Flag = p, verifMsg(p, args[0].(*ProducerMessage)), args[1].(bool)
	case "return.rawerror", "return.error", "retry.enqueue":
		p := args[2].(*asyncProducer)
		e.Producer, e.Msg = p, verifMsg(p, args[0].(*ProducerMessage))
		if err, ok := args[1].(error); ok {
			e.Err = VerifProdErrClass(err)
		}
		e.TxnEpoch = verifTxnEpoch(p)
	case "dispatcher.forward", "tp.recv", "tp.forward", "return.success", "rh.recv":
		p := args[1].(*asyncProducer)
		e.Producer, e.Msg = p, verifMsg(p, args[0].(*ProducerMessage))
	case "rh.forward":
		p := args[1].(*asyncProducer)
		e.Producer, e.Msg = p, verifMsg(p, args[0].(*ProducerMessage))
	case "pp.start", "pp.abandon", "pp.flush.level":
		verifPP(e, args[0].(*partitionProducer))
	case "pp.recv", "pp.send":
		pp := args[1].(*partitionProducer)
		verifPP(e, pp)
		e.Msg = verifMsg(pp.parent, args[0].(*ProducerMessage))
	case "pp.newHWM":
		verifPP(e, args[0].(*partitionProducer))
		e.HWM = args[1].(int)
	case "pp.leader":
		verifPP(e, args[0].(*partitionProducer))
		if err, ok := args[1].(error); ok && err != nil {
			e.Err = VerifProdErrClass(err)
			e.Leader = -1
		}
	case "bridge.send":
		bp := args[0].(*brokerProducer)
		e.Actor, e.Producer, e.Leader = bp, bp.parent, bp.broker.ID()
		e.Set = verifSet(bp.parent, args[1].(*produceSet))
	case "bp.closed", "bp.timer", "bp.flush", "bp.rollover", "bp.shutdown", "bp.shutdown.end":
		bp := args[0].(*brokerProducer)
		verifBP(e, bp)
		if kind == "bp.flush" {
			// the set that was just handed to the bridge is still bp.buffer here (rollOver follows)
			e.Set = verifSet(bp.parent, bp.buffer)
		}
	case "bp.recv", "bp.add":
		bp := args[1].(*brokerProducer)
		m := args[0].(*ProducerMessage)
		verifBP(e, bp)
		e.Msg = verifMsg(bp.parent, m)
		if kind == "bp.recv" {
			e.Topic, e.Partition = m.Topic, m.Partition
			e.Retrying = bp.currentRetries[m.Topic][m.Partition] != nil
			if m.flags == 0 {
				e.Overflow = bp.buffer.wouldOverflow(m)
			}
		}
	case "bp.waitForSpace":
		bp := args[1].(*brokerProducer)
		verifBP(e, bp)
		e.Msg = verifMsg(bp.parent, args[0].(*ProducerMessage))
		e.Flag = args[2].(bool)
	case "bp.response":
		bp := args[0].(*brokerProducer)
		r := args[1].(*brokerProducerResponse)
		verifBP(e, bp)
		e.Set = verifSet(bp.parent, r.set)
		e.RespErr = VerifProdErrClass(r.err)
		e.RespNil = r.res == nil
		for i := range e.Set {
			switch {
			case r.err != nil:
			case r.res == nil:
				e.Set[i].Verdict = -2
			default:
				blk := r.res.GetBlock(e.Set[i].Topic, e.Set[i].Partition)
				if blk == nil {
					e.Set[i].Verdict = -1
				} else {
					e.Set[i].Verdict = VerifProdErrClass(blk.Err)
					e.Set[i].Offset = blk.Offset
				}
			}
		}
	case "retryBatch.start":
		p := args[0].(*asyncProducer)
		e.Producer, e.Topic, e.Partition = p, args[1].(string), args[2].(int32)
		pset := args[3].(*partitionSet)
		vp := VerifProdPart{Topic: e.Topic, Partition: e.Partition}
		for _, m := range pset.msgs {
			vp.Msgs = append(vp.Msgs, *verifMsg(p, m))
		}
		e.Set = []VerifProdPart{vp}
		e.Err = VerifProdErrClass(args[4].(KError))
		e.TxnEpoch = verifTxnEpoch(p)
	case "retryBatch.leader":
		p := args[0].(*asyncProducer)
		e.Producer = p
		if b, ok := args[1].(*Broker); ok && b != nil {
			e.Leader = b.ID()
		}
		if err, ok := args[2].(error); ok && err != nil {
			e.Err = VerifProdErrClass(err)
			e.Leader = -1
		}
	case "retryBatch.send":
		p := args[0].(*asyncProducer)
		bp := args[1].(*brokerProducer)
		e.Producer, e.Actor, e.Leader = p, bp, bp.broker.ID()
		e.Set = verifSet(p, args[2].(*produceSet))
	case "shutdown.begin", "shutdown.wake", "shutdown.end":
		e.Producer = args[0].(*asyncProducer)
	case "registry.abandon":
		e.Producer = args[0].(*asyncProducer)
		if b, ok := args[1].(*Broker); ok && b != nil {
			e.Leader = b.ID()
		}
	default:
		return nil
	}
	return e
}
