//go:build verif

package sarama

import (
	"fmt"
	"time"

	"github.com/eapache/go-resiliency/breaker"
)

// In-package access for go/harness/cmd/decgencorr: runs the small decision functions that go/decgen
// translates, on explicit inputs, so that the generated Gallina definitions can be compared with them.
// Added by -overlay at build time; nothing is written to the repository.

// VerifDecgenPOM runs one operation of a partition offset manager whose fields are set directly.
// op: 0 MarkOffset, 1 ResetOffset, 2 updateCommitted, 3 NextOffset.
func VerifDecgenPOM(op int, off0 int64, meta0 string, dirty0 bool, initial int64, off int64, meta string) (o int64, m string, d bool, r int64, rm string) {
	conf := NewConfig()
	conf.Consumer.Offsets.Initial = initial
	pom := &partitionOffsetManager{parent: &offsetManager{conf: conf}, offset: off0, metadata: meta0, dirty: dirty0}
	switch op {
	case 0:
		pom.MarkOffset(off, meta)
	case 1:
		pom.ResetOffset(off, meta)
	case 2:
		pom.updateCommitted(off, meta)
	case 3:
		r, rm = pom.NextOffset()
	}
	return pom.offset, pom.metadata, pom.dirty, r, rm
}

// VerifDecgenCommitVerdict runs offsetManager.handleResponse for one partition offset manager that has a block
// (blockOff, blockMeta) in the request and whose own offset/metadata equal the block's, so that a call of
// updateCommitted is visible as dirty becoming false.
func VerifDecgenCommitVerdict(topicIn, present bool, kerr int16, blockOff int64, blockMeta string) (updated, released bool, errs []error) {
	conf := NewConfig()
	conf.Consumer.Return.Errors = true
	b := &Broker{}
	om := &offsetManager{conf: conf, broker: b, poms: map[string]map[int32]*partitionOffsetManager{}}
	pom := &partitionOffsetManager{parent: om, topic: "t", partition: 3, offset: blockOff, metadata: blockMeta, dirty: true,
		errors: make(chan *ConsumerError, 8)}
	om.poms["t"] = map[int32]*partitionOffsetManager{3: pom}
	req := &OffsetCommitRequest{}
	req.AddBlock("t", 3, blockOff, 0, blockMeta)
	resp := &OffsetCommitResponse{Errors: map[string]map[int32]KError{}}
	if topicIn {
		resp.Errors["t"] = map[int32]KError{}
		if present {
			resp.Errors["t"][3] = KError(kerr)
		}
	}
	om.handleResponse(b, req, resp)
	close(pom.errors)
	for e := range pom.errors {
		errs = append(errs, e.Err)
	}
	return !pom.dirty, om.broker == nil, errs
}

func VerifDecgenByteSize(m *ProducerMessage, version int) int { return m.byteSize(version) }

// VerifDecgenPS builds a produce set with the given counters (partBytes < 0: no partition set for the message's
// topic/partition; topicPresent without partition set: the topic map exists but is empty) and evaluates
// empty / readyToFlush / wouldOverflow.
func VerifDecgenPS(conf *Config, bufBytes, bufCount int, topicPresent bool, partBytes int, msg *ProducerMessage) (empty, ready, overflow bool) {
	ps := &produceSet{parent: &asyncProducer{conf: conf}, msgs: map[string]map[int32]*partitionSet{}, bufferBytes: bufBytes, bufferCount: bufCount}
	if topicPresent {
		ps.msgs[msg.Topic] = map[int32]*partitionSet{}
		if partBytes >= 0 {
			ps.msgs[msg.Topic][msg.Partition] = &partitionSet{bufferBytes: partBytes}
		}
	}
	return ps.empty(), ps.readyToFlush(), ps.wouldOverflow(msg)
}

// VerifDecgenRetryMessage runs asyncProducer.retryMessage on a message with the given retry count.
func VerifDecgenRetryMessage(retries, max int, err error) (retriesAfter int, retried bool, returned error) {
	conf := NewConfig()
	conf.Producer.Retry.Max = max
	conf.Producer.Return.Errors = true
	p := &asyncProducer{conf: conf, retries: make(chan *ProducerMessage, 1), errors: make(chan *ProducerError, 1)}
	p.inFlight.Add(1)
	msg := &ProducerMessage{Topic: "t", retries: retries}
	p.retryMessage(msg, err)
	select {
	case <-p.retries:
		retried = true
		retriesAfter = msg.retries
	default:
	}
	select {
	case pe := <-p.errors:
		returned = pe.Err
	default:
	}
	return
}

// VerifDecgenRetryOnError runs clusterAdmin.retryOnError with fn scripted by results (nil after the script ends).
func VerifDecgenRetryOnError(max int, results []error, retryable func(error) bool) (err error, calls int) {
	conf := NewConfig()
	conf.Admin.Retry.Max = max
	conf.Admin.Retry.Backoff = 0
	ca := &clusterAdmin{conf: conf}
	err = ca.retryOnError(retryable, func() error {
		calls++
		if calls <= len(results) {
			return results[calls-1]
		}
		return nil
	})
	return
}

func VerifDecgenIsErrNoController(err error) bool { return isErrNoController(err) }

func VerifDecgenDependsOnSpecificNode(t ConfigResourceType, name string) bool {
	return dependsOnSpecificNode(ConfigResource{Type: t, Name: name})
}

func VerifDecgenVersion(a, b, c, d uint) KafkaVersion { return newKafkaVersion(a, b, c, d) }

// ---------------------------------------------------------------- second wave

// VerifDecgenPartitionMessage runs topicProducer.partitionMessage of a fresh topic producer (closed breaker).
func VerifDecgenPartitionMessage(p Partitioner, c Client, msg *ProducerMessage) error {
	tp := &topicProducer{parent: &asyncProducer{client: c}, partitioner: p, breaker: breaker.New(3, 1, 10*time.Second)}
	return tp.partitionMessage(msg)
}

// VerifDecgenNeedsRetry runs brokerProducer.needsRetry; hasEntry: currentRetries has an entry (cur) for the message.
func VerifDecgenNeedsRetry(closing error, hasTopic, hasEntry bool, cur error) error {
	bp := &brokerProducer{closing: closing, currentRetries: map[string]map[int32]error{}}
	if hasTopic {
		bp.currentRetries["t"] = map[int32]error{}
		if hasEntry {
			bp.currentRetries["t"][1] = cur
		}
	}
	return bp.needsRetry(&ProducerMessage{Topic: "t", Partition: 1})
}

// VerifDecgenSeqEntry is one sequence-number map entry, keyed the way the harness expects the producer to key it.
type VerifDecgenSeqEntry struct {
	Topic     string
	Partition int32
	Value     int32
}

func verifDecgenTxn(epoch int16, entries []VerifDecgenSeqEntry) *transactionManager {
	t := &transactionManager{producerID: 7, producerEpoch: epoch, sequenceNumbers: map[string]int32{}}
	for _, e := range entries {
		t.sequenceNumbers[fmt.Sprintf("%s-%d", e.Topic, e.Partition)] = e.Value
	}
	return t
}

// VerifDecgenGetSeq runs getAndIncrementSequenceNumber; returns its results and the map afterwards (by key string).
func VerifDecgenGetSeq(epoch int16, entries []VerifDecgenSeqEntry, topic string, partition int32) (int32, int16, map[string]int32) {
	t := verifDecgenTxn(epoch, entries)
	s, e := t.getAndIncrementSequenceNumber(topic, partition)
	return s, e, t.sequenceNumbers
}

// VerifDecgenBumpEpoch runs bumpEpoch; returns the epoch and the map afterwards.
func VerifDecgenBumpEpoch(epoch int16, entries []VerifDecgenSeqEntry) (int16, map[string]int32) {
	t := verifDecgenTxn(epoch, entries)
	t.bumpEpoch()
	return t.producerEpoch, t.sequenceNumbers
}

// VerifDecgenRollOver runs brokerProducer.rollOver on a broker producer with a pending, fired timer.
func VerifDecgenRollOver() (timerNil, timerFired, newBuffer bool) {
	conf := NewConfig()
	parent := &asyncProducer{conf: conf, txnmgr: &transactionManager{producerID: noProducerID}}
	old := newProduceSet(parent)
	bp := &brokerProducer{parent: parent, buffer: old, timer: time.After(time.Hour), timerFired: true}
	bp.rollOver()
	return bp.timer == nil, bp.timerFired, bp.buffer != old && bp.buffer != nil && bp.buffer.empty()
}

// VerifDecgenAddBlock runs OffsetCommitRequest.AddBlock on a request whose block maps are nil / present as told.
func VerifDecgenAddBlock(blocksNil, topicNil bool, topic string, partition int32, offset, timestamp int64, metadata string) (outerMade, innerMade bool, o, ts int64, m string) {
	r := &OffsetCommitRequest{}
	if !blocksNil {
		r.blocks = map[string]map[int32]*offsetCommitRequestBlock{}
		if !topicNil {
			r.blocks[topic] = map[int32]*offsetCommitRequestBlock{}
		}
	}
	var inner map[int32]*offsetCommitRequestBlock
	if r.blocks != nil {
		inner = r.blocks[topic]
	}
	r.AddBlock(topic, partition, offset, timestamp, metadata)
	b := r.blocks[topic][partition]
	return blocksNil && r.blocks != nil, inner == nil && r.blocks[topic] != nil, b.offset, b.timestamp, b.metadata
}
