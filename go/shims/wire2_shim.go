//go:build verif

package sarama

import (
	"fmt"
	"runtime/debug"
)

// In-package access for the C09/C10 format-layer harnesses (go/harness/cmd/c09fmt, c10fmt).
// Added by -overlay; nothing is written to the repository.

// VerifWire2Bodies: constructors of every protocol body (and of the group-member data types) by type name.
// The list mirrors the rows go/wiregen finds in the tree; the harness reports a row without a constructor.
var VerifWire2Bodies = map[string]func() interface{}{
	"AddOffsetsToTxnRequest": func() interface{} { return new(AddOffsetsToTxnRequest) },
	"AddOffsetsToTxnResponse": func() interface{} { return new(AddOffsetsToTxnResponse) },
	"AddPartitionsToTxnRequest": func() interface{} { return new(AddPartitionsToTxnRequest) },
	"AddPartitionsToTxnResponse": func() interface{} { return new(AddPartitionsToTxnResponse) },
	"AlterConfigsRequest": func() interface{} { return new(AlterConfigsRequest) },
	"AlterConfigsResponse": func() interface{} { return new(AlterConfigsResponse) },
	"AlterPartitionReassignmentsRequest": func() interface{} { return new(AlterPartitionReassignmentsRequest) },
	"AlterPartitionReassignmentsResponse": func() interface{} { return new(AlterPartitionReassignmentsResponse) },
	"AlterUserScramCredentialsRequest": func() interface{} { return new(AlterUserScramCredentialsRequest) },
	"AlterUserScramCredentialsResponse": func() interface{} { return new(AlterUserScramCredentialsResponse) },
	"ApiVersionsRequest": func() interface{} { return new(ApiVersionsRequest) },
	"ApiVersionsResponse": func() interface{} { return new(ApiVersionsResponse) },
	"ConsumerGroupMemberAssignment": func() interface{} { return new(ConsumerGroupMemberAssignment) },
	"ConsumerGroupMemberMetadata": func() interface{} { return new(ConsumerGroupMemberMetadata) },
	"ConsumerMetadataRequest": func() interface{} { return new(ConsumerMetadataRequest) },
	"ConsumerMetadataResponse": func() interface{} { return new(ConsumerMetadataResponse) },
	"CreateAclsRequest": func() interface{} { return new(CreateAclsRequest) },
	"CreateAclsResponse": func() interface{} { return new(CreateAclsResponse) },
	"CreatePartitionsRequest": func() interface{} { return new(CreatePartitionsRequest) },
	"CreatePartitionsResponse": func() interface{} { return new(CreatePartitionsResponse) },
	"CreateTopicsRequest": func() interface{} { return new(CreateTopicsRequest) },
	"CreateTopicsResponse": func() interface{} { return new(CreateTopicsResponse) },
	"DeleteAclsRequest": func() interface{} { return new(DeleteAclsRequest) },
	"DeleteAclsResponse": func() interface{} { return new(DeleteAclsResponse) },
	"DeleteGroupsRequest": func() interface{} { return new(DeleteGroupsRequest) },
	"DeleteGroupsResponse": func() interface{} { return new(DeleteGroupsResponse) },
	"DeleteRecordsRequest": func() interface{} { return new(DeleteRecordsRequest) },
	"DeleteRecordsResponse": func() interface{} { return new(DeleteRecordsResponse) },
	"DeleteTopicsRequest": func() interface{} { return new(DeleteTopicsRequest) },
	"DeleteTopicsResponse": func() interface{} { return new(DeleteTopicsResponse) },
	"DescribeAclsRequest": func() interface{} { return new(DescribeAclsRequest) },
	"DescribeAclsResponse": func() interface{} { return new(DescribeAclsResponse) },
	"DescribeConfigsRequest": func() interface{} { return new(DescribeConfigsRequest) },
	"DescribeConfigsResponse": func() interface{} { return new(DescribeConfigsResponse) },
	"DescribeGroupsRequest": func() interface{} { return new(DescribeGroupsRequest) },
	"DescribeGroupsResponse": func() interface{} { return new(DescribeGroupsResponse) },
	"DescribeLogDirsRequest": func() interface{} { return new(DescribeLogDirsRequest) },
	"DescribeLogDirsResponse": func() interface{} { return new(DescribeLogDirsResponse) },
	"DescribeUserScramCredentialsRequest": func() interface{} { return new(DescribeUserScramCredentialsRequest) },
	"DescribeUserScramCredentialsResponse": func() interface{} { return new(DescribeUserScramCredentialsResponse) },
	"EndTxnRequest": func() interface{} { return new(EndTxnRequest) },
	"EndTxnResponse": func() interface{} { return new(EndTxnResponse) },
	"FetchRequest": func() interface{} { return new(FetchRequest) },
	"FetchResponse": func() interface{} { return new(FetchResponse) },
	"FindCoordinatorRequest": func() interface{} { return new(FindCoordinatorRequest) },
	"FindCoordinatorResponse": func() interface{} { return new(FindCoordinatorResponse) },
	"HeartbeatRequest": func() interface{} { return new(HeartbeatRequest) },
	"HeartbeatResponse": func() interface{} { return new(HeartbeatResponse) },
	"IncrementalAlterConfigsRequest": func() interface{} { return new(IncrementalAlterConfigsRequest) },
	"IncrementalAlterConfigsResponse": func() interface{} { return new(IncrementalAlterConfigsResponse) },
	"InitProducerIDRequest": func() interface{} { return new(InitProducerIDRequest) },
	"InitProducerIDResponse": func() interface{} { return new(InitProducerIDResponse) },
	"JoinGroupRequest": func() interface{} { return new(JoinGroupRequest) },
	"JoinGroupResponse": func() interface{} { return new(JoinGroupResponse) },
	"LeaveGroupRequest": func() interface{} { return new(LeaveGroupRequest) },
	"LeaveGroupResponse": func() interface{} { return new(LeaveGroupResponse) },
	"ListGroupsRequest": func() interface{} { return new(ListGroupsRequest) },
	"ListGroupsResponse": func() interface{} { return new(ListGroupsResponse) },
	"ListPartitionReassignmentsRequest": func() interface{} { return new(ListPartitionReassignmentsRequest) },
	"ListPartitionReassignmentsResponse": func() interface{} { return new(ListPartitionReassignmentsResponse) },
	"MetadataRequest": func() interface{} { return new(MetadataRequest) },
	"MetadataResponse": func() interface{} { return new(MetadataResponse) },
	"OffsetCommitRequest": func() interface{} { return new(OffsetCommitRequest) },
	"OffsetCommitResponse": func() interface{} { return new(OffsetCommitResponse) },
	"OffsetFetchRequest": func() interface{} { return new(OffsetFetchRequest) },
	"OffsetFetchResponse": func() interface{} { return new(OffsetFetchResponse) },
	"OffsetRequest": func() interface{} { return new(OffsetRequest) },
	"OffsetResponse": func() interface{} { return new(OffsetResponse) },
	"ProduceRequest": func() interface{} { return new(ProduceRequest) },
	"ProduceResponse": func() interface{} { return new(ProduceResponse) },
	"SaslAuthenticateRequest": func() interface{} { return new(SaslAuthenticateRequest) },
	"SaslAuthenticateResponse": func() interface{} { return new(SaslAuthenticateResponse) },
	"SaslHandshakeRequest": func() interface{} { return new(SaslHandshakeRequest) },
	"SaslHandshakeResponse": func() interface{} { return new(SaslHandshakeResponse) },
	"StickyAssignorUserDataV0": func() interface{} { return new(StickyAssignorUserDataV0) },
	"StickyAssignorUserDataV1": func() interface{} { return new(StickyAssignorUserDataV1) },
	"SyncGroupRequest": func() interface{} { return new(SyncGroupRequest) },
	"SyncGroupResponse": func() interface{} { return new(SyncGroupResponse) },
	"TxnOffsetCommitRequest": func() interface{} { return new(TxnOffsetCommitRequest) },
	"TxnOffsetCommitResponse": func() interface{} { return new(TxnOffsetCommitResponse) },
}

// VerifWire2Encode runs the sizing pass and the writing pass separately.
// prep: length computed by prepEncoder; off: bytes written by realEncoder.
func VerifWire2Encode(body interface{}) (raw []byte, prep int, off int, err error, panicked interface{}) {
	defer func() {
		if r := recover(); r != nil {
			panicked = r
		}
	}()
	e, ok := body.(encoder)
	if !ok {
		return nil, 0, 0, fmt.Errorf("%T is not an encoder", body), nil
	}
	var prepEnc prepEncoder
	if err = e.encode(&prepEnc); err != nil {
		return nil, 0, 0, err, nil
	}
	prep = prepEnc.length
	if prep < 0 || prep > 1<<26 {
		return nil, prep, 0, fmt.Errorf("unreasonable size %d", prep), nil
	}
	realEnc := realEncoder{raw: make([]byte, prep)}
	if err = e.encode(&realEnc); err != nil {
		return nil, prep, realEnc.off, err, nil
	}
	return realEnc.raw, prep, realEnc.off, nil, nil
}

// VerifWire2Decode decodes buf into body exactly as the client does (the whole buffer must be consumed).
// A panic is recovered and reported with the stack of the panicking goroutine.
func VerifWire2Decode(body interface{}, buf []byte, version int16) (err error, panicked interface{}) {
	err, panicked, _ = VerifWire2DecodeStack(body, buf, version)
	return
}

func VerifWire2DecodeStack(body interface{}, buf []byte, version int16) (err error, panicked interface{}, stack string) {
	defer func() {
		if r := recover(); r != nil {
			panicked = r
			stack = string(debug.Stack())
		}
	}()
	if buf == nil {
		buf = []byte{}
	}
	switch d := body.(type) {
	case versionedDecoder:
		return versionedDecode(buf, d, version), nil, ""
	case decoder:
		return decode(buf, d), nil, ""
	}
	return fmt.Errorf("%T is not a decoder", body), nil, ""
}

// VerifWire2Mark is the position of a count / length field in an encoding.
type VerifWire2Mark struct {
	Off  int
	Kind string // arr carr str cstr bytes cbytes i32arr
}

type wire2MarkEncoder struct {
	realEncoder
	marks []VerifWire2Mark
}

func (m *wire2MarkEncoder) mark(k string) { m.marks = append(m.marks, VerifWire2Mark{m.off, k}) }

func (m *wire2MarkEncoder) putArrayLength(in int) error {
	m.mark("arr")
	return m.realEncoder.putArrayLength(in)
}
func (m *wire2MarkEncoder) putCompactArrayLength(in int) {
	m.mark("carr")
	m.realEncoder.putCompactArrayLength(in)
}
func (m *wire2MarkEncoder) putString(in string) error {
	m.mark("str")
	return m.realEncoder.putString(in)
}
func (m *wire2MarkEncoder) putNullableString(in *string) error {
	m.mark("str")
	return m.realEncoder.putNullableString(in)
}
func (m *wire2MarkEncoder) putCompactString(in string) error {
	m.mark("cstr")
	return m.realEncoder.putCompactString(in)
}
func (m *wire2MarkEncoder) putNullableCompactString(in *string) error {
	m.mark("cstr")
	return m.realEncoder.putNullableCompactString(in)
}
func (m *wire2MarkEncoder) putBytes(in []byte) error {
	m.mark("bytes")
	return m.realEncoder.putBytes(in)
}
func (m *wire2MarkEncoder) putCompactBytes(in []byte) error {
	m.mark("cbytes")
	return m.realEncoder.putCompactBytes(in)
}
func (m *wire2MarkEncoder) putInt32Array(in []int32) error {
	m.mark("i32arr")
	return m.realEncoder.putInt32Array(in)
}
func (m *wire2MarkEncoder) putInt64Array(in []int64) error {
	m.mark("i32arr")
	return m.realEncoder.putInt64Array(in)
}
func (m *wire2MarkEncoder) putStringArray(in []string) error {
	m.mark("i32arr")
	return m.realEncoder.putStringArray(in)
}
func (m *wire2MarkEncoder) putCompactInt32Array(in []int32) error {
	m.mark("carr")
	return m.realEncoder.putCompactInt32Array(in)
}
func (m *wire2MarkEncoder) putNullableCompactInt32Array(in []int32) error {
	m.mark("carr")
	return m.realEncoder.putNullableCompactInt32Array(in)
}

// VerifWire2Marks encodes body and reports where its count and length fields are.
func VerifWire2Marks(body interface{}, size int) (marks []VerifWire2Mark, err error) {
	defer func() {
		if r := recover(); r != nil {
			err = fmt.Errorf("panic: %v", r)
		}
	}()
	e, ok := body.(encoder)
	if !ok {
		return nil, fmt.Errorf("%T is not an encoder", body)
	}
	m := &wire2MarkEncoder{realEncoder: realEncoder{raw: make([]byte, size)}}
	if err := e.encode(m); err != nil {
		return nil, err
	}
	return m.marks, nil
}

// VerifWire2StickyUserData is deserializeTopicPartitionAssignment (the sticky assignor reading the user data another
// member wrote): the decoded value (*StickyAssignorUserDataV1 or *StickyAssignorUserDataV0) or an error.
func VerifWire2StickyUserData(b []byte) (data interface{}, err error, panicked interface{}) {
	defer func() {
		if r := recover(); r != nil {
			panicked = r
		}
	}()
	d, err := deserializeTopicPartitionAssignment(b)
	if err != nil {
		return nil, err, nil
	}
	return d, nil, nil
}
