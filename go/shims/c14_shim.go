//go:build verif
// +build verif

package sarama

// VerifC14SetCorrelationID sets the next correlation id of an open, idle broker connection
// (used by the C14 harness to exercise the int32 wrap-around of b.correlationID).
func VerifC14SetCorrelationID(b *Broker, id int32) {
	b.lock.Lock()
	b.correlationID = id
	b.lock.Unlock()
}
