//go:build verif

package sarama

import (
	"time"

	"github.com/eapache/go-resiliency/breaker"
)

// In-package access for the C17 correspondence harness (added by -overlay; nothing is written to the repository).

// VerifC17FallbackOption is WithCustomFallbackPartitioner(p) for a Partitioner holding a *hashPartitioner
// (the parameter type cannot be named outside the package). A nil argument gives the nil pointer.
func VerifC17FallbackOption(p Partitioner) HashPartitionerOption {
	if p == nil {
		return WithCustomFallbackPartitioner(nil)
	}
	return WithCustomFallbackPartitioner(p.(*hashPartitioner))
}

// VerifC17FallbackCycle reports whether following the `random` field of a hash partitioner comes back to a
// partitioner already visited (a keyless message would then recurse without end).
func VerifC17FallbackCycle(p Partitioner) bool {
	seen := map[*hashPartitioner]bool{}
	for {
		hp, ok := p.(*hashPartitioner)
		if !ok || hp == nil {
			return false
		}
		if seen[hp] {
			return true
		}
		seen[hp] = true
		p = hp.random
	}
}

// VerifC17Route runs topicProducer.partitionMessage of a fresh topic producer (fresh circuit breaker) that uses
// the given client and partitioner.
func VerifC17Route(c Client, conf *Config, p Partitioner, msg *ProducerMessage) error {
	tp := &topicProducer{
		parent:      &asyncProducer{client: c, conf: conf},
		topic:       msg.Topic,
		breaker:     breaker.New(3, 1, 10*time.Second),
		handlers:    make(map[int32]chan<- *ProducerMessage),
		partitioner: p,
	}
	return tp.partitionMessage(msg)
}

// VerifC17Record is one record of a produce request as the broker received it.
type VerifC17Record struct {
	Topic     string
	Partition int32
	Key       []byte
	Value     []byte
}

// VerifC17ProduceRecords lists the records of a produce request (legacy message sets and record batches).
func VerifC17ProduceRecords(req *ProduceRequest) []VerifC17Record {
	var out []VerifC17Record
	for topic, parts := range req.records {
		for partition, recs := range parts {
			if recs.MsgSet != nil {
				for _, mb := range recs.MsgSet.Messages {
					out = append(out, VerifC17Record{topic, partition, mb.Msg.Key, mb.Msg.Value})
				}
			}
			if recs.RecordBatch != nil {
				for _, r := range recs.RecordBatch.Records {
					out = append(out, VerifC17Record{topic, partition, r.Key, r.Value})
				}
			}
		}
	}
	return out
}
