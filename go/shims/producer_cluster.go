//go:build verif
// +build verif

package sarama

// In-package part of the harness' cluster simulator (go/harness/internal/cluster): scripted MockBroker
// handlers over exported values, a way to drop the connection instead of answering, and a reader for the
// records of a decoded ProduceRequest. Added by -overlay; nothing is written to /repo.

import (
	"io"
	"reflect"
)

// VerifProdDrop as a handler result makes the mock broker close the connection without answering.
type VerifProdDrop struct{}

type verifProdDropper struct{}

func (verifProdDropper) encode(pe packetEncoder) error { return io.EOF }
func (verifProdDropper) headerVersion() int16          { return 0 }

// VerifProdSetHandler installs a scripted handler on a MockBroker. The callback gets the Go type name of
// the request body ("ProduceRequest", "MetadataRequest", ...) and the decoded body; it returns nil (stay
// silent), VerifProdDrop{} (close the connection) or a pointer to a response struct of package sarama.
// It runs under the mock broker's lock: one request of that broker at a time.
func (b *MockBroker) VerifProdSetHandler(h func(kind string, body interface{}) interface{}) {
	b.setHandler(func(req *request) encoderWithHeader {
		switch r := h(reflect.TypeOf(req.body).Elem().Name(), req.body).(type) {
		case nil:
			return nil
		case VerifProdDrop:
			return verifProdDropper{}
		case encoderWithHeader:
			return r
		default:
			panic("VerifProdSetHandler: unsupported answer " + reflect.TypeOf(r).String())
		}
	})
}

// VerifProdBatch is one partition's part of a produce request as the broker decoded it.
type VerifProdBatch struct {
	Topic         string
	Partition     int32
	Values        [][]byte
	Keys          [][]byte
	HeaderCounts  []int
	HeaderKeys    [][]string
	ProducerID    int64
	ProducerEpoch int16
	FirstSequence int32
	IsBatch       bool // record batch (v2) rather than a legacy message set
}

// VerifProdRequestBatches lists the content of a produce request, sorted by topic and partition.
func VerifProdRequestBatches(req *ProduceRequest) []VerifProdBatch {
	var out []VerifProdBatch
	for topic, parts := range req.records {
		for partition, recs := range parts {
			vb := VerifProdBatch{Topic: topic, Partition: partition, ProducerID: -1, ProducerEpoch: -1}
			if recs.MsgSet != nil {
				for _, mb := range recs.MsgSet.Messages {
					vb.Keys = append(vb.Keys, mb.Msg.Key)
					vb.Values = append(vb.Values, mb.Msg.Value)
					vb.HeaderCounts = append(vb.HeaderCounts, 0)
					vb.HeaderKeys = append(vb.HeaderKeys, nil)
				}
			}
			if recs.RecordBatch != nil {
				vb.IsBatch = true
				vb.ProducerID, vb.ProducerEpoch = recs.RecordBatch.ProducerID, recs.RecordBatch.ProducerEpoch
				vb.FirstSequence = recs.RecordBatch.FirstSequence
				for _, r := range recs.RecordBatch.Records {
					vb.Keys = append(vb.Keys, r.Key)
					vb.Values = append(vb.Values, r.Value)
					vb.HeaderCounts = append(vb.HeaderCounts, len(r.Headers))
					var hk []string
					for _, h := range r.Headers {
						hk = append(hk, string(h.Key))
					}
					vb.HeaderKeys = append(vb.HeaderKeys, hk)
				}
			}
			out = append(out, vb)
		}
	}
	for i := 1; i < len(out); i++ { // insertion sort: tiny inputs, no extra import
		for j := i; j > 0 && (out[j].Topic < out[j-1].Topic || (out[j].Topic == out[j-1].Topic && out[j].Partition < out[j-1].Partition)); j-- {
			out[j], out[j-1] = out[j-1], out[j]
		}
	}
	return out
}

// VerifProdRequestAcks is the RequiredAcks value of a produce request.
func VerifProdRequestAcks(req *ProduceRequest) int16 { return int16(req.RequiredAcks) }
