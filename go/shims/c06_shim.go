//go:build verif
// +build verif

// Verification shim for C06 (added to package sarama by -overlay, never written to /repo):
// a scripted group coordinator on top of MockBroker, expressed over plain Go values, and access to
// the two halves of offsetManager.Commit so that the harness can place application calls between
// handleResponse and releasePOMs.
package sarama

import (
	"io"
	"sort"
)

// VerifC06Block is one partition block of a decoded OffsetCommitRequest.
type VerifC06Block struct {
	Topic     string
	Partition int32
	Offset    int64
	Timestamp int64
	Metadata  string
}

// VerifC06Commit is what the scripted coordinator sees of an OffsetCommitRequest.
type VerifC06Commit struct {
	Version    int16
	Retention  int64
	Group      string
	Generation int32
	MemberID   string
	Blocks     []VerifC06Block // sorted by (topic, partition)
}

// VerifC06Reply is the coordinator's answer to a commit. Drop closes the connection without
// answering; otherwise Errors lists the (topic, partition) entries present in the response.
type VerifC06Reply struct {
	Drop   bool
	Errors map[string]map[int32]int16
}

// VerifC06Coordinator is the script: every callback runs on the mock broker's connection
// goroutine while the client waits for the answer.
type VerifC06Coordinator struct {
	Topics            map[string][]int32
	OnFindCoordinator func() int16                                                 // Kafka error code, 0 = this broker
	OnFetch           func(topic string, partition int32) (int64, string, int16)   // stored offset, metadata, error
	OnCommit          func(VerifC06Commit) VerifC06Reply
}

type verifC06Drop struct{}

func (verifC06Drop) encode(pe packetEncoder) error { return io.EOF }
func (verifC06Drop) headerVersion() int16           { return 0 }

// VerifC06Install makes the mock broker act as seed broker and as group coordinator.
func (b *MockBroker) VerifC06Install(c *VerifC06Coordinator) {
	b.setHandler(func(req *request) encoderWithHeader {
		switch r := req.body.(type) {
		case *MetadataRequest:
			res := &MetadataResponse{Version: r.version()}
			res.AddBroker(b.Addr(), b.BrokerID())
			for t, ps := range c.Topics {
				for _, p := range ps {
					res.AddTopicPartition(t, p, b.BrokerID(), []int32{b.BrokerID()}, []int32{b.BrokerID()}, []int32{}, ErrNoError)
				}
			}
			return res
		case *FindCoordinatorRequest:
			code := c.OnFindCoordinator()
			res := &FindCoordinatorResponse{Version: r.Version, Err: KError(code)}
			if code == 0 {
				res.Coordinator = &Broker{id: b.BrokerID(), addr: b.Addr()}
			}
			return res
		case *OffsetFetchRequest:
			res := &OffsetFetchResponse{Version: r.Version}
			for t, ps := range r.partitions {
				for _, p := range ps {
					off, meta, code := c.OnFetch(t, p)
					res.AddBlock(t, p, &OffsetFetchResponseBlock{Offset: off, Metadata: meta, Err: KError(code)})
				}
			}
			return res
		case *OffsetCommitRequest:
			vc := VerifC06Commit{Version: r.Version, Retention: r.RetentionTime, Group: r.ConsumerGroup,
				Generation: r.ConsumerGroupGeneration, MemberID: r.ConsumerID}
			for t, ps := range r.blocks {
				for p, blk := range ps {
					vc.Blocks = append(vc.Blocks, VerifC06Block{Topic: t, Partition: p, Offset: blk.offset, Timestamp: blk.timestamp, Metadata: blk.metadata})
				}
			}
			sort.Slice(vc.Blocks, func(i, j int) bool {
				if vc.Blocks[i].Topic != vc.Blocks[j].Topic {
					return vc.Blocks[i].Topic < vc.Blocks[j].Topic
				}
				return vc.Blocks[i].Partition < vc.Blocks[j].Partition
			})
			rep := c.OnCommit(vc)
			if rep.Drop {
				return verifC06Drop{}
			}
			res := &OffsetCommitResponse{Version: r.Version}
			for t, ps := range rep.Errors {
				if len(ps) == 0 { // topic entry with no partition entries
					if res.Errors == nil {
						res.Errors = make(map[string]map[int32]KError)
					}
					res.Errors[t] = make(map[int32]KError)
				}
				for p, code := range ps {
					res.AddError(t, p, KError(code))
				}
			}
			return res
		}
		return nil
	})
}

// VerifC06Flush runs the first half of Commit (flushToBroker) on a manager created by
// NewOffsetManagerFromClient.
func VerifC06Flush(om OffsetManager) { om.(*offsetManager).flushToBroker() }

// VerifC06Release runs the second half of Commit (releasePOMs(false)) and returns what it returns.
func VerifC06Release(om OffsetManager) int { return om.(*offsetManager).releasePOMs(false) }

// ---- consumer-group session on top of the offset manager (consumer_group.go) ----

// VerifC06Session describes one member session: the assigned partitions of one topic, the offsets the group has
// stored for them, and the commit callback (the same vocabulary as the stand-alone coordinator above).
type VerifC06Session struct {
	Group      string
	Topic      string
	Partitions []int32
	Stored     map[int32]VerifC06Block // what OffsetFetch answers (absent: -1, "")
	OnCommit   func(VerifC06Commit) VerifC06Reply
}

type verifC06CommitMock struct{ s *VerifC06Session }

func (m verifC06CommitMock) For(reqBody versionedDecoder) encoderWithHeader {
	r := reqBody.(*OffsetCommitRequest)
	vc := VerifC06Commit{Version: r.Version, Retention: r.RetentionTime, Group: r.ConsumerGroup,
		Generation: r.ConsumerGroupGeneration, MemberID: r.ConsumerID}
	for t, ps := range r.blocks {
		for p, blk := range ps {
			vc.Blocks = append(vc.Blocks, VerifC06Block{Topic: t, Partition: p, Offset: blk.offset, Timestamp: blk.timestamp, Metadata: blk.metadata})
		}
	}
	sort.Slice(vc.Blocks, func(i, j int) bool {
		if vc.Blocks[i].Topic != vc.Blocks[j].Topic {
			return vc.Blocks[i].Topic < vc.Blocks[j].Topic
		}
		return vc.Blocks[i].Partition < vc.Blocks[j].Partition
	})
	rep := m.s.OnCommit(vc)
	res := &OffsetCommitResponse{Version: r.Version}
	for t, ps := range rep.Errors {
		for p, code := range ps {
			res.AddError(t, p, KError(code))
		}
	}
	return res
}

// VerifC06InstallSession makes the mock broker the only broker, the group coordinator (one-member group: every
// JoinGroup/SyncGroup hands the member all listed partitions) and the leader of the (empty) partitions.
func (b *MockBroker) VerifC06InstallSession(t TestReporter, s *VerifC06Session) {
	md := NewMockMetadataResponse(t).SetBroker(b.Addr(), b.BrokerID())
	of := NewMockOffsetFetchResponse(t)
	or := NewMockOffsetResponse(t).SetVersion(1)
	fr := NewMockFetchResponse(t, 1).SetVersion(3)
	for _, p := range s.Partitions {
		md.SetLeader(s.Topic, p, b.BrokerID())
		if st, ok := s.Stored[p]; ok {
			of.SetOffset(s.Group, s.Topic, p, st.Offset, st.Metadata, ErrNoError)
		} else {
			of.SetOffset(s.Group, s.Topic, p, -1, "", ErrNoError)
		}
		or.SetOffset(s.Topic, p, OffsetOldest, 0).SetOffset(s.Topic, p, OffsetNewest, 1000)
		fr.SetHighWaterMark(s.Topic, p, 1000)
	}
	b.SetHandlerByMap(map[string]MockResponse{
		"MetadataRequest":        md,
		"FindCoordinatorRequest": NewMockFindCoordinatorResponse(t).SetCoordinator(CoordinatorGroup, s.Group, b),
		"JoinGroupRequest": NewMockJoinGroupResponse(t).SetGenerationId(1).SetGroupProtocol("range").
			SetLeaderId("someone-else").SetMemberId("member-1"),
		"SyncGroupRequest": NewMockSyncGroupResponse(t).SetMemberAssignment(&ConsumerGroupMemberAssignment{
			Version: 1, Topics: map[string][]int32{s.Topic: s.Partitions}}),
		"HeartbeatRequest":    NewMockHeartbeatResponse(t),
		"LeaveGroupRequest":   NewMockLeaveGroupResponse(t),
		"OffsetFetchRequest":  of,
		"OffsetCommitRequest": verifC06CommitMock{s},
		"OffsetRequest":       or,
		"FetchRequest":        fr,
	})
}
