//go:build verif
// +build verif

// Verification shim (added to package sarama by -overlay, never written to /repo):
// scripted MockBroker handlers over plain Go values, for the C19 (admin) and C15 (client
// metadata) correspondence harnesses. MockResponse.For mentions unexported types, so a custom
// handler cannot be written outside the package.
package sarama

import (
	"io"
	"reflect"
)

// VerifC19Request is what a scripted handler sees of a request.
type VerifC19Request struct {
	Kind    string      // Go type name of the body, e.g. "CreateTopicsRequest"
	Version int16       // request version on the wire
	Body    interface{} // the decoded request (pointer to the exported request struct)
}

type verifC19Drop struct{}

func (verifC19Drop) encode(pe packetEncoder) error { return io.EOF }
func (verifC19Drop) headerVersion() int16           { return 0 }

// VerifC19Drop, returned from a handler, makes the mock broker close the connection without
// answering (the client sees a transport error in the middle of the request).
var VerifC19Drop interface{} = verifC19Drop{}

// VerifC19SetHandler installs a scripted handler. The handler returns a pointer to an exported
// response struct (e.g. *CreateTopicsResponse), VerifC19Drop, or nil (no answer at all).
// It runs under the mock broker's lock: requests of one broker are handled one at a time.
func (b *MockBroker) VerifC19SetHandler(h func(VerifC19Request) interface{}) {
	b.setHandler(func(req *request) encoderWithHeader {
		r := h(VerifC19Request{
			Kind:    reflect.TypeOf(req.body).Elem().Name(),
			Version: req.body.version(),
			Body:    req.body,
		})
		if r == nil {
			return nil
		}
		return r.(encoderWithHeader)
	})
}

// VerifC19Broker builds a *Broker value with an id (for FindCoordinatorResponse.Coordinator).
func VerifC19Broker(id int32, addr string) *Broker { return &Broker{id: id, addr: addr} }

// VerifC19OffsetFetchPartitions exposes the unexported partitions map of an OffsetFetchRequest.
func VerifC19OffsetFetchPartitions(r *OffsetFetchRequest) map[string][]int32 { return r.partitions }

// VerifC19AlterBlocks lists (topic, partition) pairs named by an AlterPartitionReassignmentsRequest.
func VerifC19AlterBlocks(r *AlterPartitionReassignmentsRequest) map[string][]int32 {
	out := map[string][]int32{}
	for t, ps := range r.blocks {
		for p := range ps {
			out[t] = append(out[t], p)
		}
	}
	return out
}
