//go:build verif
// +build verif

package sarama

import (
	"fmt"
	"runtime"
	"sync"
)

// In-package access for the C08/C13 harness (balance strategies). Added to package sarama by -overlay only.

// VerifRangeCore runs BalanceStrategyRange.coreFn on an explicit member order.
func VerifRangeCore(memberIDs []string, topic string, partitions []int32) BalanceStrategyPlan {
	plan := make(BalanceStrategyPlan)
	BalanceStrategyRange.coreFn(plan, memberIDs, topic, partitions)
	return plan
}

// VerifBalanceHash is balanceStrategyHashValue.
func VerifBalanceHash(vv ...string) uint32 { return balanceStrategyHashValue(vv...) }

// VerifTP is an exported topicPartitionAssignment.
type VerifTP struct {
	Topic     string
	Partition int32
}

// VerifStickyDecode is deserializeTopicPartitionAssignment: partitions() in their actual order, hasGeneration, generation.
func VerifStickyDecode(b []byte) (parts []VerifTP, hasGen bool, gen int, err error) {
	ud, err := deserializeTopicPartitionAssignment(b)
	if err != nil {
		return nil, false, 0, err
	}
	for _, p := range ud.partitions() {
		parts = append(parts, VerifTP{p.Topic, p.Partition})
	}
	return parts, ud.hasGeneration(), ud.generation(), nil
}

// VerifStickyEncodeV0 encodes user data in the generation-less V0 layout.
func VerifStickyEncodeV0(topics map[string][]int32) ([]byte, error) {
	return encode(&StickyAssignorUserDataV0{Topics: topics}, nil)
}

// VerifStickyTrace is what the sticky.iter.* / sticky.pick call sites reported during one Plan call.
type VerifStickyTrace struct {
	PrepopMembers  []string
	PrepopParts    []VerifTP
	PlanCurrent    []string
	PlanUnvisited  []VerifTP
	IdentParts     [][]string
	IdentMembers   [][]VerifTP
	SortUnassigned []VerifTP
	Picks          []VerifTP
	Events         int
	Reverted       bool           // the revert branch of balance() ran (sticky.revert)
	Other          map[string]int // reports of kinds this shim does not know (scratch instrumentation)
	Score          []int          // scratch instrumentation: current score, pre-balance score, initializing, performed, fixed
	Mu             sync.Mutex     // guards the fields above while Plan is still running (watchdog reads)
}

// VerifStickyPlan runs a fresh stickyBalanceStrategy.Plan with the observer installed; a panic is recovered and reported.
func VerifStickyPlan(members map[string]ConsumerGroupMemberMetadata, topics map[string][]int32) (plan BalanceStrategyPlan, tr *VerifStickyTrace, err error, panicked string) {
	tr = &VerifStickyTrace{}
	plan, err, panicked = VerifStickyPlanInto(tr, members, topics)
	return
}

// VerifSticky is a sticky strategy value that can be reused across Plan calls (as the BalanceStrategySticky singleton is by
// real consumer groups).
type VerifSticky struct{ s *stickyBalanceStrategy }

// VerifNewSticky returns a fresh strategy value.
func VerifNewSticky() *VerifSticky { return &VerifSticky{s: &stickyBalanceStrategy{}} }

// VerifStickyPlanInto is VerifStickyPlan reporting into a trace the caller already holds (so that a watchdog can read
// what was reported when Plan does not return).
func VerifStickyPlanInto(tr *VerifStickyTrace, members map[string]ConsumerGroupMemberMetadata, topics map[string][]int32) (plan BalanceStrategyPlan, err error, panicked string) {
	return VerifStickyPlanOn(nil, tr, members, topics)
}

// VerifStickyPlanOn runs Plan on the given strategy value (nil: a fresh one).
func VerifStickyPlanOn(inst *VerifSticky, tr *VerifStickyTrace, members map[string]ConsumerGroupMemberMetadata, topics map[string][]int32) (plan BalanceStrategyPlan, err error, panicked string) {
	tr.Other = map[string]int{}
	self := verifGoroutineID()
	tpOf := func(a []interface{}) VerifTP { return VerifTP{a[0].(string), a[1].(int32)} }
	VerifSetObserver(func(kind string, a ...interface{}) {
		if verifGoroutineID() != self {
			return // a Plan call abandoned by the watchdog is still running on another goroutine
		}
		tr.Mu.Lock()
		defer tr.Mu.Unlock()
		tr.Events++
		switch kind {
		case "sticky.iter.prepop.members":
			tr.PrepopMembers = append(tr.PrepopMembers, a[0].(string))
		case "sticky.iter.prepop.partitions":
			tr.PrepopParts = append(tr.PrepopParts, tpOf(a))
		case "sticky.iter.plan.current":
			tr.PlanCurrent = append(tr.PlanCurrent, a[0].(string))
		case "sticky.iter.plan.unvisited":
			tr.PlanUnvisited = append(tr.PlanUnvisited, tpOf(a))
		case "sticky.iter.identical.partitions":
			tr.IdentParts = append(tr.IdentParts, append([]string(nil), a[0].([]string)...))
		case "sticky.iter.identical.members":
			var l []VerifTP
			for _, p := range a[0].([]topicPartitionAssignment) {
				l = append(l, VerifTP{p.Topic, p.Partition})
			}
			tr.IdentMembers = append(tr.IdentMembers, l)
		case "sticky.iter.sort.unassigned":
			tr.SortUnassigned = append(tr.SortUnassigned, tpOf(a))
		case "sticky.pick":
			tr.Picks = append(tr.Picks, tpOf(a))
		case "sticky.revert":
			tr.Reverted = true
		case "sticky.score":
			b2i := func(b bool) int {
				if b {
					return 1
				}
				return 0
			}
			tr.Score = []int{a[0].(int), a[1].(int), b2i(a[2].(bool)), b2i(a[3].(bool)), a[4].(int)}
		default:
			tr.Other[kind]++
		}
	})
	defer VerifSetObserver(nil)
	defer func() {
		if r := recover(); r != nil {
			panicked = fmt.Sprint(r)
			plan = nil
		}
	}()
	s := &stickyBalanceStrategy{}
	if inst != nil {
		s = inst.s
	}
	plan, err = s.Plan(members, topics)
	return
}

// verifGoroutineID parses the id out of the first line of the current goroutine's stack ("goroutine 12 [running]:").
func verifGoroutineID() uint64 {
	var buf [40]byte
	n := runtime.Stack(buf[:], false)
	var id uint64
	for _, c := range buf[len("goroutine "):n] {
		if c < '0' || c > '9' {
			break
		}
		id = id*10 + uint64(c-'0')
	}
	return id
}
