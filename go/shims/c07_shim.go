//go:build verif
// +build verif

// Verification shim for C07 (added to package sarama by -overlay, never written to /repo):
// a scripted group coordinator + partition leader on top of MockBroker, over plain Go values.
package sarama

import (
	"io"
	"sort"
)

type VerifC07Block struct {
	Topic     string
	Partition int32
	Offset    int64
}

// VerifC07Join is the coordinator's answer to a JoinGroup request.
type VerifC07Join struct {
	Drop       bool
	Err        int16
	Generation int32
	MemberID   string
	Leader     bool // the member is told it is the leader (and gets the member list)
}

// VerifC07Sync is the coordinator's answer to a SyncGroup request. Claims nil = empty assignment bytes.
type VerifC07Sync struct {
	Drop   bool
	Err    int16
	Claims map[string][]int32
}

// VerifC07DropCode, returned as error code by the int16 callbacks, closes the connection without an answer.
const VerifC07DropCode int16 = -1000

// VerifC07Coordinator is the script. Callbacks run on a mock broker connection goroutine, under
// that broker's lock, while the client waits for the answer.
type VerifC07Coordinator struct {
	Topics            func() map[string][]int32 // topic -> partitions, as metadata reports them
	Brokers           []*MockBroker             // [0] seed + coordinator, [1] leader of every partition
	OnFindCoordinator func() int16
	OnJoin            func(member string, topics []string, sessionTimeoutMs int32) VerifC07Join
	OnSync            func(member string, generation int32, assignments map[string]map[string][]int32) VerifC07Sync
	OnHeartbeat       func(member string, generation int32) int16
	OnOffsetFetch     func(topic string, partition int32) (int64, int16)
	OnCommit          func(member string, generation int32, blocks []VerifC07Block) int16
	OnLeave           func(member string) int16
	OnListOffsets     func(topic string, partition int32, time int64) (int64, int16)
	// OnFetch returns the offsets of the records to hand out (contiguous from offset) and the high water mark.
	OnFetch func(topic string, partition int32, offset int64) (n int, hwm int64, code int16)
}

type verifC07Drop struct{}

func (verifC07Drop) encode(pe packetEncoder) error { return io.EOF }
func (verifC07Drop) headerVersion() int16           { return 0 }

// VerifC07Install makes every broker of c.Brokers answer from the script.
func VerifC07Install(c *VerifC07Coordinator) {
	coord, leader := c.Brokers[0], c.Brokers[len(c.Brokers)-1]
	h := func(req *request) encoderWithHeader {
		switch r := req.body.(type) {
		case *MetadataRequest:
			res := &MetadataResponse{Version: r.version()}
			for _, b := range c.Brokers {
				res.AddBroker(b.Addr(), b.BrokerID())
			}
			for t, ps := range c.Topics() {
				for _, p := range ps {
					res.AddTopicPartition(t, p, leader.BrokerID(), []int32{leader.BrokerID()}, []int32{leader.BrokerID()}, []int32{}, ErrNoError)
				}
			}
			return res
		case *FindCoordinatorRequest:
			code := c.OnFindCoordinator()
			if code == VerifC07DropCode {
				return verifC07Drop{}
			}
			res := &FindCoordinatorResponse{Version: r.Version, Err: KError(code)}
			if code == 0 {
				res.Coordinator = &Broker{id: coord.BrokerID(), addr: coord.Addr()}
			}
			return res
		case *JoinGroupRequest:
			var topics []string
			for _, gp := range r.OrderedGroupProtocols {
				meta := new(ConsumerGroupMemberMetadata)
				if err := decode(gp.Metadata, meta); err == nil {
					topics = meta.Topics
				}
			}
			j := c.OnJoin(r.MemberId, topics, r.SessionTimeout)
			if j.Drop {
				return verifC07Drop{}
			}
			res := &JoinGroupResponse{Version: r.Version, Err: KError(j.Err), GenerationId: j.Generation, GroupProtocol: "range", MemberId: j.MemberID}
			if j.Err == 0 {
				if j.Leader {
					res.LeaderId = j.MemberID
					bin, _ := encode(&ConsumerGroupMemberMetadata{Version: 1, Topics: topics}, nil)
					res.Members = map[string][]byte{j.MemberID: bin}
				} else {
					res.LeaderId = "some-other-member"
				}
			}
			return res
		case *SyncGroupRequest:
			as := map[string]map[string][]int32{}
			for m, bin := range r.GroupAssignments {
				a := new(ConsumerGroupMemberAssignment)
				if err := decode(bin, a); err == nil {
					as[m] = a.Topics
				}
			}
			s := c.OnSync(r.MemberId, r.GenerationId, as)
			if s.Drop {
				return verifC07Drop{}
			}
			res := &SyncGroupResponse{Err: KError(s.Err)}
			if s.Err == 0 && s.Claims != nil {
				res.MemberAssignment, _ = encode(&ConsumerGroupMemberAssignment{Version: 1, Topics: s.Claims}, nil)
			}
			return res
		case *HeartbeatRequest:
			code := c.OnHeartbeat(r.MemberId, r.GenerationId)
			if code == VerifC07DropCode {
				return verifC07Drop{}
			}
			return &HeartbeatResponse{Err: KError(code)}
		case *LeaveGroupRequest:
			code := c.OnLeave(r.MemberId)
			if code == VerifC07DropCode {
				return verifC07Drop{}
			}
			return &LeaveGroupResponse{Err: KError(code)}
		case *OffsetFetchRequest:
			res := &OffsetFetchResponse{Version: r.Version}
			for t, ps := range r.partitions {
				for _, p := range ps {
					off, code := c.OnOffsetFetch(t, p)
					res.AddBlock(t, p, &OffsetFetchResponseBlock{Offset: off, Err: KError(code)})
				}
			}
			return res
		case *OffsetCommitRequest:
			var bs []VerifC07Block
			for t, ps := range r.blocks {
				for p, blk := range ps {
					bs = append(bs, VerifC07Block{Topic: t, Partition: p, Offset: blk.offset})
				}
			}
			sort.Slice(bs, func(i, j int) bool {
				if bs[i].Topic != bs[j].Topic {
					return bs[i].Topic < bs[j].Topic
				}
				return bs[i].Partition < bs[j].Partition
			})
			code := c.OnCommit(r.ConsumerID, r.ConsumerGroupGeneration, bs)
			if code == VerifC07DropCode {
				return verifC07Drop{}
			}
			res := &OffsetCommitResponse{Version: r.Version}
			for _, b := range bs {
				res.AddError(b.Topic, b.Partition, KError(code))
			}
			return res
		case *OffsetRequest:
			res := &OffsetResponse{Version: r.Version}
			for t, ps := range r.blocks {
				for p, blk := range ps {
					off, code := c.OnListOffsets(t, p, blk.time)
					if code == VerifC07DropCode {
						return verifC07Drop{}
					}
					res.AddTopicPartition(t, p, off)
					res.Blocks[t][p].Err = KError(code)
				}
			}
			return res
		case *FetchRequest:
			res := &FetchResponse{Version: r.Version}
			for t, ps := range r.blocks {
				for p, blk := range ps {
					n, hwm, code := c.OnFetch(t, p, blk.fetchOffset)
					if code != 0 {
						res.AddError(t, p, KError(code))
						continue
					}
					for i := 0; i < n; i++ {
						res.AddMessage(t, p, nil, StringEncoder("v"), blk.fetchOffset+int64(i))
					}
					fb := res.GetBlock(t, p)
					if fb == nil {
						res.AddError(t, p, ErrNoError)
						fb = res.GetBlock(t, p)
					}
					fb.HighWaterMarkOffset = hwm
				}
			}
			return res
		}
		return nil
	}
	for _, b := range c.Brokers {
		b.setHandler(h)
	}
}

// VerifC07GroupClosed reports whether Close has been called on the group (c.closed is closed).
func VerifC07GroupClosed(g ConsumerGroup) bool {
	select {
	case <-g.(*consumerGroup).closed:
		return true
	default:
		return false
	}
}
