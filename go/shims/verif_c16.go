//go:build verif

package sarama

import (
	"reflect"
	"sort"
	"strconv"
	"sync"
)

// In-package access for the C16 correspondence harness (added by -overlay; nothing is written to the repository).

// VerifC16Set wraps a real produceSet whose parent carries only a configuration and an idle transaction manager.
type VerifC16Set struct {
	parent *asyncProducer
	ps     *produceSet
}

func VerifC16NewSet(conf *Config) *VerifC16Set {
	parent := &asyncProducer{conf: conf, txnmgr: &transactionManager{producerID: noProducerID, producerEpoch: noProducerEpoch}}
	return &VerifC16Set{parent: parent, ps: newProduceSet(parent)}
}

// RollOver replaces the set by a fresh one (brokerProducer.rollOver's effect on the buffer).
func (s *VerifC16Set) RollOver()                                  { s.ps = newProduceSet(s.parent) }
func (s *VerifC16Set) WouldOverflow(m *ProducerMessage) bool      { return s.ps.wouldOverflow(m) }
func (s *VerifC16Set) Add(m *ProducerMessage) error               { return s.ps.add(m) }
func (s *VerifC16Set) ReadyToFlush() bool                         { return s.ps.readyToFlush() }
func (s *VerifC16Set) Empty() bool                                { return s.ps.empty() }
func (s *VerifC16Set) Counters() (bufferBytes, bufferCount int)   { return s.ps.bufferBytes, s.ps.bufferCount }
func (s *VerifC16Set) DropPartition(topic string, p int32) int    { return len(s.ps.dropPartition(topic, p)) }
func (s *VerifC16Set) BuildRequest() *ProduceRequest              { return s.ps.buildRequest() }
func (s *VerifC16Set) PartitionBytes(topic string, p int32) (int, int, bool) {
	if s.ps.msgs[topic] == nil || s.ps.msgs[topic][p] == nil {
		return 0, 0, false
	}
	set := s.ps.msgs[topic][p]
	return set.bufferBytes, len(set.msgs), true
}

func VerifC16ByteSize(m *ProducerMessage, version int) int { return m.byteSize(version) }

// VerifC16Batch summarises one partition batch of a produce request.
type VerifC16Batch struct {
	Topic     string
	Partition int32
	Messages  int
	KVBytes   int // key + value bytes
	Values    [][]byte
}

func VerifC16Batches(req *ProduceRequest) []VerifC16Batch {
	var out []VerifC16Batch
	for topic, parts := range req.records {
		for partition, recs := range parts {
			b := VerifC16Batch{Topic: topic, Partition: partition}
			if recs.MsgSet != nil {
				for _, mb := range recs.MsgSet.Messages {
					b.Messages++
					b.KVBytes += len(mb.Msg.Key) + len(mb.Msg.Value)
					b.Values = append(b.Values, mb.Msg.Value)
				}
			}
			if recs.RecordBatch != nil {
				for _, r := range recs.RecordBatch.Records {
					b.Messages++
					b.KVBytes += len(r.Key) + len(r.Value)
					b.Values = append(b.Values, r.Value)
				}
			}
			out = append(out, b)
		}
	}
	return out
}

// VerifC16WireLength: the length the request would have on the wire (prepEncoder pass only, no size guard) and
// what encode() — the function Broker.send uses, with its MaxRequestSize guard — says about it.
func VerifC16WireLength(req *ProduceRequest, clientID string) (length int, lenErr error, encoded int, encErr error) {
	r := &request{correlationID: 1, clientID: clientID, body: req}
	var pe prepEncoder
	lenErr = r.encode(&pe)
	length = pe.length
	buf, err := encode(r, nil)
	return length, lenErr, len(buf), err
}

// VerifC16GatedProduce answers produce requests like MockProduceResponse (with a fixed error for one partition), but
// holds the answer to the very first request until Open is called (a slow broker).
type VerifC16GatedProduce struct {
	inner *MockProduceResponse
	gate  chan struct{}
	once  sync.Once
	mu    sync.Mutex
	seen  int
}

func VerifC16NewGatedProduce(t TestReporter, version int16, errTopic string, errPartition int32, kerr KError) *VerifC16GatedProduce {
	return &VerifC16GatedProduce{
		inner: NewMockProduceResponse(t).SetVersion(version).SetError(errTopic, errPartition, kerr),
		gate:  make(chan struct{}),
	}
}

func (m *VerifC16GatedProduce) Open() { m.once.Do(func() { close(m.gate) }) }

// Seen is the number of produce requests received so far.
func (m *VerifC16GatedProduce) Seen() int {
	m.mu.Lock()
	defer m.mu.Unlock()
	return m.seen
}

func (m *VerifC16GatedProduce) For(reqBody versionedDecoder) encoderWithHeader {
	m.mu.Lock()
	m.seen++
	first := m.seen == 1
	m.mu.Unlock()
	if first {
		<-m.gate
	}
	return m.inner.For(reqBody)
}

// VerifC16SwapMetadata is a metadata responder whose answer can be swapped while the broker is running.
type VerifC16SwapMetadata struct {
	mu  sync.Mutex
	cur *MockMetadataResponse
}

func VerifC16NewSwapMetadata(r *MockMetadataResponse) *VerifC16SwapMetadata {
	return &VerifC16SwapMetadata{cur: r}
}

func (m *VerifC16SwapMetadata) Set(r *MockMetadataResponse) {
	m.mu.Lock()
	m.cur = r
	m.mu.Unlock()
}

func (m *VerifC16SwapMetadata) For(reqBody versionedDecoder) encoderWithHeader {
	m.mu.Lock()
	cur := m.cur
	m.mu.Unlock()
	return cur.For(reqBody)
}

// ---- local trace validation of the broker worker (brokerProducer.run): what the hook points expose ----

// VerifC16BPState is the broker worker's own state as seen at a hook point (read on the worker's goroutine).
type VerifC16BPState struct {
	BP, Producer uintptr
	Count, Bytes int
	Armed, Fired bool     // bp.timer != nil, bp.timerFired
	Keys         []string // "topic/partition" of the partition sets in the buffer (sorted)
	Ns           []int    // number of messages of each
}

func VerifC16BPSnapshot(x interface{}) (VerifC16BPState, bool) {
	bp, ok := x.(*brokerProducer)
	if !ok || bp == nil {
		return VerifC16BPState{}, false
	}
	s := VerifC16BPState{
		BP: reflect.ValueOf(bp).Pointer(), Producer: reflect.ValueOf(bp.parent).Pointer(),
		Count: bp.buffer.bufferCount, Bytes: bp.buffer.bufferBytes, Armed: bp.timer != nil, Fired: bp.timerFired,
	}
	n := map[string]int{}
	for topic, parts := range bp.buffer.msgs {
		for p, set := range parts {
			k := topic + "/" + strconv.Itoa(int(p))
			s.Keys = append(s.Keys, k)
			n[k] = len(set.msgs)
		}
	}
	sort.Strings(s.Keys)
	for _, k := range s.Keys {
		s.Ns = append(s.Ns, n[k])
	}
	return s, true
}

// VerifC16MsgInfo: identity, Metadata and internal flags (1 = syn, 2 = fin) of a message passed to a hook point.
func VerifC16MsgInfo(x interface{}) (ptr uintptr, meta interface{}, flags int, ok bool) {
	m, ok := x.(*ProducerMessage)
	if !ok || m == nil {
		return 0, nil, 0, false
	}
	return reflect.ValueOf(m).Pointer(), m.Metadata, int(m.flags), true
}

// VerifC16ProducerPtr identifies an AsyncProducer (matches VerifC16BPState.Producer).
func VerifC16ProducerPtr(p AsyncProducer) uintptr {
	if ap, ok := p.(*asyncProducer); ok {
		return reflect.ValueOf(ap).Pointer()
	}
	return 0
}

// VerifC16NeedsRetry evaluates bp.needsRetry(msg) != nil from the worker's state (on the worker's goroutine).
func VerifC16NeedsRetry(bpArg, msgArg interface{}) bool {
	bp, ok1 := bpArg.(*brokerProducer)
	m, ok2 := msgArg.(*ProducerMessage)
	if !ok1 || !ok2 || bp == nil || m == nil {
		return false
	}
	return bp.needsRetry(m) != nil
}
