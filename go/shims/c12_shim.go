//go:build verif
// +build verif

// Verification shim for C12 (shutdown). Added to package sarama by -overlay, never written to /repo.
// Scripted MockBroker handlers over plain Go values: the harness callback sees every request at the
// moment the mock broker has decoded it (that is the "request received" observable event) and decides
// what the broker does with it: answer through a stock MockResponse, answer with a literal response,
// stay silent, hold the answer until a gate opens, or drop the connection.
package sarama

import (
	"io"
	"reflect"
)

// VerifC12Hold wraps an answer so that the mock broker writes it only after Gate is closed. The wait
// happens while encoding, i.e. outside the mock broker's lock, so other connections keep being served.
type VerifC12Hold struct {
	Inner interface{} // MockResponse or pointer to a response struct
	Gate  <-chan struct{}
}

// VerifC12Drop makes the mock broker close the connection instead of answering.
type VerifC12Drop struct{}

type verifC12Held struct {
	inner encoderWithHeader
	gate  <-chan struct{}
}

func (h verifC12Held) encode(pe packetEncoder) error {
	<-h.gate
	return h.inner.encode(pe)
}
func (h verifC12Held) headerVersion() int16 { return h.inner.headerVersion() }

type verifC12Dropper struct{}

func (verifC12Dropper) encode(pe packetEncoder) error { return io.EOF }
func (verifC12Dropper) headerVersion() int16          { return 0 }

func verifC12Resolve(v interface{}, body protocolBody) encoderWithHeader {
	switch r := v.(type) {
	case nil:
		return nil
	case VerifC12Drop:
		return verifC12Dropper{}
	case VerifC12Hold:
		in := verifC12Resolve(r.Inner, body)
		if in == nil {
			return nil
		}
		return verifC12Held{inner: in, gate: r.Gate}
	case MockResponse:
		return r.For(body)
	case encoderWithHeader:
		return r
	}
	panic("verifC12: unsupported scripted answer " + reflect.TypeOf(v).String())
}

// VerifC12SetHandler installs a scripted handler. kind is the Go type name of the request body
// ("FetchRequest", "JoinGroupRequest", ...). The callback runs under the mock broker's lock (one request
// of that broker at a time) and must not block for long; use VerifC12Hold to delay an answer.
func (b *MockBroker) VerifC12SetHandler(h func(kind string, body interface{}) interface{}) {
	b.setHandler(func(req *request) encoderWithHeader {
		return verifC12Resolve(h(reflect.TypeOf(req.body).Elem().Name(), req.body), req.body)
	})
}

// VerifC12GroupHasErrorsLock reports whether consumerGroup serialises handleError against
// close(c.errors) (the repaired tree has an errorsLock field; the pinned tree has not).
func VerifC12GroupHasErrorsLock() bool {
	_, ok := reflect.TypeOf(consumerGroup{}).FieldByName("errorsLock")
	return ok
}

// VerifC12FetchOffset returns the fetch offset a FetchRequest asks for (0 if the block is absent).
func VerifC12FetchOffset(r *FetchRequest, topic string, partition int32) int64 {
	if bl := r.blocks[topic][partition]; bl != nil {
		return bl.fetchOffset
	}
	return -1
}

// VerifC12FetchPartitions lists the partitions of topic named in a FetchRequest.
func VerifC12FetchPartitions(r *FetchRequest, topic string) []int32 {
	var out []int32
	for p := range r.blocks[topic] {
		out = append(out, p)
	}
	return out
}

// VerifC12ProduceCount returns the number of messages a ProduceRequest carries for topic/partition.
func VerifC12ProduceCount(r *ProduceRequest, topic string, partition int32) int {
	rec := r.records[topic][partition]
	if rec.MsgSet != nil {
		return len(rec.MsgSet.Messages)
	}
	if rec.RecordBatch != nil {
		return len(rec.RecordBatch.Records)
	}
	return 0
}

// VerifC12ProducePartitions lists (topic, partition) pairs of a produce request.
func VerifC12ProducePartitions(r *ProduceRequest) map[string][]int32 {
	out := map[string][]int32{}
	for t, ps := range r.records {
		for p := range ps {
			out[t] = append(out[t], p)
		}
	}
	return out
}
