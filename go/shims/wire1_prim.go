//go:build verif

// In-package access for the C09/C10 primitive-layer checks (builder b-wire1): scripts of put-calls run
// through the package's own encode() (prepEncoder + realEncoder) and scripts of get-calls run on a
// realDecoder.  Nothing here is used by the library itself.
package sarama

import (
	"fmt"
	"hash/crc32"
	"strings"
)

// VerifEOp is one node of an encode script: a put-call, or a push ... pop frame around Body.
type VerifEOp struct {
	Op     string     `json:"op"`
	I      int64      `json:"i,omitempty"`
	U      uint64     `json:"u,omitempty"`
	B      []byte     `json:"b,omitempty"`
	Nil    bool       `json:"nil,omitempty"` // nil slice / nil *string
	Strs   []string   `json:"strs,omitempty"`
	I32    []int32    `json:"i32,omitempty"`
	I64    []int64    `json:"i64,omitempty"`
	Kind   string     `json:"kind,omitempty"`   // frame: len | varlen | crc-ieee | crc-cast
	VarLen int64      `json:"varlen,omitempty"` // frame varlen: the (possibly stale) length the field holds before the encode
	Body   []VerifEOp `json:"body,omitempty"`

	vl *varintLengthField
}

type verifScript struct{ ops []VerifEOp }

func verifInitFields(ops []VerifEOp) {
	for i := range ops {
		if ops[i].Op == "frame" {
			if ops[i].Kind == "varlen" {
				ops[i].vl = &varintLengthField{length: ops[i].VarLen}
			}
			verifInitFields(ops[i].Body)
		}
	}
}

func verifPushEncoder(o *VerifEOp) pushEncoder {
	switch o.Kind {
	case "len":
		return &lengthField{}
	case "varlen":
		return o.vl
	case "crc-ieee":
		return newCRC32Field(crcIEEE)
	case "crc-cast":
		return newCRC32Field(crcCastagnoli)
	}
	panic("verif: unknown frame kind " + o.Kind)
}

func verifEncodeOps(ops []VerifEOp, pe packetEncoder) error {
	for i := range ops {
		o := &ops[i]
		var err error
		switch o.Op {
		case "int8":
			pe.putInt8(int8(o.I))
		case "int16":
			pe.putInt16(int16(o.I))
		case "int32":
			pe.putInt32(int32(o.I))
		case "int64":
			pe.putInt64(o.I)
		case "varint":
			pe.putVarint(o.I)
		case "uvarint":
			pe.putUVarint(o.U)
		case "arraylength":
			err = pe.putArrayLength(int(o.I))
		case "compactarraylength":
			pe.putCompactArrayLength(int(o.I))
		case "bool":
			pe.putBool(o.I != 0)
		case "bytes":
			err = pe.putBytes(o.bytes())
		case "varintbytes":
			err = pe.putVarintBytes(o.bytes())
		case "compactbytes":
			err = pe.putCompactBytes(o.bytes())
		case "rawbytes":
			err = pe.putRawBytes(o.bytes())
		case "string":
			err = pe.putString(string(o.B))
		case "nullablestring":
			err = pe.putNullableString(o.strptr())
		case "compactstring":
			err = pe.putCompactString(string(o.B))
		case "nullablecompactstring":
			err = pe.putNullableCompactString(o.strptr())
		case "stringarray":
			err = pe.putStringArray(o.strs())
		case "compactint32array":
			err = pe.putCompactInt32Array(o.i32())
		case "nullablecompactint32array":
			err = pe.putNullableCompactInt32Array(o.i32())
		case "int32array":
			err = pe.putInt32Array(o.i32())
		case "int64array":
			err = pe.putInt64Array(o.i64())
		case "emptytagged":
			pe.putEmptyTaggedFieldArray()
		case "frame":
			pe.push(verifPushEncoder(o))
			if err = verifEncodeOps(o.Body, pe); err != nil {
				return err
			}
			err = pe.pop()
		default:
			panic("verif: unknown encode op " + o.Op)
		}
		if err != nil {
			return err
		}
	}
	return nil
}

func (o *VerifEOp) bytes() []byte {
	if o.Nil {
		return nil
	}
	if o.B == nil {
		return []byte{}
	}
	return o.B
}
func (o *VerifEOp) strptr() *string {
	if o.Nil {
		return nil
	}
	s := string(o.B)
	return &s
}
func (o *VerifEOp) strs() []string {
	if o.Nil {
		return nil
	}
	if o.Strs == nil {
		return []string{}
	}
	return o.Strs
}
func (o *VerifEOp) i32() []int32 {
	if o.Nil {
		return nil
	}
	if o.I32 == nil {
		return []int32{}
	}
	return o.I32
}
func (o *VerifEOp) i64() []int64 {
	if o.Nil {
		return nil
	}
	if o.I64 == nil {
		return []int64{}
	}
	return o.I64
}

func (s *verifScript) encode(pe packetEncoder) error { return verifEncodeOps(s.ops, pe) }

// VerifEncErrID maps an encoder error to the model's eerr_id.
func VerifEncErrID(err error) int {
	if err == nil {
		return 0
	}
	m := err.Error()
	switch {
	case strings.Contains(m, "string too long"):
		return 1
	case strings.Contains(m, "expected int32 array to be non null"):
		return 2
	case strings.Contains(m, "invalid request size"):
		return 3
	}
	return 99
}

// VerifEncodeResult is what one script produced.
type VerifEncodeResult struct {
	Status   int    // 0 ok, 100 panic, otherwise VerifEncErrID
	Bytes    []byte // returned by encode()
	PrepLen  int    // prepEncoder.length after a first pass on fresh fields (-1: the pass returned an error)
	RealOff  int    // realEncoder.off after a second pass into a buffer of PrepLen bytes (-1: not run)
	RealSame bool   // that second pass produced the same bytes as encode()
	Panic    string
}

// VerifEncodeScript runs the script through prepEncoder, through encode(), and once more through a
// realEncoder whose final offset is observable.
func VerifEncodeScript(ops []VerifEOp) (res VerifEncodeResult) {
	res.PrepLen, res.RealOff = -1, -1
	s := &verifScript{ops: ops}
	func() {
		defer func() {
			if r := recover(); r != nil {
				res.Panic = fmt.Sprint(r)
			}
		}()
		verifInitFields(ops)
		var prep prepEncoder
		if err := s.encode(&prep); err == nil {
			res.PrepLen = prep.length
		}
	}()
	func() {
		defer func() {
			if r := recover(); r != nil {
				res.Status = 100
				res.Panic = fmt.Sprint(r)
			}
		}()
		verifInitFields(ops)
		b, err := encode(s, nil)
		res.Status = VerifEncErrID(err)
		res.Bytes = b
	}()
	if res.Status == 0 && res.PrepLen >= 0 {
		func() {
			defer func() {
				if r := recover(); r != nil {
					res.Panic = fmt.Sprint(r)
					res.RealOff = -2
				}
			}()
			re := realEncoder{raw: make([]byte, res.PrepLen)}
			if err := s.encode(&re); err == nil {
				res.RealOff = re.off
				res.RealSame = string(re.raw) == string(res.Bytes)
			}
		}()
	}
	return res
}

// VerifDOp is one get-call (or push / pop) of a decode script.
type VerifDOp struct {
	Op   string `json:"op"`
	N    int    `json:"n,omitempty"`    // rawbytes / subset length, peek length
	O    int    `json:"o,omitempty"`    // peek offset
	Kind string `json:"kind,omitempty"` // push: len | varlen | crc-ieee | crc-cast
}

// VerifDVal is a decoded value.
type VerifDVal struct {
	T    string   `json:"t"` // int | uint | bool | bytes | ints | strs | unit
	I    int64    `json:"i,omitempty"`
	U    uint64   `json:"u,omitempty"`
	Nil  bool     `json:"nil,omitempty"`
	B    []byte   `json:"b,omitempty"`
	Ints []int64  `json:"ints,omitempty"`
	Strs [][]byte `json:"strs,omitempty"` // strings as bytes (JSON would mangle invalid UTF-8)
}

// VerifDecErrID maps a decoder error to the model's err_id.
func VerifDecErrID(err error) int {
	if err == nil {
		return 0
	}
	switch err {
	case ErrInsufficientData:
		return 1
	case errInvalidArrayLength:
		return 2
	case errInvalidByteSliceLength:
		return 3
	case errInvalidStringLength:
		return 4
	case errVarintOverflow:
		return 5
	case errUVarintOverflow:
		return 6
	case errInvalidBool:
		return 7
	case errUnsupportedTaggedFields:
		return 8
	}
	if pe, ok := err.(PacketDecodingError); ok {
		switch {
		case pe.Info == "length field invalid":
			return 9
		case strings.HasPrefix(pe.Info, "CRC didn't match"):
			return 10
		case pe.Info == "invalid length":
			return 11
		case strings.HasPrefix(pe.Info, "unknown magic byte"):
			return 12
		}
	}
	return 99
}

// VerifDecodeResult: values returned until the script stopped; Status 0 = ran to the end,
// 100 = panic (recovered), otherwise VerifDecErrID; Off = rd.off at that point.
type VerifDecodeResult struct {
	Vals   []VerifDVal
	Status int
	Off    int
	Panic  string
	Where  string // the op that failed
}

func verifPushDecoder(kind string) pushDecoder {
	switch kind {
	case "len":
		return &lengthField{}
	case "varlen":
		return &varintLengthField{}
	case "crc-ieee":
		return newCRC32Field(crcIEEE)
	case "crc-cast":
		return newCRC32Field(crcCastagnoli)
	}
	panic("verif: unknown push kind " + kind)
}

func verifInts32(a []int32) VerifDVal {
	if a == nil {
		return VerifDVal{T: "ints", Nil: true}
	}
	r := make([]int64, len(a))
	for i, x := range a {
		r[i] = int64(x)
	}
	return VerifDVal{T: "ints", Ints: r}
}

func verifBytesVal(b []byte) VerifDVal {
	if b == nil {
		return VerifDVal{T: "bytes", Nil: true}
	}
	return VerifDVal{T: "bytes", B: append([]byte{}, b...)}
}
func verifStrPtrVal(s *string) VerifDVal {
	if s == nil {
		return VerifDVal{T: "bytes", Nil: true}
	}
	return VerifDVal{T: "bytes", B: []byte(*s)}
}

// VerifDecodeScript runs get-calls on a realDecoder over buf (capacity = length) starting at offset start.
func VerifDecodeScript(buf []byte, start int, ops []VerifDOp) (res VerifDecodeResult) {
	raw := make([]byte, len(buf))
	copy(raw, buf)
	rd := &realDecoder{raw: raw, off: start}
	cur := ""
	defer func() {
		if r := recover(); r != nil {
			res.Status = 100
			res.Panic = fmt.Sprint(r)
			res.Where = cur
			res.Off = 0
		}
	}()
	for _, o := range ops {
		cur = o.Op
		var v VerifDVal
		var err error
		switch o.Op {
		case "int8":
			var x int8
			x, err = rd.getInt8()
			v = VerifDVal{T: "int", I: int64(x)}
		case "int16":
			var x int16
			x, err = rd.getInt16()
			v = VerifDVal{T: "int", I: int64(x)}
		case "int32":
			var x int32
			x, err = rd.getInt32()
			v = VerifDVal{T: "int", I: int64(x)}
		case "int64":
			var x int64
			x, err = rd.getInt64()
			v = VerifDVal{T: "int", I: x}
		case "varint":
			var x int64
			x, err = rd.getVarint()
			v = VerifDVal{T: "int", I: x}
		case "uvarint":
			var x uint64
			x, err = rd.getUVarint()
			v = VerifDVal{T: "uint", U: x}
		case "arraylength":
			var x int
			x, err = rd.getArrayLength()
			v = VerifDVal{T: "int", I: int64(x)}
		case "compactarraylength":
			var x int
			x, err = rd.getCompactArrayLength()
			v = VerifDVal{T: "int", I: int64(x)}
		case "bool":
			var x bool
			x, err = rd.getBool()
			v = VerifDVal{T: "bool"}
			if x {
				v.I = 1
			}
		case "emptytagged":
			var x int
			x, err = rd.getEmptyTaggedFieldArray()
			v = VerifDVal{T: "int", I: int64(x)}
		case "bytes":
			var x []byte
			x, err = rd.getBytes()
			v = verifBytesVal(x)
		case "varintbytes":
			var x []byte
			x, err = rd.getVarintBytes()
			v = verifBytesVal(x)
		case "compactbytes":
			var x []byte
			x, err = rd.getCompactBytes()
			v = verifBytesVal(x)
		case "rawbytes":
			var x []byte
			x, err = rd.getRawBytes(o.N)
			v = verifBytesVal(x)
		case "string":
			var x string
			x, err = rd.getString()
			v = VerifDVal{T: "bytes", B: []byte(x)}
		case "nullablestring":
			var x *string
			x, err = rd.getNullableString()
			v = verifStrPtrVal(x)
		case "compactstring":
			var x string
			x, err = rd.getCompactString()
			v = VerifDVal{T: "bytes", B: []byte(x)}
		case "compactnullablestring":
			var x *string
			x, err = rd.getCompactNullableString()
			v = verifStrPtrVal(x)
		case "compactint32array":
			var x []int32
			x, err = rd.getCompactInt32Array()
			v = verifInts32(x)
		case "int32array":
			var x []int32
			x, err = rd.getInt32Array()
			v = verifInts32(x)
		case "int64array":
			var x []int64
			x, err = rd.getInt64Array()
			if x == nil {
				v = VerifDVal{T: "ints", Nil: true}
			} else {
				v = VerifDVal{T: "ints", Ints: append([]int64{}, x...)}
			}
		case "stringarray":
			var x []string
			x, err = rd.getStringArray()
			if x == nil {
				v = VerifDVal{T: "strs", Nil: true}
			} else {
				ss := make([][]byte, len(x))
				for i := range x {
					ss[i] = []byte(x[i])
				}
				v = VerifDVal{T: "strs", Strs: ss}
			}
		case "subset":
			var x packetDecoder
			x, err = rd.getSubset(o.N)
			if err == nil {
				v = verifBytesVal(x.(*realDecoder).raw)
			}
		case "peek":
			var x packetDecoder
			x, err = rd.peek(o.O, o.N)
			if err == nil {
				v = verifBytesVal(x.(*realDecoder).raw)
			}
		case "peekint8":
			var x int8
			x, err = rd.peekInt8(o.O)
			v = VerifDVal{T: "int", I: int64(x)}
		case "remaining":
			v = VerifDVal{T: "int", I: int64(rd.remaining())}
		case "push":
			err = rd.push(verifPushDecoder(o.Kind))
			v = VerifDVal{T: "unit"}
		case "pop":
			err = rd.pop()
			v = VerifDVal{T: "unit"}
		default:
			panic("verif: unknown decode op " + o.Op)
		}
		if err != nil {
			res.Status = VerifDecErrID(err)
			res.Off = rd.off
			res.Where = o.Op
			return res
		}
		res.Vals = append(res.Vals, v)
	}
	res.Off = rd.off
	return res
}

// VerifCRC returns hash/crc32 checksums with the two tables crc32_field.go uses.
func VerifCRC(data []byte) (ieee, castagnoli uint32) {
	return crc32.Checksum(data, crc32.IEEETable), crc32.Checksum(data, castagnoliTable)
}
