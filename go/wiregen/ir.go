package main

import (
	"fmt"
	"go/types"
	"strings"
)

// ---------------------------------------------------------------- generic value trees (zero values)

type Value struct {
	Kind   string  // "int" "bytes" "list" "struct"
	Int    int64
	Nil    bool    // bytes/list: nil
	Bytes  []byte  // bytes, non-nil
	Fields []Value // struct
}

func (v Value) Coq() string {
	switch v.Kind {
	case "int":
		if v.Int < 0 {
			return fmt.Sprintf("(VInt (%d))", v.Int)
		}
		return fmt.Sprintf("(VInt %d)", v.Int)
	case "bytes":
		if v.Nil {
			return "(VBytes None)"
		}
		return "(VBytes (Some []))"
	case "list":
		if v.Nil {
			return "(VList None)"
		}
		return "(VList (Some []))"
	case "struct":
		fs := make([]string, len(v.Fields))
		for i, f := range v.Fields {
			fs[i] = f.Coq()
		}
		return "(VStruct [" + strings.Join(fs, "; ") + "])"
	}
	return "(VInt 0)"
}

func isByte(t types.Type) bool {
	b, ok := t.Underlying().(*types.Basic)
	return ok && (b.Kind() == types.Uint8 || b.Kind() == types.Byte)
}

// own: a struct type of the package under analysis (other packages' structs are opaque)
func (g *Gen) own(t types.Type) bool {
	n, ok := t.(*types.Named)
	if !ok {
		return true // anonymous struct
	}
	return n.Obj().Pkg() == g.pkg.Types
}

// zeroOf: the value tree the reflection dumper prints for the zero value of t.
// ptrAsStruct: for *T the pointee's zero (what new(T) gives) instead of nil.
func (g *Gen) zeroOf(t types.Type, depth int) Value {
	if depth > 12 {
		return Value{Kind: "int"}
	}
	switch u := t.Underlying().(type) {
	case *types.Basic:
		if u.Info()&types.IsString != 0 {
			return Value{Kind: "bytes"}
		}
		return Value{Kind: "int"}
	case *types.Pointer:
		e := u.Elem()
		if b, ok := e.Underlying().(*types.Basic); ok && b.Info()&types.IsString != 0 {
			return Value{Kind: "bytes", Nil: true}
		}
		if _, ok := e.Underlying().(*types.Struct); ok && g.own(e) {
			return Value{Kind: "list", Nil: true}
		}
		return Value{Kind: "int"}
	case *types.Slice:
		if isByte(u.Elem()) {
			return Value{Kind: "bytes", Nil: true}
		}
		return Value{Kind: "list", Nil: true}
	case *types.Map:
		return Value{Kind: "list", Nil: true}
	case *types.Struct:
		if !g.own(t) {
			return Value{Kind: "int"}
		}
		v := Value{Kind: "struct"}
		for i := 0; i < u.NumFields(); i++ {
			v.Fields = append(v.Fields, g.zeroOf(u.Field(i).Type(), depth+1))
		}
		return v
	}
	return Value{Kind: "int"}
}

// zero of what the decoder allocates for an element of type t (pointers to structs are allocated)
func (g *Gen) zeroElem(t types.Type) Value {
	if p, ok := t.Underlying().(*types.Pointer); ok {
		if _, ok := p.Elem().Underlying().(*types.Struct); ok && g.own(p.Elem()) {
			return g.zeroOf(p.Elem(), 0)
		}
	}
	return g.zeroOf(t, 0)
}

// ---------------------------------------------------------------- format nodes

type AKind struct {
	ELen, ENull            string // ELI32|ELCompact ; ENone|EEmptyNull|ENilNull|ENilErr
	DLen                   string // DLArr|DLI32|(DLU32 k)|DLStrArr|DLCompact|DLCompactI32
	Zero, Null, Neg        string // BKeep|BNil|BEmpty|BPanic
	ESize                  int64
	Map                    bool
	Sorted                 bool // encoder iterates the map in sorted key order (not part of the Coq term)
	EarlyRet               [3]bool
}

func defaultKind() AKind {
	return AKind{ELen: "ELI32", ENull: "ENone", DLen: "DLArr", Zero: "BKeep", Null: "BKeep", Neg: "BKeep"}
}

func (k AKind) Coq() string {
	return fmt.Sprintf("{| ak_elen := %s; ak_enull := %s; ak_dlen := %s; ak_zero := %s; ak_null := %s; ak_neg := %s; ak_esize := %d; ak_map := %v |}",
		k.ELen, k.ENull, k.DLen, k.Zero, k.Null, k.Neg, k.ESize, k.Map)
}

type Node struct {
	Kind  string // prim const tag setver setconst arr derived
	P     string // prim
	Conv  string
	Z     int64
	Place *Place // target (resolved to Path at the end of the walk of its level)
	Path  []int
	Label string
	Names []string
	MakePos string
	K     AKind
	Zero  Value
	Elem  []*Node
	Bound bool   // prim temp has been bound to a place / skipped
	Skip  bool   // prim read into _
	Pos   string
	ElemT types.Type
}

func pathCoq(p []int) string {
	if len(p) == 0 {
		return "[]"
	}
	s := make([]string, len(p))
	for i, x := range p {
		s[i] = fmt.Sprintf("%d%%nat", x)
	}
	return "[" + strings.Join(s, "; ") + "]"
}

func zCoq(z int64) string {
	if z < 0 {
		return fmt.Sprintf("(%d)", z)
	}
	return fmt.Sprintf("%d", z)
}

func seqCoq(ns []*Node) string {
	// right-nested FSeq ... FNil
	var parts []string
	for _, n := range ns {
		if c := n.Coq(); c != "" {
			parts = append(parts, c)
		}
	}
	if len(parts) == 0 {
		return "FNil"
	}
	out := "FNil"
	for i := len(parts) - 1; i >= 0; i-- {
		out = "(FSeq " + parts[i] + " " + out + ")"
	}
	return out
}

func (n *Node) Coq() string {
	switch n.Kind {
	case "prim":
		return fmt.Sprintf("(FPrim %s %s %s)", n.P, n.Conv, pathCoq(n.Path))
	case "const":
		return fmt.Sprintf("(FConst %s %s)", n.P, zCoq(n.Z))
	case "tag":
		return "FTag"
	case "setver":
		return fmt.Sprintf("(FSetVer %s)", pathCoq(n.Path))
	case "setconst":
		return fmt.Sprintf("(FSetConst %s %s)", pathCoq(n.Path), zCoq(n.Z))
	case "arr":
		return fmt.Sprintf("(FArr %q (%s) %s %s %s)", n.Label, n.K.Coq(), pathCoq(n.Path), n.Zero.Coq(), seqCoq(n.Elem))
	case "derived":
		return ""
	}
	return "FNil"
}

// structural key used to merge identical per-version formats
func seqKey(ns []*Node) string { return seqCoq(ns) + "|" + derivedKey(ns, nil) }

func derivedKey(ns []*Node, pre []int) string {
	var sb strings.Builder
	for _, n := range ns {
		if n.Kind == "derived" {
			sb.WriteString(fmt.Sprint(n.Path))
		}
	}
	return sb.String()
}

func hasMap(ns []*Node) (m, sorted bool) {
	for _, n := range ns {
		if n.Kind == "arr" {
			if n.K.Map {
				m = true
				if n.K.Sorted {
					sorted = true
				}
			}
			a, b := hasMap(n.Elem)
			m = m || a
			sorted = sorted || b
		}
	}
	return
}
