package main

import (
	"fmt"
	"go/ast"
	"go/constant"
	"go/token"
	"go/types"
	"strings"
)

// ---------------------------------------------------------------- symbolic values

type Obj struct {
	id    int
	what  string
	name  string // local variable holding a collection under construction
	typ   types.Type
	bound *Place // where a locally built object ends up (X[i] = obj, r.F = obj, m[k] = obj)
	loop  *Loop  // element / entry object of a loop
}

type Place struct {
	obj   *Obj
	path  []int
	names []string
	typ   types.Type
	conv  string // "" or CDurMs (x / time.Millisecond)
}

func (p *Place) child(i int, name string, t types.Type) *Place {
	return &Place{obj: p.obj, path: append(append([]int{}, p.path...), i), names: append(append([]string{}, p.names...), name), typ: t}
}
func (p *Place) key() string { return fmt.Sprintf("o%d%v", p.obj.id, p.path) }

type SVal interface{}
type (
	Conc    struct{ v int64; fromVer bool }
	CBool   struct{ b bool }
	Coder   struct{}
	ErrV    struct{}
	NilV    struct{}
	Opaque  struct{ why string; temps []*Pending }
	LenOf   struct{ pl *Place; emptyNull bool }
	KeysOf  struct{ pl *Place }
	LoopIdx struct{ loop *Loop }
	MakeV   struct{ typ types.Type; size SVal; pos string }
	Pending struct {
		node *Node
		conv string
	}
	Count struct{ arr *ArrCtx }
)

type Class struct {
	val                      int64
	alive, returned, panicky bool
	assigned                 map[string]string
}

type ArrCtx struct {
	node     *Node
	countVar types.Object
	classes  [3]*Class
	made     map[string]SVal // key(place) -> size argument
	makePos  map[string]string
	started  bool
	level    *[]*Node
	coll     *Place // enc: the collection whose length was written
	retKind  bool   // a non-positive count class left through return (rather than continue)
	frozen   int
}

type Loop struct {
	arr    *ArrCtx
	idx    types.Object
	elem   *Obj
	coll   *Place
	isMap  bool
	sorted bool
	keyT   types.Type
	valT   types.Type
}

type ctl int

const (
	ctlNone ctl = iota
	ctlReturn
	ctlContinue
	ctlBreak
)

type walkErr struct{ msg string }

type W struct {
	g        *Gen
	side     string // enc | dec
	ver      int64
	env      map[types.Object]SVal
	known    map[string]int64
	out      *[]*Node
	root     *Obj
	loops    []*Loop
	pending  *ArrCtx
	frozen   int
	depth    int
	nobj     int
	label    string
	lenient  bool
	notes    []string
	recvType string
	frameLvl *[]*Node // node list that is the top level of the method being walked
	frameIdx int
	earlyArr []*earlyChk
	temps    []*Pending
	visited  map[string]bool
	lastMade map[string]MakeV
	nullNext *Place
	nullKind string
	nullLast bool // the null pattern returned/continued: the array must be the last thing coded at its level
	nullRet  bool
	countLike map[types.Object]bool // variables used as a make size or a loop bound somewhere
	lvalue   bool // evaluating an assignment target: known field values are not substituted
	knownVer map[string]bool
}

type earlyChk struct {
	arr   *ArrCtx
	level *[]*Node
	ret   bool // return (vs continue)
	top   bool
}

func (w *W) fail(n ast.Node, f string, a ...interface{}) {
	pos := ""
	if n != nil {
		pos = w.g.pkg.pos(n) + ": "
	}
	panic(walkErr{pos + fmt.Sprintf(f, a...)})
}

func (w *W) newObj(what string, t types.Type) *Obj {
	w.nobj++
	return &Obj{id: w.nobj, what: what, typ: t}
}

func (w *W) emit(n *Node) {
	if w.pending != nil && !w.pending.started && n.Kind != "setver" && n.Kind != "setconst" && n.Kind != "derived" {
		w.fail(nil, "%s: a coder call between the count of %s and its loop", n.Pos, w.pending.node.Pos)
	}
	*w.out = append(*w.out, n)
}

func deref(t types.Type) types.Type {
	if p, ok := t.Underlying().(*types.Pointer); ok {
		return p.Elem()
	}
	return t
}

func namedName(t types.Type) string {
	t = deref(t)
	if n, ok := t.(*types.Named); ok {
		return n.Obj().Name()
	}
	return ""
}

// ---------------------------------------------------------------- expressions

func (w *W) constOf(e ast.Expr) (int64, bool) {
	tv, ok := w.g.pkg.Info.Types[e]
	if ok && tv.Value != nil && tv.Value.Kind() == constant.Int {
		if v, ok := constant.Int64Val(tv.Value); ok {
			return v, true
		}
	}
	return 0, false
}

func (w *W) isTypeExpr(e ast.Expr) bool {
	tv, ok := w.g.pkg.Info.Types[e]
	return ok && tv.IsType()
}

func (w *W) typeOf(e ast.Expr) types.Type {
	if tv, ok := w.g.pkg.Info.Types[e]; ok {
		return tv.Type
	}
	if id, ok := e.(*ast.Ident); ok {
		if o := w.g.pkg.Info.Uses[id]; o != nil {
			return o.Type()
		}
		if o := w.g.pkg.Info.Defs[id]; o != nil {
			return o.Type()
		}
	}
	return nil
}

func (w *W) objOf(id *ast.Ident) types.Object {
	if o := w.g.pkg.Info.Uses[id]; o != nil {
		return o
	}
	return w.g.pkg.Info.Defs[id]
}

func (w *W) eval(e ast.Expr) SVal {
	if v, ok := w.constOf(e); ok {
		return Conc{v: v}
	}
	switch x := e.(type) {
	case *ast.ParenExpr:
		return w.eval(x.X)
	case *ast.Ident:
		switch x.Name {
		case "nil":
			return NilV{}
		case "true":
			return CBool{true}
		case "false":
			return CBool{false}
		case "_":
			return Opaque{why: "_"}
		}
		o := w.objOf(x)
		if o == nil {
			return Opaque{why: x.Name}
		}
		if v, ok := w.env[o]; ok {
			return v
		}
		return Opaque{why: "free variable " + x.Name}
	case *ast.BasicLit:
		return Opaque{why: "literal"}
	case *ast.StarExpr:
		return w.eval(x.X)
	case *ast.SelectorExpr:
		sel := w.g.pkg.Info.Selections[x]
		if sel == nil { // qualified identifier pkg.Name (non-constant)
			return Opaque{why: "qualified " + x.Sel.Name}
		}
		if sel.Kind() != types.FieldVal {
			return Opaque{why: "method value"}
		}
		base := w.eval(x.X)
		pl, ok := base.(*Place)
		if !ok {
			if op, ok := base.(Opaque); ok {
				return Opaque{why: "field of opaque (" + op.why + ")", temps: op.temps}
			}
			return Opaque{why: "field of non-place"}
		}
		cur := pl
		t := deref(pl.typ)
		for _, idx := range sel.Index() {
			st, ok := deref(t).Underlying().(*types.Struct)
			if !ok {
				w.fail(e, "selection through non-struct")
			}
			f := st.Field(idx)
			cur = cur.child(idx, f.Name(), f.Type())
			t = f.Type()
		}
		if v, ok := w.known[cur.key()]; ok && !w.lvalue {
			return Conc{v: v, fromVer: w.knownVer[cur.key()]}
		}
		return cur
	case *ast.IndexExpr:
		return w.evalIndex(x)
	case *ast.UnaryExpr:
		switch x.Op {
		case token.AND:
			if cl, ok := x.X.(*ast.CompositeLit); ok {
				return w.evalComposite(cl)
			}
			return w.eval(x.X)
		case token.SUB:
			if c, ok := w.eval(x.X).(Conc); ok {
				return Conc{v: -c.v, fromVer: c.fromVer}
			}
		case token.NOT:
			if b, ok := w.eval(x.X).(CBool); ok {
				return CBool{!b.b}
			}
		}
		return w.opaqueOf("unary expression", x.X)
	case *ast.CompositeLit:
		return w.evalComposite(x)
	case *ast.BinaryExpr:
		return w.evalBinary(x)
	case *ast.CallExpr:
		return w.evalCall(x)
	case *ast.FuncLit:
		return Opaque{why: "func literal"}
	}
	return Opaque{why: fmt.Sprintf("%T", e)}
}

// opaqueOf: an opaque value that remembers the decoder temporaries it was computed from
func (w *W) opaqueOf(why string, es ...ast.Expr) Opaque {
	o := Opaque{why: why}
	for _, e := range es {
		switch v := w.eval(e).(type) {
		case *Pending:
			o.temps = append(o.temps, v)
		case Opaque:
			o.temps = append(o.temps, v.temps...)
		}
	}
	return o
}

func (w *W) evalComposite(cl *ast.CompositeLit) SVal {
	t := w.typeOf(cl)
	if t == nil {
		return Opaque{why: "composite literal"}
	}
	if _, ok := t.Underlying().(*types.Struct); ok && w.g.own(t) {
		if len(cl.Elts) != 0 {
			return w.opaqueOf("struct literal with fields", eltValues(cl)...)
		}
		return &Place{obj: w.newObj("new", t), typ: t}
	}
	return w.opaqueOf("composite literal", eltValues(cl)...)
}

func eltValues(cl *ast.CompositeLit) []ast.Expr {
	var out []ast.Expr
	for _, e := range cl.Elts {
		if kv, ok := e.(*ast.KeyValueExpr); ok {
			out = append(out, kv.Value)
		} else {
			out = append(out, e)
		}
	}
	return out
}

func (w *W) evalBinary(x *ast.BinaryExpr) SVal {
	switch x.Op {
	case token.LAND, token.LOR:
		a := w.eval(x.X)
		if ab, ok := a.(CBool); ok {
			if x.Op == token.LAND && !ab.b {
				return CBool{false}
			}
			if x.Op == token.LOR && ab.b {
				return CBool{true}
			}
			return w.eval(x.Y)
		}
		b := w.eval(x.Y)
		if bb, ok := b.(CBool); ok {
			if x.Op == token.LAND && !bb.b {
				return CBool{false}
			}
			if x.Op == token.LOR && bb.b {
				return CBool{true}
			}
			return a
		}
		return w.opaqueOf("boolean expression", x.X, x.Y)
	}
	a, b := w.eval(x.X), w.eval(x.Y)
	ca, oka := a.(Conc)
	cb, okb := b.(Conc)
	if oka && okb {
		fv := ca.fromVer || cb.fromVer
		switch x.Op {
		case token.ADD:
			return Conc{ca.v + cb.v, fv}
		case token.SUB:
			return Conc{ca.v - cb.v, fv}
		case token.MUL:
			return Conc{ca.v * cb.v, fv}
		case token.QUO:
			if cb.v != 0 {
				return Conc{ca.v / cb.v, fv}
			}
		case token.EQL:
			return CBool{ca.v == cb.v}
		case token.NEQ:
			return CBool{ca.v != cb.v}
		case token.LSS:
			return CBool{ca.v < cb.v}
		case token.LEQ:
			return CBool{ca.v <= cb.v}
		case token.GTR:
			return CBool{ca.v > cb.v}
		case token.GEQ:
			return CBool{ca.v >= cb.v}
		}
	}
	// err != nil / err == nil
	if _, ok := a.(ErrV); ok {
		if _, ok := b.(NilV); ok {
			return CBool{x.Op == token.EQL}
		}
	}
	// Duration / time.Millisecond  and  Duration(tmp) * time.Millisecond
	if okb && cb.v == 1000000 {
		if pl, ok := a.(*Place); ok && x.Op == token.QUO && pl.conv == "" {
			q := *pl
			q.conv = "CDurMs"
			return &q
		}
		if pd, ok := a.(*Pending); ok && x.Op == token.MUL && pd.conv == "" {
			return &Pending{node: pd.node, conv: "CDurMs"}
		}
	}
	return w.opaqueOf("binary expression "+x.Op.String(), x.X, x.Y)
}

func (w *W) evalCall(c *ast.CallExpr) SVal {
	// conversions
	if w.isTypeExpr(c.Fun) && len(c.Args) == 1 {
		v := w.eval(c.Args[0])
		switch v.(type) {
		case *Place, *Pending, Conc, *Count, LenOf:
			return v
		}
		return w.opaqueOf("conversion", c.Args[0])
	}
	if id, ok := c.Fun.(*ast.Ident); ok {
		if _, isBuiltin := w.objOf(id).(*types.Builtin); isBuiltin {
			switch id.Name {
			case "len":
				if pl, ok := w.eval(c.Args[0]).(*Place); ok {
					return LenOf{pl: pl}
				}
				return w.opaqueOf("len", c.Args[0])
			case "new":
				t := w.typeOf(c.Args[0])
				if _, ok := t.Underlying().(*types.Struct); ok && w.g.own(t) {
					return &Place{obj: w.newObj("new", t), typ: t}
				}
				return Opaque{why: "new of non-struct"}
			case "make":
				t := w.typeOf(c.Args[0])
				var size SVal
				if len(c.Args) >= 2 {
					size = w.eval(c.Args[len(c.Args)-1])
					if len(c.Args) == 3 { // make([]T, 0, n): no elements yet
						size = nil
					}
				}
				return MakeV{typ: t, size: size, pos: w.g.pkg.pos(c)}
			case "append":
				return w.opaqueOf("append", c.Args...)
			}
		}
	}
	// r.version()
	if sel, ok := c.Fun.(*ast.SelectorExpr); ok && sel.Sel.Name == "version" && len(c.Args) == 0 {
		if pl, ok := w.eval(sel.X).(*Place); ok && pl.obj == w.g.curTop && len(pl.path) == 0 {
			return Conc{v: w.g.curVer, fromVer: true}
		}
	}
	return w.opaqueOf("call", c.Args...)
}

// X[i] / m[k]
func (w *W) evalIndex(x *ast.IndexExpr) SVal {
	base := w.eval(x.X)
	pl, ok := base.(*Place)
	if !ok {
		return w.opaqueOf("index of non-place", x.Index)
	}
	idx := w.eval(x.Index)
	// find the loop this collection belongs to
	var loop *Loop
	for i := len(w.loops) - 1; i >= 0; i-- {
		l := w.loops[i]
		if l.coll != nil && l.coll.key() == pl.key() {
			loop = l
			break
		}
	}
	if loop == nil && len(w.loops) > 0 {
		l := w.loops[len(w.loops)-1]
		if l.coll == nil && w.side == "dec" {
			w.bindColl(l, pl, x)
			loop = l
		}
	}
	if loop == nil {
		w.fail(x, "index expression on a collection that is not being looped over")
	}
	if loop.isMap {
		switch k := idx.(type) {
		case *Pending:
			if k.node.Place == nil {
				k.node.Place = &Place{obj: loop.elem, path: []int{0}, names: []string{"key"}, typ: loop.keyT}
				k.node.Conv = convOr(k.conv)
				k.node.Bound = true
			} else if k.node.Place.obj != loop.elem || len(k.node.Place.path) != 1 || k.node.Place.path[0] != 0 {
				w.fail(x, "map indexed by a value that is not this entry's key")
			}
		case *Place:
			if k.obj != loop.elem || len(k.path) != 1 || k.path[0] != 0 {
				w.fail(x, "map indexed by a value that is not this entry's key")
			}
		default:
			w.fail(x, "map indexed by an unsupported expression")
		}
		return &Place{obj: loop.elem, path: []int{1}, names: []string{"val"}, typ: loop.valT}
	}
	if li, ok := idx.(LoopIdx); !ok || li.loop != loop {
		w.fail(x, "slice indexed by something other than its loop variable")
	}
	return &Place{obj: loop.elem, typ: loop.valT}
}

func convOr(c string) string {
	if c == "" {
		return "CId"
	}
	return c
}

func (w *W) bindColl(l *Loop, pl *Place, n ast.Node) {
	l.coll = pl
	switch t := pl.typ.Underlying().(type) {
	case *types.Map:
		l.isMap = true
		l.keyT, l.valT = t.Key(), t.Elem()
	case *types.Slice:
		l.valT = t.Elem()
	default:
		w.fail(n, "loop over a %s", pl.typ)
	}
	l.elem.typ = l.valT
}

// ---------------------------------------------------------------- resolving places to paths

func (w *W) resolve(pl *Place, root *Obj, pos string) ([]int, []string) {
	path := append([]int{}, pl.path...)
	names := append([]string{}, pl.names...)
	cur := pl.obj
	for n := 0; cur != root; n++ {
		if cur.bound == nil || n > 20 {
			w.fail(nil, "%s: decoded value is never stored in the result (object %s)", pos, cur.what)
		}
		path = append(append([]int{}, cur.bound.path...), path...)
		names = append(append([]string{}, cur.bound.names...), names...)
		cur = cur.bound.obj
	}
	return path, names
}

func (w *W) finishLevel(nodes []*Node, root *Obj) {
	for _, n := range nodes {
		switch n.Kind {
		case "prim", "arr", "setver", "setconst", "derived":
			if n.Kind == "prim" && n.Place == nil {
				if n.Skip {
					n.Kind = "const"
					continue
				}
				w.fail(nil, "%s: decoded value is never assigned to a field", n.Pos)
			}
			if n.Place == nil {
				w.fail(nil, "%s: collection without a destination", n.Pos)
			}
			n.Path, n.Names = w.resolve(n.Place, root, n.Pos)
		}
	}
}

// labels of the collections: <row>.<field>[.<field>] with [] for each enclosing collection
func labelAll(ns []*Node, prefix string) {
	for _, n := range ns {
		if n.Kind == "arr" {
			n.Label = prefix
			if len(n.Names) > 0 {
				n.Label = prefix + "." + strings.Join(n.Names, ".")
			}
			labelAll(n.Elem, n.Label+"[]")
		}
	}
}

func sizeOfElem(g *Gen, t types.Type) int64 {
	s := g.pkg.Sizes.Sizeof(t)
	if s < 1 {
		s = 1
	}
	return s
}

func (w *W) evalL(e ast.Expr) SVal {
	save := w.lvalue
	w.lvalue = true
	defer func() { w.lvalue = save }()
	return w.eval(e)
}
