package main

import (
	"go/ast"
	"go/token"
	"go/types"
)

// ---------------------------------------------------------------- loops

func (w *W) runLoopBody(loop *Loop, body *ast.BlockStmt, arr *ArrCtx) {
	var nodes []*Node
	saveOut, saveRoot, saveLabel, savePending := w.out, w.root, w.label, w.pending
	w.out, w.root = &nodes, loop.elem
	w.pending = nil
	w.loops = append(w.loops, loop)
	c := w.walkBlock(body.List)
	if c == ctlReturn || c == ctlBreak {
		w.fail(body, "loop body leaves the loop unconditionally")
	}
	if w.pending != nil && !w.pending.started {
		w.fail(body, "a count is written/read but no loop over the collection follows")
	}
	w.loops = w.loops[:len(w.loops)-1]
	if loop.coll == nil {
		w.fail(body, "loop does not fill any collection")
	}
	// label of nested collections: <outer label>[]
	w.label = saveLabel
	for _, e := range w.earlyArr {
		if e.level == &nodes && !e.top {
			if e.ret {
				w.fail(nil, "%s: return from inside a loop body on a zero/null count", e.arr.node.Pos)
			}
			idx := -1
			for j, n := range nodes {
				if n == e.arr.node {
					idx = j
				}
			}
			for _, n := range nodes[idx+1:] {
				if n.Kind != "derived" {
					w.fail(nil, "%s: `continue` on a zero/null count skips what follows (%s)", e.arr.node.Pos, n.Pos)
				}
			}
			e.top = true
		}
	}
	w.out, w.root, w.pending = saveOut, saveRoot, savePending
	// the element level is resolved relative to the element object
	n := arr.node
	n.Place = loop.coll
	n.K.Map = loop.isMap
	n.K.Sorted = loop.sorted
	w.finishLevel(nodes, loop.elem)
	n.Elem = nodes
	if loop.isMap {
		n.Zero = Value{Kind: "struct", Fields: []Value{w.g.zeroOf(loop.keyT, 0), w.g.zeroElem(loop.valT)}}
	} else {
		n.Zero = w.g.zeroElem(loop.valT)
	}
	n.ElemT = loop.valT
}

func joinNames(ns []string) string {
	s := ""
	for i, n := range ns {
		if i > 0 {
			s += "."
		}
		s += n
	}
	return s
}

// for k, v := range X   /   for i := range X
func (w *W) walkRange(x *ast.RangeStmt) {
	xv := w.eval(x.X)
	if w.side == "enc" {
		w.encRange(x, xv)
		return
	}
	// decoder: for i := range X where X was made with the pending count
	pl, ok := xv.(*Place)
	if !ok || w.pending == nil || w.pending.started {
		if w.effectFree(x) {
			return
		}
		w.fail(x, "range loop in a decoder over something that was not just allocated from a count")
	}
	size, made := w.pending.made[pl.key()]
	cnt, isCount := size.(*Count)
	if !made || !isCount || cnt.arr != w.pending {
		w.fail(x, "range loop over a collection that was not made with the count just read")
	}
	arr := w.pending
	loop := &Loop{arr: arr, elem: w.newObj("elem", nil)}
	loop.elem.loop = loop
	if id, ok := x.Key.(*ast.Ident); ok && id.Name != "_" {
		loop.idx = w.g.pkg.Info.Defs[id]
		w.env[loop.idx] = LoopIdx{loop}
	}
	if x.Value != nil {
		w.fail(x, "decoder ranges over values")
	}
	w.bindColl(loop, pl, x)
	w.startDecLoop(arr, loop, x.Body)
}

func (w *W) encRange(x *ast.RangeStmt, xv SVal) {
	// collecting the keys of a map in order to sort them
	if pl, ok := xv.(*Place); ok {
		if _, isMap := pl.typ.Underlying().(*types.Map); isMap && len(x.Body.List) == 1 && x.Value == nil {
			if as, ok := x.Body.List[0].(*ast.AssignStmt); ok && len(as.Lhs) == 1 && len(as.Rhs) == 1 {
				if call, ok := as.Rhs[0].(*ast.CallExpr); ok {
					if id, ok := call.Fun.(*ast.Ident); ok && id.Name == "append" {
						if kid, ok := as.Lhs[0].(*ast.Ident); ok {
							w.env[w.objOf(kid)] = KeysOf{pl: pl}
							return
						}
					}
				}
			}
		}
	}
	arr := w.pending
	if arr == nil || arr.started {
		if w.effectFree(x) {
			return
		}
		w.fail(x, "range loop without a preceding putArrayLength")
	}
	loop := &Loop{arr: arr, elem: w.newObj("elem", nil)}
	loop.elem.loop = loop
	var coll *Place
	switch v := xv.(type) {
	case *Place:
		coll = v
	case KeysOf:
		coll = v.pl
		loop.sorted = true
	default:
		w.fail(x, "range over an unsupported expression")
	}
	if coll.key() != arr.coll.key() {
		w.fail(x, "the loop ranges over %s but the length written is that of %s", joinNames(coll.names), joinNames(arr.coll.names))
	}
	w.bindColl(loop, coll, x)
	keyId, _ := x.Key.(*ast.Ident)
	valId, _ := x.Value.(*ast.Ident)
	bind := func(id *ast.Ident, v SVal) {
		if id != nil && id.Name != "_" {
			w.env[w.g.pkg.Info.Defs[id]] = v
		}
	}
	keyPl := &Place{obj: loop.elem, path: []int{0}, names: []string{"key"}, typ: loop.keyT}
	valPl := &Place{obj: loop.elem, path: []int{1}, names: []string{"val"}, typ: loop.valT}
	switch {
	case loop.sorted: // for _, k := range keys  ... X[k]
		bind(valId, keyPl)
		if keyId != nil && keyId.Name != "_" {
			w.fail(x, "index of the sorted key slice is used")
		}
	case loop.isMap:
		bind(keyId, keyPl)
		bind(valId, valPl)
	default:
		if keyId != nil && keyId.Name != "_" {
			loop.idx = w.g.pkg.Info.Defs[keyId]
			w.env[loop.idx] = LoopIdx{loop}
		}
		bind(valId, &Place{obj: loop.elem, typ: loop.valT})
	}
	arr.started = true
	w.runLoopBody(loop, x.Body, arr)
	w.pending = nil
}

// for i := 0; i < n; i++
func (w *W) walkFor(x *ast.ForStmt) {
	if w.side == "enc" {
		if w.effectFree(x) {
			return
		}
		w.fail(x, "counted loop in an encoder")
	}
	cond, ok := x.Cond.(*ast.BinaryExpr)
	if !ok || cond.Op != token.LSS || x.Init == nil {
		if w.effectFree(x) {
			return
		}
		w.fail(x, "unsupported loop form")
	}
	init, ok := x.Init.(*ast.AssignStmt)
	if !ok || len(init.Lhs) != 1 {
		w.fail(x, "unsupported loop initialisation")
	}
	idxId, ok := init.Lhs[0].(*ast.Ident)
	if !ok {
		w.fail(x, "unsupported loop variable")
	}
	// the bound must be the count of the pending collection
	arr := w.countIn(cond.Y)
	if arr == nil || arr != w.pending || arr.started {
		w.fail(x, "loop bound is not the count that was just read")
	}
	if _, ok := w.eval(cond.Y).(*Count); !ok {
		w.fail(x, "loop bound is an expression over the count")
	}
	loop := &Loop{arr: arr, elem: w.newObj("elem", nil)}
	loop.elem.loop = loop
	loop.idx = w.g.pkg.Info.Defs[idxId]
	w.env[loop.idx] = LoopIdx{loop}
	w.startDecLoop(arr, loop, x.Body)
}

func (w *W) startDecLoop(arr *ArrCtx, loop *Loop, body *ast.BlockStmt) {
	if len(*w.out) == 0 || (*w.out)[len(*w.out)-1] != arr.node {
		w.fail(body, "something is decoded between the count and its loop")
	}
	arr.started = true
	w.runLoopBody(loop, body, arr)
	w.pending = nil
	// allocation: was the collection made with this count?
	k := &arr.node.K
	size, made := arr.made[loop.coll.key()]
	arr.node.MakePos = arr.makePos[loop.coll.key()]
	if !made {
		if mk, ok := w.lastMade[loop.coll.key()]; ok {
			size, made = mk.size, true
			arr.node.MakePos = mk.pos
		}
	}
	if !made {
		w.fail(body, "the collection %s is filled but never allocated", joinNames(loop.coll.names))
	}
	if c, ok := size.(*Count); ok && c.arr == arr {
		if loop.isMap {
			k.ESize = sizeOfElem(w.g, loop.keyT) + sizeOfElem(w.g, loop.valT)
		} else {
			k.ESize = sizeOfElem(w.g, loop.valT)
		}
	} else if size != nil {
		w.fail(body, "the collection %s is allocated with a size that is not its count", joinNames(loop.coll.names))
	} else if !loop.isMap {
		w.fail(body, "the slice %s is allocated without a size", joinNames(loop.coll.names))
	}
	// behaviour on the non-positive counts
	behs := []*string{&k.Zero, &k.Null, &k.Neg}
	for i, c := range arr.classes {
		b := "BKeep"
		st := c.assigned[loop.coll.key()]
		if st == "" && loop.coll.obj.what == "coll" && len(loop.coll.path) == 0 {
			st = c.assigned["var:"+loop.coll.obj.name]
		}
		switch {
		case c.panicky:
			b = "BPanic"
		case st == "empty":
			b = "BEmpty"
		case st == "nil":
			b = "BNil"
		}
		*behs[i] = b
		if c.returned {
			k.EarlyRet[i] = true
		}
	}
	if k.EarlyRet[0] || k.EarlyRet[1] || k.EarlyRet[2] {
		w.earlyArr = append(w.earlyArr, &earlyChk{arr: arr, level: w.out, ret: arr.retKind})
	}
}

// ---------------------------------------------------------------- the class interpreter
// Runs the statements between a count and its loop for the counts 0, -1 and -2 concretely.

func (w *W) classStmt(arr *ArrCtx, c *Class, s ast.Stmt) {
	if !c.alive {
		return
	}
	switch x := s.(type) {
	case *ast.BlockStmt:
		for _, t := range x.List {
			w.classStmt(arr, c, t)
		}
	case *ast.IfStmt:
		if x.Init != nil {
			if w.touchesCoder(x.Init) {
				return // the symbolic walk will refuse a coder call here
			}
			w.classStmt(arr, c, x.Init)
		}
		cond := x.Cond
		if isErrCheck(w, cond) {
			if x.Else != nil {
				w.classStmt(arr, c, x.Else)
			}
			return
		}
		if b, ok := cond.(*ast.BinaryExpr); ok && b.Op == token.LOR && isErrCheck(w, b.X) {
			cond = b.Y
		}
		v, ok := w.evalWithCount(cond, arr, c.val)
		if !ok {
			if w.effectFree(x) {
				return
			}
			w.fail(x, "cannot evaluate the condition for count %d", c.val)
		}
		if v {
			w.classStmt(arr, c, x.Body)
		} else if x.Else != nil {
			w.classStmt(arr, c, x.Else)
		}
	case *ast.ReturnStmt:
		c.alive, c.returned = false, true
		arr.retKind = true
	case *ast.BranchStmt:
		if x.Tok == token.CONTINUE {
			c.alive, c.returned = false, true
			return
		}
		w.fail(s, "break on a non-positive count")
	case *ast.AssignStmt:
		if len(x.Lhs) != len(x.Rhs) {
			return
		}
		for i := range x.Lhs {
			w.classAssign(arr, c, x.Lhs[i], x.Rhs[i], s)
		}
	case *ast.ForStmt, *ast.RangeStmt:
		// loops over the count do not run for non-positive counts
	case *ast.DeclStmt, *ast.ExprStmt, *ast.IncDecStmt, *ast.EmptyStmt:
	}
}

func (w *W) classAssign(arr *ArrCtx, c *Class, l, r ast.Expr, at ast.Stmt) {
	// n = <constant>
	if id, ok := l.(*ast.Ident); ok && w.objOf(id) == arr.countVar {
		old := w.env[arr.countVar]
		w.env[arr.countVar] = Conc{v: c.val}
		v, ok := w.eval(r).(Conc)
		w.env[arr.countVar] = old
		if !ok {
			w.fail(at, "count reassigned to a non-constant")
		}
		c.val = v.v
		return
	}
	call, isCall := r.(*ast.CallExpr)
	isMake := false
	if isCall {
		if id, ok := call.Fun.(*ast.Ident); ok && id.Name == "make" {
			isMake = true
		}
	}
	_, isNil := w.eval(r).(NilV)
	if !isMake && !isNil {
		if cl, ok := r.(*ast.CompositeLit); ok {
			// X = []T{}  : an empty non-nil collection
			if t := w.typeOf(cl); t != nil {
				if _, isSl := t.Underlying().(*types.Slice); isSl && len(cl.Elts) == 0 {
					if key := w.lvalueKey(l); key != "" {
						c.assigned[key] = "empty"
					}
				}
			}
		}
		return
	}
	key := w.lvalueKey(l)
	if key == "" {
		return
	}
	if isNil {
		c.assigned[key] = "nil"
		return
	}
	// make(T, size): a negative size panics for slices
	t := w.typeOf(call.Args[0])
	if _, isSlice := t.Underlying().(*types.Slice); isSlice && len(call.Args) >= 2 {
		old := w.env[arr.countVar]
		w.env[arr.countVar] = Conc{v: c.val}
		sz, ok := w.eval(call.Args[1]).(Conc)
		w.env[arr.countVar] = old
		if ok && sz.v < 0 {
			c.alive, c.panicky = false, true
			return
		}
	}
	c.assigned[key] = "empty"
}

func (w *W) lvalueKey(l ast.Expr) string {
	if id, ok := l.(*ast.Ident); ok {
		if o := w.objOf(id); o != nil {
			if pl, ok := w.env[o].(*Place); ok {
				return pl.key()
			}
			return "var:" + id.Name
		}
		return ""
	}
	defer func() { _ = recover() }()
	if pl, ok := w.evalL(l).(*Place); ok {
		return pl.key()
	}
	return ""
}
