// wiregen: reads every encode(pe)/decode(pd, version) method of package sarama (the tree given by -repo)
// and turns it, version by version, into a term of the format language of coq/WireFmt/Format.v.
//
// Output (-out DIR): GenFormats.v (logical root SVB: Definition gen_cfg, gen_table) and wiregen.json
// (coverage per method, rows with version ranges and comparison masks for the harness).
// Exit status 0 also when methods are irregular; the check decides from the JSON (an irregular method
// that is not in irregular.json is a broken tie).
package main

import (
	"encoding/json"
	"flag"
	"fmt"
	"go/ast"
	"go/token"
	"go/types"
	"os"
	"path/filepath"
	"sort"
	"strings"
)

type Gen struct {
	pkg    *Pkg
	curTop *Obj
	curVer int64
}

// extra roots besides the protocol bodies: data written by other group members
var extraRoots = []string{"ConsumerGroupMemberMetadata", "ConsumerGroupMemberAssignment", "StickyAssignorUserDataV0", "StickyAssignorUserDataV1"}

// codecs that belong to the records layer / framing (hand-modelled in coq/Wire by the primitives part)
var recordsLayer = map[string]bool{"Message": true, "MessageBlock": true, "MessageSet": true, "Record": true, "RecordHeader": true,
	"RecordBatch": true, "recordsArray": true, "Records": true, "Timestamp": true, "request": true, "responseHeader": true,
	"lengthField": true, "varintLengthField": true, "ControlRecord": true}

type SideResult struct {
	OK      bool              `json:"ok"`
	Reason  string            `json:"reason,omitempty"`
	ByVer   map[int64][]*Node `json:"-"`
	Lenient bool              `json:"lenient,omitempty"`
	Visited map[string]bool   `json:"-"`
	Notes   []string          `json:"notes,omitempty"`
}

type RowOut struct {
	Name      string             `json:"name"`
	Body      bool               `json:"body"` // implements protocolBody
	VMin      int64              `json:"vmin"`
	VMax      int64              `json:"vmax"`
	VerField  []int              `json:"ver_field"`
	Enc       SideResult         `json:"enc"`
	Dec       SideResult         `json:"dec"`
	HasMap    bool               `json:"has_map"`
	AllSorted bool               `json:"all_sorted"`
	Untrusted bool               `json:"untrusted"`
	Masks     map[string][][]int `json:"masks"` // version -> derived paths (-1 = every element)
	Sites     []string           `json:"sites"`
	SiteMake  map[string]string  `json:"site_make"` // collection label -> position of the make call that allocates it
}

func main() {
	repo := flag.String("repo", "/repo", "sarama source tree")
	out := flag.String("out", ".", "output directory")
	only := flag.String("only", "", "comma-separated row names (debugging)")
	verbose := flag.Bool("v", false, "print reasons")
	flag.Parse()
	self, _ := os.Getwd()
	outAbs, _ := filepath.Abs(*out)
	pkg, err := loadPkg(*repo)
	if err != nil {
		fmt.Fprintln(os.Stderr, "wiregen:", err)
		os.Exit(2)
	}
	g := &Gen{pkg: pkg}
	hand := map[string]string{}
	if b, err := os.ReadFile(filepath.Join(self, "irregular.json")); err == nil {
		if err := json.Unmarshal(b, &hand); err != nil {
			fmt.Fprintln(os.Stderr, "wiregen: irregular.json:", err)
			os.Exit(2)
		}
	}

	// roots
	var roots []string
	isBody := map[string]bool{}
	scope := pkg.Types.Scope()
	for _, n := range scope.Names() {
		tn, ok := scope.Lookup(n).(*types.TypeName)
		if !ok {
			continue
		}
		has := func(m string) bool { return pkg.Methods[n+"."+m] != nil }
		if _, ok := tn.Type().Underlying().(*types.Struct); !ok {
			continue
		}
		if has("key") && has("version") && has("requiredVersion") && (has("encode") || has("decode")) {
			roots = append(roots, n)
			isBody[n] = true
		}
	}
	for _, n := range extraRoots {
		if pkg.Methods[n+".encode"] != nil || pkg.Methods[n+".decode"] != nil {
			roots = append(roots, n)
		}
	}
	sort.Strings(roots)
	if *only != "" {
		keep := map[string]bool{}
		for _, s := range strings.Split(*only, ",") {
			keep[s] = true
		}
		var r2 []string
		for _, r := range roots {
			if keep[r] {
				r2 = append(r2, r)
			}
		}
		roots = r2
	}

	regularMethods := map[string]bool{}
	methodReason := map[string]string{}
	var rows []*RowOut
	for _, name := range roots {
		row := g.doRoot(name, isBody[name])
		rows = append(rows, row)
		for _, sr := range []struct {
			r *SideResult
			m string
		}{{&row.Enc, name + ".encode"}, {&row.Dec, name + ".decode"}} {
			if sr.r.OK {
				for m := range sr.r.Visited {
					regularMethods[m] = true
				}
			} else if pkg.Methods[sr.m] != nil {
				methodReason[sr.m] = sr.r.Reason
			}
		}
		if *verbose {
			fmt.Printf("%-42s v%d..%d enc=%v dec=%v %s %s\n", name, row.VMin, row.VMax, row.Enc.OK, row.Dec.OK, row.Enc.Reason, row.Dec.Reason)
		}
	}

	// per-method coverage: every encode/decode method of the package
	type cov struct {
		Method, File, Status, Reason string
	}
	var coverage []cov
	var mnames []string
	for m := range pkg.Methods {
		if strings.HasSuffix(m, ".encode") || strings.HasSuffix(m, ".decode") {
			mnames = append(mnames, m)
		}
	}
	sort.Strings(mnames)
	counts := map[string]int{}
	for _, m := range mnames {
		tn := m[:strings.Index(m, ".")]
		c := cov{Method: m, File: pkg.FileOf[m]}
		switch {
		case regularMethods[m]:
			c.Status = "regular"
		case recordsLayer[tn]:
			c.Status, c.Reason = "records-layer", "hand-modelled in coq/Wire (primitives/records part)"
		default:
			// try it standalone (sub-codecs that no regular root reaches)
			if _, isRoot := isBody[tn]; !isRoot && *only == "" {
				if r := g.standalone(tn, strings.HasSuffix(m, ".encode")); r.OK {
					c.Status = "regular"
					break
				} else if methodReason[m] == "" {
					methodReason[m] = r.Reason
				}
			}
			if why, ok := hand[m]; ok {
				c.Status, c.Reason = "irregular", why+" [translator: "+methodReason[m]+"]"
			} else {
				c.Status, c.Reason = "untranslatable", methodReason[m]
			}
		}
		counts[c.Status]++
		coverage = append(coverage, c)
	}

	cfg := g.primCfg()
	if err := os.MkdirAll(outAbs, 0o755); err != nil {
		fmt.Fprintln(os.Stderr, err)
		os.Exit(2)
	}
	g.writeCoq(filepath.Join(outAbs, "GenFormats.v"), rows, cfg)
	js := map[string]interface{}{"rows": rows, "coverage": coverage, "counts": counts, "cfg": cfg, "methods": len(mnames)}
	b, _ := json.MarshalIndent(js, "", " ")
	os.WriteFile(filepath.Join(outAbs, "wiregen.json"), b, 0o644)
	fmt.Printf("WIREGEN methods=%d regular=%d irregular=%d records-layer=%d untranslatable=%d rows=%d\n",
		len(mnames), counts["regular"], counts["irregular"], counts["records-layer"], counts["untranslatable"], len(rows))
	if *verbose {
		for _, c := range coverage {
			if c.Status != "regular" && c.Status != "records-layer" {
				fmt.Printf("  %-14s %-48s %s\n", c.Status, c.Method, c.Reason)
			}
		}
	}
}

// ---------------------------------------------------------------- version range

func (g *Gen) versionConstants(tn string, seen map[string]bool, max *int64) {
	if seen[tn] {
		return
	}
	seen[tn] = true
	for _, mn := range []string{"encode", "decode", "requiredVersion"} {
		fd := g.pkg.Methods[tn+"."+mn]
		if fd == nil {
			continue
		}
		ast.Inspect(fd.Body, func(n ast.Node) bool {
			switch x := n.(type) {
			case *ast.BinaryExpr:
				switch x.Op {
				case token.LSS, token.LEQ, token.GTR, token.GEQ, token.EQL, token.NEQ:
					for _, pair := range [][2]ast.Expr{{x.X, x.Y}, {x.Y, x.X}} {
						if mentionsVersion(pair[0]) {
							if tv, ok := g.pkg.Info.Types[pair[1]]; ok && tv.Value != nil {
								if v, ok := constInt(tv); ok && v > *max && v < 64 {
									*max = v
								}
							}
						}
					}
				}
			case *ast.CaseClause:
				if mn == "requiredVersion" {
					for _, e := range x.List {
						if tv, ok := g.pkg.Info.Types[e]; ok && tv.Value != nil {
							if v, ok := constInt(tv); ok && v > *max && v < 64 {
								*max = v
							}
						}
					}
				}
			case *ast.CallExpr:
				if sel, ok := x.Fun.(*ast.SelectorExpr); ok && (sel.Sel.Name == "encode" || sel.Sel.Name == "decode") {
					if t := g.pkg.Info.Types[sel.X].Type; t != nil {
						if n := namedName(t); n != "" {
							g.versionConstants(n, seen, max)
						}
					}
				}
			}
			return true
		})
	}
}

func mentionsVersion(e ast.Expr) bool {
	found := false
	ast.Inspect(e, func(n ast.Node) bool {
		if id, ok := n.(*ast.Ident); ok {
			l := strings.ToLower(id.Name)
			if l == "version" {
				found = true
			}
		}
		return !found
	})
	return found
}

func constInt(tv types.TypeAndValue) (int64, bool) {
	if tv.Value == nil {
		return 0, false
	}
	s := tv.Value.ExactString()
	var v int64
	if _, err := fmt.Sscanf(s, "%d", &v); err != nil {
		return 0, false
	}
	return v, true
}

// ---------------------------------------------------------------- one root

func (g *Gen) doRoot(name string, body bool) *RowOut {
	row := &RowOut{Name: name, Body: body, Masks: map[string][][]int{}}
	seen := map[string]bool{}
	g.versionConstants(name, seen, &row.VMax)
	// a body whose version() is a constant exists in that version only
	if vf := g.pkg.Methods[name+".version"]; vf != nil && len(vf.Body.List) == 1 {
		if rs, ok := vf.Body.List[0].(*ast.ReturnStmt); ok && len(rs.Results) == 1 {
			if tv, ok := g.pkg.Info.Types[rs.Results[0]]; ok && tv.Value != nil {
				if c, ok := constInt(tv); ok {
					row.VMin, row.VMax = c, c
				}
			}
		}
	}
	row.Untrusted = strings.HasSuffix(name, "Response") || !body
	row.Enc = g.walkSide(name, "enc", row)
	row.Dec = g.walkSide(name, "dec", row)
	anyMap, unsorted := false, false
	for _, sr := range []*SideResult{&row.Enc, &row.Dec} {
		for _, ns := range sr.ByVer {
			m, u := mapInfo(ns)
			anyMap = anyMap || m
			unsorted = unsorted || u
		}
	}
	// sortedness is an encoder property
	unsortedEnc := false
	for _, ns := range row.Enc.ByVer {
		_, u := mapInfo(ns)
		unsortedEnc = unsortedEnc || u
	}
	row.HasMap = anyMap
	row.AllSorted = anyMap && !unsortedEnc && row.Enc.OK
	if row.Dec.OK {
		for v, ns := range row.Dec.ByVer {
			ms := masksOf(ns, nil)
			if len(ms) > 0 {
				row.Masks[fmt.Sprint(v)] = ms
			}
		}
		siteSet := map[string]bool{}
		row.SiteMake = map[string]string{}
		for _, ns := range row.Dec.ByVer {
			sitesOf(ns, siteSet, row.SiteMake)
		}
		for s := range siteSet {
			row.Sites = append(row.Sites, s)
		}
		sort.Strings(row.Sites)
	}
	return row
}

func mapInfo(ns []*Node) (anyMap, unsorted bool) {
	for _, n := range ns {
		if n.Kind == "arr" {
			if n.K.Map {
				anyMap = true
				if !n.K.Sorted {
					unsorted = true
				}
			}
			a, u := mapInfo(n.Elem)
			anyMap = anyMap || a
			unsorted = unsorted || u
		}
	}
	return
}

func masksOf(ns []*Node, pre []int) [][]int {
	var out [][]int
	for _, n := range ns {
		switch n.Kind {
		case "derived":
			out = append(out, append(append([]int{}, pre...), n.Path...))
		case "arr":
			p := append(append(append([]int{}, pre...), n.Path...), -1)
			out = append(out, masksOf(n.Elem, p)...)
		}
	}
	return out
}

func sitesOf(ns []*Node, set map[string]bool, mk map[string]string) {
	for _, n := range ns {
		if n.Kind == "arr" {
			set[n.Label] = true
			if n.MakePos != "" {
				mk[n.Label] = n.MakePos
			}
			sitesOf(n.Elem, set, mk)
		}
	}
}

func (g *Gen) walkSide(name, side string, row *RowOut) (res SideResult) {
	mn := "encode"
	if side == "dec" {
		mn = "decode"
	}
	fd := g.pkg.Methods[name+"."+mn]
	if fd == nil {
		return SideResult{Reason: "no " + mn + " method"}
	}
	res.ByVer = map[int64][]*Node{}
	res.Visited = map[string]bool{}
	tobj := g.pkg.Types.Scope().Lookup(name)
	typ := tobj.Type()
	for v := row.VMin; v <= row.VMax; v++ {
		nodes, w, err := g.walkOnce(fd, typ, name, side, v, row)
		if err != "" {
			return SideResult{Reason: fmt.Sprintf("v%d: %s", v, err)}
		}
		res.ByVer[v] = nodes
		res.Lenient = res.Lenient || w.lenient
		for m := range w.visited {
			res.Visited[m] = true
		}
	}
	res.OK = true
	return res
}

func (g *Gen) walkOnce(fd *ast.FuncDecl, typ types.Type, name, side string, v int64, row *RowOut) (nodes []*Node, w *W, errs string) {
	w = &W{g: g, side: side, ver: v, env: map[types.Object]SVal{}, known: map[string]int64{}, knownVer: map[string]bool{}, label: name, visited: map[string]bool{}}
	root := w.newObj("recv", typ)
	w.root = root
	w.out = &nodes
	g.curTop, g.curVer = root, v
	defer func() {
		if r := recover(); r != nil {
			if we, ok := r.(walkErr); ok {
				errs = we.msg
				return
			}
			panic(r)
		}
	}()
	recv := &Place{obj: root, typ: typ}
	// the field version() returns holds the version the encoder works with
	if vf := g.pkg.Methods[name+".version"]; vf != nil && row != nil {
		if p := g.versionField(vf, recv, w); p != nil {
			row.VerField = p.path
			if side == "enc" {
				w.known[p.key()] = v
				w.knownVer[p.key()] = true
			}
		}
	}
	var args []SVal
	for _, f := range fd.Type.Params.List {
		for range f.Names {
			t := g.pkg.Info.Types[f.Type].Type
			if nn := namedName(t); t != nil && (nn == "packetEncoder" || nn == "packetDecoder") {
				args = append(args, Coder{})
			} else {
				args = append(args, Conc{v: v, fromVer: true})
			}
		}
	}
	w.walkMethod(fd, recv, args, fd)
	w.finishLevel(nodes, root)
	labelAll(nodes, name)
	return nodes, w, ""
}

func (g *Gen) versionField(fd *ast.FuncDecl, recv *Place, w *W) *Place {
	if len(fd.Body.List) != 1 {
		return nil
	}
	rs, ok := fd.Body.List[0].(*ast.ReturnStmt)
	if !ok || len(rs.Results) != 1 {
		return nil
	}
	save := w.env
	w.env = map[types.Object]SVal{}
	defer func() { w.env = save }()
	if names := fd.Recv.List[0].Names; len(names) == 1 {
		w.env[g.pkg.Info.Defs[names[0]]] = recv
	}
	if p, ok := w.eval(rs.Results[0]).(*Place); ok {
		return p
	}
	return nil
}

// a sub-codec walked on its own (only to classify the method in the coverage table)
func (g *Gen) standalone(tn string, enc bool) SideResult {
	row := &RowOut{Name: tn, Masks: map[string][][]int{}}
	seen := map[string]bool{}
	g.versionConstants(tn, seen, &row.VMax)
	if enc {
		return g.walkSide(tn, "enc", row)
	}
	return g.walkSide(tn, "dec", row)
}

// ---------------------------------------------------------------- guards of the primitive getters

type PrimCfg struct {
	ArrRejectsNeg, CArrBounded, CStrBounded, CNStrBounded, CI32Bounded, StrArrBounded bool
}

func (g *Gen) primCfg() PrimCfg {
	usesRemaining := func(m string) bool {
		fd := g.pkg.Methods["realDecoder."+m]
		found := false
		if fd == nil {
			return false
		}
		ast.Inspect(fd.Body, func(n ast.Node) bool {
			if c, ok := n.(*ast.CallExpr); ok {
				if s, ok := c.Fun.(*ast.SelectorExpr); ok && s.Sel.Name == "remaining" {
					found = true
				}
			}
			return !found
		})
		return found
	}
	rejectsNeg := false
	if fd := g.pkg.Methods["realDecoder.getArrayLength"]; fd != nil {
		ast.Inspect(fd.Body, func(n ast.Node) bool {
			if b, ok := n.(*ast.BinaryExpr); ok && b.Op == token.LSS {
				if tv, ok := g.pkg.Info.Types[b.Y]; ok && tv.Value != nil {
					if v, ok := constInt(tv); ok && v == -1 {
						rejectsNeg = true
					}
				}
			}
			return true
		})
	}
	return PrimCfg{ArrRejectsNeg: rejectsNeg, CArrBounded: usesRemaining("getCompactArrayLength"),
		CStrBounded: usesRemaining("getCompactString"), CNStrBounded: usesRemaining("getCompactNullableString"),
		CI32Bounded: usesRemaining("getCompactInt32Array"), StrArrBounded: countRemaining(g, "getStringArray") >= 2}
}

func countRemaining(g *Gen, m string) int {
	fd := g.pkg.Methods["realDecoder."+m]
	n := 0
	if fd == nil {
		return 0
	}
	ast.Inspect(fd.Body, func(x ast.Node) bool {
		if c, ok := x.(*ast.CallExpr); ok {
			if s, ok := c.Fun.(*ast.SelectorExpr); ok && s.Sel.Name == "remaining" {
				n++
			}
		}
		return true
	})
	return n
}

// ---------------------------------------------------------------- Coq output

func gateChain(byVer map[int64][]*Node, vmin, vmax int64) string {
	// merge runs of versions with the same format: FGate (version <= hi) F rest
	type run struct {
		hi  int64
		coq string
	}
	var runs []run
	for v := vmin; v <= vmax; v++ {
		c := seqCoq(byVer[v])
		if len(runs) > 0 && runs[len(runs)-1].coq == c {
			runs[len(runs)-1].hi = v
		} else {
			runs = append(runs, run{v, c})
		}
	}
	out := runs[len(runs)-1].coq
	for i := len(runs) - 2; i >= 0; i-- {
		out = fmt.Sprintf("(FGate (VCmp OLe %d) %s\n    %s)", runs[i].hi, runs[i].coq, out)
	}
	return out
}

func ident(s string) string {
	return strings.Map(func(r rune) rune {
		if r >= 'a' && r <= 'z' || r >= 'A' && r <= 'Z' || r >= '0' && r <= '9' || r == '_' {
			return r
		}
		return '_'
	}, s)
}

func (g *Gen) writeCoq(path string, rows []*RowOut, cfg PrimCfg) {
	var sb strings.Builder
	sb.WriteString("(* GENERATED by go/wiregen from the encode/decode methods of package sarama -- do not edit *)\n")
	sb.WriteString("From Coq Require Import List ZArith String.\nFrom SV Require Import WireFmt.Format.\nImport ListNotations.\nOpen Scope Z_scope.\nOpen Scope string_scope.\n\n")
	fmt.Fprintf(&sb, "Definition gen_cfg : pcfg := Build_pcfg %v %v %v %v %v %v.\n\n", cfg.ArrRejectsNeg, cfg.CArrBounded, cfg.CStrBounded, cfg.CNStrBounded, cfg.CI32Bounded, cfg.StrArrBounded)
	var names []string
	for _, r := range rows {
		id := ident(r.Name)
		typ := g.pkg.Types.Scope().Lookup(r.Name).Type()
		fmt.Fprintf(&sb, "Definition z_%s : value := %s.\n", id, g.zeroOf(typ, 0).Coq())
		enc, dec := "None", "None"
		if r.Enc.OK {
			fmt.Fprintf(&sb, "Definition fe_%s : fmt :=\n  %s.\n", id, gateChain(r.Enc.ByVer, r.VMin, r.VMax))
			enc = "(Some fe_" + id + ")"
		}
		if r.Dec.OK {
			fmt.Fprintf(&sb, "Definition fd_%s : fmt :=\n  %s.\n", id, gateChain(r.Dec.ByVer, r.VMin, r.VMax))
			dec = "(Some fd_" + id + ")"
		}
		ver := "None"
		if r.VerField != nil {
			ver = "(Some " + pathCoq(r.VerField) + ")"
		}
		fmt.Fprintf(&sb, "Definition row_%s : row := {| r_name := %q; r_vmin := %d; r_vmax := %d; r_zero := z_%s; r_ver := %s; r_enc := %s; r_dec := %s; r_untrusted := %v |}.\n\n",
			id, r.Name, r.VMin, r.VMax, id, ver, enc, dec, r.Untrusted)
		names = append(names, "row_"+id)
	}
	sb.WriteString("Definition gen_table : list row := [\n  " + strings.Join(names, ";\n  ") + "\n].\n")
	if err := os.WriteFile(path, []byte(sb.String()), 0o644); err != nil {
		fmt.Fprintln(os.Stderr, err)
		os.Exit(2)
	}
}
