module wiregen

go 1.21
