package main

import (
	"go/ast"
	"go/token"
	"go/types"
)

// ---------------------------------------------------------------- statements

func (w *W) walkBlock(stmts []ast.Stmt) ctl {
	for i, s := range stmts {
		c := w.walkStmt(s, stmts[i+1:])
		if c != ctlNone {
			return c
		}
	}
	return ctlNone
}

func (w *W) classesActive() bool {
	return w.side == "dec" && w.pending != nil && !w.pending.started && w.pending.frozen == 0
}

// an int32 temporary about to be used as a count must become one before the class interpreter looks at s
func (w *W) prePromote(s ast.Stmt) {
	if w.side != "dec" {
		return
	}
	switch x := s.(type) {
	case *ast.IfStmt:
		if x.Init == nil {
			w.countIn(x.Cond)
		}
	case *ast.ForStmt:
		if x.Cond != nil {
			w.countIn(x.Cond)
		}
	case *ast.AssignStmt:
		for _, r := range x.Rhs {
			if c, ok := r.(*ast.CallExpr); ok {
				if id, ok := c.Fun.(*ast.Ident); ok && id.Name == "make" && len(c.Args) >= 2 {
					w.countIn(c.Args[len(c.Args)-1])
				}
			}
		}
	}
}

func (w *W) walkStmt(s ast.Stmt, rest []ast.Stmt) ctl {
	w.prePromote(s)
	if w.classesActive() {
		for _, c := range w.pending.classes {
			if c.alive {
				w.classStmt(w.pending, c, s)
			}
		}
	}
	switch x := s.(type) {
	case *ast.BlockStmt:
		return w.walkBlock(x.List)
	case *ast.ExprStmt:
		if call, ok := x.X.(*ast.CallExpr); ok {
			w.handleCall(call, nil, false, s)
			return ctlNone
		}
		w.fail(s, "unsupported expression statement")
	case *ast.AssignStmt:
		w.walkAssign(x)
		return ctlNone
	case *ast.DeclStmt:
		gd, ok := x.Decl.(*ast.GenDecl)
		if !ok || gd.Tok != token.VAR {
			w.fail(s, "unsupported declaration")
		}
		for _, sp := range gd.Specs {
			vs := sp.(*ast.ValueSpec)
			for i, id := range vs.Names {
				o := w.g.pkg.Info.Defs[id]
				if o == nil {
					continue
				}
				if len(vs.Values) > i {
					w.env[o] = w.eval(vs.Values[i])
					continue
				}
				t := o.Type()
				if _, ok := t.Underlying().(*types.Struct); ok && w.g.own(t) {
					w.env[o] = &Place{obj: w.newObj("var", t), typ: t}
				} else if types.Identical(t, types.Universe.Lookup("error").Type()) {
					w.env[o] = ErrV{}
				} else {
					w.env[o] = Opaque{why: "uninitialised variable " + id.Name}
				}
			}
		}
		return ctlNone
	case *ast.ReturnStmt:
		for _, r := range x.Results {
			if call, ok := r.(*ast.CallExpr); ok {
				if w.callTouchesCoder(call) {
					w.handleCall(call, nil, false, s)
				}
			}
		}
		return ctlReturn
	case *ast.BranchStmt:
		switch x.Tok {
		case token.CONTINUE:
			return ctlContinue
		case token.BREAK:
			return ctlBreak
		}
		w.fail(s, "unsupported branch statement")
	case *ast.IfStmt:
		return w.walkIf(x, rest)
	case *ast.ForStmt:
		w.walkFor(x)
		return ctlNone
	case *ast.RangeStmt:
		w.walkRange(x)
		return ctlNone
	case *ast.IncDecStmt:
		return ctlNone
	case *ast.EmptyStmt:
		return ctlNone
	}
	w.fail(s, "unsupported statement %T", s)
	return ctlNone
}

// does the subtree mention the coder (pe/pd) or call encode/decode?
func (w *W) touchesCoder(n ast.Node) bool {
	found := false
	ast.Inspect(n, func(m ast.Node) bool {
		if found {
			return false
		}
		if id, ok := m.(*ast.Ident); ok {
			if o := w.objOf(id); o != nil {
				if _, ok := w.env[o].(Coder); ok {
					found = true
				}
			}
		}
		return true
	})
	return found
}

func (w *W) callTouchesCoder(c *ast.CallExpr) bool { return w.touchesCoder(c) }

// does the subtree assign to something reachable from the value being coded, or return?
func (w *W) effectFree(n ast.Node) bool {
	if w.touchesCoder(n) {
		return false
	}
	free := true
	ast.Inspect(n, func(m ast.Node) bool {
		switch y := m.(type) {
		case *ast.ReturnStmt, *ast.BranchStmt:
			free = false
		case *ast.CallExpr:
			// a method called on (part of) the coded value may change it
			if sel, ok := y.Fun.(*ast.SelectorExpr); ok {
				if s := w.g.pkg.Info.Selections[sel]; s != nil && s.Kind() == types.MethodVal {
					if _, isPl := w.evalL(sel.X).(*Place); isPl {
						free = false
					}
				}
			}
		case *ast.AssignStmt:
			for _, l := range y.Lhs {
				if _, ok := l.(*ast.Ident); !ok {
					free = false
				}
			}
		}
		return free
	})
	return free
}

func isErrCheck(w *W, e ast.Expr) bool {
	b, ok := e.(*ast.BinaryExpr)
	if !ok || b.Op != token.NEQ {
		return false
	}
	_, isErr := w.eval(b.X).(ErrV)
	_, isNil := w.eval(b.Y).(NilV)
	return isErr && isNil
}

func onlyReturns(b *ast.BlockStmt) bool {
	if len(b.List) != 1 {
		return false
	}
	_, ok := b.List[0].(*ast.ReturnStmt)
	return ok
}

func (w *W) walkIf(x *ast.IfStmt, rest []ast.Stmt) ctl {
	// the class interpreter has seen the whole if statement already: collections pending now are frozen inside it
	if fz := w.pending; fz != nil && !fz.started {
		fz.frozen++
		defer func() { fz.frozen-- }()
	}
	if x.Init != nil {
		if c := w.walkStmt(x.Init, nil); c != ctlNone {
			return c
		}
	}
	// error checks
	if isErrCheck(w, x.Cond) {
		if !onlyReturns(x.Body) && !w.effectFree(x.Body) {
			// `if err != nil { return err }` is the only accepted shape (a body that swallows the error is noted)
			w.fail(x, "error branch does more than return")
		}
		if x.Else != nil {
			return w.walkElse(x.Else)
		}
		return ctlNone
	}
	// err != nil || count == 0
	cond := x.Cond
	if b, ok := cond.(*ast.BinaryExpr); ok && b.Op == token.LOR && isErrCheck(w, b.X) {
		cond = b.Y
	}
	cond = w.simplifyCond(cond)
	v := w.evalCond(cond)
	switch v {
	case 1:
		return w.walkBlock(x.Body.List)
	case 0:
		if x.Else != nil {
			return w.walkElse(x.Else)
		}
		return ctlNone
	}
	// value-dependent condition
	if w.side == "enc" {
		if c, ok := w.encNullPattern(x, cond, rest); ok {
			return c
		}
	}
	if w.effectFree(x) {
		return ctlNone // logging / metrics only
	}
	if w.side == "dec" && w.derivedOnly(x) {
		return ctlNone
	}
	w.fail(x, "condition depends on the value being coded")
	return ctlNone
}

func (w *W) walkElse(e ast.Stmt) ctl {
	switch y := e.(type) {
	case *ast.BlockStmt:
		return w.walkBlock(y.List)
	case *ast.IfStmt:
		return w.walkIf(y, nil)
	}
	w.fail(e, "unsupported else")
	return ctlNone
}

// evalCond: 1 true, 0 false, -1 unknown.  Count variables of the pending collection stand for a positive count.
func (w *W) evalCond(e ast.Expr) int {
	if w.side == "dec" {
		if arr := w.countIn(e); arr != nil {
			a, okA := w.evalWithCount(e, arr, 1)
			b, okB := w.evalWithCount(e, arr, 1000)
			if okA && okB && a == b {
				if a {
					return 1
				}
				return 0
			}
			return -1
		}
	}
	if b, ok := w.eval(e).(CBool); ok {
		if b.b {
			return 1
		}
		return 0
	}
	return -1
}

// the pending collection whose count variable occurs in e (converting an int32 temporary into a count)
func (w *W) countIn(e ast.Expr) *ArrCtx {
	var arr *ArrCtx
	ast.Inspect(e, func(m ast.Node) bool {
		if id, ok := m.(*ast.Ident); ok {
			if o := w.objOf(id); o != nil {
				switch v := w.env[o].(type) {
				case *Count:
					arr = v.arr
				case *Pending:
					if a := w.promote(v, o); a != nil {
						arr = a
					}
				}
			}
		}
		return arr == nil
	})
	return arr
}

// promote: an int32 read into a temporary that turns out to be used as an element count (DLI32)
func (w *W) promote(p *Pending, o types.Object) *ArrCtx {
	n := p.node
	if !w.countLike[o] {
		return nil
	}
	if n.Kind != "prim" || n.P != "PI32" || n.Bound || n.Place != nil || p.conv != "" {
		return nil
	}
	if len(*w.out) == 0 || (*w.out)[len(*w.out)-1] != n {
		return nil
	}
	n.Kind = "arr"
	n.K = defaultKind()
	n.K.DLen = "DLI32"
	arr := w.newArr(n, o)
	w.env[o] = &Count{arr: arr}
	// the classes have missed nothing: the count was read by the previous statement
	return arr
}

func (w *W) newArr(n *Node, countVar types.Object) *ArrCtx {
	arr := &ArrCtx{node: n, countVar: countVar, made: map[string]SVal{}, makePos: map[string]string{}, level: w.out}
	for i, v := range []int64{0, -1, -2} {
		arr.classes[i] = &Class{val: v, alive: true, assigned: map[string]string{}}
	}
	w.pending = arr
	return arr
}

func (w *W) evalWithCount(e ast.Expr, arr *ArrCtx, val int64) (bool, bool) {
	old := w.env[arr.countVar]
	w.env[arr.countVar] = Conc{v: val}
	defer func() { w.env[arr.countVar] = old }()
	b, ok := w.eval(e).(CBool)
	return b.b, ok
}

// an if whose body only assigns fields from already decoded values: the fields are derived (masked in comparisons)
func (w *W) derivedOnly(x *ast.IfStmt) bool {
	if w.touchesCoder(x) {
		return false
	}
	ok := true
	var targets []ast.Expr
	ast.Inspect(x, func(m ast.Node) bool {
		switch y := m.(type) {
		case *ast.ReturnStmt, *ast.BranchStmt, *ast.ForStmt, *ast.RangeStmt:
			ok = false
		case *ast.CallExpr:
			if sel, isSel := y.Fun.(*ast.SelectorExpr); isSel {
				if s := w.g.pkg.Info.Selections[sel]; s != nil && s.Kind() == types.MethodVal {
					if _, isPl := w.evalL(sel.X).(*Place); isPl {
						ok = false // a method of the coded value: unknown effect
					}
				}
			}
		case *ast.AssignStmt:
			for _, l := range y.Lhs {
				targets = append(targets, l)
			}
		}
		return ok
	})
	if !ok {
		return false
	}
	for _, t := range targets {
		if pl, isPl := w.evalL(t).(*Place); isPl {
			delete(w.known, pl.key())
			w.emit(&Node{Kind: "derived", Place: pl, Pos: w.g.pkg.pos(x)})
		}
	}
	w.consumeTemps(x.Cond, "condition")
	return true
}

// temporaries used in an opaque computation are read and discarded as far as the format is concerned
func (w *W) consumeTemps(e ast.Expr, why string) {
	ast.Inspect(e, func(m ast.Node) bool {
		if id, ok := m.(*ast.Ident); ok {
			if o := w.objOf(id); o != nil {
				if p, ok := w.env[o].(*Pending); ok && p.node.Place == nil && !p.node.Bound {
					p.node.Skip = true
					p.node.Bound = true
					w.lenient = true
				}
			}
		}
		return true
	})
}

// ---------------------------------------------------------------- assignments

func (w *W) walkAssign(x *ast.AssignStmt) {
	if x.Tok != token.ASSIGN && x.Tok != token.DEFINE {
		// x += ... : metrics arithmetic
		if w.effectFree(x) {
			return
		}
		w.fail(x, "compound assignment to a coded field")
	}
	if len(x.Rhs) == 1 {
		if call, ok := x.Rhs[0].(*ast.CallExpr); ok && (w.isCoderCall(call) || w.isSubCodec(call)) {
			w.handleCall(call, x.Lhs, x.Tok == token.DEFINE, x)
			return
		}
	}
	if len(x.Lhs) != len(x.Rhs) {
		// a, b, err := f(...)   (non-coder call with several results)
		if len(x.Rhs) == 1 {
			op := w.opaqueOf("call", x.Rhs[0])
			if call, ok := x.Rhs[0].(*ast.CallExpr); ok {
				op = w.opaqueOf("call", call.Args...)
			}
			for _, t := range op.temps {
				t.node.Skip, t.node.Bound = true, true
				w.lenient = true
			}
			for _, l := range x.Lhs {
				w.assign(l, w.resultVal(l, op), x)
			}
			return
		}
		w.fail(x, "unsupported assignment")
	}
	for i := range x.Lhs {
		w.assign(x.Lhs[i], w.eval(x.Rhs[i]), x)
	}
}

func (w *W) resultVal(l ast.Expr, op Opaque) SVal {
	if t := w.typeOf(l); t != nil && types.Identical(t, types.Universe.Lookup("error").Type()) {
		return ErrV{}
	}
	if id, ok := l.(*ast.Ident); ok {
		if o := w.objOf(id); o != nil && types.Identical(o.Type(), types.Universe.Lookup("error").Type()) {
			return ErrV{}
		}
	}
	return Opaque{why: op.why}
}

func (w *W) assign(l ast.Expr, v SVal, at ast.Node) {
	if id, ok := l.(*ast.Ident); ok {
		if id.Name == "_" {
			return
		}
		o := w.objOf(id)
		if o == nil {
			return
		}
		// a local variable (or a named result)
		if cur, isPlace := w.env[o].(*Place); !isPlace || cur.obj.what == "var" || cur.obj.what == "new" || cur.obj.what == "coll" {
			if mk, ok := v.(MakeV); ok {
				pl := &Place{obj: w.newObj("coll", mk.typ), typ: mk.typ}
				pl.obj.name = id.Name
				w.env[o] = pl
				w.noteMake(pl, mk)
				return
			}
			// count variable reassigned (n = 0): only the class interpreter cares
			if _, isCount := w.env[o].(*Count); isCount {
				return
			}
			w.env[o] = v
			return
		}
	}
	lv := w.evalL(l)
	pl, ok := lv.(*Place)
	if !ok {
		if w.effectFree(at) {
			return
		}
		w.fail(at, "assignment to an unsupported target")
	}
	switch r := v.(type) {
	case *Pending:
		if w.side != "dec" {
			w.fail(at, "pending value on the encoder side")
		}
		n := r.node
		if n.Place != nil || n.Bound {
			w.fail(at, "decoded value is stored twice")
		}
		n.Place = pl
		n.Bound = true
		if n.Kind == "prim" {
			n.Conv = convOr(r.conv)
		}
	case Conc:
		w.known[pl.key()] = r.v
		w.knownVer[pl.key()] = r.fromVer
		if w.side == "dec" {
			k := "setconst"
			if r.fromVer {
				k = "setver"
			}
			w.emit(&Node{Kind: k, Place: pl, Z: r.v, Pos: w.g.pkg.pos(at)})
		}
	case CBool:
		if w.side == "dec" {
			z := int64(0)
			if r.b {
				z = 1
			}
			w.emit(&Node{Kind: "setconst", Place: pl, Z: z, Pos: w.g.pkg.pos(at)})
		}
	case *Place:
		if w.side == "enc" {
			w.fail(at, "the encoder rearranges the value it encodes")
		}
		if r.obj.bound != nil || len(r.path) != 0 || (r.obj.what != "new" && r.obj.what != "var" && r.obj.what != "coll") {
			w.fail(at, "assignment of a value that is not a freshly built object")
		}
		r.obj.bound = pl
	case MakeV:
		w.noteMake(pl, r)
	case NilV:
		// classes track nil assignments; symbolically nothing happens
	case Opaque:
		if w.side == "enc" {
			w.fail(at, "the encoder modifies the value it encodes (%s)", r.why)
		}
		for _, t := range r.temps {
			if t.node.Place == nil && !t.node.Bound {
				t.node.Skip, t.node.Bound = true, true
				w.lenient = true
			}
		}
		w.emit(&Node{Kind: "derived", Place: pl, Pos: w.g.pkg.pos(at)})
	default:
		w.fail(at, "unsupported right-hand side %T", v)
	}
}

func (w *W) noteMake(pl *Place, mk MakeV) {
	if w.pending != nil && w.pending.made != nil {
		w.pending.made[pl.key()] = mk.size
		w.pending.makePos[pl.key()] = mk.pos
	}
	if w.lastMade == nil {
		w.lastMade = map[string]MakeV{}
	}
	w.lastMade[pl.key()] = mk
}

// a || b, a && b with one operand that evaluates concretely: what remains to be decided
func (w *W) simplifyCond(e ast.Expr) ast.Expr {
	if p, ok := e.(*ast.ParenExpr); ok {
		return w.simplifyCond(p.X)
	}
	b, ok := e.(*ast.BinaryExpr)
	if !ok || (b.Op != token.LOR && b.Op != token.LAND) {
		return e
	}
	if w.side == "dec" && w.countIn(e) != nil {
		return e
	}
	x, y := w.simplifyCond(b.X), w.simplifyCond(b.Y)
	neutral := b.Op == token.LAND // true is neutral for &&, false for ||
	if v, ok := w.eval(x).(CBool); ok && v.b == neutral {
		return y
	}
	if v, ok := w.eval(y).(CBool); ok && v.b == neutral {
		return x
	}
	return e
}
