package main

import (
	"fmt"
	"go/ast"
	"go/build"
	"go/importer"
	"go/parser"
	"go/token"
	"go/types"
	"os"
	"path/filepath"
	"sort"
)

// Pkg is package sarama of the tree, parsed and type-checked (default build tags, no `verif`).
type Pkg struct {
	Repo  string
	Fset  *token.FileSet
	Files map[string]*ast.File
	Info  *types.Info
	Types *types.Package
	Sizes types.Sizes

	// method declarations by "Type.method"
	Methods map[string]*ast.FuncDecl
	FileOf  map[string]string
}

func loadPkg(repo string) (*Pkg, error) {
	abs, err := filepath.Abs(repo)
	if err != nil {
		return nil, err
	}
	// the source importer resolves the module's dependencies relative to the working directory
	if err := os.Chdir(abs); err != nil {
		return nil, err
	}
	ctx := build.Default
	bp, err := ctx.ImportDir(abs, 0)
	if err != nil {
		if _, ok := err.(*build.MultiplePackageError); !ok {
			return nil, fmt.Errorf("%s: %v", abs, err)
		}
	}
	names := append([]string{}, bp.GoFiles...)
	sort.Strings(names)
	p := &Pkg{Repo: abs, Fset: token.NewFileSet(), Files: map[string]*ast.File{},
		Methods: map[string]*ast.FuncDecl{}, FileOf: map[string]string{}}
	var files []*ast.File
	for _, n := range names {
		f, err := parser.ParseFile(p.Fset, filepath.Join(abs, n), nil, parser.SkipObjectResolution)
		if err != nil {
			return nil, fmt.Errorf("parse: %v", err)
		}
		p.Files[n] = f
		files = append(files, f)
		for _, d := range f.Decls {
			fd, ok := d.(*ast.FuncDecl)
			if !ok || fd.Recv == nil || len(fd.Recv.List) != 1 || fd.Body == nil {
				continue
			}
			t := fd.Recv.List[0].Type
			if s, ok := t.(*ast.StarExpr); ok {
				t = s.X
			}
			if id, ok := t.(*ast.Ident); ok {
				key := id.Name + "." + fd.Name.Name
				p.Methods[key] = fd
				p.FileOf[key] = n
			}
		}
	}
	p.Info = &types.Info{
		Types:      map[ast.Expr]types.TypeAndValue{},
		Defs:       map[*ast.Ident]types.Object{},
		Uses:       map[*ast.Ident]types.Object{},
		Implicits:  map[ast.Node]types.Object{},
		Selections: map[*ast.SelectorExpr]*types.Selection{},
		Scopes:     map[ast.Node]*types.Scope{},
	}
	nerr := 0
	conf := types.Config{
		Importer: importer.ForCompiler(p.Fset, "source", nil),
		Error:    func(err error) { nerr++ },
	}
	p.Types, _ = conf.Check(bp.ImportPath, p.Fset, files, p.Info)
	if p.Types == nil {
		return nil, fmt.Errorf("type-check of %s produced no package", abs)
	}
	if nerr > 0 {
		return nil, fmt.Errorf("type-check of %s: %d errors", abs, nerr)
	}
	p.Sizes = types.SizesFor("gc", "amd64")
	return p, nil
}

func (p *Pkg) pos(n ast.Node) string {
	ps := p.Fset.Position(n.Pos())
	return fmt.Sprintf("%s:%d", filepath.Base(ps.Filename), ps.Line)
}
