package main

import (
	"go/ast"
	"go/token"
	"go/types"
)

func (w *W) coderMethod(c *ast.CallExpr) (string, bool) {
	sel, ok := c.Fun.(*ast.SelectorExpr)
	if !ok {
		return "", false
	}
	if _, ok := w.eval(sel.X).(Coder); ok {
		return sel.Sel.Name, true
	}
	return "", false
}

func (w *W) isCoderCall(c *ast.CallExpr) bool { _, ok := w.coderMethod(c); return ok }

// X.encode(pe, ...) / X.decode(pd, ...) on a type of the package
func (w *W) isSubCodec(c *ast.CallExpr) bool {
	sel, ok := c.Fun.(*ast.SelectorExpr)
	if !ok || (sel.Sel.Name != "encode" && sel.Sel.Name != "decode") {
		return false
	}
	for _, a := range c.Args {
		if _, ok := w.eval(a).(Coder); ok {
			return true
		}
	}
	return false
}

var intPrims = map[string]string{"Int8": "PI8", "Int16": "PI16", "Int32": "PI32", "Int64": "PI64", "Bool": "PBool"}
var strPutPrims = map[string]string{"putString": "PStr", "putNullableString": "PNStr", "putCompactString": "PCStr",
	"putNullableCompactString": "PCNStr", "putBytes": "PBytes", "putCompactBytes": "PCBytes"}
var strGetPrims = map[string]string{"getString": "PStr", "getNullableString": "PNStr", "getCompactString": "PCStr",
	"getCompactNullableString": "PCNStr", "getBytes": "PBytes", "getCompactBytes": "PCBytes"}

type primArr struct {
	elem, elen, enull, dlen string
	esize                   int64
}

var putArrs = map[string]primArr{
	"putInt32Array":                {"PI32", "ELI32", "ENone", "", 0},
	"putInt64Array":                {"PI64", "ELI32", "ENone", "", 0},
	"putStringArray":               {"PStr", "ELI32", "ENone", "", 0},
	"putCompactInt32Array":         {"PI32", "ELCompact", "ENilErr", "", 0},
	"putNullableCompactInt32Array": {"PI32", "ELCompact", "ENilNull", "", 0},
}
var getArrs = map[string]primArr{
	"getInt32Array":        {"PI32", "", "", "(DLU32 4)", 4},
	"getInt64Array":        {"PI64", "", "", "(DLU32 8)", 8},
	"getStringArray":       {"PStr", "", "", "DLStrArr", 16},
	"getCompactInt32Array": {"PI32", "", "", "DLCompactI32", 4},
}

func (w *W) handleCall(c *ast.CallExpr, lhs []ast.Expr, define bool, at ast.Node) {
	if m, ok := w.coderMethod(c); ok {
		if w.side == "enc" {
			w.encPut(m, c, at)
		} else {
			w.decGet(m, c, lhs, at)
		}
		w.bindErr(lhs)
		return
	}
	if w.isSubCodec(c) {
		w.inline(c, at)
		w.bindErr(lhs)
		return
	}
	// some other call: harmless if it touches neither the coder nor the coded value
	if w.touchesCoder(c) {
		w.fail(at, "the coder is passed to an unknown function")
	}
	if w.side == "dec" {
		w.consumeArgs(c)
	}
	for _, l := range lhs {
		w.assign(l, w.resultVal(l, Opaque{why: "call"}), at)
	}
}

func (w *W) consumeArgs(c *ast.CallExpr) {
	for _, a := range c.Args {
		w.consumeTemps(a, "call argument")
	}
}

func (w *W) bindErr(lhs []ast.Expr) {
	for _, l := range lhs {
		if id, ok := l.(*ast.Ident); ok && id.Name != "_" {
			if o := w.objOf(id); o != nil && types.Identical(o.Type(), types.Universe.Lookup("error").Type()) {
				w.env[o] = ErrV{}
			}
		}
	}
}

// ---------------------------------------------------------------- encoder calls

func (w *W) encPut(m string, c *ast.CallExpr, at ast.Node) {
	pos := w.g.pkg.pos(at)
	arg := func() SVal {
		if len(c.Args) != 1 {
			w.fail(at, "%s with %d arguments", m, len(c.Args))
		}
		return w.eval(c.Args[0])
	}
	if len(m) > 3 && m[:3] == "put" {
		if p, ok := intPrims[m[3:]]; ok {
			switch v := arg().(type) {
			case *Place:
				w.emit(&Node{Kind: "prim", P: p, Conv: convOr(v.conv), Place: v, Pos: pos})
			case Conc:
				w.emit(&Node{Kind: "const", P: p, Z: v.v, Pos: pos})
			default:
				w.fail(at, "%s of a computed value (%T)", m, v)
			}
			return
		}
	}
	if p, ok := strPutPrims[m]; ok {
		v, isPl := arg().(*Place)
		if !isPl || v.conv != "" {
			w.fail(at, "%s of a computed value", m)
		}
		w.emit(&Node{Kind: "prim", P: p, Conv: "CId", Place: v, Pos: pos})
		return
	}
	if pa, ok := putArrs[m]; ok {
		v, isPl := arg().(*Place)
		if !isPl {
			w.fail(at, "%s of a computed value", m)
		}
		k := defaultKind()
		k.ELen, k.ENull = pa.elen, pa.enull
		needLast := false
		if w.nullNext != nil && w.nullNext.key() == v.key() && pa.enull == "ENone" {
			k.ENull = w.nullKind
			needLast = w.nullLast
			w.nullNext, w.nullLast = nil, false
		}
		st, _ := v.typ.Underlying().(*types.Slice)
		if st == nil {
			w.fail(at, "%s of a non-slice", m)
		}
		n := &Node{Kind: "arr", K: k, Place: v, Pos: pos, Zero: w.g.zeroElem(st.Elem()),
			Elem: []*Node{{Kind: "prim", P: pa.elem, Conv: "CId", Path: nil, Pos: pos}}}
		w.emit(n)
		if needLast {
			w.earlyArr = append(w.earlyArr, &earlyChk{arr: &ArrCtx{node: n}, level: w.out, ret: w.nullRet})
		}
		return
	}
	switch m {
	case "putEmptyTaggedFieldArray":
		w.emit(&Node{Kind: "tag", Pos: pos})
		return
	case "putArrayLength", "putCompactArrayLength":
		l, ok := arg().(LenOf)
		if !ok {
			w.fail(at, "%s of something that is not len(collection)", m)
		}
		k := defaultKind()
		if m == "putCompactArrayLength" {
			k.ELen = "ELCompact"
		}
		if l.emptyNull {
			k.ENull = "EEmptyNull"
		}
		if w.nullNext != nil && w.nullNext.key() == l.pl.key() {
			k.ENull = w.nullKind
		}
		n := &Node{Kind: "arr", K: k, Place: l.pl, Pos: pos}
		w.emit(n)
		arr := &ArrCtx{node: n, coll: l.pl, level: w.out}
		if w.nullNext != nil && w.nullLast {
			w.earlyArr = append(w.earlyArr, &earlyChk{arr: arr, level: w.out, ret: w.nullRet})
		}
		w.nullNext, w.nullLast = nil, false
		w.pending = arr
		return
	}
	w.fail(at, "irregular: the encoder uses %s", m)
}

// `if len(X) == 0 { pe.putInt32(-1); return nil / continue }` followed by the regular array code,
// `if len(X) > 0 { array } else { pe.putInt32(-1) }`, `if X == nil { putUVarint(0)/putInt32(-1) } else { array }`,
// `if length == 0 { length = -1 }`
func (w *W) encNullPattern(x *ast.IfStmt, cond ast.Expr, rest []ast.Stmt) (ctl, bool) {
	b, ok := cond.(*ast.BinaryExpr)
	if !ok {
		return ctlNone, false
	}
	lhs := w.eval(b.X)
	rhs := w.eval(b.Y)
	isNullWrite := func(s ast.Stmt) bool {
		es, ok := s.(*ast.ExprStmt)
		if !ok {
			return false
		}
		call, ok := es.X.(*ast.CallExpr)
		if !ok {
			return false
		}
		m, ok := w.coderMethod(call)
		if !ok || len(call.Args) != 1 {
			return false
		}
		c, isC := w.eval(call.Args[0]).(Conc)
		return isC && ((m == "putInt32" && c.v == -1) || (m == "putUVarint" && c.v == 0))
	}
	if l, ok := lhs.(LenOf); ok {
		c, isC := rhs.(Conc)
		if !isC || c.v != 0 {
			return ctlNone, false
		}
		switch b.Op {
		case token.EQL:
			// local length variable set to -1
			if len(x.Body.List) == 1 && x.Else == nil {
				if as, ok := x.Body.List[0].(*ast.AssignStmt); ok && len(as.Lhs) == 1 && len(as.Rhs) == 1 {
					if id, ok := as.Lhs[0].(*ast.Ident); ok {
						if v, ok := w.eval(as.Rhs[0]).(Conc); ok && v.v == -1 {
							if o := w.objOf(id); o != nil {
								if cur, ok := w.env[o].(LenOf); ok && cur.pl.key() == l.pl.key() {
									cur.emptyNull = true
									w.env[o] = cur
									return ctlNone, true
								}
							}
						}
					}
				}
			}
			// null marker then return / continue; the array code must follow and be the last thing at this level
			if len(x.Body.List) == 2 && x.Else == nil && isNullWrite(x.Body.List[0]) {
				switch t := x.Body.List[1].(type) {
				case *ast.ReturnStmt:
					_ = t
				case *ast.BranchStmt:
					if t.Tok != token.CONTINUE {
						return ctlNone, false
					}
				default:
					return ctlNone, false
				}
				_, isRet := x.Body.List[1].(*ast.ReturnStmt)
				w.nullNext, w.nullKind, w.nullLast, w.nullRet = l.pl, "EEmptyNull", true, isRet
				return ctlNone, true
			}
		case token.GTR:
			if x.Else != nil {
				if eb, ok := x.Else.(*ast.BlockStmt); ok && len(eb.List) == 1 && isNullWrite(eb.List[0]) {
					w.nullNext, w.nullKind = l.pl, "EEmptyNull"
					return w.walkBlock(x.Body.List), true
				}
			}
		}
		return ctlNone, false
	}
	// X == nil
	if pl, ok := lhs.(*Place); ok {
		if _, isNil := rhs.(NilV); isNil && b.Op == token.EQL && x.Else != nil && len(x.Body.List) == 1 && isNullWrite(x.Body.List[0]) {
			if eb, ok := x.Else.(*ast.BlockStmt); ok {
				w.nullNext, w.nullKind = pl, "ENilNull"
				return w.walkBlock(eb.List), true
			}
		}
	}
	return ctlNone, false
}

// ---------------------------------------------------------------- decoder calls

func (w *W) decGet(m string, c *ast.CallExpr, lhs []ast.Expr, at ast.Node) {
	pos := w.g.pkg.pos(at)
	if len(c.Args) != 0 {
		w.fail(at, "irregular: the decoder uses %s", m)
	}
	var n *Node
	if len(m) > 3 && m[:3] == "get" {
		if p, ok := intPrims[m[3:]]; ok {
			n = &Node{Kind: "prim", P: p, Conv: "CId", Pos: pos}
		}
	}
	if p, ok := strGetPrims[m]; ok {
		n = &Node{Kind: "prim", P: p, Conv: "CId", Pos: pos}
	}
	if ga, ok := getArrs[m]; ok {
		k := defaultKind()
		k.DLen, k.ESize = ga.dlen, ga.esize
		k.Zero, k.Null, k.Neg = "BNil", "BNil", "BNil"
		if m == "getCompactInt32Array" {
			k.Zero = "BEmpty"
		}
		zero := Value{Kind: "int"}
		if ga.elem == "PStr" {
			zero = Value{Kind: "bytes"}
		}
		n = &Node{Kind: "arr", K: k, Pos: pos, Zero: zero,
			Elem: []*Node{{Kind: "prim", P: ga.elem, Conv: "CId", Pos: pos}}}
	}
	switch m {
	case "getEmptyTaggedFieldArray":
		w.emit(&Node{Kind: "tag", Pos: pos})
		return
	case "getArrayLength", "getCompactArrayLength":
		k := defaultKind()
		if m == "getCompactArrayLength" {
			k.DLen = "DLCompact"
		}
		n = &Node{Kind: "arr", K: k, Pos: pos}
		w.emit(n)
		var o types.Object
		if len(lhs) >= 1 {
			if id, ok := lhs[0].(*ast.Ident); ok && id.Name != "_" {
				o = w.objOf(id)
			}
		}
		if o == nil {
			w.fail(at, "array length is not stored in a variable")
		}
		arr := w.newArr(n, o)
		w.env[o] = &Count{arr: arr}
		return
	}
	if n == nil {
		w.fail(at, "irregular: the decoder uses %s", m)
	}
	w.emit(n)
	if len(lhs) == 0 {
		w.fail(at, "result of %s is dropped", m)
	}
	// destination
	if id, ok := lhs[0].(*ast.Ident); ok {
		if id.Name == "_" {
			n.Skip, n.Bound = true, true
			if n.Kind != "prim" {
				w.fail(at, "array read and discarded")
			}
			return
		}
		o := w.objOf(id)
		if cur, isPlace := w.env[o].(*Place); !isPlace || cur.obj.what == "var" || cur.obj.what == "coll" {
			p := &Pending{node: n}
			w.env[o] = p
			w.temps = append(w.temps, p)
			return
		}
	}
	pl, ok := w.evalL(lhs[0]).(*Place)
	if !ok {
		w.fail(at, "decoded value stored in an unsupported target")
	}
	delete(w.known, pl.key())
	n.Place, n.Bound = pl, true
}

// ---------------------------------------------------------------- inlining of X.encode / X.decode

func (w *W) inline(c *ast.CallExpr, at ast.Node) {
	sel := c.Fun.(*ast.SelectorExpr)
	recv, ok := w.eval(sel.X).(*Place)
	if !ok {
		w.fail(at, "%s on a value that is not part of the coded value", sel.Sel.Name)
	}
	tn := namedName(recv.typ)
	if tn == "" {
		w.fail(at, "%s on an unnamed type", sel.Sel.Name)
	}
	fd := w.g.pkg.Methods[tn+"."+sel.Sel.Name]
	if fd == nil {
		w.fail(at, "no method %s.%s", tn, sel.Sel.Name)
	}
	if (sel.Sel.Name == "encode") != (w.side == "enc") {
		w.fail(at, "%s called from the %s side", sel.Sel.Name, w.side)
	}
	if w.depth > 8 {
		w.fail(at, "codec nesting too deep")
	}
	var args []SVal
	for _, a := range c.Args {
		args = append(args, w.eval(a))
	}
	w.walkMethod(fd, recv, args, at)
}

func (w *W) walkMethod(fd *ast.FuncDecl, recv *Place, args []SVal, at ast.Node) {
	saveEnv, saveRecv := w.env, w.recvType
	saveLvl, saveIdx, savePending := w.frameLvl, w.frameIdx, w.pending
	w.env = map[types.Object]SVal{}
	w.depth++
	w.frameLvl, w.frameIdx = w.out, len(*w.out)
	defer func() {
		w.env, w.recvType, w.depth = saveEnv, saveRecv, w.depth-1
		w.frameLvl, w.frameIdx = saveLvl, saveIdx
		_ = savePending
	}()
	if names := fd.Recv.List[0].Names; len(names) == 1 {
		w.env[w.g.pkg.Info.Defs[names[0]]] = recv
	}
	w.recvType = namedName(recv.typ)
	w.visited[w.recvType+"."+fd.Name.Name] = true
	w.noteCountLike(fd)
	i := 0
	for _, f := range fd.Type.Params.List {
		for _, nm := range f.Names {
			if i >= len(args) {
				w.fail(at, "argument count mismatch")
			}
			o := w.g.pkg.Info.Defs[nm]
			switch a := args[i].(type) {
			case Coder:
				w.env[o] = a
			case Conc:
				w.env[o] = Conc{v: a.v, fromVer: true}
			default:
				w.fail(at, "unsupported argument %T to %s.%s", a, w.recvType, fd.Name.Name)
			}
			i++
		}
	}
	if fd.Type.Results != nil {
		for _, f := range fd.Type.Results.List {
			for _, nm := range f.Names {
				w.env[w.g.pkg.Info.Defs[nm]] = ErrV{}
			}
		}
	}
	w.walkBlock(fd.Body.List)
	if w.pending != nil && !w.pending.started && w.pending.level == w.out && w.pending != savePending {
		w.fail(fd, "a count is written/read but no loop over the collection follows")
	}
	// early returns inside this method skip whatever this method would still have coded
	for _, e := range w.earlyArr {
		if e.level == w.out && !e.top {
			idx := -1
			for j, n := range *w.out {
				if n == e.arr.node {
					idx = j
				}
			}
			if idx >= w.frameIdx {
				for _, n := range (*w.out)[idx+1:] {
					if n.Kind != "derived" {
						w.fail(nil, "%s: on a zero/null count the decoder returns early and skips what follows (%s)", e.arr.node.Pos, n.Pos)
					}
				}
				e.top = true
			}
		}
	}
}

// variables that are used as the size of a make or as the bound of a counted loop
func (w *W) noteCountLike(fd *ast.FuncDecl) {
	if w.countLike == nil {
		w.countLike = map[types.Object]bool{}
	}
	mark := func(e ast.Expr) {
		ast.Inspect(e, func(m ast.Node) bool {
			if id, ok := m.(*ast.Ident); ok {
				if o := w.objOf(id); o != nil {
					w.countLike[o] = true
				}
			}
			return true
		})
	}
	ast.Inspect(fd.Body, func(n ast.Node) bool {
		switch x := n.(type) {
		case *ast.CallExpr:
			if id, ok := x.Fun.(*ast.Ident); ok && id.Name == "make" && len(x.Args) >= 2 {
				mark(x.Args[len(x.Args)-1])
			}
		case *ast.ForStmt:
			if b, ok := x.Cond.(*ast.BinaryExpr); ok && b.Op == token.LSS {
				mark(b.Y)
			}
		}
		return true
	})
}
