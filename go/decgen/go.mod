module decgen

go 1.21
