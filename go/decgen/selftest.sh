#!/bin/bash
# Self-test of the decgen tie.  Usage: go/decgen/selftest.sh [workers=4] [results.json]
#  1. baseline: regenerating from the unchanged tree reproduces every golden byte for byte;
#  2. for every target >= 2 semantic mutations (must STOP the translator or FAIL the deceq lemma of that target)
#     and per group >= 1 harmless rewrite (must stay IDENTICAL / EQUIVALENT); table in selftest.py;
#  3. differential run of the generated definitions against the real Go functions (go/harness/cmd/decgencorr).
# Works on scratch worktrees /tmp/wt-decgen-<i> of ${VERIF_REPO:-/repo}; nothing is written to the repository.
set -u
export GOFLAGS=-mod=mod GOPROXY=off GOSUMDB=off GOTOOLCHAIN=local
HERE="$(cd "$(dirname "$0")" && pwd)"; VERIF="$(cd "$HERE/../.." && pwd)"
REPO="${VERIF_REPO:-/repo}"; N="${1:-4}"; OUT="${2:-/tmp/b-decgen/selftest_results.json}"
mkdir -p "$(dirname "$OUT")" /tmp/b-decgen
fail=0

echo "== baseline: goldens reproduce from $REPO"
rm -rf /tmp/b-decgen/base && mkdir -p /tmp/b-decgen/base
SPECS=$(ls "$HERE"/specs/*.json | paste -sd, -)
( cd "$HERE" && timeout 600 go run . -repo "$REPO" -spec "$SPECS" -out /tmp/b-decgen/base ) || { echo "translator stopped on the unchanged tree"; fail=1; }
for f in /tmp/b-decgen/base/Dec*.v; do
  cmp -s "$f" "$VERIF/coq/Gen/$(basename "$f")" || { echo "GOLDEN DIFFERS: $(basename "$f") (run go/decgen/regen_goldens.sh)"; fail=1; }
done
( cd "$VERIF" && bin/coqbuild Gen/GoInt.vo Gen/DecTypes.vo Gen/DecTac.vo $(cd coq && ls Gen/Dec*.v | sed 's/\.v$/.vo/') >/dev/null ) || { echo "goldens do not build"; fail=1; }

echo "== operator / statement semantics of the translator itself (testdata/subset: Go results vs. translated definitions)"
rm -rf /tmp/b-decgen/subset && mkdir -p /tmp/b-decgen/subset
( cd "$HERE" && go run . -repo testdata/subset -spec testdata/subset_stop.json -out /tmp/b-decgen/subset >/tmp/b-decgen/subset/stop.txt 2>&1 )
grep -q "decgen: STOP .*loop inside the body" /tmp/b-decgen/subset/stop.txt || { echo "nested loop was not rejected"; fail=1; }
( cd "$HERE" && go run . -repo testdata/subset -spec testdata/subset.json -out /tmp/b-decgen/subset -eq /tmp/b-decgen/subset \
  && cd testdata/subset && go run ./cmd/gen > /tmp/b-decgen/subset/examples.txt \
  && cd /tmp/b-decgen/subset && cat DecSubset.v examples.txt > SubsetCheck.v \
  && timeout 600 coqc -Q "$VERIF/coq" SV SubsetCheck.v && cp DecSubset.v SV_DecSubset.v \
  && echo "subset: $(wc -l < examples.txt) Go-computed values reproduced by the translated definitions" ) || { echo "subset test FAILED"; fail=1; }

echo "== mutations ($(python3 "$HERE/selftest.py" count) cases, $N workers)"
pids=()
for i in $(seq 0 $((N-1))); do
  wt=/tmp/wt-decgen-$i
  git -C "$REPO" worktree remove --force "$wt" >/dev/null 2>&1
  git -C "$REPO" worktree add --detach "$wt" HEAD >/dev/null 2>&1 || { echo "cannot create worktree $wt"; exit 2; }
  python3 "$HERE/selftest.py" worker "$wt" "$i" "$N" "/tmp/b-decgen/selftest_part_$i.json" &
  pids+=($!)
done
for p in "${pids[@]}"; do wait "$p" || fail=1; done
for i in $(seq 0 $((N-1))); do git -C "$REPO" worktree remove --force "/tmp/wt-decgen-$i" >/dev/null 2>&1; done
git -C "$REPO" worktree prune
python3 - "$OUT" "$N" <<'PY' || fail=1
import json, sys
out, n = sys.argv[1], int(sys.argv[2])
rows = []
for i in range(n):
    rows += json.load(open("/tmp/b-decgen/selftest_part_%d.json" % i))
rows.sort(key=lambda r: r["n"])
json.dump(rows, open(out, "w"), indent=1)
sem = [r for r in rows if r["kind"] == "semantic"]; har = [r for r in rows if r["kind"] == "harmless"]
print("semantic mutations caught: %d/%d (translator stop: %d, deceq lemma fails: %d)" % (
    sum(r["pass"] for r in sem), len(sem), sum(r["outcome"].startswith("STOP") for r in sem), sum(r["outcome"].startswith("DECEQ") for r in sem)))
print("harmless rewrites accepted: %d/%d (identical: %d, equivalent by deceq: %d)" % (
    sum(r["pass"] for r in har), len(har), sum(r["outcome"] == "IDENTICAL" for r in har), sum(r["outcome"] == "EQUIVALENT" for r in har)))
per = {}
for r in sem:
    per.setdefault((r["group"], r["target"]), []).append(r["pass"])
thin = [k for k, v in per.items() if sum(v) < 2]
if thin: print("targets with < 2 caught semantic mutations:", thin)
bad = [r for r in rows if not r["pass"]]
for r in bad: print("MISS", r["n"], r["group"], r["target"], r["kind"], r["what"], "->", r["outcome"][:200])
sys.exit(1 if bad or thin else 0)
PY

if [ -d "$VERIF/go/harness/cmd/decgencorr" ]; then
  echo "== generated definitions vs. the Go functions (decgencorr)"
  python3 "$HERE/corr_run.py" || fail=1
fi
echo "selftest: $([ $fail = 0 ] && echo PASS || echo FAIL)   results: $OUT"
exit $fail
