package main

import (
	"fmt"
	"go/ast"
	"go/token"
	"go/types"
	"strings"
)

func (t *T) block(list []ast.Stmt, e *env, ind string, k K) string {
	if len(list) == 0 {
		return k(e, ind)
	}
	return t.stmt(list[0], e, ind, func(e2 *env, ind2 string) string {
		return t.block(list[1:], e2, ind2, k)
	})
}

func (t *T) stmt(s ast.Stmt, e *env, ind string, k K) string {
	switch x := s.(type) {
	case *ast.EmptyStmt:
		return k(e, ind)
	case *ast.BlockStmt:
		return t.block(x.List, e, ind, k)
	case *ast.AssignStmt:
		return t.assignStmt(x, e, ind, k)
	case *ast.IncDecStmt:
		op := token.ADD
		if x.Tok == token.DEC {
			op = token.SUB
		}
		cur, g := t.expr(x.X, e)
		if g != "Z" {
			t.stopf(x, "%s on a non-integer", x.Tok)
		}
		val := t.arith(x, op, cur, "1", t.p.Info.TypeOf(x.X))
		return t.store(x.X, val, "Z", e, ind, k)
	case *ast.DeclStmt:
		return t.declStmt(x, e, ind, k)
	case *ast.ExprStmt:
		return t.exprStmt(x, e, ind, k)
	case *ast.SendStmt:
		m := t.emits[canon(x.Chan)+" <-"]
		if m == nil {
			t.stopf(x, "channel send on %q is not in the emit table", canon(x.Chan))
		}
		var et types.Type
		if ch, ok := t.p.Info.TypeOf(x.Chan).Underlying().(*types.Chan); ok {
			et = ch.Elem()
		}
		term := substArgs(m.Term, func(i int) string {
			if i != 0 {
				t.stopf(x, "a send has only $0")
			}
			v, _ := t.exprAs(x.Value, et, e)
			return v
		})
		return t.emit(term, e, ind, k)
	case *ast.DeferStmt:
		if t.ignore[canon(x.Call.Fun)] {
			return k(e, ind)
		}
		t.stopf(x, "defer of %q, which is not an ignored call", canon(x.Call.Fun))
	case *ast.ReturnStmt:
		return t.returnStmt(x, e, ind)
	case *ast.IfStmt:
		return t.ifStmt(x, e, ind, k)
	case *ast.SwitchStmt:
		return t.switchStmt(x, e, ind, k)
	case *ast.TypeSwitchStmt:
		return t.typeSwitchStmt(x, e, ind, k)
	case *ast.ForStmt:
		return t.forStmt(x, e, ind, k)
	case *ast.RangeStmt:
		return t.rangeStmt(x, e, ind, k)
	case *ast.BranchStmt:
		if x.Label != nil {
			t.stopf(x, "labelled %s", x.Tok)
		}
		switch x.Tok {
		case token.BREAK:
			if len(t.brk) == 0 {
				t.stopf(x, "break outside a translated loop or switch")
			}
			return t.brk[len(t.brk)-1](e, ind)
		case token.CONTINUE:
			if len(t.cont) == 0 {
				t.stopf(x, "continue outside a translated loop")
			}
			return t.cont[len(t.cont)-1](e, ind)
		case token.FALLTHROUGH:
			t.stopf(x, "fallthrough that is not the last statement of a case clause")
		}
	}
	t.stopf(s, "statement %T (%s) is outside the supported subset", s, stmtHead(s))
	return ""
}

func (t *T) emit(term string, e *env, ind string, k K) string {
	if e.acts == "" {
		t.stopf(nil, "internal: emit without action accumulator")
	}
	e2 := e.clone()
	n := t.fresh("acts")
	e2.acts = n
	if e.acts == "[]" {
		return ind + "let " + n + " := [" + term + "] in\n" + k(e2, ind)
	}
	return ind + "let " + n + " := " + e.acts + " ++ [" + term + "] in\n" + k(e2, ind)
}

// store assigns a translated value to a Go lvalue (local variable or state place).
func (t *T) store(lhs ast.Expr, val, gty string, e *env, ind string, k K) string {
	lhs = unparen(lhs)
	if ae := t.assignEmits[canon(lhs)]; ae != nil {
		term := substArgs(ae.Term, func(i int) string {
			if i == 0 {
				if val == "" {
					t.stopf(lhs, "internal: $0 of an assignment action without translated value")
				}
				return val
			}
			ix, ok := lhs.(*ast.IndexExpr)
			if !ok || i != 1 {
				t.stopf(lhs, "assignment action: $%d is not available for %q", i, canon(lhs))
			}
			it, _ := t.expr(ix.Index, e)
			return it
		})
		return t.emit(t.subst(lhs, term, e), e, ind, k)
	}
	if ix, ok := lhs.(*ast.IndexExpr); ok {
		if _, isState := t.stIndex[canon(lhs)]; !isState {
			mt, mg := t.expr(ix.X, e)
			if m := t.maps[mg]; m != nil {
				it, ig := t.expr(ix.Index, e)
				if ig != m.Key || (gty != "" && gty != m.Elem) {
					t.stopf(lhs, "store of a %q at a key %q into a map %s", gty, ig, m.Type)
				}
				return t.store(ix.X, "("+m.Set+" "+mt+" "+it+" "+val+")", mg, e, ind, k)
			}
		}
	}
	e2 := e.clone()
	if i, ok := t.stIndex[canon(lhs)]; ok {
		if gty != "" && gty != t.stTypes[i] {
			t.stopf(lhs, "assignment of a %q to state %s : %s", gty, t.stNames[i], t.stTypes[i])
		}
		n := t.fresh(t.stNames[i])
		e2.st[i] = n
		return ind + "let " + n + " := " + val + " in\n" + k(e2, ind)
	}
	id, ok := lhs.(*ast.Ident)
	if !ok {
		t.stopf(lhs, "assignment to %q, which is neither a local variable nor a state place of the spec", canon(lhs))
	}
	if id.Name == "_" {
		return k(e, ind)
	}
	var o types.Object = t.p.Info.Defs[id]
	if o == nil {
		o = t.p.Info.Uses[id]
	}
	v, isVar := o.(*types.Var)
	if !isVar || v.Parent() == t.p.Types.Scope() {
		t.stopf(lhs, "assignment to %s, which is not a local variable", id.Name)
	}
	b := e2.vars[o]
	if b == nil {
		if t.p.Info.Defs[id] == nil {
			t.stopf(lhs, "assignment to local %s, which is not bound here (declared outside the slice? make it state)", id.Name)
		}
		b = &binding{}
		e2.declare(o, b)
	}
	if gty == "" {
		if g, ok := gtype(o.Type()); ok {
			gty = g
		} else if b.gty != "" {
			gty = b.gty
		}
	}
	if b.gty != "" && gty != "" && b.gty != gty {
		t.stopf(lhs, "variable %s changes its Gallina type from %q to %q", id.Name, b.gty, gty)
	}
	n := t.fresh(t.localBase(o, e))
	b.name, b.gty, b.set = n, gty, true
	return ind + "let " + n + " := " + val + " in\n" + k(e2, ind)
}

// declare a variable without value (var x T): zero value when the Gallina type has one, else unset.
func (t *T) declareZero(id *ast.Ident, e *env) *env {
	if id.Name == "_" {
		return e
	}
	o := t.p.Info.Defs[id]
	e2 := e.clone()
	g, ok := gtype(o.Type())
	if ok {
		z, _ := zeroOf(g)
		e2.declare(o, &binding{name: z, gty: g, set: true})
	} else {
		e2.declare(o, &binding{})
	}
	return e2
}

func (t *T) declStmt(x *ast.DeclStmt, e *env, ind string, k K) string {
	gd, ok := x.Decl.(*ast.GenDecl)
	if !ok || gd.Tok != token.VAR {
		t.stopf(x, "local declaration other than var")
	}
	// sequentialise the specs
	var run func(i int, e *env, ind string) string
	run = func(i int, e *env, ind string) string {
		if i == len(gd.Specs) {
			return k(e, ind)
		}
		vs := gd.Specs[i].(*ast.ValueSpec)
		next := func(e2 *env, ind2 string) string { return run(i+1, e2, ind2) }
		if len(vs.Values) == 0 {
			for _, id := range vs.Names {
				e = t.declareZero(id, e)
			}
			return next(e, ind)
		}
		lhs := make([]ast.Expr, len(vs.Names))
		for j, id := range vs.Names {
			lhs[j] = id
		}
		return t.assign(vs, lhs, vs.Values, e, ind, next)
	}
	return run(0, e, ind)
}

func (t *T) assignStmt(x *ast.AssignStmt, e *env, ind string, k K) string {
	switch x.Tok {
	case token.ASSIGN, token.DEFINE:
		return t.assign(x, x.Lhs, x.Rhs, e, ind, k)
	}
	// op=
	ops := map[token.Token]token.Token{token.ADD_ASSIGN: token.ADD, token.SUB_ASSIGN: token.SUB, token.MUL_ASSIGN: token.MUL,
		token.QUO_ASSIGN: token.QUO, token.REM_ASSIGN: token.REM, token.AND_ASSIGN: token.AND, token.OR_ASSIGN: token.OR,
		token.XOR_ASSIGN: token.XOR, token.SHL_ASSIGN: token.SHL, token.SHR_ASSIGN: token.SHR, token.AND_NOT_ASSIGN: token.AND_NOT}
	op, ok := ops[x.Tok]
	if !ok || len(x.Lhs) != 1 || len(x.Rhs) != 1 {
		t.stopf(x, "assignment operator %s", x.Tok)
	}
	cur, g := t.expr(x.Lhs[0], e)
	rhs, g2 := t.expr(x.Rhs[0], e)
	if g != "Z" || g2 != "Z" {
		t.stopf(x, "%s on non-integers", x.Tok)
	}
	val := t.arith(x, op, cur, rhs, t.p.Info.TypeOf(x.Lhs[0]))
	return t.store(x.Lhs[0], val, "Z", e, ind, k)
}

func (t *T) lhsType(l ast.Expr) types.Type {
	l = unparen(l)
	if id, ok := l.(*ast.Ident); ok {
		if id.Name == "_" {
			return nil
		}
		if o := t.p.Info.Defs[id]; o != nil {
			return o.Type()
		}
		if o := t.p.Info.Uses[id]; o != nil {
			return o.Type()
		}
	}
	return t.p.Info.TypeOf(l)
}

func isBlank(x ast.Expr) bool {
	id, ok := unparen(x).(*ast.Ident)
	return ok && id.Name == "_"
}

// assign handles `lhs... = rhs...` and `lhs... := rhs...` (parallel assignment).
func (t *T) assign(at ast.Node, lhs, rhs []ast.Expr, e *env, ind string, k K) string {
	var vals, gtys []string
	fromTable := false
	if len(lhs) == 1 && len(rhs) == 1 {
		if ae := t.assignEmits[canon(lhs[0])]; ae != nil && !strings.Contains(ae.Term, "$0") {
			// the action does not mention the value: the right-hand side is not translated
			return t.store(lhs[0], "", "", e, ind, k)
		}
	}
	if len(rhs) == 1 {
		r := unparen(rhs[0])
		if c, ok := r.(*ast.CallExpr); ok {
			fkey := canon(c.Fun)
			if t.lookupAtom(canon(c)) == nil {
				if si, ok := t.streamIdx[fkey]; ok {
					return t.popStream(at, si, lhs, e, ind, k)
				}
				if t.ignore[fkey] {
					for _, l := range lhs {
						if !isBlank(l) {
							t.stopf(at, "result of ignored call %q is assigned to %s", fkey, canon(l))
						}
					}
					return k(e, ind)
				}
			}
			if cs := t.calls[fkey]; cs != nil && cs.Emit != "" && t.lookupAtom(canon(c)) == nil {
				// a call with an effect: the action first, then the values
				term := t.subst(c, substArgs(cs.Emit, func(i int) string { return t.argTerm(c, i, e) }), e)
				return t.emit(term, e, ind, func(e2 *env, ind2 string) string {
					t.allowEmit = true
					vs, gs := t.call(c, e2)
					t.allowEmit = false
					return t.bindValues(at, lhs, append([]string{}, vs...), append([]string{}, gs...), e2, ind2, k)
				})
			}
			if cs := t.calls[fkey]; cs != nil && len(cs.Sets) > 0 && t.lookupAtom(canon(c)) == nil {
				// a call that also assigns state places: values and new state are read before the call
				t.allowSets = true
				vs, gs := t.call(c, e)
				t.allowSets = false
				pre, e2 := t.applySets(c, cs, e, ind)
				return pre + t.bindValues(at, lhs, append([]string{}, vs...), append([]string{}, gs...), e2, ind, k)
			}
			vals, gtys = t.call(c, e)
			vals, gtys = append([]string{}, vals...), append([]string{}, gtys...)
			fromTable = true
			if len(vals) == 1 && len(lhs) == 1 {
				if tt := t.lhsType(lhs[0]); tt != nil && isErrorType(tt) && gtys[0] == "Z" {
					vals[0], gtys[0] = "(EK "+vals[0]+")", "gerr"
				}
			}
		} else if ix, ok := r.(*ast.IndexExpr); ok && len(lhs) == 2 && t.lookupAtom(canon(r)) == nil && t.isMapIndex(ix, e) {
			// v, ok := m[k] on a modelled map
			mt, mg := t.expr(ix.X, e)
			m := t.maps[mg]
			it, _ := t.expr(ix.Index, e)
			vals, gtys = []string{"(" + m.Get + " " + mt + " " + it + ")", "(" + m.Has + " " + mt + " " + it + ")"}, []string{m.GetType, "bool"}
			fromTable = true
		} else if len(lhs) > 1 {
			// comma-ok forms through a multi-valued atom
			a := t.lookupAtom(canon(r))
			if a == nil || len(a.Terms) != len(lhs) {
				t.stopf(at, "multi-valued right-hand side %q is not a %d-valued atom", canon(r), len(lhs))
			}
			t.checkAtomLocals(r, a.Terms...)
			vals, gtys = append([]string{}, a.Terms...), append([]string{}, a.Types...)
			for i := range vals {
				vals[i] = t.subst(r, vals[i], e)
			}
			fromTable = true
		}
	}
	if vals == nil {
		if len(lhs) != len(rhs) {
			t.stopf(at, "assignment of %d values to %d places", len(rhs), len(lhs))
		}
		for i := range rhs {
			if ae := t.assignEmits[canon(lhs[i])]; ae != nil && !strings.Contains(ae.Term, "$0") {
				// the action does not mention the value: the right-hand side is not translated
				vals, gtys = append(vals, ""), append(gtys, "")
				continue
			}
			v, g := t.exprAs(rhs[i], t.lhsType(lhs[i]), e)
			vals = append(vals, v)
			gtys = append(gtys, g)
		}
	}
	if len(lhs) > 1 && !fromTable {
		return t.bindValuesParallel(at, lhs, vals, gtys, e, ind, k)
	}
	return t.bindValues(at, lhs, vals, gtys, e, ind, k)
}

func (t *T) isMapIndex(ix *ast.IndexExpr, e *env) bool {
	if _, ok := t.p.Info.TypeOf(ix.X).Underlying().(*types.Map); !ok {
		return false
	}
	key := canon(ix.X)
	if _, ok := t.stIndex[key]; ok {
		_, g := t.expr(ix.X, e)
		return t.maps[g] != nil
	}
	if id, ok := unparen(ix.X).(*ast.Ident); ok {
		if b := e.vars[t.p.Info.Uses[id]]; b != nil {
			return t.maps[b.gty] != nil
		}
	}
	return false
}

// bindValues stores already translated values into the places, left to right.
func (t *T) bindValues(at ast.Node, lhs []ast.Expr, vals, gtys []string, e *env, ind string, k K) string {
	return t.bindValuesOpt(at, lhs, vals, gtys, false, e, ind, k)
}

func (t *T) bindValuesParallel(at ast.Node, lhs []ast.Expr, vals, gtys []string, e *env, ind string, k K) string {
	return t.bindValuesOpt(at, lhs, vals, gtys, true, e, ind, k)
}

func (t *T) bindValuesOpt(at ast.Node, lhs []ast.Expr, vals, gtys []string, parallel bool, e *env, ind string, k K) string {
	pre := ""
	if len(vals) != len(lhs) {
		t.stopf(at, "assignment of %d values to %d places", len(vals), len(lhs))
	}
	for len(gtys) < len(vals) {
		gtys = append(gtys, "")
	}
	fromTable := !parallel
	// parallel assignment: when several places are written and a later value mentions an earlier place,
	// the values are computed first
	if len(lhs) > 1 && !fromTable {
		tmp := make([]string, len(vals))
		for i := range vals {
			if isBlank(lhs[i]) {
				continue
			}
			if vals[i] == "" {
				continue
			}
			tmp[i] = t.fresh("tmp")
			pre += ind + "let " + tmp[i] + " := " + vals[i] + " in\n"
			vals[i] = tmp[i]
		}
	}
	var run func(i int, e *env, ind string) string
	run = func(i int, e *env, ind string) string {
		if i == len(lhs) {
			return k(e, ind)
		}
		if isBlank(lhs[i]) {
			return run(i+1, e, ind)
		}
		return t.store(lhs[i], vals[i], gtys[i], e, ind, func(e2 *env, ind2 string) string { return run(i+1, e2, ind2) })
	}
	return pre + run(0, e, ind)
}

// applySets binds the new values of the state places a table call assigns (CallSpec.Sets, in the order of
// the spec's state list); every term is read in the environment before the call.
func (t *T) applySets(c *ast.CallExpr, cs *CallSpec, e *env, ind string) (string, *env) {
	for place := range cs.Sets {
		if _, ok := t.stIndex[place]; !ok {
			t.stopf(c, "spec: call %q sets %q, which is not a state place of the target", cs.Go, place)
		}
	}
	e2 := e.clone()
	pre := ""
	for i, n := range t.stNames {
		for place, term := range cs.Sets {
			if t.stIndex[place] != i {
				continue
			}
			v := t.subst(c, substArgs(term, func(j int) string { return t.argTerm(c, j, e) }), e)
			fn := t.fresh(n)
			e2.st[i] = fn
			pre += ind + "let " + fn + " := " + v + " in\n"
		}
	}
	return pre, e2
}

// popStream: `lhs... = oracle()`: take the next scripted result.
func (t *T) popStream(at ast.Node, si int, lhs []ast.Expr, e *env, ind string, k K) string {
	var sv *StreamVar
	for _, s := range t.tg.Stream {
		if t.streamIdx[s.Call] == si {
			sv = s
		}
	}
	if len(lhs) != len(sv.Results) && len(lhs) != 0 {
		t.stopf(at, "oracle %s yields %d values, %d places", sv.Call, len(sv.Results), len(lhs))
	}
	x := t.fresh("o_" + sanitize(sv.Name))
	rest := t.fresh(sv.Name)
	e2 := e.clone()
	e2.st[si] = rest
	out := ind + "let '(" + x + ", " + rest + ") := pop (" + sv.Default + ") " + e.st[si] + " in\n"
	var vals []string
	switch len(sv.Results) {
	case 1:
		vals = []string{x}
	case 2:
		vals = []string{"(fst " + x + ")", "(snd " + x + ")"}
	default:
		t.stopf(at, "oracle streams with %d results are not supported", len(sv.Results))
	}
	var run func(i int, e *env, ind string) string
	run = func(i int, e *env, ind string) string {
		if i >= len(lhs) {
			return k(e, ind)
		}
		if isBlank(lhs[i]) {
			return run(i+1, e, ind)
		}
		return t.store(lhs[i], vals[i], sv.Results[i], e, ind, func(e2 *env, ind2 string) string { return run(i+1, e2, ind2) })
	}
	return out + run(0, e2, ind)
}

func (t *T) exprStmt(x *ast.ExprStmt, e *env, ind string, k K) string {
	c, ok := unparen(x.X).(*ast.CallExpr)
	if !ok {
		t.stopf(x, "expression statement %q", canon(x.X))
	}
	fkey := canon(c.Fun)
	if t.ignore[fkey] {
		return k(e, ind)
	}
	m := t.emits[canon(c)] // the whole call text first, then the callee
	if m == nil {
		m = t.emits[fkey]
	}
	if m != nil {
		t.checkAtomLocals(c.Fun, m.Term)
		term := t.subst(c, substArgs(m.Term, func(i int) string { return t.argTerm(c, i, e) }), e)
		return t.emit(term, e, ind, k)
	}
	if si, ok := t.streamIdx[fkey]; ok {
		return t.popStream(x, si, nil, e, ind, k)
	}
	if cs := t.calls[fkey]; cs != nil && cs.Emit != "" {
		term := t.subst(c, substArgs(cs.Emit, func(i int) string { return t.argTerm(c, i, e) }), e)
		return t.emit(term, e, ind, k)
	}
	if fkey == "delete" && len(c.Args) == 2 {
		mt, mg := t.expr(c.Args[0], e)
		if m := t.maps[mg]; m != nil {
			kt, kg := t.expr(c.Args[1], e)
			if kg != m.Key {
				t.stopf(x, "delete with a key of Gallina type %q from a map with keys %q", kg, m.Key)
			}
			return t.store(c.Args[0], "("+m.Del+" "+mt+" "+kt+")", mg, e, ind, k)
		}
	}
	t.stopf(x, "call statement %q is not in the spec (ignore / emits / streams)", canon(c))
	return ""
}

func (t *T) returnStmt(x *ast.ReturnStmt, e *env, ind string) string {
	if len(x.Results) == 0 {
		if t.slice && len(t.goResG) > 0 {
			t.stopf(x, "bare return of named results inside a slice")
		}
		return ind + t.returnNamed(x, e)
	}
	var rets []string
	if len(x.Results) == 1 && len(t.goResG) > 1 {
		c, ok := unparen(x.Results[0]).(*ast.CallExpr)
		if !ok {
			t.stopf(x, "return of one expression for %d results", len(t.goResG))
		}
		cs := t.calls[canon(c.Fun)]
		hasSets := cs != nil && len(cs.Sets) > 0 && t.lookupAtom(canon(c)) == nil
		t.allowSets = hasSets
		vals, _ := t.call(c, e)
		t.allowSets = false
		if len(vals) != len(t.goResG) {
			t.stopf(x, "return of a call with %d values for %d results", len(vals), len(t.goResG))
		}
		if hasSets {
			pre, e2 := t.applySets(c, cs, e, ind)
			return pre + ind + t.result(vals, e2, "ExReturn")
		}
		rets = vals
	} else {
		if len(x.Results) != len(t.goResG) {
			t.stopf(x, "return of %d values for %d results", len(x.Results), len(t.goResG))
		}
		for i, r := range x.Results {
			v, g := t.exprAs(r, t.goResTypes[i], e)
			if g != "" && g != t.goResG[i] {
				t.stopf(r, "result %d: value of Gallina type %q where %q is declared", i, g, t.goResG[i])
			}
			rets = append(rets, v)
		}
	}
	return ind + t.result(rets, e, "ExReturn")
}

// ---------------------------------------------------------------- if / switch

type arm struct {
	cond string
	body []ast.Stmt
}

// chain translates `if c1 {b1} else if c2 {b2} … else {rest}` given as arms + else body.
func (t *T) chain(at ast.Node, arms []arm, elseBody []ast.Stmt, esc bool, e *env, ind string, k K) string {
	build := func(ind string, leaf K) string {
		var b strings.Builder
		cur := ind
		for i, a := range arms {
			if i == 0 {
				b.WriteString(cur + "if " + a.cond + " then\n")
			} else {
				b.WriteString(cur + "else if " + a.cond + " then\n")
			}
			b.WriteString(t.block(a.body, e.clone(), cur+"  ", leaf))
			b.WriteString("\n")
		}
		b.WriteString(cur + "else\n")
		b.WriteString(t.block(elseBody, e.clone(), cur+"  ", leaf))
		return b.String()
	}
	if len(arms) == 0 {
		return t.block(elseBody, e, ind, k)
	}
	if esc {
		return build(ind, k)
	}
	var brs []func(e *env, k K)
	for _, a := range arms {
		body := a.body
		brs = append(brs, func(e *env, k K) { t.block(body, e, "", k) })
	}
	brs = append(brs, func(e *env, k K) { t.block(elseBody, e, "", k) })
	slots := t.probe(e, brs...)
	if len(slots) == 0 {
		return k(e, ind)
	}
	return t.join(at, slots, e, ind, k, build)
}

// hoistOracles: oracle (stream) calls inside a condition are taken from their scripts before the condition is
// evaluated, left to right; only in conditions without && / || (every call is then evaluated exactly once).
func (t *T) hoistOracles(cond ast.Expr, e *env, ind string) (string, *env) {
	var calls []*ast.CallExpr
	shortCircuit := false
	ast.Inspect(cond, func(n ast.Node) bool {
		switch y := n.(type) {
		case *ast.BinaryExpr:
			if y.Op == token.LAND || y.Op == token.LOR {
				shortCircuit = true
			}
		case *ast.CallExpr:
			if t.lookupAtom(canon(y)) == nil {
				if _, ok := t.streamIdx[canon(y.Fun)]; ok {
					calls = append(calls, y)
					return false
				}
			}
		}
		return true
	})
	if len(calls) == 0 {
		return "", e
	}
	if shortCircuit {
		t.stopf(cond, "oracle call inside a condition with && or ||")
	}
	pre := ""
	for _, c := range calls {
		si := t.streamIdx[canon(c.Fun)]
		var sv *StreamVar
		for _, s := range t.tg.Stream {
			if t.streamIdx[s.Call] == si {
				sv = s
			}
		}
		if len(sv.Results) != 1 {
			t.stopf(c, "oracle %s with %d results used as a value", sv.Call, len(sv.Results))
		}
		x := t.fresh("o_" + sanitize(sv.Name))
		rest := t.fresh(sv.Name)
		pre += ind + "let '(" + x + ", " + rest + ") := pop (" + sv.Default + ") " + e.st[si] + " in\n"
		e = e.clone()
		e.st[si] = rest
		t.hoisted[c] = [2]string{x, sv.Results[0]}
	}
	return pre, e
}

func (t *T) ifStmt(x *ast.IfStmt, e *env, ind string, k K) string {
	core := func(e *env, ind string) string {
		pre, e := t.hoistOracles(x.Cond, e, ind)
		c := t.cond(x.Cond, e)
		var elseBody []ast.Stmt
		if x.Else != nil {
			elseBody = []ast.Stmt{x.Else}
		}
		esc := escapes(x.Body) || escapes(x.Else)
		return pre + t.chain(x, []arm{{c, x.Body.List}}, elseBody, esc, e, ind, k)
	}
	if x.Init != nil {
		return t.stmt(x.Init, e, ind, core)
	}
	return core(e, ind)
}

func (t *T) switchStmt(x *ast.SwitchStmt, e *env, ind string, k K) string {
	core := func(e *env, ind string) string {
		// clause bodies with fallthrough resolved (source order)
		cls := make([]*ast.CaseClause, len(x.Body.List))
		for i, c := range x.Body.List {
			cls[i] = c.(*ast.CaseClause)
		}
		bodies := make([][]ast.Stmt, len(cls))
		for i := len(cls) - 1; i >= 0; i-- {
			b := cls[i].Body
			if n := len(b); n > 0 {
				if br, ok := b[n-1].(*ast.BranchStmt); ok && br.Tok == token.FALLTHROUGH {
					if i == len(cls)-1 {
						t.stopf(br, "fallthrough in the last clause")
					}
					b = append(append([]ast.Stmt{}, b[:n-1]...), bodies[i+1]...)
				}
			}
			bodies[i] = b
		}
		prefix := ""
		tag, tagG := "", ""
		var tagT types.Type
		if x.Tag != nil {
			tv, g := t.expr(x.Tag, e)
			tagT = t.p.Info.TypeOf(x.Tag)
			tag, tagG = t.fresh("tag"), g
			prefix = ind + "let " + tag + " := " + tv + " in\n"
		}
		var arms []arm
		var def []ast.Stmt
		for i, c := range cls {
			if c.List == nil {
				def = bodies[i]
				continue
			}
			var cs []string
			for _, ce := range c.List {
				if x.Tag == nil {
					cs = append(cs, t.cond(ce, e))
					continue
				}
				v, g := t.exprAs(ce, tagT, e)
				if isErrorType(tagT) && g == "Z" {
					v, g = "(EK "+v+")", "gerr"
				}
				if g != tagG {
					t.stopf(ce, "case %q of Gallina type %q against a tag of type %q", canon(ce), g, tagG)
				}
				switch tagG {
				case "Z":
					cs = append(cs, "("+tag+" =? "+v+")")
				case "bool":
					cs = append(cs, "(Bool.eqb "+tag+" "+v+")")
				case "string":
					cs = append(cs, "(String.eqb "+tag+" "+v+")")
				case "gerr":
					cs = append(cs, "(gerr_eqb "+tag+" "+v+")")
				default:
					t.stopf(ce, "switch on a tag of Gallina type %q", tagG)
				}
			}
			cond := cs[0]
			if len(cs) > 1 {
				cond = "(" + strings.Join(cs, " || ") + ")"
			}
			arms = append(arms, arm{cond, bodies[i]})
		}
		esc := escapes(x.Body)
		if esc {
			// `break` inside a clause leaves the switch
			k = t.lexical(k)
			t.brk = append(t.brk, k)
			defer func() { t.brk = t.brk[:len(t.brk)-1] }()
		}
		return prefix + t.chain(x, arms, def, esc, e, ind, k)
	}
	if x.Init != nil {
		return t.stmt(x.Init, e, ind, core)
	}
	return core(e, ind)
}

func (t *T) typeSwitchStmt(x *ast.TypeSwitchStmt, e *env, ind string, k K) string {
	if x.Init != nil {
		t.stopf(x, "type switch with init statement")
	}
	var scrut ast.Expr
	switch a := x.Assign.(type) {
	case *ast.AssignStmt:
		scrut = a.Rhs[0].(*ast.TypeAssertExpr).X
	case *ast.ExprStmt:
		scrut = a.X.(*ast.TypeAssertExpr).X
	}
	sv, _ := t.expr(scrut, e)
	var b strings.Builder
	b.WriteString(ind + "match " + sv + " with\n")
	k = t.lexical(k)
	t.brk = append(t.brk, k)
	defer func() { t.brk = t.brk[:len(t.brk)-1] }()
	var def []ast.Stmt
	hasDef := false
	for _, c := range x.Body.List {
		cc := c.(*ast.CaseClause)
		if cc.List == nil {
			def, hasDef = cc.Body, true
			continue
		}
		if len(cc.List) != 1 {
			t.stopf(cc, "type switch clause with %d types", len(cc.List))
		}
		key := canon(cc.List[0])
		var tc *TypeCase
		for _, c := range t.tg.TypeSwitch {
			if c.Type == key {
				tc = c
			}
		}
		if tc == nil {
			t.stopf(cc, "type switch case %q is not in the spec's typeswitch table", key)
		}
		m := map[string]*Atom{}
		for _, a := range tc.Atoms {
			m[a.Go] = a
		}
		t.clauseAtoms = append(t.clauseAtoms, m)
		b.WriteString(ind + "| " + tc.Pattern + " =>\n")
		b.WriteString(t.block(cc.Body, e.clone(), ind+"    ", k))
		b.WriteString("\n")
		t.clauseAtoms = t.clauseAtoms[:len(t.clauseAtoms)-1]
	}
	b.WriteString(ind + "| _ =>\n")
	if hasDef {
		b.WriteString(t.block(def, e.clone(), ind+"    ", k))
	} else {
		b.WriteString(k(e, ind+"    "))
	}
	b.WriteString("\n" + ind + "end")
	return b.String()
}

// lexical makes a continuation run with the break/continue handlers that are in force where it is created
// (the statements after a switch or loop are outside it).
func (t *T) lexical(k K) K {
	brk, cont := append([]K{}, t.brk...), append([]K{}, t.cont...)
	return func(e *env, ind string) string {
		sb, sc := t.brk, t.cont
		t.brk, t.cont = brk, cont
		defer func() { t.brk, t.cont = sb, sc }()
		return k(e, ind)
	}
}

// ---------------------------------------------------------------- loops

// assignedIn: Go variables and canonical lvalue texts assigned in the statements.
func (t *T) assignedIn(n ast.Node) (map[types.Object]bool, []string) {
	objs := map[types.Object]bool{}
	var texts []string
	note := func(x ast.Expr) {
		x = unparen(x)
		if id, ok := x.(*ast.Ident); ok {
			if o := t.p.Info.Uses[id]; o != nil {
				objs[o] = true
			}
			if o := t.p.Info.Defs[id]; o != nil {
				objs[o] = true
			}
		}
		texts = append(texts, canon(x))
	}
	ast.Inspect(n, func(m ast.Node) bool {
		switch s := m.(type) {
		case *ast.AssignStmt:
			for _, l := range s.Lhs {
				note(l)
			}
		case *ast.IncDecStmt:
			note(s.X)
		}
		return true
	})
	return objs, texts
}

// loopDef emits the Fixpoint of a loop and returns the call to it.
// structParam/structType: the structural argument; first: extra leading formals (loop variable); body/after build the arms.
func (t *T) loopDef(e *env, ind string, k K, structArg, structType, zeroPat, succPat, structNext string,
	extra []Param, extraArgs []string, extraNext func(e *env) []string, bind func(e *env),
	body func(e *env, ind string, again K) string) string {
	if t.loopDepth > 0 {
		t.stopf(nil, "a loop inside the body of a translated loop is outside the supported subset")
	}
	t.nloops++
	k = t.lexical(k)
	name := fmt.Sprintf("%s_loop%d", t.tg.Name, t.nloops)
	// formals: signature slots under their base names, the action accumulator, then the set locals
	inner := e.clone()
	var formals []Param
	var args []string
	formals = append(formals, Param{structArg, structType})
	formals = append(formals, extra...)
	type carried struct {
		s   slot
		gty string
	}
	var car []carried
	for _, s := range t.sig {
		formals = append(formals, Param{s.name, s.gty})
		switch s.kind {
		case 0:
			args = append(args, e.st[s.idx])
			inner.st[s.idx] = s.name
			car = append(car, carried{slot{kind: 1, idx: s.idx}, s.gty})
		case 1:
			b := e.vars[s.obj]
			args = append(args, b.name)
			inner.vars[s.obj].name = s.name
			car = append(car, carried{slot{kind: 0, obj: s.obj}, s.gty})
		default:
			args = append(args, s.name)
			car = append(car, carried{slot{kind: 3}, s.gty})
		}
	}
	if e.acts != "" {
		if t.used["acts"] == 0 {
			t.used["acts"] = 1
		}
		formals = append(formals, Param{"acts", "list " + t.tg.ActionType})
		args = append(args, e.acts)
		inner.acts = "acts"
		car = append(car, carried{slot{kind: 2}, ""})
	}
	isSig := map[types.Object]bool{}
	for _, s := range t.sig {
		if s.kind == 1 {
			isSig[s.obj] = true
		}
	}
	for _, o := range e.vorder {
		b := e.vars[o]
		if isSig[o] || !b.set {
			continue
		}
		if b.gty == "" {
			t.stopf(nil, "loop: local %s has no known Gallina type to carry it through the loop", o.Name())
		}
		fn := t.fresh("c_" + o.Name())
		formals = append(formals, Param{fn, b.gty})
		args = append(args, b.name)
		inner.vars[o].name = fn
		car = append(car, carried{slot{kind: 0, obj: o}, b.gty})
	}
	outer := inner.clone() // what follows the loop does not see the loop's own variables
	bind(inner)
	// the recursive call at `continue` / end of body
	again := func(e2 *env, ind2 string) string {
		parts := []string{name, structNext}
		parts = append(parts, extraNext(e2)...)
		i := 0
		for _, s := range t.sig {
			switch s.kind {
			case 0:
				parts = append(parts, e2.st[s.idx])
			case 1:
				parts = append(parts, e2.vars[s.obj].name)
			default:
				parts = append(parts, s.name)
			}
			i++
		}
		if e.acts != "" {
			parts = append(parts, e2.acts)
		}
		for _, o := range e.vorder {
			b := e.vars[o]
			if isSig[o] || !b.set {
				continue
			}
			parts = append(parts, e2.vars[o].name)
		}
		return ind2 + strings.Join(parts, " ")
	}
	t.brk = append(t.brk, k)
	t.cont = append(t.cont, again)
	after := k(outer, "      ")
	t.loopDepth++
	bodyText := body(inner.clone(), "      ", again)
	t.loopDepth--
	t.brk = t.brk[:len(t.brk)-1]
	t.cont = t.cont[:len(t.cont)-1]
	text := "  match " + structArg + " with\n  | " + zeroPat + " =>\n" + after + "\n  | " + succPat + " =>\n" + bodyText + "\n  end"
	t.aux = append(t.aux, &Def{Name: name, Fix: true, Struct: structArg, Params: formals, RetType: t.retType, Body: text,
		Comment: "loop of " + t.tg.File + ": " + t.tg.Func})
	call := []string{name}
	call = append(call, extraArgs...)
	call = append(call, args...)
	return ind + strings.Join(call, " ")
}

// for i := lo; i < hi; i++ { body }   (also: for i := lo; i == lo || i < hi; i++, whose first iteration always runs)
// with hi loop-invariant and i not assigned in the body: recursion on fuel = hi - lo (resp. max 1 (hi - lo)).
func (t *T) forStmt(x *ast.ForStmt, e *env, ind string, k K) string {
	const shape = "for loop: only `for i := lo; i < hi; i++`, `for i := lo; i <= hi; i++` and `for i := lo; i == lo || i < hi; i++` are supported"
	init, ok := x.Init.(*ast.AssignStmt)
	if !ok || init.Tok != token.DEFINE || len(init.Lhs) != 1 || len(init.Rhs) != 1 || x.Cond == nil {
		t.stopf(x, shape)
	}
	iv, ok := init.Lhs[0].(*ast.Ident)
	post, ok3 := x.Post.(*ast.IncDecStmt)
	if !ok || !ok3 || post.Tok != token.INC {
		t.stopf(x, shape)
	}
	iobj := t.p.Info.Defs[iv]
	isVar := func(y ast.Expr) bool {
		id, ok := unparen(y).(*ast.Ident)
		return ok && t.p.Info.Uses[id] == iobj
	}
	if !isVar(post.X) {
		t.stopf(x, shape)
	}
	cond, ok := unparen(x.Cond).(*ast.BinaryExpr)
	if !ok {
		t.stopf(x, shape)
	}
	atLeastOnce := false
	if cond.Op == token.LOR {
		first, ok1 := unparen(cond.X).(*ast.BinaryExpr)
		rest, ok2 := unparen(cond.Y).(*ast.BinaryExpr)
		if !ok1 || !ok2 || first.Op != token.EQL || !isVar(first.X) || canon(first.Y) != canon(init.Rhs[0]) {
			t.stopf(x, shape)
		}
		if _, _, isConst := t.constOf(init.Rhs[0]); !isConst {
			t.stopf(x, shape)
		}
		atLeastOnce = true
		cond = rest
	}
	if (cond.Op != token.LSS && cond.Op != token.LEQ) || !isVar(cond.X) || (cond.Op == token.LEQ && atLeastOnce) {
		t.stopf(x, shape)
	}
	lo, g1 := t.expr(init.Rhs[0], e)
	hi, g2 := t.expr(cond.Y, e)
	if g1 != "Z" || g2 != "Z" {
		t.stopf(x, "for loop: non-integer bounds")
	}
	t.checkInvariant(x, x.Body, iobj, cond.Y)
	n := "(" + hi + " - " + lo + ")"
	if cond.Op == token.LEQ {
		// i <= hi: one more pass (hi + 1 cannot overflow in Z; Go's i++ past MaxInt is not modelled)
		n = "(" + hi + " - " + lo + " + 1)"
	}
	if atLeastOnce {
		n = "(Z.max 1 " + n + ")"
	}
	return t.counterLoop(x.Body.List, iobj, lo, "(Z.to_nat "+n+")", e, ind, k)
}

func (t *T) checkInvariant(at ast.Node, body ast.Node, iobj types.Object, bound ast.Expr) {
	objs, texts := t.assignedIn(body)
	if iobj != nil && objs[iobj] {
		t.stopf(at, "for loop: the body assigns the loop variable")
	}
	if bound == nil {
		return
	}
	bt := canon(bound)
	ast.Inspect(bound, func(n ast.Node) bool {
		if id, ok := n.(*ast.Ident); ok {
			if o := t.p.Info.Uses[id]; o != nil && objs[o] {
				t.stopf(at, "for loop: the bound %q mentions %s, which the body assigns", bt, id.Name)
			}
		}
		return true
	})
	for _, s := range texts {
		if strings.Contains(bt, s) && strings.ContainsAny(s, ".[") {
			t.stopf(at, "for loop: the bound %q mentions %q, which the body assigns", bt, s)
		}
	}
}

func (t *T) counterLoop(body []ast.Stmt, iobj types.Object, lo, fuel string, e *env, ind string, k K) string {
	iname := t.fresh("c_" + iobj.Name())
	return t.loopDef(e, ind, k, "fuel", "nat", "O", "S fuel'", "fuel'",
		[]Param{{iname, "Z"}}, []string{fuel, lo},
		func(e2 *env) []string { return []string{"(" + iname + " + 1)"} },
		func(inner *env) { inner.declare(iobj, &binding{name: iname, gty: "Z", set: true}) },
		func(inner *env, ind2 string, again K) string { return t.block(body, inner, ind2, again) })
}

// for _, v := range <list>   /   for i := range <fixed-size array>
func (t *T) rangeStmt(x *ast.RangeStmt, e *env, ind string, k K) string {
	if x.Tok != token.DEFINE {
		t.stopf(x, "range loop without := ")
	}
	if arr, ok := t.p.Info.TypeOf(x.X).Underlying().(*types.Array); ok && x.Value == nil && x.Key != nil {
		kid := x.Key.(*ast.Ident)
		t.checkInvariant(x, x.Body, t.p.Info.Defs[kid], nil)
		return t.counterLoop(x.Body.List, t.p.Info.Defs[kid], "0", fmt.Sprintf("%d%%nat", arr.Len()), e, ind, k)
	}
	lt, lg := t.expr(x.X, e)
	_, goMap := t.p.Info.TypeOf(x.X).Underlying().(*types.Map)
	if m := t.maps[lg]; m != nil || (goMap && strings.HasPrefix(lg, "list (") && x.Key != nil && !isBlank(x.Key)) {
		// range over a map: a snapshot list of (key, value) pairs
		elem := strings.TrimSuffix(strings.TrimPrefix(lg, "list ("), ")")
		kty, vty := "", ""
		if m != nil {
			ev := m.Elem
			if strings.ContainsAny(ev, " ") {
				ev = "(" + ev + ")"
			}
			lt, elem, kty, vty = "("+m.Items+" "+lt+")", m.Key+" * "+ev, m.Key, m.Elem
		} else {
			parts := strings.SplitN(elem, " * ", 2)
			if len(parts) != 2 {
				t.stopf(x, "range over a map modelled as %q: need a list of pairs", lg)
			}
			kty, vty = parts[0], parts[1]
		}
		it := t.fresh("it")
		lname := t.fresh("l")
		return t.loopDef(e, ind, k, lname, "list ("+elem+")", "[]", it+" :: "+lname+"'", lname+"'",
			nil, []string{lt},
			func(e2 *env) []string { return nil },
			func(inner *env) {
				if x.Key != nil && !isBlank(x.Key) {
					inner.declare(t.p.Info.Defs[x.Key.(*ast.Ident)], &binding{name: "(fst " + it + ")", gty: kty, set: true})
				}
				if x.Value != nil && !isBlank(x.Value) {
					inner.declare(t.p.Info.Defs[x.Value.(*ast.Ident)], &binding{name: "(snd " + it + ")", gty: vty, set: true})
				}
			},
			func(inner *env, ind2 string, again K) string { return t.block(x.Body.List, inner, ind2, again) })
	}
	if !strings.HasPrefix(lg, "list ") {
		t.stopf(x, "range over %q of Gallina type %q (need a list)", canon(x.X), lg)
	}
	elem := strings.TrimPrefix(lg, "list ")
	if strings.HasPrefix(elem, "(") && strings.HasSuffix(elem, ")") {
		elem = elem[1 : len(elem)-1]
	}
	// (the ranged expression is evaluated once: the body may assign it)
	var vobj types.Object
	vname := "_"
	if x.Value != nil && !isBlank(x.Value) {
		vobj = t.p.Info.Defs[x.Value.(*ast.Ident)]
		vname = t.fresh("v_" + vobj.Name())
	}
	lname := t.fresh("l")
	var kobj types.Object
	var extra []Param
	extraArgs := []string{lt}
	kname := ""
	if x.Key != nil && !isBlank(x.Key) {
		// index variable: a counter carried beside the list
		kobj = t.p.Info.Defs[x.Key.(*ast.Ident)]
		t.checkInvariant(x, x.Body, kobj, nil)
		kname = t.fresh("c_" + kobj.Name())
		extra = []Param{{kname, "Z"}}
		extraArgs = []string{lt, "0"}
	}
	return t.loopDef(e, ind, k, lname, "list ("+elem+")", "[]", vname+" :: "+lname+"'", lname+"'",
		extra, extraArgs,
		func(e2 *env) []string {
			if kobj != nil {
				return []string{"(" + kname + " + 1)"}
			}
			return nil
		},
		func(inner *env) {
			if kobj != nil {
				inner.declare(kobj, &binding{name: kname, gty: "Z", set: true})
			}
			if vobj != nil {
				inner.declare(vobj, &binding{name: vname, gty: elem, set: true})
			}
		},
		func(inner *env, ind2 string, again K) string { return t.block(x.Body.List, inner, ind2, again) })
}
