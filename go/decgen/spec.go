package main

import (
	"encoding/json"
	"fmt"
	"os"
)

// Spec is one group of targets (specs/<Group>.json); it produces Dec<Group>.v.
type Spec struct {
	Group string `json:"group"`
	Doc   string `json:"doc"`
	// PkgDir: directory of the Go package relative to the repository root ("" = package sarama; "mocks").
	PkgDir string `json:"pkgdir"`
	// Imports: extra `From SV Require Import …` modules of the generated file (e.g. "Gen.DecTypes2").
	Imports []string  `json:"imports"`
	Targets []*Target `json:"targets"`
}

// Target is one Go function (or a statement slice of it) translated to one Gallina definition.
type Target struct {
	Name string `json:"name"` // Gallina name
	File string `json:"file"` // Go file, relative to the repository root
	Func string `json:"func"` // "Type.method" or "function"
	Doc  string `json:"doc"`

	Slice *Slice `json:"slice"` // translate only these statements
	// Closure: translate the n-th function literal (source order, 0-based) of the function instead of the function.
	Closure *int `json:"closure"`

	// IdealInt: + - * on Go's platform `int` are emitted without wrap64 (assumption: no overflow of int in
	// this function; recorded in the generated header and in the evidence).
	IdealInt bool `json:"ideal_int"`

	Rename map[string]string `json:"rename"` // Go parameter name -> Gallina name
	State  []*StateVar       `json:"state"`  // readable and writable places; returned (in this order)
	Stream []*StreamVar      `json:"streams"`
	Params []*Param          `json:"params"` // extra Gallina parameters that atom terms mention
	Atoms  []*Atom           `json:"atoms"`
	// TrustLocals: locals that atoms may mention although they are written more than once (e.g. filled in
	// through a pointer by a decode call); the spec author vouches that every atom mentioning them is read
	// after the last write.
	TrustLocals []string    `json:"trust_locals"`
	Ignore      []string    `json:"ignore"` // callee texts of calls without modelled effect (locks, logging, metrics)
	Calls       []*CallSpec `json:"calls"`
	Emits       []*Emit     `json:"emits"`
	// AssignEmits: assignments whose left-hand side (canonical text) is listed become actions:
	// $0 = the translated right-hand side, $k = the translated index when the place is an index expression.
	AssignEmits []*Emit `json:"assign_emits"`
	// Maps: Gallina map types whose places may be indexed, stored into, deleted from and ranged over.
	Maps []*MapSpec `json:"maps"`
	// ActionType: Gallina type of the emitted actions (required when Emits is not empty).
	ActionType string `json:"action_type"`
	// TypeSwitch: how `switch x := e.(type)` cases map to constructors of e's Gallina type.
	TypeSwitch []*TypeCase `json:"typeswitch"`
	// Nil: Gallina term for `nil` by Go type text (default: error -> ENil, other -> None).
	Nil map[string]string `json:"nil"`
	// ResultTypes: Gallina types of the Go results that cannot be derived from the Go type.
	ResultTypes map[string]string `json:"result_types"` // by result index ("0", "1", …)
}

// Slice selects a run of sibling statements of the function body.
type Slice struct {
	First      string `json:"first"`      // statement head, e.g. "switch err", "if a > b", "x := 1", "for range xs"
	Last       string `json:"last"`       // optional: head of the last statement (a later sibling); default = First only
	Occurrence int    `json:"occurrence"` // which match of First in source order (0-based)
	// Inputs: Go locals declared before the slice that it reads (become parameters, in this order).
	Inputs []string `json:"inputs"`
	// Results: Go locals whose value at the exit is returned (zero value when not yet declared).
	Results []string `json:"results"`
}

type StateVar struct {
	Go   string `json:"go"`   // canonical text of the lvalue (selector chain or local identifier)
	Name string `json:"name"` // Gallina name
	Type string `json:"type"` // Gallina type
}

type StreamVar struct {
	Call    string `json:"call"`    // callee text, e.g. "fn" or "pd.getInt32"
	Name    string `json:"name"`    // Gallina name of the script (a list)
	Elem    string `json:"elem"`    // Gallina type of one element
	Default string `json:"default"` // element when the script is exhausted
	// Results: Gallina types of the Go results, read off one element x: arity 1 -> x; arity 2 -> fst x, snd x.
	Results []string `json:"results"`
}

type Param struct {
	Name string `json:"name"`
	Type string `json:"type"`
}

// Atom maps the canonical text of a Go expression to a Gallina term.
type Atom struct {
	Go     string   `json:"go"`
	Prefix bool     `json:"prefix"` // match every expression whose canonical text starts with Go
	Term   string   `json:"term"`
	Type   string   `json:"type"`
	Terms  []string `json:"terms"` // multi-valued (call with several results, comma-ok forms)
	Types  []string `json:"types"`
}

// CallSpec maps calls by callee text; $0,$1,… are the translated arguments, $recv is not available.
type CallSpec struct {
	Go string `json:"go"`
	// Emit: the call also appends this action ($i = arguments); such a call may only be a statement or the whole
	// right-hand side of an assignment.
	Emit  string   `json:"emit"`
	Term  string   `json:"term"`
	Type  string   `json:"type"`
	Terms []string `json:"terms"`
	Types []string `json:"types"`
	// Sets: the call also assigns state places (canonical lvalue text -> term over $i and ${place}, all read
	// BEFORE the call); such a call may only be the whole right-hand side of an assignment or the operand of
	// `return f(…)`.  Used for callees that are themselves targets threading the same state (rd.off).
	Sets map[string]string `json:"sets"`
}

// Emit maps a call statement (by callee text) or a channel send (Go = "<chan text> <-") to an action.
// MapSpec describes a Gallina type modelling a Go map (functions of coq/Gen/DecTypes2.v).
type MapSpec struct {
	Type    string `json:"type"`     // Gallina type of the map, e.g. "smap Z"
	Key     string `json:"key"`      // Gallina type of keys
	Elem    string `json:"elem"`     // Gallina type of stored values
	Get     string `json:"get"`      // m[k]        ↦ (Get m k) : GetType
	GetType string `json:"get_type"` // e.g. "Z" (zero default) or "option string" (pointer-valued map)
	Has     string `json:"has"`      // _, ok := m[k] ↦ (Has m k) : bool
	Set     string `json:"set"`      // m[k] = v    ↦ (Set m k v)
	Del     string `json:"del"`      // delete(m,k) ↦ (Del m k)
	Items   string `json:"items"`    // range m     ↦ over (Items m) : list (Key * Elem)
}

type Emit struct {
	Go   string `json:"go"`
	Term string `json:"term"` // $0,$1,… = translated arguments (for a send: $0 = the value)
}

type TypeCase struct {
	Type    string  `json:"type"`    // canonical Go type text of the case, e.g. "*TopicError"
	Pattern string  `json:"pattern"` // Gallina pattern, e.g. "ETopicError k"
	Atoms   []*Atom `json:"atoms"`   // atoms valid inside the clause (mention the bound symbol)
}

func loadSpec(path string) (*Spec, error) {
	b, err := os.ReadFile(path)
	if err != nil {
		return nil, err
	}
	var s Spec
	dec := json.NewDecoder(bytesReader(b))
	dec.DisallowUnknownFields()
	if err := dec.Decode(&s); err != nil {
		return nil, fmt.Errorf("%s: %v", path, err)
	}
	if s.Group == "" {
		return nil, fmt.Errorf("%s: no group", path)
	}
	seen := map[string]bool{}
	for _, t := range s.Targets {
		if t.Name == "" || t.File == "" || t.Func == "" {
			return nil, fmt.Errorf("%s: target needs name, file, func", path)
		}
		if seen[t.Name] {
			return nil, fmt.Errorf("%s: duplicate target name %s", path, t.Name)
		}
		seen[t.Name] = true
		hasEmit := len(t.Emits) > 0 || len(t.AssignEmits) > 0
		for _, c := range t.Calls {
			hasEmit = hasEmit || c.Emit != ""
		}
		if hasEmit && t.ActionType == "" {
			return nil, fmt.Errorf("%s: target %s has emits but no action_type", path, t.Name)
		}
	}
	return &s, nil
}
