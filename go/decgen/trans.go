package main

import (
	"fmt"
	"go/ast"
	"go/token"
	"go/types"
	"sort"
	"strings"
)

// stop is a broken tie: the source is outside what the spec and the subset cover.
type stop struct {
	pos token.Position
	msg string
}

func (s *stop) Error() string {
	return fmt.Sprintf("%s:%d: %s", s.pos.Filename, s.pos.Line, s.msg)
}

func (t *T) stopf(at ast.Node, format string, a ...interface{}) {
	pos := t.p.Fset.Position(t.fd.Pos())
	if at != nil {
		pos = t.p.Fset.Position(at.Pos())
	}
	if rel := strings.TrimPrefix(pos.Filename, t.p.Repo+"/"); rel != pos.Filename {
		pos.Filename = rel
	}
	panic(&stop{pos, fmt.Sprintf("[%s] ", t.tg.Name) + fmt.Sprintf(format, a...)})
}

type binding struct {
	name string
	gty  string
	set  bool
}

type env struct {
	vars   map[types.Object]*binding
	vorder []types.Object
	st     []string // current names of the state variables (state, then streams)
	acts   string   // current name of the action accumulator ("" if the target emits nothing)
}

func (e *env) clone() *env {
	c := &env{vars: make(map[types.Object]*binding, len(e.vars)), vorder: append([]types.Object{}, e.vorder...),
		st: append([]string{}, e.st...), acts: e.acts}
	for k, v := range e.vars {
		b := *v
		c.vars[k] = &b
	}
	return c
}

func (e *env) declare(o types.Object, b *binding) {
	if _, ok := e.vars[o]; !ok {
		e.vorder = append(e.vorder, o)
	}
	e.vars[o] = b
}

// K is a continuation: the translation of "what happens next" in the given environment, at the given indent.
type K func(e *env, ind string) string

type sigSlot struct {
	name, gty string
	kind      int // 0 state/stream (idx), 1 Go variable (obj), 2 spec parameter
	idx       int
	obj       types.Object
}

// Def is one generated top-level definition.
type Def struct {
	Name    string
	Fix     bool     // Fixpoint (a loop) or Definition
	Struct  string   // name of the structural argument of a Fixpoint
	Params  []Param  // formal parameters in order
	RetType string   // Gallina result type
	Body    string   // indented term
	Comment string   // source reference
	Callees []string // loop fixpoints this definition calls
}

// T translates one target.
type T struct {
	p  *Pkg
	sp *Spec
	tg *Target
	fd *ast.FuncDecl

	atoms       map[string]*Atom
	prefixAtoms []*Atom
	clauseAtoms []map[string]*Atom
	calls       map[string]*CallSpec
	emits       map[string]*Emit
	ignore      map[string]bool
	stIndex     map[string]int
	streamIdx   map[string]int
	stTypes     []string
	stNames     []string
	assignCount map[types.Object]int

	used map[string]int
	aux  []*Def
	sig  []*sigSlot

	retType    string
	goResTypes []types.Type
	goResG     []string
	namedRes   []types.Object
	slice      bool
	sliceOuts  []types.Object
	sliceOutG  []string

	brk, cont  []K
	nloops     int
	trustLocal map[string]bool
	loopDepth  int

	fnType      *ast.FuncType  // signature the translated statements return to (function, closure, or closure around a slice)
	fnBody      *ast.BlockStmt // body in which statements / slices are looked up
	fnRecv      *ast.FieldList
	assignEmits map[string]*Emit
	maps        map[string]*MapSpec
	hoisted     map[ast.Expr][2]string // oracle calls inside a condition, already bound to a name
	allowSets   bool                   // a call with `sets` is being translated as a whole right-hand side / return operand
	allowEmit   bool                   // a call with an `emit` is being translated as a whole right-hand side
}

// globalIgnore: call statements ignored in every target.  verifPoint(kind, args...) is the observation hook of
// the verification harness: a no-op unless built with -tags verif, it never affects control flow or state.
var globalIgnore = []string{"verifPoint"}

var reservedNames = map[string]bool{}

func init() {
	for _, s := range strings.Fields(`as at cofix else end exists exists2 fix for forall fun if IF in let match mod return Set Prop
		Type then using where with SProp O S nil cons fst snd pair length app negb andb orb true false None Some tt unit bool nat Z list
		option string wrap8 wrap16 wrap32 wrap64 uwrap8 uwrap16 uwrap32 uwrap64 optz is_some zlen zstrlen zidx pop go_andnot
		is_nil_list gerr_eqb err_is fuel`) {
		reservedNames[s] = true
	}
}

func sanitize(s string) string {
	var b strings.Builder
	for i, r := range s {
		switch {
		case r >= 'a' && r <= 'z', r >= 'A' && r <= 'Z', r == '_', i > 0 && r >= '0' && r <= '9':
			b.WriteRune(r)
		default:
			b.WriteByte('_')
		}
	}
	return b.String()
}

// fresh returns base, or base_1, base_2 … when base is taken.
func (t *T) fresh(base string) string {
	base = sanitize(base)
	if reservedNames[base] {
		base = base + "_"
	}
	n := t.used[base]
	t.used[base] = n + 1
	if n == 0 {
		return base
	}
	cand := fmt.Sprintf("%s_%d", base, n)
	if t.used[cand] > 0 {
		return t.fresh(cand)
	}
	t.used[cand] = 1
	return cand
}

func tuple(parts []string) string {
	switch len(parts) {
	case 0:
		return "tt"
	case 1:
		return parts[0]
	}
	return "(" + strings.Join(parts, ", ") + ")"
}

func tupleType(parts []string) string {
	switch len(parts) {
	case 0:
		return "unit"
	case 1:
		return parts[0]
	}
	for i, p := range parts {
		if strings.ContainsAny(p, " *") && !strings.HasPrefix(p, "(") {
			parts[i] = "(" + p + ")"
		}
	}
	return strings.Join(parts, " * ")
}

func pattern(names []string) string {
	if len(names) == 1 {
		return names[0]
	}
	return "'(" + strings.Join(names, ", ") + ")"
}

// ---------------------------------------------------------------- set-up

func newT(p *Pkg, sp *Spec, tg *Target) (*T, error) {
	fd, err := p.findFunc(tg.File, tg.Func)
	if err != nil {
		return nil, err
	}
	t := &T{p: p, sp: sp, tg: tg, fd: fd,
		atoms: map[string]*Atom{}, calls: map[string]*CallSpec{}, emits: map[string]*Emit{}, ignore: map[string]bool{},
		stIndex: map[string]int{}, streamIdx: map[string]int{}, assignCount: map[types.Object]int{}, used: map[string]int{}}
	return t, nil
}

func (t *T) countAssignments() {
	bump := func(x ast.Expr) {
		if id, ok := unparen(x).(*ast.Ident); ok {
			if o := t.p.Info.Defs[id]; o != nil {
				t.assignCount[o]++
			} else if o := t.p.Info.Uses[id]; o != nil {
				t.assignCount[o]++
			}
		}
	}
	ast.Inspect(t.fd.Body, func(n ast.Node) bool {
		switch s := n.(type) {
		case *ast.AssignStmt:
			for _, l := range s.Lhs {
				bump(l)
			}
		case *ast.IncDecStmt:
			bump(s.X)
		case *ast.RangeStmt:
			if s.Key != nil {
				bump(s.Key)
			}
			if s.Value != nil {
				bump(s.Value)
			}
		case *ast.ValueSpec:
			for _, id := range s.Names {
				bump(id)
			}
		case *ast.UnaryExpr:
			if s.Op == token.AND { // address taken: treat as written elsewhere
				bump(s.X)
				bump(s.X)
			}
		}
		return true
	})
}

// translate produces the definitions of the target (loop fixpoints first, the main definition last).
func (t *T) translate() (defs []*Def, err error) {
	defer func() {
		if r := recover(); r != nil {
			if s, ok := r.(*stop); ok {
				err = s
				return
			}
			panic(r)
		}
	}()
	if errs := t.p.typeErrorsIn(t.fd); len(errs) > 0 {
		t.stopf(t.fd, "the function does not type-check: %s", errs[0].Msg)
	}
	if t.fd.Body == nil {
		t.stopf(t.fd, "function without body")
	}
	tg := t.tg
	t.fnType, t.fnBody, t.fnRecv = t.fd.Type, t.fd.Body, t.fd.Recv
	if tg.Closure != nil {
		var lits []*ast.FuncLit
		ast.Inspect(t.fd.Body, func(n ast.Node) bool {
			if fl, ok := n.(*ast.FuncLit); ok {
				lits = append(lits, fl)
			}
			return true
		})
		if *tg.Closure < 0 || *tg.Closure >= len(lits) {
			t.stopf(t.fd, "closure %d: the function has %d function literals", *tg.Closure, len(lits))
		}
		fl := lits[*tg.Closure]
		t.fnType, t.fnBody, t.fnRecv = fl.Type, fl.Body, nil
	}
	t.assignEmits, t.maps, t.hoisted = map[string]*Emit{}, map[string]*MapSpec{}, map[ast.Expr][2]string{}
	for _, m := range tg.AssignEmits {
		t.assignEmits[m.Go] = m
	}
	for _, m := range tg.Maps {
		t.maps[m.Type] = m
	}
	for _, a := range tg.Atoms {
		if a.Prefix {
			t.prefixAtoms = append(t.prefixAtoms, a)
		} else {
			t.atoms[a.Go] = a
		}
	}
	for _, c := range tg.Calls {
		t.calls[c.Go] = c
	}
	for _, m := range tg.Emits {
		t.emits[m.Go] = m
	}
	for _, s := range tg.Ignore {
		t.ignore[s] = true
	}
	for _, s := range globalIgnore {
		t.ignore[s] = true
	}
	t.countAssignments()
	t.trustLocal = map[string]bool{}
	for _, n := range tg.TrustLocals {
		t.trustLocal[n] = true
	}

	e := &env{vars: map[types.Object]*binding{}}
	claim := func(name string) {
		if t.used[name] > 0 || reservedNames[name] {
			t.stopf(t.fd, "spec: Gallina name %q is used twice or reserved", name)
		}
		t.used[name] = 1
	}
	// state and streams
	for _, s := range tg.State {
		claim(s.Name)
		t.stIndex[s.Go] = len(t.stNames)
		t.stNames = append(t.stNames, s.Name)
		t.stTypes = append(t.stTypes, s.Type)
		t.sig = append(t.sig, &sigSlot{name: s.Name, gty: s.Type, kind: 0, idx: len(t.stNames) - 1})
	}
	for _, s := range tg.Stream {
		claim(s.Name)
		t.streamIdx[s.Call] = len(t.stNames)
		t.stNames = append(t.stNames, s.Name)
		lt := "list " + s.Elem
		if strings.ContainsAny(s.Elem, " ") {
			lt = "list (" + s.Elem + ")"
		}
		t.stTypes = append(t.stTypes, lt)
		t.sig = append(t.sig, &sigSlot{name: s.Name, gty: lt, kind: 0, idx: len(t.stNames) - 1})
	}
	e.st = append([]string{}, t.stNames...)
	if tg.ActionType != "" {
		e.acts = "[]"
	}

	// which statements
	stmts := t.fnBody.List
	var sliceStart, sliceEnd token.Pos
	if tg.Slice != nil {
		t.slice = true
		stmts = t.findSlice()
		sliceStart, sliceEnd = stmts[0].Pos(), stmts[len(stmts)-1].End()
	}

	// Go results
	if t.fnType.Results != nil {
		idx := 0
		for _, f := range t.fnType.Results.List {
			n := len(f.Names)
			if n == 0 {
				n = 1
			}
			for i := 0; i < n; i++ {
				gt := t.p.Info.TypeOf(f.Type)
				g, ok := tg.ResultTypes[fmt.Sprint(idx)]
				if !ok {
					g, ok = gtype(gt)
				}
				if !ok && t.slice {
					g, ok = "?", true // only needed when the slice contains a return
				}
				if !ok {
					t.stopf(f, "result %d has Go type %v: give its Gallina type in result_types", idx, gt)
				}
				t.goResTypes = append(t.goResTypes, gt)
				t.goResG = append(t.goResG, g)
				if len(f.Names) > 0 {
					t.namedRes = append(t.namedRes, t.p.Info.Defs[f.Names[i]])
				}
				idx++
			}
		}
	}

	// Go parameters (whole function: all with a known Gallina type; slice: the listed inputs)
	addVar := func(o types.Object, goName string, at ast.Node) {
		g, ok := gtype(o.Type())
		if !ok {
			return
		}
		name := goName
		if r, ok := tg.Rename[goName]; ok {
			name = r
		}
		name = sanitize(name)
		if reservedNames[name] {
			name += "_"
		}
		if t.used[name] > 0 {
			t.stopf(at, "Go variable %s collides with another Gallina name: give it a new one in \"rename\"", goName)
		}
		t.used[name] = 1
		e.declare(o, &binding{name: name, gty: g, set: true})
		t.sig = append(t.sig, &sigSlot{name: name, gty: g, kind: 1, obj: o})
	}
	if !t.slice {
		if t.fnRecv != nil && len(t.fnRecv.List) == 1 && len(t.fnRecv.List[0].Names) == 1 {
			id := t.fnRecv.List[0].Names[0]
			if _, isState := t.stIndex[id.Name]; !isState && id.Name != "_" {
				if _, isAtom := t.atoms[id.Name]; !isAtom {
					addVar(t.p.Info.Defs[id], id.Name, id)
				}
			}
		}
		for _, f := range t.fnType.Params.List {
			for _, id := range f.Names {
				if id.Name == "_" {
					continue
				}
				o := t.p.Info.Defs[id]
				if _, isState := t.stIndex[id.Name]; isState {
					continue
				}
				addVar(o, id.Name, id)
			}
		}
		for i, o := range t.namedRes {
			z, ok := zeroOf(t.goResG[i])
			if !ok {
				e.declare(o, &binding{gty: t.goResG[i]})
				continue
			}
			e.declare(o, &binding{name: z, gty: t.goResG[i], set: true})
		}
	} else {
		free := t.freeLocals(stmts, sliceStart, sliceEnd)
		for _, in := range tg.Slice.Inputs {
			o := free[in]
			if o == nil {
				t.stopf(stmts[0], "slice input %q is not a local read in the slice and declared before it", in)
			}
			if _, ok := gtype(o.Type()); !ok {
				t.stopf(stmts[0], "slice input %q has Go type %v without Gallina counterpart (use atoms)", in, o.Type())
			}
			addVar(o, in, stmts[0])
		}
		// named results are visible in a slice only through state / inputs
	}
	for _, p := range tg.Params {
		claim(p.Name)
		t.sig = append(t.sig, &sigSlot{name: p.Name, gty: p.Type, kind: 2})
	}

	// result type
	var parts []string
	parts = append(parts, t.stTypes...)
	if e.acts != "" {
		parts = append(parts, "list "+tg.ActionType)
	}
	if !t.slice {
		parts = append(parts, t.goResG...)
	} else {
		for _, r := range tg.Slice.Results {
			o := t.localByName(stmts, r, sliceStart)
			if o == nil {
				t.stopf(stmts[0], "slice result %q is not a local of the function visible in the slice", r)
			}
			g, ok := gtype(o.Type())
			if !ok {
				t.stopf(stmts[0], "slice result %q has Go type %v without Gallina counterpart", r, o.Type())
			}
			t.sliceOuts = append(t.sliceOuts, o)
			t.sliceOutG = append(t.sliceOutG, g)
			parts = append(parts, g)
		}
		parts = append(parts, "exit ("+t.exitPayloadType()+")")
	}
	t.retType = tupleType(parts)

	// base handlers for break / continue
	if t.slice {
		t.brk = []K{func(e *env, ind string) string { return ind + t.result(nil, e, "ExBreak") }}
		t.cont = []K{func(e *env, ind string) string { return ind + t.result(nil, e, "ExContinue") }}
	}

	body := t.block(stmts, e, "  ", func(e *env, ind string) string {
		if t.slice {
			return ind + t.result(nil, e, "ExFall")
		}
		if len(t.goResG) > 0 && len(t.namedRes) == 0 {
			t.stopf(t.fd, "control reaches the end of a function with results")
		}
		return ind + t.returnNamed(nil, e)
	})

	main := &Def{Name: tg.Name, RetType: t.retType, Body: body}
	for _, s := range t.sig {
		main.Params = append(main.Params, Param{s.name, s.gty})
	}
	for _, a := range t.aux {
		main.Callees = append(main.Callees, a.Name)
	}
	main.Comment = tg.File + ": " + tg.Func
	if tg.Slice != nil {
		main.Comment += " [slice: " + tg.Slice.First
		if tg.Slice.Last != "" {
			main.Comment += " … " + tg.Slice.Last
		}
		main.Comment += "]"
	}
	if tg.IdealInt {
		main.Comment += "  (assumes: arithmetic on Go `int` does not overflow)"
	}
	return append(t.aux, main), nil
}

// result builds the value of the definition at an exit point.
// rets: translated Go results (whole function) or the ExReturn payload (slice); exit: exit constructor for slices.
func (t *T) result(rets []string, e *env, exit string) string {
	var parts []string
	parts = append(parts, e.st...)
	if e.acts != "" {
		parts = append(parts, e.acts)
	}
	if !t.slice {
		parts = append(parts, rets...)
		return tuple(parts)
	}
	for i, o := range t.sliceOuts {
		b := e.vars[o]
		if b != nil && b.set {
			parts = append(parts, b.name)
			continue
		}
		z, ok := zeroOf(t.sliceOutG[i])
		if !ok {
			t.stopf(nil, "slice result %s has no value and no zero value at an exit", o.Name())
		}
		parts = append(parts, z)
	}
	rt := "(" + t.exitPayloadType() + ")"
	if exit == "ExReturn" {
		for i, g := range t.goResG {
			if g == "?" {
				t.stopf(nil, "return inside the slice: result %d of %s needs a Gallina type in result_types", i, t.tg.Func)
			}
		}
		parts = append(parts, "(@ExReturn "+rt+" "+tuple(rets)+")")
	} else {
		parts = append(parts, "(@"+exit+" "+rt+")")
	}
	return tuple(parts)
}

func (t *T) exitPayloadType() string {
	var gs []string
	for _, g := range t.goResG {
		if g == "?" {
			return "unit"
		}
		gs = append(gs, g)
	}
	return tupleType(gs)
}

func (t *T) returnNamed(at ast.Node, e *env) string {
	var rets []string
	for _, o := range t.namedRes {
		b := e.vars[o]
		if b == nil || !b.set {
			t.stopf(at, "named result %s has no value the translator knows", o.Name())
		}
		rets = append(rets, b.name)
	}
	return t.result(rets, e, "ExReturn")
}

// ---------------------------------------------------------------- slices

func (t *T) findSlice() []ast.Stmt {
	sl := t.tg.Slice
	count := 0
	var found []ast.Stmt
	var visit func(list []ast.Stmt, lit *ast.FuncLit)
	visit = func(list []ast.Stmt, lit *ast.FuncLit) {
		for i, s := range list {
			if found != nil {
				return
			}
			if stmtHead(s) == sl.First {
				if count == sl.Occurrence {
					if lit != nil {
						// the slice lives in a function literal: its returns are the literal's
						t.fnType = lit.Type
					}
					if sl.Last == "" {
						found = list[i : i+1]
						return
					}
					for j := i; j < len(list); j++ {
						if stmtHead(list[j]) == sl.Last {
							found = list[i : j+1]
							return
						}
					}
					t.stopf(s, "slice: no later sibling statement with head %q", sl.Last)
				}
				count++
			}
			for _, sub := range subBlocks(s) {
				visit(sub, lit)
			}
			for _, fl := range funcLitsOf(s) {
				visit(fl.Body.List, fl)
			}
		}
	}
	visit(t.fnBody.List, nil)
	if found == nil {
		t.stopf(t.fd, "slice: no statement with head %q (occurrence %d) in %s", sl.First, sl.Occurrence, t.tg.Func)
	}
	return found
}

// funcLitsOf: function literals in the expressions of a simple statement (not inside nested statements).
func funcLitsOf(s ast.Stmt) []*ast.FuncLit {
	switch s.(type) {
	case *ast.AssignStmt, *ast.ExprStmt, *ast.ReturnStmt, *ast.DeferStmt, *ast.GoStmt, *ast.DeclStmt, *ast.SendStmt:
	default:
		return nil
	}
	var out []*ast.FuncLit
	ast.Inspect(s, func(n ast.Node) bool {
		if fl, ok := n.(*ast.FuncLit); ok {
			out = append(out, fl)
			return false
		}
		return true
	})
	return out
}

func subBlocks(s ast.Stmt) [][]ast.Stmt {
	switch x := s.(type) {
	case *ast.BlockStmt:
		return [][]ast.Stmt{x.List}
	case *ast.IfStmt:
		out := [][]ast.Stmt{x.Body.List}
		if x.Else != nil {
			out = append(out, []ast.Stmt{x.Else})
		}
		return out
	case *ast.ForStmt:
		return [][]ast.Stmt{x.Body.List}
	case *ast.RangeStmt:
		return [][]ast.Stmt{x.Body.List}
	case *ast.SwitchStmt:
		var out [][]ast.Stmt
		for _, c := range x.Body.List {
			out = append(out, c.(*ast.CaseClause).Body)
		}
		return out
	case *ast.TypeSwitchStmt:
		var out [][]ast.Stmt
		for _, c := range x.Body.List {
			out = append(out, c.(*ast.CaseClause).Body)
		}
		return out
	case *ast.SelectStmt:
		var out [][]ast.Stmt
		for _, c := range x.Body.List {
			out = append(out, c.(*ast.CommClause).Body)
		}
		return out
	case *ast.LabeledStmt:
		return [][]ast.Stmt{{x.Stmt}}
	}
	return nil
}

// freeLocals: function-local variables used in the statements and declared before them.
func (t *T) freeLocals(stmts []ast.Stmt, start, end token.Pos) map[string]types.Object {
	out := map[string]types.Object{}
	for _, s := range stmts {
		ast.Inspect(s, func(n ast.Node) bool {
			id, ok := n.(*ast.Ident)
			if !ok {
				return true
			}
			v, ok := t.p.Info.Uses[id].(*types.Var)
			if !ok || v.IsField() || v.Parent() == nil || v.Parent() == t.p.Types.Scope() || v.Pkg() != t.p.Types {
				return true
			}
			if v.Pos() < start || v.Pos() > end {
				out[id.Name] = v
			}
			return true
		})
	}
	return out
}

// localByName: a local variable with this name used or defined in the statements, or declared before them.
func (t *T) localByName(stmts []ast.Stmt, name string, start token.Pos) types.Object {
	var hit types.Object
	for _, s := range stmts {
		ast.Inspect(s, func(n ast.Node) bool {
			id, ok := n.(*ast.Ident)
			if !ok || id.Name != name || hit != nil {
				return true
			}
			var o types.Object = t.p.Info.Uses[id]
			if o == nil {
				o = t.p.Info.Defs[id]
			}
			if v, ok := o.(*types.Var); ok && !v.IsField() && v.Parent() != t.p.Types.Scope() {
				hit = v
			}
			return true
		})
	}
	if hit != nil {
		return hit
	}
	// declared in the function before the slice
	ast.Inspect(t.fd, func(n ast.Node) bool {
		id, ok := n.(*ast.Ident)
		if !ok || id.Name != name || hit != nil || id.Pos() >= start {
			return true
		}
		if v, ok := t.p.Info.Defs[id].(*types.Var); ok && !v.IsField() {
			hit = v
		}
		return true
	})
	return hit
}

// ---------------------------------------------------------------- helpers for control flow

// escapes: the statements contain something that leaves them other than by falling off the end
// (or a loop / type switch, which are always translated in continuation style).
func escapes(n ast.Node) bool {
	if n == nil {
		return false
	}
	found := false
	ast.Inspect(n, func(m ast.Node) bool {
		switch s := m.(type) {
		case *ast.FuncLit:
			return false
		case *ast.ReturnStmt, *ast.ForStmt, *ast.RangeStmt, *ast.TypeSwitchStmt, *ast.LabeledStmt, *ast.SelectStmt, *ast.GoStmt:
			found = true
		case *ast.BranchStmt:
			if s.Tok != token.FALLTHROUGH {
				found = true
			}
		}
		return !found
	})
	return found
}

type slot struct {
	kind int // 0 Go variable, 1 state, 2 actions
	obj  types.Object
	idx  int
}

func (t *T) slotValue(s slot, e *env, at ast.Node) string {
	switch s.kind {
	case 0:
		b := e.vars[s.obj]
		if b == nil || !b.set {
			t.stopf(at, "variable %s is assigned on one path only and has no value on the other", s.obj.Name())
		}
		return b.name
	case 1:
		return e.st[s.idx]
	}
	return e.acts
}

// diff lists what differs between the entry environment and an exit environment, in a fixed order.
func diff(a, b *env) []slot {
	var out []slot
	for _, o := range a.vorder {
		x, y := a.vars[o], b.vars[o]
		if y != nil && (x.name != y.name || x.set != y.set) {
			out = append(out, slot{kind: 0, obj: o})
		}
	}
	for i := range a.st {
		if a.st[i] != b.st[i] {
			out = append(out, slot{kind: 1, idx: i})
		}
	}
	if a.acts != b.acts {
		out = append(out, slot{kind: 2})
	}
	return out
}

// probe translates the branches with a recording continuation to learn which slots they change.
func (t *T) probe(e *env, branches ...func(e *env, k K)) []slot {
	savedUsed := map[string]int{}
	for k, v := range t.used {
		savedUsed[k] = v
	}
	savedAux, savedLoops := len(t.aux), t.nloops
	seen := map[string]bool{}
	var slots []slot
	for _, br := range branches {
		br(e.clone(), func(e2 *env, ind string) string {
			for _, s := range diff(e, e2) {
				key := fmt.Sprint(s.kind, s.idx, s.obj)
				if s.obj != nil {
					key = fmt.Sprint(s.kind, s.obj.Pos())
				}
				if !seen[key] {
					seen[key] = true
					slots = append(slots, s)
				}
			}
			return ""
		})
	}
	t.used = savedUsed
	t.aux = t.aux[:savedAux]
	t.nloops = savedLoops
	// fixed order: variables by declaration order, then state, then actions
	pos := map[types.Object]int{}
	for i, o := range e.vorder {
		pos[o] = i
	}
	sort.SliceStable(slots, func(i, j int) bool {
		a, b := slots[i], slots[j]
		if a.kind != b.kind {
			return a.kind < b.kind
		}
		if a.kind == 0 {
			return pos[a.obj] < pos[b.obj]
		}
		return a.idx < b.idx
	})
	return slots
}

// join emits `let <slots> := <choice> in <k>` where choice(leaf) builds the branching term and calls leaf
// at the end of every branch.
func (t *T) join(at ast.Node, slots []slot, e *env, ind string, k K, choice func(ind string, leaf K) string) string {
	leaf := func(e2 *env, ind2 string) string {
		vals := make([]string, len(slots))
		for i, s := range slots {
			vals[i] = t.slotValue(s, e2, at)
		}
		return ind2 + tuple(vals)
	}
	rhs := choice(ind+"  ", leaf)
	e3 := e.clone()
	names := make([]string, len(slots))
	for i, s := range slots {
		switch s.kind {
		case 0:
			b := e3.vars[s.obj]
			names[i] = t.fresh(t.localBase(s.obj, e))
			b.name, b.set = names[i], true
		case 1:
			names[i] = t.fresh(t.stNames[s.idx])
			e3.st[s.idx] = names[i]
		default:
			names[i] = t.fresh("acts")
			e3.acts = names[i]
		}
	}
	return ind + "let " + pattern(names) + " :=\n" + rhs + "\n" + ind + "in\n" + k(e3, ind)
}

// localBase: base of the Gallina names of a Go variable: parameters keep their name, locals get v_<name>.
func (t *T) localBase(o types.Object, e *env) string {
	for _, s := range t.sig {
		if s.kind == 1 && s.obj == o {
			return s.name
		}
	}
	return "v_" + o.Name()
}
