package main

import (
	"fmt"
	"go/ast"
	"go/constant"
	"go/token"
	"go/types"
	"strconv"
	"strings"
)

// ---------------------------------------------------------------- Go types -> Gallina types

func isErrorType(t types.Type) bool {
	if t == nil {
		return false
	}
	n, ok := t.(*types.Named)
	return ok && n.Obj().Pkg() == nil && n.Obj().Name() == "error"
}

func intKind(t types.Type) (types.BasicKind, bool) {
	if t == nil {
		return 0, false
	}
	b, ok := t.Underlying().(*types.Basic)
	if !ok || b.Info()&types.IsInteger == 0 {
		return 0, false
	}
	k := b.Kind()
	switch k {
	case types.UntypedInt, types.UntypedRune:
		return types.UntypedInt, true
	case types.Uintptr:
		return 0, false
	}
	return k, true
}

// width and signedness of a Go integer kind (int/uint: 64 bit).
func intShape(k types.BasicKind) (bits int, signed bool) {
	switch k {
	case types.Int8:
		return 8, true
	case types.Int16:
		return 16, true
	case types.Int32:
		return 32, true
	case types.Int64, types.Int:
		return 64, true
	case types.Uint8:
		return 8, false
	case types.Uint16:
		return 16, false
	case types.Uint32:
		return 32, false
	case types.Uint64, types.Uint:
		return 64, false
	}
	return 0, true // untyped: unbounded
}

func isNamed(t types.Type, name string) bool {
	n, ok := t.(*types.Named)
	return ok && n.Obj().Name() == name
}

// gtype gives the Gallina type of values of a Go type, when the translator knows one.
func gtype(t types.Type) (string, bool) {
	if t == nil {
		return "", false
	}
	if isErrorType(t) {
		return "gerr", true
	}
	if isNamed(t, "KafkaVersion") {
		return "list Z", true
	}
	if isNamed(t, "ConfigurationError") {
		return "gerr", true
	}
	if b, ok := t.Underlying().(*types.Basic); ok {
		switch {
		case b.Info()&types.IsInteger != 0 && b.Kind() != types.Uintptr:
			return "Z", true
		case b.Info()&types.IsBoolean != 0:
			return "bool", true
		case b.Info()&types.IsString != 0:
			return "string", true
		}
	}
	return "", false
}

func zeroOf(gty string) (string, bool) {
	switch {
	case gty == "Z":
		return "0", true
	case gty == "bool":
		return "false", true
	case gty == "string":
		return `""%string`, true
	case gty == "gerr":
		return "ENil", true
	case strings.HasPrefix(gty, "option "):
		return "None", true
	case strings.HasPrefix(gty, "list "):
		return "[]", true
	case gty == "unit":
		return "tt", true
	}
	return "", false
}

func zlit(s string) string {
	if strings.HasPrefix(s, "-") {
		return "(" + s + ")"
	}
	return s
}

func coqString(s string) string {
	for _, r := range s {
		if r < 32 || r > 126 {
			return "" // caller stops
		}
	}
	return `"` + strings.ReplaceAll(s, `"`, `""`) + `"%string`
}

func wrapName(k types.BasicKind) string {
	bits, signed := intShape(k)
	if bits == 0 {
		return ""
	}
	if signed {
		return "wrap" + strconv.Itoa(bits)
	}
	return "uwrap" + strconv.Itoa(bits)
}

// ---------------------------------------------------------------- expressions

// constOf: the expression is a Go constant of a basic integer/bool/string type.
func (t *T) constOf(x ast.Expr) (string, string, bool) {
	tv, ok := t.p.Info.Types[x]
	if !ok || tv.Value == nil {
		return "", "", false
	}
	switch tv.Value.Kind() {
	case constant.Int:
		if _, ok := intKind(tv.Type); !ok {
			return "", "", false
		}
		return zlit(tv.Value.ExactString()), "Z", true
	case constant.Bool:
		if constant.BoolVal(tv.Value) {
			return "true", "bool", true
		}
		return "false", "bool", true
	case constant.String:
		s := coqString(constant.StringVal(tv.Value))
		if s == "" {
			t.stopf(x, "string constant with characters outside printable ASCII")
		}
		if isNamed(tv.Type, "ConfigurationError") {
			return "(EConfig " + s + ")", "gerr", true
		}
		return s, "string", true
	}
	return "", "", false
}

func (t *T) lookupAtom(key string) *Atom {
	for i := len(t.clauseAtoms) - 1; i >= 0; i-- {
		if a := t.clauseAtoms[i][key]; a != nil {
			return a
		}
	}
	if a := t.atoms[key]; a != nil {
		return a
	}
	for _, a := range t.prefixAtoms {
		if strings.HasPrefix(key, a.Go) {
			return a
		}
	}
	return nil
}

// checkAtomLocals: every local variable mentioned in an expression matched by an atom must be assigned at
// most once in the whole function, so that the atom denotes one value.
func (t *T) checkAtomLocals(x ast.Expr, terms ...string) {
	exempt := func(name string) bool {
		for _, tm := range terms {
			if strings.Contains(tm, "${"+name+"}") {
				return true
			}
		}
		return false
	}
	ast.Inspect(x, func(n ast.Node) bool {
		id, ok := n.(*ast.Ident)
		if !ok {
			return true
		}
		v, ok := t.p.Info.Uses[id].(*types.Var)
		if !ok || v.IsField() || v.Parent() == nil || v.Parent() == t.p.Types.Scope() || v.Pkg() != t.p.Types {
			return true
		}
		if t.assignCount[v] > 1 && !t.trustLocal[id.Name] && !exempt(id.Name) {
			t.stopf(id, "atom %q mentions local %s, which is assigned %d times (an atom must denote one value)", canon(x), id.Name, t.assignCount[v])
		}
		return true
	})
}

// subst replaces ${place} in a spec term by the current Gallina name of a state place (by its canonical text) or
// of the Go local with that name.
func (t *T) subst(at ast.Node, term string, e *env) string {
	for {
		i := strings.Index(term, "${")
		if i < 0 {
			return term
		}
		j := strings.Index(term[i:], "}")
		if j < 0 {
			t.stopf(at, "spec term %q: unterminated ${", term)
		}
		name := term[i+2 : i+j]
		val := ""
		if si, ok := t.stIndex[name]; ok {
			val = e.st[si]
		} else {
			for k := len(e.vorder) - 1; k >= 0; k-- {
				if o := e.vorder[k]; o.Name() == name {
					if b := e.vars[o]; b != nil && b.set {
						val = b.name
					}
					break
				}
			}
		}
		if val == "" {
			t.stopf(at, "spec term %q: ${%s} is neither a state place nor a local with a value here", term, name)
		}
		term = term[:i] + val + term[i+j+1:]
	}
}

// expr translates a value expression: (Gallina term, Gallina type).
func (t *T) expr(x ast.Expr, e *env) (string, string) {
	if h, ok := t.hoisted[x]; ok {
		return h[0], h[1]
	}
	x = unparen(x)
	if h, ok := t.hoisted[x]; ok {
		return h[0], h[1]
	}
	key := canon(x)
	if i, ok := t.stIndex[key]; ok {
		return e.st[i], t.stTypes[i]
	}
	if a := t.lookupAtom(key); a != nil {
		if len(a.Terms) > 0 {
			t.stopf(x, "multi-valued atom %q used as a single value", key)
		}
		t.checkAtomLocals(x, a.Term)
		return t.subst(x, a.Term, e), a.Type
	}
	if term, gty, ok := t.constOf(x); ok {
		return term, gty
	}
	switch n := x.(type) {
	case *ast.Ident:
		return t.ident(n, e)
	case *ast.BinaryExpr:
		return t.binary(n, e)
	case *ast.UnaryExpr:
		return t.unary(n, e)
	case *ast.CallExpr:
		terms, gtys := t.call(n, e)
		if len(terms) != 1 {
			t.stopf(x, "call %q yields %d values where one is needed", key, len(terms))
		}
		return terms[0], gtys[0]
	case *ast.IndexExpr:
		xt, xg := t.expr(n.X, e)
		if m := t.maps[xg]; m != nil {
			it, ig := t.expr(n.Index, e)
			if ig != m.Key {
				t.stopf(x, "index of Gallina type %q into a map with keys %q", ig, m.Key)
			}
			return "(" + m.Get + " " + xt + " " + it + ")", m.GetType
		}
		if xg == "list Z" {
			if _, ok := intKind(t.p.Info.TypeOf(n.Index)); ok {
				it, _ := t.expr(n.Index, e)
				return "(zidx " + xt + " " + it + ")", "Z"
			}
		}
		t.stopf(x, "index expression %q is not in the atom table", key)
	case *ast.SliceExpr:
		xt, xg := t.expr(n.X, e)
		if !strings.HasPrefix(xg, "list ") || n.Slice3 {
			t.stopf(x, "slice expression %q on a value of Gallina type %q", key, xg)
		}
		lo := "0"
		if n.Low != nil {
			l, g := t.expr(n.Low, e)
			if g != "Z" {
				t.stopf(x, "non-integer slice bound")
			}
			lo = l
			xt = "(skipn (Z.to_nat " + l + ") " + xt + ")"
		}
		if n.High != nil {
			h, g := t.expr(n.High, e)
			if g != "Z" {
				t.stopf(x, "non-integer slice bound")
			}
			xt = "(firstn (Z.to_nat (" + h + " - " + lo + ")) " + xt + ")"
		}
		return xt, xg
	case *ast.SelectorExpr:
		t.stopf(x, "selector %q is not in the atom table", key)
	}
	t.stopf(x, "expression %q (%T) is outside the supported subset and not in the atom table", key, x)
	return "", ""
}

func (t *T) ident(id *ast.Ident, e *env) (string, string) {
	obj := t.p.Info.Uses[id]
	if obj == nil {
		obj = t.p.Info.Defs[id]
	}
	switch o := obj.(type) {
	case *types.Nil:
		t.stopf(id, "nil in a position where its type is not determined by the translator")
	case *types.Var:
		if b := e.vars[o]; b != nil {
			if !b.set {
				t.stopf(id, "variable %s is read before the translator has a value for it", id.Name)
			}
			return b.name, b.gty
		}
		if o.Parent() == t.p.Types.Scope() || (o.Pkg() != nil && o.Pkg() != t.p.Types) {
			return t.pkgVar(id, o)
		}
		t.stopf(id, "local %s is not bound here (declared outside the slice? add it to slice.inputs, state or the atom table)", id.Name)
	}
	t.stopf(id, "identifier %s is outside the supported subset and not in the atom table", id.Name)
	return "", ""
}

// pkgVar: package-level variables the translator resolves itself: sentinel errors (identity = name) and
// KafkaVersion values initialised by newKafkaVersion(constants).
func (t *T) pkgVar(id *ast.Ident, o *types.Var) (string, string) {
	if o.Pkg() == t.p.Types {
		if isErrorType(o.Type()) {
			// a sentinel: a variable initialised once by a constructor call; its identity is its name
			switch init := unparen(t.p.pkgVarInit(o)).(type) {
			case *ast.CallExpr:
				return `(EVar "` + o.Name() + `"%string)`, "gerr"
			case *ast.Ident:
				if _, isNil := t.p.Info.Uses[init].(*types.Nil); isNil {
					return "ENil", "gerr"
				}
			}
			t.stopf(id, "package-level error variable %s is not initialised by a constructor call or nil", o.Name())
		}
		if isNamed(o.Type(), "KafkaVersion") {
			if init := t.p.pkgVarInit(o); init != nil {
				if c, ok := unparen(init).(*ast.CallExpr); ok && canon(c.Fun) == "newKafkaVersion" && len(c.Args) == 4 {
					var parts []string
					for _, a := range c.Args {
						v, g, ok := t.constOf(a)
						if !ok || g != "Z" {
							t.stopf(id, "%s: newKafkaVersion argument %q is not an integer constant", o.Name(), canon(a))
						}
						parts = append(parts, v)
					}
					return "[" + strings.Join(parts, "; ") + "]", "list Z"
				}
			}
			t.stopf(id, "KafkaVersion variable %s is not initialised by newKafkaVersion(constants)", o.Name())
		}
	}
	t.stopf(id, "package-level variable %s is not in the atom table", id.Name)
	return "", ""
}

// pkgVarInit finds the initialiser expression of a package-level variable.
func (p *Pkg) pkgVarInit(o *types.Var) ast.Expr {
	for _, f := range p.Files {
		for _, d := range f.Decls {
			gd, ok := d.(*ast.GenDecl)
			if !ok || gd.Tok != token.VAR {
				continue
			}
			for _, s := range gd.Specs {
				vs := s.(*ast.ValueSpec)
				for i, n := range vs.Names {
					if p.Info.Defs[n] == o && len(vs.Values) == len(vs.Names) {
						return vs.Values[i]
					}
				}
			}
		}
	}
	return nil
}

// exprAs translates x for use at Go type target (assignment, argument, result, comparison operand):
// nil by type, integer-typed error codes boxed into the error interface.
func (t *T) exprAs(x ast.Expr, target types.Type, e *env) (string, string) {
	x = unparen(x)
	if id, ok := x.(*ast.Ident); ok {
		if _, isNil := t.p.Info.Uses[id].(*types.Nil); isNil {
			return t.nilOf(id, target)
		}
	}
	term, gty := t.expr(x, e)
	if target != nil && isErrorType(target) && gty == "Z" {
		return "(EK " + term + ")", "gerr"
	}
	return term, gty
}

func (t *T) nilOf(at ast.Node, target types.Type) (string, string) {
	if target == nil {
		t.stopf(at, "nil without a known target type")
	}
	if isErrorType(target) {
		return "ENil", "gerr"
	}
	key := types.TypeString(target, func(p *types.Package) string {
		if p == t.p.Types {
			return ""
		}
		return p.Name()
	})
	if s, ok := t.tg.Nil[key]; ok {
		return s, ""
	}
	return "None", ""
}

func (t *T) cond(x ast.Expr, e *env) string {
	term, gty := t.expr(x, e)
	if gty != "bool" {
		t.stopf(x, "condition %q has Gallina type %q, not bool", canon(x), gty)
	}
	return term
}

func (t *T) isNilIdent(x ast.Expr) bool {
	id, ok := unparen(x).(*ast.Ident)
	if !ok {
		return false
	}
	_, isNil := t.p.Info.Uses[id].(*types.Nil)
	return isNil
}

// arith emits a Go integer operation at result type rt.
func (t *T) arith(at ast.Node, op token.Token, a, b string, rt types.Type) string {
	k, ok := intKind(rt)
	if !ok {
		t.stopf(at, "arithmetic %s on non-integer type %v", op, rt)
	}
	w := wrapName(k)
	if k == types.Int && t.tg.IdealInt {
		w = ""
	}
	_, signed := intShape(k)
	wrap := func(s string) string {
		if w == "" {
			return s
		}
		return "(" + w + " " + s + ")"
	}
	switch op {
	case token.ADD:
		return wrap("(" + a + " + " + b + ")")
	case token.SUB:
		return wrap("(" + a + " - " + b + ")")
	case token.MUL:
		return wrap("(" + a + " * " + b + ")")
	case token.QUO:
		if signed {
			return wrap("(Z.quot " + a + " " + b + ")")
		}
		return "(Z.quot " + a + " " + b + ")"
	case token.REM:
		return "(Z.rem " + a + " " + b + ")"
	case token.AND:
		return "(Z.land " + a + " " + b + ")"
	case token.OR:
		return "(Z.lor " + a + " " + b + ")"
	case token.XOR:
		return "(Z.lxor " + a + " " + b + ")"
	case token.AND_NOT:
		return "(go_andnot " + a + " " + b + ")"
	case token.SHL:
		if w == "" {
			w = wrapName(k)
		}
		return "(" + w + " (Z.shiftl " + a + " " + b + "))"
	case token.SHR:
		return "(Z.shiftr " + a + " " + b + ")"
	}
	t.stopf(at, "operator %s is outside the supported subset", op)
	return ""
}

func (t *T) binary(n *ast.BinaryExpr, e *env) (string, string) {
	switch n.Op {
	case token.LAND, token.LOR:
		a := t.cond(n.X, e)
		b := t.cond(n.Y, e)
		if n.Op == token.LAND {
			return "(" + a + " && " + b + ")", "bool"
		}
		return "(" + a + " || " + b + ")", "bool"
	case token.EQL, token.NEQ:
		eq := t.equality(n, e)
		if n.Op == token.NEQ {
			if strings.HasPrefix(eq, "(negb ") {
				return strings.TrimSuffix(strings.TrimPrefix(eq, "(negb "), ")"), "bool"
			}
			return "(negb " + eq + ")", "bool"
		}
		return eq, "bool"
	case token.LSS, token.LEQ, token.GTR, token.GEQ:
		a, ga := t.expr(n.X, e)
		b, gb := t.expr(n.Y, e)
		if ga != "Z" || gb != "Z" {
			t.stopf(n, "ordered comparison %q on non-integers (%s, %s)", canon(n), ga, gb)
		}
		op := map[token.Token]string{token.LSS: "<?", token.LEQ: "<=?", token.GTR: ">?", token.GEQ: ">=?"}[n.Op]
		return "(" + a + " " + op + " " + b + ")", "bool"
	}
	rt := t.p.Info.TypeOf(n)
	if _, ok := intKind(rt); !ok {
		t.stopf(n, "operator %s on type %v is outside the supported subset", n.Op, rt)
	}
	a, ga := t.expr(n.X, e)
	b, gb := t.expr(n.Y, e)
	if ga != "Z" || gb != "Z" {
		t.stopf(n, "arithmetic %q on non-integer model values (%s, %s)", canon(n), ga, gb)
	}
	if n.Op == token.SHL || n.Op == token.SHR {
		rt = t.p.Info.TypeOf(n.X)
		if k, ok := intKind(rt); ok && k == types.UntypedInt {
			rt = t.p.Info.TypeOf(n)
		}
	}
	return t.arith(n, n.Op, a, b, rt), "Z"
}

// equality translates X == Y (the caller negates for !=).
func (t *T) equality(n *ast.BinaryExpr, e *env) string {
	X, Y := n.X, n.Y
	if t.isNilIdent(X) {
		X, Y = Y, X
	}
	if t.isNilIdent(Y) {
		a, ga := t.expr(X, e)
		switch {
		case ga == "gerr":
			return "(gerr_eqb " + a + " ENil)"
		case strings.HasPrefix(ga, "option "):
			return "(negb (is_some " + a + "))"
		case strings.HasPrefix(ga, "list "):
			return "(is_nil_list " + a + ")"
		}
		t.stopf(n, "comparison of %q (Gallina type %q) with nil", canon(X), ga)
	}
	tx, ty := t.p.Info.TypeOf(X), t.p.Info.TypeOf(Y)
	var a, ga, b, gb string
	switch {
	case isErrorType(tx) && !isErrorType(ty):
		a, ga = t.expr(X, e)
		b, gb = t.exprAs(Y, tx, e)
	case isErrorType(ty) && !isErrorType(tx):
		a, ga = t.exprAs(X, ty, e)
		b, gb = t.expr(Y, e)
	default:
		a, ga = t.expr(X, e)
		b, gb = t.expr(Y, e)
	}
	if ga != gb {
		t.stopf(n, "comparison %q between Gallina types %q and %q", canon(n), ga, gb)
	}
	switch ga {
	case "Z":
		return "(" + a + " =? " + b + ")"
	case "bool":
		return "(Bool.eqb " + a + " " + b + ")"
	case "string":
		return "(String.eqb " + a + " " + b + ")"
	case "gerr":
		return "(gerr_eqb " + a + " " + b + ")"
	}
	t.stopf(n, "comparison %q at Gallina type %q is outside the supported subset", canon(n), ga)
	return ""
}

func (t *T) unary(n *ast.UnaryExpr, e *env) (string, string) {
	switch n.Op {
	case token.NOT:
		return "(negb " + t.cond(n.X, e) + ")", "bool"
	case token.SUB, token.ADD, token.XOR:
		rt := t.p.Info.TypeOf(n)
		k, ok := intKind(rt)
		a, ga := t.expr(n.X, e)
		if !ok || ga != "Z" {
			t.stopf(n, "unary %s on non-integer", n.Op)
		}
		w := wrapName(k)
		_, signed := intShape(k)
		switch n.Op {
		case token.ADD:
			return a, "Z"
		case token.SUB:
			if k == types.Int && t.tg.IdealInt {
				return "(- " + a + ")", "Z"
			}
			return "(" + w + " (- " + a + "))", "Z"
		default:
			if signed {
				return "(Z.lnot " + a + ")", "Z"
			}
			return "(" + w + " (Z.lnot " + a + "))", "Z"
		}
	}
	t.stopf(n, "unary operator %s is outside the supported subset", n.Op)
	return "", ""
}

func substArgs(tmpl string, arg func(i int) string) string {
	var b strings.Builder
	for i := 0; i < len(tmpl); i++ {
		if tmpl[i] == '$' && i+1 < len(tmpl) && tmpl[i+1] >= '0' && tmpl[i+1] <= '9' {
			j := i + 1
			for j < len(tmpl) && tmpl[j] >= '0' && tmpl[j] <= '9' {
				j++
			}
			k, _ := strconv.Atoi(tmpl[i+1 : j])
			b.WriteString(arg(k))
			i = j - 1
			continue
		}
		b.WriteByte(tmpl[i])
	}
	return b.String()
}

// argTerm translates the i-th argument of a call at the callee's parameter type.
func (t *T) argTerm(n *ast.CallExpr, i int, e *env) string {
	if i >= len(n.Args) {
		t.stopf(n, "spec refers to argument $%d of %q, which has %d arguments", i, canon(n), len(n.Args))
	}
	var pt types.Type
	if sig, ok := t.p.Info.TypeOf(n.Fun).(*types.Signature); ok {
		ps := sig.Params()
		if i < ps.Len() {
			pt = ps.At(i).Type()
			if sig.Variadic() && i >= ps.Len()-1 {
				if sl, ok := pt.(*types.Slice); ok {
					pt = sl.Elem()
				}
			}
		}
	}
	term, _ := t.exprAs(n.Args[i], pt, e)
	return term
}

// call translates a call used for its value(s).
func (t *T) call(n *ast.CallExpr, e *env) ([]string, []string) {
	key := canon(n)
	if a := t.lookupAtom(key); a != nil {
		if len(a.Terms) > 0 {
			t.checkAtomLocals(n, a.Terms...)
			out := make([]string, len(a.Terms))
			for i, s := range a.Terms {
				out[i] = t.subst(n, s, e)
			}
			return out, a.Types
		}
		t.checkAtomLocals(n, a.Term)
		return []string{t.subst(n, a.Term, e)}, []string{a.Type}
	}
	fkey := canon(n.Fun)
	if cs := t.calls[fkey]; cs != nil {
		if cs.Emit != "" && !t.allowEmit {
			t.stopf(n, "call %q has an effect (emit): it may only be a statement or a whole right-hand side", key)
		}
		if len(cs.Sets) > 0 && !t.allowSets {
			t.stopf(n, "call %q assigns state places (sets): it may only be a whole right-hand side or the operand of return", key)
		}
		t.checkAtomLocals(n.Fun, append([]string{cs.Term}, cs.Terms...)...)
		arg := func(i int) string { return t.argTerm(n, i, e) }
		if len(cs.Terms) > 0 {
			out := make([]string, len(cs.Terms))
			for i, s := range cs.Terms {
				out[i] = t.subst(n, substArgs(s, arg), e)
			}
			return out, cs.Types
		}
		return []string{"(" + t.subst(n, substArgs(cs.Term, arg), e) + ")"}, []string{cs.Type}
	}
	if _, ok := t.streamIdx[fkey]; ok {
		t.stopf(n, "oracle call %q may only be the whole right-hand side of an assignment or a statement", key)
	}
	if t.ignore[fkey] {
		t.stopf(n, "ignored call %q is used for its value", key)
	}
	// conversion T(x)
	if tv, ok := t.p.Info.Types[n.Fun]; ok && tv.IsType() {
		if len(n.Args) != 1 {
			t.stopf(n, "conversion with %d arguments", len(n.Args))
		}
		to, okTo := intKind(tv.Type)
		from, okFrom := intKind(t.p.Info.TypeOf(n.Args[0]))
		if okTo && okFrom {
			a, ga := t.expr(n.Args[0], e)
			if ga != "Z" {
				t.stopf(n, "conversion %q of a non-integer model value", key)
			}
			tb, ts := intShape(to)
			fb, fs := intShape(from)
			fits := fb != 0 && ((fs == ts && fb <= tb) || (!fs && ts && fb < tb))
			if fits {
				return []string{a}, []string{"Z"}
			}
			return []string{"(" + wrapName(to) + " " + a + ")"}, []string{"Z"}
		}
		t.stopf(n, "conversion %q is outside the supported subset and not in the atom table", key)
	}
	// builtins and the few library functions with a fixed meaning
	switch fkey {
	case "len":
		if len(n.Args) == 1 {
			a, ga := t.expr(n.Args[0], e)
			switch {
			case strings.HasPrefix(ga, "list "):
				return []string{"(zlen " + a + ")"}, []string{"Z"}
			case ga == "string":
				return []string{"(zstrlen " + a + ")"}, []string{"Z"}
			}
			t.stopf(n, "len of a value of Gallina type %q", ga)
		}
	case "append":
		if len(n.Args) == 2 && n.Ellipsis.IsValid() {
			a, ga := t.expr(n.Args[0], e)
			b, gb := t.expr(n.Args[1], e)
			if strings.HasPrefix(ga, "list ") && ga == gb {
				return []string{"(" + a + " ++ " + b + ")"}, []string{ga}
			}
			t.stopf(n, "append of a %q to a %q", gb, ga)
		}
		if len(n.Args) == 2 && !n.Ellipsis.IsValid() {
			a, ga := t.expr(n.Args[0], e)
			if strings.HasPrefix(ga, "list ") {
				b, gb := t.expr(n.Args[1], e)
				if "list "+gb != ga && ga != "list ("+gb+")" {
					t.stopf(n, "append of a %q to a %q", gb, ga)
				}
				return []string{"(" + a + " ++ [" + b + "])"}, []string{ga}
			}
		}
	case "errors.Is":
		if len(n.Args) == 2 && t.isPkgFunc(n.Fun, "errors", "Is") {
			a, ga := t.expr(n.Args[0], e)
			b, gb := t.exprAs(n.Args[1], types.Universe.Lookup("error").Type(), e)
			if ga == "gerr" && gb == "gerr" {
				return []string{"(err_is " + a + " " + b + ")"}, []string{"bool"}
			}
		}
	}
	t.stopf(n, "call %q is not in the atom table (calls / atoms / ignore) and not a supported builtin", key)
	return nil, nil
}

func (t *T) isPkgFunc(fun ast.Expr, pkg, name string) bool {
	sel, ok := unparen(fun).(*ast.SelectorExpr)
	if !ok {
		return false
	}
	f, ok := t.p.Info.Uses[sel.Sel].(*types.Func)
	return ok && f.Pkg() != nil && f.Pkg().Path() == pkg && f.Name() == name
}

var _ = fmt.Sprintf
