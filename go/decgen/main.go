// decgen translates a whitelisted set of small sarama decision functions to Gallina definitions.
//
//	go run . -repo <tree> -spec specs/C06.json[,specs/C16.json…] -out <dir> [-eq <dir>] [-list]
//
// writes <dir>/Dec<Group>.v (and, with -eq, <eqdir>/DecEq_<Group>.v).  Anything in a target outside the
// supported subset or the spec's atom table stops the translation of that group: the message
// "decgen: STOP <file>:<line>: [<target>] <reason>" is printed and the exit status is 3.
// With -list the per-target table (JSON) is printed on stdout.
package main

import (
	"encoding/json"
	"flag"
	"fmt"
	"os"
	"path/filepath"
	"strings"
)

type targetInfo struct {
	Group   string   `json:"group"`
	Name    string   `json:"name"`
	Source  string   `json:"source"`
	Params  []string `json:"params"`
	Result  string   `json:"result"`
	Loops   []string `json:"loops,omitempty"`
	Assumes []string `json:"assumes,omitempty"`
}

func main() {
	repo := flag.String("repo", "/repo", "sarama source tree")
	specs := flag.String("spec", "", "comma-separated spec files")
	out := flag.String("out", "", "output directory for Dec<Group>.v")
	eq := flag.String("eq", "", "also write DecEq_<Group>.v into this directory")
	list := flag.Bool("list", false, "print the target table as JSON")
	flag.Parse()
	if *specs == "" || (*out == "" && !*list) {
		flag.Usage()
		os.Exit(2)
	}
	startDir, _ := os.Getwd()
	var sps []*Spec
	for _, f := range strings.Split(*specs, ",") {
		abs, _ := filepath.Abs(f)
		sp, err := loadSpec(abs)
		if err != nil {
			fmt.Fprintln(os.Stderr, "decgen:", err)
			os.Exit(2)
		}
		sps = append(sps, sp)
	}
	outAbs, eqAbs := "", ""
	if *out != "" {
		outAbs, _ = filepath.Abs(*out)
	}
	if *eq != "" {
		eqAbs, _ = filepath.Abs(*eq)
	}
	pkgs := map[string]*Pkg{}
	status := 0
	var infos []targetInfo
	for _, sp := range sps {
		pkg := pkgs[sp.PkgDir]
		if pkg == nil {
			var err error
			repoAbs, _ := filepath.Abs(*repo)
			if !filepath.IsAbs(*repo) {
				repoAbs = filepath.Join(startDir, *repo)
			}
			pkg, err = loadPkg(filepath.Join(repoAbs, sp.PkgDir))
			if err != nil {
				fmt.Println("decgen: STOP", err)
				os.Exit(3)
			}
			pkgs[sp.PkgDir] = pkg
		}
		var defs []*Def
		failed := false
		for _, tg := range sp.Targets {
			t, err := newT(pkg, sp, tg)
			if err == nil {
				var ds []*Def
				ds, err = t.translate()
				if err == nil {
					defs = append(defs, ds...)
					main := ds[len(ds)-1]
					ti := targetInfo{Group: sp.Group, Name: main.Name, Source: main.Comment, Result: main.RetType, Loops: main.Callees}
					for _, p := range main.Params {
						ti.Params = append(ti.Params, p.Name+" : "+p.Type)
					}
					if tg.IdealInt {
						ti.Assumes = append(ti.Assumes, "no overflow of Go int arithmetic in "+tg.Func)
					}
					infos = append(infos, ti)
				}
			}
			if err != nil {
				fmt.Println("decgen: STOP", err)
				failed = true
			}
		}
		if failed {
			status = 3
			continue
		}
		if outAbs != "" {
			if err := os.WriteFile(filepath.Join(outAbs, "Dec"+sp.Group+".v"), []byte(renderFile(sp, defs)), 0o644); err != nil {
				fmt.Fprintln(os.Stderr, "decgen:", err)
				os.Exit(2)
			}
		}
		if eqAbs != "" {
			if err := os.WriteFile(filepath.Join(eqAbs, "DecEq_"+sp.Group+".v"), []byte(renderEq(sp, defs)), 0o644); err != nil {
				fmt.Fprintln(os.Stderr, "decgen:", err)
				os.Exit(2)
			}
		}
	}
	if *list {
		b, _ := json.MarshalIndent(infos, "", " ")
		fmt.Println(string(b))
	}
	os.Exit(status)
}
