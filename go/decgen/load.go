package main

import (
	"bytes"
	"fmt"
	"go/ast"
	"go/build"
	"go/importer"
	"go/parser"
	"go/token"
	"go/types"
	"io"
	"os"
	"path/filepath"
	"sort"
)

func bytesReader(b []byte) io.Reader { return bytes.NewReader(b) }

// Pkg is package sarama of the tree, parsed and type-checked (build tags: default, no `verif`).
type Pkg struct {
	Repo     string
	Fset     *token.FileSet
	Files    map[string]*ast.File // by file name relative to Repo
	Info     *types.Info
	Types    *types.Package
	TypeErrs []types.Error
}

func loadPkg(repo string) (*Pkg, error) {
	abs, err := filepath.Abs(repo)
	if err != nil {
		return nil, err
	}
	// the source importer resolves the module's dependencies relative to the working directory
	if err := os.Chdir(abs); err != nil {
		return nil, err
	}
	ctx := build.Default
	bp, err := ctx.ImportDir(abs, 0)
	if err != nil {
		if _, ok := err.(*build.MultiplePackageError); !ok {
			return nil, fmt.Errorf("%s: %v", abs, err)
		}
	}
	names := append([]string{}, bp.GoFiles...)
	sort.Strings(names)
	p := &Pkg{Repo: abs, Fset: token.NewFileSet(), Files: map[string]*ast.File{}}
	var files []*ast.File
	for _, n := range names {
		f, err := parser.ParseFile(p.Fset, filepath.Join(abs, n), nil, parser.SkipObjectResolution)
		if err != nil {
			return nil, fmt.Errorf("parse: %v", err)
		}
		p.Files[n] = f
		files = append(files, f)
	}
	p.Info = &types.Info{
		Types:      map[ast.Expr]types.TypeAndValue{},
		Defs:       map[*ast.Ident]types.Object{},
		Uses:       map[*ast.Ident]types.Object{},
		Implicits:  map[ast.Node]types.Object{},
		Selections: map[*ast.SelectorExpr]*types.Selection{},
		Scopes:     map[ast.Node]*types.Scope{},
	}
	conf := types.Config{
		Importer: importer.ForCompiler(p.Fset, "source", nil),
		Error: func(err error) {
			if te, ok := err.(types.Error); ok {
				p.TypeErrs = append(p.TypeErrs, te)
			}
		},
	}
	p.Types, _ = conf.Check(bp.ImportPath, p.Fset, files, p.Info)
	if p.Types == nil {
		return nil, fmt.Errorf("type-check of %s produced no package", abs)
	}
	return p, nil
}

// findFunc returns the declaration of "Type.method" / "func" in the given file.
func (p *Pkg) findFunc(file, name string) (*ast.FuncDecl, error) {
	f := p.Files[file]
	if f == nil {
		return nil, fmt.Errorf("%s: no such file in package %s", file, p.Types.Name())
	}
	recv, meth := "", name
	for i := 0; i < len(name); i++ {
		if name[i] == '.' {
			recv, meth = name[:i], name[i+1:]
		}
	}
	for _, d := range f.Decls {
		fd, ok := d.(*ast.FuncDecl)
		if !ok || fd.Name.Name != meth {
			continue
		}
		if recv == "" && fd.Recv == nil {
			return fd, nil
		}
		if recv != "" && fd.Recv != nil && len(fd.Recv.List) == 1 {
			t := fd.Recv.List[0].Type
			if s, ok := t.(*ast.StarExpr); ok {
				t = s.X
			}
			if id, ok := t.(*ast.Ident); ok && id.Name == recv {
				return fd, nil
			}
		}
	}
	return nil, fmt.Errorf("%s: function %s not found", file, name)
}

// typeErrorsIn reports type errors positioned inside the node.
func (p *Pkg) typeErrorsIn(n ast.Node) []types.Error {
	var out []types.Error
	for _, e := range p.TypeErrs {
		if e.Fset == p.Fset && e.Pos >= n.Pos() && e.Pos <= n.End() {
			out = append(out, e)
		}
	}
	return out
}
