#!/bin/bash
# Regenerate the committed goldens coq/Gen/Dec<Group>.v and the obligation files coq/Tie/DecEq_<Group>.v from the
# current sources (run when the coordinator says /repo changed a translated function), rebuild them, and show
# what changed.  Usage: go/decgen/regen_goldens.sh [group ...]   (default: every spec; VERIF_REPO selects the tree)
# After a change of a golden the hand models tied to it (coq/<Cxx>/… lemmas about SV.Gen.Dec<Group>) must be
# re-proved: that is the point of the tie.
set -eu
export GOFLAGS=-mod=mod GOPROXY=off GOSUMDB=off GOTOOLCHAIN=local
HERE="$(cd "$(dirname "$0")" && pwd)"; VERIF="$(cd "$HERE/../.." && pwd)"; REPO="${VERIF_REPO:-/repo}"
if [ $# -gt 0 ]; then GROUPS_="$*"; else GROUPS_="$(cd "$HERE/specs" && ls *.json | sed 's/\.json$//' | tr '\n' ' ')"; fi
[ -f "$HERE/specs/mkspecs.py" ] && python3 "$HERE/specs/mkspecs.py"
SPECS=""; for g in $GROUPS_; do SPECS="$SPECS${SPECS:+,}$HERE/specs/$g.json"; done
TMP="$(mktemp -d /tmp/decgen-regen.XXXXXX)"; trap 'rm -rf "$TMP"' EXIT
( cd "$HERE" && timeout 600 go run . -repo "$REPO" -spec "$SPECS" -out "$TMP" -eq "$TMP" ) || { echo "decgen stopped: fix the spec (or the subset) first; goldens untouched"; exit 3; }
mkdir -p "$VERIF/coq/Gen" "$VERIF/coq/Tie"
( cd "$VERIF" && bin/coqbuild Gen/GoInt.vo Gen/DecTypes.vo Gen/DecTypes2.vo Gen/DecTac.vo Gen/DecCorr.vo >/dev/null )
# every candidate must compile, and its obligation file must hold against an identical copy, before anything is installed
for g in $GROUPS_; do
  ( cd "$TMP" && timeout 300 coqc -Q "$VERIF/coq" SV -Q . SVB "Dec$g.v" >"$TMP/$g.log" 2>&1 ) || { echo "regenerated Dec$g.v does not compile; goldens untouched"; tail -20 "$TMP/$g.log"; exit 1; }
done
# the DecEq files refer to the installed golden SV.Gen.Dec<G>: check them after installing, but keep a backup to roll back
mkdir -p "$TMP/bak"
for g in $GROUPS_; do
  [ -f "$VERIF/coq/Gen/Dec$g.v" ] && cp "$VERIF/coq/Gen/Dec$g.v" "$TMP/bak/Dec$g.v"
  [ -f "$VERIF/coq/Tie/DecEq_$g.v" ] && cp "$VERIF/coq/Tie/DecEq_$g.v" "$TMP/bak/DecEq_$g.v"
done
rollback() { for g in $GROUPS_; do [ -f "$TMP/bak/Dec$g.v" ] && cp "$TMP/bak/Dec$g.v" "$VERIF/coq/Gen/Dec$g.v"; [ -f "$TMP/bak/DecEq_$g.v" ] && cp "$TMP/bak/DecEq_$g.v" "$VERIF/coq/Tie/DecEq_$g.v"; done; ( cd "$VERIF" && bin/coqbuild $targets >/dev/null 2>&1 ); echo "rolled back"; }
targets=""
for g in $GROUPS_; do
  if ! cmp -s "$TMP/Dec$g.v" "$VERIF/coq/Gen/Dec$g.v" 2>/dev/null; then
    echo "== Dec$g.v changed"; diff -u "$VERIF/coq/Gen/Dec$g.v" "$TMP/Dec$g.v" 2>/dev/null | head -60 || true
    cp "$TMP/Dec$g.v" "$VERIF/coq/Gen/Dec$g.v"
  fi
  cmp -s "$TMP/DecEq_$g.v" "$VERIF/coq/Tie/DecEq_$g.v" 2>/dev/null || cp "$TMP/DecEq_$g.v" "$VERIF/coq/Tie/DecEq_$g.v"
  targets="$targets Gen/Dec$g.vo"
done
( cd "$VERIF" && bin/coqbuild $targets ) || { rollback; exit 1; }
for g in $GROUPS_; do
  ( cd "$TMP" && timeout 600 coqc -Q "$VERIF/coq" SV -Q . SVB "DecEq_$g.v" >"$TMP/$g.eq.log" 2>&1 ) || { echo "DecEq_$g.v does not check against its own golden"; tail -20 "$TMP/$g.eq.log"; rollback; exit 1; }
done
echo "goldens up to date for: $GROUPS_"
