import json, os
D='/verif/go/decgen/specs'
def P(n,t): return {"name":n,"type":t}
def A(go,term,ty,**kw): d={"go":go,"term":term,"type":ty}; d.update(kw); return d
def AM(go,terms,types): return {"go":go,"terms":terms,"types":types}
def S(go,name,ty): return {"go":go,"name":name,"type":ty}
def dump(g,doc,targets,**kw):
    d={"group":g,"doc":doc}; d.update(kw); d["targets"]=targets
    json.dump(d,open(os.path.join(D,g+'.json'),'w'),indent=1); open(os.path.join(D,g+'.json'),'a').write("\n")
T2=["Gen.DecTypes2"]


# ======================================================================================= second wave
def E(go,term): return {"go":go,"term":term}
def C(go,term,ty,**kw): d={"go":go,"term":term,"type":ty}; d.update(kw); return d
def CM(go,terms,types,**kw): d={"go":go,"terms":terms,"types":types}; d.update(kw); return d

W2_C17=[
 {"name":"partition_source","file":"async_producer.go","func":"topicProducer.partitionMessage",
  "doc":"inside the circuit-breaker closure: which partition list the message is partitioned over",
  "slice":{"first":"requiresConsistency := false","last":"if requiresConsistency"},
  "state":[S("partitions","partitions","list Z"),S("err","err","gerr")],
  "params":[P("is_dynamic","bool"),P("msg_requires","bool"),P("requires","bool"),P("all_parts","list Z"),P("all_err","gerr"),P("writable_parts","list Z"),P("writable_err","gerr")],
  "atoms":[AM("tp.partitioner.(DynamicConsistencyPartitioner)",["tt","is_dynamic"],["unit","bool"]),
           A("ep.MessageRequiresConsistency(msg)","msg_requires","bool"),
           A("tp.partitioner.RequiresConsistency()","requires","bool"),
           AM("tp.parent.client.Partitions(msg.Topic)",["all_parts","all_err"],["list Z","gerr"]),
           AM("tp.parent.client.WritablePartitions(msg.Topic)",["writable_parts","writable_err"],["list Z","gerr"])]},
 {"name":"partition_pick","file":"async_producer.go","func":"topicProducer.partitionMessage",
  "doc":"after the partition list is known: empty list, partitioner error, range check, msg.Partition = partitions[choice]",
  "slice":{"first":"numPartitions := int32(len(partitions))","last":"msg.Partition = partitions[choice]"},
  "state":[S("err","err","gerr"),S("msg.Partition","msg_partition","Z")],
  "params":[P("parts","list Z"),P("choice","Z"),P("choice_err","gerr")],
  "atoms":[A("partitions","parts","list Z"),
           AM("tp.partitioner.Partition(msg, numPartitions)",["choice","choice_err"],["Z","gerr"])],
  "trust_locals":["partitions"]},
 {"name":"hash_partition_calls","file":"partitioner.go","func":"hashPartitioner.Partition",
  "doc":"hash_partition with the calls on the hasher (Reset, Write) recorded in order",
  "params":[P("key_is_nil","bool"),P("random_choice","Z"),P("random_err","gerr"),P("encode_err","gerr"),P("write_err","gerr"),P("reference_abs","bool"),P("hash","Z")],
  "atoms":[A("message.Key == nil","key_is_nil","bool"),
           AM("p.random.Partition(message, numPartitions)",["random_choice","random_err"],["Z","gerr"]),
           AM("message.Key.Encode()",["tt","encode_err"],["unit","gerr"]),
           A("p.referenceAbs","reference_abs","bool"),A("p.hasher.Sum32()","hash","Z")],
  "calls":[CM("p.hasher.Write",["tt","write_err"],["unit","gerr"],emit="HA_write")],
  "emits":[E("p.hasher.Reset","HA_reset")],"action_type":"hash_action"},
]

BPA=[A("msg.flags","flags","Z"),A("bp.closing","closing","gerr"),
     A("bp.currentRetries[msg.Topic][msg.Partition]","current_retry","gerr")]
W2_C01=[
 {"name":"needs_retry","file":"async_producer.go","func":"brokerProducer.needsRetry",
  "params":[P("closing","gerr"),P("current_retry","gerr")],
  "atoms":[A("bp.closing","closing","gerr"),A("bp.currentRetries[msg.Topic][msg.Partition]","current_retry","gerr")]},
 {"name":"wait_for_space_recheck","file":"async_producer.go","func":"brokerProducer.waitForSpace",
  "doc":"after a response was handled while waiting for buffer space: leave with a retry reason, leave with nil, or keep waiting (ExFall)",
  "slice":{"first":"if reason != nil","inputs":["forceRollover"]},
  "params":[P("closing","gerr"),P("current_retry","gerr"),P("overflow","bool")],
  "atoms":[A("bp.buffer.wouldOverflow(msg)","overflow","bool")],
  "calls":[C("bp.needsRetry","needs_retry closing current_retry","gerr")]},
 {"name":"bp_input_class","file":"async_producer.go","func":"brokerProducer.run",
  "doc":"a message arriving at the broker producer: syn, bounced (needsRetry), stray chaser, or ordinary (ExFall)",
  "slice":{"first":"if (msg.flags & syn) == syn","last":"if (msg.flags & fin) == fin"},
  "params":[P("flags","Z"),P("closing","gerr"),P("current_retry","gerr"),P("topic_retries_nil","bool")],
  "atoms":BPA+[A("bp.currentRetries[msg.Topic] == nil","topic_retries_nil","bool")],
  "calls":[C("bp.needsRetry","needs_retry closing current_retry","gerr")],
  "ignore":["Logger.Printf"],
  "emits":[E("bp.parent.inFlight.Done","BP_inflight_done"),E("bp.parent.retryMessage","BP_retry $1"),E("delete","BP_clear_retry")],
  "assign_emits":[E("bp.currentRetries[msg.Topic]","BP_make_topic_map"),E("bp.currentRetries[msg.Topic][msg.Partition]","BP_set_retry $0")],
  "action_type":"bp_action"},
 {"name":"pp_level_class","file":"async_producer.go","func":"partitionProducer.dispatch",
  "doc":"a message arriving at the partition producer, by retry level against the high watermark: new level, parked / chaser of a lower level, chaser of the current level, or to be sent (ExFall)",
  "slice":{"first":"if msg.retries > pp.highWatermark"},
  "params":[P("retries","Z"),P("hwm","Z"),P("flags","Z")],
  "atoms":[A("msg.retries","retries","Z"),A("pp.highWatermark","hwm","Z"),A("msg.flags","flags","Z")],
  "emits":[E("pp.newHighWatermark","PP_new_high_watermark $0"),E("pp.backoff","PP_backoff $0"),
           E("pp.parent.inFlight.Done","PP_inflight_done"),E("pp.flushRetryBuffers","PP_flush_retry_buffers")],
  "assign_emits":[E("pp.retryState[msg.retries].expectChaser","PP_expect_chaser retries $0"),
                  E("pp.retryState[pp.highWatermark].expectChaser","PP_expect_chaser hwm $0"),
                  E("pp.retryState[msg.retries].buf","PP_buffer retries")],
  "action_type":"pp_action"},
 {"name":"pp_stamp_sequence","file":"async_producer.go","func":"partitionProducer.dispatch",
  "doc":"which messages get a sequence number before being handed to the broker producer",
  "slice":{"first":"if (pp.parent.conf.Producer.Idempotent && (msg.retries == 0)) && (msg.flags == 0)"},
  "state":[S("msg.sequenceNumber","sequence_number","Z"),S("msg.producerEpoch","producer_epoch","Z"),S("msg.hasSequence","has_sequence","bool")],
  "params":[P("idempotent","bool"),P("retries","Z"),P("flags","Z"),P("next_sequence","Z"),P("epoch","Z")],
  "atoms":[A("pp.parent.conf.Producer.Idempotent","idempotent","bool"),A("msg.retries","retries","Z"),A("msg.flags","flags","Z"),
           AM("pp.parent.txnmgr.getAndIncrementSequenceNumber(msg.Topic, msg.Partition)",["next_sequence","epoch"],["Z","Z"])]},
 {"name":"get_and_increment_sequence_number","file":"async_producer.go","func":"transactionManager.getAndIncrementSequenceNumber",
  "state":[S("t.sequenceNumbers","sequence_numbers","seqmap")],
  "params":[P("producer_epoch","Z")],
  "atoms":[A("t.producerEpoch","producer_epoch","Z")],
  "calls":[C("fmt.Sprintf","seq_key $0 $1 $2","seqkey")],
  "maps":[{"type":"seqmap","key":"seqkey","elem":"Z","get":"seqmap_get","get_type":"Z","has":"seqmap_has","set":"seqmap_set","del":"seqmap_del","items":"seqmap_items"}],
  "ignore":["t.mutex.Lock","t.mutex.Unlock"]},
 {"name":"bump_epoch","file":"async_producer.go","func":"transactionManager.bumpEpoch",
  "state":[S("t.producerEpoch","producer_epoch","Z"),S("t.sequenceNumbers","sequence_numbers","seqmap")],
  "maps":[{"type":"seqmap","key":"seqkey","elem":"Z","get":"seqmap_get","get_type":"Z","has":"seqmap_has","set":"seqmap_set","del":"seqmap_del","items":"seqmap_items"}],
  "ignore":["t.mutex.Lock","t.mutex.Unlock"]},
]

RTF=["buffer_bytes","buffer_count","flush_frequency","flush_bytes","flush_messages"]
W2_C16=[
 {"name":"arm_flush_timer","file":"async_producer.go","func":"brokerProducer.run",
  "doc":"after a message was added to the buffer: arm the flush timer iff Flush.Frequency > 0 and no timer is pending",
  "slice":{"first":"if (bp.parent.conf.Producer.Flush.Frequency > 0) && (bp.timer == nil)"},
  "params":[P("flush_frequency","Z"),P("timer_pending","bool")],
  "atoms":[A("bp.parent.conf.Producer.Flush.Frequency","flush_frequency","Z"),A("bp.timer == nil","(negb timer_pending)","bool")],
  "assign_emits":[E("bp.timer","BP_arm_timer")],"action_type":"bp_action"},
 {"name":"enable_output","file":"async_producer.go","func":"brokerProducer.run",
  "doc":"end of every pass of the run loop: the flush channel is offered iff the timer fired or the buffer is ready to flush",
  "slice":{"first":"if bp.timerFired || bp.buffer.readyToFlush()"},
  "state":[S("output","output","option unit")],
  "params":[P("timer_fired","bool")]+[P(x,"Z") for x in RTF],
  "atoms":[A("bp.timerFired","timer_fired","bool"),A("bp.output","(Some tt)","option unit")],
  "calls":[C("bp.buffer.readyToFlush","ready_to_flush "+" ".join(RTF),"bool")]},
 {"name":"roll_over","file":"async_producer.go","func":"brokerProducer.rollOver",
  "state":[S("bp.timer","timer","option unit"),S("bp.timerFired","timer_fired","bool")],
  "assign_emits":[E("bp.buffer","BP_new_buffer")],"action_type":"bp_action"},
]

W2_C05=[
 {"name":"is_at_least","file":"utils.go","func":"KafkaVersion.IsAtLeast",
  "atoms":[A("v.version","v","list Z"),A("other.version","other","list Z")]},
 {"name":"validate_idempotent","file":"config.go","func":"Config.Validate",
  "doc":"the four requirements of an idempotent producer (ExReturn = rejected with that error, ExFall = accepted)",
  "slice":{"first":"if c.Producer.Idempotent"},
  "params":[P("idempotent","bool"),P("version","list Z"),P("retry_max","Z"),P("required_acks","Z"),P("max_open_requests","Z")],
  "atoms":[A("c.Producer.Idempotent","idempotent","bool"),A("c.Producer.Retry.Max","retry_max","Z"),
           A("c.Producer.RequiredAcks","required_acks","Z"),A("c.Net.MaxOpenRequests","max_open_requests","Z")],
  "calls":[C("c.Version.IsAtLeast","is_at_least version $0","bool")]},
 {"name":"clear_message","file":"async_producer.go","func":"ProducerMessage.clear",
  "doc":"what is reset in a message before it is handed back to the application on Successes() / Errors() (coq/C05/TieGen.v: = Msg.fresh_of)",
  "state":[S("m.flags","flags","Z"),S("m.retries","retries","Z"),S("m.sequenceNumber","sequence_number","Z"),
           S("m.producerEpoch","producer_epoch","Z"),S("m.hasSequence","has_sequence","bool")]},
]

W2_C06=[
 {"name":"close_final_flush","file":"offset_manager.go","func":"offsetManager.Close",
  "doc":"the final flush of Close: attempts as a function of Retry.Max; releasePOMs(false) is a script of remaining-POM counts",
  "slice":{"first":"if om.conf.Consumer.Offsets.AutoCommit.Enable","occurrence":1},
  "streams":[{"call":"om.releasePOMs","name":"remaining","elem":"Z","default":"0","results":["Z"]}],
  "params":[P("auto_commit","bool"),P("retry_max","Z")],
  "atoms":[A("om.conf.Consumer.Offsets.AutoCommit.Enable","auto_commit","bool"),A("om.conf.Consumer.Offsets.Retry.Max","retry_max","Z")],
  "emits":[E("om.flushToBroker","OC_flush")],"action_type":"oc_action"},
 {"name":"add_block","file":"offset_commit_request.go","func":"OffsetCommitRequest.AddBlock",
  "params":[P("blocks_nil","bool"),P("topic_nil","bool")],
  "atoms":[A("r.blocks == nil","blocks_nil","bool"),A("r.blocks[topic] == nil","topic_nil","bool"),
           A("&offsetCommitRequestBlock{offset, timestamp, metadata}","(offset, timestamp, metadata)","Z * Z * string")],
  "assign_emits":[E("r.blocks","AB_make_blocks"),E("r.blocks[topic]","AB_make_topic"),E("r.blocks[topic][partitionID]","AB_set_block $0")],
  "action_type":"ab_action"},
]

W2_C07=[
 {"name":"claim_start","file":"consumer_group.go","func":"newConsumerGroupClaim",
  "doc":"ConsumePartition is a script of (consumer, error) results: an out-of-range offset falls back to Offsets.Initial once",
  "slice":{"first":"pcm, err := sess.parent.consumer.ConsumePartition(topic, partition, offset)","last":"if err != nil"},
  "state":[S("offset","offset","Z")],
  "streams":[{"call":"sess.parent.consumer.ConsumePartition","name":"consume_results","elem":"unit * gerr","default":"(tt, ENil)","results":["unit","gerr"]}],
  "params":[P("initial","Z")],
  "atoms":[A("sess.parent.config.Consumer.Offsets.Initial","initial","Z")],
  "result_types":{"0":"option unit"}},
]

MSGL="list (Z * Z * bool)"
W2_C03=[
 {"name":"parse_records","file":"consumer.go","func":"partitionConsumer.parseRecords",
  "doc":"records is the batch as a list of offset deltas; the result lists the offsets of the delivered messages",
  "state":[S("child.offset","child_offset","Z")],
  "params":[P("first_offset","Z"),P("records","list Z"),P("log_append_time","bool")],
  "atoms":[A("batch.Records","records","list Z"),A("make([]*ConsumerMessage, 0, len(batch.Records))","[]","list Z"),
           A("batch.FirstOffset","first_offset","Z"),A("rec.OffsetDelta","v_rec","Z"),
           A("batch.FirstTimestamp.Add(rec.TimestampDelta)","tt","unit"),A("batch.LogAppendTime","log_append_time","bool"),
           A("batch.MaxTimestamp","tt","unit"),
           A("&ConsumerMessage{","${offset}","Z",prefix=True)],
  "result_types":{"0":"list Z"},"trust_locals":["timestamp"]},
 {"name":"parse_messages_inner","file":"consumer.go","func":"partitionConsumer.parseMessages",
  "doc":"the inner loop over one (possibly compressed) message block: inner is the list of (offset, version, log-append-time) of its messages",
  "slice":{"first":"for range msgBlock.Messages()"},
  "state":[S("child.offset","child_offset","Z"),S("messages","messages","list Z")],
  "params":[P("inner",MSGL),P("block_offset","Z"),P("last_inner_offset","Z")],
  "atoms":[A("msgBlock.Messages()","inner",MSGL),A("msg.Offset","(fst (fst v_msg))","Z"),A("msg.Msg.Version","(snd (fst v_msg))","Z"),
           A("msg.Msg.LogAppendTime","(snd v_msg)","bool"),A("msg.Msg.Timestamp","tt","unit"),A("msgBlock.Msg.Timestamp","tt","unit"),
           A("msgBlock.Offset","block_offset","Z"),
           A("msgBlock.Messages()[len(msgBlock.Messages()) - 1].Offset","last_inner_offset","Z"),
           A("&ConsumerMessage{","${offset}","Z",prefix=True)],
  "trust_locals":["timestamp"]},
]

W2_C11=[
 {"name":"consume_aborted","file":"consumer.go","func":"partitionConsumer.parseResponse",
  "doc":"per record batch: aborted transactions (sorted by first offset) that start at or before the batch's last offset become active and are popped",
  "slice":{"first":"for range abortedTransactions"},
  "state":[S("abortedTransactions","aborted_transactions","list (Z * Z)")],
  "params":[P("last_offset","Z")],
  "atoms":[A("txn.FirstOffset","(fst v_txn)","Z"),A("txn.ProducerID","(snd v_txn)","Z"),A("records.RecordBatch.LastOffset()","last_offset","Z")],
  "assign_emits":[E("abortedProducerIDs[txn.ProducerID]","CT_begin_aborted (snd v_txn)")],"action_type":"ct_action"},
 {"name":"batch_verdict","file":"consumer.go","func":"partitionConsumer.parseResponse",
  "doc":"per record batch after parsing: control batches and batches of aborted transactions are not exposed (ExContinue), errors are returned, ExFall = exposed",
  "slice":{"first":"isControl, err := records.isControl()","last":"if child.conf.Consumer.IsolationLevel == ReadCommitted"},
  "state":[S("err","err","gerr")],
  "params":[P("is_control","bool"),P("control_err","gerr"),P("isolation","Z"),P("record_err","gerr"),P("control_type","Z"),P("is_aborted","bool"),P("is_transactional","bool")],
  "atoms":[AM("records.isControl()",["is_control","control_err"],["bool","gerr"]),
           A("child.conf.Consumer.IsolationLevel","isolation","Z"),
           AM("records.getControlRecord()",["tt","record_err"],["unit","gerr"]),
           A("controlRecord.Type","control_type","Z"),
           AM("abortedProducerIDs[records.RecordBatch.ProducerID]",["tt","is_aborted"],["unit","bool"]),
           A("records.RecordBatch.IsTransactional","is_transactional","bool")],
  "emits":[E("delete","CT_end_aborted")],"action_type":"ct_action",
  "result_types":{"0":"list Z"},"nil":{"[]*ConsumerMessage":"[]"}},
 {"name":"keep_records","file":"fetch_response.go","func":"FetchResponseBlock.decode",
  "doc":"which decoded Records of a fetch block are kept: non-empty ones, and a partial one only when nothing was kept before",
  "slice":{"first":"if (n > 0) || (partial && (len(b.RecordsSet) == 0))","inputs":["n","partial"]},
  "state":[S("b.RecordsSet","records_set","list Z")],
  "params":[P("records_id","Z"),P("first_unset","bool")],
  "atoms":[A("records","records_id","Z"),A("b.Records == nil","first_unset","bool")],
  "assign_emits":[E("b.Records","FB_set_first")],"action_type":"fb_action","trust_locals":["records"]},
 {"name":"aborted_less","file":"fetch_response.go","func":"FetchResponseBlock.getAbortedTransactions","closure":0,
  "doc":"the comparator by which aborted transactions are sorted",
  "params":[P("first_offset_i","Z"),P("first_offset_j","Z")],
  "atoms":[A("at[i].FirstOffset","first_offset_i","Z"),A("at[j].FirstOffset","first_offset_j","Z")]},
]

BM="zmap (Z * string)"
BMAP=[{"type":BM,"key":"Z","elem":"Z * string","get":"zmap_get","get_type":"option (Z * string)","has":"zmap_has","set":"zmap_set","del":"zmap_del","items":"zmap_items"}]
W2_C15=[
 {"name":"update_broker","file":"client.go","func":"client.updateBroker",
  "doc":"brokers are (id, address) pairs; the registry is a map id -> broker; closed brokers are reported by id",
  "state":[S("client.brokers","brokers","zmap (Z * string)")],
  "params":[P("new_brokers","list (Z * string)")],
  "atoms":[A("brokers","new_brokers","list (Z * string)"),A("make(map[int32]*Broker, len(brokers))","[]",BM),
           A("broker.ID()","(fst v_broker)","Z"),A("broker.Addr()","(snd v_broker)","string")],
  "calls":[C("client.brokers[broker.ID()].Addr","match zmap_get ${client.brokers} (fst v_broker) with Some b => snd b | None => EmptyString end","string")],
  "maps":BMAP,"ignore":["Logger.Printf"],
  "emits":[E("safeAsyncClose(client.brokers[broker.ID()])","UB_close (fst v_broker)"),E("safeAsyncClose(broker)","UB_close (fst ${broker})")],
  "action_type":"ub_action"},
]

def admin_check(name,fn,rpc,lookup,multi,errterm,extra_atoms):
    return {"name":name,"file":"admin.go","func":"clusterAdmin."+fn,"closure":0,
  "doc":"the attempt closure handed to retryOnError: controller lookup, request, missing-entry test, NOT_CONTROLLER refresh",
  "params":[P("controller_err","gerr"),P("request_err","gerr"),P("topic_err","Z"),P("present","bool")],
  "atoms":[AM("ca.Controller()",["tt","controller_err"],["unit","gerr"]),AM(rpc,["tt","request_err"],["unit","gerr"]),
           AM(lookup,multi,["Z" if multi[0]=="topic_err" else "unit","bool"])]+extra_atoms,
  "calls":[CM("ca.refreshController",["tt","ENil"],["unit","gerr"],emit="AD_refresh_controller")],
  "action_type":"ad_action"}
W2_C19=[
 admin_check("delete_topic_attempt","DeleteTopic","b.DeleteTopics(request)","rsp.TopicErrorCodes[topic]",["topic_err","present"],None,[]),
 admin_check("create_topic_attempt","CreateTopic","b.CreateTopics(request)","rsp.TopicErrors[topic]",["tt","present"],None,
             [A("topicErr.Err","topic_err","Z"),A("topicErr","(ETopicError topic_err)","gerr")]),
 admin_check("create_partitions_attempt","CreatePartitions","b.CreatePartitions(request)","rsp.TopicPartitionErrors[topic]",["tt","present"],None,
             [A("topicErr.Err","topic_err","Z"),A("topicErr","(ETopicPartitionError topic_err)","gerr")]),
 {"name":"describe_groups_lookup","file":"admin.go","func":"clusterAdmin.DescribeConsumerGroups",
  "doc":"first loop: coordinator lookup per group (a script of (coordinator, error) results); the first error is returned",
  "slice":{"first":"for range groups"},
  "streams":[{"call":"ca.client.Coordinator","name":"coordinators","elem":"unit * gerr","default":"(tt, ENil)","results":["unit","gerr"]}],
  "params":[P("group_names","list string")],
  "atoms":[A("groups","group_names","list string")],
  "assign_emits":[E("groupsPerBroker[controller]","AD_group_to_coordinator ${group}")],"action_type":"ad_action",
  "result_types":{"0":"list Z"},"nil":{"[]*GroupDescription":"[]"}},
 {"name":"describe_groups_collect","file":"admin.go","func":"clusterAdmin.DescribeConsumerGroups",
  "doc":"second loop: one DescribeGroups request per coordinator (a script of (descriptions, error) results); the first error is returned, descriptions are appended",
  "slice":{"first":"for range groupsPerBroker"},
  "state":[S("result","result","list Z")],
  "streams":[{"call":"broker.DescribeGroups","name":"responses","elem":"(list Z) * gerr","default":"([], ENil)","results":["list Z","gerr"]}],
  "params":[P("per_broker","list (Z * Z)")],
  "atoms":[A("groupsPerBroker","per_broker","list (Z * Z)"),A("response.Groups","${response}","list Z")],
  "result_types":{"0":"list Z"},"nil":{"[]*GroupDescription":"[]"}},
]

EXPL="list (bool * gerr)"
MKSTREAMS=[{"call":"sp.partitioner(topic).Partition","name":"partitioner_results","elem":"Z * gerr","default":"(0, ENil)","results":["Z","gerr"]},
           {"call":"expectation.CheckFunction","name":"check_results","elem":"gerr","default":"ENil","results":["gerr"]}]
W2_C20=[
 {"name":"sync_send_message","file":"sync_producer.go","func":"SyncProducer.SendMessage",
  "doc":"expectations are (has check function, result) pairs; the partitioner and the check functions are scripts",
  "state":[S("sp.expectations",  "expectations",EXPL),S("sp.lastOffset","last_offset","Z")],
  "streams":MKSTREAMS,
  "atoms":[A("sp.expectations[0]","(hd (false, ENil) ${sp.expectations})","bool * gerr"),A("msg.Topic","tt","unit"),A("expectation.CheckFunction != nil","(fst ${expectation})","bool"),A("expectation.Result","(snd ${expectation})","gerr"),
           A("msg.Offset","${sp.lastOffset}","Z")],
  "emits":[E("sp.t.Errorf","MK_errorf $0")],
  "assign_emits":[E("msg.Partition","MK_set_partition $0"),E("msg.Offset","MK_set_offset $0")],"action_type":"mk_action",
  "ignore":["sp.l.Lock","sp.l.Unlock"]},
 {"name":"sync_send_messages","file":"sync_producer.go","func":"SyncProducer.SendMessages",
  "doc":"n_msgs = len(msgs); offsets are assigned consecutively while expectations succeed",
  "state":[S("sp.expectations","expectations",EXPL),S("sp.lastOffset","last_offset","Z")],
  "streams":MKSTREAMS,
  "params":[P("n_msgs","Z")],
  "atoms":[A("len(msgs)","n_msgs","Z"),A("msgs[i].Topic","tt","unit"),
           A("expectation.CheckFunction != nil","(fst ${expectation})","bool"),A("expectation.Result","(snd ${expectation})","gerr")],
  "emits":[E("sp.t.Errorf","MK_errorf $0")],
  "assign_emits":[E("msgs[i].Partition","MK_set_partition $0"),E("msgs[i].Offset","MK_set_offset $0")],"action_type":"mk_action",
  "ignore":["sp.l.Lock","sp.l.Unlock"]},
 {"name":"consume_partition","file":"consumer.go","func":"Consumer.ConsumePartition",
  "doc":"the expectation lookup: topic_pcs / pc are the two map lookups (None = nil)",
  "state":[S("pc.consumed","consumed","bool")],
  "params":[P("topic_pcs","option unit"),P("pc_entry","option unit"),P("expected_offset","Z")],
  "atoms":[A("c.partitionConsumers[topic]","topic_pcs","option unit"),A("c.partitionConsumers[topic][partition]","pc_entry","option unit"),
           A("pc.offset","expected_offset","Z")],
  "emits":[E("c.t.Errorf","MK_errorf $0")],"action_type":"mk_action",
  "result_types":{"0":"option unit"},"ignore":["c.l.Lock","c.l.Unlock"]},
]

LOCK=["pom.lock.Lock","pom.lock.Unlock"]
pomst=[S("pom.offset","offset","Z"),S("pom.metadata","metadata","string"),S("pom.dirty","dirty","bool")]
dump("C06","offset_manager.go: mark / reset / commit-acknowledge / next-offset rules of a partition offset manager and the per-partition verdict of an OffsetCommitResponse.",[
 {"name":"mark_offset","file":"offset_manager.go","func":"partitionOffsetManager.MarkOffset","rename":{"offset":"new_offset","metadata":"new_metadata"},"state":pomst,"ignore":LOCK},
 {"name":"reset_offset","file":"offset_manager.go","func":"partitionOffsetManager.ResetOffset","rename":{"offset":"new_offset","metadata":"new_metadata"},"state":pomst,"ignore":LOCK},
 {"name":"update_committed","file":"offset_manager.go","func":"partitionOffsetManager.updateCommitted","rename":{"offset":"committed_offset","metadata":"committed_metadata"},"state":pomst,"ignore":LOCK},
 {"name":"next_offset","file":"offset_manager.go","func":"partitionOffsetManager.NextOffset",
  "params":[P("offset","Z"),P("metadata","string"),P("initial","Z")],
  "atoms":[A("pom.offset","offset","Z"),A("pom.metadata","metadata","string"),A("pom.parent.conf.Consumer.Offsets.Initial","initial","Z")],"ignore":LOCK},
 {"name":"commit_verdict","file":"offset_manager.go","func":"offsetManager.handleResponse",
  "doc":"what handleResponse does for one partition offset manager that has a block in the request",
  "slice":{"first":"var err KError","last":"switch err"},
  "params":[P("topic_in_response","bool"),P("perr","Z"),P("perr_present","bool"),P("block_offset","Z"),P("block_metadata","string")],
  "atoms":[A("resp.Errors[pom.topic] == nil","(negb topic_in_response)","bool"),
           AM("resp.Errors[pom.topic][pom.partition]",["perr","perr_present"],["Z","bool"]),
           A("req.blocks[pom.topic][pom.partition]","tt","unit"),
           A("block.offset","block_offset","Z"),A("block.metadata","block_metadata","string")],
  "emits":[{"go":"pom.handleError","term":"OM_handle_error $0"},{"go":"pom.updateCommitted","term":"OM_update_committed $0 $1"},{"go":"om.releaseCoordinator","term":"OM_release_coordinator"}],
  "action_type":"om_action"},
]+W2_C06,imports=T2)

msgp=[P("headers","list (Z * Z)"),P("key","option Z"),P("value","option Z")]
dump("C16","produce_set.go / async_producer.go / utils.go: message size, the three buffer-overflow tests, the flush trigger and the dispatcher's admission checks.",[
 {"name":"is_at_least","file":"utils.go","func":"KafkaVersion.IsAtLeast",
  "atoms":[A("v.version","v","list Z"),A("other.version","other","list Z")]},
 {"name":"byte_size","file":"async_producer.go","func":"ProducerMessage.byteSize","ideal_int":True,
  "params":msgp,
  "atoms":[A("m.Headers","headers","list (Z * Z)"),A("len(h.Key)","(fst v_h)","Z"),A("len(h.Value)","(snd v_h)","Z"),
           A("m.Key","key","option Z"),A("m.Key.Length()","(optz key)","Z"),A("m.Value","value","option Z"),A("m.Value.Length()","(optz value)","Z")]},
 {"name":"empty","file":"produce_set.go","func":"produceSet.empty","params":[P("buffer_count","Z")],"atoms":[A("ps.bufferCount","buffer_count","Z")]},
 {"name":"ready_to_flush","file":"produce_set.go","func":"produceSet.readyToFlush",
  "params":[P("buffer_bytes","Z"),P("buffer_count","Z"),P("flush_frequency","Z"),P("flush_bytes","Z"),P("flush_messages","Z")],
  "atoms":[A("ps.bufferBytes","buffer_bytes","Z"),A("ps.bufferCount","buffer_count","Z"),
           A("ps.parent.conf.Producer.Flush.Frequency","flush_frequency","Z"),A("ps.parent.conf.Producer.Flush.Bytes","flush_bytes","Z"),
           A("ps.parent.conf.Producer.Flush.Messages","flush_messages","Z")],
  "calls":[{"go":"ps.empty","term":"empty buffer_count","type":"bool"}]},
 {"name":"would_overflow","file":"produce_set.go","func":"produceSet.wouldOverflow","ideal_int":True,
  "params":[P("buffer_bytes","Z"),P("buffer_count","Z"),P("topic_present","bool"),P("part","option Z"),P("version","list Z"),
            P("max_request_size","Z"),P("max_message_bytes","Z"),P("flush_max_messages","Z")]+msgp,
  "atoms":[A("ps.bufferBytes","buffer_bytes","Z"),A("ps.bufferCount","buffer_count","Z"),
           A("ps.msgs[msg.Topic] != nil","topic_present","bool"),
           A("ps.msgs[msg.Topic][msg.Partition]","part","option Z"),
           A("ps.msgs[msg.Topic][msg.Partition].bufferBytes","(optz part)","Z"),
           A("MaxRequestSize","max_request_size","Z"),
           A("ps.parent.conf.Producer.MaxMessageBytes","max_message_bytes","Z"),
           A("ps.parent.conf.Producer.Flush.MaxMessages","flush_max_messages","Z")],
  "calls":[{"go":"ps.parent.conf.Version.IsAtLeast","term":"is_at_least version $0","type":"bool"},
           {"go":"msg.byteSize","term":"byte_size $0 headers key value","type":"Z"}]},
 {"name":"dispatch_check","file":"async_producer.go","func":"asyncProducer.dispatcher","ideal_int":True,
  "doc":"the dispatcher's per-message version / headers / size admission test",
  "slice":{"first":"version := 1","last":"if msg.byteSize(version) > p.conf.Producer.MaxMessageBytes"},
  "params":[P("version","list Z"),P("headers_non_nil","bool"),P("max_message_bytes","Z")]+msgp,
  "atoms":[A("msg.Headers != nil","headers_non_nil","bool"),A("p.conf.Producer.MaxMessageBytes","max_message_bytes","Z")],
  "calls":[{"go":"p.conf.Version.IsAtLeast","term":"is_at_least version $0","type":"bool"},
           {"go":"msg.byteSize","term":"byte_size $0 headers key value","type":"Z"}],
  "emits":[{"go":"p.returnError","term":"PA_return_error $1"}],"action_type":"prod_action"},
]+W2_C16,imports=T2)

dump("C01","async_producer.go: the retry budget test of retryMessage.",[
 {"name":"retry_message","file":"async_producer.go","func":"asyncProducer.retryMessage","ideal_int":True,
  "state":[S("msg.retries","retries","Z")],"params":[P("retry_max","Z")],
  "atoms":[A("p.conf.Producer.Retry.Max","retry_max","Z")],
  "emits":[{"go":"p.returnError","term":"PA_return_error $1"},{"go":"p.retries <-","term":"PA_retry"}],"action_type":"prod_action"},
]+W2_C01,imports=T2)

dump("C17","partitioner.go: the manual, round-robin and hash partitioners.",[
 {"name":"manual_partition","file":"partitioner.go","func":"manualPartitioner.Partition",
  "params":[P("msg_partition","Z")],"atoms":[A("message.Partition","msg_partition","Z")]},
 {"name":"round_robin_partition","file":"partitioner.go","func":"roundRobinPartitioner.Partition",
  "state":[S("p.partition","partition","Z")]},
 {"name":"hash_choice","file":"partitioner.go","func":"hashPartitioner.Partition",
  "doc":"the arithmetic after the hash: partition from Sum32 and the partition count",
  "slice":{"first":"var partition int32","last":"if p.referenceAbs","inputs":["numPartitions"],"results":["partition"]},
  "params":[P("reference_abs","bool"),P("hash","Z")],
  "atoms":[A("p.referenceAbs","reference_abs","bool"),A("p.hasher.Sum32()","hash","Z")]},
 {"name":"hash_partition","file":"partitioner.go","func":"hashPartitioner.Partition",
  "params":[P("key_is_nil","bool"),P("random_choice","Z"),P("random_err","gerr"),P("encode_err","gerr"),P("write_err","gerr"),P("reference_abs","bool"),P("hash","Z")],
  "atoms":[A("message.Key == nil","key_is_nil","bool"),
           AM("p.random.Partition(message, numPartitions)",["random_choice","random_err"],["Z","gerr"]),
           AM("message.Key.Encode()",["tt","encode_err"],["unit","gerr"]),
           AM("p.hasher.Write(bytes)",["tt","write_err"],["unit","gerr"]),
           A("p.referenceAbs","reference_abs","bool"),A("p.hasher.Sum32()","hash","Z")],
  "ignore":["p.hasher.Reset"]},
 {"name":"writable_filter","file":"client.go","func":"client.setPartitionCache",
  "doc":"which partitions of a topic are offered as writable: the filter loop over the topic's metadata as a list of (ID, Err) (same slice as C15's partition_filter; repeated here so that the C17 check regenerates it)",
  "slice":{"first":"for range partitions","inputs":["partitionSet"]},
  "state":[S("ret","ret","list Z")],
  "params":[P("parts","list (Z * Z)")],
  "atoms":[A("partitions","parts","list (Z * Z)"),A("partition.Err","(snd v_partition)","Z"),A("partition.ID","(fst v_partition)","Z")]},
]+W2_C17,imports=T2)

dump("C19","admin.go: the bounded retry loop of the cluster admin and its error classification.",[
 {"name":"is_err_no_controller","file":"admin.go","func":"isErrNoController",
  "typeswitch":[{"type":"*TopicError","pattern":"ETopicError k","atoms":[A("e.Err","k","Z")]},
                {"type":"*TopicPartitionError","pattern":"ETopicPartitionError k","atoms":[A("e.Err","k","Z")]},
                {"type":"KError","pattern":"EK k","atoms":[A("e","k","Z")]}]},
 {"name":"depends_on_specific_node","file":"admin.go","func":"dependsOnSpecificNode",
  "params":[P("resource_type","Z"),P("resource_name","string")],
  "atoms":[A("resource.Type","resource_type","Z"),A("resource.Name","resource_name","string")]},
 {"name":"retry_on_error","file":"admin.go","func":"clusterAdmin.retryOnError",
  "doc":"fn is a script of results (one per call); retryable is a function parameter",
  "streams":[{"call":"fn","name":"fn_results","elem":"gerr","default":"ENil","results":["gerr"]}],
  "params":[P("retryable","gerr -> bool"),P("retry_max","Z")],
  "atoms":[A("ca.conf.Admin.Retry.Max","retry_max","Z")],
  "calls":[{"go":"retryable","term":"retryable $0","type":"bool"}],
  "ignore":["Logger.Printf","time.Sleep"]},
]+W2_C19,imports=T2)

dump("C03","consumer.go: the starting-offset rule and the fetch-size escalation after a partial trailing message.",[
 {"name":"choose_starting_offset","file":"consumer.go","func":"partitionConsumer.chooseStartingOffset",
  "state":[S("child.offset","child_offset","Z")],
  "params":[P("newest","Z"),P("newest_err","gerr"),P("oldest","Z"),P("oldest_err","gerr")],
  "atoms":[AM("child.consumer.client.GetOffset(child.topic, child.partition, OffsetNewest)",["newest","newest_err"],["Z","gerr"]),
           AM("child.consumer.client.GetOffset(child.topic, child.partition, OffsetOldest)",["oldest","oldest_err"],["Z","gerr"])]},
 {"name":"fetch_size_escalation","file":"consumer.go","func":"partitionConsumer.parseResponse",
  "doc":"what parseResponse does when a response carries only a partial trailing message",
  "slice":{"first":"if (child.conf.Consumer.Fetch.Max > 0) && (child.fetchSize == child.conf.Consumer.Fetch.Max)"},
  "state":[S("child.fetchSize","fetch_size","Z"),S("child.offset","offset","Z")],
  "params":[P("fetch_max","Z")],
  "atoms":[A("child.conf.Consumer.Fetch.Max","fetch_max","Z")],
  "emits":[{"go":"child.sendError","term":"CA_send_error $0"}],"action_type":"cons_action"},
]+W2_C03)

dump("C14","response_header.go / broker.go: header length, the length range check and the correlation-id check of the response receiver.",[
 {"name":"get_header_length","file":"broker.go","func":"getHeaderLength"},
 {"name":"response_header_decode","file":"response_header.go","func":"responseHeader.decode",
  "doc":"pd.getInt32 is a script of (value, error) results",
  "state":[S("r.length","hdr_length","Z"),S("r.correlationID","correlation_id","Z")],
  "streams":[{"call":"pd.getInt32","name":"ints","elem":"Z * gerr","default":"(0, ENil)","results":["Z","gerr"]}],
  "params":[P("max_response_size","Z"),P("tagged_err","gerr")],
  "atoms":[A("MaxResponseSize","max_response_size","Z"),
           A("PacketDecodingError{","EDecode","gerr",prefix=True),
           AM("pd.getEmptyTaggedFieldArray()",["0","tagged_err"],["Z","gerr"])]},
 {"name":"receive_one","file":"broker.go","func":"Broker.responseReceiver",
  "doc":"one iteration of the response receiver loop: the dead test, header read, header decode, correlation-id check, body read",
  "slice":{"first":"if dead != nil","last":"response.packets <- buf"},
  "state":[S("dead","dead","gerr")],
  "params":[P("header_version","Z"),P("read_header_err","gerr"),P("decode_err","gerr"),P("decoded_correlation_id","Z"),P("decoded_length","Z"),
            P("want_correlation_id","Z"),P("read_body_err","gerr")],
  "atoms":[A("response.headerVersion","header_version","Z"),
           A("make([]byte, headerLength)","tt","unit"),
           AM("b.readFull(header)",["0","read_header_err"],["Z","gerr"]),
           A("time.Since(response.requestTime)","tt","unit"),
           A("responseHeader{}","tt","unit"),
           A("versionedDecode(header, &decodedHeader, response.headerVersion)","decode_err","gerr"),
           A("decodedHeader.correlationID","decoded_correlation_id","Z"),
           A("decodedHeader.length","decoded_length","Z"),
           A("response.correlationID","want_correlation_id","Z"),
           A("PacketDecodingError{","EDecode","gerr",prefix=True),
           AM("b.readFull(buf)",["0","read_body_err"],["Z","gerr"])],
  "calls":[{"go":"getHeaderLength","term":"get_header_length $0","type":"Z"},
           {"go":"make","term":"$1","type":"Z"}],
  "ignore":["b.updateIncomingCommunicationMetrics"],"trust_locals":["decodedHeader"],
  "emits":[{"go":"b.addRequestInFlightMetrics","term":"BR_inflight_dec"},
           {"go":"response.errors <-","term":"BR_error $0"},{"go":"response.packets <-","term":"BR_packets $0"}],
  "action_type":"br_action"},
])

dump("C15","client.go: the cached-leader lookup, the writable-partition filter and the topic-level error classes of updateMetadata.",[
 {"name":"cached_leader","file":"client.go","func":"client.cachedLeader",
  "params":[P("topic_md","option unit"),P("pm_present","bool"),P("pm_err","Z"),P("leader_broker","option Z")],
  "atoms":[A("client.metadata[topic]","topic_md","option unit"),
           AM("partitions[partitionID]",["tt","pm_present"],["unit","bool"]),
           A("metadata.Err","pm_err","Z"),
           A("client.brokers[metadata.Leader]","leader_broker","option Z")],
  "result_types":{"0":"option Z"},
  "ignore":["client.lock.RLock","client.lock.RUnlock","b.Open"]},
 {"name":"partition_filter","file":"client.go","func":"client.setPartitionCache",
  "doc":"the filter loop; partitions is the topic's metadata as a list of (ID, Err) in the iteration order of the map (the result is sorted afterwards)",
  "slice":{"first":"for range partitions","inputs":["partitionSet"]},
  "state":[S("ret","ret","list Z")],
  "params":[P("parts","list (Z * Z)")],
  "atoms":[A("partitions","parts","list (Z * Z)"),A("partition.Err","(snd v_partition)","Z"),A("partition.ID","(fst v_partition)","Z")]},
 {"name":"topic_error_class","file":"client.go","func":"client.updateMetadata",
  "doc":"per topic of a metadata response: retry / error / whether partial partition results are stored (ExFall) or skipped (ExContinue)",
  "slice":{"first":"switch topic.Err"},
  "state":[S("retry","retry","bool"),S("err","err","gerr")],
  "params":[P("topic_err","Z")],
  "atoms":[A("topic.Err","topic_err","Z")],
  "ignore":["Logger.Printf"]},
]+W2_C15,imports=T2)

nscalls=[{"go":"c.newSession","terms":["(NS_again $3)","ENil"],"types":["ns_next","gerr"]},
         {"go":"c.retryNewSession","terms":["(NS_backoff $3 $4)","ENil"],"types":["ns_next","gerr"]}]
dump("C07","consumer_group.go: the error-class switches of newSession (join, sync) and of the heartbeat loop.",[
 {"name":"join_error_class","file":"consumer_group.go","func":"consumerGroup.newSession",
  "slice":{"first":"switch join.Err","inputs":["retries"]},
  "state":[S("c.memberID","member_id","string")],
  "params":[P("join_err","Z"),P("join_member_id","string")],
  "atoms":[A("join.Err","join_err","Z"),A("join.MemberId","join_member_id","string")],
  "calls":nscalls,"result_types":{"0":"ns_next"},"nil":{"*consumerGroupSession":"NS_nil"}},
 {"name":"sync_error_class","file":"consumer_group.go","func":"consumerGroup.newSession",
  "slice":{"first":"switch groupRequest.Err","inputs":["retries"]},
  "state":[S("c.memberID","member_id","string")],
  "params":[P("sync_err","Z")],
  "atoms":[A("groupRequest.Err","sync_err","Z")],
  "calls":nscalls,"result_types":{"0":"ns_next"},"nil":{"*consumerGroupSession":"NS_nil"}},
 {"name":"heartbeat_error_class","file":"consumer_group.go","func":"consumerGroupSession.heartbeatLoop",
  "slice":{"first":"switch resp.Err"},
  "state":[S("retries","retries","Z")],
  "params":[P("resp_err","Z"),P("retry_max","Z")],
  "atoms":[A("resp.Err","resp_err","Z"),A("s.parent.config.Metadata.Retry.Max","retry_max","Z")],
  "emits":[{"go":"s.parent.handleError","term":"HB_handle_error $0"}],"action_type":"hb_action"},
]+W2_C07)

dump("C05","config.go / utils.go: what Config.Validate requires of an idempotent producer; async_producer.go: ProducerMessage.clear.",W2_C05)
dump("C11","consumer.go / fetch_response.go: transactional isolation — which record batches are exposed, aborted-transaction bookkeeping, kept Records, the sort order of aborted transactions.",W2_C11,imports=T2)
dump("C20","mocks: offset bookkeeping of the sync producer mock and the expectation lookup of the consumer mock.",W2_C20,pkgdir="mocks",imports=T2)


# ======================================================================================= C10: realDecoder primitive getters
# State: rd.off (Z).  len(rd.raw) is the parameter raw_len; what the buffer holds at rd.off is a parameter per read
# (the big-endian value, binary.Varint/Uvarint's (value, n)); byte slices / strings are returned as the half-open
# range (start, end) of rd.raw they cover (None = nil / "" literal).  ideal_int: rd.off, len(rd.raw) and lengths
# derived from them do not overflow int (64-bit platform).  Callees that are targets themselves are table calls
# that also set rd.off (`sets`).
RD=[S("rd.off","off","Z")]
RL=[P("raw_len","Z")]
def ERRS(*names): return [A(n,'(EVar "%s")'%n,"gerr") for n in names]
LEN=A("len(rd.raw)","raw_len","Z")
REM=C("rd.remaining","remaining ${rd.off} raw_len","Z")
def G3(go,fn,args):
    """callee returning (off', value, err): value/err as terms, rd.off as `sets`"""
    t="(%s ${rd.off} %s)"%(fn,args)
    return CM(go,["(snd (fst %s))"%t,"(snd %s)"%t],["Z","gerr"],sets={"rd.off":"(fst (fst %s))"%t})
def G3o(go,fn,args,ty="option (Z * Z)"):
    t="(%s ${rd.off} %s)"%(fn,args)
    return CM(go,["(snd (fst %s))"%t,"(snd %s)"%t],[ty,"gerr"],sets={"rd.off":"(fst (fst %s))"%t})
BE16=A("int16(binary.BigEndian.Uint16(rd.raw[rd.off:]))","rd_i16","Z")
BE32=A("int32(binary.BigEndian.Uint32(rd.raw[rd.off:]))","rd_i32","Z")
BE64=A("int64(binary.BigEndian.Uint64(rd.raw[rd.off:]))","rd_i64","Z")
U32=A("binary.BigEndian.Uint32(rd.raw[rd.off:])","rd_u32","Z")
UV=[P("uv","Z"),P("uv_n","Z")]
VI=[P("vi","Z"),P("vi_n","Z")]
CUV=G3("rd.getUVarint","get_uvarint","raw_len uv uv_n")
RNG="option (Z * Z)"
STR_N=A("string(rd.raw[rd.off:rd.off + n])","(Some (${rd.off}, ${rd.off} + v_n))",RNG)
STR_L=A("string(rd.raw[rd.off:rd.off + length])","(Some (${rd.off}, ${rd.off} + v_length))",RNG)
EMPTY=A('""',"None",RNG)
def fixed(name,fn,atom,par):
    return {"name":name,"file":"real_decoder.go","func":"realDecoder."+fn,"ideal_int":True,"state":RD,"params":RL+[P(par,"Z")],
            "atoms":[LEN,atom]+ERRS("ErrInsufficientData"),"calls":[REM]}
def arr_head(name,fn,width_doc):
    return {"name":name,"file":"real_decoder.go","func":"realDecoder."+fn,"ideal_int":True,
            "doc":"the count field and its checks, before the element loop (ExFall = n elements of "+width_doc+" follow at off)",
            "slice":{"first":"if rd.remaining() < 4","last":"if n < 0","results":["n"]},
            "state":RD,"params":RL+[P("rd_u32","Z")],"atoms":[LEN,U32]+ERRS("ErrInsufficientData","errInvalidArrayLength"),"calls":[REM],
            "result_types":{"0":"unit"},"nil":{"[]int32":"tt","[]int64":"tt","[]string":"tt"}}
C10=[
 {"name":"remaining","file":"real_decoder.go","func":"realDecoder.remaining","ideal_int":True,
  "params":[P("off","Z")]+RL,"atoms":[A("rd.off","off","Z"),LEN]},
 fixed("get_int8","getInt8",A("int8(rd.raw[rd.off])","rd_i8","Z"),"rd_i8"),
 fixed("get_int16","getInt16",BE16,"rd_i16"),
 fixed("get_int32","getInt32",BE32,"rd_i32"),
 fixed("get_int64","getInt64",BE64,"rd_i64"),
 {"name":"get_varint","file":"real_decoder.go","func":"realDecoder.getVarint","ideal_int":True,"state":RD,"params":RL+VI,
  "atoms":[LEN,AM("binary.Varint(rd.raw[rd.off:])",["vi","vi_n"],["Z","Z"])]+ERRS("ErrInsufficientData","errVarintOverflow")},
 {"name":"get_uvarint","file":"real_decoder.go","func":"realDecoder.getUVarint","ideal_int":True,"state":RD,"params":RL+UV,
  "atoms":[LEN,AM("binary.Uvarint(rd.raw[rd.off:])",["uv","uv_n"],["Z","Z"])]+ERRS("ErrInsufficientData","errUVarintOverflow")},
 {"name":"get_array_length","file":"real_decoder.go","func":"realDecoder.getArrayLength","ideal_int":True,"state":RD,"params":RL+[P("rd_i32","Z")],
  "atoms":[LEN,BE32]+ERRS("ErrInsufficientData","errInvalidArrayLength"),"calls":[REM]},
 {"name":"get_compact_array_length","file":"real_decoder.go","func":"realDecoder.getCompactArrayLength","ideal_int":True,"state":RD,"params":RL+UV,
  "atoms":[LEN]+ERRS("ErrInsufficientData"),"calls":[REM,CUV]},
 {"name":"get_bool","file":"real_decoder.go","func":"realDecoder.getBool","ideal_int":True,"state":RD,"params":RL+[P("rd_i8","Z")],
  "atoms":ERRS("errInvalidBool"),"calls":[G3("rd.getInt8","get_int8","raw_len rd_i8")]},
 {"name":"get_empty_tagged_field_array","file":"real_decoder.go","func":"realDecoder.getEmptyTaggedFieldArray","ideal_int":True,"state":RD,"params":RL+UV,
  "atoms":ERRS("errUnsupportedTaggedFields"),"calls":[CUV]},
 {"name":"get_raw_bytes","file":"real_decoder.go","func":"realDecoder.getRawBytes","ideal_int":True,"state":RD,"params":RL,
  "atoms":[LEN,A("rd.raw[start:rd.off]","(Some (v_start, ${rd.off}))",RNG)]+ERRS("ErrInsufficientData","errInvalidByteSliceLength"),
  "calls":[REM],"result_types":{"0":RNG}},
 {"name":"get_bytes","file":"real_decoder.go","func":"realDecoder.getBytes","ideal_int":True,"state":RD,"params":RL+[P("rd_i32","Z")],
  "calls":[G3("rd.getInt32","get_int32","raw_len rd_i32"),G3o("rd.getRawBytes","get_raw_bytes","$0 raw_len")],"result_types":{"0":RNG}},
 {"name":"get_varint_bytes","file":"real_decoder.go","func":"realDecoder.getVarintBytes","ideal_int":True,"state":RD,"params":RL+VI,
  "calls":[G3("rd.getVarint","get_varint","raw_len vi vi_n"),G3o("rd.getRawBytes","get_raw_bytes","$0 raw_len")],"result_types":{"0":RNG}},
 {"name":"get_compact_bytes","file":"real_decoder.go","func":"realDecoder.getCompactBytes","ideal_int":True,"state":RD,"params":RL+UV,
  "calls":[CUV,G3o("rd.getRawBytes","get_raw_bytes","$0 raw_len")],"result_types":{"0":RNG}},
 {"name":"get_string_length","file":"real_decoder.go","func":"realDecoder.getStringLength","ideal_int":True,"state":RD,"params":RL+[P("rd_i16","Z")],
  "atoms":[LEN]+ERRS("ErrInsufficientData","errInvalidStringLength"),"calls":[REM,G3("rd.getInt16","get_int16","raw_len rd_i16")]},
 {"name":"get_string","file":"real_decoder.go","func":"realDecoder.getString","ideal_int":True,"state":RD,"params":RL+[P("rd_i16","Z")],
  "atoms":[STR_N,EMPTY],"calls":[G3("rd.getStringLength","get_string_length","raw_len rd_i16")],"result_types":{"0":RNG}},
 {"name":"get_nullable_string","file":"real_decoder.go","func":"realDecoder.getNullableString","ideal_int":True,"state":RD,"params":RL+[P("rd_i16","Z")],
  "atoms":[STR_N,A("&tmpStr","v_tmpStr",RNG)],"calls":[G3("rd.getStringLength","get_string_length","raw_len rd_i16")],"result_types":{"0":RNG},"trust_locals":["tmpStr"]},
 {"name":"get_compact_string","file":"real_decoder.go","func":"realDecoder.getCompactString","ideal_int":True,"state":RD,"params":RL+UV,
  "atoms":[LEN,STR_L,EMPTY]+ERRS("ErrInsufficientData","errInvalidStringLength"),"calls":[REM,CUV],"result_types":{"0":RNG}},
 {"name":"get_compact_nullable_string","file":"real_decoder.go","func":"realDecoder.getCompactNullableString","ideal_int":True,"state":RD,"params":RL+UV,
  "atoms":[LEN,STR_L,A("&tmpStr","v_tmpStr",RNG)]+ERRS("ErrInsufficientData"),"calls":[REM,CUV],"result_types":{"0":RNG},"trust_locals":["tmpStr"]},
 {"name":"compact_int32_array_head","file":"real_decoder.go","func":"realDecoder.getCompactInt32Array","ideal_int":True,
  "doc":"the count varint and its checks, before the element loop (ExFall = arrayLength int32 elements follow at off)",
  "slice":{"first":"n, err := rd.getUVarint()","last":"arrayLength := int(n) - 1","results":["arrayLength"]},
  "state":RD,"params":RL+UV,"atoms":[LEN]+ERRS("ErrInsufficientData"),"calls":[REM,CUV],
  "result_types":{"0":"unit"},"nil":{"[]int32":"tt"}},
 arr_head("int32_array_head","getInt32Array","4 bytes"),
 arr_head("int64_array_head","getInt64Array","8 bytes"),
 arr_head("string_array_head","getStringArray","at least 2 bytes"),
 {"name":"get_subset","file":"real_decoder.go","func":"realDecoder.getSubset","ideal_int":True,"state":RD,"params":RL,
  "atoms":[A("&realDecoder{raw: buf}","v_buf",RNG)],
  "calls":[G3o("rd.getRawBytes","get_raw_bytes","$0 raw_len")],"result_types":{"0":RNG}},
 {"name":"peek","file":"real_decoder.go","func":"realDecoder.peek","ideal_int":True,"params":[P("off0","Z")]+RL,
  "atoms":[A("rd.off","off0","Z"),A("&realDecoder{raw: rd.raw[off:off + length]}","(Some (v_off, v_off + ${length}))",RNG)]+ERRS("ErrInsufficientData"),
  "calls":[C("rd.remaining","remaining off0 raw_len","Z")],"result_types":{"0":RNG}},
 {"name":"peek_int8","file":"real_decoder.go","func":"realDecoder.peekInt8","ideal_int":True,"params":[P("off0","Z")]+RL,
  "doc":"the bounds test (ExFall = the byte at off+offset is returned)","slice":{"first":"if rd.remaining() < (offset + byteLen)","inputs":["offset"]},
  "atoms":[A("rd.off","off0","Z")]+ERRS("ErrInsufficientData"),
  "calls":[C("rd.remaining","remaining off0 raw_len","Z")]},
]
dump("C10","real_decoder.go: the bounds / negativity / limit decisions of the realDecoder primitive getters (which error, or success, and the new offset).",C10)
