package main

import (
	"go/ast"
	"go/token"
	"strings"
)

// canon prints an expression in a canonical, layout-independent form: parentheses of the source are
// dropped and re-inserted around every binary operand that is itself binary (or unary operand that is
// binary); one space around binary operators; ", " between arguments.
func canon(e ast.Expr) string {
	var b strings.Builder
	canonTo(&b, e)
	return b.String()
}

func unparen(e ast.Expr) ast.Expr {
	for {
		p, ok := e.(*ast.ParenExpr)
		if !ok {
			return e
		}
		e = p.X
	}
}

func canonOperand(b *strings.Builder, e ast.Expr) {
	e = unparen(e)
	if _, ok := e.(*ast.BinaryExpr); ok {
		b.WriteByte('(')
		canonTo(b, e)
		b.WriteByte(')')
		return
	}
	canonTo(b, e)
}

func canonList(b *strings.Builder, l []ast.Expr) {
	for i, x := range l {
		if i > 0 {
			b.WriteString(", ")
		}
		canonTo(b, x)
	}
}

func canonTo(b *strings.Builder, e ast.Expr) {
	switch x := unparen(e).(type) {
	case nil:
	case *ast.Ident:
		b.WriteString(x.Name)
	case *ast.BasicLit:
		b.WriteString(x.Value)
	case *ast.SelectorExpr:
		canonOperand(b, x.X)
		b.WriteByte('.')
		b.WriteString(x.Sel.Name)
	case *ast.IndexExpr:
		canonOperand(b, x.X)
		b.WriteByte('[')
		canonTo(b, x.Index)
		b.WriteByte(']')
	case *ast.SliceExpr:
		canonOperand(b, x.X)
		b.WriteByte('[')
		canonTo(b, x.Low)
		b.WriteByte(':')
		canonTo(b, x.High)
		if x.Slice3 {
			b.WriteByte(':')
			canonTo(b, x.Max)
		}
		b.WriteByte(']')
	case *ast.CallExpr:
		canonOperand(b, x.Fun)
		b.WriteByte('(')
		canonList(b, x.Args)
		if x.Ellipsis != token.NoPos {
			b.WriteString("...")
		}
		b.WriteByte(')')
	case *ast.StarExpr:
		b.WriteByte('*')
		canonOperand(b, x.X)
	case *ast.UnaryExpr:
		b.WriteString(x.Op.String())
		canonOperand(b, x.X)
	case *ast.BinaryExpr:
		canonOperand(b, x.X)
		b.WriteByte(' ')
		b.WriteString(x.Op.String())
		b.WriteByte(' ')
		canonOperand(b, x.Y)
	case *ast.KeyValueExpr:
		canonTo(b, x.Key)
		b.WriteString(": ")
		canonTo(b, x.Value)
	case *ast.CompositeLit:
		canonTo(b, x.Type)
		b.WriteByte('{')
		canonList(b, x.Elts)
		b.WriteByte('}')
	case *ast.TypeAssertExpr:
		canonOperand(b, x.X)
		b.WriteString(".(")
		if x.Type == nil {
			b.WriteString("type")
		} else {
			canonTo(b, x.Type)
		}
		b.WriteByte(')')
	case *ast.ArrayType:
		b.WriteByte('[')
		canonTo(b, x.Len)
		b.WriteByte(']')
		canonTo(b, x.Elt)
	case *ast.MapType:
		b.WriteString("map[")
		canonTo(b, x.Key)
		b.WriteByte(']')
		canonTo(b, x.Value)
	case *ast.ChanType:
		b.WriteString("chan ")
		canonTo(b, x.Value)
	case *ast.InterfaceType:
		b.WriteString("interface{…}")
	case *ast.StructType:
		b.WriteString("struct{…}")
	case *ast.FuncType:
		b.WriteString("func(…)")
	case *ast.FuncLit:
		b.WriteString("func(…){…}")
	case *ast.Ellipsis:
		b.WriteString("...")
		canonTo(b, x.Elt)
	default:
		b.WriteString("<?>")
	}
}

// stmtHead is the canonical text by which a slice selector names a statement.
func stmtHead(s ast.Stmt) string {
	switch x := s.(type) {
	case *ast.IfStmt:
		return "if " + canon(x.Cond)
	case *ast.SwitchStmt:
		if x.Tag == nil {
			return "switch"
		}
		return "switch " + canon(x.Tag)
	case *ast.TypeSwitchStmt:
		return "typeswitch"
	case *ast.RangeStmt:
		return "for range " + canon(x.X)
	case *ast.ForStmt:
		if x.Cond == nil {
			return "for"
		}
		return "for " + canon(x.Cond)
	case *ast.AssignStmt:
		var b strings.Builder
		canonList(&b, x.Lhs)
		b.WriteString(" " + x.Tok.String() + " ")
		canonList(&b, x.Rhs)
		return b.String()
	case *ast.IncDecStmt:
		return canon(x.X) + x.Tok.String()
	case *ast.ExprStmt:
		return canon(x.X)
	case *ast.SendStmt:
		return canon(x.Chan) + " <- " + canon(x.Value)
	case *ast.ReturnStmt:
		var b strings.Builder
		b.WriteString("return")
		if len(x.Results) > 0 {
			b.WriteByte(' ')
			canonList(&b, x.Results)
		}
		return b.String()
	case *ast.DeclStmt:
		if gd, ok := x.Decl.(*ast.GenDecl); ok && gd.Tok == token.VAR && len(gd.Specs) == 1 {
			if vs, ok := gd.Specs[0].(*ast.ValueSpec); ok {
				var b strings.Builder
				b.WriteString("var ")
				for i, n := range vs.Names {
					if i > 0 {
						b.WriteString(", ")
					}
					b.WriteString(n.Name)
				}
				if vs.Type != nil {
					b.WriteByte(' ')
					canonTo(&b, vs.Type)
				}
				if len(vs.Values) > 0 {
					b.WriteString(" = ")
					canonList(&b, vs.Values)
				}
				return b.String()
			}
		}
		return "var"
	case *ast.DeferStmt:
		return "defer " + canon(x.Call)
	case *ast.BranchStmt:
		return x.Tok.String()
	}
	return ""
}
