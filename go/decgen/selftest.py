#!/usr/bin/env python3
"""Self-test of the decgen tie (driven by selftest.sh).

For every target: semantic mutations of the Go source (must make the translator STOP or a deceq lemma FAIL)
and, per group, harmless rewrites (must come out IDENTICAL or EQUIVALENT).  Each case is applied to a scratch
git worktree of the repository, compiled (`go build .`), pushed through checks/decgen_tie.run_decgen exactly
as a property check would, and reverted.

  selftest.py worker <worktree> <index> <nworkers> <result-file>
"""
import json
import os
import subprocess
import sys

VERIF = os.path.dirname(os.path.dirname(os.path.dirname(os.path.abspath(__file__))))

S, H = "semantic", "harmless"
# (group, target, kind, file, function ("" = whole file), old, new, what)   `old` may end with "#k" to pick the k-th match
CASES = [
    # ---------------------------------------------------------------- C06
    ("C06", "mark_offset", S, "offset_manager.go", "MarkOffset", "if offset > pom.offset {", "if offset >= pom.offset {", "comparison > to >="),
    ("C06", "mark_offset", S, "offset_manager.go", "MarkOffset", "\t\tpom.dirty = true\n", "", "dropped assignment dirty = true"),
    ("C06", "mark_offset", S, "offset_manager.go", "MarkOffset", "pom.metadata = metadata", "pom.metadata = \"\"", "metadata not stored"),
    ("C06", "reset_offset", S, "offset_manager.go", "ResetOffset", "if offset <= pom.offset {", "if offset < pom.offset {", "comparison <= to <"),
    ("C06", "reset_offset", S, "offset_manager.go", "ResetOffset", "\t\tpom.metadata = metadata\n", "", "dropped assignment metadata"),
    ("C06", "update_committed", S, "offset_manager.go", "updateCommitted", "pom.offset == offset && pom.metadata == metadata", "pom.offset == offset || pom.metadata == metadata", "&& to ||"),
    ("C06", "update_committed", S, "offset_manager.go", "updateCommitted", "pom.dirty = false", "pom.dirty = true", "changed constant"),
    ("C06", "update_committed", S, "offset_manager.go", "updateCommitted", "pom.offset == offset &&", "pom.offset >= offset &&", "== to >="),
    ("C06", "next_offset", S, "offset_manager.go", "NextOffset", "if pom.offset >= 0 {", "if pom.offset > 0 {", "comparison >= to >"),
    ("C06", "next_offset", S, "offset_manager.go", "NextOffset", "return pom.parent.conf.Consumer.Offsets.Initial, \"\"", "return pom.offset, \"\"", "wrong value returned"),
    ("C06", "commit_verdict", S, "offset_manager.go", "handleResponse", "case ErrNotLeaderForPartition, ErrLeaderNotAvailable,", "case ErrNotLeaderForPartition,", "dropped case constant"),
    ("C06", "commit_verdict", S, "offset_manager.go", "handleResponse", "\t\t\t\tpom.handleError(err)\n\t\t\t\tom.releaseCoordinator(broker)\n", "\t\t\t\tpom.handleError(err)\n", "dropped releaseCoordinator in default"),
    ("C06", "commit_verdict", S, "offset_manager.go", "handleResponse", "; !ok {", "; ok {", "flipped presence test"),
    ("C06", "commit_verdict", S, "offset_manager.go", "handleResponse", "pom.updateCommitted(block.offset, block.metadata)", "pom.updateCommitted(block.offset, \"\")", "swapped argument"),
    ("C06", "mark_offset", H, "offset_manager.go", "MarkOffset", "if offset > pom.offset {", "if pom.offset < offset {", "operands swapped with the mirrored comparison"),
    ("C06", "next_offset", H, "offset_manager.go", "NextOffset", "\tif pom.offset >= 0 {\n\t\treturn pom.offset, pom.metadata\n\t}", "\to := pom.offset\n\tif !(o < 0) {\n\t\treturn o, pom.metadata\n\t}", "hoisted local, >= written as !<"),
    ("C06", "commit_verdict", H, "offset_manager.go", "handleResponse",
     "\t\t\tcase ErrOffsetMetadataTooLarge, ErrInvalidCommitOffsetSize:\n\t\t\t\t// nothing we can do about this, just tell the user and carry on\n\t\t\t\tpom.handleError(err)\n\t\t\tcase ErrOffsetsLoadInProgress:\n\t\t\t\t// nothing wrong but we didn't commit, we'll get it next time round\n",
     "\t\t\tcase ErrOffsetsLoadInProgress:\n\t\t\tcase ErrInvalidCommitOffsetSize, ErrOffsetMetadataTooLarge:\n\t\t\t\tpom.handleError(err)\n", "reordered case clauses and case constants"),
    ("C06", "mark_offset", H, "offset_manager.go", "MarkOffset", "\tif offset > pom.offset {\n\t\tpom.offset = offset\n", "\t// a comment\n\n\tif (offset) > (pom.offset) { // another\n\n\t\tpom.offset = (offset)\n", "layout, comments and redundant parentheses only"),
    ("C06", "update_committed", H, "offset_manager.go", "updateCommitted", "pom.offset == offset && pom.metadata == metadata", "metadata == pom.metadata && offset == pom.offset", "mirrored string and integer equality tests, swapped conjuncts"),
    # ---------------------------------------------------------------- C16
    ("C16", "is_at_least", S, "utils.go", "IsAtLeast", "if v.version[i] > other.version[i] {\n\t\t\treturn true", "if v.version[i] > other.version[i] {\n\t\t\treturn false", "flipped result"),
    ("C16", "is_at_least", S, "utils.go", "IsAtLeast", "\t}\n\treturn true\n", "\t}\n\treturn false\n", "equal versions not at least"),
    ("C16", "is_at_least", S, "utils.go", "IsAtLeast", "v.version[i] > other.version[i]", "v.version[i] >= other.version[i]", "comparison > to >="),
    ("C16", "byte_size", S, "async_producer.go", "byteSize", "if version >= 2 {", "if version >= 1 {", "changed constant"),
    ("C16", "byte_size", S, "async_producer.go", "byteSize", "2*binary.MaxVarintLen32", "binary.MaxVarintLen32", "changed per-header overhead"),
    ("C16", "byte_size", S, "async_producer.go", "byteSize", "size += m.Value.Length()", "size += m.Key.Length()", "wrong operand"),
    ("C16", "byte_size", S, "record.go", "", "maximumRecordOverhead = 5*binary.MaxVarintLen32 + binary.MaxVarintLen64 + 1", "maximumRecordOverhead = 5*binary.MaxVarintLen32 + binary.MaxVarintLen64 + 2", "constant declaration changed in another file"),
    ("C16", "empty", S, "produce_set.go", "empty", "ps.bufferCount == 0", "ps.bufferCount <= 1", "comparison changed"),
    ("C16", "empty", S, "produce_set.go", "empty", "ps.bufferCount == 0", "ps.bufferBytes == 0", "wrong field"),
    ("C16", "ready_to_flush", S, "produce_set.go", "readyToFlush", " && ps.parent.conf.Producer.Flush.Messages == 0", "", "dropped conjunct"),
    ("C16", "ready_to_flush", S, "produce_set.go", "readyToFlush", "ps.bufferBytes >= ps.parent.conf.Producer.Flush.Bytes", "ps.bufferBytes > ps.parent.conf.Producer.Flush.Bytes", "comparison >= to >"),
    ("C16", "ready_to_flush", S, "produce_set.go", "readyToFlush", "case ps.empty():\n\t\treturn false", "case ps.empty():\n\t\treturn true", "flipped result"),
    ("C16", "would_overflow", S, "produce_set.go", "wouldOverflow", "10*1024", "10*1000", "changed constant"),
    ("C16", "would_overflow", S, "produce_set.go", "wouldOverflow", "msg.byteSize(version) >= ps.parent.conf.Producer.MaxMessageBytes", "msg.byteSize(version) > ps.parent.conf.Producer.MaxMessageBytes", "comparison >= to >"),
    ("C16", "would_overflow", S, "produce_set.go", "wouldOverflow", "ps.parent.conf.Producer.Flush.MaxMessages > 0 && ", "", "dropped guard"),
    ("C16", "would_overflow", S, "produce_set.go", "wouldOverflow", "IsAtLeast(V0_11_0_0)", "IsAtLeast(V0_10_0_0)", "other version constant"),
    ("C16", "would_overflow", S, "utils.go", "", "V0_11_0_0 = newKafkaVersion(0, 11, 0, 0)", "V0_11_0_0 = newKafkaVersion(0, 11, 0, 1)", "version variable initialised differently"),
    ("C16", "dispatch_check", S, "async_producer.go", "dispatcher", "if msg.byteSize(version) > p.conf.Producer.MaxMessageBytes {", "if msg.byteSize(version) >= p.conf.Producer.MaxMessageBytes {", "comparison > to >="),
    ("C16", "dispatch_check", S, "async_producer.go", "dispatcher", "p.returnError(msg, ErrMessageSizeTooLarge)", "p.returnError(msg, ErrInvalidMessage)", "other error"),
    ("C16", "dispatch_check", S, "async_producer.go", "dispatcher", "} else if msg.Headers != nil {", "} else if msg.Headers == nil {", "flipped nil test"),
    ("C16", "would_overflow", H, "produce_set.go", "wouldOverflow",
     "\tswitch {\n\t// Would we overflow our maximum possible size-on-the-wire? 10KiB is arbitrary overhead for safety.\n\tcase ps.bufferBytes+msg.byteSize(version) >= int(MaxRequestSize-(10*1024)):",
     "\tsz := msg.byteSize(version)\n\tswitch {\n\tcase ps.bufferBytes+sz >= int(MaxRequestSize-(10*1024)):", "hoisted local for the message size"),
    ("C16", "ready_to_flush", H, "produce_set.go", "readyToFlush",
     "\tcase ps.parent.conf.Producer.Flush.Messages > 0 && ps.bufferCount >= ps.parent.conf.Producer.Flush.Messages:\n\t\treturn true\n\t// If we've passed the byte trigger-point\n\tcase ps.parent.conf.Producer.Flush.Bytes > 0 && ps.bufferBytes >= ps.parent.conf.Producer.Flush.Bytes:\n\t\treturn true\n",
     "\tcase ps.parent.conf.Producer.Flush.Bytes > 0 && ps.bufferBytes >= ps.parent.conf.Producer.Flush.Bytes:\n\t\treturn true\n\tcase ps.bufferCount >= ps.parent.conf.Producer.Flush.Messages && ps.parent.conf.Producer.Flush.Messages > 0:\n\t\treturn true\n",
     "reordered cases, swapped conjuncts"),
    ("C16", "byte_size", H, "async_producer.go", "byteSize", "if version >= 2 {", "if !(version < 2) {", ">= written as !<"),
    # ---------------------------------------------------------------- C01
    ("C01", "retry_message", S, "async_producer.go", "retryMessage", "msg.retries >= p.conf.Producer.Retry.Max", "msg.retries > p.conf.Producer.Retry.Max", "comparison >= to >"),
    ("C01", "retry_message", S, "async_producer.go", "retryMessage", "\t\tmsg.retries++\n", "", "dropped increment"),
    ("C01", "retry_message", S, "async_producer.go", "retryMessage", "\t\tp.returnError(msg, err)\n\t} else {\n\t\tmsg.retries++\n\t\tverifPoint(\"retry.enqueue\", msg, err, p)\n\t\tp.retries <- msg\n", "\t\tmsg.retries++\n\t\tverifPoint(\"retry.enqueue\", msg, err, p)\n\t\tp.retries <- msg\n\t} else {\n\t\tp.returnError(msg, err)\n", "swapped branches"),
    ("C01", "retry_message", H, "async_producer.go", "retryMessage", "\tif msg.retries >= p.conf.Producer.Retry.Max {\n\t\tp.returnError(msg, err)\n\t} else {\n\t\tmsg.retries++\n\t\tverifPoint(\"retry.enqueue\", msg, err, p)\n\t\tp.retries <- msg\n\t}",
     "\tif msg.retries < p.conf.Producer.Retry.Max {\n\t\tmsg.retries++\n\t\tverifPoint(\"retry.enqueue\", msg, err, p)\n\t\tp.retries <- msg\n\t} else {\n\t\tp.returnError(msg, err)\n\t}", "negated test with swapped branches"),
    # ---------------------------------------------------------------- C17
    ("C17", "manual_partition", S, "partitioner.go", "manualPartitioner) Partition", "return message.Partition, nil", "return message.Partition + 1, nil", "off by one"),
    ("C17", "manual_partition", S, "partitioner.go", "manualPartitioner) Partition", "return message.Partition, nil", "return numPartitions - 1, nil", "other value"),
    ("C17", "round_robin_partition", S, "partitioner.go", "roundRobinPartitioner) Partition", "p.partition >= numPartitions", "p.partition > numPartitions", "comparison >= to >"),
    ("C17", "round_robin_partition", S, "partitioner.go", "roundRobinPartitioner) Partition", "\tp.partition++\n", "", "dropped increment"),
    ("C17", "round_robin_partition", S, "partitioner.go", "roundRobinPartitioner) Partition", "p.partition = 0", "p.partition = 1", "changed constant"),
    ("C17", "hash_choice", S, "partitioner.go", "hashPartitioner) Partition", "0x7fffffff", "0x7ffffff", "changed mask"),
    ("C17", "hash_choice", S, "partitioner.go", "hashPartitioner) Partition", "\t\t\tpartition = -partition\n", "\t\t\tpartition = 0\n", "negation replaced"),
    ("C17", "hash_choice", S, "partitioner.go", "hashPartitioner) Partition", "partition = int32(p.hasher.Sum32()) % numPartitions", "partition = int32(p.hasher.Sum32()) % (numPartitions - 1)", "changed modulus"),
    ("C17", "hash_choice", S, "partitioner.go", "hashPartitioner) Partition", "partition = int32(p.hasher.Sum32()) % numPartitions", "partition = int32(p.hasher.Sum32() % uint32(numPartitions))", "modulus taken before the sign conversion"),
    ("C17", "hash_partition", S, "partitioner.go", "hashPartitioner) Partition", "\tbytes, err := message.Key.Encode()\n\tif err != nil {\n\t\treturn -1, err", "\tbytes, err := message.Key.Encode()\n\tif err != nil {\n\t\treturn 0, err", "changed error result"),
    ("C17", "hash_partition", S, "partitioner.go", "hashPartitioner) Partition", "if message.Key == nil {", "if message.Key != nil {", "flipped nil test"),
    ("C17", "hash_choice", H, "partitioner.go", "hashPartitioner) Partition", "if partition < 0 {", "if partition <= 0 {", "negating zero is the identity"),
    ("C17", "round_robin_partition", H, "partitioner.go", "roundRobinPartitioner) Partition", "if p.partition >= numPartitions {", "if !(p.partition < numPartitions) {", ">= written as !<"),
    # ---------------------------------------------------------------- C19
    ("C19", "is_err_no_controller", S, "admin.go", "isErrNoController", "case *TopicPartitionError:\n\t\treturn e.Err == ErrNotController", "case *TopicPartitionError:\n\t\treturn e.Err == ErrNotLeaderForPartition", "other constant"),
    ("C19", "is_err_no_controller", S, "admin.go", "isErrNoController", "\tcase KError:\n\t\treturn e == ErrNotController\n", "", "dropped clause"),
    ("C19", "is_err_no_controller", S, "admin.go", "isErrNoController", "\t}\n\treturn false\n", "\t}\n\treturn true\n", "flipped default"),
    ("C19", "depends_on_specific_node", S, "admin.go", "dependsOnSpecificNode", "resource.Name != \"\"", "resource.Name == \"\"", "flipped comparison"),
    ("C19", "depends_on_specific_node", S, "admin.go", "dependsOnSpecificNode", "resource.Type == BrokerLoggerResource", "resource.Type == TopicResource", "other constant"),
    ("C19", "retry_on_error", S, "admin.go", "retryOnError", "attempt == 0 || attempt < ca.conf.Admin.Retry.Max", "attempt < ca.conf.Admin.Retry.Max", "first attempt no longer unconditional"),
    ("C19", "retry_on_error", S, "admin.go", "retryOnError", "err == nil || !retryable(err)", "err == nil || retryable(err)", "flipped retryable"),
    ("C19", "retry_on_error", S, "admin.go", "retryOnError", "attempt < ca.conf.Admin.Retry.Max;", "attempt <= ca.conf.Admin.Retry.Max;", "one more attempt"),
    ("C19", "retry_on_error", S, "admin.go", "retryOnError", "\t}\n\treturn err\n", "\t}\n\treturn nil\n", "exhausted retries reported as success"),
    ("C19", "retry_on_error", H, "admin.go", "retryOnError", "if err == nil || !retryable(err) {", "if !(err != nil && retryable(err)) {", "De Morgan"),
    ("C19", "is_err_no_controller", H, "admin.go", "isErrNoController",
     "\tcase *TopicError:\n\t\treturn e.Err == ErrNotController\n\tcase *TopicPartitionError:\n\t\treturn e.Err == ErrNotController\n",
     "\tcase *TopicPartitionError:\n\t\treturn e.Err == ErrNotController\n\tcase *TopicError:\n\t\treturn ErrNotController == e.Err\n", "reordered clauses, swapped operands"),
    ("C19", "retry_on_error", H, "admin.go", "retryOnError", "if err == nil || !retryable(err) {", "if nil == err || !retryable(err) {", "mirrored error comparison"),
    ("C19", "depends_on_specific_node", H, "admin.go", "dependsOnSpecificNode", "resource.Name != \"\"", "\"\" != resource.Name", "mirrored string comparison"),
    # ---------------------------------------------------------------- C03
    ("C03", "choose_starting_offset", S, "consumer.go", "chooseStartingOffset", "offset >= oldestOffset && offset <= newestOffset", "offset > oldestOffset && offset <= newestOffset", "comparison >= to >"),
    ("C03", "choose_starting_offset", S, "consumer.go", "chooseStartingOffset", "case offset == OffsetNewest:\n\t\tchild.offset = newestOffset", "case offset == OffsetNewest:\n\t\tchild.offset = oldestOffset", "wrong offset chosen"),
    ("C03", "choose_starting_offset", S, "consumer.go", "chooseStartingOffset", "return ErrOffsetOutOfRange", "return nil", "out-of-range accepted"),
    ("C03", "fetch_size_escalation", S, "consumer.go", "parseResponse", "child.fetchSize *= 2", "child.fetchSize *= 4", "changed factor"),
    ("C03", "fetch_size_escalation", S, "consumer.go", "parseResponse", "child.fetchSize = math.MaxInt32", "child.fetchSize = math.MaxInt16", "changed clamp"),
    ("C03", "fetch_size_escalation", S, "consumer.go", "parseResponse", "\t\t\t\tchild.offset++ // skip this one so we can keep processing future messages\n", "", "dropped skip"),
    ("C03", "fetch_size_escalation", S, "consumer.go", "parseResponse", "if child.fetchSize < 0 {", "if child.fetchSize <= 0 {", "overflow test widened"),
    ("C03", "fetch_size_escalation", H, "consumer.go", "parseResponse", "child.fetchSize > child.conf.Consumer.Fetch.Max {", "child.fetchSize >= child.conf.Consumer.Fetch.Max {", "clamping an equal value is the identity"),
    ("C03", "choose_starting_offset", H, "consumer.go", "chooseStartingOffset",
     "\tcase offset == OffsetNewest:\n\t\tchild.offset = newestOffset\n\tcase offset == OffsetOldest:\n\t\tchild.offset = oldestOffset\n",
     "\tcase offset == OffsetOldest:\n\t\tchild.offset = oldestOffset\n\tcase OffsetNewest == offset:\n\t\tchild.offset = newestOffset\n", "reordered exclusive cases"),
    # ---------------------------------------------------------------- C14
    ("C14", "get_header_length", S, "broker.go", "getHeaderLength", "headerVersion < 1", "headerVersion < 2", "changed constant"),
    ("C14", "get_header_length", S, "broker.go", "getHeaderLength", "return 9", "return 10", "changed constant"),
    ("C14", "response_header_decode", S, "response_header.go", "decode", "r.length <= 4", "r.length < 4", "comparison <= to <"),
    ("C14", "response_header_decode", S, "response_header.go", "decode", "r.length > MaxResponseSize", "r.length >= MaxResponseSize", "comparison > to >="),
    ("C14", "response_header_decode", S, "response_header.go", "decode", "if version >= 1 {", "if version >= 2 {", "changed constant"),
    ("C14", "response_header_decode", S, "response_header.go", "decode", "\tr.length, err = pd.getInt32()\n\tif err != nil {\n\t\treturn err\n\t}\n", "\tr.length, err = pd.getInt32()\n", "dropped error check"),
    ("C14", "receive_one", S, "broker.go", "responseReceiver", "decodedHeader.correlationID != response.correlationID", "decodedHeader.correlationID == response.correlationID", "flipped comparison"),
    ("C14", "receive_one", S, "broker.go", "responseReceiver", "decodedHeader.length-int32(headerLength)+4", "decodedHeader.length-int32(headerLength)+8", "changed constant"),
    ("C14", "receive_one", S, "broker.go", "responseReceiver", "\t\t\tdead = err\n#0", "", "dropped dead = err"),
    ("C14", "get_header_length", H, "broker.go", "getHeaderLength",
     "\tif headerVersion < 1 {\n\t\treturn 8\n\t} else {\n\t\t// header contains additional tagged field length (0), we don't support actual tags yet.\n\t\treturn 9\n\t}",
     "\tif headerVersion >= 1 {\n\t\treturn 9\n\t}\n\treturn 8", "early return, negated test"),
    ("C14", "response_header_decode", H, "response_header.go", "decode", "r.length <= 4 || r.length > MaxResponseSize", "r.length > MaxResponseSize || r.length < 5", "swapped disjuncts, <= 4 as < 5"),
    # ---------------------------------------------------------------- C15
    ("C15", "cached_leader", S, "client.go", "cachedLeader", "metadata.Err == ErrLeaderNotAvailable", "metadata.Err != ErrLeaderNotAvailable", "flipped comparison"),
    ("C15", "cached_leader", S, "client.go", "cachedLeader", "return nil, ErrUnknownTopicOrPartition", "return nil, ErrLeaderNotAvailable", "other error"),
    ("C15", "cached_leader", S, "client.go", "cachedLeader", "if b == nil {", "if b != nil {", "flipped nil test"),
    ("C15", "partition_filter", S, "client.go", "setPartitionCache", "partitionSet == writablePartitions", "partitionSet == allPartitions", "other constant"),
    ("C15", "partition_filter", S, "client.go", "setPartitionCache", "partitionSet == writablePartitions && partition.Err == ErrLeaderNotAvailable", "partitionSet == writablePartitions || partition.Err == ErrLeaderNotAvailable", "&& to ||"),
    ("C15", "partition_filter", S, "client.go", "setPartitionCache", "ret = append(ret, partition.ID)", "ret = append(ret, partition.Leader)", "other field"),
    ("C15", "topic_error_class", S, "client.go", "updateMetadata", "\t\t\terr = topic.Err\n\t\t\tretry = true\n", "\t\t\terr = topic.Err\n", "dropped retry = true"),
    ("C15", "topic_error_class", S, "client.go", "updateMetadata", "case ErrLeaderNotAvailable: // retry, but store partial partition results\n\t\t\tretry = true\n", "case ErrLeaderNotAvailable: // retry, but store partial partition results\n\t\t\tretry = true\n\t\t\tcontinue\n", "partial results no longer stored"),
    ("C15", "topic_error_class", H, "client.go", "updateMetadata", "case ErrInvalidTopic, ErrTopicAuthorizationFailed:", "case ErrInvalidTopic:", "a case constant moved to the identical default clause"),
    # ---------------------------------------------------------------- C07
    ("C07", "join_error_class", S, "consumer_group.go", "newSession", "case ErrUnknownMemberId, ErrIllegalGeneration: // reset member ID and retry immediately\n#0", "case ErrUnknownMemberId: // reset member ID and retry immediately\n", "dropped case constant"),
    ("C07", "join_error_class", S, "consumer_group.go", "newSession", "\t\tif retries <= 0 {\n\t\t\treturn nil, join.Err\n#0", "\t\tif retries < 0 {\n\t\t\treturn nil, join.Err\n", "comparison <= to <"),
    ("C07", "join_error_class", S, "consumer_group.go", "newSession", "return c.retryNewSession(ctx, topics, handler, retries, true)\n\tcase ErrRebalanceInProgress: // retry after backoff\n\t\tif retries <= 0 {\n\t\t\treturn nil, join.Err", "return c.retryNewSession(ctx, topics, handler, retries, false)\n\tcase ErrRebalanceInProgress: // retry after backoff\n\t\tif retries <= 0 {\n\t\t\treturn nil, join.Err", "coordinator refresh dropped"),
    ("C07", "join_error_class", S, "consumer_group.go", "newSession", "\t\tc.memberID = join.MemberId\n", "", "dropped assignment"),
    ("C07", "sync_error_class", S, "consumer_group.go", "newSession", "case ErrUnknownMemberId, ErrIllegalGeneration: // reset member ID and retry immediately\n#1", "case ErrIllegalGeneration: // reset member ID and retry immediately\n", "dropped case constant"),
    ("C07", "sync_error_class", S, "consumer_group.go", "newSession", "\t\tif retries <= 0 {\n\t\t\treturn nil, groupRequest.Err\n#1", "\t\tif retries <= 1 {\n\t\t\treturn nil, groupRequest.Err\n", "changed constant"),
    ("C07", "sync_error_class", S, "consumer_group.go", "newSession", "\t\tc.memberID = \"\"\n#1", "", "dropped reset of the member id"),
    ("C07", "heartbeat_error_class", S, "consumer_group.go", "heartbeatLoop", "case ErrRebalanceInProgress, ErrUnknownMemberId, ErrIllegalGeneration:", "case ErrRebalanceInProgress, ErrIllegalGeneration:", "dropped case constant"),
    ("C07", "heartbeat_error_class", S, "consumer_group.go", "heartbeatLoop", "\t\t\tretries = s.parent.config.Metadata.Retry.Max\n", "\t\t\tretries = 0\n", "retry budget not restored"),
    ("C07", "heartbeat_error_class", S, "consumer_group.go", "heartbeatLoop", "\t\t\ts.parent.handleError(resp.Err, \"\", -1)\n\t\t\treturn\n\t\t}\n\n\t\tselect", "\t\t\treturn\n\t\t}\n\n\t\tselect", "error no longer reported"),
    ("C07", "join_error_class", H, "consumer_group.go", "newSession",
     "\tcase ErrNoError:\n\t\tc.memberID = join.MemberId\n\tcase ErrUnknownMemberId, ErrIllegalGeneration: // reset member ID and retry immediately\n\t\tc.memberID = \"\"\n\t\treturn c.newSession(ctx, topics, handler, retries)\n",
     "\tcase ErrIllegalGeneration, ErrUnknownMemberId:\n\t\tc.memberID = \"\"\n\t\treturn c.newSession(ctx, topics, handler, retries)\n\tcase ErrNoError:\n\t\tc.memberID = join.MemberId\n", "reordered clauses and constants"),
    # ======================================================================================= second wave
    # ---------------------------------------------------------------- C17
    ("C17", "partition_source", S, "async_producer.go", "partitionMessage", "requiresConsistency = ep.MessageRequiresConsistency(msg)", "requiresConsistency = !ep.MessageRequiresConsistency(msg)", "per-message consistency negated"),
    ("C17", "partition_source", S, "async_producer.go", "partitionMessage", "requiresConsistency = tp.partitioner.RequiresConsistency()", "requiresConsistency = true", "constant instead of the partitioner's answer"),
    ("C17", "partition_source", S, "async_producer.go", "partitionMessage", "partitions, err = tp.parent.client.Partitions(msg.Topic)\n\t\t} else {\n\t\t\tpartitions, err = tp.parent.client.WritablePartitions(msg.Topic)", "partitions, err = tp.parent.client.WritablePartitions(msg.Topic)\n\t\t} else {\n\t\t\tpartitions, err = tp.parent.client.Partitions(msg.Topic)", "all / writable partitions swapped"),
    ("C17", "partition_source", H, "async_producer.go", "partitionMessage", "tp.partitioner.(DynamicConsistencyPartitioner); ok {", "tp.partitioner.(DynamicConsistencyPartitioner); ok == true {", "ok written as ok == true"),
    ("C17", "partition_pick", S, "async_producer.go", "partitionMessage", "choice >= numPartitions", "choice > numPartitions", "range check off by one"),
    ("C17", "partition_pick", S, "async_producer.go", "partitionMessage", "if numPartitions == 0 {", "if numPartitions < 0 {", "empty partition list accepted"),
    ("C17", "partition_pick", S, "async_producer.go", "partitionMessage", "return ErrInvalidPartition", "return ErrLeaderNotAvailable", "other error"),
    ("C17", "partition_pick", H, "async_producer.go", "partitionMessage", "choice < 0 || choice >= numPartitions", "choice >= numPartitions || choice < 0", "swapped disjuncts"),
    ("C17", "hash_partition_calls", S, "partitioner.go", "hashPartitioner) Partition", "\tp.hasher.Reset()\n", "", "hasher not reset"),
    ("C17", "hash_partition_calls", S, "partitioner.go", "hashPartitioner) Partition", "\tp.hasher.Reset()\n\t_, err = p.hasher.Write(bytes)\n", "\t_, err = p.hasher.Write(bytes)\n\tp.hasher.Reset()\n", "reset after write"),
    ("C17", "hash_partition_calls", H, "partitioner.go", "hashPartitioner) Partition", "\t_, err = p.hasher.Write(bytes)\n\tif err != nil {", "\t_, err = p.hasher.Write(bytes)\n\tif nil != err {", "mirrored nil test"),
    # ---------------------------------------------------------------- C01
    ("C01", "needs_retry", S, "async_producer.go", "needsRetry", "if bp.closing != nil {", "if bp.closing == nil {", "flipped nil test"),
    ("C01", "needs_retry", S, "async_producer.go", "needsRetry", "return bp.closing", "return nil", "closing error dropped"),
    ("C01", "needs_retry", H, "async_producer.go", "needsRetry", "\tif bp.closing != nil {\n\t\treturn bp.closing\n\t}\n\n\treturn bp.currentRetries[msg.Topic][msg.Partition]", "\tif bp.closing == nil {\n\t\treturn bp.currentRetries[msg.Topic][msg.Partition]\n\t}\n\treturn bp.closing", "negated test with swapped returns"),
    ("C01", "wait_for_space_recheck", S, "async_producer.go", "waitForSpace", "!bp.buffer.wouldOverflow(msg) && !forceRollover", "!bp.buffer.wouldOverflow(msg) || !forceRollover", "&& to ||"),
    ("C01", "wait_for_space_recheck", S, "async_producer.go", "waitForSpace", "\t\t\t\treturn reason\n", "\t\t\t\treturn nil\n", "retry reason dropped"),
    ("C01", "wait_for_space_recheck", H, "async_producer.go", "waitForSpace", "!bp.buffer.wouldOverflow(msg) && !forceRollover", "!forceRollover && !bp.buffer.wouldOverflow(msg)", "swapped conjuncts"),
    ("C01", "bp_input_class", S, "async_producer.go", "brokerProducer) run", "if bp.closing == nil && msg.flags&fin == fin {", "if msg.flags&fin == fin {", "dropped closing guard"),
    ("C01", "bp_input_class", S, "async_producer.go", "brokerProducer) run", "bp.parent.retryMessage(msg, ErrShuttingDown)", "bp.parent.retryMessage(msg, ErrOutOfBrokers)", "other error"),
    ("C01", "bp_input_class", S, "async_producer.go", "brokerProducer) run", "\t\t\t\tbp.currentRetries[msg.Topic][msg.Partition] = nil\n", "", "syn no longer clears the retry state"),
    ("C01", "bp_input_class", H, "async_producer.go", "brokerProducer) run", "if bp.closing == nil && msg.flags&fin == fin {", "if msg.flags&fin == fin && bp.closing == nil {", "swapped conjuncts"),
    ("C01", "pp_level_class", S, "async_producer.go", "partitionProducer) dispatch", "} else if pp.highWatermark > 0 {", "} else if pp.highWatermark >= 0 {", "comparison > to >="),
    ("C01", "pp_level_class", S, "async_producer.go", "partitionProducer) dispatch", "if msg.retries < pp.highWatermark {", "if msg.retries <= pp.highWatermark {", "comparison < to <="),
    ("C01", "pp_level_class", S, "async_producer.go", "partitionProducer) dispatch", "\t\t\t\tpp.flushRetryBuffers()\n", "", "retry buffers not flushed"),
    ("C01", "pp_level_class", H, "async_producer.go", "partitionProducer) dispatch", "if msg.retries < pp.highWatermark {", "if pp.highWatermark > msg.retries {", "mirrored comparison"),
    ("C01", "pp_stamp_sequence", S, "async_producer.go", "partitionProducer) dispatch", "pp.parent.conf.Producer.Idempotent && msg.retries == 0 && msg.flags == 0", "pp.parent.conf.Producer.Idempotent && msg.flags == 0", "retried messages stamped again"),
    ("C01", "pp_stamp_sequence", S, "async_producer.go", "partitionProducer) dispatch", "\t\t\tmsg.hasSequence = true\n", "", "dropped assignment"),
    ("C01", "pp_stamp_sequence", H, "async_producer.go", "partitionProducer) dispatch", "\t\t\tmsg.sequenceNumber, msg.producerEpoch = pp.parent.txnmgr.getAndIncrementSequenceNumber(msg.Topic, msg.Partition)\n\t\t\tmsg.hasSequence = true\n", "\t\t\tmsg.hasSequence = true\n\t\t\tmsg.sequenceNumber, msg.producerEpoch = pp.parent.txnmgr.getAndIncrementSequenceNumber(msg.Topic, msg.Partition)\n", "independent assignments reordered"),
    ("C01", "get_and_increment_sequence_number", S, "async_producer.go", "getAndIncrementSequenceNumber", "\"%s-%d\"", "\"%s_%d\"", "map key format changed"),
    ("C01", "get_and_increment_sequence_number", S, "async_producer.go", "getAndIncrementSequenceNumber", "t.sequenceNumbers[key] = sequence + 1", "t.sequenceNumbers[key] = sequence + 2", "changed increment"),
    ("C01", "get_and_increment_sequence_number", S, "async_producer.go", "getAndIncrementSequenceNumber", "return sequence, t.producerEpoch", "return sequence + 1, t.producerEpoch", "returns the incremented number"),
    ("C01", "get_and_increment_sequence_number", H, "async_producer.go", "getAndIncrementSequenceNumber", "\tt.sequenceNumbers[key] = sequence + 1\n", "\tnext := sequence + 1\n\tt.sequenceNumbers[key] = next\n", "hoisted local"),
    ("C01", "bump_epoch", S, "async_producer.go", "bumpEpoch", "t.sequenceNumbers[k] = 0", "t.sequenceNumbers[k] = 1", "changed constant"),
    ("C01", "bump_epoch", S, "async_producer.go", "bumpEpoch", "\tt.producerEpoch++\n", "", "epoch not bumped"),
    ("C01", "bump_epoch", H, "async_producer.go", "bumpEpoch", "t.producerEpoch++", "t.producerEpoch += 1", "++ written as += 1"),
    # ---------------------------------------------------------------- C16
    ("C16", "arm_flush_timer", S, "async_producer.go", "brokerProducer) run", "bp.parent.conf.Producer.Flush.Frequency > 0 && bp.timer == nil", "bp.parent.conf.Producer.Flush.Frequency >= 0 && bp.timer == nil", "comparison > to >="),
    ("C16", "arm_flush_timer", S, "async_producer.go", "brokerProducer) run", "bp.timer = time.After(bp.parent.conf.Producer.Flush.Frequency)", "bp.timerFired = true", "fires instead of arming"),
    ("C16", "arm_flush_timer", H, "async_producer.go", "brokerProducer) run", "if bp.parent.conf.Producer.Flush.Frequency > 0 && bp.timer == nil {", "if (bp.parent.conf.Producer.Flush.Frequency > 0) && (bp.timer == nil) { // arm", "parentheses and a comment"),
    ("C16", "enable_output", S, "async_producer.go", "brokerProducer) run", "\t\t\toutput = bp.output\n\t\t} else {\n\t\t\toutput = nil\n", "\t\t\toutput = nil\n\t\t} else {\n\t\t\toutput = bp.output\n", "swapped branches"),
    ("C16", "enable_output", S, "async_producer.go", "brokerProducer) run", "if bp.timerFired || bp.buffer.readyToFlush() {", "if bp.timerFired && bp.buffer.readyToFlush() {", "|| to &&"),
    ("C16", "enable_output", H, "async_producer.go", "brokerProducer) run", "\t\t\toutput = nil\n", "\t\t\toutput = (nil) // nothing to flush\n", "parentheses and a comment"),
    ("C16", "roll_over", S, "async_producer.go", "rollOver", "bp.timerFired = false", "bp.timerFired = true", "changed constant"),
    ("C16", "roll_over", S, "async_producer.go", "rollOver", "\tbp.timer = nil\n", "", "timer not cleared"),
    ("C16", "roll_over", H, "async_producer.go", "rollOver", "\tbp.timer = nil\n\tbp.timerFired = false\n", "\tbp.timerFired = false\n\tbp.timer = nil\n", "independent assignments reordered"),
    # ---------------------------------------------------------------- C05
    ("C05", "is_at_least", S, "utils.go", "IsAtLeast", "v.version[i] > other.version[i]", "v.version[i] >= other.version[i]", "comparison > to >="),
    ("C05", "is_at_least", S, "utils.go", "IsAtLeast", "\t}\n\treturn true\n", "\t}\n\treturn false\n", "equal versions not at least"),
    ("C05", "is_at_least", H, "utils.go", "IsAtLeast", "} else if v.version[i] < other.version[i] {", "} else if other.version[i] > v.version[i] {", "mirrored comparison"),
    ("C05", "validate_idempotent", S, "config.go", "Config) Validate", "if c.Producer.Retry.Max == 0 {", "if c.Producer.Retry.Max < 0 {", "Retry.Max = 0 accepted"),
    ("C05", "validate_idempotent", S, "config.go", "Config) Validate", "if c.Net.MaxOpenRequests > 1 {", "if c.Net.MaxOpenRequests > 2 {", "two open requests accepted"),
    ("C05", "validate_idempotent", S, "config.go", "Config) Validate", "if c.Producer.RequiredAcks != WaitForAll {", "if c.Producer.RequiredAcks == NoResponse {", "weaker acks requirement"),
    ("C05", "validate_idempotent", S, "config.go", "Config) Validate", "if !c.Version.IsAtLeast(V0_11_0_0) {\n\t\t\treturn ConfigurationError(\"Idempotent", "if !c.Version.IsAtLeast(V0_10_0_0) {\n\t\t\treturn ConfigurationError(\"Idempotent", "older version accepted"),
    ("C05", "validate_idempotent", H, "config.go", "Config) Validate", "if c.Net.MaxOpenRequests > 1 {", "if 1 < c.Net.MaxOpenRequests {", "mirrored comparison"),
    ("C05", "clear_message", S, "async_producer.go", "ProducerMessage) clear", "\tm.hasSequence = false\n", "", "hasSequence not reset (seeded/C05-10)"),
    ("C05", "clear_message", S, "async_producer.go", "ProducerMessage) clear", "m.retries = 0", "m.retries = 1", "changed constant"),
    ("C05", "clear_message", H, "async_producer.go", "ProducerMessage) clear", "\tm.flags = 0\n\tm.retries = 0\n", "\tm.retries = 0\n\tm.flags = 0\n", "independent assignments reordered"),
    # ---------------------------------------------------------------- C06
    ("C06", "close_final_flush", S, "offset_manager.go", "offsetManager) Close", "attempt <= om.conf.Consumer.Offsets.Retry.Max", "attempt < om.conf.Consumer.Offsets.Retry.Max", "one attempt fewer"),
    ("C06", "close_final_flush", S, "offset_manager.go", "offsetManager) Close", "if om.releasePOMs(false) == 0 {", "if om.releasePOMs(false) != 0 {", "flipped comparison"),
    ("C06", "close_final_flush", S, "offset_manager.go", "offsetManager) Close", "\t\t\t\tom.flushToBroker()\n", "", "no flush"),
    ("C06", "close_final_flush", H, "offset_manager.go", "offsetManager) Close", "if om.releasePOMs(false) == 0 {", "if 0 == om.releasePOMs(false) {", "mirrored comparison"),
    ("C06", "add_block", S, "offset_commit_request.go", "AddBlock", "\tif r.blocks == nil {\n\t\tr.blocks = make(map[string]map[int32]*offsetCommitRequestBlock)\n\t}\n\n", "", "dropped nil test of the outer map"),
    ("C06", "add_block", S, "offset_commit_request.go", "AddBlock", "if r.blocks[topic] == nil {", "if r.blocks[topic] != nil {", "flipped nil test"),
    ("C06", "add_block", S, "offset_commit_request.go", "AddBlock", "&offsetCommitRequestBlock{offset, timestamp, metadata}", "&offsetCommitRequestBlock{timestamp, offset, metadata}", "swapped fields"),
    ("C06", "add_block", H, "offset_commit_request.go", "AddBlock", "if r.blocks == nil {", "if (r.blocks == nil) { // first block", "parentheses and a comment"),
    # ---------------------------------------------------------------- C07
    ("C07", "claim_start", S, "consumer_group.go", "newConsumerGroupClaim", "offset = sess.parent.config.Consumer.Offsets.Initial", "offset = 0", "fallback offset changed"),
    ("C07", "claim_start", S, "consumer_group.go", "newConsumerGroupClaim", "if err == ErrOffsetOutOfRange {", "if err == ErrUnknownTopicOrPartition {", "other error triggers the fallback"),
    ("C07", "claim_start", S, "consumer_group.go", "newConsumerGroupClaim", "\tif err != nil {\n\t\treturn nil, err\n\t}\n", "\tif err != nil {\n\t\treturn nil, nil\n\t}\n", "error swallowed"),
    ("C07", "claim_start", H, "consumer_group.go", "newConsumerGroupClaim", "if err == ErrOffsetOutOfRange {", "if ErrOffsetOutOfRange == err {", "mirrored comparison"),
    # ---------------------------------------------------------------- C03
    ("C03", "parse_records", S, "consumer.go", "parseRecords", "if offset < child.offset {", "if offset <= child.offset {", "comparison < to <="),
    ("C03", "parse_records", S, "consumer.go", "parseRecords", "child.offset = offset + 1", "child.offset = offset", "next offset not advanced"),
    ("C03", "parse_records", S, "consumer.go", "parseRecords", "\tif len(messages) == 0 {\n\t\tchild.offset++\n\t}\n", "", "empty batch no longer skipped"),
    ("C03", "parse_records", H, "consumer.go", "parseRecords", "if offset < child.offset {", "if child.offset > offset {", "mirrored comparison"),
    ("C03", "parse_messages_inner", S, "consumer.go", "parseMessages", "if msg.Msg.Version >= 1 {", "if msg.Msg.Version >= 2 {", "changed constant"),
    ("C03", "parse_messages_inner", S, "consumer.go", "parseMessages", "offset += baseOffset", "offset -= baseOffset", "+= to -="),
    ("C03", "parse_messages_inner", S, "consumer.go", "parseMessages", "if offset < child.offset {", "if offset <= child.offset {", "comparison < to <="),
    ("C03", "parse_messages_inner", H, "consumer.go", "parseMessages", "if offset < child.offset {", "if !(offset >= child.offset) {", "< written as !>="),
    # ---------------------------------------------------------------- C11
    ("C11", "consume_aborted", S, "consumer.go", "parseResponse", "if txn.FirstOffset > records.RecordBatch.LastOffset() {", "if txn.FirstOffset >= records.RecordBatch.LastOffset() {", "comparison > to >="),
    ("C11", "consume_aborted", S, "consumer.go", "parseResponse", "\t\t\t\tabortedTransactions = abortedTransactions[1:]\n", "", "aborted transaction not popped"),
    ("C11", "consume_aborted", S, "consumer.go", "parseResponse", "LastOffset() {\n\t\t\t\t\tbreak", "LastOffset() {\n\t\t\t\t\tcontinue", "break to continue"),
    ("C11", "consume_aborted", H, "consumer.go", "parseResponse", "if txn.FirstOffset > records.RecordBatch.LastOffset() {", "if records.RecordBatch.LastOffset() < txn.FirstOffset {", "mirrored comparison"),
    ("C11", "batch_verdict", S, "consumer.go", "parseResponse", "controlRecord.Type == ControlRecordAbort", "controlRecord.Type == ControlRecordCommit", "other control type"),
    ("C11", "batch_verdict", S, "consumer.go", "parseResponse", "records.RecordBatch.IsTransactional && isAborted", "records.RecordBatch.IsTransactional || isAborted", "&& to ||"),
    ("C11", "batch_verdict", S, "consumer.go", "parseResponse", "if child.conf.Consumer.IsolationLevel == ReadCommitted {\n\t\t\t\t\treturn nil, err", "if child.conf.Consumer.IsolationLevel == ReadUncommitted {\n\t\t\t\t\treturn nil, err", "isolation levels swapped"),
    ("C11", "batch_verdict", H, "consumer.go", "parseResponse", "records.RecordBatch.IsTransactional && isAborted", "isAborted && records.RecordBatch.IsTransactional", "swapped conjuncts"),
    ("C11", "keep_records", S, "fetch_response.go", "FetchResponseBlock) decode", "if n > 0 || (partial && len(b.RecordsSet) == 0) {", "if n > 0 || partial {", "every partial set kept"),
    ("C11", "keep_records", S, "fetch_response.go", "FetchResponseBlock) decode", "\t\t\tb.RecordsSet = append(b.RecordsSet, records)\n", "", "records not kept"),
    ("C11", "keep_records", S, "fetch_response.go", "FetchResponseBlock) decode", "if b.Records == nil {", "if b.Records != nil {", "flipped nil test"),
    ("C11", "keep_records", H, "fetch_response.go", "FetchResponseBlock) decode", "if b.Records == nil {", "if (b.Records == nil) { // first", "parentheses and a comment"),
    ("C11", "aborted_less", S, "fetch_response.go", "getAbortedTransactions", "at[i].FirstOffset < at[j].FirstOffset", "at[i].FirstOffset > at[j].FirstOffset", "descending order"),
    ("C11", "aborted_less", S, "fetch_response.go", "getAbortedTransactions", "at[i].FirstOffset < at[j].FirstOffset", "at[i].FirstOffset <= at[j].FirstOffset", "not a strict order"),
    ("C11", "aborted_less", H, "fetch_response.go", "getAbortedTransactions", "at[i].FirstOffset < at[j].FirstOffset", "at[j].FirstOffset > at[i].FirstOffset", "mirrored comparison"),
    # ---------------------------------------------------------------- C15
    ("C15", "update_broker", S, "client.go", "updateBroker", "if client.brokers[broker.ID()] == nil { // add new broker", "if client.brokers[broker.ID()] != nil { // add new broker", "flipped nil test"),
    ("C15", "update_broker", S, "client.go", "updateBroker", "broker.Addr() != client.brokers[broker.ID()].Addr()", "broker.Addr() == client.brokers[broker.ID()].Addr()", "flipped comparison"),
    ("C15", "update_broker", S, "client.go", "updateBroker", "; !exist {", "; exist {", "sweep condition flipped"),
    ("C15", "update_broker", S, "client.go", "updateBroker", "\t\t\tdelete(client.brokers, id)\n", "", "stale broker kept"),
    ("C15", "update_broker", H, "client.go", "updateBroker", "broker.Addr() != client.brokers[broker.ID()].Addr()", "client.brokers[broker.ID()].Addr() != broker.Addr()", "mirrored string comparison"),
    # ---------------------------------------------------------------- C19
    ("C19", "delete_topic_attempt", S, "admin.go", "DeleteTopic", "if topicErr == ErrNotController {", "if topicErr == ErrNotLeaderForPartition {", "other constant"),
    ("C19", "delete_topic_attempt", S, "admin.go", "DeleteTopic", "return ErrIncompleteResponse", "return nil", "missing entry accepted"),
    ("C19", "delete_topic_attempt", H, "admin.go", "DeleteTopic", "if topicErr == ErrNotController {", "if ErrNotController == topicErr {", "mirrored comparison"),
    ("C19", "create_topic_attempt", S, "admin.go", "CreateTopic", "if topicErr.Err == ErrNotController {", "if topicErr.Err != ErrNotController {", "flipped comparison"),
    ("C19", "create_topic_attempt", S, "admin.go", "CreateTopic", "return ErrIncompleteResponse", "return nil", "missing entry accepted"),
    ("C19", "create_topic_attempt", H, "admin.go", "CreateTopic", "if topicErr.Err != ErrNoError {", "if ErrNoError != topicErr.Err {", "mirrored comparison"),
    ("C19", "create_partitions_attempt", S, "admin.go", "CreatePartitions", "if topicErr.Err != ErrNoError {", "if topicErr.Err == ErrNotController {", "only NOT_CONTROLLER reported"),
    ("C19", "create_partitions_attempt", S, "admin.go", "CreatePartitions", "\t\t\t\t_, _ = ca.refreshController()\n", "", "controller not refreshed"),
    ("C19", "create_partitions_attempt", H, "admin.go", "CreatePartitions", "if topicErr.Err == ErrNotController {", "if ErrNotController == topicErr.Err {", "mirrored comparison"),
    ("C19", "describe_groups_lookup", S, "admin.go", "DescribeConsumerGroups", "\t\tif err != nil {\n\t\t\treturn nil, err\n\t\t}\n\t\tgroupsPerBroker", "\t\tif err != nil {\n\t\t\treturn nil, nil\n\t\t}\n\t\tgroupsPerBroker", "lookup error swallowed"),
    ("C19", "describe_groups_lookup", S, "admin.go", "DescribeConsumerGroups", "\t\tif err != nil {\n#0", "\t\tif err == nil {\n", "flipped nil test"),
    ("C19", "describe_groups_lookup", H, "admin.go", "DescribeConsumerGroups", "\t\tif err != nil {\n#0", "\t\tif nil != err {\n", "mirrored nil test"),
    ("C19", "describe_groups_collect", S, "admin.go", "DescribeConsumerGroups", "result = append(result, response.Groups...)", "result = append(response.Groups, result...)", "descriptions collected in reverse order"),
    ("C19", "describe_groups_collect", S, "admin.go", "DescribeConsumerGroups", "\t\t\treturn nil, err\n\t\t}\n\n\t\tresult = append", "\t\t\treturn result, err\n\t\t}\n\n\t\tresult = append", "partial result returned with the error"),
    ("C19", "describe_groups_collect", H, "admin.go", "DescribeConsumerGroups", "\t\tif err != nil {\n#1", "\t\tif nil != err {\n", "mirrored nil test"),
    # ---------------------------------------------------------------- C20 (package mocks)
    ("C20", "sync_send_message", S, "mocks/sync_producer.go", "SendMessage", "\t\t\tsp.lastOffset++\n", "\t\t\tsp.lastOffset += 2\n", "offset step changed"),
    ("C20", "sync_send_message", S, "mocks/sync_producer.go", "SendMessage", "return 0, msg.Offset, nil", "return 0, 0, nil", "offset not returned"),
    ("C20", "sync_send_message", S, "mocks/sync_producer.go", "SendMessage", "if expectation.Result == errProduceSuccess {", "if expectation.Result != errProduceSuccess {", "flipped comparison"),
    ("C20", "sync_send_message", H, "mocks/sync_producer.go", "SendMessage", "if expectation.Result == errProduceSuccess {", "if errProduceSuccess == expectation.Result {", "mirrored comparison"),
    ("C20", "sync_send_messages", S, "mocks/sync_producer.go", "SendMessages", "if len(sp.expectations) >= len(msgs) {", "if len(sp.expectations) > len(msgs) {", "comparison >= to >"),
    ("C20", "sync_send_messages", S, "mocks/sync_producer.go", "SendMessages", "\t\tsp.expectations = sp.expectations[len(msgs):]\n", "", "expectations not consumed"),
    ("C20", "sync_send_messages", S, "mocks/sync_producer.go", "SendMessages", "\t\t\tsp.lastOffset++\n", "", "offsets not advanced"),
    ("C20", "sync_send_messages", H, "mocks/sync_producer.go", "SendMessages", "if expectation.Result != errProduceSuccess {", "if errProduceSuccess != expectation.Result {", "mirrored comparison"),
    ("C20", "consume_partition", S, "mocks/consumer.go", "ConsumePartition", "pc.offset != AnyOffset && pc.offset != offset", "pc.offset != AnyOffset || pc.offset != offset", "&& to ||"),
    ("C20", "consume_partition", S, "mocks/consumer.go", "ConsumePartition", "\tpc.consumed = true\n", "", "double consumption allowed"),
    ("C20", "consume_partition", S, "mocks/consumer.go", "ConsumePartition", "if pc.consumed {", "if !pc.consumed {", "flipped test"),
    ("C20", "consume_partition", H, "mocks/consumer.go", "ConsumePartition", "pc.offset != AnyOffset && pc.offset != offset", "pc.offset != offset && pc.offset != AnyOffset", "swapped conjuncts"),

    # ---------------------------------------------------------------- C10 (realDecoder primitive getters)
    ("C10", "get_int32", S, "real_decoder.go", "getInt32", "if rd.remaining() < 4 {", "if rd.remaining() < 3 {", "bounds constant changed"),
    ("C10", "get_varint", S, "real_decoder.go", "getVarint", "rd.off -= n", "rd.off += n", "overflow path moves the offset backwards"),
    ("C10", "get_uvarint", S, "real_decoder.go", "getUVarint", "if n == 0 {", "if n <= 0 {", "overflow reported as insufficient data"),
    ("C10", "get_array_length", S, "real_decoder.go", "getArrayLength", "if tmp > rd.remaining() {", "if tmp >= rd.remaining() {", "comparison > to >="),
    ("C10", "get_array_length", S, "real_decoder.go", "getArrayLength", "tmp > 2*math.MaxUint16", "tmp > 4*math.MaxUint16", "array limit changed"),
    ("C10", "get_array_length", S, "real_decoder.go", "getArrayLength", " || tmp < -1", "", "dropped negative-length test"),
    ("C10", "get_compact_array_length", S, "real_decoder.go", "getCompactArrayLength", "if n-1 > uint64(rd.remaining()) {", "if n > uint64(rd.remaining()) {", "off by one"),
    ("C10", "get_bool", S, "real_decoder.go", "getBool", "if b != 1 {", "if b < 1 {", "comparison != to <"),
    ("C10", "get_raw_bytes", S, "real_decoder.go", "getRawBytes", "\tif length < 0 {\n\t\treturn nil, errInvalidByteSliceLength\n\t} else if length > rd.remaining() {", "\tif length > rd.remaining() {", "dropped negative-length test"),
    ("C10", "get_raw_bytes", S, "real_decoder.go", "getRawBytes", "} else if length > rd.remaining() {", "} else if length >= rd.remaining() {", "comparison > to >="),
    ("C10", "get_raw_bytes", H, "real_decoder.go", "getRawBytes", "if length < 0 {", "if 0 > length {", "mirrored comparison"),
    ("C10", "get_string_length", S, "real_decoder.go", "getStringLength", "case n < -1:", "case n < 0:", "null length rejected"),
    ("C10", "get_string_length", H, "real_decoder.go", "getStringLength", "case n > rd.remaining():", "case rd.remaining() < n:", "mirrored comparison"),
    ("C10", "get_compact_string", S, "real_decoder.go", "getCompactString", "if length < 0 {", "if length < -1 {", "null compact string accepted"),
    ("C10", "get_compact_nullable_string", S, "real_decoder.go", "getCompactNullableString", "} else if length > rd.remaining() {", "} else if length-1 > rd.remaining() {", "off by one"),
    ("C10", "compact_int32_array_head", S, "real_decoder.go", "getCompactInt32Array", "uint64(rd.remaining()/4)", "uint64(rd.remaining())", "element width dropped from the bound"),
    ("C10", "int32_array_head", S, "real_decoder.go", "getInt32Array", "if rd.remaining() < 4*n {", "if rd.remaining() < n {", "element width dropped from the bound"),
    ("C10", "int64_array_head", S, "real_decoder.go", "getInt64Array", "\tif n < 0 {\n\t\treturn nil, errInvalidArrayLength\n\t}\n", "", "dropped negative-count test"),
    ("C10", "string_array_head", S, "real_decoder.go", "getStringArray", "if rd.remaining() < 2*n {", "if rd.remaining() < n {", "minimum element size changed"),
    ("C10", "peek", S, "real_decoder.go", "peek", "if rd.remaining() < offset+length {", "if rd.remaining() < length {", "offset dropped from the bound"),
    ("C10", "peek_int8", S, "real_decoder.go", "peekInt8", "if rd.remaining() < offset+byteLen {", "if rd.remaining() <= offset+byteLen {", "comparison < to <="),
    ("C10", "get_int32", S, "real_decoder.go", "getInt32", "rd.off += 4", "rd.off += 2", "offset advanced by the wrong width"),
    ("C10", "get_varint", S, "real_decoder.go", "getVarint", "if n < 0 {", "if n < -1 {", "overflow test relaxed"),
    ("C10", "get_uvarint", S, "real_decoder.go", "getUVarint", "rd.off -= n", "rd.off += n", "overflow path moves the offset backwards"),
    ("C10", "get_compact_array_length", S, "real_decoder.go", "getCompactArrayLength", "return int(n) - 1, nil", "return int(n), nil", "length not decremented"),
    ("C10", "get_bool", S, "real_decoder.go", "getBool", "if err != nil || b == 0 {", "if err != nil {", "false no longer accepted"),
    ("C10", "get_string_length", S, "real_decoder.go", "getStringLength", "case n > rd.remaining():", "case n >= rd.remaining():", "comparison > to >="),
    ("C10", "get_compact_string", S, "real_decoder.go", "getCompactString", "} else if length > rd.remaining() {", "} else if length >= rd.remaining() {", "comparison > to >="),
    ("C10", "get_compact_nullable_string", S, "real_decoder.go", "getCompactNullableString", "if length < 0 {", "if length <= 0 {", "empty string decoded as null"),
    ("C10", "compact_int32_array_head", S, "real_decoder.go", "getCompactInt32Array", "if n == 0 {", "if n == 1 {", "null marker changed"),
    ("C10", "int32_array_head", S, "real_decoder.go", "getInt32Array", "if rd.remaining() < 4 {", "if rd.remaining() < 2 {", "bounds constant changed"),
    ("C10", "int64_array_head", S, "real_decoder.go", "getInt64Array", "if rd.remaining() < 8*n {", "if rd.remaining() < 4*n {", "element width changed in the bound"),
    ("C10", "string_array_head", S, "real_decoder.go", "getStringArray", "if rd.remaining() < 4 {", "if rd.remaining() <= 4 {", "comparison < to <="),
    ("C10", "peek", S, "real_decoder.go", "peek", "off := rd.off + offset", "off := rd.off", "offset dropped from the range"),
    ("C10", "peek_int8", S, "real_decoder.go", "peekInt8", "return -1, ErrInsufficientData", "return 0, ErrInsufficientData", "value returned with the error changed"),
]


def func_region(text, fn):
    """(start, end) of the declaration of a function whose header contains `fn(`."""
    if not fn:
        return 0, len(text)
    pos = 0
    while True:
        i = text.find("\nfunc ", pos)
        if i < 0:
            raise ValueError("function %s not found" % fn)
        eol = text.index("\n", i + 1)
        if fn + "(" in text[i:eol]:
            j = text.find("\n}\n", i)
            return i, j + 3
        pos = i + 1


def apply_edit(path, fn, old, new):
    text = open(path).read()
    s, e = func_region(text, fn)
    nth = None
    if "#" in old[-3:]:
        old, k = old.rsplit("#", 1)
        nth = int(k)
    region = text[s:e]
    cnt = region.count(old)
    if cnt == 0 or (nth is None and cnt != 1) or (nth is not None and nth >= cnt):
        raise ValueError("edit pattern matches %d times in %s %s: %r" % (cnt, path, fn, old[:60]))
    idx = -1
    for _ in range((nth or 0) + 1):
        idx = region.find(old, idx + 1)
    region = region[:idx] + new + region[idx + len(old):]
    open(path, "w").write(text[:s] + region + text[e:])
    return text


def worker(wt, index, nworkers, result_file):
    os.environ["VERIF_REPO"] = wt
    sys.path.insert(0, os.path.join(VERIF, "lib"))
    sys.path.insert(0, os.path.join(VERIF, "checks"))
    import vlib
    import decgen_tie
    results = []
    for n, case in enumerate(CASES):
        if n % nworkers != index:
            continue
        if os.environ.get("SELFTEST_ONLY") and str(n) not in os.environ["SELFTEST_ONLY"].split(","):
            continue
        group, target, kind, file, fn, old, new, what = case
        path = os.path.join(wt, file)
        r = {"n": n, "group": group, "target": target, "kind": kind, "what": what, "file": file}
        try:
            orig = apply_edit(path, fn, old, new)
        except ValueError as ex:
            r["outcome"], r["pass"] = "BAD-EDIT: %s" % ex, False
            results.append(r)
            continue
        try:
            rc, out = vlib.sh(["go", "build", ".", "./mocks"], cwd=wt, timeout=600)
            if rc != 0:
                r["outcome"], r["pass"] = "DOES-NOT-COMPILE: " + out[-300:], False
            else:
                c = vlib.Check("decgen_selftest_%d" % index)
                res = decgen_tie.run_decgen(c, group)
                c.log.close()
                st = res["status"]
                if st == "stopped":
                    r["outcome"] = "STOP " + "; ".join(res.get("stops", []))[:300]
                elif st == "differs":
                    r["outcome"] = "DECEQ-FAIL " + ",".join(res["failed"]) if res["failed"] else "DECEQ-FAIL (regenerated file does not compile)"
                elif st == "identical":
                    r["outcome"] = "IDENTICAL"
                elif st == "equivalent":
                    r["outcome"] = "EQUIVALENT"
                else:
                    r["outcome"] = "ERROR " + json.dumps(c.broken)[:400]
                caught = st in ("stopped", "differs")
                if kind == S:
                    r["pass"] = caught
                    if st == "differs" and res["failed"]:
                        # the failing lemma must be the mutated target (or its loop), not something unrelated
                        r["pass"] = any(f == "deceq_" + target or f.startswith("deceq_" + target + "_loop") for f in res["failed"])
                else:
                    r["pass"] = st in ("identical", "equivalent")
        finally:
            open(path, "w").write(orig)
        results.append(r)
        print("[%d] %-4s %-24s %-8s %-5s %s  (%s)" % (n, group, target, kind, "ok" if r["pass"] else "MISS", r["outcome"][:110], what), flush=True)
    json.dump(results, open(result_file, "w"), indent=1)


if __name__ == "__main__":
    if sys.argv[1] == "worker":
        worker(sys.argv[2], int(sys.argv[3]), int(sys.argv[4]), sys.argv[5])
    elif sys.argv[1] == "count":
        print(len(CASES))
