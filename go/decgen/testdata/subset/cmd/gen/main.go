// gen prints Coq Examples "translated function on inputs = what Go computed".
package main

import (
	"fmt"

	"subset"
)

func z(v int64) string {
	if v < 0 {
		return fmt.Sprintf("(%d)", v)
	}
	return fmt.Sprint(v)
}

var n = 0

func ex(lhs, rhs string) {
	n++
	fmt.Printf("Example subset_%d : %s = %s. Proof. vm_compute. reflexivity. Qed.\n", n, lhs, rhs)
}

func main() {
	i32 := []int32{0, 1, -1, 2, 7, -7, 100, 65535, 1 << 30, -(1 << 30), 2147483647, -2147483648, 123456789, -987654321}
	for _, a := range i32 {
		for _, b := range i32 {
			ex(fmt.Sprintf("arith32 %s %s", z(int64(a)), z(int64(b))), z(int64(subset.Arith32(a, b))))
		}
		for _, s := range []uint{0, 1, 5, 31, 32, 33, 63, 64, 100} {
			ex(fmt.Sprintf("shifts %s %d", z(int64(a)), s), z(int64(subset.Shifts(a, s))))
		}
		ex(fmt.Sprintf("neg %s", z(int64(a))), z(int64(subset.Neg(a))))
	}
	u32 := []uint32{0, 1, 2, 255, 65536, 1 << 31, 4294967295, 4000000000, 305419896}
	for _, a := range u32 {
		for _, b := range u32 {
			ex(fmt.Sprintf("unsigned %d %d", a, b), fmt.Sprint(subset.Unsigned(a, b)))
		}
	}
	i64 := []int64{0, 1, -1, 127, 128, 255, 256, 32767, 32768, -32768, -32769, 1 << 40, -(1 << 40), 9223372036854775807, -9223372036854775808, 3037000500}
	for _, a := range i64 {
		for _, b := range []int8{0, 1, -1, 127, -128, 50} {
			ex(fmt.Sprintf("mixed %s %s", z(a), z(int64(b))), z(int64(subset.Mixed(a, b))))
		}
		for _, b := range i64 {
			ex(fmt.Sprintf("wide %s %s", z(a), z(b)), z(subset.Wide(a, b)))
		}
	}
	for _, a := range []uint8{0, 1, 55, 56, 100, 255} {
		for _, b := range []int8{0, 1, -1, 127, -128, -28, -29, 99, 100} {
			ex(fmt.Sprintf("bytes %d %s", a, z(int64(b))), fmt.Sprint(subset.Bytes(a, b)))
		}
	}
	errs := []struct {
		e error
		t string
	}{{nil, "ENil"}, {subset.ErrA, `(EVar "ErrA"%string)`}, {subset.ErrB, `(EVar "ErrB"%string)`},
		{fmt.Errorf("x: %w", subset.ErrA), `(EWrap (EVar "ErrA"%string))`}, {fmt.Errorf("x: %w", subset.ErrB), `(EWrap (EVar "ErrB"%string))`},
		{fmt.Errorf("y"), "(EOther 1)"}, {fmt.Errorf("z: %w", fmt.Errorf("x: %w", subset.ErrA)), `(EWrap (EWrap (EVar "ErrA"%string)))`}}
	for _, e := range errs {
		ex("classify "+e.t, fmt.Sprint(subset.Classify(e.e)))
	}
	for k := -2; k < 40; k++ {
		ex(fmt.Sprintf("sum_to %s", z(int64(k))), z(int64(subset.SumTo(k))))
		ex(fmt.Sprintf("sw %s", z(int64(k))), z(int64(subset.Sw(k))))
		ex(fmt.Sprintf("loop_le %s", z(int64(k))), z(int64(subset.LoopLE(k))))
	}
	for _, s := range []string{"", "a", "hello", "with \"quote\""} {
		q := `"` + fmt.Sprint(replaceQuotes(s)) + `"%string`
		ex("str_len "+q, z(int64(subset.StrLen(s))))
	}
	for a := -1; a < 9; a++ {
		for b := -1; b < 9; b++ {
			t, h := subset.Scan(a, b)
			ex(fmt.Sprintf("scan %s %s", z(int64(a)), z(int64(b))), fmt.Sprintf("(%s, %v)", z(int64(t)), h))
		}
	}
}

func replaceQuotes(s string) string {
	out := ""
	for _, r := range s {
		if r == '"' {
			out += `""`
		} else {
			out += string(r)
		}
	}
	return out
}
