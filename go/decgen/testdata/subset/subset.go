// Package subset exercises the operators and statements of the decgen subset that the sarama targets do not
// all reach; selftest.sh translates it, runs the Go functions on a grid of inputs and lets Coq check that the
// translated definitions compute the same values (validation of the operator semantics in coq/Gen/GoInt.v).
package subset

import "errors"

var ErrA = errors.New("a")
var ErrB = errors.New("b")

func Arith32(a, b int32) int32 { return (a+b)*3 - a/(b|1) + a%(b|1) }

func Shifts(a int32, n uint) int32 { return a<<n ^ (a >> (n & 31)) }

func Unsigned(a, b uint32) uint32 { return (a-b)&^(b<<3) + ^a }

func Mixed(a int64, b int8) int16 { return int16(a) + int16(b)*int16(int8(a)) }

func Wide(a, b int64) int64 {
	c := a * b
	c -= a
	c++
	return c | 1
}

func Bytes(a uint8, b int8) uint16 {
	a += 200
	b -= 100
	return uint16(a)<<4 + uint16(uint8(b))
}

func Neg(a int32) int32 {
	if a < 0 {
		a = -a
	}
	return a
}

func Classify(err error) int {
	switch {
	case err == nil:
		return 0
	case errors.Is(err, ErrA):
		return 1
	case err == ErrB:
		return 2
	}
	return 3
}

func SumTo(n int) int {
	s := 0
	for i := 0; i < n; i++ {
		if i%3 == 0 {
			continue
		}
		if s > 100 {
			break
		}
		s += i
	}
	return s
}

func Sw(x int) int {
	r := 0
	switch x {
	case 1:
		r = 10
		fallthrough
	case 2:
		r += 5
	case 3, 4:
		if x > 3 {
			break
		}
		r = 7
	default:
		r = -1
	}
	return r
}

func StrLen(s string) int {
	if s == "" {
		return -1
	}
	return len(s)
}

func Scan(n, m int) (total int, hit bool) {
	for i := 0; i < n; i++ {
		if i*m == 6 {
			hit = true
			continue
		}
		total += i + m
		if total > 50 {
			return total, hit
		}
	}
	return
}

// LoopLE: inclusive bound.
func LoopLE(n int) int {
	s := 0
	for i := 2; i <= n; i++ {
		s += i * i
	}
	return s
}

// Nested is outside the subset (a loop inside a loop): the translator must stop on it.
func Nested(n, m int) (total int) {
	for i := 0; i < n; i++ {
		for j := 0; j < m; j++ {
			total += i + j
		}
	}
	return
}
