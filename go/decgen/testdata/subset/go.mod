module subset

go 1.21
