#!/usr/bin/env python3
"""Differential run of the decgen goldens against the real Go functions (validates the translator).
Usage: corr_run.py [seed] [n]     (VERIF_REPO selects the tree; default /repo)"""
import glob, os, sys
VERIF = os.path.dirname(os.path.dirname(os.path.dirname(os.path.abspath(__file__))))
sys.path.insert(0, os.path.join(VERIF, "lib"))
import vlib

seed = int(sys.argv[1]) if len(sys.argv) > 1 else 1
n = int(sys.argv[2]) if len(sys.argv) > 2 else 300
c = vlib.Check("decgen_corr", "quick", seed)
targets = ["Gen/DecCorr.vo"] + [os.path.relpath(p, vlib.COQ) + "o" for p in sorted(glob.glob(os.path.join(vlib.COQ, "Gen", "Dec*.v")))]
ok, out = vlib.coq_make(targets)
if not ok:
    print(out); sys.exit(2)
b = c.go_build("decgencorr")
if not b:
    print(open(os.path.join(c.build, "check.log")).read()[-3000:]); sys.exit(2)
rc, out = c.run([b, "-out", c.build, "-seed", str(seed), "-n", str(n)], timeout=600)
if rc != 0:
    print(out[-3000:]); sys.exit(2)
files = [l.split(" ", 1)[1] for l in out.splitlines() if l.startswith("CASEFILE ")]
mism = c.eval_cases(files, name="decgen goldens vs Go")
dist = c.extra.get("distribution", {})
print("decgencorr seed=%d: %d cases, %d distinct non-trivial, per function: %s" % (seed, c.cases, len(c.hashes_nontrivial), dist))
for b_ in c.broken[:8]:
    print("DIFF", b_["name"], b_["detail"][:300])
if len(c.broken) > 8:
    print("… %d differences in total" % len(c.broken))
c.log.close()
sys.exit(1 if c.broken else 0)
