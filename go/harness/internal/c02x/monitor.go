package c02x

import (
	"fmt"
	"sort"
	"strings"

	"verifharness/internal/cluster"
)

// SigBacklog is the signature of the announced defect of the pinned tree (Retry.Max = 0: an abandoned broker
// worker still sends its backlog while the partition worker already routes newer messages through a fresh one).
const SigBacklog = "c02:retry0:abandoned-backlog"

func specOf(sc *cluster.Scenario, id int64) (cluster.MsgSpec, bool) {
	for _, m := range sc.Msgs {
		if m.ID == id {
			return m, true
		}
	}
	return cluster.MsgSpec{}, false
}

// FirstCopies reduces a partition log to the first copy of every harness message (markers/foreign records dropped).
func FirstCopies(log []cluster.Appended) []int64 {
	seen := map[int64]bool{}
	var out []int64
	for _, a := range log {
		if a.ID < 0 || seen[a.ID] {
			continue
		}
		seen[a.ID] = true
		out = append(out, a.ID)
	}
	return out
}

func allIDs(log []cluster.Appended) []int64 {
	var out []int64
	for _, a := range log {
		out = append(out, a.ID)
	}
	return out
}

// backlog answers whether the reordering of i < j (j ahead of i) has the history shape of the announced defect:
// Retry.Max = 0, some produce answer carried an error, a broker worker W raised registry.abandon, message i was
// received (bp.recv) by W — it sat in W's input/buffer when W was abandoned, or was handed to W by a partition
// worker that had not yet noticed (a message W had fully served before cannot be overtaken by j) — and message j
// was received by a different broker worker after W's first registry.abandon.
// W is identified by its goroutine: registry.abandon is raised on the goroutine of brokerProducer.run (the
// decoded point carries no Actor), the same goroutine that raises bp.recv.
func backlog(res *cluster.Result, i, j int64) bool {
	sc := res.Scenario
	if sc.RetryMax != 0 {
		return false
	}
	faulted := false
	for _, r := range res.Requests {
		if r.Fault.Kind != cluster.Ok {
			faulted = true
		}
	}
	firstAb := map[int64]int{} // worker goroutine -> Seq of its first registry.abandon
	for _, e := range res.Events {
		if e.Kind == "registry.abandon" {
			faulted = true
			if _, ok := firstAb[e.Goid]; !ok {
				firstAb[e.Goid] = e.Seq
			}
		}
	}
	if !faulted || len(firstAb) == 0 {
		return false
	}
	// the broker workers that received i and j (Retry.Max = 0: a data message reaches a broker worker at most once)
	wi, wj := int64(-1), int64(-1)
	recvJ := -1
	for _, e := range res.Events {
		if e.Msg == nil || e.Msg.Flags != 0 {
			continue
		}
		switch {
		case e.Msg.ID == i && e.Kind == "bp.recv":
			wi = e.Goid
		case e.Msg.ID == j && e.Kind == "bp.recv":
			wj, recvJ = e.Goid, e.Seq
		}
	}
	if wi < 0 || wj < 0 || wi == wj {
		return false
	}
	fa, ok := firstAb[wi]
	if !ok {
		return false
	}
	return recvJ > fa
}

// Monitor evaluates property C02 directly on what the cluster logged and the application observed:
// (a) per partition, the first copies of the submitted messages appear in submission (= id) order;
// (b) of two messages of one partition both reported successful, the earlier has the smaller offset.
// It does not count outcomes (that is C01's monitor).
func Monitor(res *cluster.Result) []cluster.Finding {
	if res.SetupErr != "" {
		return nil
	}
	sc := res.Scenario
	var fs []cluster.Finding
	var keys []string
	for k := range res.Logs {
		keys = append(keys, k)
	}
	sort.Strings(keys)
	generic := fmt.Sprintf("retrymax=%d", sc.RetryMax)
	for _, k := range keys {
		first := FirstCopies(res.Logs[k])
		// every inversion (j ahead of i, i < j); the known-defect signature only if all of them have its shape
		var bi, bj int64
		bad, explained := false, true
		for a := 0; a < len(first); a++ {
			for c := a + 1; c < len(first); c++ {
				if first[c] < first[a] {
					i, j := first[c], first[a]
					ex := backlog(res, i, j)
					if !bad || (explained && !ex) {
						bi, bj = i, j
					}
					bad = true
					if !ex {
						explained = false
					}
				}
			}
		}
		if bad {
			sig := "c02:first-copy-reordered:" + generic
			if explained {
				sig = SigBacklog
			}
			fs = append(fs, cluster.Finding{Signature: sig, What: fmt.Sprintf("partition %s: message %d (submitted later) was appended ahead of message %d; log %v, first copies %v",
				k, bj, bi, allIDs(res.Logs[k]), first)})
		}
	}
	// (b) success offsets
	type so struct {
		id, off int64
	}
	per := map[string][]so{}
	for _, o := range res.Outcomes {
		if !o.Success {
			continue
		}
		sp, ok := specOf(sc, o.ID)
		if !ok {
			continue
		}
		k := fmt.Sprintf("%s/%d", sp.Topic, o.Partition)
		per[k] = append(per[k], so{o.ID, o.Offset})
	}
	keys = keys[:0]
	for k := range per {
		keys = append(keys, k)
	}
	sort.Strings(keys)
	for _, k := range keys {
		v := per[k]
		sort.Slice(v, func(a, c int) bool { return v[a].id < v[c].id })
		var bi, bj so
		bad, explained := false, true
		for a := 0; a < len(v); a++ {
			for c := a + 1; c < len(v); c++ {
				if v[a].off >= v[c].off {
					ex := backlog(res, v[a].id, v[c].id)
					if !bad || (explained && !ex) {
						bi, bj = v[a], v[c]
					}
					bad = true
					if !ex {
						explained = false
					}
				}
			}
		}
		if bad {
			sig := "c02:success-offsets-reordered:" + generic
			if explained {
				sig = SigBacklog
			}
			var parts []string
			for _, x := range v {
				parts = append(parts, fmt.Sprintf("%d@%d", x.id, x.off))
			}
			fs = append(fs, cluster.Finding{Signature: sig, What: fmt.Sprintf("partition %s: messages %d and %d both succeeded with offsets %d and %d (successes id@offset: %s)",
				k, bi.id, bj.id, bi.off, bj.off, strings.Join(parts, " "))})
		}
	}
	// the generic signatures first: they are what must not hide behind the known one
	sort.SliceStable(fs, func(a, c int) bool { return fs[a].Signature != SigBacklog && fs[c].Signature == SigBacklog })
	return fs
}
