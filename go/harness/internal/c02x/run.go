// Package c02x is the harness side of property C02 (per-partition submission order survives retries):
// scenario families aimed at the retry windows of partitionProducer.dispatch, a runner with richer schedule
// steering than cluster.Run (hold a goroutine at a hook point until another hook point was observed), the
// ordering monitor, and the driver of cmd/c02corr. It reuses verifharness/internal/cluster (cluster
// simulator, observer, Coq case rendering) unchanged.
package c02x

import (
	"fmt"
	"strings"
	"sync"
	"time"

	"github.com/Shopify/sarama"

	"verifharness/internal/cluster"
)

// Release is a condition on the hook log: Count (>= 1) points of Kind naming message MsgID (0 = any) were seen.
type Release struct {
	Kind  string `json:"kind"`
	MsgID int64  `json:"msgid,omitempty"`
	Count int    `json:"count,omitempty"`
}

// Steer is one scheduling aid: the goroutine reaching the HoldNth-th hook point of HoldKind that matches
// (HoldMsgID: the point's message, or a message of the point's produce set, has this id; HoldFin: the
// point's message is a fin marker) blocks until the release condition holds:
//   - ReleaseOn != nil: the condition was observed (at any time of the run, also before the hold was reached);
//   - ReleaseAfterWave > 0: that wave was submitted (or its submission got stuck behind the held goroutine
//     for 1 ms: the first messages have then entered the pipeline);
//   - neither: at once (the hold is only a synchronisation point for Gate).
//
// Gate > 0: wave Gate is submitted only after the hold was reached (bounded wait).
// Every hold ends after holdBound at the latest, so a steering script that does not fit the run cannot hang
// it; a run in which a hold was not reached is still a valid run.
type Steer struct {
	HoldKind         string   `json:"holdkind"`
	HoldNth          int      `json:"holdnth"`
	HoldMsgID        int64    `json:"holdmsgid,omitempty"`
	HoldFin          bool     `json:"holdfin,omitempty"`
	ReleaseOn        *Release `json:"releaseon,omitempty"`
	ReleaseAfterWave int      `json:"releaseafterwave,omitempty"`
	Gate             int      `json:"gate,omitempty"`
}

// closeBound bounds the wait for AsyncClose; closeLimit is the bound in force: after the first run that did not
// close (never on a correct tree) the following runs wait 2 s only, after the fifth 400 ms, so that a broken
// tree costs a minute, not an hour (a hang is C01's business; the partition logs are complete by then).
var closeLimit = closeBound
var hangs int

func hung() {
	hangs++
	closeLimit = 2 * time.Second
	if hangs >= 5 {
		closeLimit = 400 * time.Millisecond
	}
}

// LastInputBlocked reports whether a send on Input() of the latest Run did not complete within inputBound (the
// pipeline stopped accepting messages; never on a correct tree). Runs are sequential within a process.
var LastInputBlocked bool

const (
	inputBound = 3 * time.Second
	closeBound = 20 * time.Second
	holdBound  = 300 * time.Millisecond
	gateBound  = 60 * time.Millisecond
)

func matchID(e *sarama.VerifProdEvent, id int64) bool {
	if id == 0 {
		return true
	}
	if e.Msg != nil {
		return e.Msg.ID == id
	}
	for _, p := range e.Set {
		for _, m := range p.Msgs {
			if m.ID == id {
				return true
			}
		}
	}
	return false
}

func message(s cluster.MsgSpec) *sarama.ProducerMessage {
	val := fmt.Sprintf("%d", s.ID)
	if s.Pad > 0 {
		val += ":" + strings.Repeat("p", s.Pad)
	}
	return &sarama.ProducerMessage{Topic: s.Topic, Metadata: &cluster.Meta{Spec: s}, Value: sarama.StringEncoder(val)}
}

// Run executes the scenario with the given steering against the source tree the harness was built with.
func Run(sc *cluster.Scenario, st []Steer) *cluster.Result {
	t0 := time.Now()
	res := &cluster.Result{Scenario: sc, HeldReached: make([]bool, len(st))}
	topics := map[string]int{}
	for _, t := range sc.Topics {
		topics[t] = sc.Partitions
	}
	cl := cluster.New(sc.Brokers, topics, sc.Script)
	defer cl.Close()
	cfg := sc.Config()
	obs := cluster.NewObserver(sc.Jitter)

	gates := make([]*cluster.Gate, len(st))
	stop := make(chan struct{})
	var helpers sync.WaitGroup
	for i := range st {
		s := st[i]
		nth := s.HoldNth
		if nth < 1 {
			nth = 1
		}
		g := obs.Hold(s.HoldKind, nth, func(e *sarama.VerifProdEvent) bool {
			if s.HoldFin && (e.Msg == nil || e.Msg.Flags&2 == 0) {
				return false
			}
			return matchID(e, s.HoldMsgID)
		})
		gates[i] = g
		if s.ReleaseOn != nil {
			// a listener: a gate that never holds (its match function never answers true) but sees every point
			// of the kind, under the observer's lock, on the goroutine that reached the point
			rel, need, seen := *s.ReleaseOn, s.ReleaseOn.Count, 0
			if need < 1 {
				need = 1
			}
			obs.Hold(rel.Kind, 1, func(e *sarama.VerifProdEvent) bool {
				if matchID(e, rel.MsgID) {
					seen++
					if seen == need {
						g.Release()
					}
				}
				return false
			})
		} else if s.ReleaseAfterWave <= 0 {
			g.Release()
		}
		// safety bound per hold
		helpers.Add(1)
		go func() {
			defer helpers.Done()
			select {
			case <-g.Reached:
				select {
				case <-time.After(holdBound):
				case <-stop:
				}
			case <-stop:
			}
			g.Release()
		}()
	}
	obs.Install()
	defer func() {
		close(stop)
		obs.Uninstall()
		helpers.Wait()
	}()

	client, err := sarama.NewClient(cl.Addrs(), cfg)
	if err != nil {
		res.SetupErr = "client: " + err.Error()
		return res
	}
	prod, err := sarama.NewAsyncProducerFromClient(client)
	if err != nil {
		res.SetupErr = "producer: " + err.Error()
		_ = client.Close()
		return res
	}

	var omu sync.Mutex
	var succ, errs []cluster.Outcome
	closedS, closedE := make(chan struct{}), make(chan struct{})
	go func() {
		for m := range prod.Successes() {
			id := int64(-1)
			if mm, ok := m.Metadata.(*cluster.Meta); ok {
				id = mm.Spec.ID
			}
			omu.Lock()
			succ = append(succ, cluster.Outcome{ID: id, Success: true, Partition: m.Partition, Offset: m.Offset})
			omu.Unlock()
		}
		close(closedS)
	}()
	go func() {
		for e := range prod.Errors() {
			id := int64(-1)
			if mm, ok := e.Msg.Metadata.(*cluster.Meta); ok {
				id = mm.Spec.ID
			}
			omu.Lock()
			errs = append(errs, cluster.Outcome{ID: id, Err: sarama.VerifProdErrClass(e.Err), Partition: e.Msg.Partition})
			omu.Unlock()
		}
		close(closedE)
	}()

	maxWave := 0
	for _, m := range sc.Msgs {
		if m.Wave > maxWave {
			maxWave = m.Wave
		}
	}
	mine := map[*sarama.ProducerMessage]bool{}
	LastInputBlocked = false
	var blocked bool // written by the submitting goroutine only, read after it finished
	submit := func(wave []*sarama.ProducerMessage) {
		for _, m := range wave {
			if blocked {
				return
			}
			select {
			case prod.Input() <- m:
			case <-time.After(inputBound):
				blocked = true
			}
		}
	}
	for w := 0; w <= maxWave; w++ {
		gated := false
		if w > 0 {
			for i, s := range st {
				if s.Gate == w {
					gated = true
					select {
					case <-gates[i].Reached:
					case <-time.After(gateBound):
					}
				}
			}
			if !gated {
				time.Sleep(4 * time.Millisecond)
			}
		}
		var wave []*sarama.ProducerMessage
		for _, m := range sc.Msgs {
			if m.Wave == w {
				pm := message(m)
				mine[pm] = true
				wave = append(wave, pm)
			}
		}
		var after []int
		for i, s := range st {
			if s.ReleaseAfterWave == w && w > 0 {
				after = append(after, i)
			}
		}
		if w > 0 && len(st) > 0 {
			// the pipeline may be blocked behind a held goroutine: submit from the side (in order), release the
			// holds waiting for this wave once it is in (or stuck), then wait for the submission to complete
			sub := make(chan struct{})
			go func() {
				submit(wave)
				close(sub)
			}()
			if len(after) > 0 {
				select {
				case <-sub:
				case <-time.After(time.Millisecond):
				}
				for _, i := range after {
					gates[i].Release()
				}
			}
			<-sub
		} else {
			submit(wave)
		}
	}
	if blocked {
		LastInputBlocked = true
		hung()
	}
	for i, s := range st {
		if s.ReleaseOn == nil {
			gates[i].Release()
		}
	}

	prod.AsyncClose()
	done := make(chan struct{})
	go func() {
		<-closedS
		<-closedE
		close(done)
	}()
	deadline := time.Now().Add(closeLimit)
wait:
	for {
		select {
		case <-done:
			res.CloseOK, res.ChansClosed = true, true
			break wait
		case <-time.After(50 * time.Millisecond):
			if time.Now().After(deadline) {
				break wait
			}
			if cluster.ChaserAsMessage(obs.Events()) && time.Until(deadline) > 1500*time.Millisecond {
				deadline = time.Now().Add(1500 * time.Millisecond)
			}
		}
	}
	for _, g := range gates {
		g.Release()
	}
	if res.CloseOK {
		_ = client.Close()
	} else {
		hung()
	}
	omu.Lock()
	res.Outcomes = append(append([]cluster.Outcome(nil), succ...), errs...)
	omu.Unlock()
	for i, g := range gates {
		select {
		case <-g.Reached:
			res.HeldReached[i] = true
		default:
		}
	}
	// one producer per run; a straggler goroutine of an earlier run that did not close is filtered out
	all := obs.Events()
	var owner interface{}
	for _, e := range all {
		if e.Kind == "dispatcher.recv" && e.Msg != nil && e.Msg.Ptr != nil && mine[e.Msg.Ptr] {
			owner = e.Producer
			break
		}
	}
	for _, e := range all {
		if owner == nil || e.Producer == owner {
			res.Events = append(res.Events, e)
		}
	}
	res.Requests, res.Logs = cl.Snapshot()
	res.Wall = time.Since(t0)
	return res
}
