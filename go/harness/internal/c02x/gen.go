package c02x

import (
	"fmt"
	"math/rand"

	"verifharness/internal/cluster"
)

// Item is one thing to run: a scenario, its steering and the window family it aims at.
type Item struct {
	Sc     *cluster.Scenario
	Steer  []Steer
	Family string // "plain", "w1-bounce-chaser", "w2-between-levels", "w3-abandoned", "w4-leader-move", "w5-wait-for-space"
}

const (
	FamPlain = "plain"
	FamW1    = "w1-bounce-chaser"
	FamW2    = "w2-between-levels"
	FamW3    = "w3-abandoned"
	FamW4    = "w4-leader-move"
	FamW5    = "w5-wait-for-space"
	FamW6    = "w6-shared-worker"
)

var retriableCodes = []int16{6, 7, 19, 3, 5, 2}
var retriableAppCodes = []int16{20, 7}
var fatalCodes = []int16{10, 29, 17, 45}

// GenOpts bounds the generator.
type GenOpts struct {
	MaxScript int
	MinMsgs   int
	MaxMsgs   int
}

func retriable(r *rand.Rand) cluster.Fault {
	return cluster.Fault{Kind: cluster.Retriable, Err: retriableCodes[r.Intn(len(retriableCodes))], Only: -1}
}

// bounceFault is a fault that makes the broker worker bounce (retry) what it holds.
func bounceFault(r *rand.Rand, brokers int) cluster.Fault {
	switch k := r.Intn(6); {
	case k < 3:
		return retriable(r)
	case k < 4 && brokers > 1:
		return cluster.Fault{Kind: cluster.LeaderMoved, Only: -1}
	case k < 5:
		return cluster.Fault{Kind: cluster.DropBefore, Only: -1}
	default:
		return cluster.Fault{Kind: cluster.RetriableApp, Err: retriableAppCodes[r.Intn(len(retriableAppCodes))], Only: -1}
	}
}

func randFault(r *rand.Rand) cluster.Fault {
	f := cluster.Fault{Only: -1}
	switch k := r.Intn(20); {
	case k < 4:
		f.Kind = cluster.Ok
	case k < 10:
		f.Kind, f.Err = cluster.Retriable, retriableCodes[r.Intn(len(retriableCodes))]
	case k < 11:
		f.Kind, f.Err = cluster.RetriableApp, retriableAppCodes[r.Intn(len(retriableAppCodes))]
	case k < 13:
		f.Kind, f.Err = cluster.Fatal, fatalCodes[r.Intn(len(fatalCodes))]
	case k < 15:
		f.Kind = cluster.DropBefore
	case k < 17:
		f.Kind = cluster.DropAfter
	case k < 18:
		f.Kind = cluster.NoBlock
	default:
		f.Kind = cluster.LeaderMoved
	}
	if r.Intn(3) == 0 {
		f.Only = r.Intn(2)
	}
	if r.Intn(8) == 0 {
		f.MetaFail = 1 + r.Intn(2)
	}
	return f
}

// msgs draws the messages: counts[w] messages in wave w, most of them on the hot partition; ids are the
// global submission index (the runner submits wave by wave, in list order).
func msgs(r *rand.Rand, sc *cluster.Scenario, counts []int, hotPct int) (hotTopic string, hot int32) {
	hotTopic, hot = sc.Topics[0], int32(r.Intn(sc.Partitions))
	id := int64(0)
	for w, n := range counts {
		for i := 0; i < n; i++ {
			id++
			m := cluster.MsgSpec{ID: id, Topic: hotTopic, Choice: hot, Wave: w}
			if r.Intn(100) >= hotPct {
				m.Topic, m.Choice = sc.Topics[r.Intn(len(sc.Topics))], int32(r.Intn(sc.Partitions))
			}
			if r.Intn(8) == 0 {
				m.Pad = 60 + r.Intn(60)
			}
			sc.Msgs = append(sc.Msgs, m)
		}
	}
	return
}

func base(r *rand.Rand, name string) *cluster.Scenario {
	sc := &cluster.Scenario{Name: name, Brokers: 1 + r.Intn(2), Partitions: 1 + r.Intn(3), Topics: []string{"t0"}}
	if r.Intn(6) == 0 {
		sc.Topics = append(sc.Topics, "t1")
	}
	sc.RetryMax = r.Intn(4)
	if r.Intn(3) == 0 {
		sc.FlushMsgs = 2
	}
	if r.Intn(5) == 0 {
		sc.MaxMsgs = 2
	}
	sc.V2 = r.Intn(3) > 0
	sc.ChanBuf = []int{0, 1, 256}[r.Intn(3)]
	if r.Intn(2) == 0 {
		sc.Jitter = 1 + r.Int63n(1<<30)
	}
	return sc
}

// split distributes n messages over the waves 0..k: at least lo in every wave.
func split(r *rand.Rand, n, waves, lo int) []int {
	c := make([]int, waves)
	for i := range c {
		c[i] = lo
		n -= lo
	}
	for ; n > 0; n-- {
		c[r.Intn(waves)]++
	}
	return c
}

func (o GenOpts) count(r *rand.Rand) int { return o.MinMsgs + r.Intn(o.MaxMsgs-o.MinMsgs+1) }

func tail(r *rand.Rand, sc *cluster.Scenario, o GenOpts) {
	for want := r.Intn(o.MaxScript + 1); len(sc.Script) < want; {
		sc.Script = append(sc.Script, randFault(r))
	}
}

// Gen draws one scenario of the given family.
func Gen(r *rand.Rand, name, family string, o GenOpts) Item {
	sc := base(r, name)
	it := Item{Sc: sc, Family: family}
	n := o.count(r)
	switch family {
	case FamW1:
		// fresh input between a bounce and its chaser: the bounced messages are kept back on their way to the
		// partition worker (retry queue / broker worker) while fresh ones are submitted
		sc.RetryMax = 1 + r.Intn(3)
		if r.Intn(4) > 0 {
			sc.FlushMsgs = 0
		}
		waves := 2 + r.Intn(2)
		c := split(r, n, waves, 2)
		msgs(r, sc, c, 85)
		sc.Script = append(sc.Script, bounceFault(r, sc.Brokers))
		if r.Intn(2) == 0 {
			sc.Script = append(sc.Script, bounceFault(r, sc.Brokers))
		}
		tail(r, sc, o)
		var s Steer
		switch k := r.Intn(8); {
		case k < 3:
			s = Steer{HoldKind: "rh.forward", HoldNth: 1 + r.Intn(2)}
		case k < 5:
			s = Steer{HoldKind: "retry.enqueue", HoldNth: 2 + r.Intn(2)}
		case k < 6:
			s = Steer{HoldKind: "pp.newHWM", HoldNth: 1 + r.Intn(2)}
		case k < 7:
			s = Steer{HoldKind: "bp.response", HoldNth: 1}
		default:
			s = Steer{HoldKind: "rh.recv", HoldNth: 2 + r.Intn(2)}
		}
		s.Gate, s.ReleaseAfterWave = 1, 1
		it.Steer = []Steer{s}
		if waves > 2 && r.Intn(2) == 0 {
			it.Steer = append(it.Steer, Steer{HoldKind: []string{"rh.forward", "pp.flush.level", "retry.enqueue"}[r.Intn(3)], HoldNth: 3 + r.Intn(3), Gate: 2, ReleaseAfterWave: 2})
		}
	case FamW2:
		// between levels in flushRetryBuffers: two consecutive bounces give two retry levels
		sc.RetryMax = 2 + r.Intn(2)
		if r.Intn(4) > 0 {
			sc.FlushMsgs = 0
		}
		waves := 2 + r.Intn(2)
		c := split(r, n, waves, 2)
		msgs(r, sc, c, 85)
		sc.Script = append(sc.Script, bounceFault(r, sc.Brokers), bounceFault(r, sc.Brokers))
		tail(r, sc, o)
		if waves > 2 && r.Intn(2) == 0 {
			// keep the first bounce back as in w1 (fills the level-0 buffer), then stand between the levels
			it.Steer = []Steer{
				{HoldKind: "rh.forward", HoldNth: 1, Gate: 1, ReleaseAfterWave: 1},
				{HoldKind: "pp.flush.level", HoldNth: 1 + r.Intn(2), Gate: 2, ReleaseAfterWave: 2}}
		} else {
			it.Steer = []Steer{{HoldKind: "pp.flush.level", HoldNth: 1 + r.Intn(2), Gate: 1, ReleaseAfterWave: 1}}
			if waves > 2 {
				// fresh input again while the second level's bounce is on its way back
				it.Steer = append(it.Steer, Steer{HoldKind: []string{"rh.forward", "pp.flush.level", "pp.newHWM"}[r.Intn(3)], HoldNth: 2 + r.Intn(3), Gate: 2, ReleaseAfterWave: 2})
			}
		}
	case FamW3:
		// Retry.Max = 0: after `abandoned` is closed
		sc.RetryMax = 0
		sc.FlushMsgs = 0
		if r.Intn(3) == 0 {
			sc.Brokers = 1
		}
		f := cluster.Fault{Kind: cluster.Fatal, Err: fatalCodes[r.Intn(len(fatalCodes))], Only: -1}
		if r.Intn(2) == 0 {
			f = retriable(r)
		}
		switch r.Intn(3) {
		case 0:
			// as the corpus witness: a first wave of one message whose request is kept back until the first message
			// of wave 1 sits in the old worker's buffer; the answer fails; the old worker's next request (its
			// backlog) is kept back while wave 2 goes in, through a fresh worker
			c := []int{1, 1 + r.Intn(3), 0}
			c[2] = n - c[0] - c[1]
			hotTopic, hot := msgs(r, sc, c, 85)
			for i := range sc.Msgs {
				if id := sc.Msgs[i].ID; id == 1 || id == c2id(c, 1) || id == c2id(c, 2) {
					sc.Msgs[i].Topic, sc.Msgs[i].Choice = hotTopic, hot
				}
			}
			if r.Intn(3) == 0 && sc.Partitions > 1 {
				// the failing request belongs to a neighbour partition of the same broker
				sc.Msgs[0].Choice = (hot + int32(sc.Brokers)) % int32(sc.Partitions)
			}
			sc.Script = append(sc.Script, f)
			if r.Intn(3) > 0 {
				// the backlog and the first fresh request are served
				sc.Script = append(sc.Script, cluster.Fault{Kind: cluster.Ok, Only: -1}, cluster.Fault{Kind: cluster.Ok, Only: -1})
			}
			it.Steer = []Steer{
				{HoldKind: "bridge.send", HoldNth: 1, Gate: 1, ReleaseOn: &Release{Kind: "bp.add", MsgID: c2id(c, 1)}},
				{HoldKind: "bridge.send", HoldNth: 2, Gate: 2, ReleaseAfterWave: 2},
			}
			if r.Intn(2) == 0 {
				it.Steer[1].ReleaseAfterWave, it.Steer[1].ReleaseOn = 0, &Release{Kind: "bp.response", MsgID: c2id(c, 2)}
			}
		case 1:
			c := split(r, n, 2+r.Intn(2), 2)
			msgs(r, sc, c, 80)
			if r.Intn(3) == 0 {
				sc.Script = append(sc.Script, cluster.Fault{Kind: cluster.Ok, Only: -1})
			}
			if r.Intn(4) == 0 {
				f.Only = r.Intn(2)
			}
			sc.Script = append(sc.Script, f)
			it.Steer = []Steer{{HoldKind: "pp.abandon", HoldNth: 1, ReleaseAfterWave: 1}, {HoldKind: "return.error", HoldNth: 1, Gate: 1}}
		default:
			c := split(r, n, 2+r.Intn(2), 2)
			msgs(r, sc, c, 80)
			if r.Intn(3) == 0 {
				sc.Script = append(sc.Script, cluster.Fault{Kind: cluster.Ok, Only: -1})
			}
			if r.Intn(4) == 0 {
				f.Only = r.Intn(2)
			}
			sc.Script = append(sc.Script, f)
			it.Steer = []Steer{{HoldKind: "return.error", HoldNth: 1, Gate: 1}}
		}
		tail(r, sc, o)
	case FamW4:
		// leader move while a chaser is in flight
		sc.Brokers = 2
		sc.RetryMax = 1 + r.Intn(3)
		if r.Intn(4) > 0 {
			sc.FlushMsgs = 0
		}
		waves := 2 + r.Intn(2)
		c := split(r, n, waves, 2)
		msgs(r, sc, c, 85)
		f := cluster.Fault{Kind: cluster.LeaderMoved, Only: -1}
		if r.Intn(3) == 0 {
			f.Only = 0
		}
		if r.Intn(4) == 0 {
			sc.Script = append(sc.Script, cluster.Fault{Kind: cluster.Ok, Only: -1})
		}
		sc.Script = append(sc.Script, f)
		if r.Intn(2) == 0 {
			sc.Script = append(sc.Script, cluster.Fault{Kind: cluster.LeaderMoved, Only: -1})
		}
		tail(r, sc, o)
		var s Steer
		switch r.Intn(4) {
		case 0:
			s = Steer{HoldKind: "pp.newHWM", HoldNth: 1}
		case 1:
			s = Steer{HoldKind: "rh.forward", HoldNth: 1 + r.Intn(2)}
		default:
			s = Steer{HoldKind: "retry.enqueue", HoldNth: 1, HoldFin: true}
		}
		s.Gate, s.ReleaseAfterWave = 1, 1
		it.Steer = []Steer{s}
		if waves > 2 {
			it.Steer = append(it.Steer, Steer{HoldKind: "retry.enqueue", HoldNth: 2, HoldFin: true, Gate: 2, ReleaseAfterWave: 2})
		}
	case FamW5:
		// Flush.MaxMessages = 2: the broker worker waits for space while a request is in flight
		sc.MaxMsgs, sc.FlushMsgs = 2, 2
		sc.RetryMax = 1 + r.Intn(3)
		if n < 7 {
			n = 7
		}
		c := split(r, n, 2, 2)
		if c[0] < 5 {
			c[1] -= 5 - c[0]
			c[0] = 5
			if c[1] < 1 {
				c[1] = 1
			}
		}
		msgs(r, sc, c, 90)
		sc.Script = append(sc.Script, retriable(r))
		if r.Intn(2) == 0 {
			sc.Script = append(sc.Script, bounceFault(r, sc.Brokers))
		}
		tail(r, sc, o)
		it.Steer = []Steer{{HoldKind: "bridge.send", HoldNth: 1, ReleaseOn: &Release{Kind: "bp.waitForSpace"}, Gate: 1}}
		if r.Intn(2) == 0 {
			it.Steer = append(it.Steer, Steer{HoldKind: "rh.forward", HoldNth: 1 + r.Intn(2), ReleaseOn: &Release{Kind: "dispatcher.recv", MsgID: c2id(c, 1)}})
		}
	default:
		it.Family = FamPlain
		waves := 1 + r.Intn(3)
		c := split(r, n, waves, 1)
		msgs(r, sc, c, 75)
		ls := r.Intn(o.MaxScript + 1)
		for i := 0; i < ls; i++ {
			sc.Script = append(sc.Script, randFault(r))
		}
	}
	return it
}

// c2id is the id of the first message of wave w given the wave sizes.
func c2id(c []int, w int) int64 {
	id := int64(1)
	for i := 0; i < w && i < len(c); i++ {
		id += int64(c[i])
	}
	return id
}

// FamilyOf chooses the family of the i-th generated scenario: 7 of 16 are steered.
func FamilyOf(i int) string {
	switch i % 16 {
	case 1, 9:
		return FamW1
	case 3:
		return FamW2
	case 5, 13:
		return FamW3
	case 7:
		return FamW4
	case 11:
		return FamW5
	}
	return FamPlain
}

func hot(id int64, wave int) cluster.MsgSpec {
	return cluster.MsgSpec{ID: id, Topic: "t0", Choice: 0, Wave: wave}
}

func hots(counts ...int) []cluster.MsgSpec {
	var out []cluster.MsgSpec
	id := int64(0)
	for w, n := range counts {
		for i := 0; i < n; i++ {
			id++
			out = append(out, hot(id, w))
		}
	}
	return out
}

// Corpus is the list of fixed witnesses run first: the announced Retry.Max = 0 defect (steered so that it shows
// on every run) and one schedule per window, each of which exercised a mutation of the self-test.
func Corpus() []Item {
	ret := func(code int16) cluster.Fault { return cluster.Fault{Kind: cluster.Retriable, Err: code, Only: -1} }
	var out []Item
	// THE DEFECT. Retry.Max = 0, one broker, one partition, messages 1, 2, 3 submitted one wave each.
	//  hold A: the bridge goroutine of the first broker worker is kept back with request [1] (first bridge.send);
	//          message 2 is submitted once A was reached; A is released when 2 sits in that worker's buffer
	//          (bp.add of 2); the answer to [1] is fatal: `abandoned` is closed, only 1 fails;
	//  hold B: the old worker's next request ([2], its backlog) is kept back at bridge.send; message 3 is
	//          submitted once B was reached, the partition worker notices `abandoned` and routes 3 through a
	//          fresh worker; B is released when 3 was reported successful. Log: [3 2].
	out = append(out, Item{Family: FamW3, Sc: &cluster.Scenario{Name: "corpus/retry0-abandoned-backlog", Brokers: 1, Partitions: 1, Topics: []string{"t0"},
		RetryMax: 0, V2: true, Msgs: hots(1, 1, 1), Script: []cluster.Fault{{Kind: cluster.Fatal, Err: 10, Only: -1}}},
		Steer: []Steer{
			{HoldKind: "bridge.send", HoldNth: 1, HoldMsgID: 1, Gate: 1, ReleaseOn: &Release{Kind: "bp.add", MsgID: 2}},
			{HoldKind: "bridge.send", HoldNth: 1, HoldMsgID: 2, Gate: 2, ReleaseOn: &Release{Kind: "return.success", MsgID: 3}},
		}})
	// the same with a retriable answer for ANOTHER partition of the broker: its failure abandons the worker
	out = append(out, Item{Family: FamW3, Sc: &cluster.Scenario{Name: "corpus/retry0-abandoned-by-neighbour", Brokers: 1, Partitions: 2, Topics: []string{"t0"},
		RetryMax: 0, V2: false,
		Msgs:   []cluster.MsgSpec{{ID: 1, Topic: "t0", Choice: 1}, hot(2, 1), hot(3, 2), hot(4, 2)},
		Script: []cluster.Fault{{Kind: cluster.Retriable, Err: 6, Only: -1}}},
		Steer: []Steer{
			{HoldKind: "bridge.send", HoldNth: 1, HoldMsgID: 1, Gate: 1, ReleaseOn: &Release{Kind: "bp.add", MsgID: 2}},
			{HoldKind: "bridge.send", HoldNth: 1, HoldMsgID: 2, Gate: 2, ReleaseOn: &Release{Kind: "return.success", MsgID: 4}},
		}})
	// w1: the bounce of 2 3 4 is kept back in the retry queue while 5 6 7 are submitted: they reach the partition
	// worker between bounced message 1 and the rest, and must be parked until the chaser is back
	out = append(out, Item{Family: FamW1, Sc: &cluster.Scenario{Name: "corpus/w1-fresh-overtakes-bounce", Brokers: 1, Partitions: 1, Topics: []string{"t0"},
		RetryMax: 2, V2: true, Msgs: hots(4, 3), Script: []cluster.Fault{ret(6)}},
		Steer: []Steer{{HoldKind: "rh.forward", HoldNth: 1, Gate: 1, ReleaseAfterWave: 1}}})
	out = append(out, Item{Family: FamW1, Sc: &cluster.Scenario{Name: "corpus/w1-hold-enqueue", Brokers: 1, Partitions: 2, Topics: []string{"t0"},
		RetryMax: 1, V2: false, ChanBuf: 1, Msgs: hots(4, 3, 2), Script: []cluster.Fault{ret(7), {Kind: cluster.Ok, Only: -1}, {Kind: cluster.DropBefore, Only: -1}}},
		Steer: []Steer{{HoldKind: "retry.enqueue", HoldNth: 2, Gate: 1, ReleaseAfterWave: 1}}})
	out = append(out, Item{Family: FamW1, Sc: &cluster.Scenario{Name: "corpus/w1-hold-newhwm", Brokers: 1, Partitions: 1, Topics: []string{"t0"},
		RetryMax: 3, V2: true, ChanBuf: 256, Msgs: hots(3, 3), Script: []cluster.Fault{ret(6), ret(7)}},
		Steer: []Steer{{HoldKind: "pp.newHWM", HoldNth: 1, Gate: 1, ReleaseAfterWave: 1}}})
	// w2: two levels; fresh input while the partition worker stands between the levels of flushRetryBuffers
	out = append(out, Item{Family: FamW2, Sc: &cluster.Scenario{Name: "corpus/w2-between-levels", Brokers: 1, Partitions: 1, Topics: []string{"t0"},
		RetryMax: 2, V2: true, Msgs: hots(4, 3, 2), Script: []cluster.Fault{ret(6), ret(7)}},
		Steer: []Steer{
			{HoldKind: "rh.forward", HoldNth: 1, Gate: 1, ReleaseAfterWave: 1},
			{HoldKind: "pp.flush.level", HoldNth: 1, Gate: 2, ReleaseAfterWave: 2}}})
	out = append(out, Item{Family: FamW2, Sc: &cluster.Scenario{Name: "corpus/w2-two-levels-parked", Brokers: 1, Partitions: 1, Topics: []string{"t0"},
		RetryMax: 3, V2: true, Msgs: hots(3, 2, 2), Script: []cluster.Fault{ret(6), ret(7), ret(19)}},
		Steer: []Steer{
			{HoldKind: "rh.forward", HoldNth: 1, Gate: 1, ReleaseAfterWave: 1},
			{HoldKind: "rh.forward", HoldNth: 5, Gate: 2, ReleaseAfterWave: 2}}})
	// w3 without reordering: the abandoned worker holds nothing of the partition
	out = append(out, Item{Family: FamW3, Sc: &cluster.Scenario{Name: "corpus/w3-abandoned-empty", Brokers: 1, Partitions: 1, Topics: []string{"t0"},
		RetryMax: 0, V2: true, Msgs: hots(1, 3), Script: []cluster.Fault{{Kind: cluster.Fatal, Err: 10, Only: -1}}},
		Steer: []Steer{{HoldKind: "return.error", HoldNth: 1, Gate: 1}}})
	// w4: leader move, the chaser is kept back at the old worker while fresh messages arrive
	out = append(out, Item{Family: FamW4, Sc: &cluster.Scenario{Name: "corpus/w4-leader-move-chaser", Brokers: 2, Partitions: 2, Topics: []string{"t0"},
		RetryMax: 2, V2: true, Msgs: []cluster.MsgSpec{hot(1, 0), hot(2, 0), {ID: 3, Topic: "t0", Choice: 1}, hot(4, 0), hot(5, 1), hot(6, 1), {ID: 7, Topic: "t0", Choice: 1, Wave: 1}, hot(8, 1)},
		Script: []cluster.Fault{{Kind: cluster.LeaderMoved, Only: -1}}},
		Steer: []Steer{{HoldKind: "retry.enqueue", HoldNth: 1, HoldFin: true, Gate: 1, ReleaseAfterWave: 1}}})
	out = append(out, Item{Family: FamW4, Sc: &cluster.Scenario{Name: "corpus/w4-leader-move-twice", Brokers: 2, Partitions: 1, Topics: []string{"t0"},
		RetryMax: 3, V2: true, Msgs: hots(4, 3), Script: []cluster.Fault{{Kind: cluster.LeaderMoved, Only: -1}, {Kind: cluster.LeaderMoved, Only: -1}}},
		Steer: []Steer{{HoldKind: "rh.forward", HoldNth: 1, Gate: 1, ReleaseAfterWave: 1}}})
	// w5: Flush.MaxMessages = 2, request [1 2] kept back until the worker waits for space with [3 4] buffered
	out = append(out, Item{Family: FamW5, Sc: &cluster.Scenario{Name: "corpus/w5-wait-for-space", Brokers: 1, Partitions: 1, Topics: []string{"t0"},
		RetryMax: 2, V2: true, MaxMsgs: 2, FlushMsgs: 2, Msgs: hots(6, 2), Script: []cluster.Fault{ret(6)}},
		Steer: []Steer{{HoldKind: "bridge.send", HoldNth: 1, ReleaseOn: &Release{Kind: "bp.waitForSpace"}, Gate: 1}}})
	// w6: two partitions share one broker worker and both fail. The bounced message of the second partition is kept
	// back in the retry queue while the first partition's chaser passes the worker and fresh messages of both
	// partitions arrive: the worker must go on refusing the partition whose own chaser has not passed yet.
	p1 := func(id int64, wave int) cluster.MsgSpec { return cluster.MsgSpec{ID: id, Topic: "t0", Choice: 1, Wave: wave} }
	out = append(out, Item{Family: FamW6, Sc: &cluster.Scenario{Name: "corpus/w6-shared-worker-one-request", Brokers: 1, Partitions: 2, Topics: []string{"t0"},
		RetryMax: 2, V2: true, FlushMsgs: 2, Msgs: []cluster.MsgSpec{hot(1, 0), p1(2, 0), hot(3, 1), p1(4, 1), hot(5, 1), p1(6, 1)},
		Script: []cluster.Fault{ret(6)}},
		Steer: []Steer{
			{HoldKind: "rh.forward", HoldNth: 2, ReleaseOn: &Release{Kind: "return.success", Count: 2}},
			{HoldKind: "retry.enqueue", HoldNth: 1, HoldFin: true, Gate: 1}}})
	out = append(out, Item{Family: FamW6, Sc: &cluster.Scenario{Name: "corpus/w6-shared-worker-two-requests", Brokers: 1, Partitions: 2, Topics: []string{"t0"},
		RetryMax: 3, V2: true, Msgs: []cluster.MsgSpec{hot(1, 0), p1(2, 0), p1(3, 1), p1(4, 1), hot(5, 1)},
		Script: []cluster.Fault{ret(6), ret(7)}},
		Steer: []Steer{
			{HoldKind: "rh.forward", HoldNth: 1, ReleaseOn: &Release{Kind: "retry.enqueue", MsgID: 2}},
			{HoldKind: "rh.forward", HoldNth: 2, ReleaseOn: &Release{Kind: "return.success", MsgID: 3}},
			{HoldKind: "retry.enqueue", HoldNth: 1, HoldFin: true, Gate: 1}}})
	// w6, the interleaving in which it matters: five partitions a..e (0..4) share the worker, Flush.MaxMessages = 2.
	// Request {a1} is kept back; b1 c1 fill the buffer, c2 overflows (waitForSpace); d1, e1, b2 queue up on the
	// worker's input in that order, b3 b4 behind b2 in partition b's worker. {a1} fails (retriable): {b1 c1} goes out
	// and is kept back; the worker takes d1 and overflows again on e1; partition a's chaser queues up behind b2.
	// {b1 c1}: b fails (retriable), c ok. The worker then reads b2 (bounced), a's chaser, b3, b4 - which must be
	// bounced as well, because b1 and b2 are still on their way back.
	pm := func(id int64, part int32, wave int) cluster.MsgSpec { return cluster.MsgSpec{ID: id, Topic: "t0", Choice: part, Wave: wave} }
	okf := cluster.Fault{Kind: cluster.Ok, Only: -1}
	out = append(out, Item{Family: FamW6, Sc: &cluster.Scenario{Name: "corpus/w6-shared-worker-marker-between", Brokers: 1, Partitions: 5, Topics: []string{"t0"},
		RetryMax: 3, V2: true, MaxMsgs: 2, ChanBuf: 256,
		// waves 0-4 warm up the five partition workers one request each (their syn has passed the broker worker);
		// then a1=6, b1=7, c1=8, c2=9, d1=10, e1=11, b2=12, b3=13, b4=14
		Msgs: []cluster.MsgSpec{pm(1, 0, 0), pm(2, 1, 1), pm(3, 2, 2), pm(4, 3, 3), pm(5, 4, 4),
			pm(6, 0, 5), pm(7, 1, 6), pm(8, 2, 7), pm(9, 2, 8), pm(10, 3, 9), pm(11, 4, 10), pm(12, 1, 11), pm(13, 1, 12), pm(14, 1, 12)},
		Script: []cluster.Fault{okf, okf, okf, okf, okf, ret(6), {Kind: cluster.Retriable, Err: 6, Only: 0}}},
		Steer: []Steer{
			{HoldKind: "return.success", HoldNth: 1, Gate: 1},
			{HoldKind: "return.success", HoldNth: 2, Gate: 2},
			{HoldKind: "return.success", HoldNth: 3, Gate: 3},
			{HoldKind: "return.success", HoldNth: 4, Gate: 4},
			{HoldKind: "return.success", HoldNth: 5, Gate: 5},
			{HoldKind: "bridge.send", HoldNth: 1, HoldMsgID: 6, Gate: 6, ReleaseOn: &Release{Kind: "tp.forward", MsgID: 14}},
			{HoldKind: "bp.add", HoldNth: 1, HoldMsgID: 7, Gate: 7},
			{HoldKind: "bp.add", HoldNth: 1, HoldMsgID: 8, Gate: 8},
			{HoldKind: "bp.waitForSpace", HoldNth: 1, HoldMsgID: 9, Gate: 9},
			{HoldKind: "pp.send", HoldNth: 1, HoldMsgID: 10, Gate: 10},
			{HoldKind: "pp.send", HoldNth: 1, HoldMsgID: 11, Gate: 11},
			{HoldKind: "pp.send", HoldNth: 1, HoldMsgID: 12, Gate: 12},
			{HoldKind: "bridge.send", HoldNth: 1, HoldMsgID: 7, ReleaseOn: &Release{Kind: "pp.newHWM"}},
		}})
	// plain: bounce with a filled buffer, no steering
	out = append(out, Item{Family: FamPlain, Sc: &cluster.Scenario{Name: "corpus/plain-bounce", Brokers: 1, Partitions: 2, Topics: []string{"t0"},
		RetryMax: 1, V2: true, Msgs: []cluster.MsgSpec{hot(1, 0), hot(2, 0), {ID: 3, Topic: "t0", Choice: 1}, hot(4, 0), hot(5, 0), hot(6, 0)},
		Script: []cluster.Fault{ret(6)}}})
	out = append(out, Item{Family: FamPlain, Sc: &cluster.Scenario{Name: "corpus/plain-drop-after", Brokers: 2, Partitions: 1, Topics: []string{"t0"},
		RetryMax: 2, V2: false, FlushMsgs: 2, Msgs: hots(5, 2), Script: []cluster.Fault{{Kind: cluster.DropAfter, Only: -1}, {Kind: cluster.RetriableApp, Err: 20, Only: -1}}}})
	for i, it := range out {
		if it.Sc.Extra == nil {
			it.Sc.Extra = map[string]int{}
		}
		it.Sc.Extra["corpus"] = i
	}
	return out
}

// GenName names a generated scenario.
func GenName(seed int64, i int) string { return fmt.Sprintf("C02/seed%d/%d", seed, i) }
