package c02x

import (
	"encoding/json"
	"flag"
	"fmt"
	"io/ioutil"
	"log"
	"math/rand"
	"os"
	"sort"
	"sync"
	"time"

	"github.com/Shopify/sarama"

	"verifharness/internal/cluster"
	"verifharness/internal/coqfmt"
)

// Main is the body of cmd/c02corr.
//
//	flags: -out DIR -seed N -n COUNT [-tier quick|thorough] [-replay FILE] [-dump] [-only SUBSTR] [-repeat K]
func Main() {
	out := flag.String("out", ".", "output directory")
	seed := flag.Int64("seed", 1, "seed")
	n := flag.Int("n", 250, "number of generated scenarios (besides the corpus)")
	tier := flag.String("tier", "quick", "quick|thorough")
	replay := flag.String("replay", "", "run only the scenario (+ steering) of this replay/sidecar JSON file")
	dump := flag.Bool("dump", false, "print every scenario result")
	only := flag.String("only", "", "diagnostics: run only scenarios whose name contains this")
	repeat := flag.Int("repeat", 1, "diagnostics: run the selected scenarios this many times")
	flag.Parse()
	sarama.Logger = log.New(ioutil.Discard, "", 0)
	var pmu sync.Mutex
	var panics []string
	sarama.PanicHandler = func(v interface{}) {
		pmu.Lock()
		panics = append(panics, fmt.Sprint(v))
		pmu.Unlock()
	}
	takePanics := func() []string {
		pmu.Lock()
		defer pmu.Unlock()
		p := panics
		panics = nil
		return p
	}

	var items []Item
	if *replay != "" {
		raw, err := ioutil.ReadFile(*replay)
		if err != nil {
			fmt.Println("cannot read replay:", err)
			os.Exit(2)
		}
		var wrap struct {
			Kind string `json:"kind"`
			Case *struct {
				Scenario *cluster.Scenario `json:"scenario"`
				Steer    []Steer           `json:"steer"`
			} `json:"case"`
		}
		if err := json.Unmarshal(raw, &wrap); err != nil || wrap.Case == nil || wrap.Case.Scenario == nil {
			fmt.Println("replay file has no case.scenario")
			os.Exit(2)
		}
		fam := wrap.Kind
		if fam == "" {
			fam = FamPlain
		}
		items = []Item{{Sc: wrap.Case.Scenario, Steer: wrap.Case.Steer, Family: fam}}
	} else {
		items = append(items, Corpus()...)
		r := rand.New(rand.NewSource(*seed*7919 + 2))
		for i := 0; i < *n; i++ {
			o := GenOpts{MaxScript: 4, MinMsgs: 6, MaxMsgs: 14}
			if *tier == "thorough" && i%3 == 0 {
				o = GenOpts{MaxScript: 30, MinMsgs: 10, MaxMsgs: 40}
			}
			items = append(items, Gen(r, GenName(*seed, i), FamilyOf(i), o))
		}
	}
	if *only != "" {
		var sel []Item
		for _, it := range items {
			if contains(it.Sc.Name, *only) {
				sel = append(sel, it)
			}
		}
		items = sel
	}
	if *repeat > 1 {
		var rep []Item
		for _, it := range items {
			for k := 0; k < *repeat; k++ {
				rep = append(rep, it)
			}
		}
		items = rep
	}

	w := &coqfmt.Writer{Dir: *out, Prefix: "cases_C02", Imports: "From SV Require Import Producer.Msg Producer.Actors Producer.Corr C02.Model C02.Corr.",
		CaseType: "case", MismatchFn: "mismatches_c02", ShardSize: 40}
	runOnce := func(it Item) (*cluster.Result, []cluster.Finding) {
		res := Run(it.Sc, it.Steer)
		pan := takePanics()
		fs := Monitor(res)
		if len(pan) > 0 {
			fs = append(fs, cluster.Finding{Signature: fmt.Sprintf("c02:panic:retrymax=%d", it.Sc.RetryMax), What: "a producer goroutine panicked: " + pan[0]})
		}
		return res, fs
	}
	t0 := time.Now()
	totalSteps, nFind := 0, 0
	sigs := map[string]int{}
	for _, it := range items {
		sc := it.Sc
		res, fs := runOnce(it)
		once := fs
		if len(fs) > 0 {
			// anything observed once is re-run: only a failure seen twice counts
			res2, fs2 := runOnce(it)
			var both []cluster.Finding
			for _, f := range fs {
				for _, g := range fs2 {
					if f.Signature == g.Signature {
						both = append(both, f)
						break
					}
				}
			}
			fs = both
			if len(fs) == 0 {
				res = res2
			}
		}
		logs := map[string][]int64{}
		for k, l := range res.Logs {
			logs[k] = allIDs(l)
		}
		faults := 0
		for _, r := range res.Requests {
			if r.Fault.Kind != cluster.Ok {
				faults++
			}
		}
		side := coqfmt.Sidecar{Kind: it.Family, Nontrivial: nontrivial(sc, res)}
		summary := map[string]interface{}{"scenario": sc, "steer": it.Steer, "held_reached": res.HeldReached, "outcomes": res.Outcomes, "close_ok": res.CloseOK,
			"logs": logs, "requests": len(res.Requests), "faulted_requests": faults, "hook_points": len(res.Events), "wall_ms": res.Wall.Milliseconds()}
		if it.Steer == nil {
			summary["steer"] = []Steer{}
		}
		if res.SetupErr != "" {
			summary["setup_error"] = res.SetupErr
		}
		if LastInputBlocked {
			summary["input_blocked"] = true
		}
		if len(once) > 0 && len(fs) == 0 {
			summary["not_reproduced"] = once[0].Signature
		}
		side.Case = summary
		if len(fs) > 0 {
			side.Monitor = &coqfmt.Monitor{Signature: fs[0].Signature, What: fs[0].What + " [" + sc.Name + "]"}
			nFind++
			sigs[fs[0].Signature]++
		}
		term := ""
		if res.SetupErr == "" && res.CloseOK {
			var steps int
			var problem string
			term, steps, problem = cluster.BuildCase(res)
			totalSteps += steps
			if problem != "" {
				summary["trace_problem"] = problem
				term = ""
			}
		}
		if term == "" {
			// keep the case list aligned with the sidecar: an empty log always validates
			term = "mkCase " + sc.CoqCfg() + " [] [] [] [] [] [] [] []"
			if res.SetupErr != "" || !res.CloseOK {
				side.Nontrivial = false
			} else {
				// a log that cannot be segmented is a broken tie, not silently skipped
				term = "mkCase " + sc.CoqCfg() + " [] [] [] [] [] [] [] [(0, true, 0)]"
			}
		}
		if *dump && (*replay != "" || *only != "") {
			dumpEvents(res)
		}
		if *dump {
			js, _ := json.Marshal(summary)
			fmt.Printf("SCENARIO %s family=%s findings=%v wall=%v %s\n", sc.Name, it.Family, fs, res.Wall, js)
		}
		w.Add("("+term+")", side)
	}
	w.Close()
	var ks []string
	for k := range sigs {
		ks = append(ks, k)
	}
	sort.Strings(ks)
	for _, k := range ks {
		fmt.Printf("FINDINGS %d %s\n", sigs[k], k)
	}
	fmt.Printf("RAN %d scenarios, %d actor steps, %d with findings, %.1fs\n", len(items), totalSteps, nFind, time.Since(t0).Seconds())
}

func contains(s, sub string) bool {
	for i := 0; i+len(sub) <= len(s); i++ {
		if s[i:i+len(sub)] == sub {
			return true
		}
	}
	return false
}

// nontrivial: at least one request faulted, or at least two messages share a partition.
func nontrivial(sc *cluster.Scenario, res *cluster.Result) bool {
	for _, r := range res.Requests {
		if r.Fault.Kind != cluster.Ok {
			return true
		}
	}
	seen := map[string]bool{}
	for _, m := range sc.Msgs {
		k := fmt.Sprintf("%s/%d", m.Topic, m.Choice)
		if seen[k] {
			return true
		}
		seen[k] = true
	}
	return false
}

func dumpEvents(res *cluster.Result) {
	for _, e := range res.Events {
		line := fmt.Sprintf("EV %4d g%-4d %-18s", e.Seq, e.Goid, e.Kind)
		if e.Msg != nil {
			line += fmt.Sprintf(" msg{id=%d r=%d f=%d p=%d}", e.Msg.ID, e.Msg.Retries, e.Msg.Flags, e.Msg.Partition)
		}
		line += fmt.Sprintf(" err=%d tp=%s/%d hwm=%d hasbp=%v leader=%d buf=%d closing=%v retrying=%v lens=%v ch=%v", e.Err, e.Topic, e.Partition, e.HWM, e.HasBP, e.Leader, e.BufCount, e.Closing, e.Retrying, e.LevelBufLen, e.LevelChaser)
		for _, p := range e.Set {
			line += fmt.Sprintf(" [%s/%d v=%d:", p.Topic, p.Partition, p.Verdict)
			for _, m := range p.Msgs {
				line += fmt.Sprintf(" %d(r%d)", m.ID, m.Retries)
			}
			line += "]"
		}
		fmt.Println(line)
	}
	for i, r := range res.Requests {
		line := fmt.Sprintf("REQ %d broker=%d fault=%s only=%d:", i, r.Broker, r.Fault.Kind, r.Fault.Only)
		for _, b := range r.Batches {
			line += fmt.Sprintf(" %s/%d[", b.Topic, b.Partition)
			for _, v := range b.Values {
				line += fmt.Sprintf(" %d", cluster.IDOf(v))
			}
			line += " ]"
		}
		fmt.Println(line)
	}
}
