package idembroker

import (
	"bytes"
	"math/rand"
	"runtime"
	"strconv"
	"sync"
	"time"

	"github.com/Shopify/sarama"
)

// Ev is one recorded hook point of the producer.
type Ev struct {
	Seq  int // arrival order at the observer (used to group stamps and to classify histories, never to predict)
	Goid int64
	*sarama.VerifProdEvent
	Label    int16 // bridge.send / retryBatch.send: epoch the set was created with
	HasLabel bool
	Epoch    int16 // transaction-manager epoch read at the hook (retryBatch.*, return.error)
	HasEpoch bool
}

// GateSpec steers the schedule: the goroutine reaching the Nth (1-based) hook point of this kind that matches
// the filters blocks until the driver releases the gate.
type GateSpec struct {
	Kind      string `json:"kind"`
	Nth       int    `json:"nth"`
	Partition int32  `json:"partition"`     // -1 any (pp.* / bp.recv: the message's partition)
	Retries   int    `json:"retries"`       // -1 any (message retries)
	Data      bool   `json:"data"`          // only application messages (flags == 0)
	Fin       bool   `json:"fin,omitempty"` // only fin markers ("chasers")
}

type gate struct {
	spec    GateSpec
	reached chan struct{}
	release chan struct{}
	once    sync.Once
	hit     int
	wasHeld bool
}

func (g *gate) Release() { g.once.Do(func() { close(g.release) }) }

// Observer collects the hook points of one producer run.
type Observer struct {
	mu      sync.Mutex
	evs     []Ev
	gates   []*gate
	jitter  *rand.Rand
	jmu     sync.Mutex
	maxHold time.Duration
	cond    *sync.Cond
}

func goid() int64 {
	var buf [64]byte
	n := runtime.Stack(buf[:], false)
	f := bytes.Fields(buf[:n])
	if len(f) < 2 {
		return -1
	}
	id, _ := strconv.ParseInt(string(f[1]), 10, 64)
	return id
}

func NewObserver(jitterSeed int64, gates []GateSpec) *Observer {
	o := &Observer{maxHold: 3 * time.Second}
	o.cond = sync.NewCond(&o.mu)
	if jitterSeed != 0 {
		o.jitter = rand.New(rand.NewSource(jitterSeed))
	}
	for _, gs := range gates {
		o.gates = append(o.gates, &gate{spec: gs, reached: make(chan struct{}), release: make(chan struct{})})
	}
	return o
}

func (g *gate) matches(e *sarama.VerifProdEvent) bool {
	if g.spec.Kind != e.Kind {
		return false
	}
	if g.spec.Partition >= 0 {
		p := e.Partition
		if e.Msg != nil {
			p = e.Msg.Partition
		}
		if p != g.spec.Partition {
			return false
		}
	}
	if g.spec.Retries >= 0 && (e.Msg == nil || e.Msg.Retries != g.spec.Retries) {
		return false
	}
	if g.spec.Data && (e.Msg == nil || e.Msg.Flags != 0) {
		return false
	}
	if g.spec.Fin && (e.Msg == nil || e.Msg.Flags&2 == 0) {
		return false
	}
	return true
}

func (o *Observer) Install() {
	sarama.VerifSetObserver(func(kind string, args ...interface{}) {
		e := sarama.VerifProducerDecode(kind, args)
		if e == nil {
			return
		}
		ev := Ev{VerifProdEvent: e}
		switch kind {
		case "bridge.send":
			if _, ep, ok := sarama.VerifC05SetLabel(args[1]); ok {
				ev.Label, ev.HasLabel = ep, true
			}
		case "retryBatch.send":
			if _, ep, ok := sarama.VerifC05SetLabel(args[2]); ok {
				ev.Label, ev.HasLabel = ep, true
			}
			if ep, ok := sarama.VerifC05Epoch(args[0]); ok {
				ev.Epoch, ev.HasEpoch = ep, true
			}
		case "retryBatch.start", "retryBatch.leader":
			if ep, ok := sarama.VerifC05Epoch(args[0]); ok {
				ev.Epoch, ev.HasEpoch = ep, true
			}
		case "return.error":
			if ep, ok := sarama.VerifC05Epoch(args[2]); ok {
				ev.Epoch, ev.HasEpoch = ep, true
			}
		}
		o.record(ev)
	})
}

func (o *Observer) Uninstall() {
	sarama.VerifSetObserver(nil)
	o.ReleaseAll()
}

func (o *Observer) ReleaseAll() {
	o.mu.Lock()
	gs := append([]*gate(nil), o.gates...)
	o.mu.Unlock()
	for _, g := range gs {
		g.Release()
	}
}

func (o *Observer) record(e Ev) {
	e.Goid = goid()
	var held *gate
	o.mu.Lock()
	e.Seq = len(o.evs)
	o.evs = append(o.evs, e)
	for _, g := range o.gates {
		if g.matches(e.VerifProdEvent) {
			g.hit++
			if g.hit == g.spec.Nth {
				held = g
				g.wasHeld = true
			}
		}
	}
	o.cond.Broadcast()
	o.mu.Unlock()
	if held != nil {
		close(held.reached)
		select {
		case <-held.release:
		case <-time.After(o.maxHold):
		}
		return
	}
	if o.jitter != nil {
		o.jmu.Lock()
		r := o.jitter.Intn(100)
		o.jmu.Unlock()
		switch {
		case r < 20:
			runtime.Gosched()
		case r < 26:
			time.Sleep(time.Duration(50+r*10) * time.Microsecond)
		}
	}
}

// Events returns a copy of everything recorded so far.
func (o *Observer) Events() []Ev {
	o.mu.Lock()
	defer o.mu.Unlock()
	return append([]Ev(nil), o.evs...)
}

// WaitFor blocks until pred holds of the recorded events or the timeout expires; reports whether it held.
func (o *Observer) WaitFor(pred func([]Ev) bool, timeout time.Duration) bool {
	deadline := time.Now().Add(timeout)
	for {
		o.mu.Lock()
		ok := pred(o.evs)
		o.mu.Unlock()
		if ok {
			return true
		}
		if time.Now().After(deadline) {
			return false
		}
		time.Sleep(300 * time.Microsecond)
	}
}
