package idembroker

import (
	"fmt"
	"sort"
	"strings"

	"verifharness/internal/coqfmt"
)

func z(v int64) string { return coqfmt.Z(v) }

func key(topic string, p int32) string {
	return fmt.Sprintf("(%d, %s)", TopicIndex(topic), z(int64(p)))
}

func zlist(v []int64) string { return coqfmt.ZList(v) }

// CoqCase prints one run as a term of type C05.Corr.case.
func CoqCase(res *Result) string {
	// (1) broker
	var reqs []string
	for _, r := range res.Requests {
		var bs, vs, ans, pfs []string
		for _, b := range r.Batches {
			bs = append(bs, fmt.Sprintf("mkBatch %s %s %s %s", key(b.Topic, b.Partition), z(int64(b.Epoch)), z(int64(b.First)), zlist(b.IDs)))
			switch b.Verdict {
			case 0, 1:
				vs = append(vs, fmt.Sprintf("(%d, %s)", b.Verdict, z(b.Base)))
			case 2, 3:
				vs = append(vs, fmt.Sprintf("(%d, (-1))", b.Verdict))
			default:
				vs = append(vs, "((-1), (-1))")
			}
			if b.Answered {
				ans = append(ans, fmt.Sprintf("(%s, (%s, %s))", key(b.Topic, b.Partition), z(int64(b.Code)), z(b.AnsBase)))
			}
			switch b.Fault {
			case "err-before":
				pfs = append(pfs, "PErrBefore "+z(int64(b.FaultErr)))
			case "leader-move":
				pfs = append(pfs, "PErrBefore 6")
			case "err-after":
				pfs = append(pfs, "PErrAfter "+z(int64(b.FaultErr)))
			case "noblock":
				pfs = append(pfs, "PNoBlock")
			default:
				pfs = append(pfs, "PNone")
			}
		}
		fault := "RAnswer " + coqfmt.List(pfs)
		switch r.Fault {
		case "drop-before":
			fault = "RDropBefore"
			ans = []string{"(((-1), (-1)), (1004, (-1)))"}
		case "lose-ack":
			fault = "RLoseAck"
			ans = []string{"(((-1), (-1)), (1004, (-1)))"}
		}
		reqs = append(reqs, fmt.Sprintf("mkBreq %s (%s) %s %s", coqfmt.List(bs), fault, coqfmt.List(vs), coqfmt.List(ans)))
	}
	// logs
	var lkeys []string
	for k := range res.Logs {
		lkeys = append(lkeys, k)
	}
	sort.Strings(lkeys)
	var logs []string
	for _, k := range lkeys {
		var p int32
		i := strings.LastIndex(k, "/")
		fmt.Sscanf(k[i+1:], "%d", &p)
		tname := k[:i]
		var es []string
		for _, a := range res.Logs[k] {
			es = append(es, fmt.Sprintf("(%s, %s, %s)", z(a.ID), z(int64(a.Epoch)), z(int64(a.Seq))))
		}
		logs = append(logs, fmt.Sprintf("(%s, %s)", key(tname, p), coqfmt.List(es)))
	}
	// (2) transaction manager: only for complete runs
	var ops []string
	final := int64(0)
	if res.CloseOK && res.HaveTxn {
		bumps := 0
		maxEp := 0
		type st struct {
			t      string
			p      int32
			sq, ep int64
		}
		var stamps []st
		var flushed []string
		inFlush := map[int64]bool{}
		for _, e := range res.Events {
			switch e.Kind {
			case "pp.flush.level":
				inFlush[e.Goid] = true
			case "pp.recv":
				inFlush[e.Goid] = false
			}
			if e.Kind == "return.error" && e.Msg != nil && e.Msg.HasSeq {
				bumps++
			}
			if e.Kind == "pp.send" && e.Msg != nil && e.Msg.Retries == 0 && e.Msg.Flags == 0 {
				if inFlush[e.Goid] && !e.Msg.HasSeq {
					// flushRetryBuffers of the pinned tree forwards the backlog as it is: the model (Actors.flush) does not
					// stamp there (known finding c05:unsequenced-backlog; with fixes/c05_flush_stamp.patch the message is
					// stamped at this point and is checked like any other stamp)
					flushed = append(flushed, fmt.Sprintf("TFlushed %s %s", z(e.Msg.ID), coqfmt.Bool(e.Msg.HasSeq)))
					continue
				}
				ep := int64(e.Msg.Epoch)
				sq := int64(e.Msg.Seq)
				if !e.Msg.HasSeq {
					ep, sq = -7, -7 // an unstamped first-pass message on the main path never matches the model
				}
				stamps = append(stamps, st{e.Msg.Topic, e.Msg.Partition, sq, ep})
				if int(ep) > maxEp {
					maxEp = int(ep)
				}
			}
		}
		top := bumps
		if maxEp > top {
			top = maxEp
		}
		for ep := -7; ep <= top; ep++ {
			if ep < 0 && ep != -7 {
				continue
			}
			for _, s := range stamps {
				if int(s.ep) == ep {
					ops = append(ops, fmt.Sprintf("TStamp %s %s %s", key(s.t, s.p), z(s.sq), z(s.ep)))
				}
			}
			if ep >= 0 && ep < bumps {
				ops = append(ops, "TBump")
			}
		}
		ops = append(ops, flushed...)
		final = int64(res.FinalEpoch)
	}
	// (3) retryBatch goroutines
	var rbs []string
	if res.CloseOK {
		byG := map[int64][]Ev{}
		var gs []int64
		for _, e := range res.Events {
			if e.Kind == "retryBatch.start" {
				gs = append(gs, e.Goid)
			}
		}
		isRB := map[int64]bool{}
		for _, g := range gs {
			isRB[g] = true
		}
		for _, e := range res.Events {
			if isRB[e.Goid] {
				byG[e.Goid] = append(byG[e.Goid], e)
			}
		}
		for _, g := range gs {
			evs := byG[g]
			if len(evs) == 0 || evs[0].Kind != "retryBatch.start" || len(evs[0].Set) != 1 {
				continue
			}
			start := evs[0]
			var msgs []string
			for _, m := range start.Set[0].Msgs {
				msgs = append(msgs, fmt.Sprintf("(%s, %s, %s, %s)", z(m.ID), z(int64(m.Seq)), z(int64(m.Epoch)), coqfmt.Nat(m.Retries)))
			}
			lo, hi := int64(start.Epoch), int64(start.Epoch)
			sent := "None"
			var failed []int64
			for _, e := range evs[1:] {
				switch e.Kind {
				case "retryBatch.send":
					hi = int64(e.Epoch)
					var sm []string
					if len(e.Set) == 1 {
						for _, m := range e.Set[0].Msgs {
							sm = append(sm, fmt.Sprintf("(%s, %s, %s, %s)", z(m.ID), z(int64(m.Seq)), z(int64(m.Epoch)), coqfmt.Nat(m.Retries)))
						}
					}
					sent = fmt.Sprintf("(Some (%s, %s))", z(int64(e.Label)), coqfmt.List(sm))
				case "return.error":
					if e.Msg != nil {
						failed = append(failed, e.Msg.ID)
					}
				}
			}
			rbs = append(rbs, fmt.Sprintf("mkRbcase %s %s %s %s %s %s %s %s", coqfmt.Nat(res.Scenario.RetryMax), key(start.Topic, start.Partition),
				coqfmt.List(msgs), z(int64(start.Err)), z(lo), z(hi), sent, zlist(failed)))
		}
	}
	return fmt.Sprintf("mkCase %s %s %s %s %s", coqfmt.List(reqs), coqfmt.List(logs), coqfmt.List(ops), z(final), coqfmt.List(rbs))
}
