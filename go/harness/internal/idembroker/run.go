package idembroker

import (
	"fmt"
	"strings"
	"sync"
	"time"

	"github.com/Shopify/sarama"
)

// TopicNames: topic index -> name. The second name is the first one followed by a digit on purpose (anything that
// keys per-partition state by concatenating topic and partition must keep them apart).
var TopicNames = []string{"t", "t1"}

func TopicIndex(name string) int {
	for i, n := range TopicNames {
		if n == name {
			return i
		}
	}
	return -1
}

// MsgSpec is one message the application submits.
type MsgSpec struct {
	ID        int64 `json:"id"`
	Topic     int   `json:"topic,omitempty"` // index into TopicNames
	Partition int32 `json:"partition"`
	Wave      int   `json:"wave,omitempty"`
	Pad       int   `json:"pad,omitempty"`
	// Reuse: the application sends this message by re-using the *ProducerMessage object it got back (on Successes() or
	// Errors()) for message Reuse, with this message's identity (Metadata), value and destination written into it;
	// a new object if that message has not come back by then. ProducerMessage.clear is what makes this legitimate.
	Reuse int64 `json:"reuse,omitempty"`
}

// Step is one action of the driver goroutine (the application + the steering).
type Step struct {
	Op  string `json:"op"` // submit (wave Arg) | wait-gate (Arg) | release (Arg) | wait-outcome (ID) | wait-error (ID) | wait-requests (Arg) | wait-stamped (ID) | sleep (Arg ms)
	Arg int    `json:"arg,omitempty"`
	ID  int64  `json:"id,omitempty"`
}

// Scenario is one deterministic description of a run.
type Scenario struct {
	Name        string     `json:"name"`
	Brokers     int        `json:"brokers"`
	Partitions  int        `json:"partitions"`            // of topic "t"
	Partitions1 int        `json:"partitions1,omitempty"` // of topic "t1" (0: the topic does not exist)
	RetryMax    int        `json:"retrymax"`
	FlushMsgs   int        `json:"flushmsgs"`   // Flush.Messages (0: flush as soon as possible)
	FlushFreqMs int        `json:"flushfreqms"` // Flush.Frequency (0: none)
	MaxMsgs     int        `json:"maxmsgs"`     // Flush.MaxMessages (0: none)
	Msgs        []MsgSpec  `json:"msgs"`
	Script      []Fault    `json:"script"`
	Gates       []GateSpec `json:"gates,omitempty"`
	Steps       []Step     `json:"steps,omitempty"` // empty: submit the waves in order, 3 ms apart
	Jitter      int64      `json:"jitter,omitempty"`
}

type meta struct {
	id  int64
	run *Result
}

func (m *meta) VerifID() int64 { return m.id }

// Outcome is one terminal event the application received.
type Outcome struct {
	ID        int64  `json:"id"`
	Success   bool   `json:"success"`
	Topic     string `json:"topic"`
	Err       int    `json:"err,omitempty"`
	Partition int32  `json:"partition"`
	Offset    int64  `json:"offset"`
}

// Result is everything observed in one run.
type Result struct {
	Scenario   *Scenario
	Outcomes   []Outcome
	CloseOK    bool
	Events     []Ev
	Requests   []ReqLog
	Logs       map[string][]Appended
	FinalEpoch int16
	FinalSeqs  map[string]int32
	HaveTxn    bool
	PID        int64
	GateHeld   []bool
	Reused     []int64 // ids submitted in a returned object
	SetupErr   string
	Wall       time.Duration
}

func (sc *Scenario) Config() *sarama.Config {
	cfg := sarama.NewConfig()
	cfg.Version = sarama.V0_11_0_0
	cfg.Producer.Return.Successes = true
	cfg.Producer.Return.Errors = true
	cfg.Producer.Retry.Max = sc.RetryMax
	cfg.Producer.Retry.Backoff = time.Millisecond
	cfg.Producer.Flush.Messages = sc.FlushMsgs
	cfg.Producer.Flush.MaxMessages = sc.MaxMsgs
	cfg.Producer.Flush.Frequency = time.Duration(sc.FlushFreqMs) * time.Millisecond
	cfg.Producer.Partitioner = sarama.NewManualPartitioner
	cfg.ChannelBufferSize = 16
	cfg.Metadata.Retry.Max = 1
	cfg.Metadata.Retry.Backoff = time.Millisecond
	cfg.Metadata.RefreshFrequency = 0
	cfg.Net.ReadTimeout = 250 * time.Millisecond
	cfg.Net.DialTimeout = 250 * time.Millisecond
	cfg.Net.WriteTimeout = 250 * time.Millisecond
	cfg.Producer.Idempotent = true
	cfg.Producer.RequiredAcks = sarama.WaitForAll
	cfg.Net.MaxOpenRequests = 1
	return cfg
}

func message(s MsgSpec, run *Result, old *sarama.ProducerMessage) *sarama.ProducerMessage {
	val := fmt.Sprintf("%d", s.ID)
	if s.Pad > 0 {
		val += ":" + strings.Repeat("p", s.Pad)
	}
	if old != nil {
		// what an application that recycles its message objects does: only the exported fields are touched
		old.Topic, old.Partition, old.Key, old.Value, old.Metadata = TopicNames[s.Topic], s.Partition, nil, sarama.StringEncoder(val), &meta{id: s.ID, run: run}
		return old
	}
	return &sarama.ProducerMessage{Topic: TopicNames[s.Topic], Partition: s.Partition, Value: sarama.StringEncoder(val), Metadata: &meta{id: s.ID, run: run}}
}

const closeBound = 3 * time.Second
const gateBound = 150 * time.Millisecond
const stepBound = 1500 * time.Millisecond

// Run executes the scenario against the source tree the harness was built with.
func Run(sc *Scenario) *Result {
	t0 := time.Now()
	res := &Result{Scenario: sc}
	topics := map[string]int{TopicNames[0]: sc.Partitions}
	if sc.Partitions1 > 0 {
		topics[TopicNames[1]] = sc.Partitions1
	}
	cl := NewCluster(sc.Brokers, topics, sc.Script)
	defer cl.Close()
	res.PID = cl.PID
	cfg := sc.Config()
	obs := NewObserver(sc.Jitter, sc.Gates)
	obs.Install()
	defer obs.Uninstall()

	client, err := sarama.NewClient(cl.Addrs(), cfg)
	if err != nil {
		res.SetupErr = "client: " + err.Error()
		return res
	}
	prod, err := sarama.NewAsyncProducerFromClient(client)
	if err != nil {
		res.SetupErr = "producer: " + err.Error()
		_ = client.Close()
		return res
	}

	var omu sync.Mutex
	var succ, errs []Outcome
	returned := map[int64]*sarama.ProducerMessage{}
	closedS, closedE := make(chan struct{}), make(chan struct{})
	idOf := func(m *sarama.ProducerMessage) int64 {
		if mm, ok := m.Metadata.(*meta); ok {
			return mm.id
		}
		return -1
	}
	go func() {
		for m := range prod.Successes() {
			omu.Lock()
			succ = append(succ, Outcome{ID: idOf(m), Success: true, Topic: m.Topic, Partition: m.Partition, Offset: m.Offset})
			returned[idOf(m)] = m
			omu.Unlock()
		}
		close(closedS)
	}()
	go func() {
		for e := range prod.Errors() {
			omu.Lock()
			errs = append(errs, Outcome{ID: idOf(e.Msg), Err: sarama.VerifProdErrClass(e.Err), Topic: e.Msg.Topic, Partition: e.Msg.Partition})
			returned[idOf(e.Msg)] = e.Msg
			omu.Unlock()
		}
		close(closedE)
	}()

	submit := func(w int) {
		for _, m := range sc.Msgs {
			if m.Wave == w {
				var old *sarama.ProducerMessage
				if m.Reuse != 0 {
					omu.Lock()
					old = returned[m.Reuse]
					delete(returned, m.Reuse) // an object is in the application's hands once
					omu.Unlock()
					if old != nil {
						res.Reused = append(res.Reused, m.ID)
					}
				}
				select {
				case prod.Input() <- message(m, res, old):
				case <-time.After(stepBound):
				}
			}
		}
	}
	steps := sc.Steps
	if len(steps) == 0 {
		maxWave := 0
		for _, m := range sc.Msgs {
			if m.Wave > maxWave {
				maxWave = m.Wave
			}
		}
		for w := 0; w <= maxWave; w++ {
			if w > 0 {
				steps = append(steps, Step{Op: "sleep", Arg: 3})
			}
			steps = append(steps, Step{Op: "submit", Arg: w})
		}
	}
	terminal := func(id int64, onlyErr bool) func([]Ev) bool {
		return func(evs []Ev) bool {
			for _, e := range evs {
				if e.Msg != nil && e.Msg.ID == id && (e.Kind == "return.error" || (!onlyErr && e.Kind == "return.success")) {
					return true
				}
			}
			return false
		}
	}
	for _, st := range steps {
		switch st.Op {
		case "submit":
			submit(st.Arg)
		case "sleep":
			time.Sleep(time.Duration(st.Arg) * time.Millisecond)
		case "wait-gate":
			if st.Arg < len(obs.gates) {
				select {
				case <-obs.gates[st.Arg].reached:
				case <-time.After(gateBound):
				}
			}
		case "release":
			if st.Arg < len(obs.gates) {
				obs.gates[st.Arg].Release()
			}
		case "wait-outcome":
			obs.WaitFor(terminal(st.ID, false), stepBound)
		case "wait-error":
			obs.WaitFor(terminal(st.ID, true), stepBound)
		case "wait-stamped":
			id := st.ID
			obs.WaitFor(func(evs []Ev) bool {
				for _, e := range evs {
					if e.Kind == "pp.send" && e.Msg != nil && e.Msg.ID == id {
						return true
					}
				}
				return false
			}, stepBound)
		case "wait-requests":
			deadline := time.Now().Add(stepBound)
			for cl.Served() < st.Arg && time.Now().Before(deadline) {
				time.Sleep(300 * time.Microsecond)
			}
		}
	}
	obs.ReleaseAll()

	prod.AsyncClose()
	done := make(chan struct{})
	go func() {
		<-closedS
		<-closedE
		close(done)
	}()
	select {
	case <-done:
		res.CloseOK = true
	case <-time.After(closeBound):
	}
	if res.CloseOK {
		_ = client.Close()
	}
	omu.Lock()
	res.Outcomes = append(append([]Outcome(nil), succ...), errs...)
	omu.Unlock()
	// keep the events of this run's producer only (a goroutine left over from an earlier, hung run may still move)
	all := obs.Events()
	var mine interface{}
	for _, e := range all {
		if e.Msg != nil && e.Msg.Ptr != nil {
			if mm, ok := e.Msg.Ptr.Metadata.(*meta); ok && mm.run == res {
				mine = e.Producer
				break
			}
		}
	}
	for _, e := range all {
		if mine != nil && e.Producer == mine {
			res.Events = append(res.Events, e)
		}
	}
	for _, g := range obs.gates {
		res.GateHeld = append(res.GateHeld, g.wasHeld)
	}
	res.Requests, res.Logs = cl.Snapshot()
	if _, ep, seqs, ok := sarama.VerifC05TxnState(prod); ok {
		res.FinalEpoch, res.FinalSeqs, res.HaveTxn = ep, seqs, true
	}
	res.Wall = time.Since(t0)
	return res
}
