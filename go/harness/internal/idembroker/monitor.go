package idembroker

import (
	"fmt"
	"sort"
)

// Finding is one failure of the property observed on the implementation.
type Finding struct {
	Signature string
	What      string
}

// Shape is the history class of a run (the hypothesis of c05_no_duplicate_partial is Shape == "in-class").
type Shape struct {
	ConnDrop    bool // a connection-level failure hit a request that carried sequenced batches
	EpochBump   bool // a sequenced message was failed while another sequenced message was unresolved
	Unsequenced bool // flushRetryBuffers forwarded a first-pass message that never got a sequence number
	Parts       int  // partitions that received batches
	MaxBatch    int  // largest batch
}

func (s Shape) Name() string {
	switch {
	case s.ConnDrop:
		return "conn-drop:requeued-individually"
	case s.Unsequenced:
		return "unsequenced-backlog:flushed-without-sequence"
	case s.EpochBump:
		return "epoch-bump:other-messages-in-flight"
	}
	return "in-class"
}

func (s Shape) Sizes() string { return fmt.Sprintf("p%db%d", s.Parts, s.MaxBatch) }

// Classify computes the history class from the request log (connection-level failures) and the hook events
// (error events of sequenced messages vs the sequenced messages unresolved at that moment).
func Classify(res *Result) Shape {
	var s Shape
	parts := map[int32]bool{}
	for _, r := range res.Requests {
		for _, b := range r.Batches {
			parts[b.Partition] = true
			if len(b.IDs) > s.MaxBatch {
				s.MaxBatch = len(b.IDs)
			}
		}
		if (r.Fault == "drop-before" || r.Fault == "lose-ack") && len(r.Batches) > 0 {
			s.ConnDrop = true
		}
	}
	s.Parts = len(parts)
	live := map[int64]bool{}
	evs := res.Events
	for i, e := range evs {
		if e.Msg == nil || e.Msg.ID < 0 {
			continue
		}
		switch e.Kind {
		case "pp.send":
			if e.Msg.Retries == 0 && e.Msg.Flags == 0 && e.Msg.HasSeq {
				live[e.Msg.ID] = true
			}
			if e.Msg.Retries == 0 && e.Msg.Flags == 0 && !e.Msg.HasSeq {
				s.Unsequenced = true
			}
		case "return.success":
			delete(live, e.Msg.ID)
		case "return.error":
			delete(live, e.Msg.ID)
			if !e.Msg.HasSeq {
				continue
			}
			// messages failed by the same handler right after this one do not count as "others"
			same := map[int64]bool{}
			for j := i + 1; j < len(evs); j++ {
				if evs[j].Goid != e.Goid {
					continue
				}
				if evs[j].Kind == "return.error" && evs[j].Msg != nil {
					same[evs[j].Msg.ID] = true
					continue
				}
				break
			}
			for id := range live {
				if !same[id] {
					s.EpochBump = true
				}
			}
		}
	}
	return s
}

// Monitor evaluates the C05 statement directly on what the simulated cluster received and appended and on the
// terminal events: no id appended twice, every success in the log exactly once (at the reported offset),
// batches of a partition contiguous within an epoch, a resent batch identical to the original.
func Monitor(res *Result) []Finding {
	shape := Classify(res)
	var out []Finding
	seen := map[string]bool{}
	add := func(kind, what string) {
		sig := "c05:" + shape.Name() + ":" + kind + ":" + shape.Sizes()
		if !seen[sig] {
			seen[sig] = true
			out = append(out, Finding{sig, what})
		}
	}
	// 1. no message appended twice; no internal marker in a log
	count := map[int64]int{}
	where := map[int64][]string{}
	var keys []string
	for k := range res.Logs {
		keys = append(keys, k)
	}
	sort.Strings(keys)
	for _, k := range keys {
		for _, a := range res.Logs[k] {
			if a.ID < 0 {
				add("marker-in-log", fmt.Sprintf("a record that is not an application message was appended to %s at offset %d (epoch %d, sequence %d)", k, a.Offset, a.Epoch, a.Seq))
				continue
			}
			count[a.ID]++
			where[a.ID] = append(where[a.ID], fmt.Sprintf("%s@%d(e%d,s%d,req%d)", k, a.Offset, a.Epoch, a.Seq, a.Request))
		}
	}
	var ids []int64
	for id := range count {
		ids = append(ids, id)
	}
	sort.Slice(ids, func(i, j int) bool { return ids[i] < ids[j] })
	for _, id := range ids {
		if count[id] > 1 {
			add("duplicate", fmt.Sprintf("message %d was appended %d times: %v", id, count[id], where[id]))
		}
	}
	// 2. every success is in the log exactly once, at the offset reported
	for _, o := range res.Outcomes {
		if !o.Success || o.ID < 0 {
			continue
		}
		switch count[o.ID] {
		case 0:
			add("success-not-in-log", fmt.Sprintf("message %d was reported successful (partition %d, offset %d) but is not in any log", o.ID, o.Partition, o.Offset))
		case 1:
			for _, a := range res.Logs[tpKey(Topic, o.Partition)] {
				if a.ID == o.ID && a.Offset != o.Offset {
					add("success-wrong-offset", fmt.Sprintf("message %d was reported at offset %d but sits at offset %d of partition %d", o.ID, o.Offset, a.Offset, o.Partition))
				}
			}
		}
	}
	// 3. batches: producer id, contiguity within an epoch, resends identical
	type sent struct {
		epoch int16
		first int32
		ids   []int64
		req   int
	}
	hist := map[int32][]sent{}
	next := map[string]int32{} // partition/epoch -> next expected first sequence
	same := func(a, b []int64) bool {
		if len(a) != len(b) {
			return false
		}
		for i := range a {
			if a[i] != b[i] {
				return false
			}
		}
		return true
	}
	for _, r := range res.Requests {
		for _, b := range r.Batches {
			if len(b.IDs) == 0 {
				continue
			}
			if !b.IsBatch || b.PID != res.PID {
				add("wrong-producer-id", fmt.Sprintf("request %d partition %d carries producer id %d (record batch: %v), InitProducerID handed out %d", r.Index, b.Partition, b.PID, b.IsBatch, res.PID))
			}
			cur := sent{b.Epoch, b.First, b.IDs, r.Index}
			var prev *sent
			for i := range hist[b.Partition] {
				h := &hist[b.Partition][i]
				for _, x := range h.ids {
					for _, y := range b.IDs {
						if x == y && x >= 0 {
							prev = h
						}
					}
				}
			}
			if prev != nil {
				if prev.epoch != cur.epoch || prev.first != cur.first || !same(prev.ids, cur.ids) {
					add("resend-differs", fmt.Sprintf("partition %d: request %d resends (epoch %d, first %d, ids %v) which request %d sent as (epoch %d, first %d, ids %v)",
						b.Partition, r.Index, cur.epoch, cur.first, cur.ids, prev.req, prev.epoch, prev.first, prev.ids))
				}
			} else {
				k := fmt.Sprintf("%d/%d", b.Partition, b.Epoch)
				if b.First != next[k] {
					add("noncontiguous", fmt.Sprintf("partition %d epoch %d: request %d starts a new batch at sequence %d, the previous batches end at %d", b.Partition, b.Epoch, r.Index, b.First, next[k]-1))
				}
			}
			k := fmt.Sprintf("%d/%d", b.Partition, b.Epoch)
			if l := b.First + int32(len(b.IDs)); l > next[k] {
				next[k] = l
			}
			hist[b.Partition] = append(hist[b.Partition], cur)
		}
	}
	return out
}
