package idembroker

import (
	"fmt"
	"sort"
)

// Finding is one failure of the property observed on the implementation.
type Finding struct {
	Signature string
	What      string
}

// Shape is the history class of a run (the hypothesis of c05_no_duplicate_partial is Shape == "in-class").
type Shape struct {
	ConnDrop    bool // a connection-level failure hit a request that carried sequenced batches
	EpochBump   bool // a sequenced message was failed while another sequenced message was unresolved
	Unsequenced bool // flushRetryBuffers forwarded a first-pass message that never got a sequence number
	Parts       int  // partitions that received batches
	MaxBatch    int  // largest batch
}

func (s Shape) Name() string {
	switch {
	case s.ConnDrop:
		return "conn-drop:requeued-individually"
	case s.Unsequenced:
		return "unsequenced-backlog:flushed-without-sequence"
	case s.EpochBump:
		return "epoch-bump:other-messages-in-flight"
	}
	return "in-class"
}

func (s Shape) Sizes() string { return fmt.Sprintf("p%db%d", s.Parts, s.MaxBatch) }

// Classify computes the history class from the request log (connection-level failures) and the hook events
// (error events of sequenced messages vs the sequenced messages unresolved at that moment).
func Classify(res *Result) Shape {
	var s Shape
	parts := map[string]bool{}
	for _, r := range res.Requests {
		for _, b := range r.Batches {
			parts[tpKey(b.Topic, b.Partition)] = true
			if len(b.IDs) > s.MaxBatch {
				s.MaxBatch = len(b.IDs)
			}
		}
		if (r.Fault == "drop-before" || r.Fault == "lose-ack") && len(r.Batches) > 0 {
			s.ConnDrop = true
		}
	}
	s.Parts = len(parts)
	live := map[int64]bool{}
	evs := res.Events
	for i, e := range evs {
		if e.Msg == nil || e.Msg.ID < 0 {
			continue
		}
		switch e.Kind {
		case "pp.send":
			if e.Msg.Retries == 0 && e.Msg.Flags == 0 && e.Msg.HasSeq {
				live[e.Msg.ID] = true
			}
			if e.Msg.Retries == 0 && e.Msg.Flags == 0 && !e.Msg.HasSeq {
				s.Unsequenced = true
			}
		case "return.success":
			delete(live, e.Msg.ID)
		case "return.error":
			delete(live, e.Msg.ID)
			if !e.Msg.HasSeq {
				continue
			}
			// messages failed by the same handler right after this one do not count as "others"
			same := map[int64]bool{}
			for j := i + 1; j < len(evs); j++ {
				if evs[j].Goid != e.Goid {
					continue
				}
				if evs[j].Kind == "return.error" && evs[j].Msg != nil {
					same[evs[j].Msg.ID] = true
					continue
				}
				break
			}
			for id := range live {
				if !same[id] {
					s.EpochBump = true
				}
			}
		}
	}
	return s
}

// triggers are the moments from which a history is outside the class of c05_no_duplicate_partial's clean
// histories: positions in the hook-event order (bump, unsequenced) or a request index (connection failure).
type triggers struct {
	connReq  int         // index of the first request hit by a connection-level failure (-1 none)
	bumpPos  int         // event position of the first error event of a sequenced message while another was unresolved (-1 none)
	unseqPos int         // event position of the first first-pass message forwarded without a sequence number (-1 none)
	reqPos   map[int]int // request index -> event position of its bridge.send (absent: unknown = end of run)
	end      int
}

func findTriggers(res *Result) triggers {
	t := triggers{connReq: -1, bumpPos: -1, unseqPos: -1, reqPos: map[int]int{}, end: 1 << 30}
	for _, r := range res.Requests {
		if (r.Fault == "drop-before" || r.Fault == "lose-ack") && len(r.Batches) > 0 && t.connReq < 0 {
			t.connReq = r.Index
		}
	}
	// j-th request served by broker b <-> j-th bridge.send of a broker worker of b
	sends := map[int32][]int{}
	for _, e := range res.Events {
		if e.Kind == "bridge.send" {
			sends[e.Leader] = append(sends[e.Leader], e.Seq)
		}
	}
	seen := map[int32]int{}
	for _, r := range res.Requests {
		j := seen[r.Broker]
		seen[r.Broker]++
		if j < len(sends[r.Broker]) {
			t.reqPos[r.Index] = sends[r.Broker][j]
		}
	}
	live := map[int64]bool{}
	evs := res.Events
	for i, e := range evs {
		if e.Msg == nil || e.Msg.ID < 0 {
			continue
		}
		switch e.Kind {
		case "pp.send":
			if e.Msg.Retries == 0 && e.Msg.Flags == 0 && e.Msg.HasSeq {
				live[e.Msg.ID] = true
			}
			if e.Msg.Retries == 0 && e.Msg.Flags == 0 && !e.Msg.HasSeq && t.unseqPos < 0 {
				t.unseqPos = e.Seq
			}
		case "return.success":
			delete(live, e.Msg.ID)
		case "return.error":
			delete(live, e.Msg.ID)
			if !e.Msg.HasSeq || t.bumpPos >= 0 {
				continue
			}
			same := map[int64]bool{}
			for j := i + 1; j < len(evs); j++ {
				if evs[j].Goid != e.Goid {
					continue
				}
				if evs[j].Kind == "return.error" && evs[j].Msg != nil {
					same[evs[j].Msg.ID] = true
					continue
				}
				break
			}
			for id := range live {
				if !same[id] {
					t.bumpPos = e.Seq
				}
			}
		}
	}
	return t
}

// shapeAt is the history class in effect when request req was handed to its bridge (req < 0: at the end of the run).
func (t triggers) shapeAt(req int, sizes Shape) Shape {
	pos := t.end
	if p, ok := t.reqPos[req]; ok && req >= 0 {
		pos = p
	}
	s := Shape{Parts: sizes.Parts, MaxBatch: sizes.MaxBatch}
	s.ConnDrop = t.connReq >= 0 && (req < 0 || t.connReq < req)
	s.EpochBump = t.bumpPos >= 0 && t.bumpPos < pos
	s.Unsequenced = t.unseqPos >= 0 && t.unseqPos < pos
	return s
}

// Monitor evaluates the C05 statement directly on what the simulated cluster received and appended and on the
// terminal events: no id appended twice, every success in the log exactly once (at the reported offset),
// batches of a partition contiguous within an epoch, a resent batch identical to the original. Every failure is
// attributed to the request that exhibits it and classified by the history class in effect when that request
// was sent (so a failure that precedes the first connection failure / epoch bump / unsequenced message of its run
// is reported as in-class).
func Monitor(res *Result) []Finding {
	sizes := Classify(res)
	trig := findTriggers(res)
	var out []Finding
	seen := map[string]bool{}
	add := func(req int, kind, what string) {
		shape := trig.shapeAt(req, sizes)
		sig := "c05:" + shape.Name() + ":" + kind + ":" + shape.Sizes()
		if !seen[sig] {
			seen[sig] = true
			out = append(out, Finding{sig, what})
		}
	}
	// the last request that carried a message
	lastReq := map[int64]int{}
	for _, r := range res.Requests {
		for _, b := range r.Batches {
			for _, id := range b.IDs {
				lastReq[id] = r.Index
			}
		}
	}
	reqOf := func(id int64) int {
		if r, ok := lastReq[id]; ok {
			return r
		}
		return -1
	}
	// 1. no message appended twice; no internal marker in a log
	count := map[int64]int{}
	where := map[int64][]string{}
	second := map[int64]int{}
	var keys []string
	for k := range res.Logs {
		keys = append(keys, k)
	}
	sort.Strings(keys)
	for _, k := range keys {
		for _, a := range res.Logs[k] {
			if a.ID < 0 {
				add(a.Request, "marker-in-log", fmt.Sprintf("a record that is not an application message was appended to %s at offset %d (epoch %d, sequence %d)", k, a.Offset, a.Epoch, a.Seq))
				continue
			}
			count[a.ID]++
			if count[a.ID] == 1 || a.Request > second[a.ID] {
				second[a.ID] = a.Request
			}
			where[a.ID] = append(where[a.ID], fmt.Sprintf("%s@%d(e%d,s%d,req%d)", k, a.Offset, a.Epoch, a.Seq, a.Request))
		}
	}
	var ids []int64
	for id := range count {
		ids = append(ids, id)
	}
	sort.Slice(ids, func(i, j int) bool { return ids[i] < ids[j] })
	for _, id := range ids {
		if count[id] > 1 {
			add(second[id], "duplicate", fmt.Sprintf("message %d was appended %d times: %v", id, count[id], where[id]))
		}
	}
	// 2. every success is in the log exactly once, at the offset reported
	for _, o := range res.Outcomes {
		if !o.Success || o.ID < 0 {
			continue
		}
		switch count[o.ID] {
		case 0:
			add(reqOf(o.ID), "success-not-in-log", fmt.Sprintf("message %d was reported successful (%s/%d, offset %d) but is not in any log", o.ID, o.Topic, o.Partition, o.Offset))
		case 1:
			found := false
			for _, a := range res.Logs[tpKey(o.Topic, o.Partition)] {
				if a.ID == o.ID {
					found = true
					if a.Offset != o.Offset {
						add(reqOf(o.ID), "success-wrong-offset", fmt.Sprintf("message %d was reported at offset %d but sits at offset %d of %s/%d", o.ID, o.Offset, a.Offset, o.Topic, o.Partition))
					}
				}
			}
			if !found {
				add(reqOf(o.ID), "success-wrong-offset", fmt.Sprintf("message %d was reported for %s/%d but sits in another partition's log: %v", o.ID, o.Topic, o.Partition, where[o.ID]))
			}
		}
	}
	// 3. batches: producer id, contiguity within an epoch, resends identical
	type sent struct {
		epoch int16
		first int32
		ids   []int64
		req   int
	}
	hist := map[string][]sent{}
	next := map[string]int32{} // partition/epoch -> next expected first sequence
	same := func(a, b []int64) bool {
		if len(a) != len(b) {
			return false
		}
		for i := range a {
			if a[i] != b[i] {
				return false
			}
		}
		return true
	}
	for _, r := range res.Requests {
		for _, b := range r.Batches {
			if len(b.IDs) == 0 {
				continue
			}
			pk := tpKey(b.Topic, b.Partition)
			if !b.IsBatch || b.PID != res.PID {
				add(r.Index, "wrong-producer-id", fmt.Sprintf("request %d %s carries producer id %d (record batch: %v), InitProducerID handed out %d", r.Index, pk, b.PID, b.IsBatch, res.PID))
			}
			cur := sent{b.Epoch, b.First, b.IDs, r.Index}
			var prev *sent
			for i := range hist[pk] {
				h := &hist[pk][i]
				for _, x := range h.ids {
					for _, y := range b.IDs {
						if x == y && x >= 0 {
							prev = h
						}
					}
				}
			}
			k := fmt.Sprintf("%s/%d", pk, b.Epoch)
			if prev != nil {
				if prev.epoch != cur.epoch || prev.first != cur.first || !same(prev.ids, cur.ids) {
					add(r.Index, "resend-differs", fmt.Sprintf("%s: request %d resends (epoch %d, first %d, ids %v) which request %d sent as (epoch %d, first %d, ids %v)",
						pk, r.Index, cur.epoch, cur.first, cur.ids, prev.req, prev.epoch, prev.first, prev.ids))
				}
			} else if b.First != next[k] {
				add(r.Index, "noncontiguous", fmt.Sprintf("%s epoch %d: request %d starts a new batch at sequence %d, the previous batches end at %d", pk, b.Epoch, r.Index, b.First, next[k]-1))
			}
			if l := b.First + int32(len(b.IDs)); l > next[k] {
				next[k] = l
			}
			hist[pk] = append(hist[pk], cur)
		}
	}
	// 4. a batch re-sent AS A WHOLE by retryBatch is the batch that was sent: same epoch, same first sequence, same
	// messages. This holds in every history class (retryBatch hands the very same partition set to the bridge; the known
	// findings concern messages re-queued individually), so the signature does not carry the class (adversary change C05-12).
	for _, e := range res.Events {
		if e.Kind != "retryBatch.start" {
			continue
		}
		for _, ps := range e.Set {
			var ids []int64
			for _, m := range ps.Msgs {
				ids = append(ids, m.ID)
			}
			if len(ids) == 0 {
				continue
			}
			pk := tpKey(ps.Topic, ps.Partition)
			var orig, again *BatchLog
			origReq, againReq := -1, -1
			for ri := range res.Requests {
				r := &res.Requests[ri]
				pos, known := trig.reqPos[r.Index]
				for bi := range r.Batches {
					b := &r.Batches[bi]
					if tpKey(b.Topic, b.Partition) != pk || !same(b.IDs, ids) {
						continue
					}
					if known && pos < e.Seq {
						orig, origReq, again, againReq = b, r.Index, nil, -1
					} else if orig != nil && again == nil && r.Index > origReq && known {
						// only a resend made by retryBatch itself: between retryBatch.start and this request's bridge.send none
						// of the messages travelled on its own (a set that could not be written is re-queued message by message,
						// and a batch re-formed from those messages belongs to the known findings, not here)
						alone := false
						for _, x := range res.Events {
							if x.Seq > e.Seq && x.Seq < pos && x.Msg != nil {
								for _, id := range ids {
									alone = alone || x.Msg.ID == id
								}
							}
						}
						if !alone {
							again, againReq = b, r.Index
						} else {
							orig = nil
						}
					}
				}
			}
			if orig != nil && again != nil && (orig.Epoch != again.Epoch || orig.First != again.First) {
				sig := "c05:retry-batch:whole-batch-resend-differs:" + sizes.Sizes()
				if !seen[sig] {
					seen[sig] = true
					out = append(out, Finding{sig, fmt.Sprintf("%s: retryBatch re-sent the batch %v in request %d as (epoch %d, first %d); request %d had sent it as (epoch %d, first %d)",
						pk, ids, againReq, again.Epoch, again.First, origReq, orig.Epoch, orig.First)})
				}
			}
		}
	}
	return out
}
