package idembroker

import (
	"fmt"
	"math/rand"
)

func ans(parts ...PFault) Fault { return Fault{Kind: "answer", Parts: parts} }

var (
	pNone        = PFault{Kind: "none"}
	pFatal       = PFault{Kind: "err-before", Err: 10} // MessageSizeTooLarge: not retriable
	pRetriable   = PFault{Kind: "err-before", Err: 6}  // NotLeaderForPartition
	pAfterAppend = PFault{Kind: "err-after", Err: 20}  // NotEnoughReplicasAfterAppend
)

// Corpus: the witnesses of the two refutation theorems replayed on the real code, plus in-class histories.
func Corpus() []*Scenario {
	return []*Scenario{
		// c05_refuted_epoch_bump: message 2 (partition 1) is stamped (epoch 0, sequence 0) and held before it reaches
		// the broker worker; message 1 (partition 0) is refused for good: epoch bump, the empty buffer is rolled over
		// to the new epoch; message 2 then travels as (epoch 1, sequence 0); the fresh message 3 of partition 1 is
		// stamped (epoch 1, sequence 0) as well, the broker takes its batch for a duplicate of the cached one and
		// answers Ok: message 3 is reported successful and is not in the log
		{Name: "witness/epoch-bump", Brokers: 1, Partitions: 2, RetryMax: 1,
			Msgs:   []MsgSpec{{ID: 2, Partition: 1}, {ID: 1, Partition: 0, Wave: 1}, {ID: 3, Partition: 1, Wave: 2}},
			Script: []Fault{ans(pFatal)},
			Gates:  []GateSpec{{Kind: "pp.send", Nth: 1, Partition: 1, Retries: 0, Data: true}},
			Steps: []Step{{Op: "submit", Arg: 0}, {Op: "wait-gate", Arg: 0}, {Op: "submit", Arg: 1}, {Op: "wait-error", ID: 1},
				{Op: "release", Arg: 0}, {Op: "wait-outcome", ID: 2}, {Op: "submit", Arg: 2}}},
		// c05_refuted_conn_drop: [2] is appended, the acknowledgement is lost at connection level; message 2 is
		// re-queued on its own; meanwhile message 1 of partition 0 exhausts its budget on two dropped connections
		// (epoch bump); message 2 then travels in a set labelled with the new epoch and is appended again
		{Name: "witness/conn-drop", Brokers: 1, Partitions: 2, RetryMax: 1,
			Msgs:   []MsgSpec{{ID: 2, Partition: 1}, {ID: 1, Partition: 0, Wave: 1}},
			Script: []Fault{{Kind: "lose-ack"}, {Kind: "drop-before"}, {Kind: "drop-before"}},
			Gates:  []GateSpec{{Kind: "pp.recv", Nth: 1, Partition: 1, Retries: 1, Data: true}},
			Steps:  []Step{{Op: "submit", Arg: 0}, {Op: "wait-gate", Arg: 0}, {Op: "submit", Arg: 1}, {Op: "wait-error", ID: 1}, {Op: "release", Arg: 0}}},
		// connection-level failure after the append of a batch of two: the messages come back one by one
		{Name: "witness/conn-drop-reformed", Brokers: 1, Partitions: 1, RetryMax: 2, FlushMsgs: 2, FlushFreqMs: 40,
			Msgs:   []MsgSpec{{ID: 1, Partition: 0}, {ID: 2, Partition: 0}},
			Script: []Fault{{Kind: "lose-ack"}},
			Gates:  []GateSpec{{Kind: "pp.recv", Nth: 2, Partition: 0, Retries: 1, Data: true}},
			Steps:  []Step{{Op: "submit", Arg: 0}, {Op: "wait-gate", Arg: 0}, {Op: "sleep", Arg: 70}, {Op: "release", Arg: 0}, {Op: "sleep", Arg: 60}}},
		// the unsequenced-backlog defect (repaired in /repo 271dd24; c05_backlog_repaired): [1] is answered NotLeaderForPartition (nothing appended) and re-sent whole; message 2 is
		// bounced by the broker worker and opens retry level 1 at the partition worker; while the fin marker is on its
		// way back (held at the retry handler) the fresh message 3 is parked in the level-0 backlog; flushRetryBuffers
		// of the pinned tree forwarded it WITHOUT a sequence number: (epoch 0, sequence 0), taken for the cached batch [1],
		// answered Ok: reported successful, not in the log. Repaired: stamped (epoch 0, sequence 2), appended once
		{Name: "witness/unsequenced-backlog", Brokers: 1, Partitions: 1, RetryMax: 2,
			Msgs:   []MsgSpec{{ID: 1, Partition: 0}, {ID: 2, Partition: 0, Wave: 1}, {ID: 3, Partition: 0, Wave: 2}},
			Script: []Fault{ans(pRetriable)},
			Gates:  []GateSpec{{Kind: "rh.recv", Nth: 1, Partition: -1, Retries: -1, Fin: true}},
			Steps: []Step{{Op: "submit", Arg: 0}, {Op: "wait-requests", Arg: 1}, {Op: "sleep", Arg: 3}, {Op: "submit", Arg: 1},
				{Op: "wait-gate", Arg: 0}, {Op: "wait-outcome", ID: 2}, {Op: "submit", Arg: 2}, {Op: "sleep", Arg: 3}, {Op: "release", Arg: 0}}},
		// in class: lost acknowledgement of a whole batch answered per partition, resent whole, deduplicated
		{Name: "class/after-append-resend", Brokers: 1, Partitions: 1, RetryMax: 2, FlushMsgs: 2, FlushFreqMs: 300,
			Msgs:   []MsgSpec{{ID: 1, Partition: 0}, {ID: 2, Partition: 0}},
			Script: []Fault{ans(pAfterAppend)}},
		// one answer carries a retriable verdict for an APPENDED batch of partition 0 and a fatal one for partition 1: the
		// error event of message 2 bumps the epoch, then retryBatch re-sends [1]; the re-sent batch must still be
		// (epoch 0, sequence 0) so that the broker recognises it (adversary change C05-12: relabelled with the new epoch)
		{Name: "class/whole-batch-resend-after-bump", Brokers: 1, Partitions: 2, RetryMax: 2, FlushMsgs: 2, FlushFreqMs: 300,
			Msgs:   []MsgSpec{{ID: 1, Partition: 0}, {ID: 2, Partition: 1}},
			Script: []Fault{ans(pAfterAppend, pFatal)}},
		{Name: "class/whole-batch-resend-after-bump-3", Brokers: 1, Partitions: 3, RetryMax: 3, FlushMsgs: 4, FlushFreqMs: 300,
			Msgs:   []MsgSpec{{ID: 1, Partition: 0}, {ID: 2, Partition: 0}, {ID: 3, Partition: 2}, {ID: 4, Partition: 1}},
			Script: []Fault{ans(pAfterAppend, pFatal, pRetriable)}},
		{Name: "class/retriable-then-ok", Brokers: 1, Partitions: 1, RetryMax: 2, FlushMsgs: 2, FlushFreqMs: 300,
			Msgs:   []MsgSpec{{ID: 1, Partition: 0}, {ID: 2, Partition: 0}},
			Script: []Fault{ans(pRetriable), ans(pRetriable)}},
		{Name: "class/fatal-alone-then-fresh", Brokers: 1, Partitions: 2, RetryMax: 1,
			Msgs:   []MsgSpec{{ID: 1, Partition: 0}, {ID: 2, Partition: 0, Wave: 1}, {ID: 3, Partition: 1, Wave: 1}},
			Script: []Fault{ans(pFatal)},
			Steps:  []Step{{Op: "submit", Arg: 0}, {Op: "wait-error", ID: 1}, {Op: "submit", Arg: 1}}},
		{Name: "class/leader-move", Brokers: 2, Partitions: 2, RetryMax: 2,
			Msgs:   []MsgSpec{{ID: 1, Partition: 0}, {ID: 2, Partition: 1}, {ID: 3, Partition: 0, Wave: 1}},
			Script: []Fault{ans(PFault{Kind: "leader-move"})}},
		// a message blocked in waitForSpace (Flush.MaxMessages reached while the bridge is busy) when the request in
		// flight is answered with a retriable error: it must be bounced like the buffered ones, not sent ahead
		{Name: "class/waitforspace-retriable", Brokers: 1, Partitions: 1, RetryMax: 3, MaxMsgs: 2,
			Msgs:   []MsgSpec{{ID: 1, Partition: 0}, {ID: 2, Partition: 0, Wave: 1}, {ID: 3, Partition: 0, Wave: 1}, {ID: 4, Partition: 0, Wave: 1}, {ID: 5, Partition: 0, Wave: 1}},
			Script: []Fault{ans(pRetriable)},
			Gates:  []GateSpec{{Kind: "bridge.send", Nth: 1, Partition: -1, Retries: -1}},
			Steps:  []Step{{Op: "submit", Arg: 0}, {Op: "wait-gate", Arg: 0}, {Op: "submit", Arg: 1}, {Op: "sleep", Arg: 3}, {Op: "release", Arg: 0}}},
		// two topics whose names and partition numbers concatenate to the same string ("t"+"10" / "t1"+"0")
		{Name: "class/two-topics-same-concatenation", Brokers: 1, Partitions: 12, Partitions1: 2, RetryMax: 2,
			Msgs: []MsgSpec{{ID: 1, Topic: 0, Partition: 10}, {ID: 2, Topic: 0, Partition: 10}, {ID: 3, Topic: 1, Partition: 0}, {ID: 4, Topic: 0, Partition: 11, Wave: 1},
				{ID: 5, Topic: 1, Partition: 1, Wave: 1}, {ID: 6, Topic: 1, Partition: 0, Wave: 1}, {ID: 7, Topic: 0, Partition: 1, Wave: 1}}},
		// the application recycles its message objects (ProducerMessage.clear is what hands them back blank): message 1 is
		// refused for good and comes back on Errors(); [2] is appended; [3] is answered NotLeaderForPartition and re-sent
		// whole, message 4 is bounced and opens retry level 1; while the fin marker is held at the retry handler the object of
		// message 1 is sent again as message 5: it is parked in the level-0 backlog and goes out through flushRetryBuffers,
		// which stamps only messages without a sequence number (c05_returned_message_is_fresh)
		{Name: "class/resubmit-error-object-parked", Brokers: 1, Partitions: 1, RetryMax: 2,
			Msgs: []MsgSpec{{ID: 1, Partition: 0}, {ID: 2, Partition: 0, Wave: 1}, {ID: 3, Partition: 0, Wave: 2}, {ID: 4, Partition: 0, Wave: 3},
				{ID: 5, Partition: 0, Wave: 4, Reuse: 1}},
			Script: []Fault{ans(pFatal), ans(pNone), ans(pRetriable)},
			Gates:  []GateSpec{{Kind: "rh.recv", Nth: 1, Partition: -1, Retries: -1, Fin: true}},
			Steps: []Step{{Op: "submit", Arg: 0}, {Op: "wait-error", ID: 1}, {Op: "submit", Arg: 1}, {Op: "wait-outcome", ID: 2}, {Op: "submit", Arg: 2},
				{Op: "wait-requests", Arg: 3}, {Op: "sleep", Arg: 3}, {Op: "submit", Arg: 3}, {Op: "wait-gate", Arg: 0}, {Op: "wait-outcome", ID: 4},
				{Op: "submit", Arg: 4}, {Op: "sleep", Arg: 3}, {Op: "release", Arg: 0}}},
		// the same with an object that came back on Successes() (its old stamp is (epoch 0, sequence 0), the current epoch)
		{Name: "class/resubmit-success-object-parked", Brokers: 1, Partitions: 1, RetryMax: 2,
			Msgs:   []MsgSpec{{ID: 1, Partition: 0}, {ID: 2, Partition: 0, Wave: 1}, {ID: 3, Partition: 0, Wave: 2}, {ID: 4, Partition: 0, Wave: 3, Reuse: 1}},
			Script: []Fault{ans(pNone), ans(pRetriable)},
			Gates:  []GateSpec{{Kind: "rh.recv", Nth: 1, Partition: -1, Retries: -1, Fin: true}},
			Steps: []Step{{Op: "submit", Arg: 0}, {Op: "wait-outcome", ID: 1}, {Op: "submit", Arg: 1}, {Op: "wait-requests", Arg: 2}, {Op: "sleep", Arg: 3},
				{Op: "submit", Arg: 2}, {Op: "wait-gate", Arg: 0}, {Op: "wait-outcome", ID: 3}, {Op: "submit", Arg: 3}, {Op: "sleep", Arg: 3}, {Op: "release", Arg: 0}}},
		// recycled objects on the ordinary path (partition not retrying), from both channels, one of them to another partition
		{Name: "class/resubmit-plain", Brokers: 1, Partitions: 2, RetryMax: 2,
			Msgs: []MsgSpec{{ID: 1, Partition: 0}, {ID: 2, Partition: 0}, {ID: 3, Partition: 1}, {ID: 4, Partition: 0, Wave: 1, Reuse: 2}, {ID: 5, Partition: 0, Wave: 1, Reuse: 3},
				{ID: 6, Partition: 1, Wave: 1, Reuse: 1}},
			Script: []Fault{ans(pFatal, pNone)},
			Steps:  []Step{{Op: "submit", Arg: 0}, {Op: "wait-outcome", ID: 1}, {Op: "wait-outcome", ID: 2}, {Op: "wait-outcome", ID: 3}, {Op: "submit", Arg: 1}}},
		{Name: "class/exhausted-alone", Brokers: 1, Partitions: 1, RetryMax: 1, FlushMsgs: 2, FlushFreqMs: 300,
			Msgs:   []MsgSpec{{ID: 1, Partition: 0}, {ID: 2, Partition: 0}, {ID: 3, Partition: 0, Wave: 1}},
			Script: []Fault{ans(pRetriable), ans(pRetriable)},
			Steps:  []Step{{Op: "submit", Arg: 0}, {Op: "wait-error", ID: 2}, {Op: "submit", Arg: 1}}},
	}
}

var retriableCodes = []int16{5, 6, 7, 19, 3}
var fatalCodes = []int16{10, 2 + 85, 1 + 16} // MessageSizeTooLarge, PolicyViolation(87), InvalidTopic(17)

// Gen draws one scenario. class: 0 = per-partition retriable answers only (meant to stay in class),
// 1 = adds fatal answers / missing blocks, 2 = adds connection-level failures.
func Gen(r *rand.Rand, name string, class int, big bool) *Scenario {
	if !big && r.Intn(10) == 0 {
		return genParked(r, name, class)
	}
	sc := &Scenario{Name: name, Brokers: 1 + r.Intn(2), Partitions: 1 + r.Intn(3), RetryMax: 1 + r.Intn(3)}
	switch r.Intn(3) {
	case 1:
		sc.FlushMsgs, sc.FlushFreqMs = 2+r.Intn(2), 4+r.Intn(8)
	case 2:
		sc.FlushMsgs, sc.FlushFreqMs = 2+r.Intn(3), 4+r.Intn(8)
		sc.MaxMsgs = sc.FlushMsgs + r.Intn(2)
	}
	twoTopics := r.Intn(5) == 0
	if twoTopics {
		sc.Partitions, sc.Partitions1 = 11+r.Intn(2), 1+r.Intn(2)
	}
	spaceWait := r.Intn(6) == 0
	if spaceWait {
		sc.FlushMsgs, sc.FlushFreqMs, sc.MaxMsgs = 0, 0, 2+r.Intn(2)
	}
	n := 3 + r.Intn(5)
	waves := 1 + r.Intn(3)
	if spaceWait {
		n, waves = 5+r.Intn(4), 2
	}
	if big {
		n = 10 + r.Intn(30)
		waves = 2 + r.Intn(4)
	}
	for i := 0; i < n; i++ {
		m := MsgSpec{ID: int64(i + 1), Partition: int32(r.Intn(sc.Partitions)), Wave: r.Intn(waves)}
		if twoTopics {
			if r.Intn(2) == 0 {
				m.Topic, m.Partition = 1, int32(r.Intn(sc.Partitions1))
			} else {
				m.Partition = []int32{0, 1, 10, int32(sc.Partitions - 1)}[r.Intn(4)]
			}
		}
		if spaceWait {
			m.Wave = 1
			if i == 0 {
				m.Wave = 0
			}
			if !twoTopics && r.Intn(3) > 0 {
				m.Partition = 0
			}
		}
		if r.Intn(6) == 0 {
			m.Pad = 10 + r.Intn(200)
		}
		sc.Msgs = append(sc.Msgs, m)
	}
	slen := r.Intn(4)
	if big {
		slen = r.Intn(12)
	}
	for i := 0; i < slen; i++ {
		f := Fault{Kind: "answer"}
		if class >= 2 && r.Intn(3) == 0 {
			if r.Intn(2) == 0 {
				f.Kind = "drop-before"
			} else {
				f.Kind = "lose-ack"
			}
			sc.Script = append(sc.Script, f)
			continue
		}
		nparts := sc.Partitions
		if twoTopics {
			nparts = 4
		}
		for p := 0; p < nparts; p++ {
			pf := PFault{Kind: "none"}
			switch x := r.Intn(10); {
			case x < 3:
				pf = PFault{Kind: "err-before", Err: retriableCodes[r.Intn(len(retriableCodes))]}
			case x < 5:
				pf = PFault{Kind: "err-after", Err: []int16{20, 7}[r.Intn(2)]}
			case x < 6 && sc.Brokers > 1:
				pf = PFault{Kind: "leader-move"}
			case x < 7 && class >= 1:
				if r.Intn(3) == 0 {
					pf = PFault{Kind: "noblock"}
				} else {
					pf = PFault{Kind: "err-before", Err: fatalCodes[r.Intn(len(fatalCodes))]}
				}
			}
			f.Parts = append(f.Parts, pf)
		}
		sc.Script = append(sc.Script, f)
	}
	if r.Intn(4) == 0 {
		sc.Jitter = 1 + r.Int63n(1<<30)
	}
	if spaceWait {
		// keep the bridge busy with the first set while the buffer fills up to Flush.MaxMessages
		sc.Gates = []GateSpec{{Kind: "bridge.send", Nth: 1, Partition: -1, Retries: -1}}
		sc.Steps = []Step{{Op: "submit", Arg: 0}, {Op: "wait-gate", Arg: 0}, {Op: "submit", Arg: 1}, {Op: "sleep", Arg: 2}, {Op: "release", Arg: 0}}
		if len(sc.Script) == 0 || r.Intn(2) == 0 {
			sc.Script = append([]Fault{ans(PFault{Kind: "err-before", Err: retriableCodes[r.Intn(len(retriableCodes))]})}, sc.Script...)
		}
		return sc
	}
	// the application recycles message objects: a later wave is sent in objects that came back for earlier messages
	if waves > 1 && r.Intn(4) == 0 {
		maxWave := 0
		for _, m := range sc.Msgs {
			if m.Wave > maxWave {
				maxWave = m.Wave
			}
		}
		used := map[int64]bool{}
		waits := map[int][]int64{}
		for i := range sc.Msgs {
			m := &sc.Msgs[i]
			if m.Wave == 0 || r.Intn(3) == 0 {
				continue
			}
			var cands []int64
			for _, o := range sc.Msgs {
				if o.Wave < m.Wave && !used[o.ID] {
					cands = append(cands, o.ID)
				}
			}
			if len(cands) > 0 {
				m.Reuse = cands[r.Intn(len(cands))]
				used[m.Reuse] = true
				waits[m.Wave] = append(waits[m.Wave], m.Reuse)
			}
		}
		for w := 0; w <= maxWave; w++ {
			for _, id := range waits[w] {
				sc.Steps = append(sc.Steps, Step{Op: "wait-outcome", ID: id})
			}
			sc.Steps = append(sc.Steps, Step{Op: "submit", Arg: w})
		}
		return sc
	}
	// steering: hold a goroutine at a point while the next wave is submitted
	if waves > 1 && r.Intn(3) == 0 {
		kinds := []string{"bridge.send", "bp.response", "retryBatch.start", "pp.recv", "bp.recv"}
		g := GateSpec{Kind: kinds[r.Intn(len(kinds))], Nth: 1 + r.Intn(2), Partition: -1, Retries: -1}
		if g.Kind == "pp.recv" {
			g.Retries = 1
		}
		sc.Gates = []GateSpec{g}
		sc.Steps = []Step{{Op: "submit", Arg: 0}, {Op: "wait-gate", Arg: 0}}
		for w := 1; w < waves; w++ {
			sc.Steps = append(sc.Steps, Step{Op: "submit", Arg: w})
			if w == 1 {
				sc.Steps = append(sc.Steps, Step{Op: "sleep", Arg: 1}, Step{Op: "release", Arg: 0})
			} else {
				sc.Steps = append(sc.Steps, Step{Op: "sleep", Arg: 2})
			}
		}
	}
	return sc
}

// genParked draws a variant of class/resubmit-*-parked: an object that came back to the application (on either channel)
// is sent again while its new partition is in a retry level with the fin marker held, so that it is parked and flushed.
func genParked(r *rand.Rand, name string, class int) *Scenario {
	sc := &Scenario{Name: name, Brokers: 1, Partitions: 1 + r.Intn(2), RetryMax: 2 + r.Intn(2)}
	p := int32(r.Intn(sc.Partitions))
	other := int32(r.Intn(sc.Partitions))
	retr := PFault{Kind: "err-before", Err: retriableCodes[r.Intn(len(retriableCodes))]}
	id := int64(0)
	next := func(part int32, wave int, reuse int64) int64 {
		id++
		sc.Msgs = append(sc.Msgs, MsgSpec{ID: id, Partition: part, Wave: wave, Reuse: reuse})
		return id
	}
	served := 0
	// the objects that come back: one or two, failed for good (class >= 1 only) or successful, of this or the other partition
	var back []int64
	nback := 1 + r.Intn(2)
	for i := 0; i < nback; i++ {
		part := p
		if i > 0 {
			part = other
		}
		m := next(part, i, 0)
		back = append(back, m)
		if class >= 1 && i == 0 && r.Intn(2) == 0 {
			// (the request carries this message only: block 0)
			sc.Script = append(sc.Script, ans(PFault{Kind: "err-before", Err: fatalCodes[r.Intn(len(fatalCodes))]}))
		} else {
			sc.Script = append(sc.Script, ans())
		}
		sc.Steps = append(sc.Steps, Step{Op: "submit", Arg: i}, Step{Op: "wait-outcome", ID: m})
		served++
	}
	w := nback
	if r.Intn(2) == 0 { // something appended in between
		m := next(p, w, 0)
		sc.Script = append(sc.Script, ans())
		sc.Steps = append(sc.Steps, Step{Op: "submit", Arg: w}, Step{Op: "wait-outcome", ID: m})
		served++
		w++
	}
	// the batch that is answered with a retriable error, and the message bounced behind it
	next(p, w, 0)
	sc.Script = append(sc.Script, ans(retr))
	served++
	sc.Steps = append(sc.Steps, Step{Op: "submit", Arg: w}, Step{Op: "wait-requests", Arg: served}, Step{Op: "sleep", Arg: 3})
	w++
	bounced := next(p, w, 0)
	sc.Gates = []GateSpec{{Kind: "rh.recv", Nth: 1, Partition: -1, Retries: -1, Fin: true}}
	sc.Steps = append(sc.Steps, Step{Op: "submit", Arg: w}, Step{Op: "wait-gate", Arg: 0}, Step{Op: "wait-outcome", ID: bounced})
	w++
	// the recycled objects, parked; possibly a new object among them
	for _, b := range back {
		next(p, w, b)
	}
	if r.Intn(2) == 0 {
		next(p, w, 0)
	}
	sc.Steps = append(sc.Steps, Step{Op: "submit", Arg: w}, Step{Op: "sleep", Arg: 3}, Step{Op: "release", Arg: 0})
	if r.Intn(2) == 0 {
		w++
		next(int32(r.Intn(sc.Partitions)), w, 0)
		sc.Steps = append(sc.Steps, Step{Op: "sleep", Arg: 3}, Step{Op: "submit", Arg: w})
	}
	return sc
}

func GenName(seed int64, i int, class int) string {
	return fmt.Sprintf("gen/%d/%d/c%d", seed, i, class)
}
