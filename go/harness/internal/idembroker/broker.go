// Package idembroker is the C05 harness: an idempotent cluster simulator (mock brokers that enforce Kafka's
// producer-id / epoch / sequence rules per partition, with a fault script), a hook observer with steering
// gates, a scenario driver for the real async producer, the C05 property monitor, and the writer of the Coq
// correspondence cases (coq/C05/Corr.v).
package idembroker

import (
	"sort"
	"strconv"
	"sync"

	"github.com/Shopify/sarama"
)

// PFault is what happens to one partition of an answered request.
type PFault struct {
	Kind string `json:"kind"` // "none" | "err-before" | "err-after" | "noblock" | "leader-move"
	Err  int16  `json:"err,omitempty"`
}

// Fault is one entry of the fault script; entry i applies to the i-th produce request the cluster receives
// (over all brokers, in the order the simulator serves them); requests past the end are served normally.
type Fault struct {
	Kind  string   `json:"kind"`            // "answer" | "drop-before" | "lose-ack"
	Parts []PFault `json:"parts,omitempty"` // per partition of the request in (topic, partition) order; missing = none
}

// Appended is one record of a simulated partition log.
type Appended struct {
	ID      int64 `json:"id"`
	Offset  int64 `json:"offset"`
	Epoch   int16 `json:"epoch"`
	Seq     int32 `json:"seq"`
	Request int   `json:"request"`
}

// BatchLog is one partition's batch of a request, the decision of the rules and the answer given.
type BatchLog struct {
	Topic     string  `json:"topic"`
	Partition int32   `json:"partition"`
	PID       int64   `json:"pid"`
	Epoch     int16   `json:"epoch"`
	First     int32   `json:"first"`
	IDs       []int64 `json:"ids"`
	Applied   bool    `json:"applied"`         // the rules were evaluated (the request reached the log layer)
	Verdict   int     `json:"verdict"`         // -1 not applied, 0 appended, 1 duplicate of a cached batch, 2 out of order, 3 fenced
	Base      int64   `json:"base"`            // base offset for verdict 0/1
	Code      int16   `json:"code"`            // answered error code (meaningful when Answered)
	AnsBase   int64   `json:"ansbase"`         // answered base offset (-1 none)
	Answered  bool    `json:"answered"`        // a block for the partition was in the response
	Fault     string  `json:"fault,omitempty"` // per-partition fault applied
	FaultErr  int16   `json:"faulterr,omitempty"`
	IsBatch   bool    `json:"isbatch,omitempty"` // v2 record batch
}

// ReqLog is one produce request as the simulator served it.
type ReqLog struct {
	Index   int        `json:"index"`
	Broker  int32      `json:"broker"`
	Fault   string     `json:"fault"` // "answer" | "drop-before" | "lose-ack"
	Batches []BatchLog `json:"batches"`
}

type desc struct {
	first, last int32
	base        int64
}

type partState struct {
	epoch int16 // -1: no producer state
	last  int32
	cache []desc // newest first, at most 5
	log   []Appended
}

type quietReporter struct{}

func (quietReporter) Error(...interface{})          {}
func (quietReporter) Errorf(string, ...interface{}) {}
func (quietReporter) Fatal(...interface{})          {}
func (quietReporter) Fatalf(string, ...interface{}) {}

// Cluster is one or two mock brokers sharing metadata, the fault script and the (replicated) partition state.
type Cluster struct {
	mu       sync.Mutex
	Brokers  []*sarama.MockBroker
	topics   map[string]int
	leader   map[string]int
	script   []Fault
	next     int
	parts    map[string]*partState
	Requests []ReqLog
	PID      int64
}

func tpKey(topic string, partition int32) string { return topic + "/" + strconv.Itoa(int(partition)) }

// NewCluster starts nBrokers mock brokers; partition p of every topic starts on broker p mod nBrokers.
func NewCluster(nBrokers int, topics map[string]int, script []Fault) *Cluster {
	c := &Cluster{topics: topics, leader: map[string]int{}, script: script, parts: map[string]*partState{}, PID: 4711}
	for i := 0; i < nBrokers; i++ {
		b := sarama.NewMockBroker(quietReporter{}, int32(i+1))
		idx := i
		b.VerifProdSetHandler(func(kind string, body interface{}) interface{} { return c.handle(idx, body) })
		c.Brokers = append(c.Brokers, b)
	}
	for t, n := range topics {
		for p := 0; p < n; p++ {
			c.leader[tpKey(t, int32(p))] = p % nBrokers
		}
	}
	return c
}

func (c *Cluster) Addrs() []string {
	var a []string
	for _, b := range c.Brokers {
		a = append(a, b.Addr())
	}
	return a
}

func (c *Cluster) Close() {
	for _, b := range c.Brokers {
		b.Close()
	}
}

func (c *Cluster) handle(broker int, body interface{}) interface{} {
	c.mu.Lock()
	defer c.mu.Unlock()
	switch r := body.(type) {
	case *sarama.MetadataRequest:
		return c.metadata(r)
	case *sarama.InitProducerIDRequest:
		return &sarama.InitProducerIDResponse{ProducerID: c.PID, ProducerEpoch: 0}
	case *sarama.ProduceRequest:
		return c.produce(broker, r)
	}
	return nil
}

func (c *Cluster) metadata(r *sarama.MetadataRequest) interface{} {
	v := r.Version
	if v > 5 {
		v = 5
	}
	resp := &sarama.MetadataResponse{Version: v}
	for _, b := range c.Brokers {
		resp.AddBroker(b.Addr(), b.BrokerID())
	}
	var names []string
	for t := range c.topics {
		names = append(names, t)
	}
	sort.Strings(names)
	for _, t := range names {
		for p := 0; p < c.topics[t]; p++ {
			l := c.Brokers[c.leader[tpKey(t, int32(p))]].BrokerID()
			resp.AddTopicPartition(t, int32(p), l, []int32{l}, []int32{l}, nil, sarama.ErrNoError)
		}
	}
	return resp
}

// IDOf decodes the message identity the harness puts into record values ("<id>" or "<id>:padding").
func IDOf(value []byte) int64 {
	n := 0
	for n < len(value) && value[n] >= '0' && value[n] <= '9' {
		n++
	}
	if n == 0 {
		return -1
	}
	id, _ := strconv.ParseInt(string(value[:n]), 10, 64)
	return id
}

func (c *Cluster) part(key string) *partState {
	ps := c.parts[key]
	if ps == nil {
		ps = &partState{epoch: -1, last: -1}
		c.parts[key] = ps
	}
	return ps
}

// rules: Kafka's producer-state validation for one batch. Returns the verdict and (for 0/1) the base offset;
// a verdict 0 appends.
func (ps *partState) rules(b *BatchLog, req int) {
	n := int32(len(b.IDs))
	last := b.First + n - 1
	b.Applied = true
	b.Base = -1
	appendIt := func() {
		base := int64(len(ps.log))
		for j, id := range b.IDs {
			ps.log = append(ps.log, Appended{ID: id, Offset: base + int64(j), Epoch: b.Epoch, Seq: b.First + int32(j), Request: req})
		}
		if ps.epoch != b.Epoch {
			ps.cache = nil
		}
		ps.epoch, ps.last = b.Epoch, last
		ps.cache = append([]desc{{b.First, last, base}}, ps.cache...)
		if len(ps.cache) > 5 {
			ps.cache = ps.cache[:5]
		}
		b.Verdict, b.Base = 0, base
	}
	switch {
	case b.Epoch < ps.epoch:
		b.Verdict = 3
	case b.Epoch > ps.epoch:
		if b.First == 0 {
			appendIt()
		} else {
			b.Verdict = 2
		}
	default:
		for _, d := range ps.cache {
			if d.first == b.First && d.last == last {
				b.Verdict, b.Base = 1, d.base
				return
			}
		}
		if b.First == ps.last+1 {
			appendIt()
		} else {
			b.Verdict = 2
		}
	}
}

func verdictCode(v int) sarama.KError {
	switch v {
	case 2:
		return sarama.ErrOutOfOrderSequenceNumber
	case 3:
		return sarama.ErrInvalidProducerEpoch
	}
	return sarama.ErrNoError
}

func (c *Cluster) produce(broker int, r *sarama.ProduceRequest) interface{} {
	idx := c.next
	c.next++
	f := Fault{Kind: "answer"}
	if idx < len(c.script) {
		f = c.script[idx]
	}
	rl := ReqLog{Index: idx, Broker: c.Brokers[broker].BrokerID(), Fault: f.Kind}
	resp := &sarama.ProduceResponse{Version: r.Version}
	for i, vb := range sarama.VerifProdRequestBatches(r) {
		b := BatchLog{Topic: vb.Topic, Partition: vb.Partition, PID: vb.ProducerID, Epoch: vb.ProducerEpoch, First: vb.FirstSequence,
			Verdict: -1, Base: -1, AnsBase: -1, IsBatch: vb.IsBatch}
		for _, v := range vb.Values {
			b.IDs = append(b.IDs, IDOf(v))
		}
		key := tpKey(b.Topic, b.Partition)
		pf := PFault{Kind: "none"}
		if f.Kind == "answer" && i < len(f.Parts) {
			pf = f.Parts[i]
		}
		b.Fault, b.FaultErr = pf.Kind, pf.Err
		answer := func(code sarama.KError, base int64) {
			resp.AddTopicPartition(b.Topic, b.Partition, code)
			resp.Blocks[b.Topic][b.Partition].Offset = base
			b.Answered, b.Code, b.AnsBase = true, int16(code), base
		}
		switch f.Kind {
		case "drop-before":
		case "lose-ack":
			c.part(key).rules(&b, idx)
		default:
			switch pf.Kind {
			case "none":
				c.part(key).rules(&b, idx)
				answer(verdictCode(b.Verdict), b.Base)
			case "err-after":
				c.part(key).rules(&b, idx)
				if b.Verdict <= 1 {
					answer(sarama.KError(pf.Err), -1)
				} else {
					answer(verdictCode(b.Verdict), -1)
				}
			case "err-before":
				answer(sarama.KError(pf.Err), -1)
			case "leader-move":
				if len(c.Brokers) > 1 {
					c.leader[key] = (c.leader[key] + 1) % len(c.Brokers)
				}
				answer(sarama.ErrNotLeaderForPartition, -1)
			case "noblock":
			}
		}
		rl.Batches = append(rl.Batches, b)
	}
	c.Requests = append(c.Requests, rl)
	if f.Kind == "drop-before" || f.Kind == "lose-ack" {
		return sarama.VerifProdDrop{}
	}
	return resp
}

// Snapshot returns copies of the request log and the partition logs.
func (c *Cluster) Snapshot() ([]ReqLog, map[string][]Appended) {
	c.mu.Lock()
	defer c.mu.Unlock()
	logs := map[string][]Appended{}
	for k, v := range c.parts {
		logs[k] = append([]Appended(nil), v.log...)
	}
	return append([]ReqLog(nil), c.Requests...), logs
}

// Served is the number of produce requests served so far.
func (c *Cluster) Served() int {
	c.mu.Lock()
	defer c.mu.Unlock()
	return len(c.Requests)
}
