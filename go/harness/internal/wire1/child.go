package wire1

import (
	"bufio"
	"encoding/json"
	"fmt"
	"io"
	"os"
	"os/exec"
	"runtime"
	"time"
)

// The C10 streams run the decoders in a child process with a virtual-memory cap (ulimit -v) and a per-input
// timeout, so that an allocation from a hostile count or a hang takes down the child, not the harness.

type Child struct {
	self  string
	memKB int
	cmd   *exec.Cmd
	in    io.WriteCloser
	out   *bufio.Reader
	lines chan []byte
}

func NewChild(self string, memKB int) *Child { return &Child{self: self, memKB: memKB} }

func (c *Child) start() error {
	c.cmd = exec.Command("/bin/bash", "-c", fmt.Sprintf("ulimit -v %d; exec %q -child", c.memKB, c.self))
	c.cmd.Stderr = nil
	// a small heap target keeps the Go runtime's own reservations well below the cap
	c.cmd.Env = append(os.Environ(), "GOGC=50", "GOMAXPROCS=2")
	var err error
	if c.in, err = c.cmd.StdinPipe(); err != nil {
		return err
	}
	so, err := c.cmd.StdoutPipe()
	if err != nil {
		return err
	}
	if err = c.cmd.Start(); err != nil {
		return err
	}
	c.out = bufio.NewReaderSize(so, 1<<20)
	c.lines = make(chan []byte, 1)
	go func(r *bufio.Reader, ch chan []byte) {
		for {
			l, err := r.ReadBytes('\n')
			if err != nil {
				close(ch)
				return
			}
			ch <- l
		}
	}(c.out, c.lines)
	return nil
}

func (c *Child) kill() {
	if c.cmd != nil {
		_ = c.in.Close()
		_ = c.cmd.Process.Kill()
		_ = c.cmd.Wait()
		c.cmd = nil
	}
}

func (c *Child) Close() { c.kill() }

// Call sends one request line; returns the response, or died / timedOut (the child is then restarted lazily).
func (c *Child) Call(req interface{}, timeout time.Duration) (resp []byte, died, timedOut bool) {
	if c.cmd == nil {
		if err := c.start(); err != nil {
			panic(err)
		}
	}
	b, err := json.Marshal(req)
	if err != nil {
		panic(err)
	}
	b = append(b, '\n')
	if _, err := c.in.Write(b); err != nil {
		c.kill()
		return nil, true, false
	}
	select {
	case l, ok := <-c.lines:
		if !ok {
			c.kill()
			return nil, true, false
		}
		return l, false, false
	case <-time.After(timeout):
		c.kill()
		return nil, false, true
	}
}

// Serve is the child's main loop: one JSON request per line, one JSON response per line.  The handler's
// allocation volume is measured around the call.
func Serve(handler func(req []byte) (resp map[string]interface{})) {
	rd := bufio.NewReaderSize(os.Stdin, 1<<20)
	wr := bufio.NewWriter(os.Stdout)
	var m0, m1 runtime.MemStats
	for {
		l, err := rd.ReadBytes('\n')
		if err != nil {
			return
		}
		runtime.ReadMemStats(&m0)
		resp := handler(l)
		runtime.ReadMemStats(&m1)
		resp["alloc"] = m1.TotalAlloc - m0.TotalAlloc
		b, _ := json.Marshal(resp)
		wr.Write(b)
		wr.WriteByte('\n')
		wr.Flush()
	}
}
