package wire1

import (
	"encoding/binary"
	"fmt"
	"math"
	"math/big"
	"strings"
	"time"

	"github.com/Shopify/sarama"

	cf "verifharness/internal/coqfmt"
)

const RecImports = "From SV Require Import Wire.Bytes Wire.Crc Wire.Prim Wire.PushPop Wire.CorrPrim Wire.Records Wire.CorrRecords."

// ---------------------------------------------------------------- Coq printers of sarama values

func oBytes(b []byte) string {
	if b == nil {
		return "None"
	}
	return cf.Some(CoqBytes(b))
}

// CoqTime: nanoseconds since the epoch, exact (time.Time can hold more than UnixNano can)
func CoqTime(t time.Time) string {
	if t.IsZero() {
		return "ZERO_TIME"
	}
	ns := new(big.Int).Mul(big.NewInt(t.Unix()), big.NewInt(1000000000))
	ns.Add(ns, big.NewInt(int64(t.Nanosecond())))
	if ns.Sign() < 0 {
		return "(" + ns.String() + ")"
	}
	return ns.String()
}

func CoqRecord(r *sarama.Record) string {
	hs := "None"
	if r.Headers != nil {
		it := make([]string, len(r.Headers))
		for i, h := range r.Headers {
			it[i] = fmt.Sprintf("mkHeader %s %s", oBytes(h.Key), oBytes(h.Value))
		}
		hs = cf.Some(cf.List(it))
	}
	return fmt.Sprintf("(mkRecord %s %s %s %s %s %s)", cf.Z(int64(r.Attributes)), cf.Z(int64(r.TimestampDelta)), cf.Z(r.OffsetDelta), oBytes(r.Key), oBytes(r.Value), hs)
}

func CoqRecordList(rs []*sarama.Record) string {
	it := make([]string, len(rs))
	for i, r := range rs {
		if r == nil {
			it[i] = "NILRECORD" // does not type-check on purpose: a nil *Record inside a decoded batch is wrong data
		} else {
			it[i] = CoqRecord(r)
		}
	}
	return cf.List(it)
}

func CoqBatch(b *sarama.RecordBatch) string {
	recs := "None"
	if b.Records != nil {
		recs = cf.Some(CoqRecordList(b.Records))
	}
	return fmt.Sprintf("(mkBatch %s %s %s %s %s %s %s %s %s %s %s %s %s %s %s)", cf.Z(b.FirstOffset), cf.Z(int64(b.PartitionLeaderEpoch)), cf.Z(int64(b.Version)),
		cf.Z(int64(b.Codec)), cf.Bool(b.Control), cf.Bool(b.LogAppendTime), cf.Z(int64(b.LastOffsetDelta)), CoqTime(b.FirstTimestamp), CoqTime(b.MaxTimestamp),
		cf.Z(b.ProducerID), cf.Z(int64(b.ProducerEpoch)), cf.Z(int64(b.FirstSequence)), recs, cf.Bool(b.PartialTrailingRecord), cf.Bool(b.IsTransactional))
}

func CoqMessage(m *sarama.Message) string {
	set := "None"
	if m.Set != nil {
		set = cf.Some(CoqSet(m.Set))
	}
	val := m.Value
	if val == nil && m.Codec != 0 && m.Set != nil {
		// the codec library returned a nil slice for an empty output (nil vs empty of what a codec returns is not modelled)
		val = []byte{}
	}
	return fmt.Sprintf("(mkMsg %s %s %s %s %s %s %s)", cf.Z(int64(m.Codec)), cf.Bool(m.LogAppendTime), oBytes(m.Key), oBytes(val), set, cf.Z(int64(m.Version)), CoqTime(m.Timestamp))
}

func CoqSet(s *sarama.MessageSet) string {
	out := "MNil"
	for i := len(s.Messages) - 1; i >= 0; i-- {
		b := s.Messages[i]
		out = fmt.Sprintf("(MCons %s %s %s)", cf.Z(b.Offset), CoqMessage(b.Msg), out)
	}
	return fmt.Sprintf("(mkSet %s %s %s)", cf.Bool(s.PartialTrailingMessage), cf.Bool(s.OverflowMessage), out)
}

func CoqRecordsTop(r *sarama.Records) string {
	switch {
	case r.MsgSet != nil && r.RecordBatch == nil:
		return "(RLegacy " + CoqSet(r.MsgSet) + ")"
	case r.RecordBatch != nil && r.MsgSet == nil:
		return "(RDefault " + CoqBatch(r.RecordBatch) + ")"
	}
	return "RECORDS_WITH_BOTH_OR_NEITHER"
}

func CoqControl(c *sarama.ControlRecord) string {
	t := "CRUnknown"
	switch c.Type {
	case sarama.ControlRecordAbort:
		t = "CRAbort"
	case sarama.ControlRecordCommit:
		t = "CRCommit"
	}
	return fmt.Sprintf("(mkCR %s %s %s)", cf.Z(int64(c.Version)), cf.Z(int64(c.CoordinatorEpoch)), t)
}

// ---------------------------------------------------------------- compression tables

type TabEntry struct {
	Codec int8   `json:"codec"`
	In    []byte `json:"in"`
	Out   []byte `json:"out"` // nil with Err = the call failed
	Err   bool   `json:"err"`
}

type Table struct {
	seen map[string]bool
	E    []TabEntry
}

func NewTable() *Table { return &Table{seen: map[string]bool{}} }

func (t *Table) Add(codec int8, in, out []byte, failed bool) {
	k := fmt.Sprintf("%d:%x", codec, in)
	if t.seen[k] {
		return
	}
	t.seen[k] = true
	t.E = append(t.E, TabEntry{codec, append([]byte{}, in...), out, failed})
}

func (t *Table) Coq() string {
	it := make([]string, len(t.E))
	for i, e := range t.E {
		o := "None"
		if !e.Err {
			o = cf.Some(CoqBytes(e.Out))
		}
		it[i] = fmt.Sprintf("(%d, %s, %s)", e.Codec, CoqBytes(e.In), o)
	}
	return cf.List(it)
}

// AddDecompress records what sarama's decompress does on data.
func (t *Table) AddDecompress(codec int8, data []byte) (out []byte, ok bool) {
	if codec == 0 {
		return data, true
	}
	o, err := sarama.VerifDecompress(codec, data)
	if err != nil {
		t.Add(codec, data, nil, true)
		return nil, false
	}
	if o == nil {
		o = []byte{}
	}
	t.Add(codec, data, o, false)
	return o, true
}

// ScanDecompress finds the payloads a decode of buf[start:] can hand to decompress: the records section of a
// record batch laid out at start, and the values of the legacy messages laid out from start on (recursively in
// what they decompress to).  Extra entries are harmless; the walk mirrors only the framing.
func (t *Table) ScanDecompress(buf []byte, start int, depth int) {
	if depth > 4 || start < 0 || start > len(buf) {
		return
	}
	b := buf[start:]
	// record batch
	if len(b) >= 61 {
		batchLen := int(int32(binary.BigEndian.Uint32(b[8:])))
		attrs := int16(binary.BigEndian.Uint16(b[21:]))
		codec := int8(attrs) & 7
		n := batchLen - 49
		if codec != 0 && n >= 0 && 61+n <= len(b) {
			t.AddDecompress(codec, b[61:61+n])
		}
	}
	// legacy message set
	p := 0
	for len(b)-p >= 12+6 {
		q := p + 12 // crc
		magic := int8(b[q+4])
		attr := int8(b[q+5])
		q += 6
		if magic == 1 {
			q += 8
		}
		if q+4 > len(b) {
			return
		}
		kl := int(int32(binary.BigEndian.Uint32(b[q:])))
		q += 4
		if kl > 0 {
			q += kl
		} else if kl < -1 {
			return
		}
		if q+4 > len(b) || q < 0 {
			return
		}
		vl := int(int32(binary.BigEndian.Uint32(b[q:])))
		q += 4
		if vl < 0 {
			if vl < -1 {
				return
			}
			p = q
			continue
		}
		if q+vl > len(b) {
			return
		}
		codec := attr & 7
		if codec != 0 {
			if out, ok := t.AddDecompress(codec, b[q:q+vl]); ok {
				t.ScanDecompress(out, 0, depth+1)
			}
		}
		p = q + vl
	}
}

// ---------------------------------------------------------------- generators

func (g *Gen) optBytes() []byte {
	switch g.R.Intn(8) {
	case 0:
		return nil
	case 1:
		return []byte{}
	case 2:
		return g.Bytes(60 + g.R.Intn(10))
	case 3:
		return g.Bytes(200 + g.R.Intn(200))
	}
	return g.Bytes(1 + g.R.Intn(8))
}

func (g *Gen) Record() *sarama.Record {
	r := g.R
	rec := &sarama.Record{
		Attributes:  int8(pick64(r, I8s, -128, 127)),
		OffsetDelta: pick64(r, Varints(), math.MinInt64, math.MaxInt64),
		Key:         g.optBytes(),
		Value:       g.optBytes(),
	}
	switch r.Intn(6) {
	case 0:
		rec.TimestampDelta = 0
	case 1:
		rec.TimestampDelta = time.Duration(pick64(r, Varints(), math.MinInt64, math.MaxInt64)) // not a multiple of a millisecond
	case 2:
		rec.TimestampDelta = -time.Duration(r.Intn(100000)) * time.Millisecond
	default:
		rec.TimestampDelta = time.Duration(r.Intn(1<<30)) * time.Millisecond
	}
	switch r.Intn(5) {
	case 0: // nil
	case 1:
		rec.Headers = []*sarama.RecordHeader{}
	default:
		for i, n := 0, 1+r.Intn(3); i < n; i++ {
			rec.Headers = append(rec.Headers, &sarama.RecordHeader{Key: g.optBytes(), Value: g.optBytes()})
		}
	}
	return rec
}

func (g *Gen) Time() time.Time {
	r := g.R
	switch r.Intn(8) {
	case 0:
		return time.Time{}
	case 1:
		return time.Unix(0, 0)
	case 2:
		return time.Unix(0, r.Int63()) // any instant UnixNano can hold, not millisecond aligned
	case 3:
		return time.Unix(1600000000, 999999)
	}
	return time.Unix(0, (1500000000000+int64(r.Intn(1<<30)))*int64(time.Millisecond))
}

// Batch: valid = it must encode and round-trip (up to the documented normalisations).
func (g *Gen) Batch(valid bool) *sarama.RecordBatch {
	r := g.R
	b := &sarama.RecordBatch{
		FirstOffset:          pick64(r, I64s, math.MinInt64, math.MaxInt64),
		PartitionLeaderEpoch: int32(pick64(r, I32s, math.MinInt32, math.MaxInt32)),
		Version:              2,
		Codec:                sarama.CompressionCodec(r.Intn(5)),
		CompressionLevel:     sarama.CompressionLevelDefault,
		Control:              r.Intn(4) == 0,
		LogAppendTime:        r.Intn(3) == 0,
		IsTransactional:      r.Intn(3) == 0,
		LastOffsetDelta:      int32(pick64(r, I32s, math.MinInt32, math.MaxInt32)),
		FirstTimestamp:       g.Time(),
		MaxTimestamp:         g.Time(),
		ProducerID:           pick64(r, I64s, math.MinInt64, math.MaxInt64),
		ProducerEpoch:        int16(pick64(r, I16s, math.MinInt16, math.MaxInt16)),
		FirstSequence:        int32(pick64(r, I32s, math.MinInt32, math.MaxInt32)),
	}
	n := r.Intn(6)
	if n == 0 && r.Intn(2) == 0 {
		b.Records = []*sarama.Record{}
	}
	for i := 0; i < n; i++ {
		b.Records = append(b.Records, g.Record())
	}
	if b.Codec == sarama.CompressionSnappy && n == 0 {
		// go-xerial-snappy cannot decode what it encodes for payloads under 6 bytes (see notes): not a valid value
		b.Codec = sarama.CompressionGZIP
	}
	if !valid {
		switch r.Intn(4) {
		case 0:
			b.Version = int8([]int{0, 1, 3, -1}[r.Intn(4)])
		case 1:
			b.Codec = sarama.CompressionCodec(5 + r.Intn(3))
		case 2:
			b.FirstTimestamp = time.Unix(-5, 0) // before 1970, not the zero Time
		case 3:
			b.MaxTimestamp = time.Unix(-1, 500)
		}
	}
	return b
}

func (g *Gen) Message(version int8) *sarama.Message {
	r := g.R
	m := &sarama.Message{Version: version, LogAppendTime: r.Intn(3) == 0, Key: g.optBytes(), Value: g.optBytes(), CompressionLevel: sarama.CompressionLevelDefault}
	if version >= 1 {
		m.Timestamp = g.Time()
	}
	return m
}

// Set: a legacy message set; wrappers > 0 adds compressed wrapper messages around inner sets.
func (g *Gen) Set(maxMsgs, nesting int) *sarama.MessageSet {
	r := g.R
	s := &sarama.MessageSet{}
	for i, n := 0, r.Intn(maxMsgs+1); i < n; i++ {
		off := pick64(r, []int64{0, 1, 5, 1 << 40, math.MaxInt64}, 0, 1000)
		if nesting > 0 && r.Intn(3) == 0 {
			inner := g.Set(3, nesting-1)
			for len(inner.Messages) == 0 {
				inner = g.Set(3, nesting-1)
			}
			res := sarama.VerifEncodeValue(inner)
			if res.Status != 0 {
				continue
			}
			w := g.Message(int8(r.Intn(2)))
			w.Codec = sarama.CompressionCodec(1 + r.Intn(4))
			w.Value = res.Bytes
			s.Messages = append(s.Messages, &sarama.MessageBlock{Offset: off, Msg: w})
		} else {
			s.Messages = append(s.Messages, &sarama.MessageBlock{Offset: off, Msg: g.Message(int8(r.Intn(2)))})
		}
	}
	return s
}

// ---------------------------------------------------------------- encode-side tables

// EncodeTableBatch: the compress call of RecordBatch.encode, taken from the produced bytes (the codec's own
// bytes are not modelled and need not be deterministic).
func EncodeTableBatch(t *Table, b *sarama.RecordBatch, out []byte) {
	if b.Codec == 0 || len(out) < 61 {
		return
	}
	raw := sarama.VerifEncodeValue(b.Records)
	if raw.Status != 0 {
		return
	}
	t.Add(int8(b.Codec), raw.Bytes, out[61:], false)
}

// EncodeTableSet: each wrapper message's value field in the output.
func EncodeTableSet(t *Table, s *sarama.MessageSet, out []byte) {
	p := 0
	for _, blk := range s.Messages {
		m := blk.Msg
		q := p + 12 + 6
		if m.Version >= 1 {
			q += 8
		}
		if q+4 > len(out) {
			return
		}
		q += 4
		if m.Key != nil {
			q += len(m.Key)
		}
		if q+4 > len(out) {
			return
		}
		vl := int(int32(binary.BigEndian.Uint32(out[q:])))
		q += 4
		if vl < 0 {
			p = q
			continue
		}
		if q+vl > len(out) {
			return
		}
		if m.Codec != 0 && m.Value != nil {
			t.Add(int8(m.Codec), m.Value, out[q:q+vl], false)
		}
		p = q + vl
	}
}

// ---------------------------------------------------------------- normalisation (the round-trip property, Go side)

func truncMs(t time.Time) time.Time {
	if t.IsZero() {
		return t
	}
	ms := t.UnixNano() / int64(time.Millisecond)
	return time.Unix(ms/1000, (ms%1000)*int64(time.Millisecond))
}

// NormRecord: what decode(encode(r)) must be: millisecond truncation of the delta, nil headers come back empty.
func NormRecord(r *sarama.Record) *sarama.Record {
	c := *r
	c.TimestampDelta = (r.TimestampDelta / time.Millisecond) * time.Millisecond
	if c.Headers == nil {
		c.Headers = []*sarama.RecordHeader{}
	}
	return &c
}

func NormBatch(b *sarama.RecordBatch) *sarama.RecordBatch {
	c := *b
	c.FirstTimestamp, c.MaxTimestamp = truncMs(b.FirstTimestamp), truncMs(b.MaxTimestamp)
	c.Records = []*sarama.Record{}
	for _, r := range b.Records {
		c.Records = append(c.Records, NormRecord(r))
	}
	c.PartialTrailingRecord = false
	return &c
}

// NormSet: timestamps truncated (version 1) or dropped (version 0); a wrapper's Set is the decoded inner set.
func NormSet(s *sarama.MessageSet, inner func(value []byte) *sarama.MessageSet) *sarama.MessageSet {
	c := &sarama.MessageSet{}
	for _, blk := range s.Messages {
		m := *blk.Msg
		if m.Version == 1 {
			m.Timestamp = truncMs(m.Timestamp)
		} else {
			m.Timestamp = time.Time{}
		}
		m.Set = nil
		if m.Codec != 0 && m.Value != nil {
			m.Set = inner(m.Value)
		}
		c.Messages = append(c.Messages, &sarama.MessageBlock{Offset: blk.Offset, Msg: &m})
	}
	return c
}

func ShortTerm(s string) string {
	if len(s) > 400 {
		return s[:400] + "..."
	}
	return s
}

func DescribeTable(t *Table) []string {
	var out []string
	for _, e := range t.E {
		out = append(out, fmt.Sprintf("codec %d: %d bytes <-> %d bytes (failed=%v)", e.Codec, len(e.In), len(e.Out), e.Err))
	}
	return out
}

var _ = strings.HasPrefix


// ---------------------------------------------------------------- FetchResponseBlock

func CoqFBlock(b *sarama.FetchResponseBlock) string {
	ab := "None"
	if b.AbortedTransactions != nil {
		it := make([]string, len(b.AbortedTransactions))
		for i, t := range b.AbortedTransactions {
			it[i] = fmt.Sprintf("(%s, %s)", cf.Z(t.ProducerID), cf.Z(t.FirstOffset))
		}
		ab = cf.Some(cf.List(it))
	}
	alias := "None"
	if b.Records != nil {
		alias = cf.Some(CoqRecordsTop(b.Records))
	}
	set := make([]string, len(b.RecordsSet))
	for i, r := range b.RecordsSet {
		set[i] = CoqRecordsTop(r)
	}
	return fmt.Sprintf("(mkFBlock %s %s %s %s %s %s %s %s %s)", cf.Z(int64(b.Err)), cf.Z(b.HighWaterMarkOffset), cf.Z(b.LastStableOffset),
		cf.Z(b.LogStartOffset), ab, cf.Z(int64(b.PreferredReadReplica)), alias, cf.List(set), cf.Bool(b.Partial))
}

// FetchBlock: a partition block with 0-4 record batches (each with at least one record unless allowEmpty), or one
// non-empty legacy message set (one kind per block).
func (g *Gen) FetchBlock(version int16, allowEmpty bool) *sarama.FetchResponseBlock {
	r := g.R
	b := &sarama.FetchResponseBlock{
		Err:                  sarama.KError(int16(pick64(r, I16s, math.MinInt16, math.MaxInt16))),
		HighWaterMarkOffset:  pick64(r, I64s, math.MinInt64, math.MaxInt64),
		LastStableOffset:     pick64(r, I64s, math.MinInt64, math.MaxInt64),
		LogStartOffset:       pick64(r, I64s, math.MinInt64, math.MaxInt64),
		PreferredReadReplica: int32(pick64(r, I32s, math.MinInt32, math.MaxInt32)),
		RecordsSet:           []*sarama.Records{},
	}
	switch r.Intn(4) {
	case 0: // nil
	case 1:
		b.AbortedTransactions = []*sarama.AbortedTransaction{}
	default:
		for i, n := 0, 1+r.Intn(3); i < n; i++ {
			b.AbortedTransactions = append(b.AbortedTransactions, &sarama.AbortedTransaction{ProducerID: r.Int63(), FirstOffset: int64(r.Intn(1000))})
		}
	}
	if r.Intn(5) == 0 {
		set := g.Set(3, 1)
		for len(set.Messages) == 0 {
			set = g.Set(3, 1)
		}
		b.RecordsSet = append(b.RecordsSet, &sarama.Records{MsgSet: set})
	} else {
		for i, n := 0, r.Intn(5); i < n; i++ {
			batch := g.Batch(true)
			for len(batch.Records) == 0 && !(allowEmpty && r.Intn(3) == 0) {
				batch = g.Batch(true)
			}
			b.RecordsSet = append(b.RecordsSet, &sarama.Records{RecordBatch: batch})
		}
	}
	if len(b.RecordsSet) > 0 && r.Intn(3) != 0 {
		b.Records = b.RecordsSet[0]
	}
	return b
}

// NormFetchBlock: what decode(encode(b, v), v) must be.
func NormFetchBlock(b *sarama.FetchResponseBlock, v int16) *sarama.FetchResponseBlock {
	c := &sarama.FetchResponseBlock{Err: b.Err, HighWaterMarkOffset: b.HighWaterMarkOffset, PreferredReadReplica: -1, RecordsSet: []*sarama.Records{}}
	if v >= 4 {
		c.LastStableOffset = b.LastStableOffset
		if v >= 5 {
			c.LogStartOffset = b.LogStartOffset
		}
		c.AbortedTransactions = []*sarama.AbortedTransaction{}
		c.AbortedTransactions = append(c.AbortedTransactions, b.AbortedTransactions...)
	}
	if v >= 11 {
		c.PreferredReadReplica = b.PreferredReadReplica
	}
	for _, rs := range b.RecordsSet {
		switch {
		case rs.RecordBatch != nil:
			if len(rs.RecordBatch.Records) > 0 {
				c.RecordsSet = append(c.RecordsSet, &sarama.Records{RecordBatch: NormBatch(rs.RecordBatch)})
			}
		case rs.MsgSet != nil:
			c.RecordsSet = append(c.RecordsSet, &sarama.Records{MsgSet: NormSet(rs.MsgSet, func(value []byte) *sarama.MessageSet {
				d := sarama.VerifDecodeValue("mset", value, 0, 0, nil)
				if d.Status != 0 {
					return &sarama.MessageSet{}
				}
				return d.Set
			})})
		}
	}
	if len(c.RecordsSet) > 0 {
		c.Records = c.RecordsSet[0]
	}
	return c
}

// fetchSectionStart: offset of the records section (after its int32 size) in an encoded block
func fetchSectionStart(buf []byte, v int16) int {
	p := 2 + 8
	if v >= 4 {
		p += 8
		if v >= 5 {
			p += 8
		}
		if p+4 > len(buf) {
			return -1
		}
		n := int(int32(binary.BigEndian.Uint32(buf[p:])))
		p += 4
		if n > 0 {
			p += 16 * n
		}
	}
	if v >= 11 {
		p += 4
	}
	p += 4
	if p > len(buf) || p < 0 {
		return -1
	}
	return p
}

// ScanFetchBlock: the decompress calls a decode of this block can make (walks the batches of the records section).
func (t *Table) ScanFetchBlock(buf []byte, v int16) {
	p := fetchSectionStart(buf, v)
	if p < 0 {
		return
	}
	end := len(buf)
	if p >= 4 {
		if sz := int(int32(binary.BigEndian.Uint32(buf[p-4:]))); sz >= 0 && p+sz <= len(buf) {
			end = p + sz
		}
	}
	sec := buf[p:end]
	for q := 0; q+12 <= len(sec); {
		t.ScanDecompress(sec, q, 0)
		l := int(int32(binary.BigEndian.Uint32(sec[q+8:])))
		if l < 0 {
			break
		}
		q += 12 + l
	}
}

// EncodeTableFetchBlock: the compress calls of the block's encode, read off the produced bytes element by element.
func EncodeTableFetchBlock(t *Table, b *sarama.FetchResponseBlock, v int16, out []byte) {
	p := fetchSectionStart(out, v)
	if p < 0 {
		return
	}
	sec := out[p:]
	q := 0
	for _, rs := range b.RecordsSet {
		if q+12 > len(sec) {
			return
		}
		switch {
		case rs.RecordBatch != nil:
			l := int(int32(binary.BigEndian.Uint32(sec[q+8:])))
			if l < 0 || q+12+l > len(sec) {
				return
			}
			EncodeTableBatch(t, rs.RecordBatch, sec[q:q+12+l])
			q += 12 + l
		case rs.MsgSet != nil:
			start := q
			for range rs.MsgSet.Messages {
				if q+12 > len(sec) {
					return
				}
				l := int(int32(binary.BigEndian.Uint32(sec[q+8:])))
				if l < 0 || q+12+l > len(sec) {
					return
				}
				q += 12 + l
			}
			EncodeTableSet(t, rs.MsgSet, sec[start:q])
		}
	}
}
