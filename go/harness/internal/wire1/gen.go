// Package wire1: generators, Coq printers and the memory-capped child runner shared by the C09/C10
// primitive- and records-layer harnesses (builder b-wire1).
package wire1

import (
	"bytes"
	"fmt"
	"math"
	"math/rand"
	"strings"

	"github.com/Shopify/sarama"

	cf "verifharness/internal/coqfmt"
)

type EOp = sarama.VerifEOp
type DOp = sarama.VerifDOp
type DVal = sarama.VerifDVal

// ---------------------------------------------------------------- boundary values

var I8s = []int64{-128, -127, -1, 0, 1, 2, 126, 127}
var I16s = []int64{-32768, -32767, -257, -256, -255, -2, -1, 0, 1, 255, 256, 257, 32766, 32767}
var I32s = []int64{math.MinInt32, math.MinInt32 + 1, -65537, -65536, -1, 0, 1, 65535, 65536, 16777215, 16777216, math.MaxInt32 - 1, math.MaxInt32}
var I64s = []int64{math.MinInt64, math.MinInt64 + 1, -4294967297, -4294967296, -1, 0, 1, 4294967295, 4294967296, 1 << 53, math.MaxInt64 - 1, math.MaxInt64}

func Varints() []int64 {
	v := []int64{0, -1, 1, -2, 2, math.MinInt64, math.MinInt64 + 1, math.MaxInt64, math.MaxInt64 - 1}
	for k := uint(5); k <= 62; k++ {
		if k%7 == 5 || k%7 == 6 || k%7 == 0 {
			p := int64(1) << k
			v = append(v, p-1, p, p+1, -p-1, -p, -p+1)
		}
	}
	return v
}

func UVarints() []uint64 {
	v := []uint64{0, 1, 2, math.MaxUint64, math.MaxUint64 - 1, 1 << 63, 1<<63 - 1, 1<<63 + 1}
	for k := uint(7); k <= 63; k += 7 {
		p := uint64(1) << k
		v = append(v, p-1, p, p+1)
	}
	return v
}

type Gen struct{ R *rand.Rand }

func (g *Gen) Bytes(n int) []byte {
	b := make([]byte, n)
	for i := range b {
		switch g.R.Intn(6) {
		case 0:
			b[i] = 0
		case 1:
			b[i] = 0xff
		case 2:
			b[i] = 0x80
		default:
			b[i] = byte(g.R.Intn(256))
		}
	}
	return b
}

func (g *Gen) size() int {
	switch g.R.Intn(12) {
	case 0:
		return 0
	case 1:
		return 1
	case 2:
		return 62 + g.R.Intn(4) // varint size boundary 63/64
	case 3:
		return 126 + g.R.Intn(4) // uvarint (len+1) boundary 127
	case 4:
		return 254 + g.R.Intn(4)
	case 5:
		return 300 + g.R.Intn(400)
	default:
		return 1 + g.R.Intn(12)
	}
}

func pick64(r *rand.Rand, b []int64, lo, hi int64) int64 {
	if r.Intn(2) == 0 {
		return b[r.Intn(len(b))]
	}
	span := uint64(hi - lo)
	if span == math.MaxUint64 {
		return int64(r.Uint64())
	}
	return lo + int64(r.Uint64()%(span+1))
}

var primKinds = []string{"int8", "int16", "int32", "int64", "varint", "uvarint", "arraylength", "compactarraylength", "bool",
	"bytes", "varintbytes", "compactbytes", "rawbytes", "string", "nullablestring", "compactstring", "nullablecompactstring",
	"stringarray", "compactint32array", "nullablecompactint32array", "int32array", "int64array", "emptytagged"}

// Prim returns one put-call of the given kind with a valid value; some kinds need trailing filler bytes
// for the mirror get-call to accept them (array lengths are checked against the remaining bytes).
func (g *Gen) Prim(kind string) []EOp {
	r := g.R
	switch kind {
	case "int8":
		return []EOp{{Op: kind, I: pick64(r, I8s, -128, 127)}}
	case "int16":
		return []EOp{{Op: kind, I: pick64(r, I16s, -32768, 32767)}}
	case "int32":
		return []EOp{{Op: kind, I: pick64(r, I32s, math.MinInt32, math.MaxInt32)}}
	case "int64":
		return []EOp{{Op: kind, I: pick64(r, I64s, math.MinInt64, math.MaxInt64)}}
	case "varint":
		return []EOp{{Op: kind, I: pick64(r, Varints(), math.MinInt64, math.MaxInt64)}}
	case "uvarint":
		u := UVarints()
		if r.Intn(2) == 0 {
			return []EOp{{Op: kind, U: u[r.Intn(len(u))]}}
		}
		return []EOp{{Op: kind, U: r.Uint64() >> uint(r.Intn(64))}}
	case "arraylength", "compactarraylength":
		n := []int{-1, 0, 1, 2, 17, 300}[r.Intn(6)]
		if n <= 0 {
			return []EOp{{Op: kind, I: int64(n)}}
		}
		return []EOp{{Op: kind, I: int64(n)}, {Op: "rawbytes", B: g.Bytes(n + r.Intn(3))}}
	case "bool":
		return []EOp{{Op: kind, I: int64(r.Intn(2))}}
	case "bytes", "varintbytes", "compactbytes", "rawbytes":
		if r.Intn(8) == 0 {
			return []EOp{{Op: kind, Nil: true}}
		}
		return []EOp{{Op: kind, B: g.Bytes(g.size())}}
	case "string", "compactstring":
		return []EOp{{Op: kind, B: g.Bytes(g.size())}}
	case "nullablestring", "nullablecompactstring":
		if r.Intn(5) == 0 {
			return []EOp{{Op: kind, Nil: true}}
		}
		return []EOp{{Op: kind, B: g.Bytes(g.size())}}
	case "stringarray":
		if r.Intn(8) == 0 {
			return []EOp{{Op: kind, Nil: true}}
		}
		n := r.Intn(5)
		s := make([]string, n)
		for i := range s {
			s[i] = string(g.Bytes(r.Intn(9)))
		}
		return []EOp{{Op: kind, Strs: s}}
	case "compactint32array":
		n := r.Intn(5)
		a := make([]int32, n)
		for i := range a {
			a[i] = int32(pick64(r, I32s, math.MinInt32, math.MaxInt32))
		}
		return []EOp{{Op: kind, I32: a}}
	case "nullablecompactint32array", "int32array":
		if r.Intn(6) == 0 {
			return []EOp{{Op: kind, Nil: true}}
		}
		n := r.Intn(5)
		a := make([]int32, n)
		for i := range a {
			a[i] = int32(pick64(r, I32s, math.MinInt32, math.MaxInt32))
		}
		return []EOp{{Op: kind, I32: a}}
	case "int64array":
		if r.Intn(6) == 0 {
			return []EOp{{Op: kind, Nil: true}}
		}
		n := r.Intn(5)
		a := make([]int64, n)
		for i := range a {
			a[i] = pick64(r, I64s, math.MinInt64, math.MaxInt64)
		}
		return []EOp{{Op: kind, I64: a}}
	case "emptytagged":
		return []EOp{{Op: kind}}
	}
	panic("kind " + kind)
}

var frameKinds = []string{"len", "varlen", "crc-ieee", "crc-cast"}
var staleLens = []int64{0, 0, 0, 1, 5, 63, 64, 127, 128, 8191, 8192, 1 << 20, -1, -65, math.MaxInt64, math.MinInt64}

// Script: a random sequence of valid put-calls with properly bracketed frames.
func (g *Gen) Script(depth, maxOps int) []EOp {
	var ops []EOp
	n := 1 + g.R.Intn(maxOps)
	for i := 0; i < n; i++ {
		if depth > 0 && g.R.Intn(4) == 0 {
			f := EOp{Op: "frame", Kind: frameKinds[g.R.Intn(len(frameKinds))]}
			if f.Kind == "varlen" {
				f.VarLen = staleLens[g.R.Intn(len(staleLens))]
			}
			if g.R.Intn(6) != 0 {
				f.Body = g.Script(depth-1, 4)
			}
			ops = append(ops, f)
		} else {
			ops = append(ops, g.Prim(primKinds[g.R.Intn(len(primKinds))])...)
		}
	}
	return ops
}

// BoundaryScripts: deterministic corpus — every boundary value of every integer primitive, nil / empty / long
// collections, strings around the length limits, frames whose body sizes sit on the varint size steps.
func BoundaryScripts() [][]EOp {
	var out [][]EOp
	chunk := func(kind string, vals []int64) {
		var ops []EOp
		for _, v := range vals {
			ops = append(ops, EOp{Op: kind, I: v})
			if len(ops) == 12 {
				out = append(out, ops)
				ops = nil
			}
		}
		if ops != nil {
			out = append(out, ops)
		}
	}
	chunk("int8", I8s)
	chunk("int16", I16s)
	chunk("int32", I32s)
	chunk("int64", I64s)
	chunk("varint", Varints())
	var ops []EOp
	for _, u := range UVarints() {
		ops = append(ops, EOp{Op: "uvarint", U: u})
	}
	out = append(out, ops)
	out = append(out, []EOp{{Op: "bool", I: 0}, {Op: "bool", I: 1}, {Op: "emptytagged"}, {Op: "arraylength", I: -1}, {Op: "arraylength", I: 0},
		{Op: "compactarraylength", I: -1}, {Op: "compactarraylength", I: 0}})
	fill := func(n int) []byte { return bytes.Repeat([]byte{0xab}, n) }
	for _, k := range []string{"bytes", "varintbytes", "compactbytes", "rawbytes"} {
		out = append(out, []EOp{{Op: k, Nil: true}, {Op: k, B: []byte{}}, {Op: k, B: []byte{0}}, {Op: k, B: fill(63)}, {Op: k, B: fill(64)},
			{Op: k, B: fill(126)}, {Op: k, B: fill(127)}, {Op: k, B: fill(128)}, {Op: k, B: fill(16383)}, {Op: k, B: fill(16384)}})
	}
	for _, k := range []string{"string", "compactstring", "nullablestring", "nullablecompactstring"} {
		s := []EOp{{Op: k, B: []byte{}}, {Op: k, B: []byte("a")}, {Op: k, B: fill(126)}, {Op: k, B: fill(127)}, {Op: k, B: fill(128)}, {Op: k, B: fill(32767)}}
		if strings.HasPrefix(k, "nullable") {
			s = append(s, EOp{Op: k, Nil: true})
		}
		out = append(out, s)
		out = append(out, []EOp{{Op: "int8", I: 7}, {Op: k, B: fill(32768)}}) // too long for putString, legal for compact strings
	}
	out = append(out, []EOp{{Op: "stringarray", Nil: true}, {Op: "stringarray", Strs: []string{}}, {Op: "stringarray", Strs: []string{""}},
		{Op: "stringarray", Strs: []string{"a", "", "bc"}}})
	out = append(out, []EOp{{Op: "int16", I: 3}, {Op: "stringarray", Strs: []string{"ok", string(fill(32768))}}})
	out = append(out, []EOp{{Op: "compactint32array", Nil: true}})
	out = append(out, []EOp{{Op: "compactint32array", I32: []int32{}}, {Op: "compactint32array", I32: []int32{math.MinInt32, -1, 0, math.MaxInt32}},
		{Op: "nullablecompactint32array", Nil: true}, {Op: "nullablecompactint32array", I32: []int32{}}, {Op: "nullablecompactint32array", I32: []int32{5}}})
	out = append(out, []EOp{{Op: "int32array", Nil: true}, {Op: "int32array", I32: []int32{}}, {Op: "int32array", I32: []int32{math.MinInt32, -1, 0, math.MaxInt32}},
		{Op: "int64array", Nil: true}, {Op: "int64array", I64: []int64{}}, {Op: "int64array", I64: []int64{math.MinInt64, -1, 0, math.MaxInt64}}})
	for _, fk := range frameKinds {
		for _, n := range []int{0, 1, 63, 64, 8191, 8192} {
			for _, stale := range []int64{0, 64, -1, 1 << 40} {
				if fk != "varlen" && stale != 0 {
					continue
				}
				out = append(out, []EOp{{Op: "int16", I: 258}, {Op: "frame", Kind: fk, VarLen: stale, Body: []EOp{{Op: "rawbytes", B: fill(n)}}}, {Op: "int8", I: -1}})
			}
		}
	}
	// record-batch-like nesting: length around (header, crc around the rest), and varint frames in the middle
	out = append(out, []EOp{{Op: "int64", I: 0}, {Op: "frame", Kind: "len", Body: []EOp{{Op: "int32", I: -1}, {Op: "int8", I: 2},
		{Op: "frame", Kind: "crc-cast", Body: []EOp{{Op: "int16", I: 0}, {Op: "frame", Kind: "varlen", Body: []EOp{{Op: "varintbytes", B: fill(70)}}},
			{Op: "frame", Kind: "varlen", VarLen: 3, Body: []EOp{{Op: "varintbytes", Nil: true}, {Op: "varint", I: -7}}}}}}}})
	return out
}

// ---------------------------------------------------------------- mirror scripts and expected values

func DOps(ops []EOp) []DOp {
	var out []DOp
	for _, o := range ops {
		switch o.Op {
		case "frame":
			out = append(out, DOp{Op: "push", Kind: o.Kind})
			out = append(out, DOps(o.Body)...)
			out = append(out, DOp{Op: "pop"})
		case "rawbytes":
			out = append(out, DOp{Op: "rawbytes", N: len(o.B)})
		case "nullablecompactstring":
			out = append(out, DOp{Op: "compactnullablestring"})
		case "nullablecompactint32array":
			out = append(out, DOp{Op: "compactint32array"})
		default:
			out = append(out, DOp{Op: o.Op})
		}
	}
	return out
}

func bval(b []byte) DVal {
	if b == nil {
		b = []byte{}
	}
	return DVal{T: "bytes", B: b}
}

// Expected: what decoding the encoding must give back (the round-trip property, with the normalisations
// that are part of the wire format: empty arrays decode as nil, nil compact bytes decode as empty, a null
// compact array length decodes as 0).  Independent of the Coq model.
func Expected(ops []EOp) []DVal {
	var out []DVal
	for _, o := range ops {
		switch o.Op {
		case "frame":
			out = append(out, DVal{T: "unit"})
			out = append(out, Expected(o.Body)...)
			out = append(out, DVal{T: "unit"})
		case "int8", "int16", "int32", "int64", "varint", "arraylength":
			out = append(out, DVal{T: "int", I: o.I})
		case "compactarraylength":
			v := o.I
			if v < 0 {
				v = 0
			}
			out = append(out, DVal{T: "int", I: v})
		case "uvarint":
			out = append(out, DVal{T: "uint", U: o.U})
		case "bool":
			out = append(out, DVal{T: "bool", I: o.I})
		case "emptytagged":
			out = append(out, DVal{T: "int", I: 0})
		case "bytes", "varintbytes", "nullablestring", "nullablecompactstring":
			if o.Nil {
				out = append(out, DVal{T: "bytes", Nil: true})
			} else {
				out = append(out, bval(o.B))
			}
		case "compactbytes", "rawbytes", "string", "compactstring":
			out = append(out, bval(o.B))
		case "stringarray":
			if o.Nil || len(o.Strs) == 0 {
				out = append(out, DVal{T: "strs", Nil: true})
			} else {
				ss := make([][]byte, len(o.Strs))
				for i := range o.Strs {
					ss[i] = []byte(o.Strs[i])
				}
				out = append(out, DVal{T: "strs", Strs: ss})
			}
		case "compactint32array", "nullablecompactint32array":
			if o.Nil {
				out = append(out, DVal{T: "ints", Nil: true})
			} else {
				out = append(out, DVal{T: "ints", Ints: i32to64(o.I32)})
			}
		case "int32array":
			if o.Nil || len(o.I32) == 0 {
				out = append(out, DVal{T: "ints", Nil: true})
			} else {
				out = append(out, DVal{T: "ints", Ints: i32to64(o.I32)})
			}
		case "int64array":
			if o.Nil || len(o.I64) == 0 {
				out = append(out, DVal{T: "ints", Nil: true})
			} else {
				out = append(out, DVal{T: "ints", Ints: o.I64})
			}
		default:
			panic("expected: " + o.Op)
		}
	}
	return out
}

func i32to64(a []int32) []int64 {
	r := make([]int64, len(a))
	for i, x := range a {
		r[i] = int64(x)
	}
	return r
}

func DValEq(a, b DVal) bool {
	if a.T != b.T || a.Nil != b.Nil || a.I != b.I || a.U != b.U {
		return false
	}
	if !bytes.Equal(a.B, b.B) || len(a.Ints) != len(b.Ints) || len(a.Strs) != len(b.Strs) {
		return false
	}
	for i := range a.Ints {
		if a.Ints[i] != b.Ints[i] {
			return false
		}
	}
	for i := range a.Strs {
		if !bytes.Equal(a.Strs[i], b.Strs[i]) {
			return false
		}
	}
	return true
}

// ---------------------------------------------------------------- Coq printers

// CoqBytes prints a byte string as a list of Z; long constant runs become (rep n b) so that big fixtures stay small.
func CoqBytes(b []byte) string {
	var parts []string
	i := 0
	lit := 0
	flushLit := func(end int) {
		if end > lit {
			parts = append(parts, cf.Bytes(b[lit:end]))
		}
	}
	for i < len(b) {
		j := i
		for j < len(b) && b[j] == b[i] {
			j++
		}
		if j-i >= 32 {
			flushLit(i)
			parts = append(parts, fmt.Sprintf("rep %d %d", j-i, b[i]))
			lit = j
		}
		i = j
	}
	flushLit(len(b))
	if len(parts) == 0 {
		return "[]"
	}
	if len(parts) == 1 && strings.HasPrefix(parts[0], "[") {
		return parts[0]
	}
	return "(" + strings.Join(parts, " ++ ") + ")"
}

func obytes(nilp bool, b []byte) string {
	if nilp {
		return "None"
	}
	return cf.Some(CoqBytes(b))
}

func coqKind(kind string, varlen int64) string {
	switch kind {
	case "len":
		return "KLen"
	case "varlen":
		return "(KVarLen " + cf.Z(varlen) + ")"
	case "crc-ieee":
		return "(KCrc IEEE)"
	case "crc-cast":
		return "(KCrc Castagnoli)"
	}
	panic(kind)
}

func coqInts64(nilp bool, a []int64) string {
	if nilp {
		return "None"
	}
	return cf.Some(cf.ZList(a))
}

func coqStrs(nilp bool, s []string) string {
	if nilp {
		return "None"
	}
	it := make([]string, len(s))
	for i, x := range s {
		it[i] = CoqBytes([]byte(x))
	}
	return cf.Some(cf.List(it))
}

func coqPrim(o EOp) string {
	switch o.Op {
	case "int8":
		return "PInt8 " + cf.Z(o.I)
	case "int16":
		return "PInt16 " + cf.Z(o.I)
	case "int32":
		return "PInt32 " + cf.Z(o.I)
	case "int64":
		return "PInt64 " + cf.Z(o.I)
	case "varint":
		return "PVarint " + cf.Z(o.I)
	case "uvarint":
		return fmt.Sprintf("PUVarint %d", o.U)
	case "arraylength":
		return "PArrayLength " + cf.Z(o.I)
	case "compactarraylength":
		return "PCompactArrayLength " + cf.Z(o.I)
	case "bool":
		return "PBool " + cf.Bool(o.I != 0)
	case "bytes":
		return "PBytes " + obytes(o.Nil, o.B)
	case "varintbytes":
		return "PVarintBytes " + obytes(o.Nil, o.B)
	case "compactbytes":
		return "PCompactBytes " + obytes(o.Nil, o.B)
	case "rawbytes":
		return "PRawBytes " + obytes(o.Nil, o.B)
	case "string":
		return "PString " + CoqBytes(o.B)
	case "nullablestring":
		return "PNullableString " + obytes(o.Nil, o.B)
	case "compactstring":
		return "PCompactString " + CoqBytes(o.B)
	case "nullablecompactstring":
		return "PNullableCompactString " + obytes(o.Nil, o.B)
	case "stringarray":
		return "PStringArray " + coqStrs(o.Nil, o.Strs)
	case "compactint32array":
		return "PCompactInt32Array " + coqInts64(o.Nil, i32to64(o.I32))
	case "nullablecompactint32array":
		return "PNullableCompactInt32Array " + coqInts64(o.Nil, i32to64(o.I32))
	case "int32array":
		return "PInt32Array " + coqInts64(o.Nil, i32to64(o.I32))
	case "int64array":
		return "PInt64Array " + coqInts64(o.Nil, o.I64)
	case "emptytagged":
		return "PEmptyTagged"
	}
	panic("coqPrim " + o.Op)
}

// CoqEOps prints a script as an [eops] term.
func CoqEOps(ops []EOp) string {
	if len(ops) == 0 {
		return "ENil"
	}
	o := ops[0]
	if o.Op == "frame" {
		return "(EFrame " + coqKind(o.Kind, o.VarLen) + " " + CoqEOps(o.Body) + " " + CoqEOps(ops[1:]) + ")"
	}
	return "(ECons (" + coqPrim(o) + ") " + CoqEOps(ops[1:]) + ")"
}

func CoqDOps(ops []DOp) string {
	it := make([]string, len(ops))
	for i, o := range ops {
		switch o.Op {
		case "int8":
			it[i] = "GInt8"
		case "int16":
			it[i] = "GInt16"
		case "int32":
			it[i] = "GInt32"
		case "int64":
			it[i] = "GInt64"
		case "varint":
			it[i] = "GVarint"
		case "uvarint":
			it[i] = "GUVarint"
		case "arraylength":
			it[i] = "GArrayLength"
		case "compactarraylength":
			it[i] = "GCompactArrayLength"
		case "bool":
			it[i] = "GBool"
		case "emptytagged":
			it[i] = "GEmptyTagged"
		case "bytes":
			it[i] = "GBytes"
		case "varintbytes":
			it[i] = "GVarintBytes"
		case "compactbytes":
			it[i] = "GCompactBytes"
		case "rawbytes":
			it[i] = "GRawBytes " + cf.Z(int64(o.N))
		case "string":
			it[i] = "GString"
		case "nullablestring":
			it[i] = "GNullableString"
		case "compactstring":
			it[i] = "GCompactString"
		case "compactnullablestring":
			it[i] = "GCompactNullableString"
		case "compactint32array":
			it[i] = "GCompactInt32Array"
		case "int32array":
			it[i] = "GInt32Array"
		case "int64array":
			it[i] = "GInt64Array"
		case "stringarray":
			it[i] = "GStringArray"
		case "subset":
			it[i] = "GSubset " + cf.Z(int64(o.N))
		case "peek":
			it[i] = "GPeek " + cf.Z(int64(o.O)) + " " + cf.Z(int64(o.N))
		case "peekint8":
			it[i] = "GPeekInt8 " + cf.Z(int64(o.O))
		case "remaining":
			it[i] = "GRemaining"
		case "push":
			it[i] = "DPush " + coqKind(o.Kind, 0)
		case "pop":
			it[i] = "DPop"
		default:
			panic("coqDOps " + o.Op)
		}
	}
	return cf.List(it)
}

func CoqDVals(vs []DVal) string {
	it := make([]string, len(vs))
	for i, v := range vs {
		switch v.T {
		case "int":
			it[i] = "VInt " + cf.Z(v.I)
		case "uint":
			it[i] = fmt.Sprintf("VInt %d", v.U)
		case "bool":
			it[i] = "VBool " + cf.Bool(v.I != 0)
		case "bytes":
			it[i] = "VBytes " + obytes(v.Nil, v.B)
		case "ints":
			it[i] = "VInts " + coqInts64(v.Nil, v.Ints)
		case "strs":
			ss := make([]string, len(v.Strs))
			for j := range v.Strs {
				ss[j] = string(v.Strs[j])
			}
			it[i] = "VStrs " + coqStrs(v.Nil, ss)
		case "unit":
			it[i] = "VUnit"
		default:
			panic("coqDVals " + v.T)
		}
	}
	return cf.List(it)
}

// Describe gives a short readable form of a script for sidecars (long byte strings are abbreviated).
func Describe(ops []EOp) []interface{} {
	var out []interface{}
	for _, o := range ops {
		m := map[string]interface{}{"op": o.Op}
		switch o.Op {
		case "frame":
			m["kind"] = o.Kind
			if o.Kind == "varlen" {
				m["stale"] = o.VarLen
			}
			m["body"] = Describe(o.Body)
		case "uvarint":
			m["u"] = o.U
		case "int8", "int16", "int32", "int64", "varint", "arraylength", "compactarraylength", "bool":
			m["i"] = o.I
		default:
			if o.Nil {
				m["nil"] = true
			} else if o.Strs != nil {
				m["strs"] = len(o.Strs)
			} else if o.I32 != nil {
				m["i32"] = o.I32
			} else if o.I64 != nil {
				m["i64"] = o.I64
			} else {
				m["len"] = len(o.B)
				if len(o.B) <= 16 {
					m["hex"] = fmt.Sprintf("%x", o.B)
				}
			}
		}
		out = append(out, m)
	}
	return out
}

func Hex(b []byte) string {
	if len(b) > 96 {
		return fmt.Sprintf("%x...(%d bytes)", b[:96], len(b))
	}
	return fmt.Sprintf("%x", b)
}

// ---------------------------------------------------------------- case terms

const PrimImports = "From SV Require Import Wire.Bytes Wire.Crc Wire.Prim Wire.PushPop Wire.CorrPrim."

func ECaseTerm(ops []EOp, res sarama.VerifEncodeResult) string {
	return fmt.Sprintf("{| ec_ops := %s; ec_status := %d; ec_prep := %s; ec_bytes := %s |}",
		CoqEOps(ops), res.Status, cf.Z(int64(res.PrepLen)), CoqBytes(res.Bytes))
}

func DCaseTerm(buf []byte, start int, ops []DOp, vals []DVal, status, off int) string {
	return fmt.Sprintf("{| dc_buf := %s; dc_start := %d; dc_ops := %s; dc_vals := %s; dc_status := %d; dc_off := %s |}",
		CoqBytes(buf), start, CoqDOps(ops), CoqDVals(vals), status, cf.Z(int64(off)))
}

// ExpectEncStatus: the encoder error a script must produce by the documented limits (independent of the model):
// strings longer than math.MaxInt16 in the int16-prefixed forms, a nil non-nullable compact int32 array.
func ExpectEncStatus(ops []EOp) int {
	for _, o := range ops {
		switch o.Op {
		case "frame":
			if s := ExpectEncStatus(o.Body); s != 0 {
				return s
			}
		case "string":
			if len(o.B) > math.MaxInt16 {
				return 1
			}
		case "nullablestring":
			if !o.Nil && len(o.B) > math.MaxInt16 {
				return 1
			}
		case "stringarray":
			for _, s := range o.Strs {
				if len(s) > math.MaxInt16 {
					return 1
				}
			}
		case "compactint32array":
			if o.Nil {
				return 2
			}
		}
	}
	return 0
}

// SizedWriter shards by accumulated term size as well as by count: Coq's parser overflows its stack on
// case files of about a megabyte.
type SizedWriter struct {
	W        *cf.Writer
	MaxBytes int
	MaxCases int
	n, bytes int
}

func NewSizedWriter(dir, prefix, caseType, mismatchFn string, maxCases, maxBytes int) *SizedWriter {
	return &SizedWriter{W: &cf.Writer{Dir: dir, Prefix: prefix, Imports: PrimImports, CaseType: caseType, MismatchFn: mismatchFn, ShardSize: maxCases},
		MaxBytes: maxBytes, MaxCases: maxCases}
}

func (s *SizedWriter) Add(term string, side cf.Sidecar) {
	if s.bytes+len(term) > s.MaxBytes {
		s.W.ShardSize = s.n + 1
	}
	s.W.Add(term, side)
	s.n++
	s.bytes += len(term)
	if s.n >= s.W.ShardSize {
		s.n, s.bytes = 0, 0
		s.W.ShardSize = s.MaxCases
	}
}

func (s *SizedWriter) Close() { s.W.Close() }
