package conslog

import (
	"math/rand"
	"strings"

	"github.com/Shopify/sarama"
)

type Format int

const (
	FV0   Format = iota // plain v0 messages
	FV1                 // plain v1 messages
	FV1C                // v1 compressed wrappers, relative inner offsets
	FV0C                // v0 compressed wrappers, absolute inner offsets
	FV2                 // record batches, contiguous
	FV2H                // record batches with compaction holes
	FCtrl               // record batches, committed transactions with their markers, an unknown control type
	FMix                // legacy prefix followed by record batches
	FTxn                // transactional: several producer ids, aborted and committed transactions
	NFormats
)

var formatNames = []string{"v0", "v1", "v1-compressed-relative", "v0-compressed-absolute", "v2", "v2-holes", "v2-control", "legacy-then-v2", "v2-transactional"}

func (f Format) String() string { return formatNames[f] }

// Legacy reports whether the format needs only legacy message sets (fetch versions < 4 can carry it).
func (f Format) Legacy() bool { return f <= FV0C }

// MinMagic: 0 if the format can be served to a 0.8.2 client, 1 for 0.10, 2 for 0.11+.
func (f Format) MinMagic() int {
	switch f {
	case FV0, FV0C:
		return 0
	case FV1, FV1C:
		return 1
	}
	return 2
}

// AbortedTxn is the generator's ground truth for the broker's aborted-transaction index.
type AbortedTxn struct{ PID, First, Marker int64 }

type Generated struct {
	Format Format
	Log    Log
	Txns   []AbortedTxn
	// LogStart > 0: the head of the log was deleted (retention / DeleteRecords); Open lists the transactions
	// (producer id, original first offset) that were open at that point
	LogStart int64
	Open     [][2]int64
	// Tail: units behind the last stable offset (an open transaction and whatever was appended after it began). A broker
	// serves them to a read_uncommitted fetch only; Log (everything before the LSO) has every transaction decided.
	Tail Log
}

// WithTail appends an open transaction (producer id 9) and possibly further batches behind the last stable offset.
func (g Generated) WithTail(rng *rand.Rand) Generated {
	if len(g.Log) == 0 || g.Log[len(g.Log)-1].B == nil {
		return g
	}
	next := g.Log.End()
	out := g
	out.Tail = nil
	for i, n := 0, 1+rng.Intn(3); i < n; i++ {
		b := genBatch(rng, &next, 1+rng.Intn(2), false)
		if i == 0 || rng.Intn(2) == 0 {
			b.PID, b.Txn = 9, true
		}
		out.Tail = append(out.Tail, Unit{B: b})
	}
	if err := out.Tail.Encode(); err != nil {
		panic(err)
	}
	return out
}

// ViewFor: what a fetch with the given isolation level can see: up to the last stable offset (read_committed) or up to
// the high-water mark (read_uncommitted).
func (g *Generated) ViewFor(readCommitted bool) *Generated {
	if readCommitted || len(g.Tail) == 0 {
		return g
	}
	v := *g
	v.Log = append(append(Log{}, g.Log...), g.Tail...)
	v.Tail = nil
	return &v
}

// HWM is the high-water mark: the end of everything appended.
func (g *Generated) HWM() int64 {
	if len(g.Tail) > 0 {
		return g.Tail.End()
	}
	return g.Log.End()
}

// Truncate deletes the first k stored units: the broker's log start offset moves to the first remaining unit,
// transactions that were open there keep their original first offset in the aborted-transaction index.
func (g Generated) Truncate(k int) Generated {
	if k <= 0 || k >= len(g.Log) {
		return g
	}
	open := map[int64]int64{}
	var order []int64
	for _, u := range g.Log[:k] {
		if u.B == nil {
			continue
		}
		b := u.B
		switch {
		case b.Control && b.CtrlType != 2:
			delete(open, b.PID)
		case !b.Control && b.Txn:
			if _, ok := open[b.PID]; !ok {
				open[b.PID] = b.First
				order = append(order, b.PID)
			}
		}
	}
	out := g
	out.Log = g.Log[k:]
	out.LogStart = out.Log[0].Lo()
	out.Open = nil
	out.Txns = nil
	for _, t := range g.Txns {
		if t.Marker >= out.LogStart { // transactions that ended in the deleted head are gone from the broker's index
			out.Txns = append(out.Txns, t)
		}
	}
	seen := map[int64]bool{}
	for _, p := range order {
		if f, ok := open[p]; ok && !seen[p] {
			seen[p] = true
			out.Open = append(out.Open, [2]int64{p, f})
		}
	}
	return out
}

var codecs = []sarama.CompressionCodec{sarama.CompressionNone, sarama.CompressionGZIP, sarama.CompressionSnappy, sarama.CompressionLZ4, sarama.CompressionZSTD}
var legacyCodecs = []sarama.CompressionCodec{sarama.CompressionGZIP, sarama.CompressionSnappy, sarama.CompressionLZ4}

const baseTs int64 = 1600000000000

func genTs(rng *rand.Rand) int64 {
	if rng.Intn(12) == 0 {
		return -1
	}
	return baseTs + int64(rng.Intn(100000))
}

// sizes: split n records into k parts (each >= 1)
func sizes(rng *rand.Rand, n, k int) []int {
	if k > n {
		k = n
	}
	out := make([]int, k)
	for i := range out {
		out[i] = 1
	}
	for i := 0; i < n-k; i++ {
		out[rng.Intn(k)]++
	}
	return out
}

func gap(rng *rand.Rand, holes bool) int64 {
	if holes && rng.Intn(3) == 0 {
		return int64(1 + rng.Intn(3))
	}
	return 0
}

func genLMsg(rng *rand.Rand, off int64, version int8) LMsg {
	m := LMsg{Offset: off, Version: version, Ts: -1, Key: randBytes(rng, true), Val: randBytes(rng, true)}
	if version >= 1 {
		m.Ts = genTs(rng)
	}
	return m
}

func genPlain(rng *rand.Rand, next *int64, n int, version int8, holes bool) Log {
	var l Log
	for i := 0; i < n; i++ {
		*next += gap(rng, holes)
		m := genLMsg(rng, *next, version)
		if version >= 1 && rng.Intn(6) == 0 {
			m.LogAppend = true
		}
		l = append(l, Unit{L: &Block{Own: m}})
		*next++
	}
	return l
}

func genWrappers(rng *rand.Rand, next *int64, n, nb int, version int8, holes bool) Log {
	var l Log
	for _, sz := range sizes(rng, n, nb) {
		*next += gap(rng, holes)
		first := *next
		abs := make([]int64, sz)
		o := first
		for i := range abs {
			if i > 0 {
				o += gap(rng, holes)
			}
			abs[i] = o
			o++
		}
		last := abs[sz-1]
		*next = last + 1
		blk := &Block{Codec: legacyCodecs[rng.Intn(len(legacyCodecs))]}
		blk.Own = LMsg{Offset: last, Version: version, Ts: -1}
		logAppend := false
		if version >= 1 {
			blk.Own.Ts = genTs(rng)
			logAppend = rng.Intn(4) == 0
			blk.Own.LogAppend = logAppend
		}
		// v1: relative inner offsets (what brokers >= 0.10 write); occasionally absolute ones (base 0);
		// v0: absolute
		relative := version >= 1 && rng.Intn(5) != 0
		for i := range abs {
			off := abs[i]
			if relative {
				off = abs[i] - first
			}
			m := genLMsg(rng, off, version)
			m.LogAppend = logAppend
			blk.Inner = append(blk.Inner, m)
		}
		l = append(l, Unit{L: blk})
	}
	return l
}

func genRec(rng *rand.Rand, delta int64) Rec {
	r := Rec{Delta: delta, TsDelta: int64(rng.Intn(60)) - 5, Key: randBytes(rng, true), Val: randBytes(rng, true)}
	for i := rng.Intn(3); i > 0 && rng.Intn(2) == 0; i-- {
		r.Hdrs = append(r.Hdrs, Hdr{randBytes(rng, false), randBytes(rng, false)})
	}
	return r
}

func genBatch(rng *rand.Rand, next *int64, sz int, holes bool) *Batch {
	*next += gap(rng, holes)
	b := &Batch{First: *next, FirstTs: genTs(rng), PID: -1, Codec: codecs[rng.Intn(len(codecs))]}
	b.MaxTs = b.FirstTs
	if b.FirstTs >= 0 {
		b.MaxTs = b.FirstTs + 60
	}
	b.LogAppend = rng.Intn(6) == 0
	d := int64(0)
	for i := 0; i < sz; i++ {
		if i > 0 {
			d += gap(rng, holes)
		}
		b.Recs = append(b.Recs, genRec(rng, d))
		d++
	}
	last := d - 1
	if holes && rng.Intn(3) == 0 {
		last += int64(1 + rng.Intn(3)) // the tail of the batch was compacted away
	}
	b.LastDelta = int32(last)
	*next = b.First + last + 1
	return b
}

func controlBatch(rng *rand.Rand, next *int64, pid int64, typ int, epoch int16) *Batch {
	key := []byte{0, 0, 0, byte(typ)}
	if typ == 2 {
		key = []byte{0, 0, 0, 5}
	}
	b := &Batch{First: *next, FirstTs: genTs(rng), PID: pid, Epoch: epoch, Txn: true, Control: true, CtrlType: typ,
		Recs: []Rec{{Key: key, Val: []byte{0, 0, 0, 0, 0, 7}}}}
	b.MaxTs = b.FirstTs
	*next++
	return b
}

func genV2(rng *rand.Rand, next *int64, n, nb int, holes bool) Log {
	var l Log
	for _, sz := range sizes(rng, n, nb) {
		l = append(l, Unit{B: genBatch(rng, next, sz, holes)})
	}
	return l
}

// transactional log: producer ids 1..k with open transactions, non-transactional batches in between
func genTxn(rng *rand.Rand, next *int64, n, nb int, allCommit bool) (Log, []AbortedTxn) {
	var l Log
	var txns []AbortedTxn
	k := 1 + rng.Intn(3)
	if rng.Intn(2) == 0 {
		k = 1 // one producer id: back-to-back transactions, aborted then committed
	}
	open := map[int64][]int{} // pid -> indexes of its data batches in l
	firstOff := map[int64]int64{}
	ntx := 0
	maxTx := 1 + rng.Intn(5)
	if rng.Intn(2) == 0 {
		maxTx = 3 + rng.Intn(3)
	}
	// abort-then-commit by the same producer id, back to back: after an abort the next data batch reuses the id
	// and that transaction commits
	reuse := int64(0)
	mustCommit := map[int64]bool{}
	// producer epochs: data batches carry the producer's current epoch; an abort marker written by the transaction
	// coordinator (time-out, fencing) carries that epoch + 1, and the producer continues with the bumped epoch
	epoch := map[int64]int16{}
	markerEpoch := func(pid int64, typ int) int16 {
		if typ == 0 && rng.Intn(2) == 0 {
			epoch[pid]++
		}
		return epoch[pid]
	}
	closeTxn := func(pid int64) {
		typ := 1
		if !allCommit && rng.Intn(2) == 0 && !mustCommit[pid] {
			typ = 0
		}
		delete(mustCommit, pid)
		if _, ok := open[pid]; ok && typ == 0 && rng.Intn(2) == 0 {
			reuse = pid
		}
		marker := *next
		if idxs, ok := open[pid]; ok {
			if typ == 0 {
				for _, i := range idxs {
					l[i].B.Aborted = true
				}
				txns = append(txns, AbortedTxn{pid, firstOff[pid], marker})
			}
			delete(open, pid)
			delete(firstOff, pid)
		}
		l = append(l, Unit{B: controlBatch(rng, next, pid, typ, markerEpoch(pid, typ))})
	}
	szs := sizes(rng, n, nb)
	for _, sz := range szs {
		// maybe end a transaction first
		if len(open) > 0 && rng.Intn(3) == 0 {
			for pid := int64(1); pid <= int64(k); pid++ {
				if _, ok := open[pid]; ok && rng.Intn(2) == 0 {
					closeTxn(pid)
					break
				}
			}
		}
		if !allCommit && rng.Intn(14) == 0 {
			closeTxn(int64(1 + rng.Intn(k))) // a marker for a producer without data in flight
		}
		if allCommit && rng.Intn(10) == 0 {
			l = append(l, Unit{B: controlBatch(rng, next, int64(1+rng.Intn(k)), 2, 0)}) // control record of a type the client does not know
		}
		b := genBatch(rng, next, sz, rng.Intn(4) == 0)
		if reuse != 0 || (rng.Intn(4) != 0 && (ntx < maxTx || len(open) > 0)) {
			pid := int64(1 + rng.Intn(k))
			if reuse != 0 {
				pid, reuse = reuse, 0
				mustCommit[pid] = true
				if _, ok := open[pid]; !ok && ntx >= maxTx {
					maxTx = ntx + 1
				}
			}
			if _, ok := open[pid]; !ok {
				if ntx >= maxTx {
					// continue some open transaction instead
					for p := int64(1); p <= int64(k); p++ {
						if _, ok := open[p]; ok {
							pid = p
							break
						}
					}
				} else {
					ntx++
					firstOff[pid] = b.First
				}
			}
			b.PID, b.Txn, b.Epoch = pid, true, epoch[pid]
			open[pid] = append(open[pid], len(l))
		} else if rng.Intn(3) == 0 {
			// a non-transactional batch carrying a producer id that also runs transactions (idempotent writes)
			b.PID = int64(1 + rng.Intn(k))
		}
		l = append(l, Unit{B: b})
	}
	for pid := int64(1); pid <= int64(k); pid++ {
		if _, ok := open[pid]; ok {
			closeTxn(pid)
		}
	}
	return l, txns
}

// Gen produces a log of the given format with 0..maxRecs records in 1..8 batches.
func Gen(rng *rand.Rand, f Format, maxRecs int) Generated {
	n := rng.Intn(maxRecs + 1)
	if rng.Intn(5) != 0 && n == 0 {
		n = 1 + rng.Intn(maxRecs)
	}
	nb := 1 + rng.Intn(8)
	next := int64(0)
	if rng.Intn(2) == 0 {
		next = int64(rng.Intn(500))
	}
	g := Generated{Format: f}
	if n == 0 {
		return g
	}
	holes := rng.Intn(3) == 0
	if (f == FTxn || f == FCtrl) && maxRecs >= 16 && rng.Intn(4) != 0 {
		// enough batches for several transactions
		if n < 8 {
			n += 8
		}
		if nb < 5 {
			nb += 4
		}
	}
	switch f {
	case FV0:
		g.Log = genPlain(rng, &next, n, 0, holes)
	case FV1:
		g.Log = genPlain(rng, &next, n, 1, holes)
	case FV1C:
		g.Log = genWrappers(rng, &next, n, nb, 1, holes)
	case FV0C:
		g.Log = genWrappers(rng, &next, n, nb, 0, holes)
	case FV2:
		g.Log = genV2(rng, &next, n, nb, false)
	case FV2H:
		g.Log = genV2(rng, &next, n, nb, true)
	case FCtrl:
		g.Log, g.Txns = genTxn(rng, &next, n, nb, true)
	case FMix:
		n1 := 1 + rng.Intn(n)
		if rng.Intn(2) == 0 {
			g.Log = genPlain(rng, &next, n1, 1, holes)
		} else {
			g.Log = genWrappers(rng, &next, n1, 1+rng.Intn(3), 1, holes)
		}
		if n > n1 {
			g.Log = append(g.Log, genV2(rng, &next, n-n1, 1+rng.Intn(4), holes)...)
		}
	case FTxn:
		g.Log, g.Txns = genTxn(rng, &next, n, nb, false)
	}
	if err := g.Log.Encode(); err != nil {
		panic(err)
	}
	return g
}

// Crafted builds a transactional log from a token string: "Tp" transactional data batch of producer p (two
// records), "N" non-transactional batch, "Ap" / "Cp" abort / commit marker of producer p.  Used for the corpus
// of hand-picked shapes (two aborted transactions in flight, abort then commit by one id, ...).
func Crafted(rng *rand.Rand, spec string) Generated {
	g := Generated{Format: FTxn}
	next := int64(100)
	open := map[int64][]int{}
	first := map[int64]int64{}
	epoch := map[int64]int16{}
	for _, tok := range strings.Fields(spec) {
		var pid int64
		if len(tok) > 1 {
			pid = int64(tok[1] - '0')
		}
		switch tok[0] {
		case 'T':
			b := genBatch(rng, &next, 2, false)
			b.PID, b.Txn, b.Epoch = pid, true, epoch[pid]
			if _, ok := open[pid]; !ok {
				first[pid] = b.First
			}
			open[pid] = append(open[pid], len(g.Log))
			g.Log = append(g.Log, Unit{B: b})
		case 'N':
			g.Log = append(g.Log, Unit{B: genBatch(rng, &next, 1+rng.Intn(2), false)})
		case 'A', 'C':
			typ := 1
			if tok[0] == 'A' {
				typ = 0
			}
			if idxs, ok := open[pid]; ok {
				if typ == 0 {
					for _, i := range idxs {
						g.Log[i].B.Aborted = true
					}
					g.Txns = append(g.Txns, AbortedTxn{pid, first[pid], next})
				}
				delete(open, pid)
				delete(first, pid)
			}
			if typ == 0 && rng.Intn(2) == 0 {
				epoch[pid]++ // coordinator-initiated abort
			}
			g.Log = append(g.Log, Unit{B: controlBatch(rng, &next, pid, typ, epoch[pid])})
		}
	}
	if err := g.Log.Encode(); err != nil {
		panic(err)
	}
	return g
}
