package conslog

import (
	"errors"
	"fmt"
	"math/rand"
	"strings"
	"sync"

	"github.com/Shopify/sarama"

	cf "verifharness/internal/coqfmt"
)

// RunOpts: what a correspondence command (c03corr / c11corr) asks for.
type RunOpts struct {
	Out     string
	Seed    int64
	NParse  int
	NE2E    int
	Formats []Format
	RCProb  int // percent of cases run with ReadCommitted (where the fetch version allows it)
	Tag     string
	// Corpus: hand-picked transactional log shapes (see Crafted), run first under ReadCommitted over every start
	// offset x every split into up to 3 responses (strided down to CorpusPer cases each) x index order
	Corpus    []CorpusItem
	CorpusPer int
	// NRandomIndex: random transactional shapes with 3-5 transactions in flight at once, the broker's index in a
	// random permutation, sometimes with the head of the log deleted inside a transaction
	NRandomIndex int
	// NPipe: how many of the end-to-end runs are also replayed step by step through the pipeline model
	NPipe int
}

// CorpusItem: a hand-picked transactional shape (Crafted), optionally with the first Cut units deleted (non-zero
// LogStartOffset, open transactions keep their original first offset), run over start offsets x splits x index
// orders; Perms: every permutation of the broker's index instead of ascending/descending.
type CorpusItem struct {
	Spec  string
	Cut   int
	Perms bool
}

func permutations(n int) [][]int {
	if n == 0 {
		return [][]int{{}}
	}
	var out [][]int
	for _, p := range permutations(n - 1) {
		for i := 0; i <= len(p); i++ {
			q := append(append(append([]int{}, p[:i]...), n-1), p[i:]...)
			out = append(out, q)
		}
	}
	return out
}

func randomIndexSpec(rng *rand.Rand) string {
	k := 3 + rng.Intn(3)
	var toks []string
	for _, p := range rng.Perm(k) {
		toks = append(toks, fmt.Sprintf("T%d", p+1))
		if rng.Intn(3) == 0 {
			toks = append(toks, "N")
		}
	}
	for i := rng.Intn(3); i > 0; i-- {
		toks = append(toks, fmt.Sprintf("T%d", 1+rng.Intn(k)))
	}
	for _, p := range rng.Perm(k) {
		m := "A"
		if rng.Intn(10) < 3 {
			m = "C"
		}
		toks = append(toks, fmt.Sprintf("%s%d", m, p+1))
		if rng.Intn(3) == 0 {
			toks = append(toks, fmt.Sprintf("T%d", 1+rng.Intn(k)))
		}
	}
	// close whatever was reopened
	for p := 1; p <= k; p++ {
		toks = append(toks, fmt.Sprintf("C%d", p))
	}
	out := ""
	for i, t := range toks {
		if i > 0 {
			out += " "
		}
		out += t
	}
	return out
}

var errCodes = []int16{3, 5, 6, 9, 7, 1, -1, 43} // redispatch class, report-and-redispatch class, out of range

func fetchVersionsFor(f Format, rc bool) []int16 {
	var vs []int16
	switch f.MinMagic() {
	case 0:
		vs = []int16{0, 1, 2, 4, 11}
	case 1:
		vs = []int16{2, 3, 4, 7, 11}
	default:
		vs = []int16{4, 5, 7, 10, 11}
	}
	if rc {
		var w []int16
		for _, v := range vs {
			if v >= 4 {
				w = append(w, v)
			}
		}
		return w
	}
	return vs
}

func kafkaVersionsFor(f Format, rc bool) []sarama.KafkaVersion {
	all := []sarama.KafkaVersion{sarama.V0_8_2_0, sarama.V0_10_0_0, sarama.V0_11_0_0, sarama.V1_0_0_0, sarama.V1_1_0_0, sarama.V2_0_0_0, sarama.V2_1_0_0, sarama.V2_3_0_0}
	min := f.MinMagic()
	if rc && min < 2 {
		min = 2
	}
	return all[min:]
}

func maxUnit(l Log) int {
	m := 0
	for _, u := range l {
		if len(u.Raw) > m {
			m = len(u.Raw)
		}
	}
	return m
}

// starts: every interesting start position of a log
func starts(l Log) []int64 {
	if len(l) == 0 {
		return []int64{0, 3}
	}
	var s []int64
	for o := l[0].Lo() - 1; o <= l.End()+1; o++ {
		if o >= 0 {
			s = append(s, o)
		}
	}
	return s
}

// compositions of the unit count into at most `cuts`+1 parts: scripts "serve k1 units, then k2, ..., then the rest"
func cutScripts(units, cuts int) [][]int {
	out := [][]int{{}}
	var rec func(prefix []int, left, c int)
	rec = func(prefix []int, left, c int) {
		if c == 0 {
			return
		}
		for k := 1; k < left; k++ {
			p := append(append([]int{}, prefix...), k)
			out = append(out, p)
			rec(p, left-k, c-1)
		}
	}
	rec(nil, units, cuts)
	return out
}

func randomScript(rng *rand.Rand, units int, e2e bool, version int16) []Directive {
	var sc []Directive
	cuts := rng.Intn(4)
	for i := 0; i < cuts; i++ {
		sc = append(sc, Directive{Whole: 1 + rng.Intn(units+1), Trailing: rng.Intn(3) == 0})
	}
	nf := 0
	switch rng.Intn(3) {
	case 1:
		nf = 1
	case 2:
		nf = 1 + rng.Intn(3)
	}
	for i := 0; i < nf; i++ {
		d := Directive{Fault: 1 + rng.Intn(4)}
		if e2e && rng.Intn(4) == 0 {
			d.Fault = 5 + rng.Intn(2)
		}
		if d.Fault == 1 {
			d.Err = errCodes[rng.Intn(len(errCodes))]
			if e2e && d.Err == 1 && rng.Intn(3) != 0 {
				d.Err = 6 // out-of-range ends the consumer: keep it rare
			}
		}
		pos := rng.Intn(len(sc) + 1)
		sc = append(sc[:pos], append([]Directive{d}, sc[pos:]...)...)
	}
	return sc
}

func pick16(rng *rand.Rand, v []int16) int16 { return v[rng.Intn(len(v))] }

func fetchSizes(rng *rand.Rand, l Log) (def, max int32, exact bool) {
	mu := int32(maxUnit(l))
	def, max, exact = 1<<20, 0, true
	if mu == 0 {
		return
	}
	switch rng.Intn(5) {
	case 0: // small default: partial-only responses and doubling
		def = 16 + rng.Int31n(mu+16)
	case 1: // small default, capped by a maximum every batch fits into
		def = 16 + rng.Int31n(mu+16)
		max = mu + rng.Int31n(64)
		if def > max {
			def = max
		}
		if def < 1 {
			def = 1
		}
	case 2: // a maximum smaller than some batch: ErrMessageTooLarge + skip (outside c03_parse_exact)
		if mu > 40 && rng.Intn(3) == 0 {
			max = mu - 1 - rng.Int31n(mu/2)
			def = 16 + rng.Int31n(max)
			exact = false
		}
	}
	return
}

type work struct {
	term string
	side cf.Sidecar
	// pipeline trace of the same run (hooks/consumer_pipeline.patch), if the tree has the hooks
	pipe      string
	pipeSteps int
}

// RunAll generates the scenarios, runs them, and writes cases_<tag>_parse_NNN.v / cases_<tag>_e2e_NNN.v.
func RunAll(o RunOpts) {
	rng := rand.New(rand.NewSource(o.Seed))
	pw := &cf.Writer{Dir: o.Out, Prefix: "cases_" + o.Tag + "_parse", Imports: "From SV Require Import Consumer.Parse Consumer.Log Consumer.Corr.",
		CaseType: "pcase", MismatchFn: "mismatches_parse", ShardSize: 40}
	perFormat := o.NParse / len(o.Formats)
	var scs []ParseScenario
	txnVersions := fetchVersionsFor(FTxn, true) // 4, 5, 7, 10, 11: LogStartOffset is on the wire from 5 on
	nv := 0
	nextVersion := func() int16 { nv++; return txnVersions[nv%len(txnVersions)] }
	for _, item := range o.Corpus {
		g := Crafted(rng, item.Spec).Truncate(item.Cut)
		gg := g
		var all []ParseScenario
		if item.Perms {
			ss := starts(g.Log)
			if len(ss) > 3 {
				ss = ss[:3]
			}
			for _, perm := range permutations(len(g.Txns)) {
				for si, s := range ss {
					script := []Directive{}
					if (len(all)+si)%3 == 1 {
						script = append(script, Directive{Whole: 1 + len(all)%len(g.Log), IndexOrder: 3, IndexPerm: perm})
					}
					for len(script) < 4 {
						script = append(script, Directive{IndexOrder: 3, IndexPerm: perm})
					}
					all = append(all, ParseScenario{Gen: &gg, ReadCommitted: true, FetchDefault: 1 << 20, Start: s, Script: script})
				}
			}
		} else {
			for _, s := range starts(g.Log) {
				for _, cs := range cutScripts(len(g.Log), 2) {
					order := 1 + len(all)%2
					script := []Directive{}
					for _, k := range cs {
						script = append(script, Directive{Whole: k, IndexOrder: order})
					}
					for len(script) < 4 {
						script = append(script, Directive{IndexOrder: order})
					}
					all = append(all, ParseScenario{Gen: &gg, ReadCommitted: true, FetchDefault: 1 << 20, Start: s, Script: script})
				}
			}
		}
		stride := len(all)/o.CorpusPer + 1
		for i := rng.Intn(stride); i < len(all); i += stride {
			sc := all[i]
			sc.Version = nextVersion()
			scs = append(scs, sc)
		}
	}
	for i := 0; i < o.NRandomIndex; i++ {
		g := Crafted(rng, randomIndexSpec(rng))
		if rng.Intn(3) == 0 {
			g = g.Truncate(1 + rng.Intn(3))
		}
		gg := g
		perm := rng.Perm(len(g.Txns))
		ss := starts(g.Log)
		sc := ParseScenario{Gen: &gg, ReadCommitted: rng.Intn(8) != 0, FetchDefault: 1 << 20, Start: ss[rng.Intn(4)%len(ss)], Version: nextVersion()}
		if rng.Intn(3) == 0 {
			sc.Script = append(sc.Script, Directive{Whole: 1 + rng.Intn(len(g.Log)), IndexOrder: 3, IndexPerm: perm})
		}
		for len(sc.Script) < 4 {
			sc.Script = append(sc.Script, Directive{IndexOrder: 3, IndexPerm: perm})
		}
		scs = append(scs, sc)
	}
	for _, f := range o.Formats {
		count := 0
		// small-scope exhaustive part: every start x every split into fetches (up to 3 cuts) of a small log
		for tries := 0; tries < 20 && count < perFormat/3; tries++ {
			g := Gen(rng, f, 7)
			if len(g.Log) == 0 || len(g.Log) > 5 {
				continue
			}
			gg := g
			rc := rng.Intn(100) < o.RCProb
			var all []ParseScenario
			for _, s := range starts(g.Log) {
				for _, cs := range cutScripts(len(g.Log), 3) {
					var script []Directive
					for _, k := range cs {
						script = append(script, Directive{Whole: k})
					}
					all = append(all, ParseScenario{Gen: &gg, ReadCommitted: rc, FetchDefault: 1 << 20, Start: s, Script: script})
				}
			}
			stride := 1
			if len(all) > perFormat/3 {
				stride = len(all)/(perFormat/3) + 1
			}
			for i := rng.Intn(stride); i < len(all); i += stride {
				sc := all[i]
				sc.Version = pick16(rng, fetchVersionsFor(f, rc))
				scs = append(scs, sc)
				count++
			}
			break
		}
		for count < perFormat {
			g := Gen(rng, f, 40)
			if (f == FTxn || f == FCtrl) && len(g.Log) > 2 && rng.Intn(4) == 0 {
				g = g.Truncate(1 + rng.Intn(len(g.Log)-1)) // head of the log deleted, possibly inside a transaction
			}
			gg := g
			rc := rng.Intn(100) < o.RCProb
			ss := starts(g.Log)
			nstart := 1 + rng.Intn(3)
			for k := 0; k < nstart && count < perFormat; k++ {
				sc := ParseScenario{Gen: &gg, ReadCommitted: rc, Start: ss[rng.Intn(len(ss))]}
				sc.Version = pick16(rng, fetchVersionsFor(f, rc))
				sc.Script = randomScript(rng, len(g.Log), false, sc.Version)
				sc.FetchDefault, sc.FetchMax, _ = fetchSizes(rng, g.Log)
				scs = append(scs, sc)
				count++
			}
		}
	}
	for i, sc := range scs {
		term, js, mon := RunParse(rand.New(rand.NewSource(o.Seed*1000003+int64(i))), sc)
		nontrivial := len(js.Got) > 0 && len(js.Steps) > 0
		pw.Add(term, cf.Sidecar{Case: js, Kind: "parse/" + js.Format, Nontrivial: nontrivial, Monitor: mon})
	}
	pw.Close()

	// ---------------------------------------------------------------- end to end
	ew := &cf.Writer{Dir: o.Out, Prefix: "cases_" + o.Tag + "_e2e", Imports: "From SV Require Import Consumer.Parse Consumer.Log Consumer.Corr.",
		CaseType: "ecase", MismatchFn: "mismatches_e2e", ShardSize: 40}
	var es []E2EScenario
	for i := 0; i < o.NE2E; i++ {
		f := o.Formats[i%len(o.Formats)]
		g := Gen(rng, f, 30)
		if (f == FTxn || f == FCtrl) && len(g.Log) > 2 && rng.Intn(4) == 0 {
			g = g.Truncate(1 + rng.Intn(len(g.Log)-1))
		}
		if (f == FTxn || f == FCtrl) && rng.Intn(3) == 0 {
			g = g.WithTail(rng) // an open transaction behind the last stable offset
		}
		gg := g
		rc := rng.Intn(100) < o.RCProb
		kvs := kafkaVersionsFor(f, rc)
		sc := E2EScenario{Gen: &gg, KafkaVersion: kvs[rng.Intn(len(kvs))], ReadCommitted: rc, Topic: fmt.Sprintf("%s-%d-%d", o.Tag, o.Seed, i)}
		// every stored unit - also those behind the last stable offset - must fit into Fetch.Max (hypothesis `fits`)
		whole := g.ViewFor(false).Log
		sc.FetchDefault, sc.FetchMax, _ = fetchSizes(rng, whole)
		if sc.FetchMax != 0 && sc.FetchMax < int32(maxUnit(whole)) {
			sc.FetchMax = 0
			sc.FetchDefault = 1 << 20
		}
		sc.ChannelBuffer = []int{0, 0, 1, 4, 256}[rng.Intn(5)]
		if len(g.Log) > 0 {
			sc.Oldest = g.Log[0].Lo()
		}
		end := g.HWM()
		switch rng.Intn(8) {
		case 0:
			sc.Req = sarama.OffsetOldest
		case 1:
			sc.Req = sarama.OffsetNewest
		case 2:
			sc.Req = end + 1 + int64(rng.Intn(3)) // out of range
			if rng.Intn(2) == 0 && sc.Oldest > 0 {
				sc.Req = sc.Oldest - 1
			}
		default:
			sc.Req = sc.Oldest + int64(rng.Intn(int(end-sc.Oldest)+1))
		}
		fv := fetchVersionOf(sc.KafkaVersion)
		sc.Script = randomScript(rng, len(g.Log), true, fv)
		if rng.Intn(3) == 0 {
			sc.Stall = map[int]bool{}
			for k := 1 + rng.Intn(2); k > 0; k-- {
				sc.Stall[rng.Intn(g.Log.NRecords()+1)] = true
			}
		}
		if rng.Intn(4) == 0 {
			sc.Extra = 1 + rng.Intn(2)
		}
		if i%6 == 5 && g.Log.NRecords() >= 2 {
			// one partition loses its leader and its re-dispatch fails once or twice (no leader elected yet) while
			// 1-2 sibling partitions on the same broker worker must keep receiving
			sc.Extra = 1 + rng.Intn(2)
			sc.Req = sarama.OffsetOldest
			sc.LeaderLoss = true
			// enough failing attempts for a miscounted reference to matter: one per sibling, sometimes one more
			lost := Directive{Fault: 1, Err: 6, MetaFail: sc.Extra + 1 + rng.Intn(2)}
			pos := rng.Intn(2)
			if pos > len(sc.Script) {
				pos = len(sc.Script)
			}
			var script []Directive
			if pos == 1 {
				script = append(script, Directive{Whole: 1})
			}
			script = append(script, lost)
			for _, d := range sc.Script {
				if d.Fault != 5 && d.Fault != 6 && !(d.Fault == 1 && d.Err == 1) {
					script = append(script, d)
				}
			}
			sc.Script = script
		}
		es = append(es, sc)
	}
	results := make([]work, len(es))
	var wg sync.WaitGroup
	sem := make(chan struct{}, 8)
	for i := range es {
		wg.Add(1)
		sem <- struct{}{}
		go func(i int) {
			defer wg.Done()
			defer func() { <-sem }()
			results[i] = runOneE2E(o.Seed*7919+int64(i), es[i])
		}(i)
	}
	wg.Wait()
	for _, w := range results {
		ew.Add(w.term, w.side)
	}
	ew.Close()

	// ---------------------------------------------------------------- local trace validation of the pipeline model
	tw := &cf.Writer{Dir: o.Out, Prefix: "cases_" + o.Tag + "_pipe", Imports: "From SV Require Import Consumer.Parse Consumer.Log Consumer.Pipeline Consumer.PipelineCorr.",
		CaseType: "tcase", MismatchFn: "mismatches_pipe", ShardSize: 12}
	np := 0
	for _, w := range results {
		if w.pipe == "" || np >= o.NPipe || w.pipeSteps > 400 {
			continue
		}
		np++
		side := w.side
		side.Kind = "pipeline/" + strings.TrimPrefix(side.Kind, "e2e/")
		side.Monitor = nil
		side.Nontrivial = w.pipeSteps > 6
		tw.Add(w.pipe, side)
	}
	tw.Close()
}

type E2ECaseJSON struct {
	Format   string      `json:"format"`
	Kafka    string      `json:"kafka_version"`
	RC       bool        `json:"read_committed"`
	FetchDef int32       `json:"fetch_default"`
	FetchMax int32       `json:"fetch_max"`
	ChanBuf  int         `json:"channel_buffer"`
	Req      int64       `json:"requested_offset"`
	Oldest   int64       `json:"oldest"`
	Newest   int64       `json:"newest"`
	Script   []Directive `json:"script"`
	Stall    []int       `json:"stall_before"`
	Extra    int         `json:"extra_partitions"`
	Units    []string    `json:"units"`
	Got      []int64     `json:"delivered_offsets"`
	Started  int64       `json:"first_fetch_offset"`
	StartErr string      `json:"start_error,omitempty"`
	Complete bool        `json:"complete"`
	Closed   bool        `json:"closed_by_consumer"`
	Icept    int         `json:"interceptors,omitempty"`
	Requests []string    `json:"fetch_requests,omitempty"`
}

func E2EJSON(sc E2EScenario, res E2EResult) E2ECaseJSON {
	js := E2ECaseJSON{Format: sc.Gen.Format.String(), Kafka: sc.KafkaVersion.String(), RC: sc.ReadCommitted, FetchDef: sc.FetchDefault, FetchMax: sc.FetchMax,
		ChanBuf: sc.ChannelBuffer, Req: sc.Req, Oldest: sc.Oldest, Newest: sc.Gen.HWM(), Script: sc.Script, Extra: sc.Extra,
		Started: res.Started, Complete: res.Complete, Closed: res.Closed, Icept: len(sc.Interceptors)}
	for i := 0; i <= sc.Gen.Log.NRecords(); i++ {
		if sc.Stall[i] {
			js.Stall = append(js.Stall, i)
		}
	}
	for _, u := range sc.Gen.Log {
		js.Units = append(js.Units, u.Describe())
	}
	for _, u := range sc.Gen.Tail {
		js.Units = append(js.Units, "behind the last stable offset: "+u.Describe())
	}
	seenReq := map[string]bool{}
	for _, r := range res.Requests {
		k := fmt.Sprintf("v%d/isolation=%d", r.Version, r.Isolation)
		if !seenReq[k] {
			seenReq[k] = true
			js.Requests = append(js.Requests, k)
		}
	}
	for _, m := range res.Delivered {
		js.Got = append(js.Got, m.Offset)
	}
	if res.StartErr != nil {
		js.StartErr = res.StartErr.Error()
	}
	return js
}

// E2EMonitor evaluates C03 / C11 directly on the Messages() stream.
func E2EMonitor(sc E2EScenario, res E2EResult) *cf.Monitor {
	l := sc.Gen.ViewFor(sc.ReadCommitted).Log
	// the request must ask for what the configuration says: a broker only filters / bounds at the LSO when asked to
	for _, r := range res.Requests {
		if sc.ReadCommitted && r.Version >= 4 && r.Isolation != int8(sarama.ReadCommitted) {
			return &cf.Monitor{Signature: "e2e:request-isolation", What: fmt.Sprintf("Consumer.IsolationLevel = ReadCommitted (Config.Version %s) but a FetchRequest v%d carries isolation %d: the broker answers up to the high-water mark without an aborted index", sc.KafkaVersion, r.Version, r.Isolation)}
		}
		if !sc.ReadCommitted && r.Isolation != 0 {
			return &cf.Monitor{Signature: "e2e:request-isolation", What: fmt.Sprintf("Consumer.IsolationLevel = ReadUncommitted but a FetchRequest v%d carries isolation %d", r.Version, r.Isolation)}
		}
		for _, b := range r.Blocks {
			if b.MaxBytes <= 0 || b.Offset < 0 {
				return &cf.Monitor{Signature: "e2e:request-fields", What: fmt.Sprintf("FetchRequest v%d asks partition %d for offset %d with maxBytes %d", r.Version, b.Partition, b.Offset, b.MaxBytes)}
			}
		}
	}
	if res.StartErr != nil {
		inRange := sc.Req == sarama.OffsetOldest || sc.Req == sarama.OffsetNewest || (sc.Req >= sc.Oldest && sc.Req <= sc.Gen.HWM())
		if inRange {
			return &cf.Monitor{Signature: "e2e:start-refused", What: fmt.Sprintf("ConsumePartition(%d) failed: %v", sc.Req, res.StartErr)}
		}
		return nil
	}
	if !res.HasStarted {
		return &cf.Monitor{Signature: "e2e:no-fetch", What: "the consumer never sent a fetch request"}
	}
	if m := Monitor("e2e", l, sc.ReadCommitted, res.Started, l.End(), res.Complete, StripMarks(res.Delivered)); m != nil {
		return m
	}
	for _, e := range res.Errs {
		if errors.Is(e, sarama.ErrMessageTooLarge) {
			// the generator keeps every batch within Fetch.Max, so this is never legitimate here
			return &cf.Monitor{Signature: "e2e:message-too-large", What: fmt.Sprintf("ErrMessageTooLarge reported although every stored batch fits into Consumer.Fetch.Max = %d (largest %d bytes): a record was stepped over", sc.FetchMax, maxUnit(sc.Gen.ViewFor(false).Log))}
		}
	}
	if !res.Complete && !res.Closed {
		return &cf.Monitor{Signature: "e2e:stalled", What: fmt.Sprintf("delivery stopped after %d messages although the partition stayed reachable", len(res.Delivered))}
	}
	if res.SiblingStalled {
		return &cf.Monitor{Signature: "progress:sibling-stalled", What: "a further partition served by the same broker worker stopped receiving records although nothing happened to it (its leader never changed)"}
	}
	if !res.ExtraOK {
		return &cf.Monitor{Signature: "e2e:other-partition", What: "a second partition served by the same broker worker was not delivered exactly"}
	}
	return nil
}

func runOneE2E(seed int64, sc E2EScenario) work {
	res := RunE2E(seed, sc)
	if stalled := func(r E2EResult) bool { return r.SiblingStalled || (r.StartErr == nil && !r.Complete && !r.Closed) }; stalled(res) {
		// a stall is judged by a time-out: it counts only if the same scenario stalls again
		sc2 := sc
		sc2.Topic = sc.Topic + "-again"
		if res2 := RunE2E(seed, sc2); !stalled(res2) {
			res = res2
		}
	}
	js := E2EJSON(sc, res)
	w := work{term: E2ECoq(sc, res), side: cf.Sidecar{Case: js, Kind: "e2e/" + js.Format, Nontrivial: len(res.Delivered) > 0, Monitor: E2EMonitor(sc, res)}}
	if w.side.Monitor == nil {
		if t, n, ok := PipelineCase(sc, res); ok {
			w.pipe, w.pipeSteps = t, n
		}
	}
	return w
}
