package conslog

import (
	"errors"
	"fmt"
	"math/rand"
	"sort"
	"strings"

	"github.com/Shopify/sarama"

	cf "verifharness/internal/coqfmt"
)

const (
	Topic     = "t"
	Partition = int32(0)
)

// Directive scripts what the simulated broker does with one fetch.
type Directive struct {
	// Fault: 0 serve data; 1 error code Err; 2 no block for the partition; 3 empty (no records);
	// 4 throttled and empty (no topics at all; fetch version >= 1); 5 no answer (end-to-end only);
	// 6 drop the connection (end-to-end only)
	Fault int   `json:"fault"`
	Err   int16 `json:"err,omitempty"`
	// Whole > 0: serve at most that many whole stored units; 0: as many as fit
	Whole int `json:"whole,omitempty"`
	// Trailing: append the beginning of the next unit (a partial trailing message / batch)
	Trailing bool `json:"trailing,omitempty"`
	// IndexOrder of the aborted-transaction index: 0 shuffled, 1 descending by first offset, 2 ascending,
	// 3 the permutation IndexPerm of the ascending order (entries beyond its length keep their place)
	IndexOrder int   `json:"index_order,omitempty"`
	IndexPerm  []int `json:"index_perm,omitempty"`
	// MetaFail (end-to-end, with Fault 1): after this answer the next MetaFail metadata requests report the
	// partition without a leader (election in progress), so that many re-dispatch attempts fail
	MetaFail int `json:"meta_fail,omitempty"`
}

// Served is what the broker answered.
type Served struct {
	Kind     int // 0 whole units [From,To); 1 only the beginning of unit From; 2 nothing for the consumer
	From, To int
	Throttle int32
	Parts    []PartResp // empty for "throttled and empty"
}

// Serve answers a fetch at `offset` with a budget of maxBytes from the log.
func (g *Generated) Serve(rng *rand.Rand, offset int64, maxBytes int32, d Directive, readCommitted bool, version int16) Served {
	l := g.Log
	part := PartResp{Topic: Topic, Partition: Partition, HWM: l.End(), LSO: l.End(), LogStart: g.LogStart, Pref: -1}
	switch d.Fault {
	case 1:
		part.Err = d.Err
		return Served{Kind: 2, Parts: []PartResp{part}}
	case 2:
		part.Partition = Partition + 7
		return Served{Kind: 2, Parts: []PartResp{part}}
	case 3:
		return Served{Kind: 2, Parts: []PartResp{part}}
	case 4:
		if version >= 1 {
			return Served{Kind: 2, Throttle: 25}
		}
		return Served{Kind: 2, Parts: []PartResp{part}}
	}
	from := -1
	for i, u := range l {
		if u.Hi() >= offset {
			from = i
			break
		}
	}
	if from < 0 {
		return Served{Kind: 2, Parts: []PartResp{part}}
	}
	if len(l[from].Raw) > int(maxBytes) {
		part.Records = l[from].Raw[:maxBytes]
		return Served{Kind: 1, From: from, To: from, Parts: []PartResp{part}}
	}
	to, total := from, 0
	for to < len(l) && total+len(l[to].Raw) <= int(maxBytes) && (d.Whole == 0 || to-from < d.Whole) {
		total += len(l[to].Raw)
		part.Records = append(part.Records, l[to].Raw...)
		to++
	}
	if d.Trailing && to < len(l) {
		n := 1 + rng.Intn(len(l[to].Raw)-1)
		part.Records = append(part.Records, l[to].Raw[:n]...)
	}
	if readCommitted {
		top := l[to-1].Hi()
		for _, t := range g.Txns {
			if t.Marker >= offset && t.First <= top {
				part.Aborted = append(part.Aborted, [2]int64{t.PID, t.First})
			} else if t.First > top && rng.Intn(3) != 0 {
				part.Aborted = append(part.Aborted, [2]int64{t.PID, t.First}) // beyond the fetched range: harmless
			}
		}
		switch d.IndexOrder {
		case 0:
			rng.Shuffle(len(part.Aborted), func(i, j int) { part.Aborted[i], part.Aborted[j] = part.Aborted[j], part.Aborted[i] })
		case 1:
			sort.Slice(part.Aborted, func(i, j int) bool { return part.Aborted[i][1] > part.Aborted[j][1] })
		case 2:
			sort.Slice(part.Aborted, func(i, j int) bool { return part.Aborted[i][1] < part.Aborted[j][1] })
		case 3:
			sort.Slice(part.Aborted, func(i, j int) bool { return part.Aborted[i][1] < part.Aborted[j][1] })
			if len(d.IndexPerm) <= len(part.Aborted) {
				asc := append([][2]int64(nil), part.Aborted...)
				for i, j := range d.IndexPerm {
					part.Aborted[i] = asc[j]
				}
			}
		}
	}
	return Served{Kind: 0, From: from, To: to, Parts: []PartResp{part}}
}

func (s Served) Body(version int16) []byte { return EncodeResponse(version, s.Throttle, s.Parts) }

// ------------------------------------------------------------------ parse-level scenario

type ParseScenario struct {
	Gen           *Generated
	Version       int16 // fetch response version
	ReadCommitted bool
	FetchDefault  int32
	FetchMax      int32
	Start         int64
	Script        []Directive
}

type ParseCaseJSON struct {
	Format   string      `json:"format"`
	Version  int16       `json:"fetch_version"`
	RC       bool        `json:"read_committed"`
	FetchDef int32       `json:"fetch_default"`
	FetchMax int32       `json:"fetch_max"`
	LogStart int64       `json:"log_start_offset,omitempty"`
	Start    int64       `json:"start"`
	Script   []Directive `json:"script"`
	Units    []string    `json:"units"`
	Steps    []string    `json:"steps"`
	Got      []int64     `json:"delivered_offsets"`
}

func verdictCoq(err error) string {
	switch {
	case err == nil:
		return "VOk"
	case errors.Is(err, sarama.ErrIncompleteResponse):
		return "VIncomplete"
	}
	var k sarama.KError
	if errors.As(err, &k) {
		return cf.App("VKError", cf.Z(int64(k)))
	}
	return "VCtrlErr"
}

func errIDs(es []error) string {
	var out []int64
	for _, e := range es {
		var k sarama.KError
		if errors.Is(e, sarama.ErrMessageTooLarge) {
			out = append(out, 1000)
		} else if errors.As(e, &k) {
			out = append(out, int64(k))
		} else {
			out = append(out, -999)
		}
	}
	return cf.ZList(out)
}

func (u Unit) Describe() string {
	if u.B != nil {
		kind := "data"
		if u.B.Control {
			kind = fmt.Sprintf("control%d", u.B.CtrlType)
		} else if u.B.Txn {
			kind = fmt.Sprintf("txn(aborted=%v)", u.B.Aborted)
		}
		var ds []string
		for _, r := range u.B.Recs {
			ds = append(ds, fmt.Sprint(r.Delta))
		}
		return fmt.Sprintf("batch[%d..%d] pid=%d %s deltas=%s size=%d", u.B.First, u.Hi(), u.B.PID, kind, strings.Join(ds, ","), len(u.Raw))
	}
	var os []string
	for _, r := range u.Refs() {
		os = append(os, fmt.Sprint(r.Offset))
	}
	w := "plain"
	if u.L.Inner != nil {
		w = "wrapper"
	}
	return fmt.Sprintf("legacy v%d %s offsets=%s size=%d", u.L.Own.Version, w, strings.Join(os, ","), len(u.Raw))
}

// RunParse drives the real decoder + parseResponse through the script and returns the Coq pcase term, the
// readable case and the monitor verdict.
func RunParse(rng *rand.Rand, sc ParseScenario) (term string, js ParseCaseJSON, mon *cf.Monitor) {
	conf := sarama.NewConfig()
	conf.Consumer.Return.Errors = true
	conf.Consumer.Fetch.Default = sc.FetchDefault
	conf.Consumer.Fetch.Max = sc.FetchMax
	if sc.ReadCommitted {
		conf.Consumer.IsolationLevel = sarama.ReadCommitted
	}
	sess := sarama.VerifNewConsumerSession(conf, Topic, Partition, sc.Start)
	l := sc.Gen.Log
	js = ParseCaseJSON{Format: sc.Gen.Format.String(), Version: sc.Version, RC: sc.ReadCommitted, FetchDef: sc.FetchDefault, FetchMax: sc.FetchMax,
		Start: sc.Start, Script: sc.Script, LogStart: sc.Gen.LogStart}
	for _, u := range l {
		js.Units = append(js.Units, u.Describe())
	}
	offset, fetch := sc.Start, sc.FetchDefault
	var steps []string
	var delivered []*sarama.ConsumerMessage
	exact := true
	for i := 0; i < 60; i++ {
		d := Directive{}
		if i < len(sc.Script) {
			d = sc.Script[i]
		} else if offset >= l.End() {
			break
		}
		sv := sc.Gen.Serve(rng, offset, fetch, d, sc.ReadCommitted, sc.Version)
		body := sv.Body(sc.Version)
		resp, err := sarama.VerifConsumerDecodeFetch(body, sc.Version)
		if err != nil {
			// the real decoder rejects what the harness encoded: a broken tie, made visible as an ill-typed term
			return "(decode_error)", js, &cf.Monitor{Signature: "parse:decode-error", What: fmt.Sprintf("step %d: FetchResponse v%d does not decode: %v", i, sc.Version, err)}
		}
		out := sess.Parse(resp)
		if out.Panic != "" {
			return "(parse_panic)", js, &cf.Monitor{Signature: "parse:panic", What: fmt.Sprintf("step %d: parseResponse panicked: %s", i, out.Panic)}
		}
		if len(out.Sent) > 0 {
			exact = false
		}
		steps = append(steps, cf.App("Build_pstep", cf.Z(int64(sv.Kind)), cf.Nat(sv.From), cf.Nat(sv.To), CoqResponse(resp, Topic, Partition),
			CoqMsgs(out.Msgs), cf.Z(out.Offset), cf.Z(int64(out.FetchSize)), cf.Z(out.HWM), cf.Z(int64(out.Pref)), verdictCoq(out.Err), errIDs(out.Sent)))
		js.Steps = append(js.Steps, fmt.Sprintf("kind=%d units[%d,%d) fault=%d -> %d msgs offset=%d fetchSize=%d err=%v sent=%v", sv.Kind, sv.From, sv.To, d.Fault,
			len(out.Msgs), out.Offset, out.FetchSize, out.Err, out.Sent))
		delivered = append(delivered, out.Msgs...)
		offset, fetch = out.Offset, out.FetchSize
	}
	for _, m := range delivered {
		js.Got = append(js.Got, m.Offset)
	}
	cfg := cf.App("Build_cfg", cf.Z(int64(sc.FetchDefault)), cf.Z(int64(sc.FetchMax)), cf.Bool(sc.ReadCommitted))
	st := cf.App("Build_pstate", cf.Z(sc.Start), cf.Z(int64(sc.FetchDefault)), "0", "0")
	var open []string
	for _, o := range sc.Gen.Open {
		open = append(open, fmt.Sprintf("(%s, %s)", cf.Z(o[0]), cf.Z(o[1])))
	}
	term = cf.App("Build_pcase", cfg, l.Coq(), cf.List(open), st, cf.Bool(exact), cf.List(steps))
	if exact {
		mon = Monitor("parse", l, sc.ReadCommitted, sc.Start, offset, true, delivered)
	}
	return
}

// Monitor is the property statement evaluated directly on what was delivered: exactly the visible records of
// [start, upto), once each, in order, unaltered; nothing from control batches or (ReadCommitted) aborted
// transactions.  complete=false: only "a prefix of" is required.
func Monitor(prefix string, l Log, readCommitted bool, start, upto int64, complete bool, got []*sarama.ConsumerMessage) *cf.Monitor {
	all := map[int64]Ref{}
	for _, u := range l {
		for _, r := range u.Refs() {
			all[r.Offset] = r
		}
	}
	var want []Ref
	for _, r := range l.Visible(readCommitted, start) {
		if r.Offset < upto {
			want = append(want, r)
		}
	}
	last := int64(-1 << 62)
	for i, m := range got {
		r, ok := all[m.Offset]
		switch {
		case m.Offset <= last && containsOffset(got[:i], m.Offset):
			return &cf.Monitor{Signature: prefix + ":duplicate", What: fmt.Sprintf("offset %d delivered twice", m.Offset)}
		case m.Offset <= last:
			return &cf.Monitor{Signature: prefix + ":reordered", What: fmt.Sprintf("offset %d delivered after %d", m.Offset, last)}
		case !ok:
			return &cf.Monitor{Signature: prefix + ":phantom", What: fmt.Sprintf("offset %d is not in the log", m.Offset)}
		case r.Control:
			return &cf.Monitor{Signature: prefix + ":control-delivered", What: fmt.Sprintf("control record at offset %d delivered", m.Offset)}
		case readCommitted && r.Aborted:
			return &cf.Monitor{Signature: prefix + ":aborted-delivered", What: fmt.Sprintf("record %d of an aborted transaction delivered under ReadCommitted", m.Offset)}
		case m.Offset < start:
			return &cf.Monitor{Signature: prefix + ":before-start", What: fmt.Sprintf("offset %d delivered, start was %d", m.Offset, start)}
		case !SameAsRef(m, r):
			return &cf.Monitor{Signature: prefix + ":altered", What: fmt.Sprintf("offset %d delivered with other key/value/headers/timestamp than stored", m.Offset)}
		}
		last = m.Offset
	}
	for i, r := range want {
		if i >= len(got) {
			if complete {
				return &cf.Monitor{Signature: prefix + ":missing", What: fmt.Sprintf("offset %d never delivered (consumer offset %d)", r.Offset, upto)}
			}
			break
		}
		if got[i].Offset != r.Offset {
			return &cf.Monitor{Signature: prefix + ":skipped", What: fmt.Sprintf("offset %d skipped (got %d)", r.Offset, got[i].Offset)}
		}
	}
	if len(got) > len(want) {
		return &cf.Monitor{Signature: prefix + ":extra", What: fmt.Sprintf("offset %d delivered beyond the consumer offset %d", got[len(want)].Offset, upto)}
	}
	return nil
}

func containsOffset(ms []*sarama.ConsumerMessage, o int64) bool {
	for _, m := range ms {
		if m.Offset == o {
			return true
		}
	}
	return false
}
