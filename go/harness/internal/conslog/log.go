// Package conslog: generated partition logs, their wire encoding (through sarama's real encoders), a
// simulated broker answering fetches from such a log, and printers of logs / decoded responses as Coq
// terms of SV.Consumer.Parse / SV.Consumer.Log.  Used by cmd/c03corr, cmd/c11corr and cmd/c18cons.
package conslog

import (
	"encoding/binary"
	"fmt"
	"math/rand"
	"time"

	"github.com/Shopify/sarama"

	cf "verifharness/internal/coqfmt"
)

// ZeroTime is time.Time{} as Unix milliseconds (Parse.zero_time).
const ZeroTime int64 = -62135596800000

// TsMs maps a time.Time to the model's representation.
func TsMs(t time.Time) int64 { return t.Unix()*1000 + int64(t.Nanosecond()/1000000) }

func msTime(ms int64) time.Time {
	if ms < 0 {
		return time.Time{}
	}
	return time.Unix(ms/1000, (ms%1000)*int64(time.Millisecond))
}

// model value of a generated timestamp (-1 = "no timestamp" = zero time)
func modelTs(ms int64) int64 {
	if ms < 0 {
		return ZeroTime
	}
	return ms
}

type Hdr struct{ K, V []byte }

type Rec struct {
	Delta, TsDelta int64
	Key, Val       []byte
	Hdrs           []Hdr
}

// Batch is a v2 record batch as stored.
type Batch struct {
	First        int64
	LastDelta    int32
	FirstTs      int64 // ms, -1 = none
	MaxTs        int64
	LogAppend    bool
	PID          int64
	Epoch        int16 // producer epoch; an abort marker written by the coordinator carries the data epoch + 1
	Txn, Control bool
	CtrlType     int // 0 abort, 1 commit, 2 unknown (control batches only)
	Recs         []Rec
	Codec        sarama.CompressionCodec
	Aborted      bool // generator's ground truth: transactional data batch of an aborted transaction
}

type LMsg struct {
	Offset    int64
	Version   int8
	LogAppend bool
	Ts        int64 // ms, -1 = none (always for v0)
	Key, Val  []byte
}

// Block is one top-level legacy MessageBlock: a plain message (Inner == nil) or a compressed wrapper.
type Block struct {
	Own   LMsg
	Inner []LMsg
	Codec sarama.CompressionCodec
}

// Unit is one stored unit of the log with its encoding.
type Unit struct {
	B   *Batch
	L   *Block
	Raw []byte
}

type Log []Unit

// Ref is one application-visible record as the generator knows it (independent of the model).
type Ref struct {
	Offset   int64
	Key, Val []byte
	Hdrs     []Hdr
	Ts       int64 // model representation
	BlockTs  int64
	Control  bool
	Aborted  bool // only meaningful for transactional data
}

func (u Unit) Hi() int64 {
	if u.B != nil {
		return u.B.First + int64(u.B.LastDelta)
	}
	return u.L.Own.Offset
}

func (u Unit) Lo() int64 {
	if u.B != nil {
		return u.B.First
	}
	return u.Refs()[0].Offset
}

// Refs lists every record of the unit (control and aborted ones flagged).
func (u Unit) Refs() []Ref {
	var out []Ref
	if u.B != nil {
		b := u.B
		for _, r := range b.Recs {
			ts := modelTs(b.FirstTs) + r.TsDelta
			if b.LogAppend {
				ts = modelTs(b.MaxTs)
			}
			out = append(out, Ref{Offset: b.First + r.Delta, Key: r.Key, Val: r.Val, Hdrs: r.Hdrs, Ts: ts, BlockTs: ZeroTime,
				Control: b.Control, Aborted: b.Aborted})
		}
		return out
	}
	l := u.L
	msgs := l.Inner
	if msgs == nil {
		msgs = []LMsg{l.Own}
	}
	last := msgs[len(msgs)-1].Offset
	for _, m := range msgs {
		off := m.Offset
		ts := modelTs(m.Ts)
		if m.Version >= 1 {
			off += l.Own.Offset - last
			if m.LogAppend {
				ts = modelTs(l.Own.Ts)
			}
		}
		out = append(out, Ref{Offset: off, Key: m.Key, Val: m.Val, Ts: ts, BlockTs: modelTs(l.Own.Ts)})
	}
	return out
}

// Visible is the reference filter of the log: what an application must see from offset `from` on.
func (l Log) Visible(readCommitted bool, from int64) []Ref {
	var out []Ref
	for _, u := range l {
		for _, r := range u.Refs() {
			if r.Control || r.Offset < from || (readCommitted && r.Aborted) {
				continue
			}
			out = append(out, r)
		}
	}
	return out
}

func (l Log) End() int64 {
	if len(l) == 0 {
		return 0
	}
	return l[len(l)-1].Hi() + 1
}

func (l Log) NRecords() int {
	n := 0
	for _, u := range l {
		n += len(u.Refs())
	}
	return n
}

// ------------------------------------------------------------------ encoding (sarama's real encoders)

func (b *Batch) sarama() *sarama.RecordBatch {
	rb := &sarama.RecordBatch{
		FirstOffset: b.First, Version: 2, Codec: b.Codec, CompressionLevel: sarama.CompressionLevelDefault,
		Control: b.Control, LogAppendTime: b.LogAppend,
		LastOffsetDelta: b.LastDelta, FirstTimestamp: msTime(b.FirstTs), MaxTimestamp: msTime(b.MaxTs),
		ProducerID: b.PID, ProducerEpoch: b.Epoch, IsTransactional: b.Txn,
	}
	for _, r := range b.Recs {
		rec := &sarama.Record{TimestampDelta: time.Duration(r.TsDelta) * time.Millisecond, OffsetDelta: r.Delta, Key: r.Key, Value: r.Val}
		for _, h := range r.Hdrs {
			rec.Headers = append(rec.Headers, &sarama.RecordHeader{Key: h.K, Value: h.V})
		}
		rb.Records = append(rb.Records, rec)
	}
	return rb
}

func lmsgSarama(m LMsg) *sarama.Message {
	return &sarama.Message{Key: m.Key, Value: m.Val, Version: m.Version, LogAppendTime: m.LogAppend, Timestamp: msTime(m.Ts),
		CompressionLevel: sarama.CompressionLevelDefault}
}

func (l *Block) encode() ([]byte, error) {
	var msg *sarama.Message
	if l.Inner == nil {
		msg = lmsgSarama(l.Own)
	} else {
		inner := &sarama.MessageSet{}
		for _, m := range l.Inner {
			inner.Messages = append(inner.Messages, &sarama.MessageBlock{Offset: m.Offset, Msg: lmsgSarama(m)})
		}
		raw, err := sarama.VerifConsumerEncodeSet(inner)
		if err != nil {
			return nil, err
		}
		msg = lmsgSarama(l.Own)
		msg.Key = nil
		msg.Value = raw
		msg.Codec = l.Codec
	}
	return sarama.VerifConsumerEncodeSet(&sarama.MessageSet{Messages: []*sarama.MessageBlock{{Offset: l.Own.Offset, Msg: msg}}})
}

// Encode fills Raw of every unit.
func (l Log) Encode() error {
	for i := range l {
		var err error
		if l[i].B != nil {
			l[i].Raw, err = sarama.VerifConsumerEncodeBatch(l[i].B.sarama())
		} else {
			l[i].Raw, err = l[i].L.encode()
		}
		if err != nil {
			return fmt.Errorf("unit %d: %v", i, err)
		}
	}
	return nil
}

// PartResp describes one partition's part of a fetch response.
type PartResp struct {
	Topic     string
	Partition int32
	Err       int16
	HWM       int64
	LSO       int64
	LogStart  int64
	Aborted   [][2]int64 // pid, first offset
	Pref      int32
	Records   []byte
}

// EncodeResponse writes a FetchResponse body of the given version by hand (the decoder under test is sarama's).
func EncodeResponse(version int16, throttleMs int32, parts []PartResp) []byte {
	var b []byte
	p16 := func(v int16) { b = append(b, byte(uint16(v)>>8), byte(v)) }
	p32 := func(v int32) { var t [4]byte; binary.BigEndian.PutUint32(t[:], uint32(v)); b = append(b, t[:]...) }
	p64 := func(v int64) { var t [8]byte; binary.BigEndian.PutUint64(t[:], uint64(v)); b = append(b, t[:]...) }
	if version >= 1 {
		p32(throttleMs)
	}
	if version >= 7 {
		p16(0)
		p32(0)
	}
	// group by topic, keeping order
	var topics []string
	by := map[string][]PartResp{}
	for _, p := range parts {
		if _, ok := by[p.Topic]; !ok {
			topics = append(topics, p.Topic)
		}
		by[p.Topic] = append(by[p.Topic], p)
	}
	p32(int32(len(topics)))
	for _, t := range topics {
		p16(int16(len(t)))
		b = append(b, t...)
		p32(int32(len(by[t])))
		for _, p := range by[t] {
			p32(p.Partition)
			p16(p.Err)
			p64(p.HWM)
			if version >= 4 {
				p64(p.LSO)
				if version >= 5 {
					p64(p.LogStart)
				}
				p32(int32(len(p.Aborted)))
				for _, a := range p.Aborted {
					p64(a[0])
					p64(a[1])
				}
			}
			if version >= 11 {
				p32(p.Pref)
			}
			p32(int32(len(p.Records)))
			b = append(b, p.Records...)
		}
	}
	return b
}

// ------------------------------------------------------------------ Coq printers

func obytes(b []byte) string {
	if b == nil {
		return "None"
	}
	return cf.Some(cf.Bytes(b))
}

func hdrs(h []Hdr) string {
	s := make([]string, len(h))
	for i, x := range h {
		s[i] = "(" + cf.Bytes(x.K) + ", " + cf.Bytes(x.V) + ")"
	}
	return cf.List(s)
}

func coqRec(r Rec) string {
	return cf.App("Build_record", cf.Z(r.Delta), cf.Z(r.TsDelta), obytes(r.Key), obytes(r.Val), hdrs(r.Hdrs))
}

type coqBatch struct {
	First, LastDelta, FirstTs, MaxTs, PID int64
	LogAppend, Txn, Control, Partial      bool
	Recs                                  []Rec
}

func (b coqBatch) String() string {
	rs := make([]string, len(b.Recs))
	for i, r := range b.Recs {
		rs[i] = coqRec(r)
	}
	return cf.App("Build_rbatch", cf.Z(b.First), cf.Z(b.LastDelta), cf.Z(b.FirstTs), cf.Z(b.MaxTs), cf.Bool(b.LogAppend),
		cf.Z(b.PID), cf.Bool(b.Txn), cf.Bool(b.Control), cf.Bool(b.Partial), cf.List(rs))
}

func coqLMsg(m LMsg, dropVal bool) string {
	v := obytes(m.Val)
	if dropVal {
		v = "None"
	}
	return cf.App("Build_lmsg", cf.Z(m.Offset), cf.Z(int64(m.Version)), cf.Bool(m.LogAppend), cf.Z(modelTs(m.Ts)), obytes(m.Key), v)
}

func coqBlock(own LMsg, inner []LMsg, wrapper bool) string {
	in := "None"
	if wrapper {
		s := make([]string, len(inner))
		for i, m := range inner {
			s[i] = coqLMsg(m, false)
		}
		in = cf.Some(cf.List(s))
	}
	o := own
	if wrapper {
		o.Key = nil
	}
	return cf.App("Build_lblock", coqLMsg(o, wrapper), in)
}

// Coq prints a stored unit as an sbatch.
func (u Unit) Coq() string {
	if u.B != nil {
		b := u.B
		return cf.App("SBatch", coqBatch{First: b.First, LastDelta: int64(b.LastDelta), FirstTs: modelTs(b.FirstTs), MaxTs: modelTs(b.MaxTs),
			PID: b.PID, LogAppend: b.LogAppend, Txn: b.Txn, Control: b.Control, Recs: b.Recs}.String())
	}
	return cf.App("SBlock", coqBlock(u.L.Own, u.L.Inner, u.L.Inner != nil))
}

func (l Log) Coq() string {
	s := make([]string, len(l))
	for i, u := range l {
		s[i] = u.Coq()
	}
	return cf.List(s)
}

func fromSaramaMsg(off int64, m *sarama.Message) LMsg {
	ts := TsMs(m.Timestamp)
	// keep the model representation: LMsg.Ts is printed through modelTs, so store -1 for the zero time
	if m.Timestamp.IsZero() {
		ts = -1
	}
	return LMsg{Offset: off, Version: m.Version, LogAppend: m.LogAppendTime, Ts: ts, Key: m.Key, Val: m.Value}
}

// CoqRecords prints a decoded *sarama.Records element.
func CoqRecords(r *sarama.Records) string {
	if r.RecordBatch != nil {
		rb := r.RecordBatch
		cb := coqBatch{First: rb.FirstOffset, LastDelta: int64(rb.LastOffsetDelta), FirstTs: TsMs(rb.FirstTimestamp), MaxTs: TsMs(rb.MaxTimestamp),
			PID: rb.ProducerID, LogAppend: rb.LogAppendTime, Txn: rb.IsTransactional, Control: rb.Control, Partial: rb.PartialTrailingRecord}
		for _, rec := range rb.Records {
			x := Rec{Delta: rec.OffsetDelta, TsDelta: int64(rec.TimestampDelta / time.Millisecond), Key: rec.Key, Val: rec.Value}
			for _, h := range rec.Headers {
				x.Hdrs = append(x.Hdrs, Hdr{orEmpty(h.Key), orEmpty(h.Value)})
			}
			cb.Recs = append(cb.Recs, x)
		}
		return cf.App("RBatch", cb.String())
	}
	ms := r.MsgSet
	var bl []string
	for _, mb := range ms.Messages {
		own := fromSaramaMsg(mb.Offset, mb.Msg)
		if mb.Msg.Set != nil {
			var inner []LMsg
			for _, im := range mb.Msg.Set.Messages {
				inner = append(inner, fromSaramaMsg(im.Offset, im.Msg))
			}
			bl = append(bl, coqBlock(own, inner, true))
		} else {
			bl = append(bl, coqBlock(own, nil, false))
		}
	}
	return cf.App("RLegacy", cf.Bool(ms.PartialTrailingMessage), cf.Bool(ms.OverflowMessage), cf.List(bl))
}

func orEmpty(b []byte) []byte {
	if b == nil {
		return []byte{}
	}
	return b
}

// CoqResponse prints the part of a decoded FetchResponse that parseResponse looks at.
func CoqResponse(r *sarama.FetchResponse, topic string, partition int32) string {
	blk := "None"
	if b := r.GetBlock(topic, partition); b != nil {
		var ab []string
		for _, a := range b.AbortedTransactions {
			ab = append(ab, fmt.Sprintf("(%s, %s)", cf.Z(a.ProducerID), cf.Z(a.FirstOffset)))
		}
		var rs []string
		for _, x := range b.RecordsSet {
			rs = append(rs, CoqRecords(x))
		}
		blk = cf.Some(cf.App("Build_block", cf.Z(int64(b.Err)), cf.Z(b.HighWaterMarkOffset), cf.Bool(b.Partial), cf.List(ab),
			cf.Z(int64(b.PreferredReadReplica)), cf.List(rs)))
	}
	return cf.App("Build_response", cf.Z(int64(r.ThrottleTime/time.Millisecond)), cf.Bool(len(r.Blocks) == 0), blk)
}

// CoqMsg prints a delivered ConsumerMessage.
func CoqMsg(m *sarama.ConsumerMessage) string {
	var h []Hdr
	for _, x := range m.Headers {
		h = append(h, Hdr{orEmpty(x.Key), orEmpty(x.Value)})
	}
	return cf.App("Build_cmsg", cf.Z(m.Offset), obytes(m.Key), obytes(m.Value), hdrs(h), cf.Z(TsMs(m.Timestamp)), cf.Z(TsMs(m.BlockTimestamp)))
}

func CoqMsgs(ms []*sarama.ConsumerMessage) string {
	s := make([]string, len(ms))
	for i, m := range ms {
		s[i] = CoqMsg(m)
	}
	return cf.List(s)
}

// ------------------------------------------------------------------ comparing a delivered message with a Ref

func bytesEq(a, b []byte) bool {
	if (a == nil) != (b == nil) {
		return false
	}
	return string(a) == string(b)
}

// SameAsRef: is the delivered message exactly the stored record?
func SameAsRef(m *sarama.ConsumerMessage, r Ref) bool {
	if m.Offset != r.Offset || !bytesEq(m.Key, r.Key) || !bytesEq(m.Value, r.Val) || TsMs(m.Timestamp) != r.Ts || TsMs(m.BlockTimestamp) != r.BlockTs {
		return false
	}
	if len(m.Headers) != len(r.Hdrs) {
		return false
	}
	for i, h := range m.Headers {
		if string(h.Key) != string(r.Hdrs[i].K) || string(h.Value) != string(r.Hdrs[i].V) {
			return false
		}
	}
	return true
}

// small random payloads; nil and empty both occur
func randBytes(rng *rand.Rand, allowNil bool) []byte {
	switch rng.Intn(8) {
	case 0:
		if allowNil {
			return nil
		}
		return []byte{}
	case 1:
		return []byte{}
	}
	n := 1 + rng.Intn(3)
	b := make([]byte, n)
	for i := range b {
		b[i] = byte(rng.Intn(256))
	}
	return b
}
