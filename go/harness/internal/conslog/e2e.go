package conslog

import (
	"errors"
	"fmt"
	"math/rand"
	"strings"
	"sync"
	"sync/atomic"
	"time"

	"github.com/Shopify/sarama"

	cf "verifharness/internal/coqfmt"
)

// ------------------------------------------------------------------ hook routing (feeder.expiry / feeder.handoff)

type hookSub struct {
	expiry  chan int64 // offset of the message the feeder was blocked on when it gave up
	handoff chan int64
	// pipeline trace (hooks of hooks/consumer_pipeline.patch), in the order the events happened
	mu        sync.Mutex
	recording bool
	events    []Event
}

// Event is one hook event of the consumer pipeline.
type Event struct {
	Kind string
	P    int32
	N    int
	Off  int64
	FS   int32
	Resp *sarama.FetchResponse
	Err  error
}

var (
	hookMu      sync.Mutex
	hookSubs    = map[string]*hookSub{} // by topic and by broker address
	hookOnce    sync.Once
	stalledRuns int32
	// HooksSeen is set once any feeder hook fired: the tree under test has the call sites.
	HooksSeen int32
	// PipelineHooksSeen: the tree has the bc.* / pc.* call sites.
	PipelineHooksSeen int32
)

// EscapedPanics counts panics that reached sarama.PanicHandler (a goroutine of the library died).
var EscapedPanics int32

func installObserver() {
	hookOnce.Do(func() {
		sarama.PanicHandler = func(interface{}) { atomic.AddInt32(&EscapedPanics, 1) }
		sarama.VerifSetObserver(func(kind string, args ...interface{}) {
			if !strings.HasPrefix(kind, "feeder.") && !strings.HasPrefix(kind, "bc.") && !strings.HasPrefix(kind, "pc.") {
				return
			}
			if len(args) < 1 {
				return
			}
			key, _ := args[0].(string) // topic (feeder.*, pc.*) or broker address (bc.*)
			hookMu.Lock()
			s := hookSubs[key]
			hookMu.Unlock()
			if s == nil {
				return
			}
			if kind == "feeder.expiry" || kind == "feeder.handoff" {
				atomic.StoreInt32(&HooksSeen, 1)
			} else {
				atomic.StoreInt32(&PipelineHooksSeen, 1)
			}
			ev := Event{Kind: kind}
			i32 := func(i int) int32 {
				if i < len(args) {
					v, _ := args[i].(int32)
					return v
				}
				return 0
			}
			i64 := func(i int) int64 {
				if i < len(args) {
					v, _ := args[i].(int64)
					return v
				}
				return 0
			}
			switch kind {
			case "feeder.handoff", "feeder.expiry", "pc.start":
				ev.P, ev.Off = i32(1), i64(2)
			case "feeder.parsed":
				ev.P, ev.Off, ev.FS = i32(1), i64(3), i32(4)
				if len(args) > 2 {
					ev.N, _ = args[2].(int)
				}
			case "feeder.done", "feeder.resubscribe", "pc.dispatched", "pc.dispatch.failed":
				ev.P = i32(1)
			case "bc.subscribe":
				ev.P = i32(2)
			case "bc.verdict":
				ev.P = i32(2)
				if len(args) > 3 {
					ev.Err, _ = args[3].(error)
				}
			case "bc.fetched":
				if len(args) > 1 {
					ev.Resp, _ = args[1].(*sarama.FetchResponse)
				}
			}
			s.mu.Lock()
			if s.recording {
				s.events = append(s.events, ev)
			}
			s.mu.Unlock()
			if kind == "feeder.expiry" || kind == "feeder.handoff" {
				ch := s.expiry
				if kind == "feeder.handoff" {
					ch = s.handoff
				}
				select {
				case ch <- ev.Off:
				default:
				}
			}
		})
	})
}

// ------------------------------------------------------------------ interceptors (C18)

// MarkPrefix starts the header keys the counting interceptors append (longer than any generated header key).
const MarkPrefix = "verif-i"

// Interceptor i appends header (MarkPrefix+i, <number of headers so far>) and counts its calls per offset;
// a panicking one panics after counting.
type CountingInterceptor struct {
	Index  int
	Panics bool
	// Kind of panic value when Panics: 0 string, 1 error, 2 runtime.Error from a nil-map write, 3 runtime.Error from an
	// index out of range, 4 runtime.Error from a nil dereference, 5 a value of a custom type
	Kind int
	// Shape of the value registered in Config.Consumer.Interceptors: 0 the pointer itself, 1 a func-typed adapter
	// (unhashable dynamic type), 2 a by-value struct holding a slice (unhashable dynamic type)
	Shape int
	mu    sync.Mutex
	Calls map[int64]int
	Order []int64
}

type customPanic struct{ code int }

// funcInterceptor: a function type implementing sarama.ConsumerInterceptor (cannot be a map key).
type funcInterceptor func(*sarama.ConsumerMessage)

func (f funcInterceptor) OnConsume(m *sarama.ConsumerMessage) { f(m) }

// sliceInterceptor: a struct value holding a slice (cannot be a map key either).
type sliceInterceptor struct {
	inner *CountingInterceptor
	notes []string
}

func (s sliceInterceptor) OnConsume(m *sarama.ConsumerMessage) { s.inner.OnConsume(m) }

var InterceptorShapes = []string{"pointer", "func-adapter", "struct-with-slice"}

// Registered is the value to put into Config.Consumer.Interceptors.
func (c *CountingInterceptor) Registered() sarama.ConsumerInterceptor {
	switch c.Shape {
	case 1:
		return funcInterceptor(c.OnConsume)
	case 2:
		return sliceInterceptor{inner: c, notes: []string{"x"}}
	}
	return c
}

var PanicKinds = []string{"string", "error", "runtime:nil-map-write", "runtime:index-out-of-range", "runtime:nil-dereference", "custom-type"}

func (c *CountingInterceptor) OnConsume(m *sarama.ConsumerMessage) {
	c.mu.Lock()
	if c.Calls == nil {
		c.Calls = map[int64]int{}
	}
	c.Calls[m.Offset]++
	c.Order = append(c.Order, m.Offset)
	c.mu.Unlock()
	if c.Panics {
		switch c.Kind {
		case 1:
			panic(fmt.Errorf("interceptor %d fails", c.Index))
		case 2:
			var notMade map[string]int
			notMade["x"] = 1
		case 3:
			var empty []int
			_ = empty[c.Index+3]
		case 4:
			var nobody *sarama.ConsumerMessage
			_ = nobody.Offset
		case 5:
			panic(customPanic{c.Index})
		}
		panic(fmt.Sprintf("interceptor %d panics", c.Index))
	}
	m.Headers = append(m.Headers, &sarama.RecordHeader{Key: []byte(fmt.Sprintf("%s%d", MarkPrefix, c.Index)), Value: []byte{byte(len(m.Headers))}})
}

func (c *CountingInterceptor) Lock()   { c.mu.Lock() }
func (c *CountingInterceptor) Unlock() { c.mu.Unlock() }

// ------------------------------------------------------------------ end-to-end scenario

type E2EScenario struct {
	Gen           *Generated
	KafkaVersion  sarama.KafkaVersion
	ReadCommitted bool
	FetchDefault  int32
	FetchMax      int32
	ChannelBuffer int
	Req           int64 // offset passed to ConsumePartition (may be OffsetOldest / OffsetNewest)
	Oldest        int64
	Script        []Directive
	// Stall[i] = true: before receiving the i-th message the reader waits until the feeder's slow-reader
	// path has fired for it (hook feeder.expiry), or, on a tree without the hook, for several MaxProcessingTime
	Stall        map[int]bool
	Interceptors []*CountingInterceptor
	Topic        string
	// LeaderLoss: the script makes partition 0 lose its leader with failing re-dispatch attempts (Metadata.Retry.Max = 0
	// so that every attempt is one metadata request)
	LeaderLoss bool
	Extra      int // further partitions of the same topic served by the same broker (same log), consumed concurrently
}

type E2EResult struct {
	StartErr       error
	Started        int64 // offset of the first fetch request (-1 if none)
	HasStarted     bool
	Delivered      []*sarama.ConsumerMessage
	Complete       bool
	Closed         bool // the Messages channel was closed by the consumer itself
	Errs           []error
	Stalled        []int64 // offsets at which the expiry hook fired
	Steered        bool
	ExtraOK        bool
	Fetches        int
	CloseHung      bool
	Requests       []FetchSeen // every FetchRequest the broker decoded
	Events         []Event     // pipeline hook events of this consumer, in order (empty on a tree without the hooks)
	ExtraDelivered map[int32][]*sarama.ConsumerMessage
	SiblingStalled bool      // a further partition on the same broker stopped receiving although nothing happened to it
	Resps          [][]int64 // offsets parseResponse must have produced from each data response served for partition 0
}

// FetchSeen is what the simulated broker read from one FetchRequest.
type FetchSeen struct {
	Version   int16
	Isolation int8
	Blocks    []sarama.VerifConsumerFetchBlock
}

type quiet struct{}

func (quiet) Error(...interface{})          {}
func (quiet) Errorf(string, ...interface{}) {}
func (quiet) Fatal(...interface{})          {}
func (quiet) Fatalf(string, ...interface{}) {}

func fetchVersionOf(v sarama.KafkaVersion) int16 {
	switch {
	case v.IsAtLeast(sarama.V2_3_0_0):
		return 11
	case v.IsAtLeast(sarama.V2_1_0_0):
		return 10
	case v.IsAtLeast(sarama.V1_1_0_0):
		return 7
	case v.IsAtLeast(sarama.V0_11_0_0):
		return 4
	case v.IsAtLeast(sarama.V0_10_1_0):
		return 3
	case v.IsAtLeast(sarama.V0_10_0_0):
		return 2
	case v.IsAtLeast(sarama.V0_9_0_0):
		return 1
	}
	return 0
}

const maxProcessing = 15 * time.Millisecond

// RunE2E consumes the generated log with a real PartitionConsumer against a sarama.MockBroker.
func RunE2E(seed int64, sc E2EScenario) E2EResult {
	installObserver()
	rng := rand.New(rand.NewSource(seed))
	res := E2EResult{Started: -1}
	sub := &hookSub{expiry: make(chan int64, 64), handoff: make(chan int64, 1024), recording: true}
	broker := sarama.NewMockBroker(quiet{}, 1)
	defer broker.Close()
	hookMu.Lock()
	hookSubs[sc.Topic] = sub
	hookSubs[broker.Addr()] = sub
	hookMu.Unlock()
	defer func() { hookMu.Lock(); delete(hookSubs, sc.Topic); delete(hookSubs, broker.Addr()); hookMu.Unlock() }()

	cfgView := sc.Gen.ViewFor(sc.ReadCommitted) // what a consumer with the configured isolation level may see
	l := cfgView.Log
	var requests []FetchSeen
	var mu sync.Mutex
	metaFailLeft := 0
	gateOpen := false
	meta := &sarama.VerifConsumerMetaResponder{F: func(version int16, topics []string) *sarama.MetadataResponse {
		mu.Lock()
		defer mu.Unlock()
		res := &sarama.MetadataResponse{}
		res.AddBroker(broker.Addr(), broker.BrokerID())
		replicas := []int32{broker.BrokerID()}
		for p := int32(0); p <= int32(sc.Extra); p++ {
			if p == 0 && metaFailLeft > 0 {
				metaFailLeft--
				res.AddTopicPartition(sc.Topic, p, -1, replicas, replicas, nil, sarama.ErrLeaderNotAvailable)
				continue
			}
			res.AddTopicPartition(sc.Topic, p, broker.BrokerID(), replicas, replicas, nil, sarama.ErrNoError)
		}
		return res
	}}
	offs := sarama.NewMockOffsetResponse(quiet{})
	if sc.KafkaVersion.IsAtLeast(sarama.V0_10_1_0) {
		offs.SetVersion(1)
	}
	for p := int32(0); p <= int32(sc.Extra); p++ {
		offs.SetOffset(sc.Topic, p, sarama.OffsetOldest, sc.Oldest).SetOffset(sc.Topic, p, sarama.OffsetNewest, sc.Gen.HWM())
	}
	step := 0
	fetches := 0
	// further partitions are held back at the middle of their log until partition 0 is done, so that they still have
	// something to receive after whatever happened to partition 0
	gateOffset := int64(0)
	if len(l) > 0 {
		gateOffset = l[len(l)/2].Lo()
	}
	started := int64(-1)
	var resps [][]int64
	responder := &sarama.VerifConsumerFetchResponder{F: func(info sarama.VerifConsumerFetchInfo) []byte {
		mu.Lock()
		defer mu.Unlock()
		fetches++
		requests = append(requests, FetchSeen{info.Version, int8(info.Isolation), append([]sarama.VerifConsumerFetchBlock(nil), info.Blocks...)})
		// the broker honours the request: read_committed (on the wire from version 4 on) => records up to the last
		// stable offset + the aborted-transaction index; otherwise records up to the high-water mark and no index
		reqRC := info.Version >= 4 && info.Isolation == sarama.ReadCommitted
		view := sc.Gen.ViewFor(reqRC)
		// a consumer that does not get ahead polls as fast as the mock answers, and the mock keeps every
		// request/response pair: slow the polling down once a case has seen more fetches than any healthy run
		if fetches > 400 {
			time.Sleep(5 * time.Millisecond)
		} else if fetches > 60 {
			time.Sleep(time.Millisecond)
		}
		var parts []PartResp
		var throttle int32
		for _, b := range info.Blocks {
			d := Directive{}
			if b.Partition == 0 {
				if started < 0 {
					started = b.Offset
				}
				if step < len(sc.Script) {
					d = sc.Script[step]
					step++
					if d.Fault == 1 && d.MetaFail > 0 {
						metaFailLeft = d.MetaFail
					}
				}
			} else if !gateOpen {
				if b.Offset >= gateOffset {
					d = Directive{Fault: 3}
				} else {
					d = Directive{Whole: 1}
				}
			}
			switch d.Fault {
			case 5:
				return nil
			case 6:
				return []byte{}
			}
			sv := view.Serve(rng, b.Offset, b.MaxBytes, d, reqRC, info.Version)
			for i := range sv.Parts {
				sv.Parts[i].HWM = sc.Gen.HWM()
			}
			if b.Partition == 0 && sv.Kind == 0 {
				var offs []int64
				for _, u := range view.Log[sv.From:sv.To] {
					for _, r := range u.Refs() {
						if r.Offset >= b.Offset && !r.Control && !(reqRC && r.Aborted) {
							offs = append(offs, r.Offset)
						}
					}
				}
				if len(offs) > 0 {
					resps = append(resps, offs)
				}
			}
			if len(sv.Parts) == 0 && len(info.Blocks) == 1 {
				throttle = sv.Throttle
				continue
			}
			for _, p := range sv.Parts {
				p.Topic = sc.Topic
				if p.Partition == Partition {
					p.Partition = b.Partition
				}
				parts = append(parts, p)
			}
		}
		return EncodeResponse(info.Version, throttle, parts)
	}}
	broker.SetHandlerByMap(map[string]sarama.MockResponse{
		"MetadataRequest": meta,
		"OffsetRequest":   offs,
		"FetchRequest":    responder,
	})

	conf := sarama.NewConfig()
	conf.Version = sc.KafkaVersion
	conf.Consumer.Return.Errors = true
	conf.Consumer.Fetch.Default = sc.FetchDefault
	conf.Consumer.Fetch.Max = sc.FetchMax
	conf.Consumer.MaxWaitTime = 5 * time.Millisecond
	conf.Consumer.MaxProcessingTime = maxProcessing
	conf.Consumer.Retry.Backoff = 2 * time.Millisecond
	conf.ChannelBufferSize = sc.ChannelBuffer
	conf.Net.ReadTimeout = 150 * time.Millisecond
	conf.Metadata.Retry.Backoff = 2 * time.Millisecond
	if sc.LeaderLoss {
		conf.Metadata.Retry.Max = 0
	}
	if sc.ReadCommitted {
		conf.Consumer.IsolationLevel = sarama.ReadCommitted
	}
	for _, ic := range sc.Interceptors {
		conf.Consumer.Interceptors = append(conf.Consumer.Interceptors, ic.Registered())
	}
	master, err := sarama.NewConsumer([]string{broker.Addr()}, conf)
	if err != nil {
		res.StartErr = fmt.Errorf("NewConsumer: %v", err)
		return res
	}
	defer master.Close()
	pc, err := master.ConsumePartition(sc.Topic, 0, sc.Req)
	if err != nil {
		res.StartErr = err
		return res
	}
	// further partitions on the same broker worker, read promptly
	var wgx sync.WaitGroup
	extraOK := int32(1)
	var extraGot, extraDone int64 // messages received by / number of finished further partitions
	var extras []sarama.PartitionConsumer
	var xmu sync.Mutex
	res.ExtraDelivered = map[int32][]*sarama.ConsumerMessage{}
	for p := 1; p <= sc.Extra; p++ {
		xp, err := master.ConsumePartition(sc.Topic, int32(p), sarama.OffsetOldest)
		if err != nil {
			atomic.StoreInt32(&extraOK, 0)
			continue
		}
		extras = append(extras, xp)
		go func(xp sarama.PartitionConsumer) {
			for range xp.Errors() {
			}
		}(xp)
		wgx.Add(1)
		go func(xp sarama.PartitionConsumer) {
			defer wgx.Done()
			want := l.Visible(sc.ReadCommitted, sc.Oldest)
			i := 0
			if len(want) == 0 {
				atomic.AddInt64(&extraDone, 1)
				return
			}
			for m := range xp.Messages() {
				if i >= len(want) || !SameAsRef(m, want[i]) {
					atomic.StoreInt32(&extraOK, 0)
				}
				xmu.Lock()
				res.ExtraDelivered[m.Partition] = append(res.ExtraDelivered[m.Partition], m)
				xmu.Unlock()
				i++
				atomic.AddInt64(&extraGot, 1)
				if i == len(want) {
					atomic.AddInt64(&extraDone, 1)
					break
				}
			}
		}(xp)
	}
	var errsMu sync.Mutex
	var errs []error
	errDone := make(chan struct{})
	go func() {
		for e := range pc.Errors() {
			errsMu.Lock()
			errs = append(errs, e.Err)
			errsMu.Unlock()
		}
		close(errDone)
	}()

	// how many messages to expect: resolved start is known only after the first fetch; use the model-free rule
	resolve := func() (int64, bool) {
		mu.Lock()
		defer mu.Unlock()
		return started, started >= 0
	}
	idle := 6 * time.Second
	if atomic.LoadInt32(&stalledRuns) > 4 {
		idle = time.Second // many runs of this process already stalled: the tree is broken, do not wait long for the rest
	}
	want := -1
	i := 0
	lastProgress := time.Now()
	waited := map[int]bool{}
loop:
	for {
		if want < 0 {
			if s, ok := resolve(); ok {
				want = len(l.Visible(sc.ReadCommitted, s))
			}
		}
		if want >= 0 && i >= want {
			break
		}
		if sc.Stall[i] && want >= 0 && !waited[i] {
			waited[i] = true
			// wait for the feeder to give up on message i (its slow-reader path); on a tree without the
			// hook this is a plain pause of many MaxProcessingTime
			select {
			case off := <-sub.expiry:
				res.Stalled = append(res.Stalled, off)
				res.Steered = true
			case <-time.After(25 * maxProcessing):
			}
			lastProgress = time.Now()
		}
		select {
		case m, ok := <-pc.Messages():
			if !ok {
				res.Closed = true
				break loop
			}
			res.Delivered = append(res.Delivered, m)
			i++
			lastProgress = time.Now()
		case <-time.After(10 * time.Millisecond):
			if time.Since(lastProgress) > idle {
				atomic.AddInt32(&stalledRuns, 1)
				break loop
			}
		}
	}
	if want >= 0 && i >= want {
		res.Complete = true
		// anything more would be a duplicate / phantom
		select {
		case m, ok := <-pc.Messages():
			if ok {
				res.Delivered = append(res.Delivered, m)
			}
		case <-time.After(40 * time.Millisecond):
		}
	}
	// expiry events nobody waited for (the reader was slower than MaxProcessingTime by itself)
	for more := true; more; {
		select {
		case off := <-sub.expiry:
			res.Stalled = append(res.Stalled, off)
		default:
			more = false
		}
	}
	// partition 0 is done: let the further partitions have the rest of their log; they must get through it
	mu.Lock()
	gateOpen = true
	mu.Unlock()
	if len(extras) > 0 {
		last, lastAt := atomic.LoadInt64(&extraGot), time.Now()
		for atomic.LoadInt64(&extraDone) < int64(len(extras)) {
			time.Sleep(5 * time.Millisecond)
			if g := atomic.LoadInt64(&extraGot); g != last {
				last, lastAt = g, time.Now()
			} else if time.Since(lastAt) > idle {
				res.SiblingStalled = true
				atomic.AddInt32(&stalledRuns, 1)
				break
			}
		}
	}
	// the pipeline trace ends here: shutdown is not part of it
	sub.mu.Lock()
	sub.recording = false
	res.Events = sub.events
	sub.mu.Unlock()
	// shut down; a consumer whose goroutines died would never close its channels: bounded waits (C12 owns shutdown)
	closeWait := 3 * time.Second
	if atomic.LoadInt32(&stalledRuns) > 4 {
		closeWait = 300 * time.Millisecond // the tree is broken anyway: do not wait long for goroutines that died
	}
	pc.AsyncClose()
	deadline := time.After(closeWait)
drain:
	for {
		select {
		case m, ok := <-pc.Messages():
			if !ok {
				break drain
			}
			if res.Complete {
				res.Delivered = append(res.Delivered, m)
			}
		case <-deadline:
			res.CloseHung = true
			break drain
		}
	}
	select {
	case <-errDone:
	case <-time.After(closeWait):
		res.CloseHung = true
	}
	for _, xp := range extras {
		xp.AsyncClose()
	}
	xdone := make(chan struct{})
	go func() {
		wgx.Wait()
		for _, xp := range extras {
			for range xp.Messages() {
			}
		}
		close(xdone)
	}()
	select {
	case <-xdone:
	case <-time.After(closeWait):
		res.CloseHung = true
	}
	errsMu.Lock()
	res.Errs = append([]error(nil), errs...)
	errsMu.Unlock()
	res.ExtraOK = atomic.LoadInt32(&extraOK) == 1
	res.Started, res.HasStarted = resolve()
	mu.Lock()
	res.Fetches = fetches
	res.Requests = requests
	res.Resps = resps
	mu.Unlock()
	return res
}

// E2ECoq prints the ecase term.
func E2ECoq(sc E2EScenario, res E2EResult) string {
	cfg := cf.App("Build_cfg", cf.Z(int64(sc.FetchDefault)), cf.Z(int64(sc.FetchMax)), cf.Bool(sc.ReadCommitted))
	started := "None"
	if res.StartErr == nil && res.HasStarted {
		started = cf.Some(cf.Z(res.Started))
	} else if res.StartErr != nil && !errors.Is(res.StartErr, sarama.ErrOffsetOutOfRange) {
		started = "(start_failed)" // ill-typed on purpose: an unexpected ConsumePartition error is a broken tie
	}
	view := sc.Gen.ViewFor(sc.ReadCommitted)
	kv := sc.KafkaVersion
	// distinct (version, isolation) pairs of the requests the broker decoded
	var reqs []string
	seen := map[[2]int64]bool{}
	for _, r := range res.Requests {
		k := [2]int64{int64(r.Version), int64(r.Isolation)}
		if !seen[k] {
			seen[k] = true
			reqs = append(reqs, fmt.Sprintf("(%s, %s)", cf.Z(k[0]), cf.Z(k[1])))
		}
	}
	return cf.App("Build_ecase", cfg, view.Log.Coq(), cf.Z(sc.Req), cf.Z(sc.Oldest), cf.Z(sc.Gen.HWM()), started,
		cf.Bool(res.Complete), CoqMsgs(stripInterceptorHeaders(res.Delivered, len(sc.Interceptors) > 0)),
		kvTuple(kv), cf.List(reqs))
}

// kvTuple prints a KafkaVersion as the model's four numbers.
func kvTuple(kv sarama.KafkaVersion) string {
	var n [4]int
	parts := strings.Split(kv.String(), ".")
	for i := 0; i < len(parts) && i < 4; i++ {
		fmt.Sscanf(parts[i], "%d", &n[i])
	}
	return fmt.Sprintf("(%d, %d, %d, %d)", n[0], n[1], n[2], n[3])
}

// with interceptors configured the delivered headers carry the interceptors' marks; the C03 comparison is on
// the record as stored, so the marks are removed for it (C18 looks at them separately)
func stripInterceptorHeaders(ms []*sarama.ConsumerMessage, strip bool) []*sarama.ConsumerMessage {
	if !strip {
		return ms
	}
	out := make([]*sarama.ConsumerMessage, len(ms))
	for i, m := range ms {
		c := *m
		c.Headers = nil
		for _, h := range m.Headers {
			if strings.HasPrefix(string(h.Key), MarkPrefix) {
				continue
			}
			c.Headers = append(c.Headers, h)
		}
		out[i] = &c
	}
	return out
}

func StripMarks(ms []*sarama.ConsumerMessage) []*sarama.ConsumerMessage {
	return stripInterceptorHeaders(ms, true)
}
