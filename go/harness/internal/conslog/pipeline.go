package conslog

import (
	"fmt"
	"strings"
	"sync/atomic"

	"github.com/Shopify/sarama"

	cf "verifharness/internal/coqfmt"
)

// PipelineCase turns the hook events of one end-to-end run into a Coq tcase (SV.Consumer.PipelineCorr): the steps
// of the worker, the dispatchers and the feeders in the order they happened, each with what the code observed.
// ok = false: the tree has no pipeline hooks, or the run cannot be replayed (start failed).
func PipelineCase(sc E2EScenario, res E2EResult) (term string, nsteps int, ok bool) {
	if atomic.LoadInt32(&PipelineHooksSeen) == 0 || len(res.Events) == 0 || res.StartErr != nil || !res.Complete {
		return "", 0, false
	}
	nparts := sc.Extra + 1
	type parsed struct {
		n   int
		off int64
		fs  int32
	}
	last := map[int32]parsed{}
	taken := map[int32]int64{} // child.offset after the last step that was emitted
	handoffs := map[int32]int{}
	start := map[int32]int64{}
	var adds []int64
	var ops []string
	handleIdx := -1
	var verdicts []string
	flushHandle := func() {
		if handleIdx >= 0 {
			ops[handleIdx] = cf.App("VHandle", cf.List(verdicts))
			handleIdx, verdicts = -1, nil
		}
	}
	class := func(err error) int64 {
		switch {
		case err == nil:
			return 0
		case strings.Contains(err.Error(), "timed out feeding messages"):
			return 1
		case err == sarama.ErrOffsetOutOfRange:
			return 2
		}
		return 3
	}
	for _, ev := range res.Events {
		switch ev.Kind {
		case "pc.start":
			start[ev.P] = ev.Off
			ops = append(ops, cf.App("VStart", cf.Z(int64(ev.P))))
		case "pc.dispatched":
			ops = append(ops, cf.App("VDispatch", cf.Z(int64(ev.P)), "true"))
		case "pc.dispatch.failed":
			ops = append(ops, cf.App("VDispatch", cf.Z(int64(ev.P)), "false"))
		case "bc.subscribe":
			adds = append(adds, int64(ev.P))
		case "bc.fetched":
			flushHandle()
			var rs []string
			for p := 0; p < nparts; p++ {
				rs = append(rs, fmt.Sprintf("(%s, %s)", cf.Z(int64(p)), CoqResponse(ev.Resp, sc.Topic, int32(p))))
			}
			ops = append(ops, cf.App("VRound", cf.ZList(adds), cf.Some(cf.List(rs))))
			adds = nil
		case "bc.abort":
			flushHandle()
			ops = append(ops, cf.App("VRound", cf.ZList(adds), "None"))
			adds = nil
		case "bc.handle":
			flushHandle()
			handleIdx = len(ops)
			ops = append(ops, "")
		case "bc.verdict":
			verdicts = append(verdicts, fmt.Sprintf("(%s, %s)", cf.Z(int64(ev.P)), cf.Z(class(ev.Err))))
		case "feeder.parsed":
			last[ev.P] = parsed{ev.N, ev.Off, ev.FS}
			handoffs[ev.P] = 0
		case "feeder.handoff":
			handoffs[ev.P]++
		case "feeder.done":
			l := last[ev.P]
			taken[ev.P] = l.off
			ops = append(ops, cf.App("VTake", cf.Z(int64(ev.P)), "None", cf.Nat(l.n), cf.Z(l.off), cf.Z(int64(l.fs))))
		case "feeder.expiry":
			l := last[ev.P]
			taken[ev.P] = l.off
			ops = append(ops, cf.App("VTake", cf.Z(int64(ev.P)), cf.Some(cf.Nat(handoffs[ev.P])), cf.Nat(l.n), cf.Z(l.off), cf.Z(int64(l.fs))))
		case "feeder.resubscribe":
			ops = append(ops, cf.App("VDrain", cf.Z(int64(ev.P))))
		}
	}
	if handleIdx >= 0 && handleIdx == len(ops)-1 {
		// the log was cut between bc.handle and its verdict events: the last step's observation is incomplete
		ops = ops[:handleIdx]
	} else {
		flushHandle()
	}
	var pst0, final []string
	for p := int32(0); p < int32(nparts); p++ {
		st, started := start[p]
		if !started {
			continue
		}
		pst0 = append(pst0, fmt.Sprintf("(%s, %s)", cf.Z(int64(p)), cf.App("Build_pstate", cf.Z(st), cf.Z(int64(sc.FetchDefault)), "0", "0")))
		msgs := res.ExtraDelivered[p]
		if p == 0 {
			msgs = StripMarks(res.Delivered)
		}
		off := st
		if o, ok := taken[p]; ok {
			off = o
		}
		final = append(final, fmt.Sprintf("(%s, %s, %s)", cf.Z(int64(p)), CoqMsgs(msgs), cf.Z(off)))
	}
	cfg := cf.App("Build_cfg", cf.Z(int64(sc.FetchDefault)), cf.Z(int64(sc.FetchMax)), cf.Bool(sc.ReadCommitted))
	return cf.App("Build_tcase", cfg, cf.List(pst0), cf.List(ops), cf.List(final)), len(ops), true
}
