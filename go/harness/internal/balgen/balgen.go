// Package balgen: input generators, runners and direct property oracles for the balance strategies
// (C08 validity, C13 balance/stickiness), shared by cmd/c08corr and cmd/c13corr.
package balgen

import (
	"fmt"
	"math/rand"
	"sort"
	"strings"
	"time"

	"github.com/Shopify/sarama"

	cf "verifharness/internal/coqfmt"
)

// ---------------------------------------------------------------- inputs

type TP struct {
	T string `json:"t"`
	P int32  `json:"p"`
}

type UD struct {
	Err    bool `json:"err,omitempty"`
	Parts  []TP `json:"parts"`
	HasGen bool `json:"has_gen"`
	Gen    int  `json:"gen"`
}

type Member struct {
	ID     string   `json:"id"`
	Topics []string `json:"topics"`
	Data   []byte   `json:"-"`
	UD     *UD      `json:"ud,omitempty"` // decoded Data (sticky only)
}

type Topic struct {
	Name  string  `json:"name"`
	Parts []int32 `json:"parts"`
}

type Input struct {
	Members []Member `json:"members"` // sorted by id
	Topics  []Topic  `json:"topics"`  // sorted by name
}

func (in *Input) MemberMap() map[string]sarama.ConsumerGroupMemberMetadata {
	m := make(map[string]sarama.ConsumerGroupMemberMetadata, len(in.Members))
	for _, x := range in.Members {
		m[x.ID] = sarama.ConsumerGroupMemberMetadata{Topics: append([]string(nil), x.Topics...), UserData: x.Data}
	}
	return m
}

func (in *Input) TopicMap() map[string][]int32 {
	m := make(map[string][]int32, len(in.Topics))
	for _, t := range in.Topics {
		m[t.Name] = append([]int32(nil), t.Parts...)
	}
	return m
}

func (in *Input) Normalize() {
	sort.Slice(in.Members, func(i, j int) bool { return in.Members[i].ID < in.Members[j].ID })
	sort.Slice(in.Topics, func(i, j int) bool { return in.Topics[i].Name < in.Topics[j].Name })
}

func (in *Input) Nontrivial() bool {
	n := 0
	for _, t := range in.Topics {
		n += len(t.Parts)
	}
	return len(in.Members) >= 2 || n >= 2
}

func (in *Input) Subscribes(m, t string) bool {
	for _, x := range in.Members {
		if x.ID == m {
			for _, y := range x.Topics {
				if y == t {
					return true
				}
			}
		}
	}
	return false
}

func (in *Input) AnySubscriber(t string) bool {
	for _, x := range in.Members {
		for _, y := range x.Topics {
			if y == t {
				return true
			}
		}
	}
	return false
}

// ---------------------------------------------------------------- plans

type PlanEntry struct {
	Member string           `json:"member"`
	Topics []PlanTopicEntry `json:"topics"`
}
type PlanTopicEntry struct {
	Topic string  `json:"topic"`
	Parts []int32 `json:"parts"`
}

// Canon lists a plan sorted by member and topic; partition lists keep their order.
func Canon(p sarama.BalanceStrategyPlan) []PlanEntry {
	var out []PlanEntry
	for m, tm := range p {
		e := PlanEntry{Member: m}
		for t, ps := range tm {
			e.Topics = append(e.Topics, PlanTopicEntry{t, append([]int32(nil), ps...)})
		}
		sort.Slice(e.Topics, func(i, j int) bool { return e.Topics[i].Topic < e.Topics[j].Topic })
		out = append(out, e)
	}
	sort.Slice(out, func(i, j int) bool { return out[i].Member < out[j].Member })
	return out
}

// Validity is the C08 statement evaluated directly on a plan. Returns "" or a failure kind.
func Validity(in *Input, plan []PlanEntry) (kind, what string) {
	known := map[string]bool{}
	for _, m := range in.Members {
		known[m.ID] = true
	}
	parts := map[TP]bool{}
	for _, t := range in.Topics {
		for _, p := range t.Parts {
			parts[TP{t.Name, p}] = true
		}
	}
	seen := map[TP]string{}
	for _, e := range plan {
		if !known[e.Member] {
			return "unknown-member", fmt.Sprintf("plan has member %q which is not in the group", e.Member)
		}
		for _, te := range e.Topics {
			for _, p := range te.Parts {
				k := TP{te.Topic, p}
				if !parts[k] {
					return "unknown-partition", fmt.Sprintf("%s got %s/%d which does not exist", e.Member, te.Topic, p)
				}
				if !in.Subscribes(e.Member, te.Topic) {
					return "assigned-to-non-subscriber", fmt.Sprintf("%s got %s/%d but does not subscribe to %s", e.Member, te.Topic, p, te.Topic)
				}
				if o, dup := seen[k]; dup {
					return "assigned-twice", fmt.Sprintf("%s/%d assigned to %s and %s", te.Topic, p, o, e.Member)
				}
				seen[k] = e.Member
			}
		}
	}
	for _, t := range in.Topics {
		if !in.AnySubscriber(t.Name) {
			continue
		}
		for _, p := range t.Parts {
			if _, ok := seen[TP{t.Name, p}]; !ok {
				return "partition-unassigned", fmt.Sprintf("%s/%d has a subscriber but is assigned to nobody", t.Name, p)
			}
		}
	}
	return "", ""
}

// ---------------------------------------------------------------- Coq printing

func Str(s string) string {
	for _, c := range s {
		if c < 32 || c > 126 || c == '"' {
			panic("balgen: non-printable id " + s)
		}
	}
	return `(str_of "` + s + `")`
}
func StrList(l []string) string {
	x := make([]string, len(l))
	for i, s := range l {
		x[i] = Str(s)
	}
	return cf.List(x)
}
func TPStr(t TP) string { return "(" + Str(t.T) + ", " + cf.Z(int64(t.P)) + ")" }
func TPList(l []TP) string {
	x := make([]string, len(l))
	for i, s := range l {
		x[i] = TPStr(s)
	}
	return cf.List(x)
}
func I32List(l []int32) string {
	x := make([]int64, len(l))
	for i, v := range l {
		x[i] = int64(v)
	}
	return cf.ZList(x)
}
func MemberStr(m Member) string {
	ud := "(UD [] (Some 0))"
	if m.UD != nil {
		if m.UD.Err {
			ud = "UDErr"
		} else {
			g := "None"
			if m.UD.HasGen {
				g = cf.Some(cf.Z(int64(m.UD.Gen)))
			}
			ud = "(UD " + TPList(m.UD.Parts) + " " + g + ")"
		}
	}
	return cf.App("Build_member", Str(m.ID), StrList(m.Topics), ud)
}
func MembersStr(ms []Member) string {
	x := make([]string, len(ms))
	for i, m := range ms {
		x[i] = MemberStr(m)
	}
	return cf.List(x)
}
func TopicsStr(ts []Topic) string {
	x := make([]string, len(ts))
	for i, t := range ts {
		x[i] = "(" + Str(t.Name) + ", " + I32List(t.Parts) + ")"
	}
	return cf.List(x)
}
func PlanStr(p []PlanEntry) string {
	x := make([]string, len(p))
	for i, e := range p {
		y := make([]string, len(e.Topics))
		for j, t := range e.Topics {
			y[j] = "(" + Str(t.Topic) + ", " + I32List(t.Parts) + ")"
		}
		x[i] = "(" + Str(e.Member) + ", " + cf.List(y) + ")"
	}
	return cf.List(x)
}

// ---------------------------------------------------------------- generators

var topicNames = []string{"t0", "t1", "alpha", "t-1", "b", "t10", "t2", "zeta", "t", "a-b", "orders", "t3", "m", "x.y", "t_9", "q7", "t11", "logs", "ab", "k"}

func MemberName(r *rand.Rand, i int) string {
	switch r.Intn(3) {
	case 0:
		return fmt.Sprintf("m%d", i)
	case 1:
		return fmt.Sprintf("consumer-%d-%04x", i, r.Intn(65536))
	}
	return fmt.Sprintf("%c%d", 'a'+rune(r.Intn(26)), i)
}

func Seq(n int) []int32 {
	l := make([]int32, n)
	for i := range l {
		l[i] = int32(i)
	}
	return l
}

// SmallScope enumerates members<=3 x topics<=2 x partitions<=4 x all subscription subsets (non-empty member set).
func SmallScope(maxM, maxT, maxP int) []Input {
	var out []Input
	for nt := 1; nt <= maxT; nt++ {
		// partition counts per topic
		var counts [][]int
		var rec func(cur []int)
		rec = func(cur []int) {
			if len(cur) == nt {
				counts = append(counts, append([]int(nil), cur...))
				return
			}
			for p := 0; p <= maxP; p++ {
				rec(append(cur, p))
			}
		}
		rec(nil)
		for nm := 1; nm <= maxM; nm++ {
			nsub := 1 << uint(nt)
			total := 1
			for i := 0; i < nm; i++ {
				total *= nsub
			}
			for code := 0; code < total; code++ {
				c := code
				subs := make([]int, nm)
				for i := range subs {
					subs[i] = c % nsub
					c /= nsub
				}
				for _, cnt := range counts {
					in := Input{}
					for t := 0; t < nt; t++ {
						in.Topics = append(in.Topics, Topic{topicNames[t], Seq(cnt[t])})
					}
					for i := 0; i < nm; i++ {
						m := Member{ID: fmt.Sprintf("m%d", i)}
						for t := 0; t < nt; t++ {
							if subs[i]&(1<<uint(t)) != 0 {
								m.Topics = append(m.Topics, topicNames[t])
							}
						}
						in.Members = append(in.Members, m)
					}
					in.Normalize()
					out = append(out, in)
				}
			}
		}
	}
	return out
}

// Random builds a random group: nm members, nt topics, about np partitions in total.
// If coverAll, every topic of the map has at least one subscriber (what consumerGroup.balance passes).
func Random(r *rand.Rand, nm, nt, np int, coverAll bool) Input {
	in := Input{}
	perm := r.Perm(len(topicNames))
	for t := 0; t < nt; t++ {
		n := 0
		if np > 0 {
			n = r.Intn(2*np/nt + 1)
		}
		in.Topics = append(in.Topics, Topic{topicNames[perm[t]], Seq(n)})
	}
	mode := r.Intn(3) // 0 identical, 1 overlapping, 2 sparse
	seen := map[string]bool{}
	for i := 0; i < nm; i++ {
		m := Member{ID: MemberName(r, i)}
		for seen[m.ID] {
			m.ID += "x"
		}
		seen[m.ID] = true
		for t := 0; t < nt; t++ {
			take := false
			switch mode {
			case 0:
				take = true
			case 1:
				take = r.Intn(3) != 0
			case 2:
				take = r.Intn(4) == 0
			}
			if take {
				m.Topics = append(m.Topics, in.Topics[t].Name)
			}
		}
		r.Shuffle(len(m.Topics), func(a, b int) { m.Topics[a], m.Topics[b] = m.Topics[b], m.Topics[a] })
		in.Members = append(in.Members, m)
	}
	if coverAll {
		for _, t := range in.Topics {
			if !in.AnySubscriber(t.Name) {
				k := r.Intn(len(in.Members))
				in.Members[k].Topics = append(in.Members[k].Topics, t.Name)
			}
		}
	} else if r.Intn(3) == 0 && nm > 0 {
		// a subscription to a topic the map does not have
		k := r.Intn(len(in.Members))
		in.Members[k].Topics = append(in.Members[k].Topics, "ghost")
	}
	in.Normalize()
	return in
}

// ---------------------------------------------------------------- sticky runs

// HangTimeout is how long a sticky Plan call may take before it is reported as not terminating.
var HangTimeout = 5 * time.Second

type Oracle struct {
	PrepopMembers  []string `json:"prepop_members"`
	PrepopParts    []TP     `json:"prepop_parts"`
	PlanCurrent    []string `json:"plan_current"`
	PlanUnvisited  []TP     `json:"plan_unvisited"`
	IdentParts     []TP     `json:"ident_parts"`
	IdentMembers   []string `json:"ident_members"`
	SortUnassigned []TP     `json:"sort_unassigned"`
	Picks          []TP     `json:"picks"`
}

func (o *Oracle) Coq() string {
	return cf.App("Build_oracle", StrList(o.PrepopMembers), TPList(o.PrepopParts), StrList(o.PlanCurrent), TPList(o.PlanUnvisited),
		TPList(o.IdentParts), StrList(o.IdentMembers), TPList(o.SortUnassigned), TPList(o.Picks))
}

type StickyRun struct {
	In       Input                      `json:"in"`
	Oracle   Oracle                     `json:"oracle"`
	Hooked   bool                       `json:"hooked"`
	Err      bool                       `json:"err"`
	Panic    string                     `json:"panic,omitempty"`
	Hang     bool                       `json:"hang,omitempty"`
	NPicks   int                        `json:"npicks,omitempty"` // reverse-pair redirections reported (all of them, also when the oracle list is cut)
	Plan     []PlanEntry                `json:"plan"`
	RawPlan  sarama.BalanceStrategyPlan `json:"-"`
	Reverted bool                       `json:"reverted,omitempty"` // the revert branch of balance() ran
	Other    map[string]int             `json:"other,omitempty"`
	Score    []int                      `json:"score,omitempty"`
}

func tps(l []sarama.VerifTP) []TP {
	out := make([]TP, len(l))
	for i, x := range l {
		out[i] = TP{x.Topic, x.Partition}
	}
	return out
}

// DecodeUD fills Member.UD from Member.Data with the real decoder.
func DecodeUD(m *Member) {
	parts, hasGen, gen, err := sarama.VerifStickyDecode(m.Data)
	if err != nil {
		m.UD = &UD{Err: true}
		return
	}
	m.UD = &UD{Parts: tps(parts), HasGen: hasGen, Gen: gen}
}

// RunSticky runs the real sticky Plan (on a fresh strategy value) on the input and reconstructs the order oracle from the
// call-site reports.
func RunSticky(in Input) StickyRun { return RunStickyOn(nil, in) }

// RunStickyOn is RunSticky on a given strategy value, reused across the rebalances of a chain as real groups do.
func RunStickyOn(inst *sarama.VerifSticky, in Input) StickyRun {
	for i := range in.Members {
		DecodeUD(&in.Members[i])
	}
	run := StickyRun{In: in}
	tr := &sarama.VerifStickyTrace{}
	type res struct {
		plan     sarama.BalanceStrategyPlan
		err      error
		panicked string
	}
	done := make(chan res, 1)
	mm, tm := in.MemberMap(), in.TopicMap()
	go func() {
		p, e, pn := sarama.VerifStickyPlanOn(inst, tr, mm, tm)
		done <- res{p, e, pn}
	}()
	var plan sarama.BalanceStrategyPlan
	var err error
	var panicked string
	select {
	case x := <-done:
		plan, err, panicked = x.plan, x.err, x.panicked
	case <-time.After(HangTimeout):
		// Plan does not return: the goroutine is abandoned (it keeps reporting to the global observer, so the caller
		// must not start another sticky run in this process)
		run.Hang = true
	}
	tr.Mu.Lock()
	defer tr.Mu.Unlock()
	run.Hooked = tr.Events > 0
	run.Other = tr.Other
	run.Reverted = tr.Reverted
	run.Score = tr.Score
	run.Err = err != nil
	run.Panic = panicked
	if plan != nil {
		run.Plan = Canon(plan)
		run.RawPlan = plan
	}
	o := &run.Oracle
	o.PrepopMembers = tr.PrepopMembers
	o.PrepopParts = tps(tr.PrepopParts)
	o.PlanCurrent = tr.PlanCurrent
	o.PlanUnvisited = tps(tr.PlanUnvisited)
	o.SortUnassigned = tps(tr.SortUnassigned)
	o.Picks = tps(tr.Picks)
	run.NPicks = len(o.Picks)
	if run.Hang && len(o.Picks) > 200 {
		o.Picks = o.Picks[:200] // the abandoned call keeps picking; the model falls back to its canonical choice afterwards
	}
	// areSubscriptionsIdentical reports map values; find keys carrying those values, in order
	topics := in.TopicMap()
	type kv struct {
		key  TP
		val  string
		used bool
	}
	var p2c []*kv
	for _, t := range in.Topics {
		for _, p := range t.Parts {
			var ms []string
			for _, m := range in.Members {
				for _, s := range m.Topics {
					if s == t.Name {
						ms = append(ms, m.ID)
					}
				}
			}
			sort.Strings(ms)
			p2c = append(p2c, &kv{key: TP{t.Name, p}, val: strings.Join(ms, "\x00")})
		}
	}
	for _, v := range tr.IdentParts {
		vv := append([]string(nil), v...)
		sort.Strings(vv)
		s := strings.Join(vv, "\x00")
		for _, e := range p2c {
			if !e.used && e.val == s {
				e.used = true
				o.IdentParts = append(o.IdentParts, e.key)
				break
			}
		}
	}
	type mv struct {
		id   string
		val  string
		used bool
	}
	var c2p []*mv
	for _, m := range in.Members {
		var sb strings.Builder
		for _, s := range m.Topics {
			if ps, ok := topics[s]; ok {
				for _, p := range ps {
					fmt.Fprintf(&sb, "%s/%d\x00", s, p)
				}
			}
		}
		c2p = append(c2p, &mv{id: m.ID, val: sb.String()})
	}
	for _, v := range tr.IdentMembers {
		var sb strings.Builder
		for _, p := range v {
			fmt.Fprintf(&sb, "%s/%d\x00", p.Topic, p.Partition)
		}
		s := sb.String()
		for _, e := range c2p {
			if !e.used && e.val == s {
				e.used = true
				o.IdentMembers = append(o.IdentMembers, e.id)
				break
			}
		}
	}
	return run
}

// CoqCase prints the run as an SV.C08.Corr.scase.
func (r *StickyRun) CoqCase(fx bool) string {
	obs := "OErr"
	switch {
	case r.Hang:
		obs = "OHang"
	case r.Panic != "":
		obs = "OPanic"
	case !r.Err:
		obs = "(OPlan " + PlanStr(r.Plan) + ")"
	}
	return cf.App("Build_scase", cf.Bool(fx), cf.Bool(r.Hooked), MembersStr(r.In.Members), TopicsStr(r.In.Topics), r.Oracle.Coq(), obs, revStr(r))
}

// ---------------------------------------------------------------- sticky chains

type World struct {
	R       *rand.Rand
	Topics  map[string][]int32
	Members map[string]*Member
	Gen     int32
	next    int
	Kind    string // honest | stale | forged
	Log     []string
}

func NewWorld(r *rand.Rand, kind string, nm, nt, maxp int) *World {
	w := &World{R: r, Topics: map[string][]int32{}, Members: map[string]*Member{}, Kind: kind}
	perm := r.Perm(len(topicNames))
	for t := 0; t < nt; t++ {
		w.Topics[topicNames[perm[t]]] = Seq(r.Intn(maxp + 1))
	}
	ident := r.Intn(2) == 0
	for i := 0; i < nm; i++ {
		w.join(ident)
	}
	return w
}

func (w *World) topicList() []string {
	var l []string
	for t := range w.Topics {
		l = append(l, t)
	}
	sort.Strings(l)
	return l
}
func (w *World) memberList() []string {
	var l []string
	for m := range w.Members {
		l = append(l, m)
	}
	sort.Strings(l)
	return l
}

func (w *World) randomSubs(all bool) []string {
	var s []string
	for _, t := range w.topicList() {
		if all || w.R.Intn(3) != 0 {
			s = append(s, t)
		}
	}
	w.R.Shuffle(len(s), func(a, b int) { s[a], s[b] = s[b], s[a] })
	return s
}

func (w *World) join(ident bool) {
	id := MemberName(w.R, w.next)
	w.next++
	for w.Members[id] != nil {
		id += "x"
	}
	w.Members[id] = &Member{ID: id, Topics: w.randomSubs(ident)}
	w.Log = append(w.Log, "join "+id)
}

// Mutate applies one group/cluster change.
func (w *World) Mutate() {
	r := w.R
	ms := w.memberList()
	ts := w.topicList()
	switch k := r.Intn(8); {
	case k == 0 || len(ms) == 0:
		w.join(r.Intn(2) == 0)
	case k == 1 && len(ms) > 1:
		id := ms[r.Intn(len(ms))]
		delete(w.Members, id)
		w.Log = append(w.Log, "leave "+id)
	case k == 2:
		id := ms[r.Intn(len(ms))]
		w.Members[id].Topics = w.randomSubs(false)
		w.Log = append(w.Log, "resubscribe "+id)
	case k == 3 && len(ts) > 0:
		t := ts[r.Intn(len(ts))]
		n := len(w.Topics[t])
		w.Topics[t] = Seq(n + 1 + r.Intn(3))
		w.Log = append(w.Log, "grow "+t)
	case k == 4 && len(ts) > 0:
		t := ts[r.Intn(len(ts))]
		if n := len(w.Topics[t]); n > 0 {
			if r.Intn(2) == 0 {
				w.Topics[t] = Seq(r.Intn(n))
			} else { // drop one id in the middle
				i := r.Intn(n)
				w.Topics[t] = append(append([]int32(nil), w.Topics[t][:i]...), w.Topics[t][i+1:]...)
			}
		}
		w.Log = append(w.Log, "shrink "+t)
	case k == 5 && len(ts) > 1:
		t := ts[r.Intn(len(ts))]
		delete(w.Topics, t)
		w.Log = append(w.Log, "delete-topic "+t)
	case k == 6:
		for _, n := range topicNames {
			if _, ok := w.Topics[n]; !ok {
				w.Topics[n] = Seq(1 + r.Intn(4))
				w.Log = append(w.Log, "create-topic "+n)
				break
			}
		}
	default:
		w.Log = append(w.Log, "no-change")
	}
}

// Input is what the group leader would pass to Plan: the union of subscriptions, with the partitions the cluster has.
// Subscriptions to topics the cluster lacks are dropped from the map (consumerGroup.balance would fail on them);
// extra adds topics nobody subscribes to.
func (w *World) Input(extra bool) Input {
	in := Input{}
	for _, id := range w.memberList() {
		m := w.Members[id]
		in.Members = append(in.Members, Member{ID: id, Topics: append([]string(nil), m.Topics...), Data: m.Data})
	}
	for _, t := range w.topicList() {
		if extra || in.AnySubscriber(t) {
			in.Topics = append(in.Topics, Topic{t, append([]int32(nil), w.Topics[t]...)})
		}
	}
	in.Normalize()
	return in
}

// Feedback stores the plan as the members' next user data (real StickyAssignorUserDataV1 encoding), with the
// chain kind's deviations.
func (w *World) Feedback(plan sarama.BalanceStrategyPlan) {
	r := w.R
	w.Gen++
	ids := w.memberList()
	fresh := map[string][]byte{}
	for _, id := range ids {
		b, err := sarama.BalanceStrategySticky.AssignmentData(id, plan[id], w.Gen)
		if err != nil {
			panic(err)
		}
		fresh[id] = b
	}
	for _, id := range ids {
		m := w.Members[id]
		switch w.Kind {
		case "honest":
			m.Data = fresh[id]
		case "stale":
			if m.Data == nil || r.Intn(4) != 0 {
				m.Data = fresh[id]
			}
		default: // forged
			switch r.Intn(10) {
			case 0: // keeps old data
			case 1: // claims somebody else's assignment, same generation
				m.Data = fresh[ids[r.Intn(len(ids))]]
			case 2: // arbitrary generation
				b, _ := sarama.BalanceStrategySticky.AssignmentData(id, plan[id], int32(r.Intn(int(w.Gen)+3))-1)
				m.Data = b
			case 3: // unknown topic / partitions, old generation
				t := map[string][]int32{"ghost": {0, 1}}
				for k, v := range plan[id] {
					t[k] = append(append([]int32(nil), v...), 99)
				}
				b, _ := sarama.BalanceStrategySticky.AssignmentData(id, t, w.Gen-int32(r.Intn(2)))
				m.Data = b
			case 4: // generation-less V0 layout
				b, _ := sarama.VerifStickyEncodeV0(plan[id])
				m.Data = b
			case 5: // no data
				m.Data = nil
			case 6: // claims everything of one topic
				ts := w.topicList()
				t := ts[r.Intn(len(ts))]
				b, _ := sarama.BalanceStrategySticky.AssignmentData(id, map[string][]int32{t: w.Topics[t]}, w.Gen-int32(r.Intn(3)))
				m.Data = b
			default:
				m.Data = fresh[id]
			}
		}
	}
}

// Adversarial builds a group whose user data forges an arbitrary, skewed current assignment (generation 5) and arbitrary
// previous owners (generations 1..4): the state performReassignments starts from is then nearly unconstrained.
func Adversarial(r *rand.Rand, maxM, maxT, maxP int) Input {
	in := Input{}
	nt := 1 + r.Intn(maxT)
	perm := r.Perm(len(topicNames))
	for t := 0; t < nt; t++ {
		in.Topics = append(in.Topics, Topic{topicNames[perm[t]], Seq(1 + r.Intn(maxP))})
	}
	nm := 2 + r.Intn(maxM-1)
	ident := r.Intn(2) == 0
	cur := make([]map[string][]int32, nm)
	old := make([]map[string][]int32, nm)
	for i := 0; i < nm; i++ {
		m := Member{ID: fmt.Sprintf("m%d", i)}
		for t := 0; t < nt; t++ {
			if ident || r.Intn(3) != 0 {
				m.Topics = append(m.Topics, in.Topics[t].Name)
			}
		}
		in.Members = append(in.Members, m)
		cur[i] = map[string][]int32{}
		old[i] = map[string][]int32{}
	}
	heavy := r.Intn(nm)
	for _, t := range in.Topics {
		for _, p := range t.Parts {
			// current owner: skewed towards one member; sometimes nobody
			o := r.Intn(nm)
			if r.Intn(2) == 0 {
				o = heavy
			}
			if r.Intn(8) != 0 {
				cur[o][t.Name] = append(cur[o][t.Name], p)
			}
			if r.Intn(2) == 0 {
				q := r.Intn(nm)
				old[q][t.Name] = append(old[q][t.Name], p)
			}
		}
	}
	if r.Intn(2) == 0 {
		// nobody starts empty (then balance() is not "initializing" and may take its revert branch): move one
		// partition of a subscribed topic from the heavy member to each empty one
		for i := 0; i < nm; i++ {
			if len(cur[i]) > 0 || len(in.Members[i].Topics) == 0 {
				continue
			}
			t := in.Members[i].Topics[r.Intn(len(in.Members[i].Topics))]
			for o := 0; o < nm; o++ {
				if l := cur[o][t]; o != i && len(l) > 1 {
					cur[i][t] = []int32{l[len(l)-1]}
					cur[o][t] = l[:len(l)-1]
					break
				}
			}
		}
	}
	for i := range in.Members {
		// a member reports either its current claim (generation 5) or its old one (generation 1..4)
		var b []byte
		if len(cur[i]) > 0 || len(old[i]) == 0 {
			b, _ = sarama.BalanceStrategySticky.AssignmentData("", cur[i], 5)
			// fold the old claims of this member into another member's report when possible
		} else {
			b, _ = sarama.BalanceStrategySticky.AssignmentData("", old[i], int32(1+r.Intn(4)))
		}
		in.Members[i].Data = b
	}
	// extra members that only carry old claims (they may subscribe to anything)
	for i := 0; i < nm; i++ {
		if len(cur[i]) > 0 && len(old[i]) > 0 && r.Intn(2) == 0 {
			m := Member{ID: fmt.Sprintf("old%d", i)}
			for t := 0; t < nt; t++ {
				if ident || r.Intn(2) == 0 {
					m.Topics = append(m.Topics, in.Topics[t].Name)
				}
			}
			b, _ := sarama.BalanceStrategySticky.AssignmentData("", old[i], int32(1+r.Intn(4)))
			m.Data = b
			in.Members = append(in.Members, m)
		}
	}
	in.Normalize()
	return in
}

// EncodeUD rebuilds Member.Data from the decoded form Member.UD (V1 layout when a generation is present, else V0).
func EncodeUD(in *Input) {
	for i := range in.Members {
		m := &in.Members[i]
		if m.UD == nil || m.UD.Err {
			continue
		}
		t := map[string][]int32{}
		for _, p := range m.UD.Parts {
			t[p.T] = append(t[p.T], p.P)
		}
		if len(m.UD.Parts) == 0 && m.UD.HasGen && m.UD.Gen == 0 {
			m.Data = nil
			continue
		}
		if m.UD.HasGen {
			m.Data, _ = sarama.BalanceStrategySticky.AssignmentData(m.ID, t, int32(m.UD.Gen))
		} else {
			m.Data, _ = sarama.VerifStickyEncodeV0(t)
		}
	}
}

// ---------------------------------------------------------------- C13 oracles

// Totals: number of partitions per member (members without entry count 0).
func Totals(in *Input, plan []PlanEntry) map[string]int {
	t := map[string]int{}
	for _, m := range in.Members {
		t[m.ID] = 0
	}
	for _, e := range plan {
		for _, te := range e.Topics {
			t[e.Member] += len(te.Parts)
		}
	}
	return t
}

// Owners: partition -> member.
func Owners(plan []PlanEntry) map[TP]string {
	o := map[TP]string{}
	for _, e := range plan {
		for _, te := range e.Topics {
			for _, p := range te.Parts {
				o[TP{te.Topic, p}] = e.Member
			}
		}
	}
	return o
}

// KafkaBalanced: no member holds two or more partitions more than another member while holding a partition the other
// could take (subscribes to its topic). Returns "" or a description of the offending pair.
func KafkaBalanced(in *Input, plan []PlanEntry) string {
	tot := Totals(in, plan)
	for _, e := range plan {
		for _, te := range e.Topics {
			if len(te.Parts) == 0 {
				continue
			}
			for _, c := range in.Members {
				if c.ID != e.Member && tot[c.ID]+1 < tot[e.Member] && in.Subscribes(c.ID, te.Topic) {
					return fmt.Sprintf("%s holds %d partitions incl. %s/%d, %s holds %d and subscribes to %s", e.Member, tot[e.Member], te.Topic, te.Parts[0], c.ID, tot[c.ID], te.Topic)
				}
			}
		}
	}
	return ""
}

// IdenticalSubs: every member subscribes to exactly the same set of topics.
func IdenticalSubs(in *Input) bool {
	if len(in.Members) == 0 {
		return true
	}
	set := func(m Member) string {
		l := append([]string(nil), m.Topics...)
		sort.Strings(l)
		var u []string
		for i, x := range l {
			if i == 0 || x != l[i-1] {
				u = append(u, x)
			}
		}
		return strings.Join(u, "\x00")
	}
	s0 := set(in.Members[0])
	for _, m := range in.Members[1:] {
		if set(m) != s0 {
			return false
		}
	}
	return true
}

// PairSwap: two partitions of one topic exchanged owners between two plans (p: a->b and q: b->a). Returns "" or a description.
func PairSwap(before, after []PlanEntry) string {
	ob, oa := Owners(before), Owners(after)
	type mv struct{ topic, from, to string }
	seen := map[mv]TP{}
	for p, a := range ob {
		if b, ok := oa[p]; ok && a != b {
			seen[mv{p.T, a, b}] = p
		}
	}
	for k, p := range seen {
		if q, ok := seen[mv{k.topic, k.to, k.from}]; ok {
			return fmt.Sprintf("%s/%d moved %s->%s while %s/%d moved %s->%s", p.T, p.P, k.from, k.to, q.T, q.P, k.to, k.from)
		}
	}
	return ""
}

// SamePlanSets: equal as member -> set of partitions.
func SamePlanSets(a, b []PlanEntry) bool {
	oa, ob := Owners(a), Owners(b)
	if len(oa) != len(ob) {
		return false
	}
	for p, m := range oa {
		if ob[p] != m {
			return false
		}
	}
	return true
}

// MovedBetween: partitions that changed owner between two plans where both owners are in the set `among`.
func MovedBetween(before, after []PlanEntry, among map[string]bool) []TP {
	ob, oa := Owners(before), Owners(after)
	var l []TP
	for p, a := range ob {
		if b, ok := oa[p]; ok && a != b && among[a] && among[b] {
			l = append(l, p)
		}
	}
	sort.Slice(l, func(i, j int) bool { return l[i].T < l[j].T || (l[i].T == l[j].T && l[i].P < l[j].P) })
	return l
}

// NewWorldIdent is NewWorld for honest chains with a fixed subscription style.
func NewWorldIdent(r *rand.Rand, nm, nt, maxp int, ident bool) *World {
	w := &World{R: r, Topics: map[string][]int32{}, Members: map[string]*Member{}, Kind: "honest"}
	perm := r.Perm(len(topicNames))
	for t := 0; t < nt; t++ {
		w.Topics[topicNames[perm[t]]] = Seq(r.Intn(maxp + 1))
	}
	for i := 0; i < nm; i++ {
		w.join(ident)
	}
	return w
}

// MutateKind applies one change and says which: none | join | leave | other. With ident, subscriptions stay identical
// (all topics) and only joins, leaves and unchanged replans happen.
func (w *World) MutateKind(ident bool) string {
	r := w.R
	ms := w.memberList()
	if ident {
		switch k := r.Intn(3); {
		case k == 0:
			return "none"
		case k == 1 || len(ms) <= 1:
			w.join(true)
			return "join"
		default:
			id := ms[r.Intn(len(ms))]
			delete(w.Members, id)
			w.Log = append(w.Log, "leave "+id)
			return "leave"
		}
	}
	switch k := r.Intn(5); {
	case k == 0:
		return "none"
	case k == 1:
		w.join(false)
		return "join"
	case k == 2 && len(ms) > 1:
		id := ms[r.Intn(len(ms))]
		delete(w.Members, id)
		w.Log = append(w.Log, "leave "+id)
		return "leave"
	}
	w.Mutate()
	return "other"
}

// NearBalanced: a random group with mixed subscriptions whose members report (one generation) the plan the sticky strategy
// itself computed for them, perturbed by moving the claims of k random partitions to random members. Nobody starts empty
// in most of these, and performReassignments has little to gain.
func NearBalanced(r *rand.Rand, maxM, maxT, maxP, k int) (Input, bool) {
	w := NewWorldIdent(rand.New(rand.NewSource(r.Int63())), 2+r.Intn(maxM-1), 1+r.Intn(maxT), maxP, false)
	in := w.Input(false)
	run := RunSticky(in)
	if run.Hang || run.RawPlan == nil {
		return in, false
	}
	own := Owners(run.Plan)
	var parts []TP
	for p := range own {
		parts = append(parts, p)
	}
	sort.Slice(parts, func(i, j int) bool {
		return parts[i].T < parts[j].T || (parts[i].T == parts[j].T && parts[i].P < parts[j].P)
	})
	if len(parts) == 0 {
		return in, false
	}
	ids := make([]string, len(in.Members))
	for i, m := range in.Members {
		ids[i] = m.ID
	}
	for i := 0; i < k; i++ {
		own[parts[r.Intn(len(parts))]] = ids[r.Intn(len(ids))]
	}
	for i := range in.Members {
		claim := map[string][]int32{}
		for _, p := range parts {
			if own[p] == in.Members[i].ID {
				claim[p.T] = append(claim[p.T], p.P)
			}
		}
		b, _ := sarama.BalanceStrategySticky.AssignmentData("", claim, 5)
		in.Members[i].Data = b
	}
	return in, true
}

// Spice makes subscriptions irregular: a topic named twice in a member's list, and/or a subscription to a topic the
// topic map does not have.
func Spice(r *rand.Rand, in *Input, ghost bool) {
	if len(in.Members) == 0 {
		return
	}
	if r.Intn(2) == 0 {
		k := r.Intn(len(in.Members))
		if n := len(in.Members[k].Topics); n > 0 {
			in.Members[k].Topics = append(in.Members[k].Topics, in.Members[k].Topics[r.Intn(n)])
		}
	}
	if ghost && r.Intn(2) == 0 {
		k := r.Intn(len(in.Members))
		in.Members[k].Topics = append(in.Members[k].Topics, "ghost")
		r.Shuffle(len(in.Members[k].Topics), func(a, b int) {
			in.Members[k].Topics[a], in.Members[k].Topics[b] = in.Members[k].Topics[b], in.Members[k].Topics[a]
		})
	}
}

// IrregularSmall enumerates tiny groups over two topics whose members' lists are as long as the topic map without necessarily
// covering it: a topic twice, or a topic the map lacks.
func IrregularSmall() []Input {
	lists := [][]string{{"t0", "t0"}, {"t0", "t1"}, {"t1", "t1"}, {"t0", "ghost"}, {"t1", "t0"}, {"ghost", "t1"}, {"t0"}, {"t1", "t0", "t1"}}
	var out []Input
	for nm := 1; nm <= 3; nm++ {
		total := 1
		for i := 0; i < nm; i++ {
			total *= len(lists)
		}
		for code := 0; code < total; code++ {
			c := code
			in := Input{Topics: []Topic{{"t0", Seq(1 + code%3)}, {"t1", Seq(1 + (code/3)%3)}}}
			for i := 0; i < nm; i++ {
				in.Members = append(in.Members, Member{ID: fmt.Sprintf("m%d", i), Topics: append([]string(nil), lists[c%len(lists)]...)})
				c /= len(lists)
			}
			in.Normalize()
			out = append(out, in)
		}
	}
	return out
}

// BystanderWorld: an honest chain start with a bystander member whose topic nobody else subscribes to (it is set aside as
// "fixed" by balance()), and three to five members with non-identical subscriptions over the other topics; every topic is
// covered and has enough partitions for everybody to own some after the first plan.
func BystanderWorld(r *rand.Rand) *World {
	w := &World{R: r, Topics: map[string][]int32{}, Members: map[string]*Member{}, Kind: "honest"}
	w.Topics["u"] = Seq(1 + r.Intn(3))
	shared := []string{"s", "t"}
	if r.Intn(3) == 0 {
		shared = append(shared, "v")
	}
	for _, t := range shared {
		w.Topics[t] = Seq(3 + r.Intn(7))
	}
	w.Members["b0"] = &Member{ID: "b0", Topics: []string{"u"}}
	n := 3 + r.Intn(3)
	for i := 0; i < n; i++ {
		var subs []string
		for _, t := range shared {
			if r.Intn(2) == 0 {
				subs = append(subs, t)
			}
		}
		if len(subs) == 0 {
			subs = []string{shared[r.Intn(len(shared))]}
		}
		if i < len(shared) { // every shared topic has a subscriber
			has := false
			for _, t := range subs {
				if t == shared[i] {
					has = true
				}
			}
			if !has {
				subs = append(subs, shared[i])
			}
		}
		id := fmt.Sprintf("m%d", i)
		w.Members[id] = &Member{ID: id, Topics: subs}
	}
	w.next = n
	return w
}

// BystanderChange: a leave or a subscription change among the non-bystander members (the bystander stays).
func (w *World) BystanderChange() string {
	r := w.R
	var ms []string
	for _, id := range w.memberList() {
		if id != "b0" {
			ms = append(ms, id)
		}
	}
	if len(ms) > 2 && r.Intn(2) == 0 {
		id := ms[r.Intn(len(ms))]
		delete(w.Members, id)
		w.Log = append(w.Log, "leave "+id)
		return "leave"
	}
	id := ms[r.Intn(len(ms))]
	var subs []string
	for _, t := range w.topicList() {
		if t != "u" && r.Intn(2) == 0 {
			subs = append(subs, t)
		}
	}
	if len(subs) == 0 {
		subs = []string{"s"}
	}
	w.Members[id].Topics = subs
	w.Log = append(w.Log, "resubscribe "+id)
	return "other"
}

// RevHook: the tree reports whether the revert branch of balance() ran (sticky.revert call site).
var RevHook = true

func revStr(r *StickyRun) string {
	if !RevHook {
		return "None"
	}
	return cf.Some(cf.Bool(r.Reverted))
}

// WidenWorld: a small honest group in which everybody will own something after the first plan (all members share topic
// "t1", some also "t0"); Widen then lets one member additionally subscribe to a topic nobody else consumes.
func WidenWorld(r *rand.Rand) *World {
	w := &World{R: r, Topics: map[string][]int32{}, Members: map[string]*Member{}, Kind: "honest"}
	n := 2 + r.Intn(3)
	w.Topics["t1"] = Seq(n + r.Intn(4))
	if r.Intn(2) == 0 {
		w.Topics["t0"] = Seq(1 + r.Intn(4))
	}
	for i := 0; i < n; i++ {
		id := fmt.Sprintf("m%d", i)
		subs := []string{"t1"}
		if _, ok := w.Topics["t0"]; ok && r.Intn(2) == 0 {
			subs = append(subs, "t0")
		}
		w.Members[id] = &Member{ID: id, Topics: subs}
	}
	w.next = n
	return w
}

// Widen: a topic appears that exactly one existing member subscribes to (it widens its subscription).
func (w *World) Widen() {
	r := w.R
	name := "solo"
	for i := 0; ; i++ {
		if _, ok := w.Topics[name]; !ok {
			break
		}
		name = fmt.Sprintf("solo%d", i)
	}
	w.Topics[name] = Seq(2 + r.Intn(5))
	ids := w.memberList()
	id := ids[r.Intn(len(ids))]
	w.Members[id].Topics = append(w.Members[id].Topics, name)
	w.Log = append(w.Log, "widen "+id+" "+name)
}
