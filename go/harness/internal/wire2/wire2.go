// Package wire2: reflection dumper (Go value -> generic value tree of coq/WireFmt/Format.v), value generator and
// table loader shared by the format-layer harnesses c09fmt and c10fmt.
package wire2

import (
	"encoding/json"
	"fmt"
	"math/rand"
	"os"
	"reflect"
	"sort"
	"strings"
	"time"
	"unsafe"

	"github.com/Shopify/sarama"
)

// ---------------------------------------------------------------- table written by go/wiregen

type Side struct {
	OK      bool   `json:"ok"`
	Reason  string `json:"reason"`
	Lenient bool   `json:"lenient"`
}

type Row struct {
	Name      string             `json:"name"`
	Body      bool               `json:"body"`
	VMin      int64              `json:"vmin"`
	VMax      int64              `json:"vmax"`
	VerField  []int              `json:"ver_field"`
	Enc       Side               `json:"enc"`
	Dec       Side               `json:"dec"`
	HasMap    bool               `json:"has_map"`
	AllSorted bool               `json:"all_sorted"`
	Untrusted bool               `json:"untrusted"`
	Masks     map[string][][]int `json:"masks"`
	Sites     []string           `json:"sites"`
	SiteMake  map[string]string  `json:"site_make"`
	Index     int                `json:"-"`
}

type Table struct {
	Rows []*Row `json:"rows"`
}

func LoadTable(path string) (*Table, error) {
	b, err := os.ReadFile(path)
	if err != nil {
		return nil, err
	}
	t := &Table{}
	if err := json.Unmarshal(b, t); err != nil {
		return nil, err
	}
	for i, r := range t.Rows {
		r.Index = i
	}
	return t, nil
}

// bodies whose payload sections belong to the records layer (primitives part of the check)
var RecordsBodies = map[string]bool{"FetchResponse": true, "ProduceRequest": true}

// ---------------------------------------------------------------- value trees

type Tree struct {
	K   byte // i b l s
	I   int64
	Nil bool
	B   []byte
	L   []*Tree
}

func (t *Tree) Coq() string {
	var sb strings.Builder
	t.coq(&sb)
	return sb.String()
}

func (t *Tree) coq(sb *strings.Builder) {
	switch t.K {
	case 'i':
		if t.I < 0 {
			fmt.Fprintf(sb, "(VInt (%d))", t.I)
		} else {
			fmt.Fprintf(sb, "(VInt %d)", t.I)
		}
	case 'b':
		if t.Nil {
			sb.WriteString("(VBytes None)")
			return
		}
		sb.WriteString("(VBytes (Some [")
		for i, x := range t.B {
			if i > 0 {
				sb.WriteString(";")
			}
			fmt.Fprintf(sb, "%d", x)
		}
		sb.WriteString("]))")
	case 'l':
		if t.Nil {
			sb.WriteString("(VList None)")
			return
		}
		sb.WriteString("(VList (Some [")
		for i, x := range t.L {
			if i > 0 {
				sb.WriteString("; ")
			}
			x.coq(sb)
		}
		sb.WriteString("]))")
	case 's':
		sb.WriteString("(VStruct [")
		for i, x := range t.L {
			if i > 0 {
				sb.WriteString("; ")
			}
			x.coq(sb)
		}
		sb.WriteString("])")
	}
}

// Trivial: nothing but zeros, empty strings and nil/empty collections
func (t *Tree) Trivial() bool {
	switch t.K {
	case 'i':
		return t.I == 0
	case 'b':
		return len(t.B) == 0
	default:
		for _, x := range t.L {
			if !x.Trivial() {
				return false
			}
		}
		return true
	}
}

const saramaPath = "github.com/Shopify/sarama"

func ownStruct(t reflect.Type) bool {
	return t.Kind() == reflect.Struct && (t.PkgPath() == saramaPath || t.Name() == "")
}

// access makes a field reached through an unexported name readable and settable
func access(f reflect.Value) reflect.Value {
	if f.CanSet() || !f.CanAddr() {
		return f
	}
	return reflect.NewAt(f.Type(), unsafe.Pointer(f.UnsafeAddr())).Elem()
}

func addressable(v reflect.Value) reflect.Value {
	if v.CanAddr() {
		return v
	}
	c := reflect.New(v.Type()).Elem()
	c.Set(v)
	return c
}

// Dump follows the conventions of go/wiregen's zeroOf (see coq/WireFmt/Format.v header).
func Dump(v reflect.Value) *Tree {
	t := v.Type()
	switch t.Kind() {
	case reflect.Bool:
		if v.Bool() {
			return &Tree{K: 'i', I: 1}
		}
		return &Tree{K: 'i'}
	case reflect.Int, reflect.Int8, reflect.Int16, reflect.Int32, reflect.Int64:
		return &Tree{K: 'i', I: v.Int()}
	case reflect.Uint, reflect.Uint8, reflect.Uint16, reflect.Uint32, reflect.Uint64, reflect.Uintptr:
		return &Tree{K: 'i', I: int64(v.Uint())}
	case reflect.String:
		return &Tree{K: 'b', B: []byte(v.String())}
	case reflect.Ptr:
		e := t.Elem()
		if e.Kind() == reflect.String {
			if v.IsNil() {
				return &Tree{K: 'b', Nil: true}
			}
			return &Tree{K: 'b', B: []byte(v.Elem().String())}
		}
		if ownStruct(e) {
			if v.IsNil() {
				return &Tree{K: 'l', Nil: true}
			}
			return Dump(v.Elem())
		}
		return &Tree{K: 'i'}
	case reflect.Slice:
		if t.Elem().Kind() == reflect.Uint8 {
			if v.IsNil() {
				return &Tree{K: 'b', Nil: true}
			}
			return &Tree{K: 'b', B: append([]byte{}, v.Bytes()...)}
		}
		if v.IsNil() {
			return &Tree{K: 'l', Nil: true}
		}
		out := &Tree{K: 'l', L: []*Tree{}}
		for i := 0; i < v.Len(); i++ {
			out.L = append(out.L, Dump(v.Index(i)))
		}
		return out
	case reflect.Map:
		if v.IsNil() {
			return &Tree{K: 'l', Nil: true}
		}
		keys := v.MapKeys()
		sort.Slice(keys, func(i, j int) bool { return keyLess(keys[i], keys[j]) })
		out := &Tree{K: 'l', L: []*Tree{}}
		for _, k := range keys {
			out.L = append(out.L, &Tree{K: 's', L: []*Tree{Dump(k), Dump(addressable(v.MapIndex(k)))}})
		}
		return out
	case reflect.Struct:
		if !ownStruct(t) {
			return &Tree{K: 'i'}
		}
		v = addressable(v)
		out := &Tree{K: 's', L: []*Tree{}}
		for i := 0; i < t.NumField(); i++ {
			out.L = append(out.L, Dump(access(v.Field(i))))
		}
		return out
	}
	return &Tree{K: 'i'}
}

func keyLess(a, b reflect.Value) bool {
	switch a.Kind() {
	case reflect.String:
		return a.String() < b.String()
	case reflect.Int, reflect.Int8, reflect.Int16, reflect.Int32, reflect.Int64:
		return a.Int() < b.Int()
	}
	return false
}

// DumpBody dumps the struct a body pointer points to.
func DumpBody(body interface{}) *Tree { return Dump(reflect.ValueOf(body).Elem()) }

func NewBody(name string) interface{} {
	if f, ok := sarama.VerifWire2Bodies[name]; ok {
		return f()
	}
	return nil
}

// SetPath sets the integer field at the given struct-field path (the version field).
func SetPath(body interface{}, path []int, val int64) {
	v := reflect.ValueOf(body).Elem()
	for _, i := range path {
		for v.Kind() == reflect.Ptr {
			v = v.Elem()
		}
		v = access(v.Field(i))
	}
	v.SetInt(val)
}

// ---------------------------------------------------------------- generator

type Profile int

const (
	PZero Profile = iota
	PMax
	PNeg
	PEmpty // empty, non-nil collections and strings
	PRandom
)

var ProfileNames = []string{"zero", "max", "neg", "empty", "random"}

type G struct {
	R *rand.Rand
	P Profile
}

func (g *G) intVal(bits int) int64 {
	max := int64(1)<<(bits-1) - 1
	switch g.P {
	case PZero, PEmpty:
		return 0
	case PMax:
		return max
	case PNeg:
		if g.R.Intn(3) == 0 {
			return -max - 1
		}
		return -1 - g.R.Int63n(4)
	}
	switch g.R.Intn(8) {
	case 0:
		return 0
	case 1:
		return max
	case 2:
		return -max - 1
	case 3:
		return -1
	case 4:
		return g.R.Int63n(256)
	}
	x := g.R.Int63()
	if bits < 64 {
		x %= max + 1
	}
	if g.R.Intn(2) == 0 {
		x = -x
	}
	return x
}

func (g *G) str() string {
	switch g.P {
	case PZero, PEmpty:
		return ""
	case PMax:
		return strings.Repeat("x", 40) + "\xff\x00é"
	}
	switch g.R.Intn(5) {
	case 0:
		return ""
	case 1:
		b := make([]byte, 1+g.R.Intn(6))
		g.R.Read(b)
		return string(b)
	}
	words := []string{"topic", "a", "group-1", "member", "t2", "k", "héllo", "x.y", "0"}
	return words[g.R.Intn(len(words))] + fmt.Sprint(g.R.Intn(50))
}

func (g *G) count() int {
	switch g.P {
	case PZero, PEmpty:
		return 0
	case PMax:
		return 3
	case PNeg:
		return 1
	}
	return g.R.Intn(4)
}

func (g *G) nilColl() bool {
	switch g.P {
	case PZero:
		return true
	case PEmpty, PMax:
		return false
	}
	return g.R.Intn(4) == 0
}

var durationType = reflect.TypeOf(time.Duration(0))

// Fill sets every wire-relevant field of the struct v (addressable) to a generated value.
func (g *G) Fill(v reflect.Value, depth int) {
	t := v.Type()
	switch t.Kind() {
	case reflect.Bool:
		v.SetBool(g.P == PMax || (g.P >= PNeg && g.R.Intn(2) == 0))
	case reflect.Int8:
		v.SetInt(g.intVal(8))
	case reflect.Int16:
		v.SetInt(g.intVal(16))
	case reflect.Int32:
		v.SetInt(g.intVal(32))
	case reflect.Int, reflect.Int64:
		if t == durationType {
			// whole milliseconds that fit the int32 on the wire
			v.SetInt(g.intVal(32) * 1000000)
			return
		}
		if t.Kind() == reflect.Int {
			v.SetInt(g.intVal(8)) // int fields are versions and enumerations sent as int8
			return
		}
		v.SetInt(g.intVal(64))
	case reflect.String:
		v.SetString(g.str())
	case reflect.Ptr:
		e := t.Elem()
		if e.Kind() == reflect.String {
			if g.nilColl() {
				return
			}
			s := g.str()
			v.Set(reflect.ValueOf(&s))
			return
		}
		if e.PkgPath() == saramaPath && e.Name() == "Broker" {
			b := sarama.NewBroker(fmt.Sprintf("host%d:%d", g.R.Intn(9), 1+g.R.Intn(65000)))
			bv := reflect.ValueOf(b).Elem()
			access(bv.FieldByName("id")).SetInt(g.intVal(32))
			if !g.nilColl() {
				s := g.str()
				access(bv.FieldByName("rack")).Set(reflect.ValueOf(&s))
			}
			v.Set(reflect.ValueOf(b))
			return
		}
		if ownStruct(e) && depth < 7 && generable(e) {
			n := reflect.New(e)
			g.Fill(n.Elem(), depth+1)
			v.Set(n)
		}
	case reflect.Slice:
		if t.Elem().Kind() == reflect.Uint8 {
			if g.nilColl() {
				return
			}
			v.SetBytes([]byte(g.str()))
			return
		}
		if !generableElem(t.Elem()) || depth >= 7 {
			return
		}
		if g.nilColl() {
			return
		}
		n := g.count()
		s := reflect.MakeSlice(t, n, n)
		for i := 0; i < n; i++ {
			g.Fill(s.Index(i), depth+1)
		}
		v.Set(s)
	case reflect.Map:
		if !generableElem(t.Elem()) || depth >= 7 {
			return
		}
		if g.nilColl() {
			return
		}
		n := g.count()
		m := reflect.MakeMap(t)
		for i := 0; i < n; i++ {
			k := reflect.New(t.Key()).Elem()
			g.Fill(k, depth+1)
			if t.Key().Kind() == reflect.String {
				k.SetString(k.String() + fmt.Sprint(i)) // distinct keys
			} else {
				k.SetInt(k.Int()/8*8 + int64(i))
			}
			e := reflect.New(t.Elem()).Elem()
			g.Fill(e, depth+1)
			m.SetMapIndex(k, e)
		}
		v.Set(m)
	case reflect.Struct:
		if !ownStruct(t) || !generable(t) {
			return
		}
		for i := 0; i < t.NumField(); i++ {
			g.Fill(access(v.Field(i)), depth+1)
		}
	}
}

// struct types the generator does not enter (connection state, configuration, record payloads)
var opaqueNames = map[string]bool{"Config": true, "Broker": true, "Records": true, "RecordBatch": true, "MessageSet": true,
	"Message": true, "Record": true, "MessageBlock": true}

func generable(t reflect.Type) bool {
	return !(t.PkgPath() == saramaPath && opaqueNames[t.Name()])
}

func generableElem(t reflect.Type) bool {
	for t.Kind() == reflect.Ptr || t.Kind() == reflect.Slice || t.Kind() == reflect.Map {
		if t.Kind() == reflect.Ptr && t.Elem().PkgPath() == saramaPath && t.Elem().Name() == "Broker" {
			return true
		}
		t = t.Elem()
	}
	switch t.Kind() {
	case reflect.Struct:
		return ownStruct(t) && generable(t)
	case reflect.Bool, reflect.Int, reflect.Int8, reflect.Int16, reflect.Int32, reflect.Int64, reflect.String, reflect.Uint8:
		return true
	}
	return false
}

// NewValue builds a body of the named type with generated content, its version field set.
func NewValue(row *Row, v int64, r *rand.Rand, p Profile) interface{} {
	body := NewBody(row.Name)
	if body == nil {
		return nil
	}
	g := &G{R: r, P: p}
	g.Fill(reflect.ValueOf(body).Elem(), 0)
	if row.VerField != nil {
		SetPath(body, row.VerField, v)
	}
	return body
}

// TypeHasMap: does a value of this type contain a Go map (whose iteration order the encoder follows)?
func TypeHasMap(t reflect.Type, depth int) bool {
	if depth > 10 {
		return false
	}
	switch t.Kind() {
	case reflect.Map:
		return true
	case reflect.Ptr, reflect.Slice:
		return TypeHasMap(t.Elem(), depth+1)
	case reflect.Struct:
		if !ownStruct(t) || !generable(t) {
			return false
		}
		for i := 0; i < t.NumField(); i++ {
			if TypeHasMap(t.Field(i).Type, depth+1) {
				return true
			}
		}
	}
	return false
}
