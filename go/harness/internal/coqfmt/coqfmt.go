// Package coqfmt prints Go values as Coq terms and writes sharded cases_NNN.v files plus
// their .jsonl sidecars (one JSON object per case) for the correspondence checks.
package coqfmt

import (
	"bufio"
	"encoding/json"
	"fmt"
	"os"
	"path/filepath"
	"strings"
)

// Z prints an integer as a Coq Z literal (inside %Z scope).
func Z(v int64) string {
	if v < 0 {
		return fmt.Sprintf("(%d)", v)
	}
	return fmt.Sprintf("%d", v)
}

// Nat prints a small natural number literal with an explicit scope.
func Nat(v int) string { return fmt.Sprintf("%d%%nat", v) }

func Bool(b bool) string {
	if b {
		return "true"
	}
	return "false"
}

func List(items []string) string { return "[" + strings.Join(items, "; ") + "]" }

func ZList(v []int64) string {
	s := make([]string, len(v))
	for i, x := range v {
		s[i] = Z(x)
	}
	return List(s)
}

// Bytes prints a byte slice as a list of Z.
func Bytes(b []byte) string {
	s := make([]string, len(b))
	for i, x := range b {
		s[i] = fmt.Sprintf("%d", x)
	}
	return List(s)
}

func Option(s *string) string {
	if s == nil {
		return "None"
	}
	return "(Some " + *s + ")"
}

func Some(s string) string { return "(Some " + s + ")" }

// Rec prints a record with the given constructor applied to positional arguments.
func App(ctor string, args ...string) string {
	if len(args) == 0 {
		return ctor
	}
	return "(" + ctor + " " + strings.Join(args, " ") + ")"
}

// Sidecar is what the check driver reads for every case.
type Sidecar struct {
	Case       interface{} `json:"case"`
	Kind       string      `json:"kind,omitempty"`
	Nontrivial bool        `json:"nontrivial"`
	Monitor    *Monitor    `json:"monitor"`
}

// Monitor is a failure of the property itself observed on the implementation.
type Monitor struct {
	Signature string `json:"signature"`
	What      string `json:"what"`
}

// Writer shards cases into files <dir>/<prefix>_NNN.v, each evaluating
//   Definition M := Eval vm_compute in <mismatchFn> cases.   Print M.
type Writer struct {
	Dir, Prefix  string
	Imports      string // e.g. "From SV Require Import C20.Model C20.Corr."
	CaseType     string // Coq type of a case
	MismatchFn   string // Coq function : list CaseType -> list nat
	ShardSize    int
	terms        []string
	sides        []Sidecar
	shard        int
	Files        []string
	Total        int
}

func (w *Writer) Add(term string, side Sidecar) {
	w.terms = append(w.terms, term)
	w.sides = append(w.sides, side)
	w.Total++
	if w.ShardSize > 0 && len(w.terms) >= w.ShardSize {
		w.flush()
	}
}

func (w *Writer) flush() {
	if len(w.terms) == 0 {
		return
	}
	base := filepath.Join(w.Dir, fmt.Sprintf("%s_%03d", w.Prefix, w.shard))
	f, err := os.Create(base + ".v")
	if err != nil {
		panic(err)
	}
	bw := bufio.NewWriter(f)
	fmt.Fprintf(bw, "From Coq Require Import List ZArith String.\nImport ListNotations.\n%s\nOpen Scope Z_scope.\n", w.Imports)
	fmt.Fprintf(bw, "Definition cases : list (%s) := [\n", w.CaseType)
	for i, t := range w.terms {
		sep := ";"
		if i == len(w.terms)-1 {
			sep = ""
		}
		fmt.Fprintf(bw, "  %s%s\n", t, sep)
	}
	fmt.Fprintf(bw, "].\nDefinition M := Eval vm_compute in %s cases.\nPrint M.\n", w.MismatchFn)
	bw.Flush()
	f.Close()
	g, err := os.Create(base + ".jsonl")
	if err != nil {
		panic(err)
	}
	enc := json.NewEncoder(g)
	for _, s := range w.sides {
		if err := enc.Encode(s); err != nil {
			panic(err)
		}
	}
	g.Close()
	w.Files = append(w.Files, base+".v")
	w.terms, w.sides = nil, nil
	w.shard++
}

// Close writes the last shard and prints the list of files, one per line, to stdout.
func (w *Writer) Close() {
	w.flush()
	for _, f := range w.Files {
		fmt.Println("CASEFILE " + f)
	}
}
