package cluster

import (
	"fmt"
	"sort"
	"strings"

	"github.com/Shopify/sarama"
)

// Conversion of one run's hook log into the Coq term of type SV.Producer.Corr.case: per goroutine, the
// sequence of steps (input, environment reads, observable outputs) — see coq/Producer/Corr.v.

func z(v int64) string {
	if v < 0 {
		return fmt.Sprintf("(%d)", v)
	}
	return fmt.Sprintf("%d", v)
}
func nat(v int) string { return fmt.Sprintf("%d%%nat", v) }
func b(v bool) string {
	if v {
		return "true"
	}
	return "false"
}
func list(items []string) string { return "[" + strings.Join(items, "; ") + "]" }

type tracer struct {
	sc     *Scenario
	specs  map[int64]MsgSpec
	tpErr  map[int64]int // message id -> error class the topic worker returned on the first pass (environment failure)
	topics map[string]int
}

func (t *tracer) topic(name string) int64 {
	if i, ok := t.topics[name]; ok {
		return int64(i)
	}
	return -1
}

func (t *tracer) pres(id int64) int64 {
	s, ok := t.specs[id]
	if !ok {
		return 0
	}
	want := int64(s.Choice)
	if s.PErr {
		want = -1006
	} else if s.Choice < 0 || int(s.Choice) >= t.sc.Partitions {
		want = -1007
	}
	if e, bad := t.tpErr[id]; bad && e != 1006 && e != 1007 {
		return -int64(e) // partition list lookup failed: environment, taken from the observation
	}
	return want
}

func (t *tracer) msg(m *sarama.VerifProdMsg) string {
	if m == nil {
		return "(mkMsg (-1) 0 0 0%nat 0 0 false 0 false 0 0 false [])"
	}
	spec := t.specs[m.ID]
	var pan []string
	if m.ID >= 0 {
		for _, ic := range t.sc.Ics {
			p := ic.Nil
			for _, x := range ic.PanicOn {
				if x == m.ID {
					p = true
				}
			}
			pan = append(pan, b(p))
		}
	}
	return fmt.Sprintf("(mkMsg %s %s %s %s %s %s %s %s %s %s %s %s %s)", z(m.ID), z(t.topic(m.Topic)), z(int64(m.Partition)),
		nat(m.Retries), z(int64(m.Flags)), z(int64(m.Size)), b(m.HasHeaders), z(t.pres(m.ID)), b(spec.EncFail && m.ID >= 0),
		z(int64(m.Seq)), z(int64(m.Epoch)), b(m.HasSeq), list(pan))
}

func (t *tracer) key(topic string, p int32) string {
	return fmt.Sprintf("(%s, %s)", z(t.topic(topic)), z(int64(p)))
}

func (t *tracer) idParts(set []sarama.VerifProdPart) string {
	var ps []string
	for _, p := range set {
		var ids []string
		for _, m := range p.Msgs {
			ids = append(ids, z(m.ID))
		}
		ps = append(ps, fmt.Sprintf("(%s, %s)", t.key(p.Topic, p.Partition), list(ids)))
	}
	return list(ps)
}

func (t *tracer) pset(set []sarama.VerifProdPart) string {
	var ps []string
	for _, p := range set {
		var ms []string
		for i := range p.Msgs {
			ms = append(ms, t.msg(&p.Msgs[i]))
		}
		ps = append(ps, fmt.Sprintf("(%s, %s)", t.key(p.Topic, p.Partition), list(ms)))
	}
	return fmt.Sprintf("(mkSet %s 0)", list(ps))
}

func (t *tracer) obsSend(kind int, m *sarama.VerifProdMsg) string {
	return fmt.Sprintf("OSend %d %s %s %s %s %s", kind, z(m.ID), z(int64(m.Flags)), nat(m.Retries), z(t.topic(m.Topic)), z(int64(m.Partition)))
}
func (t *tracer) obsErr(e Ev) string {
	return fmt.Sprintf("OErr %s %s %s %s", z(e.Msg.ID), z(int64(e.Err)), z(t.topic(e.Msg.Topic)), z(int64(e.Msg.Partition)))
}

func lres(leader int32, errc int) string {
	if leader >= 0 {
		return fmt.Sprintf("(LOk %d)", leader)
	}
	return fmt.Sprintf("(LFail %s)", z(int64(errc)))
}

// commonObs renders the output points every actor may produce through the shared helpers.
func (t *tracer) commonObs(e Ev) (string, bool) {
	switch e.Kind {
	case "return.error":
		return t.obsErr(e), true
	case "return.success":
		return fmt.Sprintf("OSucc %s %s %s %s", z(e.Msg.ID), z(e.Msg.Offset), z(t.topic(e.Msg.Topic)), z(int64(e.Msg.Partition))), true
	case "retry.enqueue":
		return t.obsSend(3, e.Msg), true
	case "registry.abandon":
		return fmt.Sprintf("OAbandon %d", e.Leader), true
	}
	return "", false
}

// BuildCase renders the run as a Coq term of type case. ok=false: the log cannot be segmented (reported by the caller).
func BuildCase(res *Result) (term string, steps int, problem string) {
	sc := res.Scenario
	t := &tracer{sc: sc, specs: map[int64]MsgSpec{}, tpErr: map[int64]int{}, topics: map[string]int{}}
	for i, n := range sc.Topics {
		t.topics[n] = i
	}
	for _, m := range sc.Msgs {
		t.specs[m.ID] = m
	}
	// group by goroutine, keeping order
	var order []int64
	by := map[int64][]Ev{}
	// everything after shutdown saw inFlight = 0 is tear-down of an empty pipeline (closing of the worker inputs,
	// empty sets failing on the closed connection) and races with the end of the run: not part of the logs
	wake := -1
	for _, e := range res.Events {
		if e.Kind == "shutdown.wake" {
			wake = e.Seq
			break
		}
	}
	cut := map[int64]bool{} // goroutines that were still producing points when shutdown woke up
	for _, e := range res.Events {
		if wake >= 0 && e.Seq > wake {
			cut[e.Goid] = true
			continue
		}
		if _, seen := by[e.Goid]; !seen {
			order = append(order, e.Goid)
		}
		by[e.Goid] = append(by[e.Goid], e)
	}
	// a goroutine that was cut may have been in the middle of a step: its last step is dropped
	isInput := map[string]bool{"dispatcher.recv": true, "tp.recv": true, "pp.recv": true, "bp.recv": true, "bp.closed": true,
		"bp.timer": true, "bp.flush": true, "bp.response": true}
	for g := range cut {
		evs := by[g]
		last := -1
		for i, e := range evs {
			if isInput[e.Kind] {
				last = i
			}
		}
		if last > 0 {
			// only a step that has shown no output yet can be missing one (after the wake-up nothing that carries
			// a message can happen; what can is the abandon of an empty set's failed request)
			substantive := false
			for _, e := range evs[last+1:] {
				switch e.Kind {
				case "return.error", "return.success", "return.rawerror", "retry.enqueue", "pp.send", "dispatcher.forward",
					"tp.forward", "bp.add", "bp.waitForSpace", "registry.abandon", "interceptor.apply":
					substantive = true
				}
			}
			if !substantive && evs[last].Kind != "bp.flush" {
				by[g] = evs[:last]
			}
		}
	}
	// the answer to an EMPTY set (see the stale-output note) can still be in the hands of an abandoned broker worker
	// when the run ends: such a trailing step without any point after it is not part of the log either
	for g, evs := range by {
		n := len(evs)
		if n > 1 && evs[n-1].Kind == "bp.response" {
			empty := true
			for _, p := range evs[n-1].Set {
				if len(p.Msgs) > 0 {
					empty = false
				}
			}
			if empty {
				by[g] = evs[:n-1]
			}
		}
	}
	// first-pass errors of the topic workers are environment results for m_pres
	for _, g := range order {
		evs := by[g]
		if evs[0].Kind != "tp.recv" {
			continue
		}
		var cur *sarama.VerifProdMsg
		for _, e := range evs {
			if e.Kind == "tp.recv" {
				cur = e.Msg
			} else if e.Kind == "return.error" && cur != nil && cur.Retries == 0 {
				t.tpErr[cur.ID] = e.Err
			}
		}
	}
	var disp, tps, pps, bps, rbs []string
	var rhIn, rhOut []string
	for _, g := range order {
		evs := by[g]
		switch k := evs[0].Kind; {
		case k == "dispatcher.recv":
			var cur []string
			var in *sarama.VerifProdMsg
			var shut bool
			flushStep := func() {
				if in != nil {
					disp = append(disp, fmt.Sprintf("mkDS %s %s %s", t.msg(in), b(shut), list(cur)))
					steps++
				}
			}
			for _, e := range evs {
				switch e.Kind {
				case "dispatcher.recv":
					flushStep()
					in, shut, cur = e.Msg, e.Flag, nil
				case "interceptor.apply":
					cur = append(cur, fmt.Sprintf("OIc %s %s %s", z(e.Msg.ID), nat(e.IcIndex), b(e.IcPanic)))
				case "return.rawerror":
					cur = append(cur, fmt.Sprintf("ORaw %s %s", z(e.Msg.ID), z(int64(e.Err))))
				case "dispatcher.forward":
					cur = append(cur, t.obsSend(0, e.Msg))
				default:
					if o, ok := t.commonObs(e); ok {
						cur = append(cur, o)
					}
				}
			}
			flushStep()
		case k == "tp.recv":
			var stepsT, cur []string
			var in *sarama.VerifProdMsg
			fl := func() {
				if in != nil {
					stepsT = append(stepsT, fmt.Sprintf("mkTS %s %s", t.msg(in), list(cur)))
					steps++
				}
			}
			for _, e := range evs {
				switch e.Kind {
				case "tp.recv":
					fl()
					in, cur = e.Msg, nil
				case "tp.forward":
					cur = append(cur, t.obsSend(1, e.Msg))
				default:
					if o, ok := t.commonObs(e); ok {
						cur = append(cur, o)
					}
				}
			}
			fl()
			tps = append(tps, list(stepsT))
		case k == "pp.start":
			st := evs[0]
			start := "(LFail 0)"
			if st.HasBP {
				start = lres(st.Leader, 0)
			}
			var stepsP, cur, ls []string
			var in *Ev
			ab := false
			stamp := "(0, 0)"
			fl := func() {
				if in != nil {
					var lens, ch []string
					for _, n := range in.LevelBufLen {
						lens = append(lens, nat(n))
					}
					for _, c := range in.LevelChaser {
						ch = append(ch, b(c))
					}
					stepsP = append(stepsP, fmt.Sprintf("mkPS %s %s %s %s %s %s %s %s %s", t.msg(in.Msg), b(ab), stamp, list(ls),
						nat(in.HWM), b(in.HasBP), list(lens), list(ch), list(cur)))
					steps++
				}
			}
			for i := range evs {
				e := evs[i]
				switch e.Kind {
				case "pp.recv":
					fl()
					in, cur, ls, ab, stamp = &evs[i], nil, nil, false, "(0, 0)"
				case "pp.abandon":
					ab = true
				case "pp.leader":
					ls = append(ls, lres(e.Leader, e.Err))
				case "pp.send":
					cur = append(cur, t.obsSend(2, e.Msg))
					if e.Msg.HasSeq && in != nil && in.Msg.ID == e.Msg.ID && !in.Msg.HasSeq {
						stamp = fmt.Sprintf("(%s, %s)", z(int64(e.Msg.Seq)), z(int64(e.Msg.Epoch)))
					}
				default:
					if o, ok := t.commonObs(e); ok {
						cur = append(cur, o)
					}
				}
			}
			fl()
			pps = append(pps, fmt.Sprintf("mkPL %s %s %s %s", z(t.topic(st.Topic)), z(int64(st.Partition)), start, list(stepsP)))
		case strings.HasPrefix(k, "bp."):
			var stepsB, cur []string
			var in *Ev
			var rolled bool
			var rollEpoch, bumpsAtRoll, bumps int64
			fl := func() {
				if in == nil {
					return
				}
				var input string
				switch in.Kind {
				case "bp.recv":
					input = "(BRecv " + t.msg(in.Msg) + ")"
				case "bp.closed":
					input = "BClosed"
				case "bp.timer":
					input = "BTimer"
				case "bp.flush":
					input = "BFlush"
				case "bp.response":
					var r string
					switch {
					case in.RespErr != 0:
						r = fmt.Sprintf("(RErr %s %s)", z(int64(in.RespErr)), b(in.RespErr == 1005))
					case in.RespNil:
						r = "RNil"
					default:
						var bl []string
						for _, p := range in.Set {
							if p.Verdict == -1 {
								continue
							}
							bl = append(bl, fmt.Sprintf("(%s, (%s, %s))", t.key(p.Topic, p.Partition), z(int64(p.Verdict)), z(p.Offset)))
						}
						r = "(RBlocks " + list(bl) + ")"
					}
					input = fmt.Sprintf("(BResp %s %s)", t.pset(in.Set), r)
				}
				// the epoch a rollOver inside this step read may be fresher than the one at the step's start (another
				// goroutine failed a sequenced message meanwhile): it is an environment read, taken from the log
				ep := int64(in.TxnEpoch)
				if rolled {
					ep = rollEpoch - bumpsAtRoll
				}
				stepsB = append(stepsB, fmt.Sprintf("mkBS %s %s %s %s %s %s %s %s %s %s %s", input, z(ep), z(int64(in.BufEpoch)),
					z(int64(in.BufCount)), z(int64(in.BufBytes)), b(in.Closing), b(in.TimerSet), b(in.TimerFired), b(in.Overflow), b(in.Retrying), list(cur)))
				steps++
			}
			for i := range evs {
				e := evs[i]
				switch e.Kind {
				case "bp.recv", "bp.closed", "bp.timer", "bp.flush", "bp.response":
					fl()
					in, cur = &evs[i], nil
					rolled, rollEpoch, bumpsAtRoll, bumps = false, 0, 0, 0
					if e.Kind == "bp.flush" {
						cur = append(cur, "OBridge "+t.idParts(e.Set))
					}
				case "bp.rollover":
					rolled, rollEpoch, bumpsAtRoll = true, int64(e.BufEpoch), bumps
				case "return.error":
					if e.Msg != nil && e.Msg.HasSeq {
						bumps++
					}
					if o, ok := t.commonObs(e); ok {
						cur = append(cur, o)
					}
				case "bp.waitForSpace":
					n := 1
					if e.Flag {
						n = 2
					}
					cur = append(cur, fmt.Sprintf("ONote %d %s", n, z(e.Msg.ID)))
				case "bp.add":
					cur = append(cur, fmt.Sprintf("ONote 3 %s", z(e.Msg.ID)))
				default:
					if o, ok := t.commonObs(e); ok {
						cur = append(cur, o)
					}
				}
			}
			fl()
			bps = append(bps, fmt.Sprintf("mkBL %d %s", evs[0].Leader, list(stepsB)))
		case k == "retryBatch.start":
			st := evs[0]
			var cur []string
			l := "(LFail 0)"
			for _, e := range evs[1:] {
				switch e.Kind {
				case "retryBatch.leader":
					l = lres(e.Leader, e.Err)
				case "retryBatch.send":
					cur = append(cur, fmt.Sprintf("ORbSend %d %s", e.Leader, t.idParts(e.Set)))
				default:
					if o, ok := t.commonObs(e); ok {
						cur = append(cur, o)
					}
				}
			}
			var ms []string
			for i := range st.Set[0].Msgs {
				ms = append(ms, t.msg(&st.Set[0].Msgs[i]))
			}
			rbs = append(rbs, fmt.Sprintf("mkRL %s %s %s %s %s %s", t.key(st.Topic, st.Partition), list(ms), z(int64(st.Err)), z(int64(st.TxnEpoch)), l, list(cur)))
			steps++
		case k == "rh.recv":
			for _, e := range evs {
				s := fmt.Sprintf("(%s, %s)", z(e.Msg.ID), z(int64(e.Msg.Flags)))
				if e.Kind == "rh.recv" {
					rhIn = append(rhIn, s)
				} else if e.Kind == "rh.forward" {
					rhOut = append(rhOut, s)
				}
			}
		case k == "bridge.send", strings.HasPrefix(k, "shutdown."):
		default:
			// a shared helper reached from a goroutine that is not an actor of the model
			return "", steps, fmt.Sprintf("goroutine %d starts with unexpected point %s", g, k)
		}
	}
	out := append([]Outcome(nil), res.Outcomes...)
	if sc.Sync {
		out = append([]Outcome(nil), res.SyncReturns...)
	}
	sort.SliceStable(out, func(i, j int) bool { return out[i].ID < out[j].ID })
	var ocs []string
	for _, o := range out {
		ocs = append(ocs, fmt.Sprintf("(%s, %s, %s)", z(o.ID), b(o.Success), z(int64(o.Err))))
	}
	term = fmt.Sprintf("mkCase %s\n    %s\n    %s\n    %s\n    %s\n    %s\n    %s %s\n    %s", sc.CoqCfg(),
		wrap("dlog_step", disp), list(tps), wrap("plog", pps), wrap("blog", bps), wrap("rlog", rbs), list(rhIn), list(rhOut), list(ocs))
	return term, steps, ""
}

func wrap(ty string, items []string) string {
	if len(items) == 0 {
		return "(@nil " + ty + ")"
	}
	return list(items)
}

// CoqCfg renders the scenario's configuration as SV.Producer.Msg.cfg (both repairs applied).
func (sc *Scenario) CoqCfg() string {
	maxBytes := 1000000
	if sc.MaxBytes > 0 {
		maxBytes = sc.MaxBytes
	}
	v2 := sc.V2 || sc.Idempotent
	var ics []string
	for i, ic := range sc.Ics {
		d := 0
		if v2 {
			d = len(fmt.Sprintf("i%d", i)) + 1 + 10
		}
		if ic.Nil {
			// a nil entry: an interceptor whose application always panics; a negative delta marks it for the trace
			// validation (no invocation can be logged for it)
			ics = append(ics, "mkIc false (-1)")
			continue
		}
		ics = append(ics, fmt.Sprintf("mkIc %s %d", b(ic.AddHeader), d))
	}
	return fmt.Sprintf("(mkCfg %s %s %s %d %d %d 0 %s %d %s true true)", nat(sc.RetryMax), b(sc.Idempotent), b(v2), maxBytes,
		int(sarama.MaxRequestSize)-10*1024, sc.FlushMsgs, b(sc.FlushMsgs > 0), sc.MaxMsgs, wrap("icpt", ics))
}
