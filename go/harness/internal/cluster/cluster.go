package cluster

import (
	"net"
	"strconv"
	"sync"
	"time"

	"github.com/Shopify/sarama"
)

// FaultKind is what the simulated cluster does with one produce request.
type FaultKind int

const (
	Ok           FaultKind = iota // append, answer NoError with the base offset
	Retriable                     // no append, answer Err (a retriable code) for the selected partitions
	RetriableApp                  // append, then answer Err (retriable): "failed after append"
	Fatal                         // no append, answer Err (a non-retriable code)
	DropBefore                    // no append, close the connection
	DropAfter                     // append, close the connection (lost acknowledgement)
	NoBlock                       // append nothing, answer without a block for the selected partitions
	LeaderMoved                   // answer NotLeaderForPartition and move the selected partitions to the other broker
	Duplicate                     // append, answer DuplicateSequenceNumber (success without offsets)
)

var faultNames = []string{"ok", "retriable", "retriable-appended", "fatal", "drop-before", "drop-after", "noblock", "leader-moved", "duplicate"}

func (k FaultKind) String() string { return faultNames[k] }

// Fault is one entry of the fault script; entry i applies to the i-th produce request the cluster receives
// (over all brokers); requests past the end of the script are answered Ok.
type Fault struct {
	Kind FaultKind `json:"kind"`
	Err  int16     `json:"err,omitempty"`
	// Only >= 0 restricts the fault to the Only-th partition (mod count) of the request in (topic, partition)
	// order, the other partitions being served Ok; -1 applies it to every partition of the request.
	Only int `json:"only"`
	// MetaFail > 0: after this request, the next MetaFail metadata requests report no leader for any partition.
	MetaFail int `json:"metafail,omitempty"`
	// MetaDown: after this request every metadata answer reports "leader not available" for all partitions until the
	// scenario brings the metadata back (Scenario.MetaUpAtWave)
	MetaDown bool `json:"metadown,omitempty"`
	// Mix, when not empty, gives every partition of the request its own verdict: partition i (in (topic, partition)
	// order) gets Mix[i mod len(Mix)]; Kind/Err/Only are then ignored.  This is how one response mixes e.g. a
	// retriable error on one partition with a fatal error on another.  Connection drops cannot be mixed (whole request).
	Mix []PartFault `json:"mix,omitempty"`
}

// PartFault is the verdict for one partition inside a mixed response.
type PartFault struct {
	Kind FaultKind `json:"kind"`
	Err  int16     `json:"err,omitempty"`
}

// Appended is one record in a simulated partition log.
type Appended struct {
	ID       int64
	Offset   int64
	Request  int // index of the produce request that appended it
	Sequence int32
	Epoch    int16
	Headers  []string // header keys of the record, in order
}

// ReqLog is what the cluster saw of one produce request.
type ReqLog struct {
	Index   int
	Broker  int32
	Fault   Fault
	Batches []sarama.VerifProdBatch
}

type quietReporter struct{}

func (quietReporter) Error(...interface{})          {}
func (quietReporter) Errorf(string, ...interface{}) {}
func (quietReporter) Fatal(...interface{})          {}
func (quietReporter) Fatalf(string, ...interface{}) {}

// Cluster is one or two scripted mock brokers sharing a metadata view, a fault script and the partition logs.
type Cluster struct {
	mu       sync.Mutex
	Brokers  []*sarama.MockBroker
	topics   map[string]int // topic -> partition count
	leader   map[string]int // "topic/partition" -> broker index
	script   []Fault
	next     int
	metaFail int
	metaDown bool
	Logs     map[string][]Appended
	Requests []ReqLog
	MetaReqs int
	pid      int64
	noAcks   bool
}

func tpKey(topic string, partition int32) string { return topic + "/" + strconv.Itoa(int(partition)) }

// New starts nBrokers (1 or 2) mock brokers serving the given topics; partition p of every topic starts on
// broker p mod nBrokers. It returns nil when no listener could be opened.
func New(nBrokers int, topics map[string]int, script []Fault) *Cluster {
	c := &Cluster{topics: topics, leader: map[string]int{}, script: script, Logs: map[string][]Appended{}, pid: 4711}
	for i := 0; i < nBrokers; i++ {
		// listen ourselves: on a loaded machine the ephemeral ports can run out for a moment, and the mock broker's
		// constructor cannot report that through a reporter that does not abort
		var ln net.Listener
		var err error
		for try := 0; try < 50; try++ {
			if ln, err = net.Listen("tcp", "localhost:0"); err == nil {
				break
			}
			time.Sleep(100 * time.Millisecond)
		}
		if err != nil {
			c.Close()
			return nil
		}
		b := sarama.NewMockBrokerListener(quietReporter{}, int32(i+1), ln)
		idx := i
		b.VerifProdSetHandler(func(kind string, body interface{}) interface{} { return c.handle(idx, kind, body) })
		c.Brokers = append(c.Brokers, b)
	}
	for t, n := range topics {
		for p := 0; p < n; p++ {
			c.leader[tpKey(t, int32(p))] = p % nBrokers
		}
	}
	return c
}

func (c *Cluster) Addrs() []string {
	var a []string
	for _, b := range c.Brokers {
		a = append(a, b.Addr())
	}
	return a
}

func (c *Cluster) Close() {
	for _, b := range c.Brokers {
		b.Close()
	}
}

func (c *Cluster) handle(broker int, kind string, body interface{}) interface{} {
	c.mu.Lock()
	defer c.mu.Unlock()
	switch r := body.(type) {
	case *sarama.MetadataRequest:
		return c.metadata(r)
	case *sarama.InitProducerIDRequest:
		return &sarama.InitProducerIDResponse{ProducerID: c.pid, ProducerEpoch: 0}
	case *sarama.ProduceRequest:
		return c.produce(broker, r)
	}
	return nil
}

func (c *Cluster) metadata(r *sarama.MetadataRequest) interface{} {
	c.MetaReqs++
	v := r.Version
	if v > 5 {
		v = 5
	}
	resp := &sarama.MetadataResponse{Version: v}
	for _, b := range c.Brokers {
		resp.AddBroker(b.Addr(), b.BrokerID())
	}
	fail := c.metaFail > 0 || c.metaDown
	if c.metaFail > 0 {
		c.metaFail--
	}
	for t, n := range c.topics {
		for p := 0; p < n; p++ {
			if fail {
				resp.AddTopicPartition(t, int32(p), -1, nil, nil, nil, sarama.ErrLeaderNotAvailable)
			} else {
				l := c.Brokers[c.leader[tpKey(t, int32(p))]].BrokerID()
				resp.AddTopicPartition(t, int32(p), l, []int32{l}, []int32{l}, nil, sarama.ErrNoError)
			}
		}
	}
	return resp
}

// IDOf decodes the message identity the harness puts into record values ("<id>" or "<id>:padding").
func IDOf(value []byte) int64 {
	n := 0
	for n < len(value) && value[n] >= '0' && value[n] <= '9' {
		n++
	}
	if n == 0 {
		return -1 // not a harness message (e.g. an internal marker that reached the wire: empty value)
	}
	id, _ := strconv.ParseInt(string(value[:n]), 10, 64)
	return id
}

func (c *Cluster) produce(broker int, r *sarama.ProduceRequest) interface{} {
	idx := c.next
	c.next++
	f := Fault{Kind: Ok, Only: -1}
	if idx < len(c.script) {
		f = c.script[idx]
	}
	batches := sarama.VerifProdRequestBatches(r)
	c.Requests = append(c.Requests, ReqLog{Index: idx, Broker: c.Brokers[broker].BrokerID(), Fault: f, Batches: batches})
	if f.MetaFail > 0 {
		c.metaFail = f.MetaFail
	}
	if f.MetaDown {
		c.metaDown = true
	}
	resp := &sarama.ProduceResponse{Version: r.Version}
	sel := -1
	if f.Only >= 0 && len(batches) > 0 {
		sel = f.Only % len(batches)
	}
	for i, b := range batches {
		kind, kerr := f.Kind, f.Err
		if sel >= 0 && i != sel {
			kind = Ok
		}
		if len(f.Mix) > 0 {
			kind, kerr = f.Mix[i%len(f.Mix)].Kind, f.Mix[i%len(f.Mix)].Err
			if kind == DropBefore || kind == DropAfter {
				kind = NoBlock
			}
		}
		key := tpKey(b.Topic, b.Partition)
		app := func() int64 {
			base := int64(len(c.Logs[key]))
			for j, v := range b.Values {
				var hk []string
				if j < len(b.HeaderKeys) {
					hk = b.HeaderKeys[j]
				}
				c.Logs[key] = append(c.Logs[key], Appended{ID: IDOf(v), Offset: base + int64(j), Request: idx,
					Sequence: b.FirstSequence + int32(j), Epoch: b.ProducerEpoch, Headers: hk})
			}
			return base
		}
		switch kind {
		case Ok:
			base := app()
			resp.AddTopicPartition(b.Topic, b.Partition, sarama.ErrNoError)
			resp.Blocks[b.Topic][b.Partition].Offset = base
		case Retriable, Fatal:
			resp.AddTopicPartition(b.Topic, b.Partition, sarama.KError(kerr))
		case RetriableApp:
			app()
			resp.AddTopicPartition(b.Topic, b.Partition, sarama.KError(kerr))
		case Duplicate:
			app() // "already appended, the earlier acknowledgement was lost": the log holds the records
			resp.AddTopicPartition(b.Topic, b.Partition, sarama.ErrDuplicateSequenceNumber)
		case DropAfter:
			app()
		case NoBlock, DropBefore:
		case LeaderMoved:
			if len(c.Brokers) > 1 {
				c.leader[key] = (c.leader[key] + 1) % len(c.Brokers)
			}
			resp.AddTopicPartition(b.Topic, b.Partition, sarama.ErrNotLeaderForPartition)
		}
	}
	if len(f.Mix) == 0 && (f.Kind == DropBefore || f.Kind == DropAfter) {
		return sarama.VerifProdDrop{}
	}
	if sarama.VerifProdRequestAcks(r) == 0 {
		return nil
	}
	return resp
}

// Snapshot returns copies of the request log and partition logs.
func (c *Cluster) Snapshot() ([]ReqLog, map[string][]Appended) {
	c.mu.Lock()
	defer c.mu.Unlock()
	logs := map[string][]Appended{}
	for k, v := range c.Logs {
		logs[k] = append([]Appended(nil), v...)
	}
	return append([]ReqLog(nil), c.Requests...), logs
}

// MetaUp ends a MetaDown period.
func (c *Cluster) MetaUp() {
	c.mu.Lock()
	c.metaDown = false
	c.mu.Unlock()
}
