package cluster

import (
	"fmt"
	"sort"
)

// Finding is a failure of a property observed on the implementation (independent of the Coq model).
type Finding struct {
	Signature string
	What      string
}

// shape is a coarse, stable description of the scenario class for signatures.
func (sc *Scenario) shape() string {
	idem := "plain"
	if sc.Idempotent {
		idem = "idempotent"
	}
	return fmt.Sprintf("%s/retrymax=%d/flush=%d", idem, sc.RetryMax, sc.FlushMsgs)
}

// MonitorC01 evaluates property C01 directly on what the application observed.
func MonitorC01(res *Result) []Finding {
	var fs []Finding
	sc := res.Scenario
	if res.SetupErr != "" {
		return nil
	}
	if res.InputBlocked {
		fs = append(fs, Finding{"c01:input-blocked:" + sc.shape(), "a send on Input() did not complete within its bound (5 s): the pipeline stopped accepting messages"})
	}
	if !res.CloseOK {
		fs = append(fs, Finding{"c01:close-hangs:" + sc.shape(), fmt.Sprintf("Close/AsyncClose did not finish within %v (channels not closed)", closeBound)})
	}
	count := map[int64]int{}
	outs := res.Outcomes
	if sc.Sync {
		outs = res.SyncReturns
	}
	for _, o := range outs {
		count[o.ID]++
	}
	submitted := map[int64]bool{}
	for _, m := range sc.Msgs {
		submitted[m.ID] = true
	}
	var ids []int64
	for id := range count {
		ids = append(ids, id)
	}
	sort.Slice(ids, func(i, j int) bool { return ids[i] < ids[j] })
	for _, id := range ids {
		if !submitted[id] {
			kind := "foreign"
			if id == -1 {
				kind = "marker"
			}
			fs = append(fs, Finding{"c01:" + kind + "-event:" + sc.shape(), fmt.Sprintf("a terminal event names message %d which the application did not submit", id)})
		} else if count[id] > 1 {
			fs = append(fs, Finding{"c01:two-outcomes:" + sc.shape(), fmt.Sprintf("message %d received %d terminal events", id, count[id])})
		}
	}
	if res.CloseOK || true {
		for _, m := range sc.Msgs {
			if count[m.ID] == 0 {
				fs = append(fs, Finding{"c01:no-outcome:" + sc.shape(), fmt.Sprintf("message %d received no terminal event", m.ID)})
				break
			}
		}
	}
	if sc.Sync {
		// each message's return must be its own outcome: compare with the terminal event the producer emitted for that id
		emitted := map[int64]Outcome{}
		for _, e := range res.Events {
			switch e.Kind {
			case "return.success":
				emitted[e.Msg.ID] = Outcome{ID: e.Msg.ID, Success: true}
			case "return.error", "return.rawerror":
				emitted[e.Msg.ID] = Outcome{ID: e.Msg.ID, Err: e.Err}
			}
		}
		for _, r := range res.SyncReturns {
			em, ok := emitted[r.ID]
			if !ok || em.Success != r.Success || (!r.Success && em.Err != r.Err) {
				fs = append(fs, Finding{"c01:sync-wrong-outcome:" + sc.shape(), fmt.Sprintf("SendMessages reported %+v for message %d but the producer emitted %+v", r, r.ID, em)})
				break
			}
		}
	}
	// a reported success must be in the simulated log at the reported place (cheap cross-check; C04 proper is elsewhere)
	if !sc.NoAcks {
		for _, o := range outs {
			if !o.Success || !submitted[o.ID] {
				continue
			}
			spec := sc.spec(o.ID)
			log := res.Logs[tpKey(spec.Topic, o.Partition)]
			found := false
			for _, a := range log {
				if a.ID == o.ID {
					found = true
				}
			}
			if !found {
				fs = append(fs, Finding{"c01:success-not-in-log:" + sc.shape(), fmt.Sprintf("message %d reported successful on partition %d but the cluster never appended it there", o.ID, o.Partition)})
				break
			}
		}
	}
	if len(fs) > 0 && RetryBatchPartial(res.Events) {
		return []Finding{{"c01:retrybatch-partial-failure", "retryBatch gave up on a batch after failing only part of it (" + fs[0].What + "; " + fs[0].Signature + ")"}}
	}
	if len(fs) > 0 && ChaserAsMessage(res.Events) {
		kind := "plain"
		if sc.Idempotent {
			kind = "idempotent"
		}
		return []Finding{{"c01:chaser-as-message:" + kind, "a fin marker was accepted as a data message by a broker worker (" + fs[0].What + "; " + fs[0].Signature + ")"}}
	}
	return fs
}

func (sc *Scenario) spec(id int64) MsgSpec {
	for _, m := range sc.Msgs {
		if m.ID == id {
			return m
		}
	}
	return MsgSpec{}
}

// MonitorC18a evaluates the producer half of C18 on the interceptors' own invocation log.
func MonitorC18a(res *Result) []Finding {
	sc := res.Scenario
	if res.SetupErr != "" || len(sc.Ics) == 0 {
		return nil
	}
	var fs []Finding
	per := map[int64][]int{}
	for _, c := range res.IcCalls {
		per[c.ID] = append(per[c.ID], c.Index)
	}
	if calls, bad := per[-1]; bad {
		fs = append(fs, Finding{"c18:producer:intercepted-again", fmt.Sprintf("interceptors ran %d time(s) on a message the application did not submit (internal marker passing the dispatcher)", len(calls))})
	}
	var live []int // positions of the real (non-nil) interceptors, in configuration order
	for i, ic := range sc.Ics {
		if !ic.Nil {
			live = append(live, i)
		}
	}
	for _, m := range sc.Msgs {
		got := per[m.ID]
		want := len(live)
		switch {
		case len(got) > want:
			fs = append(fs, Finding{"c18:producer:intercepted-again", fmt.Sprintf("message %d: interceptor calls %v, expected each of %d once (a retried message was intercepted again)", m.ID, got, want)})
		case len(got) < want:
			fs = append(fs, Finding{"c18a:interceptor-skipped", fmt.Sprintf("message %d: interceptor calls %v, expected each of %d once (a panicking interceptor must not stop the chain)", m.ID, got, want)})
		default:
			for i, k := range got {
				if k != live[i] {
					fs = append(fs, Finding{"c18a:interceptor-order", fmt.Sprintf("message %d: interceptor calls %v are not in configuration order", m.ID, got)})
					break
				}
			}
		}
		if len(fs) > 0 {
			break
		}
	}
	// the order is also visible in what the mutating interceptors did to the message: the header keys "i<k>" of a
	// record at the broker are in configuration order
	for key, log := range res.Logs {
		for _, a := range log {
			last := -1
			for _, h := range a.Headers {
				var k int
				if n, _ := fmt.Sscanf(h, "i%d", &k); n != 1 {
					continue
				}
				if k <= last && len(fs) == 0 {
					fs = append(fs, Finding{"c18a:interceptor-order", fmt.Sprintf("message %d in %s: header keys %v show the mutating interceptors ran out of configuration order", a.ID, key, a.Headers)})
				}
				last = k
			}
		}
	}
	// containment: a message whose interceptor panicked still gets its outcome (checked by MonitorC01 too; named here)
	count := map[int64]int{}
	for _, o := range res.Outcomes {
		count[o.ID]++
	}
	for _, ic := range sc.Ics {
		for _, id := range ic.PanicOn {
			if count[id] != 1 && res.CloseOK && !sc.Sync {
				fs = append(fs, Finding{"c18a:panic-not-contained", fmt.Sprintf("message %d (interceptor panicked) has %d terminal events", id, count[id])})
			}
		}
	}
	return fs
}

// RetryBatchPartial reports the history shape of the repaired defect fixes/c01_retrybatch.patch: a retryBatch
// goroutine that neither re-sent its batch nor failed every message of it.
func RetryBatchPartial(evs []Ev) bool {
	type rb struct {
		msgs, errs int
		sent       bool
	}
	by := map[int64]*rb{}
	for _, e := range evs {
		switch e.Kind {
		case "retryBatch.start":
			n := 0
			if len(e.Set) > 0 {
				n = len(e.Set[0].Msgs)
			}
			by[e.Goid] = &rb{msgs: n}
		case "retryBatch.send":
			if r := by[e.Goid]; r != nil {
				r.sent = true
			}
		case "return.error":
			if r := by[e.Goid]; r != nil {
				r.errs++
			}
		}
	}
	for _, r := range by {
		if !r.sent && r.errs > 0 && r.errs < r.msgs {
			return true
		}
	}
	return false
}
