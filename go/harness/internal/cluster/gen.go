package cluster

import (
	"fmt"
	"math/rand"
)

var retriableCodes = []int16{6, 7, 19, 3, 5, 2}
var retriableAppCodes = []int16{20, 7}
var fatalCodes = []int16{10, 29, 17, 45}

// GenOpts bounds the generator.
type GenOpts struct {
	MaxScript int // fault script length bound
	MinMsgs   int
	MaxMsgs   int
	Ics       bool // always configure interceptors (C18a)
	Steer     bool // use hold points and a second wave
}

func randFault(r *rand.Rand, brokers int, idem bool) Fault {
	f := Fault{Only: -1}
	switch k := r.Intn(20); {
	case k < 4:
		f.Kind = Ok
	case k < 9:
		f.Kind, f.Err = Retriable, retriableCodes[r.Intn(len(retriableCodes))]
	case k < 10:
		f.Kind, f.Err = RetriableApp, retriableAppCodes[r.Intn(len(retriableAppCodes))]
	case k < 12:
		f.Kind, f.Err = Fatal, fatalCodes[r.Intn(len(fatalCodes))]
	case k < 14:
		f.Kind = DropBefore
	case k < 16:
		f.Kind = DropAfter
	case k < 17:
		f.Kind = NoBlock
	case k < 19:
		f.Kind = LeaderMoved
	default:
		f.Kind = Duplicate
	}
	if r.Intn(3) == 0 {
		f.Only = r.Intn(2)
	}
	if r.Intn(6) == 0 {
		f.MetaFail = 1 + r.Intn(2)
	}
	return f
}

// Gen draws one scenario.
func Gen(r *rand.Rand, name string, o GenOpts) *Scenario {
	sc := &Scenario{Name: name, Brokers: 1 + r.Intn(2), Partitions: 1 + r.Intn(2), Topics: []string{"t0"}}
	if r.Intn(6) == 0 {
		sc.Topics = append(sc.Topics, "t1")
	}
	sc.Idempotent = r.Intn(2) == 0
	sc.RetryMax = r.Intn(3)
	if sc.Idempotent && sc.RetryMax == 0 {
		sc.RetryMax = 1 + r.Intn(2)
	}
	if r.Intn(2) == 0 {
		sc.FlushMsgs = 2
	}
	if r.Intn(5) == 0 {
		sc.MaxMsgs = 2
	}
	if r.Intn(4) == 0 {
		sc.MaxBytes = 300
	}
	sc.V2 = sc.Idempotent || r.Intn(3) > 0
	if !sc.Idempotent && r.Intn(12) == 0 {
		sc.NoAcks = true
	}
	sc.ChanBuf = []int{0, 1, 256}[r.Intn(3)]
	if r.Intn(2) == 0 {
		sc.Jitter = 1 + r.Int63n(1<<30)
	}
	if r.Intn(10) == 0 {
		sc.Sync = true
	}
	n := o.MinMsgs + r.Intn(o.MaxMsgs-o.MinMsgs+1)
	for i := 0; i < n; i++ {
		m := MsgSpec{ID: int64(i + 1), Topic: sc.Topics[r.Intn(len(sc.Topics))], Choice: int32(r.Intn(sc.Partitions))}
		switch k := r.Intn(40); {
		case k == 0:
			m.PErr = true
		case k == 1:
			m.Choice = int32(sc.Partitions + r.Intn(2))
		case k == 2:
			m.Choice = -1
		case k < 5:
			m.Headers = true
		case k == 5:
			m.EncFail = true
		case k < 9:
			m.Pad = 60 + r.Intn(60)
		case k == 9:
			m.Pad = 400
		}
		if o.Steer && r.Intn(3) == 0 {
			m.Wave = 1
		} else if r.Intn(5) == 0 {
			m.Wave = 1
		}
		sc.Msgs = append(sc.Msgs, m)
	}
	ls := r.Intn(o.MaxScript + 1)
	for i := 0; i < ls; i++ {
		sc.Script = append(sc.Script, randFault(r, sc.Brokers, sc.Idempotent))
	}
	nic := 0
	if o.Ics {
		nic = 1 + r.Intn(3)
	} else if r.Intn(4) == 0 {
		nic = 1 + r.Intn(2)
	}
	if o.Ics && r.Intn(2) == 0 {
		nic = 3 + r.Intn(3) // longer chains, with nil entries at any position
	}
	for i := 0; i < nic; i++ {
		ic := IcSpec{AddHeader: r.Intn(2) == 0}
		if r.Intn(3) == 0 {
			ic.PanicOn = append(ic.PanicOn, int64(1+r.Intn(n)))
		}
		if nic >= 3 && r.Intn(4) == 0 {
			ic = IcSpec{Nil: true}
		} else {
			ic.Shape = []string{"", "", "func", "struct"}[r.Intn(4)]
		}
		sc.Ics = append(sc.Ics, ic)
	}
	if nic >= 3 {
		real := 0
		for _, ic := range sc.Ics {
			if !ic.Nil {
				real++
			}
		}
		if real == 0 {
			sc.Ics[nic-1] = IcSpec{AddHeader: true}
		}
	}
	if o.Steer {
		kinds := []string{"pp.newHWM", "bp.response", "pp.flush.level", "bridge.send", "retryBatch.start"}
		sc.Holds = []HoldSpec{{Kind: kinds[r.Intn(len(kinds))], Nth: 1 + r.Intn(2)}}
		has1 := false
		for _, m := range sc.Msgs {
			if m.Wave == 1 {
				has1 = true
			}
		}
		if !has1 {
			sc.Msgs[len(sc.Msgs)-1].Wave = 1
		}
	}
	return sc
}

// Corpus is the list of fixed witnesses run first: the confirmed defects (they must stay repaired) and the
// schedules that exercised every mutation of the self-test.
func Corpus() []*Scenario {
	two := func(id int64) MsgSpec { return MsgSpec{ID: id, Topic: "t0", Choice: 0} }
	var out []*Scenario
	// C01 defect (i): idempotent, Retry.Max=1, batch of 2, two retriable answers
	out = append(out, &Scenario{Name: "corpus/retrybatch-exhausted", Brokers: 1, Partitions: 1, Topics: []string{"t0"}, RetryMax: 1,
		FlushMsgs: 2, Idempotent: true, V2: true, Msgs: []MsgSpec{two(1), two(2)},
		Script: []Fault{{Kind: Retriable, Err: 6, Only: -1}, {Kind: Retriable, Err: 6, Only: -1}}})
	// C18a defect (ii): 3 messages, one retriable answer, counting + mutating interceptors
	out = append(out, &Scenario{Name: "corpus/interceptor-retry", Brokers: 1, Partitions: 1, Topics: []string{"t0"}, RetryMax: 2,
		V2: true, Msgs: []MsgSpec{two(1), two(2), two(3)}, Script: []Fault{{Kind: Retriable, Err: 6, Only: -1}},
		Ics: []IcSpec{{AddHeader: true}, {}}})
	out = append(out, &Scenario{Name: "corpus/interceptor-retry-legacy", Brokers: 1, Partitions: 1, Topics: []string{"t0"}, RetryMax: 2,
		V2: false, FlushMsgs: 2, Msgs: []MsgSpec{two(1), two(2), two(3)}, Script: []Fault{{Kind: Retriable, Err: 7, Only: -1}},
		Ics: []IcSpec{{}, {PanicOn: []int64{2}}, {}}})
	// nil entries in the chain (a contained panic each), at every position: the others keep their order
	for pos := 0; pos < 4; pos++ {
		ics := []IcSpec{{AddHeader: true}, {AddHeader: true}, {AddHeader: true}, {AddHeader: true}}
		ics[pos] = IcSpec{Nil: true}
		out = append(out, &Scenario{Name: fmt.Sprintf("corpus/interceptor-nil-at-%d", pos), Brokers: 1, Partitions: 1, Topics: []string{"t0"},
			RetryMax: 1, V2: true, Msgs: []MsgSpec{two(1), two(2)}, Script: []Fault{{Kind: Retriable, Err: 6, Only: -1}}, Ics: ics})
	}
	out = append(out, &Scenario{Name: "corpus/interceptor-nil-and-panic", Brokers: 1, Partitions: 1, Topics: []string{"t0"}, RetryMax: 1, V2: true,
		Msgs: []MsgSpec{two(1), two(2), two(3)},
		Ics:  []IcSpec{{AddHeader: true}, {Nil: true}, {Nil: true}, {AddHeader: true, PanicOn: []int64{2}}, {AddHeader: true}}})
	// panicking interceptors whose dynamic type is unhashable (func adapter; struct by value with a slice): the recover
	// handler must contain the panic whatever it does with the interceptor value (seeded C18-10: a sync.Map keyed by it)
	out = append(out, &Scenario{Name: "corpus/interceptor-panic-func-adapter", Brokers: 1, Partitions: 1, Topics: []string{"t0"}, RetryMax: 1, V2: true,
		Msgs: []MsgSpec{two(1), two(2), two(3)}, Script: []Fault{{Kind: Retriable, Err: 6, Only: -1}},
		Ics: []IcSpec{{AddHeader: true}, {Shape: "func", PanicOn: []int64{2}}, {AddHeader: true, Shape: "struct"}}})
	out = append(out, &Scenario{Name: "corpus/interceptor-panic-value-struct", Brokers: 1, Partitions: 1, Topics: []string{"t0"}, RetryMax: 1, V2: true,
		Msgs: []MsgSpec{two(1), two(2), two(3)},
		Ics:  []IcSpec{{Shape: "struct", PanicOn: []int64{1, 3}}, {AddHeader: true, Shape: "func"}, {Nil: true}, {AddHeader: true}}})
	// one produce request carrying two (three) partitions, every partition with its own verdict: all ordered pairs
	// of {ok, retriable, fatal, no block, duplicate} and some triples (seeded C01-10: the second pass of handleSuccess
	// retried a partition that the first pass had already failed fatally)
	mixKinds := []PartFault{{Kind: Ok}, {Kind: Retriable, Err: 6}, {Kind: Fatal, Err: 10}, {Kind: NoBlock}, {Kind: Duplicate}}
	for a, fa := range mixKinds {
		for b, fb := range mixKinds {
			if a == 0 && b == 0 {
				continue
			}
			out = append(out, MixScenario(fmt.Sprintf("corpus/mixed-response-%s-%s", fa.Kind, fb.Kind), []PartFault{fa, fb}, 1+(a+b)%2, (a*5+b)%3 == 0))
		}
	}
	out = append(out, MixScenario("corpus/mixed-response-3a", []PartFault{{Kind: Retriable, Err: 6}, {Kind: Fatal, Err: 10}, {Kind: Ok}}, 2, false))
	out = append(out, MixScenario("corpus/mixed-response-3b", []PartFault{{Kind: Fatal, Err: 2}, {Kind: Retriable, Err: 7}, {Kind: NoBlock}}, 1, false))
	out = append(out, MixScenario("corpus/mixed-response-3c", []PartFault{{Kind: Duplicate}, {Kind: Retriable, Err: 19}, {Kind: Fatal, Err: 10}}, 2, true))
	out = append(out, MixScenario("corpus/mixed-response-3d", []PartFault{{Kind: NoBlock}, {Kind: Fatal, Err: 10}, {Kind: RetriableApp, Err: 19}}, 1, false))
	// retry exhaustion, plain
	out = append(out, &Scenario{Name: "corpus/out-of-retries", Brokers: 1, Partitions: 2, Topics: []string{"t0"}, RetryMax: 1, V2: true,
		Msgs:   []MsgSpec{two(1), {ID: 2, Topic: "t0", Choice: 1}, two(3), {ID: 4, Topic: "t0", Choice: 1}},
		Script: []Fault{{Kind: Retriable, Err: 6, Only: -1}, {Kind: Retriable, Err: 6, Only: -1}, {Kind: Retriable, Err: 6, Only: -1}}})
	// Retry.Max = 0 with a failing block and a dropped connection
	out = append(out, &Scenario{Name: "corpus/retry0-abandon", Brokers: 2, Partitions: 2, Topics: []string{"t0"}, RetryMax: 0, V2: true,
		Msgs:   []MsgSpec{two(1), {ID: 2, Topic: "t0", Choice: 1}, two(3), {ID: 4, Topic: "t0", Choice: 1, Wave: 1}, {ID: 5, Topic: "t0", Choice: 0, Wave: 1}},
		Script: []Fault{{Kind: Fatal, Err: 10, Only: -1}, {Kind: DropBefore, Only: -1}}})
	// Retry.Max = 0 with count-based batching: a message below the flush threshold sits in the buffer of a broker worker that
	// a per-partition error abandons; when the partition worker lets go of it, shutdown() must still send that message
	// (seeded C01-6: `for bp.buffer.readyToFlush()` dropped it)
	out = append(out, &Scenario{Name: "corpus/retry0-abandoned-leftover", Brokers: 1, Partitions: 1, Topics: []string{"t0"}, RetryMax: 0, FlushMsgs: 2, V2: true,
		Msgs:   []MsgSpec{two(1), two(2), {ID: 3, Topic: "t0", Choice: 0, Wave: 1}, {ID: 4, Topic: "t0", Choice: 0, Wave: 2}},
		Script: []Fault{{Kind: Fatal, Err: 10, Only: -1}},
		// request 1 stays in the bridge until message 3 is buffered; message 4 is submitted right after the response was handled
		Holds: []HoldSpec{{Kind: "bridge.send", Nth: 1, Until: "bp.add", UntilNth: 3}, {Kind: "return.error", Nth: 2}}})
	// fresh input inside the retry window (steered)
	out = append(out, &Scenario{Name: "corpus/fresh-input-in-retry-window", Brokers: 1, Partitions: 1, Topics: []string{"t0"}, RetryMax: 2, V2: true,
		Msgs:   []MsgSpec{two(1), two(2), {ID: 3, Topic: "t0", Choice: 0, Wave: 1}, {ID: 4, Topic: "t0", Choice: 0, Wave: 1}},
		Script: []Fault{{Kind: Retriable, Err: 6, Only: -1}, {Kind: Retriable, Err: 7, Only: -1}}, Holds: []HoldSpec{{Kind: "pp.newHWM", Nth: 1}}})
	// nested retry levels: the chaser of level 1 is held in the old broker worker until the message bounced again
	// (partition worker at level 2), so it comes back as a fin of a LOWER level
	out = append(out, &Scenario{Name: "corpus/lower-level-fin", Brokers: 1, Partitions: 1, Topics: []string{"t0"}, RetryMax: 2, V2: true,
		Msgs:   []MsgSpec{two(1), two(2)},
		Script: []Fault{{Kind: Retriable, Err: 6, Only: -1}, {Kind: Retriable, Err: 6, Only: -1}, {Kind: Retriable, Err: 7, Only: -1}},
		Holds: []HoldSpec{{Kind: "bp.recv", Nth: 1, Fin: true, Until: "pp.newHWM", UntilNth: 2},
			{Kind: "bp.recv", Nth: 2, Fin: true, Until: "pp.recv", UntilNth: 1, UntilFin: true}}})
	// the leader lookup fails exactly when a retry level is flushed with a parked message; later the leader is back
	// and the partition goes through a second retry episode (seeded mutation C01-1: buffer failed but not cleared)
	out = append(out, FlushFail("corpus/leader-unavailable-at-flush", 1, 1, 3, 1, 6, 0))
	out = append(out, FlushFail("corpus/leader-unavailable-at-flush-2", 2, 2, 2, 2, 7, 1))
	// idempotent: a batch re-sent by retryBatch fails on the connection (retries + 2) while the leader is unavailable; the
	// partition worker, whose level 1 ended on the failed lookup, then meets retries = 2 without a broker worker.  Pinned
	// tree: nil-pointer panic in newHighWatermark (signature c01:nil-broker-producer-at-new-level); repaired by
	// fixes/c01_newhwm_nil_broker_producer.patch (the lookup comes first, a failure fails the message)
	out = append(out, &Scenario{Name: "corpus/nil-bp-at-new-level", Brokers: 1, Partitions: 1, Topics: []string{"t0"}, RetryMax: 2, Idempotent: true, V2: true,
		Msgs:   []MsgSpec{two(1), {ID: 2, Topic: "t0", Choice: 0, Wave: 1}},
		Script: []Fault{{Kind: Retriable, Err: 6, Only: -1}, {Kind: DropBefore, Only: -1, MetaDown: true}},
		Holds:  []HoldSpec{{Kind: "bp.response", Nth: 1}, {Kind: "pp.newHWM", Nth: 1, Until: "bp.response", UntilNth: 2}}})
	// two-level jump: the message is bounced a second time after its first level was flushed (0 -> 2, level 1 never
	// expects a chaser); the leader is unavailable when the level-2 chaser comes back, so the lookup fails at the
	// intermediate level 1 and flushRetryBuffers must still unwind to level 0 (seeded C12-8: it returned at level 1 and
	// every later first-pass message stayed parked: Close hangs)
	out = append(out, TwoLevelFlushFail("corpus/two-level-flush-leaderless", 1, 1, 2, 1, 6, 0, false))
	out = append(out, TwoLevelFlushFail("corpus/two-level-flush-leaderless-back", 1, 1, 3, 2, 6, 0, true))
	out = append(out, TwoLevelFlushFail("corpus/two-level-flush-leaderless-2", 2, 2, 3, 1, 7, 1, true))
	// connection drop, leader move, metadata failure
	out = append(out, &Scenario{Name: "corpus/drop-and-move", Brokers: 2, Partitions: 2, Topics: []string{"t0"}, RetryMax: 2, V2: true, FlushMsgs: 2,
		Msgs:   []MsgSpec{two(1), {ID: 2, Topic: "t0", Choice: 1}, two(3), {ID: 4, Topic: "t0", Choice: 1}, two(5)},
		Script: []Fault{{Kind: DropAfter, Only: -1}, {Kind: LeaderMoved, Only: 0, MetaFail: 1}, {Kind: NoBlock, Only: 0}}})
	// rejections in the dispatcher / topic worker / buffer
	out = append(out, &Scenario{Name: "corpus/rejections", Brokers: 1, Partitions: 2, Topics: []string{"t0"}, RetryMax: 1, V2: false, MaxBytes: 300,
		Msgs: []MsgSpec{{ID: 1, Topic: "t0", Choice: 0, Headers: true}, {ID: 2, Topic: "t0", Choice: 0, Pad: 400}, {ID: 3, Topic: "t0", PErr: true},
			{ID: 4, Topic: "t0", Choice: 7}, {ID: 5, Topic: "t0", Choice: 1, EncFail: true}, {ID: 6, Topic: "t0", Choice: 1}}})
	// batching limits: MaxMessages and per-partition byte limit force waitForSpace
	out = append(out, &Scenario{Name: "corpus/wait-for-space", Brokers: 1, Partitions: 1, Topics: []string{"t0"}, RetryMax: 1, V2: true, MaxBytes: 300, MaxMsgs: 2, FlushMsgs: 2,
		Msgs:   []MsgSpec{{ID: 1, Topic: "t0", Pad: 80}, {ID: 2, Topic: "t0", Pad: 80}, {ID: 3, Topic: "t0", Pad: 80}, {ID: 4, Topic: "t0", Pad: 80}, {ID: 5, Topic: "t0"}},
		Script: []Fault{{Kind: Ok, Only: -1}, {Kind: Retriable, Err: 19, Only: -1}}})
	out = append(out, &Scenario{Name: "corpus/sync", Brokers: 1, Partitions: 2, Topics: []string{"t0"}, RetryMax: 1, V2: true, Sync: true,
		Msgs:   []MsgSpec{two(1), {ID: 2, Topic: "t0", Choice: 1}, two(3), {ID: 4, Topic: "t0", PErr: true}},
		Script: []Fault{{Kind: Retriable, Err: 6, Only: 0}, {Kind: Fatal, Err: 10, Only: -1}}})
	out = append(out, &Scenario{Name: "corpus/noacks", Brokers: 1, Partitions: 1, Topics: []string{"t0"}, RetryMax: 1, V2: true, NoAcks: true,
		Msgs: []MsgSpec{two(1), two(2), two(3)}})
	for i, s := range out {
		if s.Extra == nil {
			s.Extra = map[string]int{}
		}
		s.Extra["corpus"] = i
	}
	return out
}

// Name helper for generated scenarios.
func GenName(class string, seed int64, i int) string {
	return fmt.Sprintf("%s/seed%d/%d", class, seed, i)
}

// FlushFail builds the steered history "retry level 1, messages parked behind the chaser, leader lookup fails at the
// flush, leader back, second retry episode" on partition 0 of t0 (non-idempotent; the idempotent producer re-sends
// through retryBatch and never raises the partition worker's level here).
func FlushFail(name string, brokers, partitions, retryMax, parked int, errCode int16, chanBuf int) *Scenario {
	sc := &Scenario{Name: name, Brokers: brokers, Partitions: partitions, Topics: []string{"t0"}, RetryMax: retryMax, V2: true, ChanBuf: chanBuf}
	id := int64(1)
	sc.Msgs = append(sc.Msgs, MsgSpec{ID: id, Topic: "t0", Choice: 0}) // m1: bounced, then fails on the leader lookup
	for i := 0; i < parked; i++ {                                      // parked at level 0 while the fin travels
		id++
		sc.Msgs = append(sc.Msgs, MsgSpec{ID: id, Topic: "t0", Choice: 0, Wave: 1})
	}
	id++
	sc.Msgs = append(sc.Msgs, MsgSpec{ID: id, Topic: "t0", Choice: 0, Wave: 2}) // second retry episode
	if partitions > 1 {
		id++
		sc.Msgs = append(sc.Msgs, MsgSpec{ID: id, Topic: "t0", Choice: 1, Wave: 2})
	}
	sc.Script = []Fault{{Kind: Retriable, Err: errCode, Only: -1, MetaDown: true}, {Kind: Retriable, Err: errCode, Only: -1}}
	// the fin of level 1 is held in the old broker worker until the parked messages reached the partition worker
	sc.Holds = []HoldSpec{{Kind: "bp.recv", Nth: 1, Fin: true, Until: "pp.recv", UntilNth: 2 + parked}}
	sc.WaveWaits = []int{0, 0, 1 + parked}
	sc.MetaUpAtWave = 2
	return sc
}

// TwoLevelFlushFail: m1 is bounced, retried through a first level (leader available), bounced again while the
// metadata goes down: the partition worker jumps from level 0 to level 2, m1 fails on the lookup, and when the level-2
// chaser returns the flush fails its lookup at level 1 (which expects no chaser) and again at level 0.  `later`
// first-pass messages follow (wave 1, after m1's error; leader still unavailable: they must fail, not stay parked);
// with back, the leader returns before a last wave whose messages must succeed.
func TwoLevelFlushFail(name string, brokers, partitions, retryMax, later int, errCode int16, chanBuf int, back bool) *Scenario {
	if retryMax < 2 {
		retryMax = 2
	}
	sc := &Scenario{Name: name, Brokers: brokers, Partitions: partitions, Topics: []string{"t0"}, RetryMax: retryMax, V2: true, ChanBuf: chanBuf}
	id := int64(1)
	sc.Msgs = append(sc.Msgs, MsgSpec{ID: id, Topic: "t0", Choice: 0})
	for i := 0; i < later; i++ {
		id++
		sc.Msgs = append(sc.Msgs, MsgSpec{ID: id, Topic: "t0", Choice: 0, Wave: 1})
	}
	if partitions > 1 {
		id++
		sc.Msgs = append(sc.Msgs, MsgSpec{ID: id, Topic: "t0", Choice: 1, Wave: 1})
	}
	sc.Script = []Fault{{Kind: Retriable, Err: errCode, Only: -1}, {Kind: Retriable, Err: errCode, Only: -1, MetaDown: true}}
	sc.WaveWaits = []int{0, 1}
	if back {
		id++
		sc.Msgs = append(sc.Msgs, MsgSpec{ID: id, Topic: "t0", Choice: 0, Wave: 2})
		sc.WaveWaits = append(sc.WaveWaits, int(id)-1)
		sc.MetaUpAtWave = 2
	}
	return sc
}

// MixScenario: len(mix) partitions led by one broker, one message each, Flush.Messages = len(mix) so that they travel in
// ONE produce request whose response gives partition i the verdict mix[i]; a second request (the retries) is mixed too.
func MixScenario(name string, mix []PartFault, retryMax int, idem bool) *Scenario {
	sc := &Scenario{Name: name, Brokers: 1, Partitions: len(mix), Topics: []string{"t0"}, RetryMax: retryMax, FlushMsgs: len(mix), V2: true, Idempotent: idem}
	for i := range mix {
		sc.Msgs = append(sc.Msgs, MsgSpec{ID: int64(i + 1), Topic: "t0", Choice: int32(i)})
	}
	rev := make([]PartFault, len(mix))
	for i := range mix {
		rev[len(mix)-1-i] = mix[i]
	}
	sc.Script = []Fault{{Only: -1, Mix: mix}, {Only: -1, Mix: rev}}
	return sc
}

// MixedVerdicts draws a scenario of that shape: 2-3 partitions on one broker, 1-2 messages per partition flushed together,
// two or three mixed responses.
func MixedVerdicts(r *rand.Rand, name string, ics bool) *Scenario {
	np := 2 + r.Intn(2)
	per := 1 + r.Intn(2)
	sc := &Scenario{Name: name, Brokers: 1, Partitions: np, Topics: []string{"t0"}, RetryMax: 1 + r.Intn(2), FlushMsgs: np * per, V2: r.Intn(4) != 0,
		Idempotent: r.Intn(3) == 0}
	if sc.Idempotent {
		sc.V2 = true
	}
	id := int64(0)
	for k := 0; k < per; k++ {
		for p := 0; p < np; p++ {
			id++
			sc.Msgs = append(sc.Msgs, MsgSpec{ID: id, Topic: "t0", Choice: int32(p)})
		}
	}
	kinds := []PartFault{{Kind: Ok}, {Kind: Retriable, Err: 6}, {Kind: Retriable, Err: 7}, {Kind: RetriableApp, Err: 19}, {Kind: Fatal, Err: 10}, {Kind: Fatal, Err: 2},
		{Kind: NoBlock}, {Kind: Duplicate}, {Kind: LeaderMoved}}
	for q := 0; q < 2+r.Intn(2); q++ {
		var mix []PartFault
		for p := 0; p < np; p++ {
			mix = append(mix, kinds[r.Intn(len(kinds))])
		}
		sc.Script = append(sc.Script, Fault{Only: -1, Mix: mix})
	}
	if ics {
		sc.Ics = []IcSpec{{AddHeader: true}, {Shape: []string{"", "func", "struct"}[r.Intn(3)], PanicOn: []int64{1 + int64(r.Intn(int(id)))}}, {AddHeader: r.Intn(2) == 0}}
	}
	return sc
}
