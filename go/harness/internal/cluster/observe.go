// Package cluster is the producer-side cluster simulator and hook observer used by the C01/C18a checks and
// reusable by C02/C04/C05: scripted mock brokers (fault script per produce request, per-partition log),
// an observer that records the producer's hook points per goroutine and can hold a goroutine at a point
// (schedule steering), scenario generation, and the property monitor.
package cluster

import (
	"bytes"
	"math/rand"
	"runtime"
	"strconv"
	"sync"
	"time"

	"github.com/Shopify/sarama"
)

// Ev is one recorded hook point.
type Ev struct {
	Seq  int // global arrival order at the observer (diagnostics only; never compared)
	Goid int64
	*sarama.VerifProdEvent
	// interceptor.apply (recorded by the harness' interceptors, not a hook): interceptor index, panicked
	IcIndex int
	IcPanic bool
}

// Gate is a steering handle: the goroutine that reaches the chosen point blocks until Release.
type Gate struct {
	kind    string
	nth     int
	match   func(*sarama.VerifProdEvent) bool
	Reached chan struct{}
	release chan struct{}
	once    sync.Once
	hit     int
	// optional: release by itself when the untilNth occurrence of untilKind is observed
	untilKind  string
	untilNth   int
	untilHit   int
	untilMatch func(*sarama.VerifProdEvent) bool
}

// ReleaseOn makes the gate open by itself at the nth occurrence of kind.
func (g *Gate) ReleaseOn(kind string, nth int, match func(*sarama.VerifProdEvent) bool) {
	g.untilKind, g.untilNth, g.untilMatch = kind, nth, match
}

// Release lets the held goroutine continue (idempotent).
func (g *Gate) Release() { g.once.Do(func() { close(g.release) }) }

// Observer collects the hook points of ONE producer run (install, run, uninstall; runs are sequential
// within a process).
type Observer struct {
	mu      sync.Mutex
	evs     []Ev
	gates   []*Gate
	jitter  *rand.Rand // nil: no jitter
	jmu     sync.Mutex
	maxHold time.Duration
}

func goid() int64 {
	var buf [64]byte
	n := runtime.Stack(buf[:], false)
	// "goroutine 123 [running]:"
	f := bytes.Fields(buf[:n])
	if len(f) < 2 {
		return -1
	}
	id, _ := strconv.ParseInt(string(f[1]), 10, 64)
	return id
}

// NewObserver creates an observer; jitterSeed != 0 adds seeded random yields/sleeps at hook points.
func NewObserver(jitterSeed int64) *Observer {
	o := &Observer{maxHold: time.Second}
	if jitterSeed != 0 {
		o.jitter = rand.New(rand.NewSource(jitterSeed))
	}
	return o
}

// Hold arranges that the nth (1-based) occurrence of kind satisfying match (nil = any) blocks until Release
// (or 1 s, to keep a wrong steering script from hanging the run).
func (o *Observer) Hold(kind string, nth int, match func(*sarama.VerifProdEvent) bool) *Gate {
	g := &Gate{kind: kind, nth: nth, match: match, Reached: make(chan struct{}), release: make(chan struct{})}
	o.mu.Lock()
	o.gates = append(o.gates, g)
	o.mu.Unlock()
	return g
}

func (o *Observer) Install() {
	sarama.VerifSetObserver(func(kind string, args ...interface{}) {
		e := sarama.VerifProducerDecode(kind, args)
		if e == nil {
			return
		}
		o.record(Ev{VerifProdEvent: e})
	})
}

func (o *Observer) Uninstall() {
	sarama.VerifSetObserver(nil)
	o.mu.Lock()
	for _, g := range o.gates {
		g.Release()
	}
	o.mu.Unlock()
}

func (o *Observer) record(e Ev) {
	e.Goid = goid()
	var held *Gate
	o.mu.Lock()
	e.Seq = len(o.evs)
	o.evs = append(o.evs, e)
	for _, g := range o.gates {
		if g.untilKind != "" && g.untilKind == e.Kind && (g.untilMatch == nil || g.untilMatch(e.VerifProdEvent)) {
			g.untilHit++
			if g.untilHit == g.untilNth {
				g.Release()
			}
		}
		if g.kind == e.Kind && (g.match == nil || g.match(e.VerifProdEvent)) {
			g.hit++
			if g.hit == g.nth {
				held = g
			}
		}
	}
	o.mu.Unlock()
	if held != nil {
		close(held.Reached)
		select {
		case <-held.release:
		case <-time.After(o.maxHold):
		}
		return
	}
	if o.jitter != nil {
		o.jmu.Lock()
		r := o.jitter.Intn(100)
		o.jmu.Unlock()
		switch {
		case r < 20:
			runtime.Gosched()
		case r < 26:
			time.Sleep(time.Duration(50+r*10) * time.Microsecond)
		}
	}
}

// Events returns a copy of everything recorded so far.
func (o *Observer) Events() []Ev {
	o.mu.Lock()
	defer o.mu.Unlock()
	return append([]Ev(nil), o.evs...)
}
