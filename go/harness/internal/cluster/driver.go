package cluster

import (
	"encoding/json"
	"flag"
	"fmt"
	"io/ioutil"
	"log"
	"math/rand"
	"os"
	"strings"
	"sync"
	"time"

	"github.com/Shopify/sarama"

	"verifharness/internal/coqfmt"
)

// Main is the body of cmd/c01corr and cmd/c18prod: generate scenarios, run them against the source tree the
// binary was built with, evaluate the monitors, and write the local-trace-validation cases for Coq.
//
//	flags: -out DIR -seed N -n COUNT [-tier quick|thorough] [-replay FILE] [-dump]
func Main(property string) {
	out := flag.String("out", ".", "output directory")
	seed := flag.Int64("seed", 1, "seed")
	n := flag.Int("n", 200, "number of generated scenarios (besides the corpus)")
	tier := flag.String("tier", "quick", "quick|thorough")
	replay := flag.String("replay", "", "run only the scenario of this replay/sidecar JSON file")
	dump := flag.Bool("dump", false, "print every scenario result")
	flag.Parse()
	sarama.Logger = log.New(ioutil.Discard, "", 0)
	var pmu sync.Mutex
	var panics []string
	sarama.PanicHandler = func(v interface{}) {
		pmu.Lock()
		panics = append(panics, fmt.Sprint(v))
		pmu.Unlock()
	}
	takePanics := func() []string {
		pmu.Lock()
		defer pmu.Unlock()
		p := panics
		panics = nil
		return p
	}

	var scs []*Scenario
	if *replay != "" {
		raw, err := ioutil.ReadFile(*replay)
		if err != nil {
			fmt.Println("cannot read replay:", err)
			os.Exit(2)
		}
		var wrap struct {
			Case *struct {
				Scenario *Scenario `json:"scenario"`
			} `json:"case"`
		}
		if err := json.Unmarshal(raw, &wrap); err != nil || wrap.Case == nil || wrap.Case.Scenario == nil {
			fmt.Println("replay file has no case.scenario")
			os.Exit(2)
		}
		scs = []*Scenario{wrap.Case.Scenario}
	} else {
		scs = append(scs, Corpus()...)
		r := rand.New(rand.NewSource(*seed*7919 + int64(len(property))))
		for i := 0; i < *n; i++ {
			o := GenOpts{MaxScript: 3, MinMsgs: 3, MaxMsgs: 6, Ics: property == "C18a", Steer: i%4 == 3}
			if *tier == "thorough" && i%3 == 0 {
				o = GenOpts{MaxScript: 30, MinMsgs: 10, MaxMsgs: 40, Ics: property == "C18a", Steer: i%4 == 3}
			}
			if i%10 == 4 {
				// a share of the runs: several partitions batched into one request, every partition with its own verdict
				scs = append(scs, MixedVerdicts(r, GenName(property, *seed, i), property == "C18a"))
				continue
			}
			if i%10 == 9 {
				// a share of the runs: leader unavailable exactly at a retry-level flush, then a second retry episode
				codes := []int16{6, 7, 19, 3, 5}
				if i%20 == 19 {
					// ... or at the intermediate level of a two-level jump (0 -> 2), the flush must unwind to level 0
					scs = append(scs, TwoLevelFlushFail(GenName(property, *seed, i), 1+r.Intn(2), 1+r.Intn(2), 2+r.Intn(2), 1+r.Intn(3),
						codes[r.Intn(len(codes))], []int{0, 1, 256}[r.Intn(3)], r.Intn(2) == 0))
					continue
				}
				scs = append(scs, FlushFail(GenName(property, *seed, i), 1+r.Intn(2), 1+r.Intn(2), 1+r.Intn(3), 1+r.Intn(3),
					codes[r.Intn(len(codes))], []int{0, 1, 256}[r.Intn(3)]))
				continue
			}
			scs = append(scs, Gen(r, GenName(property, *seed, i), o))
		}
	}

	w := &coqfmt.Writer{Dir: *out, Prefix: "cases_" + property, Imports: "From SV Require Import Producer.Msg Producer.Actors Producer.Corr.",
		CaseType: "case", MismatchFn: "mismatches_producer", ShardSize: 40}
	monitor := MonitorC01
	if property == "C18a" {
		monitor = MonitorC18a
	}
	t0 := time.Now()
	totalSteps := 0
	confirmed := map[string]bool{}
	for _, sc := range scs {
		res := Run(sc)
		pan := takePanics()
		fs := monitor(res)
		if len(pan) > 0 {
			fs = append([]Finding{{panicSignature(res, sc, pan[0]), "a producer goroutine panicked: " + pan[0]}}, fs...) // the cause first
		}
		if len(fs) > 0 && !allConfirmed(fs, confirmed) {
			// anything observed once is re-run: only a failure seen twice counts (a signature confirmed that way
			// earlier in this run is not re-run again)
			res2 := Run(sc)
			pan2 := takePanics()
			fs2 := monitor(res2)
			if len(pan2) > 0 {
				fs2 = append([]Finding{{panicSignature(res2, sc, pan2[0]), "a producer goroutine panicked: " + pan2[0]}}, fs2...)
			}
			var both []Finding
			for _, f := range fs {
				for _, g := range fs2 {
					if f.Signature == g.Signature {
						both = append(both, f)
						break
					}
				}
			}
			fs = both
			if len(fs) == 0 {
				res = res2
			}
			for _, f := range fs {
				confirmed[f.Signature] = true
			}
		}
		side := coqfmt.Sidecar{Kind: kindOf(sc), Nontrivial: nontrivial(sc, res)}
		summary := map[string]interface{}{"scenario": sc, "outcomes": res.Outcomes, "close_ok": res.CloseOK, "requests": len(res.Requests),
			"hook_points": len(res.Events), "interceptor_calls": res.IcCalls, "wall_ms": res.Wall.Milliseconds()}
		if sc.Sync {
			summary["sync_returns"] = res.SyncReturns
		}
		if res.SetupErr != "" {
			summary["setup_error"] = res.SetupErr
		}
		side.Case = summary
		if len(fs) > 0 {
			side.Monitor = &coqfmt.Monitor{Signature: fs[0].Signature, What: fs[0].What + " [" + sc.Name + "]"}
		}
		term := ""
		if res.SetupErr == "" && res.CloseOK {
			var steps int
			var problem string
			term, steps, problem = BuildCase(res)
			totalSteps += steps
			if problem != "" {
				summary["trace_problem"] = problem
				term = ""
			}
		}
		if term == "" {
			// keep the case list aligned with the sidecar: an empty log always validates
			term = "mkCase " + sc.CoqCfg() + " [] [] [] [] [] [] [] []"
			if res.SetupErr != "" || !res.CloseOK {
				side.Nontrivial = false
			} else {
				// a log that cannot be segmented is a broken tie, not silently skipped
				term = "mkCase " + sc.CoqCfg() + " [] [] [] [] [] [] [] [(0, true, 0)]"
			}
		}
		if *dump && *replay != "" {
			for _, e := range res.Events {
				line := fmt.Sprintf("EV %4d g%-4d %-18s", e.Seq, e.Goid, e.Kind)
				if e.Msg != nil {
					line += fmt.Sprintf(" msg{id=%d r=%d f=%d p=%d seq=%d/%d/%v}", e.Msg.ID, e.Msg.Retries, e.Msg.Flags, e.Msg.Partition, e.Msg.Seq, e.Msg.Epoch, e.Msg.HasSeq)
				}
				line += fmt.Sprintf(" err=%d flag=%v tp=%s/%d hwm=%d hasbp=%v leader=%d buf=%d closing=%v retrying=%v txn=%d lens=%v ch=%v", e.Err, e.Flag, e.Topic, e.Partition, e.HWM, e.HasBP, e.Leader, e.BufCount, e.Closing, e.Retrying, e.TxnEpoch, e.LevelBufLen, e.LevelChaser)
				for _, p := range e.Set {
					line += fmt.Sprintf(" [%s/%d v=%d:", p.Topic, p.Partition, p.Verdict)
					for _, m := range p.Msgs {
						line += fmt.Sprintf(" %d(r%d)", m.ID, m.Retries)
					}
					line += "]"
				}
				if e.Kind == "bp.response" {
					line += fmt.Sprintf(" resperr=%d", e.RespErr)
				}
				fmt.Println(line)
			}
		}
		if *dump {
			js, _ := json.Marshal(summary)
			fmt.Printf("SCENARIO %s findings=%v wall=%v %s\n", sc.Name, fs, res.Wall, js)
		}
		w.Add("("+term+")", side)
	}
	w.Close()
	fmt.Printf("RAN %d scenarios, %d actor steps, %.1fs\n", len(scs), totalSteps, time.Since(t0).Seconds())
}

func kindOf(sc *Scenario) string {
	k := "plain"
	if sc.Idempotent {
		k = "idempotent"
	}
	if sc.Sync {
		k += "+sync"
	}
	if len(sc.Holds) > 0 {
		k += "+steered"
	}
	if len(sc.Ics) > 0 {
		k += "+interceptors"
	}
	return k
}

// nontrivial: at least one request faulted, or at least two messages share a partition (DESIGN section 2).
func nontrivial(sc *Scenario, res *Result) bool {
	for i, r := range res.Requests {
		if i < len(sc.Script) && (r.Fault.Kind != Ok || len(r.Fault.Mix) > 0) {
			return true
		}
	}
	seen := map[string]bool{}
	for _, m := range sc.Msgs {
		k := fmt.Sprintf("%s/%d", m.Topic, m.Choice)
		if seen[k] {
			return true
		}
		seen[k] = true
	}
	return false
}

func allConfirmed(fs []Finding, confirmed map[string]bool) bool {
	for _, f := range fs {
		if !confirmed[f.Signature] {
			return false
		}
	}
	return true
}

// panicSignature names the one panic with a known cause: newHighWatermark reached with brokerProducer == nil (the
// previous retry level ended on a failed leader lookup and a message with a higher retry count arrives: the fin
// chaser is sent through a nil broker producer).  Everything else keeps the generic signature.
func panicSignature(res *Result, sc *Scenario, text string) string {
	// a panic raised by (or while containing the panic of) a configured interceptor left safelyApplyInterceptor
	if len(sc.Ics) > 0 && (strings.Contains(text, "scripted interceptor panic") || strings.Contains(text, "unhashable") ||
		strings.Contains(text, "nil pointer") && !anyNewHWMWithoutBP(res)) {
		return "c18a:panic-escaped"
	}
	for _, e := range res.Events {
		if e.VerifProdEvent != nil && e.Kind == "pp.newHWM" && !e.HasBP {
			return "c01:nil-broker-producer-at-new-level"
		}
	}
	return "c01:panic:" + sc.shape()
}

func anyNewHWMWithoutBP(res *Result) bool {
	for _, e := range res.Events {
		if e.VerifProdEvent != nil && e.Kind == "pp.newHWM" && !e.HasBP {
			return true
		}
	}
	return false
}
