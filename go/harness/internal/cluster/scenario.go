package cluster

import (
	"fmt"
	"strings"
	"sync"
	"time"

	"github.com/Shopify/sarama"
)

// MsgSpec is one message the application submits.
type MsgSpec struct {
	ID      int64  `json:"id"`
	Topic   string `json:"topic"`
	Choice  int32  `json:"choice"`            // what the scripted partitioner answers (index = partition id)
	PErr    bool   `json:"perr,omitempty"`    // the partitioner fails instead
	Pad     int    `json:"pad,omitempty"`     // extra value bytes
	Headers bool   `json:"headers,omitempty"` // carries a header
	EncFail bool   `json:"encfail,omitempty"` // the value encoder fails
	// Wave: messages of wave 0 are submitted at once; wave k>0 after gate k-1 was reached (steering) or, when
	// the scenario has no such gate, after a short pause.
	Wave int `json:"wave,omitempty"`
}

// IcSpec is one configured producer interceptor (index = position in the chain).
type IcSpec struct {
	AddHeader bool    `json:"addheader,omitempty"` // mutates: appends a header (a second application is observable)
	PanicOn   []int64 `json:"panicon,omitempty"`   // panics (before mutating) for these message ids
	// Nil: the chain holds a nil entry at this position: calling it panics inside safelyApplyInterceptor (contained)
	Nil bool `json:"nil,omitempty"`
	// Shape: dynamic type of the configured value: "" = pointer to struct; "func" = a func-typed adapter implementing the
	// interface; "struct" = a struct held BY VALUE with a slice field.  The last two are unhashable: code that uses the
	// interceptor value as a map key panics with "hash of unhashable type".
	Shape string `json:"shape,omitempty"`
}

// funcInterceptor adapts a function to sarama.ProducerInterceptor (unhashable dynamic type).
type funcInterceptor func(*sarama.ProducerMessage)

func (f funcInterceptor) OnSend(m *sarama.ProducerMessage) { f(m) }

// valueInterceptor is used by value and holds a slice (unhashable dynamic type).
type valueInterceptor struct {
	inner *interceptor
	tags  []string
}

func (v valueInterceptor) OnSend(m *sarama.ProducerMessage) { v.inner.OnSend(m) }

// HoldSpec steers the schedule: hold the Nth occurrence of hook Kind until the next wave was submitted.
type HoldSpec struct {
	Kind string `json:"kind"`
	Nth  int    `json:"nth"`
	Fin  bool   `json:"fin,omitempty"` // count only occurrences whose message is a fin marker
	// Until/UntilNth: the gate opens by itself at that occurrence (otherwise when the next wave was submitted)
	Until    string `json:"until,omitempty"`
	UntilNth int    `json:"untilnth,omitempty"`
	UntilFin bool   `json:"untilfin,omitempty"` // count only occurrences of Until whose message is a fin marker
}

// Scenario is one deterministic description of a run.
type Scenario struct {
	Name       string         `json:"name"`
	Brokers    int            `json:"brokers"`
	Partitions int            `json:"partitions"` // of every topic
	Topics     []string       `json:"topics"`
	RetryMax   int            `json:"retrymax"`
	FlushMsgs  int            `json:"flushmsgs"` // Flush.Messages (0 = immediate)
	MaxMsgs    int            `json:"maxmsgs"`   // Flush.MaxMessages (0 = none)
	Idempotent bool           `json:"idempotent"`
	V2         bool           `json:"v2"`      // protocol generation >= 0.11 (record batches); false: 0.10 message sets
	NoAcks     bool           `json:"noacks"`  // RequiredAcks = NoResponse
	ChanBuf    int            `json:"chanbuf"` // ChannelBufferSize
	MaxBytes   int            `json:"maxbytes"`
	Msgs       []MsgSpec      `json:"msgs"`
	Script     []Fault        `json:"script"`
	Ics        []IcSpec       `json:"ics,omitempty"`
	Holds      []HoldSpec     `json:"holds,omitempty"` // Holds[k] gates wave k+1
	Jitter     int64          `json:"jitter,omitempty"`
	Sync       bool           `json:"sync,omitempty"` // drive through a SyncProducer (SendMessages per wave)
	Extra      map[string]int `json:"extra,omitempty"`
	// WaveWaits[w] > 0: wave w is submitted only after that many terminal events were received (2 s bound).
	WaveWaits []int `json:"wavewaits,omitempty"`
	// MetaUpAtWave > 0: a Fault.MetaDown period ends just before that wave is submitted.
	MetaUpAtWave int `json:"metaupatwave,omitempty"`
}

// Meta is what the harness stores in ProducerMessage.Metadata.
type Meta struct {
	Spec MsgSpec
	run  *runState
}

func (m *Meta) VerifID() int64 { return m.Spec.ID }

type scriptedPartitioner struct{}

func (scriptedPartitioner) RequiresConsistency() bool { return true }
func (scriptedPartitioner) Partition(msg *sarama.ProducerMessage, n int32) (int32, error) {
	m := msg.Metadata.(*Meta)
	if m.Spec.PErr {
		return 0, sarama.VerifProdError(1006)
	}
	return m.Spec.Choice, nil
}

type failEncoder struct{ n int }

func (f failEncoder) Encode() ([]byte, error) { return nil, sarama.VerifProdError(1011) }
func (f failEncoder) Length() int             { return f.n }

// IcCall is one interceptor invocation as seen by the interceptor itself.
type IcCall struct {
	ID      int64 `json:"id"`
	Index   int   `json:"index"`
	Retries int   `json:"-"`
	Goid    int64 `json:"-"`
}

type interceptor struct {
	idx  int
	spec IcSpec
	run  *runState
}

type runState struct {
	mu    sync.Mutex
	calls []IcCall
	obs   *Observer
}

func (ic *interceptor) OnSend(msg *sarama.ProducerMessage) {
	id := int64(-1)
	if m, ok := msg.Metadata.(*Meta); ok {
		id = m.Spec.ID
	}
	ic.run.mu.Lock()
	ic.run.calls = append(ic.run.calls, IcCall{ID: id, Index: ic.idx, Goid: goid()})
	ic.run.mu.Unlock()
	pan := false
	for _, p := range ic.spec.PanicOn {
		if p == id {
			pan = true
		}
	}
	ic.run.obs.record(Ev{VerifProdEvent: &sarama.VerifProdEvent{Kind: "interceptor.apply", Msg: &sarama.VerifProdMsg{ID: id}, Leader: -1}, IcIndex: ic.idx, IcPanic: pan})
	if pan {
		panic("verif: scripted interceptor panic")
	}
	if ic.spec.AddHeader {
		msg.Headers = append(msg.Headers, sarama.RecordHeader{Key: []byte(fmt.Sprintf("i%d", ic.idx)), Value: []byte("x")})
	}
}

// Outcome is one terminal event the application received.
type Outcome struct {
	ID         int64 `json:"id"`
	Success    bool  `json:"success"`
	Err        int   `json:"err"`
	Partition  int32 `json:"partition"`
	Offset     int64 `json:"offset"`
	AfterClose bool  `json:"afterclose,omitempty"`
}

// Result is everything observed in one run.
type Result struct {
	Scenario     *Scenario
	Outcomes     []Outcome // in arrival order per channel: successes first then errors (order across channels is not observable)
	SyncReturns  []Outcome // Sync scenarios: what SendMessages reported per message
	CloseOK      bool      // Close()/channel closure completed within the bound
	InputBlocked bool      // a send on Input() did not complete within 5 s (the pipeline is stuck)
	ChansClosed  bool
	Events       []Ev
	IcCalls      []IcCall
	Requests     []ReqLog
	Logs         map[string][]Appended
	HeldReached  []bool
	SetupErr     string
	Wall         time.Duration
}

func (sc *Scenario) Config() *sarama.Config {
	cfg := sarama.NewConfig()
	if sc.V2 || sc.Idempotent {
		cfg.Version = sarama.V0_11_0_0
	} else {
		cfg.Version = sarama.V0_10_0_0
	}
	cfg.Producer.Return.Successes = true
	cfg.Producer.Return.Errors = true
	cfg.Producer.Retry.Max = sc.RetryMax
	cfg.Producer.Retry.Backoff = time.Millisecond
	cfg.Producer.Flush.Messages = sc.FlushMsgs
	cfg.Producer.Flush.MaxMessages = sc.MaxMsgs
	if sc.FlushMsgs > 0 {
		cfg.Producer.Flush.Frequency = 3 * time.Millisecond
	}
	cfg.Producer.Partitioner = func(string) sarama.Partitioner { return scriptedPartitioner{} }
	if sc.MaxBytes > 0 {
		cfg.Producer.MaxMessageBytes = sc.MaxBytes
	}
	cfg.ChannelBufferSize = sc.ChanBuf
	cfg.Metadata.Retry.Max = 1
	cfg.Metadata.Retry.Backoff = time.Millisecond
	cfg.Metadata.RefreshFrequency = 0
	cfg.Net.ReadTimeout = 250 * time.Millisecond
	cfg.Net.DialTimeout = 250 * time.Millisecond
	cfg.Net.WriteTimeout = 250 * time.Millisecond
	if sc.NoAcks {
		cfg.Producer.RequiredAcks = sarama.NoResponse
	}
	if sc.Idempotent {
		cfg.Producer.Idempotent = true
		cfg.Producer.RequiredAcks = sarama.WaitForAll
		cfg.Net.MaxOpenRequests = 1
	}
	return cfg
}

func (sc *Scenario) message(s MsgSpec, rs *runState) *sarama.ProducerMessage {
	val := fmt.Sprintf("%d", s.ID)
	if s.Pad > 0 {
		val += ":" + strings.Repeat("p", s.Pad)
	}
	m := &sarama.ProducerMessage{Topic: s.Topic, Metadata: &Meta{Spec: s, run: rs}}
	if s.EncFail {
		m.Value = failEncoder{n: len(val)}
	} else {
		m.Value = sarama.StringEncoder(val)
	}
	if s.Headers {
		m.Headers = []sarama.RecordHeader{{Key: []byte("h"), Value: []byte("v")}}
	}
	return m
}

const closeBound = 20 * time.Second

// hangsSeen counts runs of this process whose Close did not return (runs are sequential).
var hangsSeen int

// Run executes the scenario against the source tree the harness was built with.
func Run(sc *Scenario) *Result {
	t0 := time.Now()
	res := &Result{Scenario: sc}
	topics := map[string]int{}
	for _, t := range sc.Topics {
		topics[t] = sc.Partitions
	}
	cl := New(sc.Brokers, topics, sc.Script)
	if cl == nil {
		res.SetupErr = "cluster: cannot open a listener"
		return res
	}
	defer cl.Close()
	cfg := sc.Config()
	obs := NewObserver(sc.Jitter)
	rs := &runState{obs: obs}
	for i, s := range sc.Ics {
		if s.Nil {
			cfg.Producer.Interceptors = append(cfg.Producer.Interceptors, nil)
			continue
		}
		base := &interceptor{idx: i, spec: s, run: rs}
		switch s.Shape {
		case "func":
			cfg.Producer.Interceptors = append(cfg.Producer.Interceptors, funcInterceptor(base.OnSend))
		case "struct":
			cfg.Producer.Interceptors = append(cfg.Producer.Interceptors, valueInterceptor{inner: base, tags: []string{"by-value"}})
		default:
			cfg.Producer.Interceptors = append(cfg.Producer.Interceptors, base)
		}
	}
	var gates []*Gate
	for _, h := range sc.Holds {
		isFin := func(e *sarama.VerifProdEvent) bool { return e.Msg != nil && e.Msg.Flags&2 != 0 }
		var match, umatch func(*sarama.VerifProdEvent) bool
		if h.Fin {
			match = isFin
		}
		if h.UntilFin {
			umatch = isFin
		}
		g := obs.Hold(h.Kind, h.Nth, match)
		if h.Until != "" {
			g.ReleaseOn(h.Until, h.UntilNth, umatch)
		}
		gates = append(gates, g)
	}
	obs.Install()
	defer obs.Uninstall()

	client, err := sarama.NewClient(cl.Addrs(), cfg)
	if err != nil {
		res.SetupErr = "client: " + err.Error()
		return res
	}
	var prod sarama.AsyncProducer
	var sp sarama.SyncProducer
	if sc.Sync {
		sp, err = sarama.NewSyncProducerFromClient(client)
	} else {
		prod, err = sarama.NewAsyncProducerFromClient(client)
	}
	if err != nil {
		res.SetupErr = "producer: " + err.Error()
		_ = client.Close()
		return res
	}

	// collectors
	var omu sync.Mutex
	var succ, errs []Outcome
	closedS, closedE := make(chan struct{}), make(chan struct{})
	if !sc.Sync {
		go func() {
			for m := range prod.Successes() {
				id := int64(-1)
				if mm, ok := m.Metadata.(*Meta); ok {
					id = mm.Spec.ID
				}
				omu.Lock()
				succ = append(succ, Outcome{ID: id, Success: true, Partition: m.Partition, Offset: m.Offset})
				omu.Unlock()
			}
			close(closedS)
		}()
		go func() {
			for e := range prod.Errors() {
				id := int64(-1)
				if mm, ok := e.Msg.Metadata.(*Meta); ok {
					id = mm.Spec.ID
				}
				omu.Lock()
				errs = append(errs, Outcome{ID: id, Err: sarama.VerifProdErrClass(e.Err), Partition: e.Msg.Partition})
				omu.Unlock()
			}
			close(closedE)
		}()
	}

	// submit in waves
	maxWave := 0
	for _, m := range sc.Msgs {
		if m.Wave > maxWave {
			maxWave = m.Wave
		}
	}
	res.HeldReached = make([]bool, len(gates))
	var syncWG sync.WaitGroup
	for w := 0; w <= maxWave; w++ {
		if w < len(sc.WaveWaits) && sc.WaveWaits[w] > 0 {
			deadline := time.Now().Add(2 * time.Second)
			for time.Now().Before(deadline) {
				omu.Lock()
				n := len(succ) + len(errs)
				omu.Unlock()
				if n >= sc.WaveWaits[w] {
					break
				}
				time.Sleep(time.Millisecond)
			}
		}
		if sc.MetaUpAtWave > 0 && w == sc.MetaUpAtWave {
			cl.MetaUp()
			time.Sleep(2 * time.Millisecond)
		}
		if w > 0 {
			if w-1 < len(gates) {
				select {
				case <-gates[w-1].Reached:
					res.HeldReached[w-1] = true
				case <-time.After(60 * time.Millisecond):
				}
			} else {
				time.Sleep(4 * time.Millisecond)
			}
		}
		var wave []*sarama.ProducerMessage
		for _, m := range sc.Msgs {
			if m.Wave == w {
				wave = append(wave, sc.message(m, rs))
			}
		}
		if sc.Sync {
			syncWG.Add(1)
			go func(wave []*sarama.ProducerMessage) {
				defer syncWG.Done()
				err := sp.SendMessages(wave)
				failed := map[*sarama.ProducerMessage]error{}
				if pes, ok := err.(sarama.ProducerErrors); ok {
					for _, pe := range pes {
						failed[pe.Msg] = pe.Err
					}
				}
				omu.Lock()
				for _, m := range wave {
					o := Outcome{ID: m.Metadata.(*Meta).Spec.ID, Partition: m.Partition, Offset: m.Offset}
					if e, bad := failed[m]; bad {
						o.Err = sarama.VerifProdErrClass(e)
					} else {
						o.Success = true
					}
					res.SyncReturns = append(res.SyncReturns, o)
				}
				omu.Unlock()
			}(wave)
			// messages of a wave must have entered the producer before the gate is released
			time.Sleep(2 * time.Millisecond)
		} else if w > 0 && w-1 < len(gates) {
			// the pipeline may be blocked behind the held goroutine: submit from the side, release after the
			// first messages had a chance to enter, then wait for the submission to complete
			sub := make(chan struct{})
			go func() {
				for _, m := range wave {
					if !submit(prod, m) {
						res.InputBlocked = true
						break
					}
				}
				close(sub)
			}()
			select {
			case <-sub:
			case <-time.After(time.Millisecond):
			}
			if sc.Holds[w-1].Until == "" {
				gates[w-1].Release()
			}
			<-sub
		} else {
			for _, m := range wave {
				if !submit(prod, m) {
					res.InputBlocked = true
					break
				}
			}
		}
		if w > 0 && w-1 < len(gates) && sc.Holds[w-1].Until == "" {
			gates[w-1].Release()
		}
	}
	for i, g := range gates {
		if sc.Holds[i].Until == "" {
			g.Release()
		}
	}

	done := make(chan struct{})
	if sc.Sync {
		go func() {
			syncWG.Wait()
			_ = sp.Close()
			close(done)
		}()
	} else {
		prod.AsyncClose()
		go func() {
			<-closedS
			<-closedE
			close(done)
		}()
	}
	bound := closeBound
	if hangsSeen >= 2 {
		// a tree that hangs has been shown to hang at the full bound twice already: keep the check's run time bounded
		bound = 2 * time.Second
	}
	deadline := time.Now().Add(bound)
wait:
	for {
		select {
		case <-done:
			res.CloseOK, res.ChansClosed = true, true
			break wait
		case <-time.After(50 * time.Millisecond):
			if time.Now().After(deadline) {
				break wait
			}
			// once a chaser marker was treated as a message the partition worker waits for it forever: the hang
			// is then the known consequence, no need to sit out the full bound
			if ChaserAsMessage(obs.Events()) && time.Until(deadline) > 1500*time.Millisecond {
				deadline = time.Now().Add(1500 * time.Millisecond)
			}
		}
	}
	if res.CloseOK {
		_ = client.Close()
	} else {
		hangsSeen++
	}
	omu.Lock()
	res.Outcomes = append(append([]Outcome(nil), succ...), errs...)
	omu.Unlock()
	all := obs.Events()
	var mine interface{}
	for _, e := range all {
		if e.Kind == "dispatcher.recv" && e.Msg != nil && e.Msg.Ptr != nil {
			if mm, ok := e.Msg.Ptr.Metadata.(*Meta); ok && mm.run == rs {
				mine = e.Producer
				break
			}
		}
	}
	for _, e := range all {
		if e.Kind == "interceptor.apply" || (mine != nil && e.Producer == mine) {
			res.Events = append(res.Events, e)
		}
	}
	rs.mu.Lock()
	res.IcCalls = append([]IcCall(nil), rs.calls...)
	rs.mu.Unlock()
	res.Requests, res.Logs = cl.Snapshot()
	res.Wall = time.Since(t0)
	return res
}

// ChaserAsMessage reports whether a fin marker ("chaser") was handled as a data message by a broker worker:
// added to (or rejected by) a produce buffer, or given a terminal event. This is the history shape of the
// idempotent-path anomaly recorded for C05 (notes/C01.md).
func ChaserAsMessage(evs []Ev) bool {
	for _, e := range evs {
		if e.Msg == nil || e.Msg.Flags&2 == 0 {
			continue
		}
		switch e.Kind {
		case "bp.add", "bp.waitForSpace", "return.error", "return.success":
			return true
		}
	}
	return false
}

// submit sends on Input() with a bound: a stuck pipeline must not hang the harness.
func submit(p sarama.AsyncProducer, m *sarama.ProducerMessage) bool {
	bound := 5 * time.Second
	if hangsSeen >= 2 {
		bound = 1500 * time.Millisecond
	}
	select {
	case p.Input() <- m:
		return true
	case <-time.After(bound):
		hangsSeen++
		return false
	}
}
