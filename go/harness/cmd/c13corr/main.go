// c13corr: balance and stickiness of the real strategies. (probe version)
package main

import (
	"flag"
	"fmt"
	"math/rand"

	"github.com/Shopify/sarama"

	bg "verifharness/internal/balgen"
)

type nopLogger struct{}

func (nopLogger) Print(v ...interface{})                 {}
func (nopLogger) Printf(format string, v ...interface{}) {}
func (nopLogger) Println(v ...interface{})               {}

func main() {
	seed := flag.Int64("seed", 1, "seed")
	n := flag.Int("n", 1000, "chains")
	flag.Parse()
	sarama.Logger = nopLogger{}
	r := rand.New(rand.NewSource(*seed))
	cnt := map[string]int{}
	ex := map[string]string{}
	note := func(k, what string) {
		cnt[k]++
		if _, ok := ex[k]; !ok {
			ex[k] = what
		}
	}
	for c := 0; c < *n; c++ {
		ident := c%2 == 0
		w := bg.NewWorldIdent(rand.New(rand.NewSource(r.Int63())), 1+r.Intn(5), 1+r.Intn(3), 6, ident)
		var prevIn *bg.Input
		var prevPlan []bg.PlanEntry
		for s := 0; s < 6; s++ {
			change := ""
			if s > 0 {
				change = w.MutateKind(ident)
			}
			in := w.Input(false)
			run := bg.RunSticky(in)
			if run.Hang {
				note("hang", "")
				return
			}
			if run.RawPlan == nil {
				break
			}
			cnt["plans"]++
			if k, what := bg.Validity(&run.In, run.Plan); k != "" {
				note("invalid", what)
			}
			if b := bg.KafkaBalanced(&run.In, run.Plan); b != "" {
				note("unbalanced", b)
				if ident {
					note("unbalanced-ident", b)
				}
			}
			if prevPlan != nil {
				if sw := bg.PairSwap(prevPlan, run.Plan); sw != "" {
					note("pair-swap", sw)
				}
				among := map[string]bool{}
				for _, m := range prevIn.Members {
					if run.In.Subscribes(m.ID, "") || true {
						among[m.ID] = true
					}
				}
				switch {
				case change == "none":
					cnt["replans"]++
					if !bg.SamePlanSets(prevPlan, run.Plan) {
						note("fixed-point-broken", fmt.Sprint(bg.MovedBetween(prevPlan, run.Plan, among)))
					}
				case change == "leave" && ident:
					cnt["leaves"]++
					if mv := bg.MovedBetween(prevPlan, run.Plan, among); len(mv) > 0 {
						note("leave-moved", fmt.Sprint(mv))
					}
				case change == "join" && ident:
					cnt["joins"]++
					if mv := bg.MovedBetween(prevPlan, run.Plan, among); len(mv) > 0 {
						note("join-shuffled", fmt.Sprint(mv))
					}
				}
			}
			pi := run.In
			prevIn, prevPlan = &pi, run.Plan
			w.Feedback(run.RawPlan)
		}
	}
	fmt.Println(cnt)
	for k, v := range ex {
		fmt.Println(k, ":", v)
	}
}
