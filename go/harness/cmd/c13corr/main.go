// c13corr: balance of range / round-robin plans and balance + stickiness of sticky plans over honest rebalance chains,
// checked directly on the real strategies (monitor) and written as Coq cases for SV.C13.Corr.
package main

import (
	"encoding/json"
	"flag"
	"fmt"
	"math/rand"
	"os"
	"sort"

	"github.com/Shopify/sarama"

	bg "verifharness/internal/balgen"
	cf "verifharness/internal/coqfmt"
)

const imports = "From SV Require Import C08.Common C08.Range C08.RoundRobin C08.Sticky C08.Valid C08.Corr C13.Model C13.Corr.\nOpen Scope string_scope."

type caseJSON struct {
	Strategy string         `json:"strategy"`
	In       *bg.Input      `json:"in,omitempty"`
	Oracle   *bg.Oracle     `json:"oracle,omitempty"`
	Plan     []bg.PlanEntry `json:"plan,omitempty"`
	Prev     []bg.PlanEntry `json:"prev,omitempty"`
	HasPrev  bool           `json:"has_prev,omitempty"`
	Rel      int            `json:"rel"`
	Ident    bool           `json:"ident,omitempty"`
	Stay     []string       `json:"stay,omitempty"`
	Err      bool           `json:"err,omitempty"`
	Hang     bool           `json:"hang,omitempty"`
	Chain    string         `json:"chain,omitempty"`
	Step     int            `json:"step,omitempty"`
	Log      []string       `json:"log,omitempty"`
}

type nopLogger struct{}

func (nopLogger) Print(v ...interface{})                 {}
func (nopLogger) Printf(format string, v ...interface{}) {}
func (nopLogger) Println(v ...interface{})               {}

func planGet(plan []bg.PlanEntry, m, t string) []int32 {
	for _, e := range plan {
		if e.Member == m {
			for _, te := range e.Topics {
				if te.Topic == t {
					return te.Parts
				}
			}
		}
	}
	return nil
}

// rangeMonitor: per topic the subscribers, in hash order, hold consecutive slices of the partition list whose sizes are
// floor(n/m) or ceil(n/m). Skipped for a topic with a hash tie.
func rangeMonitor(in *bg.Input, plan []bg.PlanEntry) *cf.Monitor {
	for _, t := range in.Topics {
		var subs []string
		for _, m := range in.Members {
			if in.Subscribes(m.ID, t.Name) {
				subs = append(subs, m.ID)
			}
		}
		if len(subs) == 0 {
			continue
		}
		sort.SliceStable(subs, func(i, j int) bool {
			return sarama.VerifBalanceHash(t.Name, subs[i]) < sarama.VerifBalanceHash(t.Name, subs[j])
		})
		tie := false
		for i := 1; i < len(subs); i++ {
			if sarama.VerifBalanceHash(t.Name, subs[i]) == sarama.VerifBalanceHash(t.Name, subs[i-1]) {
				tie = true
			}
		}
		if tie {
			continue
		}
		n, m := len(t.Parts), len(subs)
		pos := 0
		for _, id := range subs {
			got := planGet(plan, id, t.Name)
			if len(got) < n/m || len(got) > (n+m-1)/m {
				return &cf.Monitor{Signature: "range:unbalanced-share", What: fmt.Sprintf("topic %s (%d partitions, %d subscribers): %s got %d", t.Name, n, m, id, len(got))}
			}
			for k, p := range got {
				if pos+k >= n || t.Parts[pos+k] != p {
					return &cf.Monitor{Signature: "range:not-contiguous-in-hash-order", What: fmt.Sprintf("topic %s: %s holds %v, expected the slice starting at position %d", t.Name, id, got, pos)}
				}
			}
			pos += len(got)
		}
	}
	return nil
}

func allSubscribeAll(in *bg.Input) bool {
	for _, t := range in.Topics {
		if len(t.Parts) == 0 {
			continue
		}
		for _, m := range in.Members {
			if !in.Subscribes(m.ID, t.Name) {
				return false
			}
		}
	}
	return true
}

func rrMonitor(in *bg.Input, plan []bg.PlanEntry) *cf.Monitor {
	if !allSubscribeAll(in) {
		return nil
	}
	tot := bg.Totals(in, plan)
	lo, hi := 1<<30, -1
	for _, v := range tot {
		if v < lo {
			lo = v
		}
		if v > hi {
			hi = v
		}
	}
	if hi-lo > 1 {
		return &cf.Monitor{Signature: "roundrobin:totals-differ-by-more-than-one", What: fmt.Sprintf("identical subscriptions, totals %v", tot)}
	}
	return nil
}

func main() {
	out := flag.String("out", ".", "output directory")
	seed := flag.Int64("seed", 1, "seed")
	n := flag.Int("n", 300, "approximate number of cases per strategy")
	thorough := flag.Bool("thorough", false, "larger scopes")
	replay := flag.String("replay", "", "evidence/replay/C13-*.json: re-run exactly that case (range / roundrobin only; sticky steps depend on their chain)")
	norev := flag.Bool("norevhook", false, "the sticky.revert call site is not available in the tree under test")
	flag.Parse()
	bg.RevHook = !*norev
	sarama.Logger = nopLogger{}
	var only *caseJSON
	if *replay != "" {
		b, err := os.ReadFile(*replay)
		if err != nil {
			panic(err)
		}
		var rp struct {
			Case *caseJSON `json:"case"`
		}
		if json.Unmarshal(b, &rp) == nil && rp.Case != nil && rp.Case.In != nil {
			only = rp.Case
		}
	}
	r := rand.New(rand.NewSource(*seed))
	small := bg.SmallScope(3, 2, 4)

	wr := &cf.Writer{Dir: *out, Prefix: "cases13_range", Imports: imports, CaseType: "rcase", MismatchFn: "mismatches13_range", ShardSize: 40}
	wq := &cf.Writer{Dir: *out, Prefix: "cases13_rr", Imports: imports, CaseType: "rrcase", MismatchFn: "mismatches13_rr", ShardSize: 30}
	addRange := func(in bg.Input, kind string) {
		plan, err := sarama.BalanceStrategyRange.Plan(in.MemberMap(), in.TopicMap())
		if err != nil {
			panic(err)
		}
		cp := bg.Canon(plan)
		wr.Add(cf.App("Build_rcase", bg.MembersStr(in.Members), bg.TopicsStr(in.Topics), bg.PlanStr(cp)),
			cf.Sidecar{Case: caseJSON{Strategy: "range", In: &in, Plan: cp}, Kind: "range-" + kind, Nontrivial: in.Nontrivial(), Monitor: rangeMonitor(&in, cp)})
	}
	addRR := func(in bg.Input, kind string) {
		for _, t := range in.Topics {
			if !in.AnySubscriber(t.Name) {
				return
			}
		}
		plan, err := sarama.BalanceStrategyRoundRobin.Plan(in.MemberMap(), in.TopicMap())
		if err != nil {
			return
		}
		cp := bg.Canon(plan)
		wq.Add(cf.App("Build_rrcase", bg.MembersStr(in.Members), bg.TopicsStr(in.Topics), cf.Some(bg.PlanStr(cp))),
			cf.Sidecar{Case: caseJSON{Strategy: "roundrobin", In: &in, Plan: cp}, Kind: "roundrobin-" + kind, Nontrivial: in.Nontrivial(), Monitor: rrMonitor(&in, cp)})
	}
	if only != nil {
		switch only.Strategy {
		case "range":
			addRange(*only.In, "replay")
		case "roundrobin":
			addRR(*only.In, "replay")
		}
	} else {
		ns := *n / 2
		if *thorough {
			ns = len(small)
		}
		for _, i := range r.Perm(len(small)) {
			if ns == 0 {
				break
			}
			ns--
			addRange(small[i], "small")
			addRR(small[i], "small")
		}
		for i := 0; i < *n/2; i++ {
			nm, nt, np := 1+r.Intn(9), 1+r.Intn(4), r.Intn(40)
			if i%8 == 0 {
				nm, nt, np = 1+r.Intn(50), 1+r.Intn(20), r.Intn(200)
			}
			addRange(bg.Random(r, nm, nt, np, false), "random")
			in := bg.Random(r, nm, nt, np, true)
			if i%2 == 0 { // identical subscriptions: everybody takes every topic
				all := make([]string, len(in.Topics))
				for k, t := range in.Topics {
					all[k] = t.Name
				}
				for k := range in.Members {
					in.Members[k].Topics = append([]string(nil), all...)
				}
			}
			addRR(in, "random")
		}
	}
	if only == nil {
		// many partitions in one call (cursor / index arithmetic): 257..420 partitions, member counts that do not divide 256
		for i, nm := range []int{3, 5, 6, 7} {
			in := bg.Input{}
			for k := 0; k < nm; k++ {
				in.Members = append(in.Members, bg.Member{ID: fmt.Sprintf("m%d", k), Topics: []string{"big", "t"}})
			}
			in.Topics = []bg.Topic{{Name: "big", Parts: bg.Seq(257 + r.Intn(120) + 10*i)}, {Name: "t", Parts: bg.Seq(r.Intn(40))}}
			in.Normalize()
			addRange(in, "large")
			addRR(in, "large")
		}
	}
	wr.Close()
	wq.Close()

	// ---------------- sticky: honest chains
	ws := &cf.Writer{Dir: *out, Prefix: "cases13_sticky", Imports: imports, CaseType: "s13case", MismatchFn: "mismatches13_sticky", ShardSize: 40}
	fx := true // C13's chain statements are about the repaired code; C08 reports a tree without the repair
	hangs := 0
	nchains := *n / 4
	if only != nil {
		nchains = 0
	}
	// plus directed chains: a bystander set aside as "fixed", non-identical subscriptions, everybody owning something, then
	// leaves / subscription changes (the neighbourhood of the revert branch of balance())
	nby := *n / 3
	if only != nil {
		nby = 0
	}
	for c := 0; c < nchains+nby && hangs == 0; c++ {
		bystander := c >= nchains
		ident := c%2 == 0 && !bystander
		nm, nt, mp := 1+r.Intn(5), 1+r.Intn(3), 6
		if c%10 == 9 {
			nm, nt, mp = 4+r.Intn(12), 2+r.Intn(5), 12
		}
		var w *bg.World
		if bystander {
			w = bg.BystanderWorld(rand.New(rand.NewSource(r.Int63())))
		} else {
			w = bg.NewWorldIdent(rand.New(rand.NewSource(r.Int63())), nm, nt, mp, ident)
		}
		var prevIn *bg.Input
		var prevPlan []bg.PlanEntry
		steps := 3 + r.Intn(4)
		if bystander {
			steps = 3
		}
		for s := 0; s < steps; s++ {
			change := "first"
			if s > 0 {
				if bystander {
					change = w.BystanderChange()
				} else {
					change = w.MutateKind(ident)
				}
			}
			in := w.Input(false)
			run := bg.RunSticky(in)
			cj := caseJSON{Strategy: "sticky", In: &run.In, Oracle: &run.Oracle, Plan: run.Plan, Err: run.Err, Hang: run.Hang, Ident: ident,
				Chain: fmt.Sprintf("honest-%d", c), Step: s, Log: append([]string(nil), w.Log...)}
			rel := map[string]int{"none": 0, "join": 1, "leave": 2}[change]
			if change == "other" || change == "first" {
				rel = 3
			}
			cj.Rel = rel
			var mon *cf.Monitor
			prevStr := "None"
			var stay []string
			if run.Hang {
				hangs++ // C08's known finding; nothing of C13 can be observed
			} else if run.RawPlan != nil {
				if k, what := bg.Validity(&run.In, run.Plan); k != "" {
					mon = &cf.Monitor{Signature: "sticky:invalid-plan-on-honest-chain:" + k, What: what}
				} else if b := bg.KafkaBalanced(&run.In, run.Plan); b != "" {
					mon = &cf.Monitor{Signature: "sticky:not-balanced", What: "sticky plan is not balanced: " + b}
				}
				if prevPlan != nil {
					cj.Prev, cj.HasPrev = prevPlan, true
					prevStr = cf.Some(bg.PlanStr(prevPlan))
					now := map[string]bool{}
					for _, m := range run.In.Members {
						now[m.ID] = true
					}
					among := map[string]bool{}
					for _, m := range prevIn.Members {
						if now[m.ID] {
							among[m.ID] = true
							stay = append(stay, m.ID)
						}
					}
					cj.Stay = stay
					if mon == nil {
						if sw := bg.PairSwap(prevPlan, run.Plan); sw != "" {
							mon = &cf.Monitor{Signature: "sticky:pair-swap-within-topic", What: sw}
						} else if rel == 0 && !bg.SamePlanSets(prevPlan, run.Plan) {
							mon = &cf.Monitor{Signature: "sticky:replan-of-unchanged-group-moved-partitions", What: fmt.Sprint(bg.MovedBetween(prevPlan, run.Plan, among))}
						} else if ident && rel == 2 {
							if mv := bg.MovedBetween(prevPlan, run.Plan, among); len(mv) > 0 {
								mon = &cf.Monitor{Signature: "sticky:leave-moved-partitions-between-remaining-members", What: fmt.Sprint(mv)}
							}
						} else if ident && rel == 1 {
							if mv := bg.MovedBetween(prevPlan, run.Plan, among); len(mv) > 0 {
								mon = &cf.Monitor{Signature: "sticky:join-shuffled-partitions-between-old-members", What: fmt.Sprint(mv)}
							}
						}
					}
				}
			}
			ws.Add(cf.App("Build_s13case", run.CoqCase(fx), prevStr, cf.Z(int64(rel)), cf.Bool(ident), bg.StrList(stay)),
				cf.Sidecar{Case: cj, Kind: map[bool]string{false: "sticky-honest-", true: "sticky-bystander-"}[bystander] + change, Nontrivial: in.Nontrivial() && run.RawPlan != nil, Monitor: mon})
			if run.RawPlan == nil {
				break
			}
			pi := run.In
			prevIn, prevPlan = &pi, run.Plan
			w.Feedback(run.RawPlan)
		}
	}
	// balance does not depend on honest user data (c13_sticky_balanced): forged, skewed states where performReassignments
	// has to work, with non-identical subscriptions
	nadv := *n / 2
	if only != nil {
		nadv = 0
	}
	for i := 0; i < nadv && hangs == 0; i++ {
		in := bg.Adversarial(r, 6, 3, 10)
		run := bg.RunSticky(in)
		cj := caseJSON{Strategy: "sticky", In: &run.In, Oracle: &run.Oracle, Plan: run.Plan, Err: run.Err, Hang: run.Hang, Rel: 3}
		var mon *cf.Monitor
		if run.Hang {
			hangs++
		} else if run.RawPlan != nil {
			if k, what := bg.Validity(&run.In, run.Plan); k != "" {
				mon = &cf.Monitor{Signature: "sticky:invalid-plan:" + k, What: what}
			} else if b := bg.KafkaBalanced(&run.In, run.Plan); b != "" {
				mon = &cf.Monitor{Signature: "sticky:not-balanced", What: "sticky plan is not balanced: " + b}
			}
		}
		ws.Add(cf.App("Build_s13case", run.CoqCase(fx), "None", "3", "false", "[]"),
			cf.Sidecar{Case: cj, Kind: "sticky-adversarial", Nontrivial: in.Nontrivial() && run.RawPlan != nil, Monitor: mon})
	}
	ws.Close()
	fmt.Printf("INFO cases range=%d roundrobin=%d sticky=%d hangs=%d\n", wr.Total, wq.Total, ws.Total, hangs)
}
