// c19corr: runs sarama's real ClusterAdmin against 1-3 scripted MockBrokers and writes what it observed
// (returned error class, request log) as Coq cases for SV.C19.Corr, plus the verdict of a direct property
// oracle (monitor) per case. Everything random derives from -seed.
package main

import (
	"flag"
	"fmt"
	"math/rand"
	"os"
	"sort"
	"strconv"
	"strings"
	"sync"
	"time"

	"github.com/Shopify/sarama"

	cf "verifharness/internal/coqfmt"
)

// Kafka versions by rank (see Model.v)
var kvers = []sarama.KafkaVersion{sarama.V0_10_0_0, sarama.V0_10_1_0, sarama.V0_10_2_0, sarama.V0_11_0_0,
	sarama.V1_0_0_0, sarama.V1_1_0_0, sarama.V2_0_0_0, sarama.V2_4_0_0}

var codePool = []int64{-1, 3, 7, 29, 31, 35, 36, 37, 38, 40, 41, 42, 60}

const notController = 41
const topic = "tp"

var kerrText = map[string]int64{}

func init() {
	for c := int64(-1); c < 90; c++ {
		kerrText[sarama.KError(c).Error()] = c
	}
}

// ---------------------------------------------------------------- mock cluster
type reporter struct {
	mu   sync.Mutex
	errs []string
}

func (r *reporter) add(s string) { r.mu.Lock(); r.errs = append(r.errs, s); r.mu.Unlock() }
func (r *reporter) Error(a ...interface{})            { r.add(fmt.Sprint(a...)) }
func (r *reporter) Errorf(f string, a ...interface{}) { r.add(fmt.Sprintf(f, a...)) }
func (r *reporter) Fatal(a ...interface{})            { r.add("FATAL " + fmt.Sprint(a...)) }
func (r *reporter) Fatalf(f string, a ...interface{}) { r.add("FATAL " + fmt.Sprintf(f, a...)) }

type cluster struct {
	mu      sync.Mutex
	rep     *reporter
	brokers []*sarama.MockBroker
	handle  func(id int32, r sarama.VerifC19Request) interface{}
}

func newCluster(n int) *cluster {
	c := &cluster{rep: &reporter{}}
	for i := 1; i <= n; i++ {
		id := int32(i)
		b := sarama.NewMockBroker(c.rep, id)
		b.VerifC19SetHandler(func(r sarama.VerifC19Request) interface{} {
			c.mu.Lock()
			defer c.mu.Unlock()
			return c.handle(id, r)
		})
		c.brokers = append(c.brokers, b)
	}
	return c
}

func (c *cluster) close() {
	for _, b := range c.brokers {
		b.Close()
	}
}
func (c *cluster) addr(id int64) string { return c.brokers[id-1].Addr() }

func (c *cluster) metadata(version int16, ctrl int32) *sarama.MetadataResponse {
	resp := &sarama.MetadataResponse{Version: version, ControllerID: ctrl}
	for _, b := range c.brokers {
		resp.AddBroker(b.Addr(), b.BrokerID())
	}
	return resp
}

func newAdmin(c *cluster, kver, max int, backoff time.Duration) (sarama.ClusterAdmin, error) {
	cfg := sarama.NewConfig()
	cfg.Version = kvers[kver]
	cfg.Admin.Retry.Max = max
	cfg.Admin.Retry.Backoff = backoff
	cfg.Metadata.Retry.Max = 0
	cfg.Metadata.Retry.Backoff = 0
	cfg.Metadata.RefreshFrequency = 0
	cfg.Net.DialTimeout = 3 * time.Second
	cfg.Net.ReadTimeout = 3 * time.Second
	cfg.Net.WriteTimeout = 3 * time.Second
	client, err := sarama.NewClient([]string{c.brokers[0].Addr()}, cfg)
	if err != nil {
		return nil, err
	}
	return sarama.NewClusterAdminFromClient(client)
}

// ---------------------------------------------------------------- shared value types
type answer struct {
	K string     `json:"k"` // code | parts | incomplete | drop
	C int64      `json:"c"`
	P [][2]int64 `json:"p,omitempty"`
}

func pairs(p [][2]int64) string {
	it := make([]string, len(p))
	for i, x := range p {
		it[i] = fmt.Sprintf("(%s, %s)", cf.Z(x[0]), cf.Z(x[1]))
	}
	return cf.List(it)
}

func (a answer) coq() string {
	switch a.K {
	case "code":
		return cf.App("ACode", cf.Z(a.C))
	case "parts":
		return cf.App("AParts", cf.Z(a.C), pairs(a.P))
	case "incomplete":
		return "AIncomplete"
	case "drop":
		return "ADrop"
	}
	return "ABad"
}

type resObs struct {
	Class string     `json:"class"` // ok kafka incomplete transport ctrlna multi items other
	Wrap  string     `json:"wrap,omitempty"`
	Code  int64      `json:"code,omitempty"`
	Items [][2]int64 `json:"items,omitempty"`
	Msg   string     `json:"msg,omitempty"`
	Text  string     `json:"text,omitempty"`
}

func (r resObs) coq() string {
	switch r.Class {
	case "ok":
		return "ROk"
	case "kafka":
		return fmt.Sprintf("(RErr (EKafka %s %s))", r.Wrap, cf.Z(r.Code))
	case "incomplete":
		return "(RErr EIncomplete)"
	case "transport":
		return "(RErr ETransport)"
	case "ctrlna":
		return "(RErr ECtrlNotAvailable)"
	case "multi":
		return fmt.Sprintf("(RErr (EMulti %s))", pairs(r.Items))
	case "items":
		return fmt.Sprintf("(RItems %s)", pairs(r.Items))
	}
	return "(RErr EOther)" // does not type-check on purpose: an unclassified error is a broken tie
}

func sortPairs(p [][2]int64) {
	sort.Slice(p, func(i, j int) bool {
		if p[i][0] != p[j][0] {
			return p[i][0] < p[j][0]
		}
		return p[i][1] < p[j][1]
	})
}

// one entry of a MultiError: (-1, code) top-level / (partition, code) / (-2,0) transport / (-3,0) incomplete
func multiItem(e error) [2]int64 {
	if e == sarama.ErrIncompleteResponse {
		return [2]int64{-3, 0}
	}
	s := e.Error()
	if strings.HasPrefix(s, "[") {
		if i := strings.Index(s, "]: "); i > 0 {
			head, txt := s[1:i], s[i+3:]
			if j := strings.LastIndex(head, "-"); j >= 0 {
				p, err := strconv.ParseInt(head[j+1:], 10, 64)
				if c, ok := kerrText[txt]; ok && err == nil {
					return [2]int64{p, c}
				}
			}
		}
	}
	if c, ok := kerrText[s]; ok {
		return [2]int64{-1, c}
	}
	return [2]int64{-2, 0}
}

func classify(err error) resObs {
	switch e := err.(type) {
	case nil:
		return resObs{Class: "ok"}
	case *sarama.TopicError:
		r := resObs{Class: "kafka", Wrap: "WTopicError", Code: int64(e.Err)}
		if e.ErrMsg != nil {
			r.Msg = *e.ErrMsg
		}
		return r
	case *sarama.TopicPartitionError:
		r := resObs{Class: "kafka", Wrap: "WTopicPartitionError", Code: int64(e.Err)}
		if e.ErrMsg != nil {
			r.Msg = *e.ErrMsg
		}
		return r
	case sarama.KError:
		return resObs{Class: "kafka", Wrap: "WKError", Code: int64(e)}
	case sarama.ErrReassignPartitions:
		r := resObs{Class: "multi"}
		for _, x := range *e.Errors {
			r.Items = append(r.Items, multiItem(x))
		}
		sortPairs(r.Items)
		return r
	case sarama.ErrDeleteRecords:
		r := resObs{Class: "multi"}
		for _, x := range *e.Errors {
			it := multiItem(x)
			switch it[0] {
			case -2:
				it = [2]int64{0, -999}
			case -3:
				it = [2]int64{0, -998}
			default:
				it = [2]int64{0, it[1]}
			}
			r.Items = append(r.Items, it)
		}
		sortPairs(r.Items)
		return r
	}
	if err == sarama.ErrIncompleteResponse {
		return resObs{Class: "incomplete"}
	}
	if err == sarama.ErrControllerNotAvailable {
		return resObs{Class: "ctrlna"}
	}
	s := err.Error()
	if s == "EOF" || strings.Contains(s, "connection reset") || strings.Contains(s, "broken pipe") || strings.Contains(s, "closed network connection") {
		return resObs{Class: "transport", Text: s}
	}
	return resObs{Class: "other", Text: s}
}

// ---------------------------------------------------------------- controller-bound operations
type ctlScript struct {
	Op        string     `json:"op"` // create | delete | partitions | alter
	KVer      int        `json:"kver"`
	Max       int        `json:"max"`
	N         int        `json:"n"`
	C0        int64      `json:"c0"`
	Metas     []int64    `json:"metas"`
	Answers   [][]answer `json:"answers"`
	BackoffMs int        `json:"backoff_ms"`
}
type logEv struct {
	Kind string  `json:"kind"` // meta | req
	B    int64   `json:"b,omitempty"`
	V    int64   `json:"v,omitempty"`
	A    *answer `json:"a,omitempty"`
}
type ctlObs struct {
	Res     resObs   `json:"res"`
	Log     []logEv  `json:"log"`
	Harness []string `json:"harness,omitempty"`
}

var opCoq = map[string]string{"create": "OpCreateTopic", "delete": "OpDeleteTopic", "partitions": "OpCreatePartitions", "alter": "OpAlter"}
var opKind = map[string]string{"create": "CreateTopicsRequest", "delete": "DeleteTopicsRequest", "partitions": "CreatePartitionsRequest", "alter": "AlterPartitionReassignmentsRequest"}
var opMinK = map[string]int{"create": 1, "delete": 1, "partitions": 4, "alter": 7}

const alterParts = 3

func msgFor(c int64) *string { s := fmt.Sprintf("m%d", c); return &s }

func ctlResponse(op string, r sarama.VerifC19Request, a answer) interface{} {
	if a.K == "drop" {
		return sarama.VerifC19Drop
	}
	switch op {
	case "create":
		resp := &sarama.CreateTopicsResponse{Version: r.Version, TopicErrors: map[string]*sarama.TopicError{}}
		if a.K != "incomplete" {
			resp.TopicErrors[topic] = &sarama.TopicError{Err: sarama.KError(a.C), ErrMsg: msgFor(a.C)}
		} else {
			resp.TopicErrors["other"] = &sarama.TopicError{Err: sarama.ErrNoError}
		}
		return resp
	case "delete":
		resp := &sarama.DeleteTopicsResponse{Version: r.Version, TopicErrorCodes: map[string]sarama.KError{}}
		if a.K != "incomplete" {
			resp.TopicErrorCodes[topic] = sarama.KError(a.C)
		} else {
			resp.TopicErrorCodes["other"] = sarama.ErrNoError
		}
		return resp
	case "partitions":
		resp := &sarama.CreatePartitionsResponse{TopicPartitionErrors: map[string]*sarama.TopicPartitionError{}}
		if a.K != "incomplete" {
			resp.TopicPartitionErrors[topic] = &sarama.TopicPartitionError{Err: sarama.KError(a.C), ErrMsg: msgFor(a.C)}
		} else {
			resp.TopicPartitionErrors["other"] = &sarama.TopicPartitionError{Err: sarama.ErrNoError}
		}
		return resp
	case "alter":
		resp := &sarama.AlterPartitionReassignmentsResponse{}
		if a.K == "incomplete" {
			return resp
		}
		resp.ErrorCode = sarama.KError(a.C)
		given := map[int64]bool{}
		for _, p := range a.P {
			resp.AddError(topic, int32(p[0]), sarama.KError(p[1]), nil)
			given[p[0]] = true
		}
		for _, ps := range sarama.VerifC19AlterBlocks(r.Body.(*sarama.AlterPartitionReassignmentsRequest)) {
			for _, p := range ps {
				if !given[int64(p)] {
					resp.AddError(topic, p, sarama.ErrNoError, nil)
				}
			}
		}
		return resp
	}
	return nil
}

func runCtl(s ctlScript) ctlObs {
	cl := newCluster(s.N)
	defer cl.close()
	var o ctlObs
	started := false
	last := int32(s.C0)
	metas := append([]int64{}, s.Metas...)
	reqIdx := 0
	cl.handle = func(id int32, r sarama.VerifC19Request) interface{} {
		switch r.Kind {
		case "MetadataRequest":
			if started {
				o.Log = append(o.Log, logEv{Kind: "meta"})
				if len(metas) > 0 {
					last = int32(metas[0])
					metas = metas[1:]
				}
			}
			return cl.metadata(r.Version, last)
		case opKind[s.Op]:
			a := answer{K: "code"}
			if reqIdx < len(s.Answers) && int(id-1) < len(s.Answers[reqIdx]) {
				a = s.Answers[reqIdx][id-1]
			}
			reqIdx++
			o.Log = append(o.Log, logEv{Kind: "req", B: int64(id), V: int64(r.Version), A: &a})
			return ctlResponse(s.Op, r, a)
		}
		o.Harness = append(o.Harness, "unexpected request "+r.Kind)
		return nil
	}
	admin, err := newAdmin(cl, s.KVer, s.Max, time.Duration(s.BackoffMs)*time.Millisecond)
	if err != nil {
		o.Harness = append(o.Harness, "admin creation failed: "+err.Error())
		o.Res = resObs{Class: "other", Text: err.Error()}
		return o
	}
	cl.mu.Lock()
	started = true
	cl.mu.Unlock()
	switch s.Op {
	case "create":
		err = admin.CreateTopic(topic, &sarama.TopicDetail{NumPartitions: 1, ReplicationFactor: 1}, false)
	case "delete":
		err = admin.DeleteTopic(topic)
	case "partitions":
		err = admin.CreatePartitions(topic, 4, nil, false)
	case "alter":
		asg := make([][]int32, alterParts)
		for i := range asg {
			asg[i] = []int32{1}
		}
		err = admin.AlterPartitionReassignments(topic, asg)
	}
	o.Res = classify(err)
	cl.mu.Lock()
	started = false
	cl.mu.Unlock()
	_ = admin.Close()
	o.Harness = append(o.Harness, cl.rep.errs...)
	return o
}

func isNC(a *answer) bool { return (a.K == "code" || a.K == "parts") && a.C == notController }
func isSuccess(op string, a *answer) bool {
	switch a.K {
	case "code":
		return a.C == 0
	case "parts":
		if a.C != 0 {
			return false
		}
		for _, p := range a.P {
			if p[1] != 0 {
				return false
			}
		}
		return true
	case "incomplete":
		return op == "alter" // an answer without entries reports no error
	}
	return false
}
func validID(n int, c int64) bool { return c >= 1 && c <= int64(n) }

// monitorCtl: the property stated directly on script + observation (independent of the Coq model).
func monitorCtl(s ctlScript, o ctlObs) *cf.Monitor {
	m := monitorCtl0(s, o)
	if m != nil && m.Signature != "ctl:harness-error" {
		m.Signature = "ctl:" + s.Op + strings.TrimPrefix(m.Signature, "ctl")
	}
	return m
}

func answerClass(a *answer) string {
	switch {
	case a.K == "code" || a.K == "parts":
		if a.C < 0 {
			return "top-level-code<0"
		} else if a.C > 0 {
			return "top-level-code>0"
		}
		return "item-code"
	}
	return a.K
}

func monitorCtl0(s ctlScript, o ctlObs) *cf.Monitor {
	if len(o.Harness) > 0 {
		return &cf.Monitor{Signature: "ctl:harness-error", What: strings.Join(o.Harness, "; ")}
	}
	budget := s.Max
	if budget < 1 {
		budget = 1
	}
	var reqs []logEv
	cur := s.C0
	metas := append([]int64{}, s.Metas...)
	metaSincePrev := false
	for _, e := range o.Log {
		if e.Kind == "meta" {
			metaSincePrev = true
			if len(metas) > 0 {
				cur = metas[0]
				metas = metas[1:]
			}
			continue
		}
		if e.B != cur {
			return &cf.Monitor{Signature: "ctl:request-not-sent-to-current-controller", What: fmt.Sprintf("request %d went to broker %d, the latest metadata names %d", len(reqs), e.B, cur)}
		}
		if len(reqs) > 0 && !metaSincePrev {
			return &cf.Monitor{Signature: "ctl:retry-without-controller-refresh", What: fmt.Sprintf("request %d follows request %d without a metadata refresh", len(reqs), len(reqs)-1)}
		}
		if len(reqs) > 0 && !isNC(reqs[len(reqs)-1].A) {
			return &cf.Monitor{Signature: "ctl:retried-after-other-answer", What: fmt.Sprintf("request %d was answered %s and yet retried", len(reqs)-1, reqs[len(reqs)-1].A.coq())}
		}
		reqs = append(reqs, e)
		metaSincePrev = false
	}
	ok := o.Res.Class == "ok"
	if len(reqs) > budget {
		return &cf.Monitor{Signature: "ctl:more-attempts-than-budget", What: fmt.Sprintf("%d requests with Admin.Retry.Max=%d", len(reqs), s.Max)}
	}
	if len(reqs) == 0 {
		if ok {
			sig := "ctl:success-without-request:max>=1"
			if s.Max <= 0 {
				sig = "ctl:success-without-request:max<=0"
			}
			return &cf.Monitor{Signature: sig, What: fmt.Sprintf("%s returned nil with Admin.Retry.Max=%d and no request was sent", s.Op, s.Max)}
		}
		return nil
	}
	lastA := reqs[len(reqs)-1].A
	if ok && !isSuccess(s.Op, lastA) {
		return &cf.Monitor{Signature: "ctl:success-but-broker-reported-error:" + answerClass(lastA), What: fmt.Sprintf("%s returned nil, the last answer was %s", s.Op, lastA.coq())}
	}
	if !ok && isSuccess(s.Op, lastA) {
		return &cf.Monitor{Signature: "ctl:error-despite-acknowledgement", What: fmt.Sprintf("%s returned %s, the last answer was %s", s.Op, o.Res.coq(), lastA.coq())}
	}
	if isNC(lastA) && len(reqs) < budget && validID(s.N, cur) {
		return &cf.Monitor{Signature: "ctl:not-controller-not-retried", What: fmt.Sprintf("%s: request %d answered NOT_CONTROLLER, %d of %d attempts used, controller %d known, no retry", s.Op, len(reqs)-1, len(reqs), budget, cur)}
	}
	for _, e := range reqs {
		want := int64(0)
		switch s.Op {
		case "create":
			if s.KVer >= 4 {
				want = 2
			} else if s.KVer >= 3 {
				want = 1
			}
		case "delete":
			if s.KVer >= 3 {
				want = 1
			}
		}
		if e.V != want {
			return &cf.Monitor{Signature: "ctl:wrong-request-version", What: fmt.Sprintf("%s at version rank %d sent v%d, expected v%d", s.Op, s.KVer, e.V, want)}
		}
	}
	// the broker's verdict comes back unchanged
	endedAtController := isNC(lastA) && o.Res.Class == "ctrlna" && !validID(s.N, cur) // the retry found no controller to ask
	if !ok && s.Op != "alter" && !endedAtController {
		switch lastA.K {
		case "code":
			wantWrap := map[string]string{"create": "WTopicError", "delete": "WKError", "partitions": "WTopicPartitionError"}[s.Op]
			msgOK := true
			if (s.Op == "create" && reqs[len(reqs)-1].V >= 1) || s.Op == "partitions" {
				msgOK = o.Res.Msg == *msgFor(lastA.C)
			}
			if o.Res.Class != "kafka" || o.Res.Code != lastA.C || o.Res.Wrap != wantWrap || !msgOK {
				return &cf.Monitor{Signature: "ctl:error-changed", What: fmt.Sprintf("broker said code %d, %s returned %s msg=%q", lastA.C, s.Op, o.Res.coq(), o.Res.Msg)}
			}
		case "incomplete":
			if o.Res.Class != "incomplete" {
				return &cf.Monitor{Signature: "ctl:error-changed", What: "incomplete response reported as " + o.Res.coq()}
			}
		case "drop":
			if o.Res.Class != "transport" {
				return &cf.Monitor{Signature: "ctl:error-changed", What: "transport failure reported as " + o.Res.coq()}
			}
		}
	}
	if !ok && s.Op == "alter" && (lastA.K == "code" || lastA.K == "parts") && lastA.C != 0 && lastA.C != notController {
		found := false
		for _, it := range o.Res.Items {
			if it[0] == -1 && it[1] == lastA.C {
				found = true
			}
		}
		if !found {
			return &cf.Monitor{Signature: "ctl:error-changed", What: fmt.Sprintf("alter: top-level code %d not in %s", lastA.C, o.Res.coq())}
		}
	}
	return nil
}

func coqAnswers(rows [][]answer) string {
	out := make([]string, len(rows))
	for i, row := range rows {
		it := make([]string, len(row))
		for j, a := range row {
			it[j] = a.coq()
		}
		out[i] = cf.List(it)
	}
	return cf.List(out)
}

func ctlTerm(s ctlScript, o ctlObs) string {
	var lg []string
	for _, e := range o.Log {
		if e.Kind == "meta" {
			lg = append(lg, "LMeta")
		} else {
			lg = append(lg, cf.App("LReq", cf.Z(e.B), cf.Z(e.V), e.A.coq()))
		}
	}
	return fmt.Sprintf("{| cc_op := %s; cc_kver := %d; cc_max := %s; cc_n := %d; cc_c0 := %s; cc_metas := %s; cc_answers := %s; cc_res := %s; cc_log := %s |}",
		opCoq[s.Op], s.KVer, cf.Z(int64(s.Max)), s.N, cf.Z(s.C0), cf.ZList(s.Metas), coqAnswers(s.Answers), o.Res.coq(), cf.List(lg))
}

func randAnswer(r *rand.Rand, op string) answer {
	switch x := r.Intn(20); {
	case x < 6:
		return answer{K: "code"}
	case x < 10:
		return answer{K: "code", C: notController}
	case x < 15:
		return answer{K: "code", C: codePool[r.Intn(len(codePool))]}
	case x < 17:
		return answer{K: "incomplete"}
	case x < 18:
		return answer{K: "drop"}
	default:
		if op != "alter" {
			return answer{K: "code", C: codePool[r.Intn(len(codePool))]}
		}
		a := answer{K: "parts"}
		if r.Intn(4) == 0 {
			a.C = codePool[r.Intn(len(codePool))]
		}
		for p := 0; p < alterParts; p++ {
			if r.Intn(2) == 0 {
				c := int64(0)
				if r.Intn(3) != 0 {
					c = codePool[r.Intn(len(codePool))]
				}
				a.P = append(a.P, [2]int64{int64(p), c})
			}
		}
		return a
	}
}

func genCtl(r *rand.Rand) ctlScript {
	ops := []string{"create", "delete", "partitions", "alter"}
	s := ctlScript{Op: ops[r.Intn(4)], N: 1 + r.Intn(3)}
	if r.Intn(8) == 0 {
		s.KVer = r.Intn(len(kvers))
	} else {
		s.KVer = opMinK[s.Op] + r.Intn(len(kvers)-opMinK[s.Op])
	}
	s.Max = []int{-1, 0, 0, 1, 1, 2, 2, 3, 3, 5}[r.Intn(10)]
	s.BackoffMs = r.Intn(2)
	s.C0 = int64(1 + r.Intn(s.N))
	budget := s.Max
	if budget < 1 {
		budget = 1
	}
	nreq := r.Intn(budget + 2)
	pickCtrl := func() int64 {
		switch x := r.Intn(12); {
		case x == 0:
			return -1
		case x == 1:
			return 9
		}
		return int64(1 + r.Intn(s.N))
	}
	for i, nm := 0, r.Intn(budget+3); i < nm; i++ {
		s.Metas = append(s.Metas, pickCtrl())
	}
	honest := r.Intn(5) < 3
	cur := s.C0
	if r.Intn(2) == 0 {
		cur = int64(1 + r.Intn(s.N))
	}
	for j := 0; j < nreq; j++ {
		row := make([]answer, s.N)
		if honest {
			// only the current controller gives a verdict, the others say NOT_CONTROLLER; the controller may move
			verdict := answer{K: "code"}
			if r.Intn(3) == 0 {
				verdict = randAnswer(r, s.Op)
			}
			for b := 1; b <= s.N; b++ {
				if int64(b) == cur {
					row[b-1] = verdict
				} else {
					row[b-1] = answer{K: "code", C: notController}
				}
			}
			if r.Intn(2) == 0 {
				cur = int64(1 + r.Intn(s.N))
			}
			if j < len(s.Metas) && r.Intn(4) != 0 {
				s.Metas[j] = cur
			}
		} else {
			for b := range row {
				row[b] = randAnswer(r, s.Op)
			}
		}
		s.Answers = append(s.Answers, row)
	}
	return s
}

func nc() answer { return answer{K: "code", C: notController} }
func okA() answer { return answer{K: "code"} }

var ctlCorpus = []ctlScript{
	// Admin.Retry.Max = 0: the pinned tree reports success without sending anything
	{Op: "create", KVer: 4, Max: 0, N: 1, C0: 1},
	{Op: "delete", KVer: 3, Max: 0, N: 2, C0: 2, Answers: [][]answer{{okA(), {K: "code", C: 3}}}},
	{Op: "partitions", KVer: 5, Max: -1, N: 1, C0: 1, Answers: [][]answer{{{K: "code", C: 37}}}},
	// one controller move, every operation
	{Op: "create", KVer: 2, Max: 2, N: 2, C0: 1, Metas: []int64{2}, Answers: [][]answer{{nc(), okA()}, {nc(), okA()}}},
	{Op: "delete", KVer: 1, Max: 5, N: 3, C0: 3, Metas: []int64{1}, Answers: [][]answer{{okA(), nc(), nc()}, {okA(), nc(), nc()}}},
	{Op: "partitions", KVer: 4, Max: 3, N: 2, C0: 2, Metas: []int64{1}, Answers: [][]answer{{okA(), nc()}, {okA(), nc()}}},
	// AlterPartitionReassignments: NOT_CONTROLLER at top level (the pinned tree wraps it and never retries)
	{Op: "alter", KVer: 7, Max: 3, N: 2, C0: 1, Metas: []int64{2}, Answers: [][]answer{{nc(), okA()}, {nc(), okA()}}},
	// AlterPartitionReassignments: top-level UNKNOWN_SERVER_ERROR (-1) (the pinned tree tests `> 0`: success)
	{Op: "alter", KVer: 7, Max: 3, N: 1, C0: 1, Answers: [][]answer{{{K: "code", C: -1}}}},
	// budget exhausted by controller moves
	{Op: "create", KVer: 4, Max: 2, N: 3, C0: 1, Metas: []int64{2, 3, 1}, Answers: [][]answer{{nc(), nc(), nc()}, {nc(), nc(), nc()}, {okA(), okA(), okA()}}},
	// metadata names no usable controller after NOT_CONTROLLER
	{Op: "delete", KVer: 4, Max: 3, N: 2, C0: 1, Metas: []int64{-1, 9}, Answers: [][]answer{{nc(), okA()}}},
	{Op: "delete", KVer: 4, Max: 3, N: 2, C0: 1, Metas: []int64{-1, 2}, Answers: [][]answer{{nc(), okA()}, {nc(), okA()}}},
	// unsupported version: nothing is sent
	{Op: "create", KVer: 0, Max: 3, N: 1, C0: 1},
	// other error, incomplete, transport
	{Op: "create", KVer: 3, Max: 3, N: 1, C0: 1, Answers: [][]answer{{{K: "code", C: 36}}}},
	{Op: "partitions", KVer: 6, Max: 3, N: 1, C0: 1, Answers: [][]answer{{{K: "incomplete"}}}},
	{Op: "delete", KVer: 6, Max: 3, N: 1, C0: 1, Answers: [][]answer{{{K: "drop"}}}},
	{Op: "alter", KVer: 7, Max: 2, N: 1, C0: 1, Answers: [][]answer{{{K: "parts", C: 0, P: [][2]int64{{0, 0}, {2, 37}}}}}},
}

// ---------------------------------------------------------------- DeleteRecords
type recScript struct {
	KVer    int              `json:"kver"`
	N       int              `json:"n"`
	Leaders [][2]int64       `json:"leaders"` // partition, leader id (-1 / 9: not available)
	Modes   map[string]string `json:"modes"`  // broker -> drop | missing
	Codes   [][2]int64       `json:"codes"`   // partition, code
	Parts   []int64          `json:"parts"`   // partitions handed to DeleteRecords (distinct)
}
type recReq struct {
	B     int64   `json:"b"`
	Parts []int64 `json:"parts"`
}
type recObs struct {
	Res     resObs   `json:"res"`
	Reqs    []recReq `json:"reqs"`
	BadOffs []string `json:"bad_offsets,omitempty"`
	Harness []string `json:"harness,omitempty"`
}

func lookup(l [][2]int64, k int64) (int64, bool) {
	for _, x := range l {
		if x[0] == k {
			return x[1], true
		}
	}
	return 0, false
}

func runRec(s recScript) recObs {
	cl := newCluster(s.N)
	defer cl.close()
	var o recObs
	cl.handle = func(id int32, r sarama.VerifC19Request) interface{} {
		switch r.Kind {
		case "MetadataRequest":
			resp := cl.metadata(r.Version, 1)
			resp.AddTopic(topic, sarama.ErrNoError)
			for _, pl := range s.Leaders {
				e := sarama.ErrNoError
				if pl[1] < 0 {
					e = sarama.ErrLeaderNotAvailable
				}
				resp.AddTopicPartition(topic, int32(pl[0]), int32(pl[1]), []int32{1}, []int32{1}, nil, e)
			}
			return resp
		case "DeleteRecordsRequest":
			req := r.Body.(*sarama.DeleteRecordsRequest)
			rq := recReq{B: int64(id)}
			resp := &sarama.DeleteRecordsResponse{Version: r.Version, Topics: map[string]*sarama.DeleteRecordsResponseTopic{}}
			rt := &sarama.DeleteRecordsResponseTopic{Partitions: map[int32]*sarama.DeleteRecordsResponsePartition{}}
			for t, tp := range req.Topics {
				if t != topic {
					o.Harness = append(o.Harness, "request for topic "+t)
				}
				for p, off := range tp.PartitionOffsets {
					rq.Parts = append(rq.Parts, int64(p))
					if off != 100+int64(p) {
						o.BadOffs = append(o.BadOffs, fmt.Sprintf("partition %d offset %d", p, off))
					}
					c, _ := lookup(s.Codes, int64(p))
					rt.Partitions[p] = &sarama.DeleteRecordsResponsePartition{LowWatermark: off, Err: sarama.KError(c)}
				}
			}
			sort.Slice(rq.Parts, func(i, j int) bool { return rq.Parts[i] < rq.Parts[j] })
			o.Reqs = append(o.Reqs, rq)
			switch s.Modes[strconv.Itoa(int(id))] {
			case "drop":
				return sarama.VerifC19Drop
			case "missing":
				resp.Topics["other"] = &sarama.DeleteRecordsResponseTopic{}
				return resp
			}
			resp.Topics[topic] = rt
			return resp
		}
		o.Harness = append(o.Harness, "unexpected request "+r.Kind)
		return nil
	}
	admin, err := newAdmin(cl, s.KVer, 5, 0)
	if err != nil {
		o.Harness = append(o.Harness, "admin creation failed: "+err.Error())
		return o
	}
	offs := map[int32]int64{}
	for _, p := range s.Parts {
		offs[int32(p)] = 100 + p
	}
	err = admin.DeleteRecords(topic, offs)
	o.Res = classify(err)
	_ = admin.Close()
	cl.mu.Lock()
	sort.Slice(o.Reqs, func(i, j int) bool { return o.Reqs[i].B < o.Reqs[j].B })
	cl.mu.Unlock()
	o.Harness = append(o.Harness, cl.rep.errs...)
	return o
}

func monitorRec(s recScript, o recObs) *cf.Monitor {
	if len(o.Harness) > 0 {
		return &cf.Monitor{Signature: "rec:harness-error", What: strings.Join(o.Harness, "; ")}
	}
	if len(o.BadOffs) > 0 {
		return &cf.Monitor{Signature: "rec:wrong-offset", What: strings.Join(o.BadOffs, "; ")}
	}
	unresolved := false
	for _, p := range s.Parts {
		l, ok := lookup(s.Leaders, p)
		if !ok || !validID(s.N, l) {
			unresolved = true
		}
	}
	if unresolved {
		if o.Res.Class == "ok" {
			return &cf.Monitor{Signature: "rec:success-with-unknown-leader", What: "DeleteRecords returned nil although a partition has no available leader"}
		}
		return nil
	}
	seenB := map[int64]bool{}
	count := map[int64]int{}
	wantErr := false
	for _, rq := range o.Reqs {
		if seenB[rq.B] {
			return &cf.Monitor{Signature: "rec:broker-asked-twice", What: fmt.Sprintf("broker %d got two DeleteRecords requests", rq.B)}
		}
		seenB[rq.B] = true
		if m := s.Modes[strconv.Itoa(int(rq.B))]; m != "" {
			wantErr = true
		}
		for _, p := range rq.Parts {
			count[p]++
			if l, _ := lookup(s.Leaders, p); l != rq.B {
				return &cf.Monitor{Signature: "rec:partition-at-wrong-broker", What: fmt.Sprintf("partition %d led by %d was sent to %d", p, l, rq.B)}
			}
			if c, _ := lookup(s.Codes, p); c != 0 && s.Modes[strconv.Itoa(int(rq.B))] == "" {
				wantErr = true
			}
		}
	}
	for _, p := range s.Parts {
		if count[p] != 1 {
			return &cf.Monitor{Signature: "rec:partition-dropped-or-duplicated", What: fmt.Sprintf("partition %d appears in %d requests", p, count[p])}
		}
	}
	if len(count) != len(s.Parts) {
		return &cf.Monitor{Signature: "rec:partition-not-asked-for", What: "a request names a partition the caller did not pass"}
	}
	if wantErr && o.Res.Class == "ok" {
		return &cf.Monitor{Signature: "rec:error-lost", What: "a broker or partition reported an error, DeleteRecords returned nil"}
	}
	if !wantErr && o.Res.Class != "ok" {
		return &cf.Monitor{Signature: "rec:spurious-error", What: "nothing failed, DeleteRecords returned " + o.Res.coq()}
	}
	return nil
}

func coqModes(m map[string]string) string {
	var it []string
	for b := 1; b <= 3; b++ {
		switch m[strconv.Itoa(b)] {
		case "drop":
			it = append(it, fmt.Sprintf("(%d, BDrop)", b))
		case "missing":
			it = append(it, fmt.Sprintf("(%d, BMissing)", b))
		}
	}
	return cf.List(it)
}

func recTerm(s recScript, o recObs) string {
	var rq []string
	for _, x := range o.Reqs {
		rq = append(rq, fmt.Sprintf("(%d, %s)", x.B, cf.ZList(x.Parts)))
	}
	return fmt.Sprintf("{| rc_env := {| r_n := %d; r_leaders := %s; r_modes := %s; r_codes := %s |}; rc_parts := %s; rc_res := %s; rc_reqs := %s |}",
		s.N, pairs(s.Leaders), coqModes(s.Modes), pairs(s.Codes), cf.ZList(s.Parts), o.Res.coq(), cf.List(rq))
}

func genModes(r *rand.Rand, n int, p int) map[string]string {
	m := map[string]string{}
	for b := 1; b <= n; b++ {
		if r.Intn(p) == 0 {
			m[strconv.Itoa(b)] = []string{"drop", "missing"}[r.Intn(2)]
		}
	}
	return m
}

func genRec(r *rand.Rand) recScript {
	s := recScript{KVer: 3 + r.Intn(5), N: 1 + r.Intn(3)}
	np := 1 + r.Intn(7)
	bad := r.Intn(5) == 0
	for p := 0; p < np; p++ {
		l := int64(1 + r.Intn(s.N))
		if bad && r.Intn(3) == 0 {
			l = []int64{-1, 9}[r.Intn(2)]
		}
		s.Leaders = append(s.Leaders, [2]int64{int64(p), l})
		if r.Intn(4) == 0 {
			s.Codes = append(s.Codes, [2]int64{int64(p), codePool[r.Intn(len(codePool))]})
		}
	}
	for _, p := range r.Perm(np + 1) {
		if (p < np || (bad && r.Intn(3) == 0)) && r.Intn(4) != 0 {
			s.Parts = append(s.Parts, int64(p)) // p == np: a partition the metadata does not know
		}
	}
	s.Modes = genModes(r, s.N, 5)
	return s
}

// ---------------------------------------------------------------- group operations
type grpScript struct {
	Op     string            `json:"op"` // describe | offsets | delete
	KVer   int               `json:"kver"`
	N      int               `json:"n"`
	Coord  [][2]int64        `json:"coord"`     // group -> broker
	CoordE [][2]int64        `json:"coord_err"` // group -> FindCoordinator error code
	Modes  map[string]string `json:"modes"`
	Codes  [][2]int64        `json:"codes"`
	Top    int64             `json:"top"`
	Groups []int64           `json:"groups"`
	Parts  []int64           `json:"parts"`
}
type gEv struct {
	Kind  string  `json:"kind"` // find | req
	G     int64   `json:"g,omitempty"`
	B     int64   `json:"b,omitempty"`
	V     int64   `json:"v,omitempty"`
	Items []int64 `json:"items,omitempty"`
}
type grpObs struct {
	Res     resObs   `json:"res"`
	Log     []gEv    `json:"log"`
	Harness []string `json:"harness,omitempty"`
}

func gname(g int64) string { return fmt.Sprintf("g%d", g) }
func gnum(s string) int64 {
	v, err := strconv.ParseInt(strings.TrimPrefix(s, "g"), 10, 64)
	if err != nil {
		return -77
	}
	return v
}

func runGrp(s grpScript) grpObs {
	cl := newCluster(s.N)
	defer cl.close()
	var o grpObs
	cl.handle = func(id int32, r sarama.VerifC19Request) interface{} {
		mode := s.Modes[strconv.Itoa(int(id))]
		switch r.Kind {
		case "MetadataRequest":
			return cl.metadata(r.Version, 1)
		case "FindCoordinatorRequest":
			req := r.Body.(*sarama.FindCoordinatorRequest)
			g := gnum(req.CoordinatorKey)
			o.Log = append(o.Log, gEv{Kind: "find", G: g})
			resp := &sarama.FindCoordinatorResponse{Version: r.Version}
			if c, bad := lookup(s.CoordE, g); bad {
				resp.Err = sarama.KError(c)
				return resp
			}
			b, ok := lookup(s.Coord, g)
			if !ok {
				b = 1
			}
			resp.Coordinator = sarama.VerifC19Broker(int32(b), cl.addr(b))
			return resp
		case "DescribeGroupsRequest":
			req := r.Body.(*sarama.DescribeGroupsRequest)
			ev := gEv{Kind: "req", B: int64(id), V: int64(r.Version)}
			resp := &sarama.DescribeGroupsResponse{}
			for _, gn := range req.Groups {
				g := gnum(gn)
				ev.Items = append(ev.Items, g)
				c, _ := lookup(s.Codes, g)
				if mode != "missing" {
					resp.Groups = append(resp.Groups, &sarama.GroupDescription{Err: sarama.KError(c), GroupId: gn, State: "Stable"})
				}
			}
			o.Log = append(o.Log, ev)
			if mode == "drop" {
				return sarama.VerifC19Drop
			}
			return resp
		case "OffsetFetchRequest":
			req := r.Body.(*sarama.OffsetFetchRequest)
			ev := gEv{Kind: "req", B: int64(id), V: int64(r.Version)}
			resp := &sarama.OffsetFetchResponse{Version: r.Version, Err: sarama.KError(s.Top)}
			if gnum(req.ConsumerGroup) != s.Groups[0] {
				o.Harness = append(o.Harness, "OffsetFetch for group "+req.ConsumerGroup)
			}
			for t, ps := range sarama.VerifC19OffsetFetchPartitions(req) {
				if t != topic {
					o.Harness = append(o.Harness, "OffsetFetch for topic "+t)
				}
				for _, p := range ps {
					ev.Items = append(ev.Items, int64(p))
					c, _ := lookup(s.Codes, int64(p))
					if mode != "missing" {
						resp.AddBlock(t, p, &sarama.OffsetFetchResponseBlock{Offset: 7, Err: sarama.KError(c)})
					}
				}
			}
			o.Log = append(o.Log, ev)
			if mode == "drop" {
				return sarama.VerifC19Drop
			}
			return resp
		case "DeleteGroupsRequest":
			req := r.Body.(*sarama.DeleteGroupsRequest)
			ev := gEv{Kind: "req", B: int64(id), V: int64(r.Version)}
			resp := &sarama.DeleteGroupsResponse{GroupErrorCodes: map[string]sarama.KError{}}
			for _, gn := range req.Groups {
				g := gnum(gn)
				ev.Items = append(ev.Items, g)
				c, _ := lookup(s.Codes, g)
				if mode != "missing" {
					resp.GroupErrorCodes[gn] = sarama.KError(c)
				} else {
					resp.GroupErrorCodes["other"] = sarama.ErrNoError
				}
			}
			o.Log = append(o.Log, ev)
			if mode == "drop" {
				return sarama.VerifC19Drop
			}
			return resp
		}
		o.Harness = append(o.Harness, "unexpected request "+r.Kind)
		return nil
	}
	admin, err := newAdmin(cl, s.KVer, 5, 0)
	if err != nil {
		o.Harness = append(o.Harness, "admin creation failed: "+err.Error())
		return o
	}
	switch s.Op {
	case "describe":
		var names []string
		for _, g := range s.Groups {
			names = append(names, gname(g))
		}
		var ds []*sarama.GroupDescription
		ds, err = admin.DescribeConsumerGroups(names)
		if err == nil {
			o.Res = resObs{Class: "items"}
			for _, d := range ds {
				o.Res.Items = append(o.Res.Items, [2]int64{gnum(d.GroupId), int64(d.Err)})
			}
			sortPairs(o.Res.Items)
		}
	case "offsets":
		var resp *sarama.OffsetFetchResponse
		ps := make([]int32, len(s.Parts))
		for i, p := range s.Parts {
			ps[i] = int32(p)
		}
		resp, err = admin.ListConsumerGroupOffsets(gname(s.Groups[0]), map[string][]int32{topic: ps})
		if err == nil {
			o.Res = resObs{Class: "items", Items: [][2]int64{{-1, int64(resp.Err)}}}
			for _, blocks := range resp.Blocks {
				for p, b := range blocks {
					o.Res.Items = append(o.Res.Items, [2]int64{int64(p), int64(b.Err)})
				}
			}
			sortPairs(o.Res.Items)
		}
	case "delete":
		err = admin.DeleteConsumerGroup(gname(s.Groups[0]))
		if err == nil {
			o.Res = resObs{Class: "ok"}
		}
	}
	if err != nil {
		o.Res = classify(err)
	}
	_ = admin.Close()
	cl.mu.Lock()
	// canonical order: finds as they came, then requests by broker
	var finds, reqs []gEv
	for _, e := range o.Log {
		if e.Kind == "find" {
			finds = append(finds, e)
		} else {
			reqs = append(reqs, e)
		}
	}
	sort.SliceStable(reqs, func(i, j int) bool { return reqs[i].B < reqs[j].B })
	o.Log = append(finds, reqs...)
	cl.mu.Unlock()
	o.Harness = append(o.Harness, cl.rep.errs...)
	return o
}

func monitorGrp(s grpScript, o grpObs) *cf.Monitor {
	if len(o.Harness) > 0 {
		return &cf.Monitor{Signature: "grp:harness-error", What: strings.Join(o.Harness, "; ")}
	}
	coordOf := func(g int64) int64 {
		if b, ok := lookup(s.Coord, g); ok {
			return b
		}
		return 1
	}
	groups := s.Groups
	if s.Op != "describe" {
		groups = groups[:1]
	}
	for _, g := range groups {
		if _, bad := lookup(s.CoordE, g); bad {
			if o.Res.Class == "ok" || o.Res.Class == "items" {
				// describe stops at the first group whose coordinator cannot be found
				return &cf.Monitor{Signature: "grp:success-without-coordinator", What: fmt.Sprintf("coordinator lookup for group %d failed, the operation reported success", g)}
			}
			return nil
		}
	}
	seenB := map[int64]bool{}
	sent := map[int64]int{}
	failed := false
	for _, e := range o.Log {
		if e.Kind != "req" {
			continue
		}
		if seenB[e.B] {
			return &cf.Monitor{Signature: "grp:broker-asked-twice", What: fmt.Sprintf("broker %d got two requests", e.B)}
		}
		seenB[e.B] = true
		if s.Modes[strconv.Itoa(int(e.B))] == "drop" {
			failed = true
		}
		if s.Op == "offsets" {
			if coordOf(groups[0]) != e.B {
				return &cf.Monitor{Signature: "grp:request-at-wrong-broker", What: fmt.Sprintf("OffsetFetch for group %d went to %d", groups[0], e.B)}
			}
			continue
		}
		for _, g := range e.Items {
			sent[g]++
			if coordOf(g) != e.B {
				return &cf.Monitor{Signature: "grp:request-at-wrong-broker", What: fmt.Sprintf("group %d coordinated by %d was sent to %d", g, coordOf(g), e.B)}
			}
		}
	}
	success := o.Res.Class == "ok" || o.Res.Class == "items"
	if failed && success {
		return &cf.Monitor{Signature: "grp:error-lost", What: "a broker failed, the operation reported success"}
	}
	if !success && !failed {
		if s.Op == "delete" {
			b := coordOf(groups[0])
			c, _ := lookup(s.Codes, groups[0])
			if c != 0 || s.Modes[strconv.Itoa(int(b))] == "missing" {
				return nil
			}
		}
		return &cf.Monitor{Signature: "grp:spurious-error", What: "nothing failed, the operation returned " + o.Res.coq()}
	}
	if !success {
		return nil
	}
	switch s.Op {
	case "describe":
		want := map[int64]int{}
		for _, g := range groups {
			want[g]++
		}
		for g, n := range want {
			if sent[g] != n {
				return &cf.Monitor{Signature: "grp:group-dropped-or-duplicated", What: fmt.Sprintf("group %d requested %d times, sent %d times", g, n, sent[g])}
			}
		}
		for g := range sent {
			if want[g] == 0 {
				return &cf.Monitor{Signature: "grp:group-not-asked-for", What: fmt.Sprintf("group %d", g)}
			}
		}
		for _, g := range groups {
			c, _ := lookup(s.Codes, g)
			if c != 0 && s.Modes[strconv.Itoa(int(coordOf(g)))] == "" {
				found := false
				for _, it := range o.Res.Items {
					if it[0] == g && it[1] == c {
						found = true
					}
				}
				if !found {
					return &cf.Monitor{Signature: "grp:error-lost", What: fmt.Sprintf("group %d error %d not in the result", g, c)}
				}
			}
		}
	case "delete":
		c, _ := lookup(s.Codes, groups[0])
		if c != 0 || s.Modes[strconv.Itoa(int(coordOf(groups[0])))] == "missing" {
			return &cf.Monitor{Signature: "grp:error-lost", What: fmt.Sprintf("DeleteConsumerGroup returned nil, the coordinator said %d / omitted the group", c)}
		}
		if sent[groups[0]] != 1 {
			return &cf.Monitor{Signature: "grp:group-dropped-or-duplicated", What: "DeleteGroups request missing"}
		}
	case "offsets":
		if s.Modes[strconv.Itoa(int(coordOf(groups[0])))] == "" {
			for _, p := range s.Parts {
				c, _ := lookup(s.Codes, p)
				found := false
				for _, it := range o.Res.Items {
					if it[0] == p && it[1] == c {
						found = true
					}
				}
				if !found {
					return &cf.Monitor{Signature: "grp:error-lost", What: fmt.Sprintf("partition %d code %d not in the result", p, c)}
				}
			}
		}
	}
	return nil
}

var gopCoq = map[string]string{"describe": "GDescribe", "offsets": "GListOffsets", "delete": "GDelete"}

func grpTerm(s grpScript, o grpObs) string {
	var co []string
	for _, x := range s.Coord {
		co = append(co, fmt.Sprintf("(%d, inl %s)", x[0], cf.Z(x[1])))
	}
	for _, x := range s.CoordE {
		co = append(co, fmt.Sprintf("(%d, inr %s)", x[0], cf.Z(x[1])))
	}
	var lg []string
	for _, e := range o.Log {
		if e.Kind == "find" {
			lg = append(lg, cf.App("GFind", cf.Z(e.G)))
		} else {
			lg = append(lg, cf.App("GReq", cf.Z(e.B), cf.Z(e.V), cf.ZList(e.Items)))
		}
	}
	return fmt.Sprintf("{| gc_op := %s; gc_env := {| g_n := %d; g_kver := %d; g_coord := %s; g_modes := %s; g_codes := %s; g_top := %s |}; gc_groups := %s; gc_parts := %s; gc_res := %s; gc_log := %s |}",
		gopCoq[s.Op], s.N, s.KVer, cf.List(co), coqModes(s.Modes), pairs(s.Codes), cf.Z(s.Top), cf.ZList(s.Groups), cf.ZList(s.Parts), o.Res.coq(), cf.List(lg))
}

// FindCoordinator error codes that do not make the client sleep (15 would wait 2 s for __consumer_offsets)
var findErrs = []int64{-1, 16, 24, 30, 31}

func genGrp(r *rand.Rand) grpScript {
	s := grpScript{Op: []string{"describe", "describe", "offsets", "delete"}[r.Intn(4)], N: 1 + r.Intn(3)}
	switch s.Op {
	case "delete":
		s.KVer = 5 + r.Intn(3)
	default:
		s.KVer = r.Intn(len(kvers))
	}
	ng := 6
	bad := r.Intn(6) == 0
	for g := 0; g < ng; g++ {
		if bad && r.Intn(4) == 0 {
			s.CoordE = append(s.CoordE, [2]int64{int64(g), findErrs[r.Intn(len(findErrs))]})
		} else if r.Intn(6) != 0 {
			s.Coord = append(s.Coord, [2]int64{int64(g), int64(1 + r.Intn(s.N))})
		}
	}
	switch s.Op {
	case "describe":
		for i, n := 0, r.Intn(7); i < n; i++ {
			s.Groups = append(s.Groups, int64(r.Intn(ng)))
		}
		for g := 0; g < ng; g++ {
			if r.Intn(4) == 0 {
				s.Codes = append(s.Codes, [2]int64{int64(g), codePool[r.Intn(len(codePool))]})
			}
		}
	case "delete":
		s.Groups = []int64{int64(r.Intn(ng))}
		if r.Intn(2) == 0 {
			s.Codes = append(s.Codes, [2]int64{s.Groups[0], codePool[r.Intn(len(codePool))]})
		}
	case "offsets":
		s.Groups = []int64{int64(r.Intn(ng))}
		for p := 0; p < 1+r.Intn(4); p++ {
			s.Parts = append(s.Parts, int64(p))
			if r.Intn(3) == 0 {
				s.Codes = append(s.Codes, [2]int64{int64(p), codePool[r.Intn(len(codePool))]})
			}
		}
		if r.Intn(3) == 0 {
			s.Top = codePool[r.Intn(len(codePool))]
		}
	}
	s.Modes = genModes(r, s.N, 5)
	return s
}

// ---------------------------------------------------------------- main
func main() {
	out := flag.String("out", ".", "output directory")
	seed := flag.Int64("seed", 1, "seed")
	n := flag.Int("n", 300, "number of random controller-bound scripts (routing kinds get n/2 each)")
	flag.Parse()
	sarama.Logger = nopLogger{}
	r := rand.New(rand.NewSource(*seed))
	imports := "From SV Require Import C19.Model C19.Corr."
	wc := &cf.Writer{Dir: *out, Prefix: "cases_ctl", Imports: imports, CaseType: "ccase", MismatchFn: "mismatches_ctl", ShardSize: 250}
	wr := &cf.Writer{Dir: *out, Prefix: "cases_rec", Imports: imports, CaseType: "rcase", MismatchFn: "mismatches_rec", ShardSize: 250}
	wg := &cf.Writer{Dir: *out, Prefix: "cases_grp", Imports: imports, CaseType: "gcase", MismatchFn: "mismatches_grp", ShardSize: 250}
	for i := 0; i < *n+len(ctlCorpus); i++ {
		var s ctlScript
		if i < len(ctlCorpus) {
			s = ctlCorpus[i]
		} else {
			s = genCtl(r)
		}
		o := runCtl(s)
		nreq := 0
		for _, e := range o.Log {
			if e.Kind == "req" {
				nreq++
			}
		}
		wc.Add(ctlTerm(s, o), cf.Sidecar{Case: map[string]interface{}{"script": s, "observed": o}, Kind: "ctl-" + s.Op,
			Nontrivial: nreq >= 1, Monitor: monitorCtl(s, o)})
	}
	for i := 0; i < *n/2; i++ {
		s := genRec(r)
		o := runRec(s)
		wr.Add(recTerm(s, o), cf.Sidecar{Case: map[string]interface{}{"script": s, "observed": o}, Kind: "delete-records",
			Nontrivial: len(s.Parts) >= 2, Monitor: monitorRec(s, o)})
	}
	for i := 0; i < *n/2; i++ {
		s := genGrp(r)
		o := runGrp(s)
		wg.Add(grpTerm(s, o), cf.Sidecar{Case: map[string]interface{}{"script": s, "observed": o}, Kind: "group-" + s.Op,
			Nontrivial: len(o.Log) >= 2, Monitor: monitorGrp(s, o)})
	}
	wc.Close()
	wr.Close()
	wg.Close()
	_ = os.Stderr
}

type nopLogger struct{}

func (nopLogger) Print(v ...interface{})                 {}
func (nopLogger) Printf(format string, v ...interface{}) {}
func (nopLogger) Println(v ...interface{})               {}
