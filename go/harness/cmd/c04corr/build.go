package main

// Part (a): a real produceSet driven in-package (go/shims/c04_shim.go) on generated batches; the request is
// encoded by the real encoder and decoded back by the real decoder (decodeRequest, as the mock broker does);
// handleSuccess is run on the same set with chosen base offsets.

import (
	"fmt"
	"math/rand"
	"time"

	"github.com/Shopify/sarama"

	cf "verifharness/internal/coqfmt"
)

type buildScenario struct {
	Cfg  genCfg
	Alt  bool // use another version constant of the same generation
	Msgs []*genMsg
	Base map[string]int64     // "topic/partition" -> base offset answered
	LAT  map[string]time.Time // "topic/partition" -> log-append time answered in the block (absent: -1)
}

func tpKey(topic string, partition int32) string { return fmt.Sprintf("%s/%d", topic, partition) }

var baseChoices = []int64{0, 1, 7, 1000, 2147483647, 2147483648, 4294967295, 4294967296 + 5, 1 << 40, (1 << 62) + 3}

func genBuild(r *rand.Rand, i int) *buildScenario {
	s := &buildScenario{Cfg: randCfg(r, i), Alt: r.Intn(4) == 0, Base: map[string]int64{}, LAT: map[string]time.Time{}}
	nparts := 1 + r.Intn(3)
	type tp struct {
		t int
		p int32
	}
	var tps []tp
	for len(tps) < nparts {
		c := tp{r.Intn(2), int32(r.Intn(4))}
		if r.Intn(6) == 0 {
			c.p = int32(1000 + r.Intn(100000))
		}
		dup := false
		for _, x := range tps {
			dup = dup || x == c
		}
		if !dup {
			tps = append(tps, c)
		}
	}
	n := 1 + r.Intn(5)
	if r.Intn(10) == 0 {
		n = 6 + r.Intn(6)
	}
	first := map[tp]time.Time{}
	seq := map[tp]int32{}
	bigLeft := 2
	for j := 0; j < n; j++ {
		k := tps[r.Intn(len(tps))]
		m := &genMsg{ID: int64(j + 1), Topic: k.t, Partition: k.p}
		allowBig := bigLeft > 0 && !(s.Cfg.Gen < 2 && s.Cfg.Codec != 0 && r.Intn(3) != 0)
		m.Key, m.KeyClass = genBytes(r, m.ID, false)
		if r.Intn(40) == 0 && allowBig {
			m.Key, m.KeyClass = bgen(bigSizes[0], 3), "70KB"
			bigLeft--
		}
		m.Val, m.ValClass = genBytes(r, m.ID, allowBig)
		if m.ValClass == "70KB" {
			bigLeft--
		}
		m.KeyNilIf, m.ValNilIf = r.Intn(2) == 0, r.Intn(2) == 0
		if s.Cfg.Gen >= 2 {
			m.Headers = genHeaders(r, m.ID)
		}
		m.TS = genTime(r, first[k])
		if _, ok := first[k]; !ok {
			if m.TS.IsZero() {
				first[k] = time.Now()
			} else {
				first[k] = m.TS
			}
		}
		if s.Cfg.Idem {
			if _, ok := seq[k]; !ok {
				seq[k] = int32(r.Intn(1000))
			}
			m.Seq = seq[k]
			seq[k]++
			if r.Intn(12) == 0 {
				m.Seq -= int32(2 + r.Intn(5)) // below the batch's first sequence: the assertion of add
			}
		} else if r.Intn(5) == 0 {
			m.Seq = int32(r.Intn(100)) // ignored when not idempotent
		}
		m.EncFail = r.Intn(25) == 0
		s.Msgs = append(s.Msgs, m)
	}
	for _, k := range tps {
		s.Base[tpKey(topicName(k.t), k.p)] = baseChoices[r.Intn(len(baseChoices))] + int64(r.Intn(3))
		if r.Intn(5) < 2 { // the topic is LogAppendTime: the block carries the broker's clock
			s.LAT[tpKey(topicName(k.t), k.p)] = time.Unix(1700000000+int64(r.Intn(1000)), int64(r.Intn(1000))*1000000)
		}
	}
	return s
}

func buildCorpus() []*buildScenario {
	ts := time.Unix(1600000000, 5000000)
	mk := func(id int64, p int32, key, val []byte, t time.Time) *genMsg {
		return &genMsg{ID: id, Topic: 0, Partition: p, Key: key, Val: val, TS: t, KeyClass: "corpus", ValClass: "corpus"}
	}
	var out []*buildScenario
	for gen := 0; gen < 4; gen++ {
		for _, codec := range []int8{0, 1, 2, 3, 4} {
			if codec == 4 && gen < 3 {
				continue
			}
			// three messages on one partition, the third EARLIER than the first, nil / empty / text payloads
			out = append(out, &buildScenario{Cfg: genCfg{Gen: gen, Codec: codec, Level: sarama.CompressionLevelDefault, Pid: -1, Epoch: -1},
				Msgs: []*genMsg{mk(1, 2, nil, []byte("1:a"), ts), mk(2, 2, []byte{}, nil, time.Time{}), mk(3, 2, []byte("k"), []byte{}, ts.Add(-1500*time.Microsecond)),
					mk(4, 0, []byte("k4"), []byte("4:b"), ts.Add(999*time.Microsecond))},
				Base: map[string]int64{"t0/2": 4294967296 + 41, "t0/0": 12}, LAT: map[string]time.Time{"t0/2": time.Unix(1700000000, 123000000)}})
		}
	}
	return out
}

// runBuild executes one scenario on the implementation; returns the Coq term and the sidecar.
func runBuild(s *buildScenario, r *rand.Rand) (string, cf.Sidecar) {
	conf := s.Cfg.config(nil)
	conf.Producer.Return.Successes = true
	if s.Alt {
		conf.Version = altVersions[s.Cfg.Gen]
	}
	in := make([]sarama.VerifC04Msg, len(s.Msgs))
	byPtr := map[*sarama.ProducerMessage]*genMsg{}
	for i, m := range s.Msgs {
		pm := m.producerMessage()
		in[i] = sarama.VerifC04Msg{Msg: pm, Seq: m.Seq}
		byPtr[pm] = m
	}
	lo := time.Now()
	res, h := sarama.VerifC04Build(conf, s.Cfg.Pid, s.Cfg.Epoch, in)
	hi := time.Now()
	sortParts(res.Parts)

	var mon *cf.Monitor
	fail := func(sig, what string) {
		if mon == nil {
			mon = &cf.Monitor{Signature: sig, What: what}
		}
	}
	desc := map[string]interface{}{"cfg": s.Cfg.String(), "alt": s.Alt}
	var md []interface{}
	for _, m := range s.Msgs {
		md = append(md, describe(m))
	}
	desc["msgs"] = md
	desc["bases"] = s.Base
	lats := map[string]int64{}
	for k, v := range s.LAT {
		lats[k] = v.UnixNano()
	}
	desc["logappend"] = lats

	if res.Panic != "" {
		fail("build:panic", "buildRequest/encode panicked: "+res.Panic)
	}
	if res.EncodeErr != "" {
		fail("build:encode-error", "the request does not encode: "+res.EncodeErr)
	}
	if res.DecodeErr != "" {
		fail("build:decode-error", "the broker cannot decode the request: "+res.DecodeErr)
	}
	if res.ExtraParts != 0 {
		fail("build:extra-partition", fmt.Sprintf("%d partitions in the decoded request that the set does not have", res.ExtraParts))
	}
	// accepted messages per partition, in add order
	accepted := map[string][]*genMsg{}
	nacc := 0
	for i, m := range s.Msgs {
		code := 9
		if i < len(res.AddErrs) {
			code = res.AddErrs[i]
		}
		if code == 0 {
			k := tpKey(topicName(m.Topic), m.Partition)
			accepted[k] = append(accepted[k], m)
			nacc++
		} else if code == 9 {
			fail("build:add-error", "add returned an unexpected error")
		} else if code == 1 && !m.EncFail {
			fail("build:add-error", "add reported an encoder error for a message whose encoders work")
		}
	}
	version := int64(-1)
	if nacc > 0 && mon == nil {
		version = int64(res.Version)
		if res.Version != s.Cfg.wantVersion() {
			fail("build:request-version", fmt.Sprintf("request version %d for %s, the protocol wants %d", res.Version, s.Cfg, s.Cfg.wantVersion()))
		}
	}
	// the decoded request against the submitted messages, through the harness' own broker log
	nowOf := map[int64]int64{} // time.Now() oracle for messages without a timestamp: read off the decoded request
	var partTerms, setTerms, baseTerms []string
	if mon == nil {
		for _, p := range res.Parts {
			k := tpKey(p.Topic, p.Partition)
			want := accepted[k]
			if !p.HasDecoded {
				fail("build:missing-partition", "partition "+k+" of the set is not in the decoded request")
				continue
			}
			base := s.Base[k]
			lg := appendDecoded(base, p.Decoded)
			if len(lg) != len(want) {
				fail("build:count", fmt.Sprintf("%s: %d records reach the log, %d messages were accepted", k, len(lg), len(want)))
			}
			byOff := map[int64]logEntry{}
			for _, e := range lg {
				if _, dup := byOff[e.Offset]; dup {
					fail("build:position", fmt.Sprintf("%s: two records at offset %d", k, e.Offset))
				}
				byOff[e.Offset] = e
			}
			for i, m := range want {
				e, ok := byOff[base+int64(i)]
				if !ok {
					fail("build:position", fmt.Sprintf("%s: no record at base+%d for message %d", k, i, m.ID))
					continue
				}
				if d := compareEntry(s.Cfg, m, e, lo, hi, time.Time{}); d != "" {
					fail("build:"+d, fmt.Sprintf("%s: the record at base+%d differs from message %d in its %s", k, i, m.ID, d))
				}
				if m.TS.IsZero() && e.HasTS {
					nowOf[m.ID] = e.TS.UnixNano()
				}
			}
			// framing
			if b := p.Decoded.RecordBatch; b != nil {
				if s.Cfg.Gen < 2 {
					fail("build:framing", k+": a record batch for a pre-0.11 version")
				}
				wantSeq := int32(0)
				if s.Cfg.Idem && len(want) > 0 {
					wantSeq = want[0].Seq
				}
				if int8(b.Codec) != s.Cfg.Codec || b.ProducerID != s.Cfg.Pid || b.ProducerEpoch != s.Cfg.Epoch || b.FirstSequence != wantSeq ||
					int(b.LastOffsetDelta) != len(want)-1 || b.Version != 2 || b.Control || b.IsTransactional || b.LogAppendTime || b.PartialTrailingRecord {
					fail("build:batch-fields", fmt.Sprintf("%s: batch header codec=%d pid=%d epoch=%d seq=%d lastOffsetDelta=%d", k, b.Codec, b.ProducerID, b.ProducerEpoch, b.FirstSequence, b.LastOffsetDelta))
				}
			} else if ms := p.Decoded.MsgSet; ms != nil {
				if s.Cfg.Gen >= 2 {
					fail("build:framing", k+": a legacy message set for a 0.11+ version")
				}
				wantMagic := int8(0)
				if s.Cfg.Gen >= 1 {
					wantMagic = 1
				}
				if s.Cfg.Codec == 0 {
					for _, mb := range ms.Messages {
						if mb.Msg.Codec != 0 || mb.Msg.Set != nil || mb.Msg.Version != wantMagic {
							fail("build:framing", k+": uncompressed set with a compressed or wrong-magic message")
						}
					}
				} else if len(ms.Messages) != 1 || int8(ms.Messages[0].Msg.Codec) != s.Cfg.Codec || ms.Messages[0].Msg.Set == nil ||
					ms.Messages[0].Msg.Version != wantMagic || ms.Messages[0].Msg.Key != nil {
					fail("build:framing", k+": compression configured but the set is not one wrapper message of that codec")
				} else if s.Cfg.Gen >= 1 && len(want) > 0 && !want[0].TS.IsZero() &&
					ms.Messages[0].Msg.Timestamp.UnixNano() != want[0].TS.Truncate(time.Millisecond).UnixNano() {
					fail("build:framing", k+": wrapper timestamp is not the first message's")
				}
			}
			partTerms = append(partTerms, fmt.Sprintf("(%s, %s)", coqTpk(topicIndex(p.Topic), p.Partition), coqRecords(p.Decoded)))
			ids := make([]int64, len(p.Msgs))
			for i, pm := range p.Msgs {
				ids[i] = byPtr[pm].ID
			}
			if len(ids) != len(want) {
				fail("build:set-msgs", k+": partitionSet.msgs does not hold the accepted messages")
			}
			setTerms = append(setTerms, fmt.Sprintf("(%s, %s)", coqTpk(topicIndex(p.Topic), p.Partition), cf.ZList(ids)))
			baseTerms = append(baseTerms, fmt.Sprintf("(%s, (%s, %s))", coqTpk(topicIndex(p.Topic), p.Partition), cf.Z(base), coqTime(s.LAT[k])))
		}
	}
	// the set built and encoded a second time (a re-sent batch): must decode, and to the same records
	if rs := res.Resend; mon == nil && rs.Done && nacc > 0 {
		switch {
		case rs.Panic != "":
			fail("wire:resend-panic", "building/encoding the same set a second time panicked: "+rs.Panic)
		case rs.EncodeErr != "":
			fail("wire:resend-encode-error", "the same set does not encode a second time: "+rs.EncodeErr)
		case rs.DecodeErr != "":
			fail("wire:undecodable-request", "the broker cannot decode the request when the same set is sent a second time: "+rs.DecodeErr)
		default:
			sortParts(rs.Parts)
			first := map[string]string{}
			for _, p := range res.Parts {
				if p.HasDecoded {
					first[tpKey(p.Topic, p.Partition)] = coqRecords(p.Decoded)
				}
			}
			if len(rs.Parts) != len(first) {
				fail("wire:resend-differs", fmt.Sprintf("the re-sent request has %d partitions, the first had %d", len(rs.Parts), len(first)))
			}
			for _, p := range rs.Parts {
				if coqRecords(p.Decoded) != first[tpKey(p.Topic, p.Partition)] {
					fail("wire:resend-differs", tpKey(p.Topic, p.Partition)+": the re-sent batch decodes to other records than the first transmission")
				}
			}
		}
		desc["resend_same_bytes"] = rs.Same
	}
	// handleSuccess on the same set
	var succTerms []string
	if mon == nil && nacc > 0 {
		succ, nerr := h.VerifC04HandleSuccess(res.Version, func(topic string, partition int32) (int64, time.Time) {
			return s.Base[tpKey(topic, partition)], s.LAT[tpKey(topic, partition)]
		})
		if nerr != 0 || len(succ) != nacc {
			fail("success:count", fmt.Sprintf("%d successes and %d errors for %d messages answered NoError", len(succ), nerr, nacc))
		}
		got := map[int64]int64{}
		for _, sc := range succ {
			m := byPtr[sc.Msg]
			got[m.ID] = sc.Offset
			succTerms = append(succTerms, fmt.Sprintf("(%d, (%s, %s))", m.ID, cf.Z(sc.Offset), coqTime(sc.Timestamp)))
			// the reported timestamp: the broker's log-append time when the block carries one (0.10+), else the application's own
			wantTS := m.TS
			if lat, ok := s.LAT[tpKey(topicName(m.Topic), m.Partition)]; ok && s.Cfg.Gen >= 1 {
				wantTS = lat
			}
			if !sc.Timestamp.Equal(wantTS) || sc.Timestamp.IsZero() != wantTS.IsZero() {
				fail("success:timestamp", fmt.Sprintf("message %d reported with timestamp %v, expected %v", m.ID, sc.Timestamp, wantTS))
			}
			if sc.Msg.Partition != m.Partition {
				fail("success:partition", fmt.Sprintf("message %d reported on partition %d, was %d", m.ID, sc.Msg.Partition, m.Partition))
			}
		}
		for k, want := range accepted {
			for i, m := range want {
				if off, ok := got[m.ID]; ok && off != s.Base[k]+int64(i) {
					fail("success:offset", fmt.Sprintf("message %d is the %d-th of its batch on %s (base %d) but is reported at %d", m.ID, i, k, s.Base[k], off))
				}
			}
		}
	}
	// the Coq case
	var msgTerms []string
	var addTerms []int64
	for i, m := range s.Msgs {
		msgTerms = append(msgTerms, fmt.Sprintf("(%s, %s)", coqTpk(m.Topic, m.Partition), coqPM(m, nowOf[m.ID])))
		code := int64(9)
		if i < len(res.AddErrs) {
			code = int64(res.AddErrs[i])
		}
		addTerms = append(addTerms, code)
	}
	term := cf.App("mkBCase", s.Cfg.coq(), cf.Z(s.Cfg.Pid), cf.Z(int64(s.Cfg.Epoch)), cf.List(msgTerms), cf.ZList(addTerms),
		cf.Z(version), cf.List(partTerms), cf.List(setTerms), cf.List(baseTerms), cf.List(succTerms))
	desc["adds"] = res.AddErrs
	desc["reqbytes"] = res.ReqBytes
	return term, cf.Sidecar{Case: desc, Kind: "build", Nontrivial: nacc > 0, Monitor: mon}
}
