package main

// Part (b): a real AsyncProducer / SyncProducer against one or two scripted mock brokers.  The brokers decode every
// produce request with the library's decoder, append the decoded records to per-partition logs (whose end
// offsets start at arbitrary values), answer by a fault script (retriable errors with and without append,
// dropped connections, a fatal error; an idempotent duplicate is answered NoError with the original base), and
// serve metadata in which some LOWER-numbered partitions have no leader (so that the index a non-consistency
// partitioner returns differs from the partition id) and in which one of them gets a leader after the first
// fault (so that re-partitioning a retried message would move it).

import (
	"fmt"
	"math/rand"
	"os"
	"sort"
	"strings"
	"sync"
	"time"

	"github.com/Shopify/sarama"

	cf "verifharness/internal/coqfmt"
)

var traceE2E bool

// recvObs is one message received by a broker worker (hook bp.recv) and what the worker did with it.
type recvObs struct {
	Flags    int
	Closing  bool
	Retrying bool
	Obs      int // 0 nothing (syn), 1 bounced, 2 went on to add, 3 add refused it
	msg      *sarama.ProducerMessage
}

var recvLog []*recvObs // filled by runE2E, written as a case family of its own by main

const (
	fOk = iota
	fRetriable
	fRetriableAppended
	fFatal
	fDropBefore
	fDropAfter
)

var faultNames = []string{"ok", "retriable", "retriable-appended", "fatal", "drop-before", "drop-after"}

type fault struct {
	Kind int
	Err  int16
	Only int // -1: every partition of the request; k: the k-th (mod count) in (topic, partition) order
}

type e2eScenario struct {
	Cfg         genCfg
	Sync        bool
	SyncBatch   bool
	Brokers     int
	Parts       []int            // partitions per topic
	LeaderlessA []map[int32]bool // per topic
	LeaderlessB []map[int32]bool
	Msgs        []*genMsg
	Choice      []int32
	Consistent  []bool
	Script      []fault
	FlushMsgs   int
	RetryMax    int
	AcksAll     bool
	Start       map[string]int64
	LAT         time.Time // non-zero: the topics are LogAppendTime; the brokers stamp entries with it and answer it in every NoError block
	Steer       string    // "chaser": the steered replay of the marker-accepted witness (see chaserWitness)
}

type reqPart struct {
	Topic     string
	Partition int32
	Base      int64
	Appended  bool
	Recs      sarama.Records
	Req       int
	Answer    string
}

type ecluster struct {
	mu      sync.Mutex
	s       *e2eScenario
	brokers []*sarama.MockBroker
	stateB  bool
	logEnd  map[string]int64
	logs    map[string][]logEntry
	idem    map[string]*idemState
	reqs    []reqPart
	nreq    int
	rep     *recReporter
	sentAs  map[string]string // idempotent batches by (partition, producer id, epoch, first sequence, count): the records first received
	differs []string
}

type idemBatch struct {
	first, last int32
	base        int64
}

type idemState struct {
	epoch  int16
	last   int32
	cached []idemBatch
}

// the mock broker reports what it cannot handle through its TestReporter: a request it cannot DECODE ends up here
// (MockBroker.serverError); "verif: drop" is the scripted connection drop
type recReporter struct {
	mu   sync.Mutex
	errs []string
}

func (r *recReporter) note(s string) {
	if strings.Contains(s, "verif: drop") || !strings.Contains(s, "decod") {
		// only what the DECODER refuses counts (PacketDecodingError, insufficient data to decode); a connection the producer
		// closes in the middle of a request (unexpected EOF) is not a malformed request
		return
	}
	r.mu.Lock()
	r.errs = append(r.errs, s)
	r.mu.Unlock()
}
func (r *recReporter) Error(a ...interface{})            { r.note(fmt.Sprint(a...)) }
func (r *recReporter) Errorf(f string, a ...interface{}) { r.note(f) }
func (r *recReporter) Fatal(a ...interface{})            { r.note(fmt.Sprint(a...)) }
func (r *recReporter) Fatalf(f string, a ...interface{}) { r.note(f) }

func newCluster(s *e2eScenario) *ecluster {
	c := &ecluster{s: s, logEnd: map[string]int64{}, logs: map[string][]logEntry{}, idem: map[string]*idemState{}, rep: &recReporter{}, sentAs: map[string]string{}}
	for k, v := range s.Start {
		c.logEnd[k] = v
	}
	for i := 0; i < s.Brokers; i++ {
		b := sarama.NewMockBroker(c.rep, int32(i+1))
		b.VerifC04SetHandler(c.handle)
		c.brokers = append(c.brokers, b)
	}
	return c
}

func (c *ecluster) close() {
	for _, b := range c.brokers {
		b.Close()
	}
}

func (c *ecluster) leaderless(t int) map[int32]bool {
	if c.stateB {
		return c.s.LeaderlessB[t]
	}
	return c.s.LeaderlessA[t]
}

func (c *ecluster) handle(body interface{}) interface{} {
	c.mu.Lock()
	defer c.mu.Unlock()
	switch r := body.(type) {
	case *sarama.MetadataRequest:
		v := r.Version
		if v > 5 {
			v = 5
		}
		resp := &sarama.MetadataResponse{Version: v}
		for _, b := range c.brokers {
			resp.AddBroker(b.Addr(), b.BrokerID())
		}
		for t, n := range c.s.Parts {
			for p := 0; p < n; p++ {
				if c.leaderless(t)[int32(p)] {
					resp.AddTopicPartition(topicName(t), int32(p), -1, nil, nil, nil, sarama.ErrLeaderNotAvailable)
				} else {
					l := c.brokers[p%len(c.brokers)].BrokerID()
					resp.AddTopicPartition(topicName(t), int32(p), l, []int32{l}, []int32{l}, nil, sarama.ErrNoError)
				}
			}
		}
		return resp
	case *sarama.InitProducerIDRequest:
		return &sarama.InitProducerIDResponse{ProducerID: c.s.Cfg.Pid, ProducerEpoch: c.s.Cfg.Epoch}
	case *sarama.ProduceRequest:
		return c.produce(r)
	}
	return nil
}

func (c *ecluster) produce(r *sarama.ProduceRequest) interface{} {
	idx := c.nreq
	c.nreq++
	f := fault{Kind: fOk, Only: -1}
	if idx < len(c.s.Script) {
		f = c.s.Script[idx]
	}
	parts := sarama.VerifC04RequestParts(r)
	sortParts(parts)
	if f.Kind != fOk {
		c.stateB = true // from now on the metadata differs: a leaderless partition got its leader
	}
	resp := &sarama.ProduceResponse{Version: r.Version, Blocks: map[string]map[int32]*sarama.ProduceResponseBlock{}}
	sel := -1
	if f.Only >= 0 && len(parts) > 0 {
		sel = f.Only % len(parts)
	}
	for i, p := range parts {
		kind := f.Kind
		if sel >= 0 && i != sel {
			kind = fOk
		}
		key := tpKey(p.Topic, p.Partition)
		rp := reqPart{Topic: p.Topic, Partition: p.Partition, Recs: p.Decoded, Req: idx, Answer: faultNames[kind], Base: c.logEnd[key]}
		// idempotent producer state of a faithful broker, per (producer id, partition): a batch equal to one of the
		// last five appended ones (first and last sequence) is a duplicate and is answered NoError with its original
		// base; first sequence = last appended + 1 (0 in a new epoch) is appended; a lower epoch is fenced; anything
		// else is OutOfOrderSequenceNumber
		var st *idemState
		nrec := int32(0)
		verdict := sarama.ErrNoError
		if b := p.Decoded.RecordBatch; b != nil && b.ProducerID >= 0 {
			sk := fmt.Sprintf("%s/%d", key, b.ProducerID)
			st = c.idem[sk]
			if st == nil {
				st = &idemState{epoch: b.ProducerEpoch, last: -1}
				c.idem[sk] = st
			}
			nrec = int32(len(b.Records))
			// a batch received again (same producer id, epoch, first sequence and record count) must be the same records
			rk := fmt.Sprintf("%s/%d/%d/%d/%d", key, b.ProducerID, b.ProducerEpoch, b.FirstSequence, nrec)
			if prev, seen := c.sentAs[rk]; !seen {
				c.sentAs[rk] = coqRecords(p.Decoded)
			} else if prev != coqRecords(p.Decoded) {
				c.differs = append(c.differs, rk)
			}
			switch {
			case b.ProducerEpoch < st.epoch:
				verdict = sarama.ErrInvalidProducerEpoch
			case b.ProducerEpoch > st.epoch:
				if b.FirstSequence != 0 {
					verdict = sarama.ErrOutOfOrderSequenceNumber
				}
			default:
				dup := false
				for _, cb := range st.cached {
					if cb.first == b.FirstSequence && cb.last == b.FirstSequence+nrec-1 {
						dup = true
					}
				}
				if !dup && b.FirstSequence != st.last+1 {
					verdict = sarama.ErrOutOfOrderSequenceNumber
				}
			}
		}
		app := func() int64 {
			if st != nil {
				b := p.Decoded.RecordBatch
				if b.ProducerEpoch == st.epoch {
					for _, cb := range st.cached {
						if cb.first == b.FirstSequence && cb.last == b.FirstSequence+nrec-1 {
							rp.Base, rp.Answer = cb.base, rp.Answer+"/duplicate"
							return cb.base
						}
					}
				}
			}
			base := c.logEnd[key]
			lg := appendDecoded(base, p.Decoded)
			if !c.s.LAT.IsZero() {
				for i := range lg {
					if lg[i].HasTS {
						lg[i].TS = c.s.LAT
					}
				}
			}
			c.logs[key] = append(c.logs[key], lg...)
			c.logEnd[key] = base + int64(len(lg))
			rp.Appended = true
			if st != nil {
				b := p.Decoded.RecordBatch
				if b.ProducerEpoch > st.epoch {
					st.epoch, st.cached = b.ProducerEpoch, nil
				}
				st.last = b.FirstSequence + nrec - 1
				st.cached = append(st.cached, idemBatch{b.FirstSequence, st.last, base})
				if len(st.cached) > 5 {
					st.cached = st.cached[1:]
				}
			}
			return base
		}
		set := func(e sarama.KError, off int64) {
			if resp.Blocks[p.Topic] == nil {
				resp.Blocks[p.Topic] = map[int32]*sarama.ProduceResponseBlock{}
			}
			blk := &sarama.ProduceResponseBlock{Err: e, Offset: off}
			if e == sarama.ErrNoError {
				blk.Timestamp = c.s.LAT
			}
			resp.Blocks[p.Topic][p.Partition] = blk
		}
		if verdict != sarama.ErrNoError {
			rp.Answer = verdict.Error()
			set(verdict, -1)
			c.reqs = append(c.reqs, rp)
			continue
		}
		switch kind {
		case fOk:
			set(sarama.ErrNoError, app())
		case fRetriable, fFatal:
			set(sarama.KError(f.Err), -1)
		case fRetriableAppended:
			app()
			set(sarama.KError(f.Err), -1)
		case fDropAfter:
			app()
		case fDropBefore:
		}
		c.reqs = append(c.reqs, rp)
	}
	if f.Kind == fDropBefore || f.Kind == fDropAfter {
		return sarama.VerifC04Drop{}
	}
	return resp
}

// ---------------------------------------------------------------- partitioner

type partCall struct {
	ID int64
	N  int32
}

type scriptPartitioner struct {
	mu    *sync.Mutex
	s     *e2eScenario
	calls *[]partCall
}

func (p *scriptPartitioner) Partition(msg *sarama.ProducerMessage, n int32) (int32, error) {
	id, ok := msg.Metadata.(int64)
	if !ok { // not an application message: an internal marker is being partitioned
		p.mu.Lock()
		*p.calls = append(*p.calls, partCall{-1, n})
		p.mu.Unlock()
		return 0, nil
	}
	p.mu.Lock()
	*p.calls = append(*p.calls, partCall{id, n})
	p.mu.Unlock()
	return p.s.Choice[id-1], nil
}
func (p *scriptPartitioner) RequiresConsistency() bool { return false }
func (p *scriptPartitioner) MessageRequiresConsistency(msg *sarama.ProducerMessage) bool {
	id, ok := msg.Metadata.(int64)
	return ok && p.s.Consistent[id-1]
}

// ---------------------------------------------------------------- generation

func writable(n int, leaderless map[int32]bool) []int32 {
	var out []int32
	for p := 0; p < n; p++ {
		if !leaderless[int32(p)] {
			out = append(out, int32(p))
		}
	}
	return out
}

func genE2E(r *rand.Rand, i int) *e2eScenario {
	s := &e2eScenario{Start: map[string]int64{}}
	// valid configurations only (Config.Validate runs in NewClient)
	s.Cfg = genCfg{Gen: i % 4, Codec: int8((i / 4) % 5), Level: sarama.CompressionLevelDefault, Pid: -1, Epoch: -1}
	if s.Cfg.Codec == 4 {
		s.Cfg.Gen = 3
	}
	if s.Cfg.Codec == 3 && s.Cfg.Gen == 0 {
		s.Cfg.Gen = 1 + r.Intn(3) // lz4 needs 0.10
	}
	s.RetryMax = 2 + r.Intn(2)
	if s.Cfg.Gen >= 2 && r.Intn(3) == 0 {
		s.Cfg.Idem, s.Cfg.Pid, s.Cfg.Epoch = true, int64(1000+r.Intn(1000)), int16(r.Intn(3))
		s.AcksAll = true
	} else {
		s.AcksAll = r.Intn(2) == 0
	}
	if s.Cfg.Gen >= 1 && r.Intn(3) == 0 {
		s.LAT = time.Unix(1700000000+int64(r.Intn(1000)), int64(r.Intn(1000))*1000000)
	}
	s.Sync = r.Intn(3) == 0
	s.SyncBatch = s.Sync && r.Intn(2) == 0
	s.Brokers = 1 + r.Intn(2)
	ntopics := 1 + r.Intn(2)
	for t := 0; t < ntopics; t++ {
		n := 2 + r.Intn(3)
		s.Parts = append(s.Parts, n)
		la := map[int32]bool{}
		// leaderless lower-numbered partitions: {0}, {0,1}, {1} or none; at least two partitions stay writable
		switch k := r.Intn(5); {
		case k <= 1:
			la[0] = true
		case k == 2 && n >= 4:
			la[0], la[1] = true, true
		case k == 3 && n >= 3:
			la[1] = true
		}
		lb := map[int32]bool{}
		first := true
		for p := int32(0); p < int32(n); p++ {
			if la[p] {
				if first {
					first = false // this one gets a leader in state B
					continue
				}
				lb[p] = true
			}
		}
		s.LeaderlessA = append(s.LeaderlessA, la)
		s.LeaderlessB = append(s.LeaderlessB, lb)
		for p := 0; p < n; p++ {
			s.Start[tpKey(topicName(t), int32(p))] = baseChoices[r.Intn(len(baseChoices))] + int64(r.Intn(5))
		}
	}
	n := 1 + r.Intn(8)
	big := 1
	for j := 0; j < n; j++ {
		m := &genMsg{ID: int64(j + 1), Topic: r.Intn(ntopics)}
		if r.Intn(6) == 0 {
			m.Key, m.KeyClass = genBytes(r, m.ID, false)
			m.Val, m.ValClass = genBytes(r, m.ID, big > 0)
			if m.ValClass == "70KB" {
				big--
			}
		} else {
			m.Key, m.KeyClass = genBytes(r, m.ID, false)
			m.Val, m.ValClass = []byte(fmt.Sprintf("%d:%d", m.ID, r.Intn(1000))), "id"
			switch r.Intn(6) { // record bodies on both sides of the 63|64 and 8191|8192 byte marks (varint length prefix of a record)
			case 0, 1:
				m.Val = append(m.Val, []byte(strings.Repeat("p", 45+r.Intn(16)))...)
			case 2:
				if big > 0 {
					m.Val = append(m.Val, bgen(int64(8176+r.Intn(10)), int64(1+r.Intn(3)))...)
					big--
				}
			}
		}
		if s.Cfg.Idem && r.Intn(5) == 0 {
			m.EncFail = true // Value.Encode() fails in produceSet.add after the message got its sequence number: the epoch is bumped
		}
		m.KeyNilIf, m.ValNilIf = r.Intn(2) == 0, r.Intn(2) == 0
		if s.Cfg.Gen >= 2 {
			m.Headers = genHeaders(r, m.ID)
		}
		m.TS = genTime(r, time.Time{})
		cons := r.Intn(4) == 0
		wa, wb := writable(s.Parts[m.Topic], s.LeaderlessA[m.Topic]), writable(s.Parts[m.Topic], s.LeaderlessB[m.Topic])
		lim := len(wa)
		if len(wb) < lim {
			lim = len(wb)
		}
		if cons {
			lim = s.Parts[m.Topic]
		}
		ch := int32(r.Intn(lim))
		if r.Intn(30) == 0 {
			ch = int32(lim + 5) // out of range: ErrInvalidPartition, no success
		}
		s.Msgs = append(s.Msgs, m)
		s.Choice = append(s.Choice, ch)
		s.Consistent = append(s.Consistent, cons)
	}
	switch r.Intn(3) {
	case 0:
		s.FlushMsgs = 0
	case 1:
		s.FlushMsgs = 2 + r.Intn(3)
	default:
		s.FlushMsgs = n
	}
	retri := []int16{6, 7, 19, 20, 5, 3}
	nf := r.Intn(3)
	for k := 0; k < nf; k++ {
		f := fault{Kind: 1 + r.Intn(5), Only: -1}
		if r.Intn(3) == 0 {
			f.Only = r.Intn(3)
		}
		switch f.Kind {
		case fRetriable, fRetriableAppended:
			f.Err = retri[r.Intn(len(retri))]
		case fFatal:
			f.Err = 10
		}
		// leading Ok answers so that faults also hit later requests
		for z := r.Intn(2); z > 0; z-- {
			s.Script = append(s.Script, fault{Kind: fOk, Only: -1})
		}
		s.Script = append(s.Script, f)
	}
	for _, m := range s.Msgs {
		if m.EncFail {
			// an epoch bump in the middle of fault handling is C05's subject (batches re-formed with old sequence numbers):
			// scenarios with failing encoders are answered without faults here
			s.Script = nil
		}
	}
	return s
}

// chaserWitness: the steered replay of the known finding wire:marker-accepted:idempotent.  Idempotent producer, one
// partition; m1's request is answered NotEnoughReplicas, retryBatch re-sends the batch itself (held at the bridge);
// m2 is bounced by the broker worker (currentRetries set) and takes the partition worker to level 1 (held there);
// the re-sent batch goes out, the connection drops: handleError abandons the broker and re-queues m1 with retries 2;
// the partition worker continues on a NEW broker worker; m1 arrives with retries 2 > 1, the chaser of level 2 is sent
// to that healthy worker (after m2's batch has been acknowledged, so that the worker's buffer is empty and the marker
// starts a batch of its own instead of tripping add's sequence assertion), which hands it to buffer.add.
func chaserWitness() *e2eScenario {
	ts := time.Unix(1600000000, 0)
	s := &e2eScenario{Cfg: genCfg{Gen: 2, Codec: 0, Level: sarama.CompressionLevelDefault, Idem: true, Pid: 4711, Epoch: 0},
		Brokers: 1, Parts: []int{1}, LeaderlessA: []map[int32]bool{{}}, LeaderlessB: []map[int32]bool{{}},
		RetryMax: 3, FlushMsgs: 0, AcksAll: true, Start: map[string]int64{"t0/0": 1004}, Steer: "chaser",
		Script: []fault{{Kind: fRetriable, Err: 19, Only: -1}, {Kind: fDropBefore, Only: -1}}}
	for j := 0; j < 2; j++ {
		s.Msgs = append(s.Msgs, &genMsg{ID: int64(j + 1), Topic: 0, Key: []byte(fmt.Sprintf("k%d", j+1)), Val: []byte(fmt.Sprintf("%d:v", j+1)),
			TS: ts.Add(time.Duration(j) * time.Second), KeyClass: "corpus", ValClass: "id"})
		s.Choice = append(s.Choice, 0)
		s.Consistent = append(s.Consistent, false)
	}
	return s
}

func e2eCorpus() []*e2eScenario {
	ts := time.Unix(1600000000, 0)
	out := []*e2eScenario{chaserWitness()}
	// a batch re-sent by retryBatch (same RecordBatch object encoded a second time), record bodies of 60..70 and ~8190 bytes
	for _, sz := range []int{52, 58, 59, 66, 8184, 8186} {
		s := &e2eScenario{Cfg: genCfg{Gen: 2 + sz%2, Codec: 0, Level: sarama.CompressionLevelDefault, Idem: true, Pid: 4711, Epoch: 0},
			Brokers: 1, Parts: []int{2}, LeaderlessA: []map[int32]bool{{}}, LeaderlessB: []map[int32]bool{{}},
			RetryMax: 3, FlushMsgs: 2, AcksAll: true, Start: map[string]int64{"t0/0": 77, "t0/1": 4294967296 + 9},
			Script: []fault{{Kind: fRetriable, Err: 19, Only: -1}}}
		for j := 0; j < 2; j++ {
			v := []byte(fmt.Sprintf("%d:", j+1))
			if sz < 256 {
				v = append(v, []byte(strings.Repeat("r", sz))...)
			} else {
				v = append(v, bgen(int64(sz), 2)...)
			}
			s.Msgs = append(s.Msgs, &genMsg{ID: int64(j + 1), Topic: 0, Val: v, TS: ts.Add(time.Duration(j) * time.Millisecond), KeyClass: "nil", ValClass: "edge"})
			s.Choice = append(s.Choice, 1)
			s.Consistent = append(s.Consistent, false)
		}
		out = append(out, s)
	}
	// an epoch bump while the broker worker's buffer is empty: m1 delivered, m2's Value encoder fails in add (after it got its
	// sequence number: returnError bumps the epoch, sequences restart at 0), then m3 — which must be appended, not taken
	// for a duplicate of m1
	for _, sync := range []bool{true, false} {
		s := &e2eScenario{Cfg: genCfg{Gen: 2, Codec: 0, Level: sarama.CompressionLevelDefault, Idem: true, Pid: 4712, Epoch: 0},
			Brokers: 1, Parts: []int{1}, LeaderlessA: []map[int32]bool{{}}, LeaderlessB: []map[int32]bool{{}},
			RetryMax: 3, FlushMsgs: 0, AcksAll: true, Start: map[string]int64{"t0/0": 1000}, Sync: sync}
		for j := 0; j < 4; j++ {
			s.Msgs = append(s.Msgs, &genMsg{ID: int64(j + 1), Topic: 0, Key: []byte(fmt.Sprintf("k%d", j+1)), Val: []byte(fmt.Sprintf("%d:v", j+1)),
				TS: ts.Add(time.Duration(j) * time.Second), KeyClass: "corpus", ValClass: "id", EncFail: j == 1})
			s.Choice = append(s.Choice, 0)
			s.Consistent = append(s.Consistent, false)
		}
		out = append(out, s)
	}
	for gen := 0; gen < 4; gen++ {
		for _, idem := range []bool{false, true} {
			if idem && gen < 2 {
				continue
			}
			s := &e2eScenario{Cfg: genCfg{Gen: gen, Codec: int8(gen % 4), Level: sarama.CompressionLevelDefault, Pid: -1, Epoch: -1},
				Brokers: 1, Parts: []int{3}, LeaderlessA: []map[int32]bool{{0: true}}, LeaderlessB: []map[int32]bool{{}},
				RetryMax: 3, FlushMsgs: 4, AcksAll: true, Start: map[string]int64{"t0/0": 5, "t0/1": 4294967296 + 100, "t0/2": 70},
				Script: []fault{{Kind: fRetriableAppended, Err: 7, Only: -1}}}
			if idem {
				s.Cfg.Idem, s.Cfg.Pid, s.Cfg.Epoch = true, 4711, 0
			} else if gen >= 1 {
				s.LAT = time.Unix(1700000000, 123000000) // LogAppendTime topic: non-zero bases + a log-append time in the blocks
			}
			for j := 0; j < 4; j++ {
				s.Msgs = append(s.Msgs, &genMsg{ID: int64(j + 1), Topic: 0, Key: []byte(fmt.Sprintf("k%d", j)), Val: []byte(fmt.Sprintf("%d:v", j+1)),
					TS: ts.Add(time.Duration(3-j) * time.Second), KeyClass: "corpus", ValClass: "id"})
				s.Choice = append(s.Choice, int32(j%2))
				s.Consistent = append(s.Consistent, false)
			}
			out = append(out, s)
		}
	}
	return out
}

// ---------------------------------------------------------------- running

type e2eOutcome struct {
	ID        int64
	Success   bool
	Partition int32
	Offset    int64
	RetPart   int32 // sync: returned values
	RetOff    int64
	TS        time.Time // msg.Timestamp as reported
	Err       string
}

func runE2E(s *e2eScenario) (string, cf.Sidecar) {
	c := newCluster(s)
	defer c.close()
	conf := s.Cfg.config(nil)
	conf.Producer.Return.Successes = true
	conf.Producer.Return.Errors = true
	conf.Producer.Retry.Max = s.RetryMax
	conf.Producer.Retry.Backoff = time.Millisecond
	conf.Producer.Flush.Messages = s.FlushMsgs
	if s.FlushMsgs > 0 {
		conf.Producer.Flush.Frequency = 25 * time.Millisecond
	}
	conf.Metadata.Retry.Max = 0
	conf.Metadata.RefreshFrequency = 0
	conf.Net.DialTimeout, conf.Net.ReadTimeout, conf.Net.WriteTimeout = 2*time.Second, 2*time.Second, 2*time.Second
	conf.Producer.RequiredAcks = sarama.WaitForLocal
	if s.AcksAll {
		conf.Producer.RequiredAcks = sarama.WaitForAll
	}
	if s.Cfg.Idem {
		conf.Net.MaxOpenRequests = 1
	}
	var pmu sync.Mutex
	var calls []partCall
	conf.Producer.Partitioner = func(topic string) sarama.Partitioner { return &scriptPartitioner{&pmu, s, &calls} }

	// hooks: markers accepted by buffer.add, partition of a message on later passes
	var hmu sync.Mutex
	firstPart := map[int64]int32{}
	var hookFail *cf.Monitor
	markerAccepted := false
	// history of sequenced messages (idempotent producer), for the history class: see epochBumpInFlight
	type seqEv struct {
		kind   string
		id     int64
		hasSeq bool
		fresh  bool
		goid   int64
	}
	var seqEvs []seqEv
	current := map[interface{}]*recvObs{} // per broker worker: the message it is handling
	classify := func(h sarama.VerifC04Hook, obs int) {
		for _, r := range current {
			if r.msg == h.Msg && r.Obs == 0 && (h.BP == nil || current[h.BP] == r) {
				r.Obs = obs
			}
		}
	}
	observe := func(h sarama.VerifC04Hook) {
		hmu.Lock()
		defer hmu.Unlock()
		if h.Kind == "pp.send" || h.Kind == "return.success" || h.Kind == "return.error" {
			if id, ok := h.Msg.Metadata.(int64); ok {
				seqEvs = append(seqEvs, seqEv{h.Kind, id, h.HasSeq, h.Retries == 0 && h.Flags == 0, h.Goid})
			}
		}
		switch h.Kind {
		case "bp.recv":
			r := &recvObs{Flags: h.Flags, Closing: h.Closing, Retrying: h.Retrying, msg: h.Msg}
			current[h.BP] = r
			recvLog = append(recvLog, r)
		case "bp.waitForSpace":
			classify(h, 2)
		case "retry.enqueue":
			classify(h, 1)
		case "return.error":
			if h.AddErr {
				classify(h, 3)
			} else {
				classify(h, 1)
			}
		}
		switch h.Kind {
		case "bp.add":
			classify(h, 2)
			if h.Flags != 0 && hookFail == nil {
				mode := "plain"
				if s.Cfg.Idem {
					mode = "idempotent"
				}
				markerAccepted = true
				hookFail = &cf.Monitor{Signature: "wire:marker-accepted:" + mode, What: fmt.Sprintf("buffer.add accepted an internal marker (flags %d) of partition %d: it is sent to the broker as a record with nil key and value that the application never submitted", h.Flags, h.Partition)}
			}
		case "tp.forward":
			id, ok := h.Msg.Metadata.(int64)
			if !ok {
				return
			}
			if h.Retries == 0 {
				firstPart[id] = h.Partition
			} else if fp, seen := firstPart[id]; seen && fp != h.Partition && hookFail == nil {
				hookFail = &cf.Monitor{Signature: "route:changed-on-retry", What: fmt.Sprintf("message %d: partition %d on the first pass, %d on pass %d", id, fp, h.Partition, h.Retries)}
			}
		}
	}
	atGateA, ppAtHWM, requeued := make(chan struct{}), make(chan struct{}), make(chan struct{})
	if s.Steer == "chaser" {
		var onceA, onceB, onceC, onceD, onceE sync.Once
		m2Done := make(chan struct{})
		wait := func(ch chan struct{}) {
			select {
			case <-ch:
			case <-time.After(3 * time.Second):
			}
		}
		sarama.VerifC04Steer(func(h sarama.VerifC04Hook) {
			switch h.Kind {
			case "bridge.send": // the batch retryBatch re-sends (its messages have retries >= 1): hold it until the partition worker sees the bounced m2
				retry := false
				for _, p := range h.Set {
					for _, r := range p.Retries {
						retry = retry || r >= 1
					}
				}
				if retry {
					onceA.Do(func() { close(atGateA); wait(ppAtHWM) })
				}
			case "pp.newHWM": // the partition worker enters level 1: hold it until the connection has dropped and m1 is re-queued with retries 2
				if h.HWM == 1 {
					onceB.Do(func() { close(ppAtHWM); wait(requeued) })
				}
				if h.HWM == 2 { // ... and before the chaser of level 2 is sent, until m2's batch has left the new worker's buffer
					onceD.Do(func() { wait(m2Done) })
				}
			case "return.success", "return.error": // m2 has its outcome (a faithful broker refuses sequence 1 before 0)
				if h.Msg != nil {
					if id, ok := h.Msg.Metadata.(int64); ok && id == 2 {
						onceE.Do(func() { close(m2Done) })
					}
				}
			case "rh.recv":
				if h.Msg != nil && h.Retries == 2 && h.Flags == 0 {
					onceC.Do(func() { close(requeued) })
				}
			}
			observe(h)
		})
	} else {
		sarama.VerifC04Observe(observe)
	}
	defer sarama.VerifC04Observe(nil)
	// a run-time panic in one of the producer's goroutines: recorded (and reported with this scenario as the failing
	// input) instead of killing the harness
	sarama.PanicHandler = func(v interface{}) {
		hmu.Lock()
		if hookFail == nil {
			hookFail = &cf.Monitor{Signature: "e2e:library-panic", What: fmt.Sprintf("a producer goroutine panicked: %v", v)}
		}
		markerAccepted = true // evaluate nothing else in this scenario
		hmu.Unlock()
	}
	// (left installed: a goroutine of a scenario that was given up may still panic later; the next scenario replaces it)
	if traceE2E {
		sarama.VerifC04Trace(func(line string) { fmt.Fprintln(os.Stderr, "TRACE", line) })
	}

	var addrs []string
	for _, b := range c.brokers {
		addrs = append(addrs, b.Addr())
	}
	pms := make([]*sarama.ProducerMessage, len(s.Msgs))
	for i, m := range s.Msgs {
		pms[i] = m.producerMessage()
		pms[i].Partition = -5
	}
	lo := time.Now()
	outcomes := map[int64]*e2eOutcome{}
	hang := ""
	var markerEvents []string
	if s.Sync {
		sp, err := sarama.NewSyncProducer(addrs, conf)
		if err != nil {
			hang = "NewSyncProducer: " + err.Error()
		} else {
			done := make(chan struct{})
			go func() {
				defer close(done)
				if s.SyncBatch {
					err := sp.SendMessages(pms)
					failed := map[*sarama.ProducerMessage]error{}
					if pe, ok := err.(sarama.ProducerErrors); ok {
						for _, e := range pe {
							failed[e.Msg] = e.Err
						}
					}
					for i, pm := range pms {
						o := &e2eOutcome{ID: s.Msgs[i].ID, Partition: pm.Partition, Offset: pm.Offset, RetPart: pm.Partition, RetOff: pm.Offset, TS: pm.Timestamp}
						if e, bad := failed[pm]; bad {
							o.Err = e.Error()
						} else {
							o.Success = true
						}
						outcomes[o.ID] = o
					}
				} else {
					for i, pm := range pms {
						part, off, err := sp.SendMessage(pm)
						o := &e2eOutcome{ID: s.Msgs[i].ID, Partition: pm.Partition, Offset: pm.Offset, RetPart: part, RetOff: off, TS: pm.Timestamp}
						if err != nil {
							o.Err = err.Error()
						} else {
							o.Success = true
						}
						outcomes[o.ID] = o
					}
				}
			}()
			select {
			case <-done:
			case <-time.After(8 * time.Second):
				hang = "sync producer did not return"
			}
			if hang == "" {
				closeWithTimeout(func() { _ = sp.Close() })
			}
		}
	} else {
		p, err := sarama.NewAsyncProducer(addrs, conf)
		if err != nil {
			hang = "NewAsyncProducer: " + err.Error()
		} else {
			go func() {
				for i, pm := range pms {
					if s.Steer == "chaser" && i == 1 {
						select { // m2 is submitted once the re-sent batch of m1 stands at the bridge
						case <-atGateA:
						case <-time.After(3 * time.Second):
						}
					}
					p.Input() <- pm
				}
			}()
			timeout := time.After(8 * time.Second)
			for len(outcomes) < len(pms) && hang == "" {
				select {
				case m := <-p.Successes():
					id, ok := m.Metadata.(int64)
					if !ok {
						markerEvents = append(markerEvents, fmt.Sprintf("success event for a message the application never submitted (topic %q partition %d offset %d)", m.Topic, m.Partition, m.Offset))
						continue
					}
					outcomes[id] = &e2eOutcome{ID: id, Success: true, Partition: m.Partition, Offset: m.Offset, RetPart: m.Partition, RetOff: m.Offset, TS: m.Timestamp}
				case e := <-p.Errors():
					id, ok := e.Msg.Metadata.(int64)
					if !ok {
						markerEvents = append(markerEvents, fmt.Sprintf("error event for a message the application never submitted (topic %q partition %d): %v", e.Msg.Topic, e.Msg.Partition, e.Err))
						continue
					}
					outcomes[id] = &e2eOutcome{ID: id, Partition: e.Msg.Partition, Err: e.Err.Error()}
				case <-timeout:
					hang = "missing outcomes"
				}
			}
			if hang == "" {
				closeWithTimeout(func() { _ = p.Close() })
			}
		}
	}
	hi := time.Now()
	c.mu.Lock()
	defer c.mu.Unlock()
	pmu.Lock()
	defer pmu.Unlock()
	hmu.Lock()
	defer hmu.Unlock()

	desc := map[string]interface{}{"cfg": s.Cfg.String(), "sync": s.Sync, "syncbatch": s.SyncBatch, "brokers": s.Brokers, "parts": s.Parts,
		"flush": s.FlushMsgs, "retrymax": s.RetryMax, "requests": c.nreq, "logappend": !s.LAT.IsZero()}
	var sd []string
	for _, f := range s.Script {
		sd = append(sd, fmt.Sprintf("%s/%d/only=%d", faultNames[f.Kind], f.Err, f.Only))
	}
	desc["script"] = sd
	var la []string
	for t := range s.Parts {
		la = append(la, fmt.Sprintf("t%d:A=%v,B=%v", t, writable(s.Parts[t], s.LeaderlessA[t]), writable(s.Parts[t], s.LeaderlessB[t])))
	}
	desc["writable"] = la
	var md []interface{}
	for i, m := range s.Msgs {
		d := describe(m)
		d["choice"], d["consistent"] = s.Choice[i], s.Consistent[i]
		if o := outcomes[m.ID]; o != nil {
			d["success"], d["partition"], d["offset"], d["err"] = o.Success, o.Partition, o.Offset, o.Err
		}
		md = append(md, d)
	}
	desc["msgs"] = md
	if hang != "" || markerAccepted {
		// liveness is C01's subject: a scenario that does not finish is not evaluated here (a marker accepted as a
		// message usually ends that way: the monitor failure is the verdict of such a scenario)
		desc["skipped"] = hang
		desc["marker_events"] = markerEvents
		return cf.App("mkECase", s.Cfg.coq(), "[]", "[]", "[]", "[]", zeroTime, "[]"), cf.Sidecar{Case: desc, Kind: "e2e-skipped", Nontrivial: false, Monitor: hookFail}
	}

	// History class (the predicate of C05's c05:epoch-bump:other-messages-in-flight, go/harness/internal/idembroker Classify):
	// the error event of a sequenced message (returnError bumps the epoch, all sequence counters restart at 0) happened while
	// another sequenced message was unresolved; messages failed by the same handler right after it do not count as others.
	// In that class the pinned tree is known to report successes at offsets holding another message (recorded, unrepaired
	// C05 defect): the failures get their own signature and the scenario is not compared with the model.
	bumpInFlight := false
	if s.Cfg.Idem {
		live := map[int64]bool{}
		for i, e := range seqEvs {
			switch e.kind {
			case "pp.send":
				if e.fresh && e.hasSeq {
					live[e.id] = true
				}
			case "return.success":
				delete(live, e.id)
			case "return.error":
				delete(live, e.id)
				if !e.hasSeq {
					continue
				}
				same := map[int64]bool{}
				for j := i + 1; j < len(seqEvs); j++ {
					if seqEvs[j].goid != e.goid {
						continue
					}
					if seqEvs[j].kind == "return.error" {
						same[seqEvs[j].id] = true
						continue
					}
					break
				}
				for id := range live {
					if !same[id] {
						bumpInFlight = true
					}
				}
			}
		}
	}
	desc["epoch_bump_in_flight"] = bumpInFlight
	mon := hookFail
	fail := func(sig, what string) {
		if bumpInFlight && (strings.HasPrefix(sig, "e2e:") && sig != "e2e:library-panic" || sig == "wire:resend-differs") {
			sig = "e2e:" + sig[strings.Index(sig, ":")+1:] + ":idempotent-epoch-bump-in-flight"
		}
		if mon == nil {
			mon = &cf.Monitor{Signature: sig, What: what}
		}
	}
	desc["marker_events"] = markerEvents
	c.rep.mu.Lock()
	if len(c.rep.errs) > 0 {
		fail("wire:undecodable-request", "a broker could not handle what the producer sent: "+c.rep.errs[0])
	}
	c.rep.mu.Unlock()
	offered := map[int64]int32{}
	for _, pc := range calls {
		if pc.ID < 0 {
			fail("route:marker-partitioned", "the partitioner was asked about an internal marker")
			continue
		}
		if _, twice := offered[pc.ID]; twice {
			fail("route:partitioned-twice", fmt.Sprintf("the partitioner was asked twice about message %d", pc.ID))
		}
		offered[pc.ID] = pc.N
	}
	byOff := map[string]map[int64]logEntry{}
	for k, lg := range c.logs {
		byOff[k] = map[int64]logEntry{}
		for _, e := range lg {
			if _, dup := byOff[k][e.Offset]; dup {
				fail("wire:offset-reused", fmt.Sprintf("%s: two records placed at offset %d", k, e.Offset))
			}
			byOff[k][e.Offset] = e
		}
	}
	nowOf := map[int64]int64{}
	nsucc := 0
	var succTerms []string
	ids := make([]int64, 0, len(outcomes))
	for id := range outcomes {
		ids = append(ids, id)
	}
	sort.Slice(ids, func(i, j int) bool { return ids[i] < ids[j] })
	for _, id := range ids {
		o := outcomes[id]
		if !o.Success {
			continue
		}
		nsucc++
		m := s.Msgs[id-1]
		if s.Sync && !s.SyncBatch && (o.RetPart != o.Partition || o.RetOff != o.Offset) {
			fail("sync:return-differs", fmt.Sprintf("message %d: SendMessage returned (%d, %d), the message says (%d, %d)", id, o.RetPart, o.RetOff, o.Partition, o.Offset))
		}
		// the partition the configured partitioner chose on the first pass
		n, asked := offered[id]
		if !asked {
			fail("route:not-asked", fmt.Sprintf("message %d succeeded without the partitioner being asked", id))
			continue
		}
		var list []int32
		if s.Consistent[id-1] {
			for p := 0; p < s.Parts[m.Topic]; p++ {
				list = append(list, int32(p))
			}
		} else if wa := writable(s.Parts[m.Topic], s.LeaderlessA[m.Topic]); len(wa) == int(n) {
			list = wa
		} else {
			list = writable(s.Parts[m.Topic], s.LeaderlessB[m.Topic])
		}
		if len(list) != int(n) {
			fail("route:offered-count", fmt.Sprintf("message %d: the partitioner was offered %d partitions, the metadata has no such list", id, n))
			continue
		}
		ch := s.Choice[id-1]
		if ch < 0 || int(ch) >= len(list) || list[ch] != o.Partition {
			fail("route:partition", fmt.Sprintf("message %d: reported partition %d, the partitioner chose index %d of %v", id, o.Partition, ch, list))
			continue
		}
		key := tpKey(topicName(m.Topic), o.Partition)
		e, ok := byOff[key][o.Offset]
		if !ok {
			fail("e2e:offset", fmt.Sprintf("message %d reported at %s offset %d: the log has nothing there", id, key, o.Offset))
			continue
		}
		wantTS := m.TS
		if !s.LAT.IsZero() && s.Cfg.Gen >= 1 {
			wantTS = s.LAT
		}
		if !o.TS.Equal(wantTS) || o.TS.IsZero() != wantTS.IsZero() {
			fail("e2e:reported-timestamp", fmt.Sprintf("message %d reported with timestamp %v, expected %v", id, o.TS, wantTS))
		}
		if d := compareEntry(s.Cfg, m, e, lo, hi, s.LAT); d != "" {
			fail("e2e:"+d, fmt.Sprintf("message %d reported at %s offset %d: the record there differs in its %s", id, key, o.Offset, d))
		}
		if m.TS.IsZero() && e.HasTS {
			nowOf[id] = e.TS.UnixNano()
		}
		succTerms = append(succTerms, fmt.Sprintf("(%d, %s, %s, %s)", id, cf.Z(int64(o.Partition)), cf.Z(o.Offset), coqTime(o.TS)))
	}
	// nothing in a log that was not submitted for that partition
	for k, lg := range c.logs {
		for _, e := range lg {
			found := false
			for i, m := range s.Msgs {
				o := outcomes[m.ID]
				fp, routed := firstPart[m.ID]
				if !routed || tpKey(topicName(m.Topic), fp) != k {
					continue
				}
				_ = o
				_ = i
				if compareEntry(s.Cfg, m, e, lo, hi, s.LAT) == "" {
					found = true
					break
				}
			}
			if !found {
				fail("wire:unsubmitted-record", fmt.Sprintf("%s offset %d holds a record that is no submitted message of that partition (key %d bytes, value %d bytes)", k, e.Offset, len(e.Key), len(e.Value)))
			}
		}
	}

	drops := false
	for _, f := range s.Script {
		drops = drops || f.Kind == fDropBefore || f.Kind == fDropAfter
	}
	// (after a dropped connection the messages are re-queued one by one and batches are re-formed: not a re-sent batch)
	if len(c.differs) > 0 && !drops {
		fail("wire:resend-differs", "a batch sent again (same producer id, epoch, first sequence, count) decodes to other records than the first time: "+c.differs[0])
	}
	// the Coq case
	var msgTerms []string
	for i, m := range s.Msgs {
		off := int64(-1)
		if n, ok := offered[m.ID]; ok {
			off = int64(n)
		}
		msgTerms = append(msgTerms, cf.App("mkEMsg", cf.Z(int64(m.Topic)), coqPM(m, nowOf[m.ID]), cf.Bool(s.Consistent[i]), cf.Z(int64(s.Choice[i])), cf.Z(off)))
	}
	var allTerms, wrTerms []string
	for t, n := range s.Parts {
		var all []int64
		for p := 0; p < n; p++ {
			all = append(all, int64(p))
		}
		toZ := func(l []int32) []int64 {
			o := make([]int64, len(l))
			for i, x := range l {
				o[i] = int64(x)
			}
			return o
		}
		allTerms = append(allTerms, fmt.Sprintf("(%d, %s)", t, cf.ZList(all)))
		wrTerms = append(wrTerms, fmt.Sprintf("(%d, [%s; %s])", t, cf.ZList(toZ(writable(n, s.LeaderlessA[t]))), cf.ZList(toZ(writable(n, s.LeaderlessB[t])))))
	}
	var reqTerms []string
	for _, rp := range c.reqs {
		reqTerms = append(reqTerms, cf.App("mkEReq", coqTpk(topicIndex(rp.Topic), rp.Partition), cf.Z(rp.Base), cf.Bool(rp.Appended), coqRecords(rp.Recs)))
	}
	if bumpInFlight {
		succTerms = nil // outside the hypothesis (the model's broker and log are those of clean idempotent histories): not compared
	}
	term := cf.App("mkECase", s.Cfg.coq(), cf.List(msgTerms), cf.List(allTerms), cf.List(wrTerms), cf.List(reqTerms), coqTime(s.LAT), cf.List(succTerms))
	kind := "e2e-async"
	if s.Sync {
		kind = "e2e-sync"
	}
	return term, cf.Sidecar{Case: desc, Kind: kind, Nontrivial: nsucc > 0 && !bumpInFlight, Monitor: mon}
}

func closeWithTimeout(f func()) {
	done := make(chan struct{})
	go func() { f(); close(done) }()
	select {
	case <-done:
	case <-time.After(3 * time.Second):
	}
}
