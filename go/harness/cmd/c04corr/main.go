// c04corr — correspondence + monitor harness for property C04 ("a reported success identifies exactly where and
// what was written").  Two families of cases, every random choice derived from -seed:
//
//	build : a real produceSet (add, buildRequest) + real encoder + real decoder + handleSuccess, in-package;
//	e2e   : a real AsyncProducer / SyncProducer against scripted mock brokers that keep per-partition logs.
//
// Writes cases_build_NNN.v / cases_e2e_NNN.v (+ .jsonl sidecars) for coq/C04/Corr.v.
package main

import (
	"flag"
	"fmt"
	"io/ioutil"
	"log"
	"math/rand"
	"os"

	"github.com/Shopify/sarama"

	cf "verifharness/internal/coqfmt"
)

func main() {
	out := flag.String("out", ".", "output directory")
	seed := flag.Int64("seed", 1, "seed")
	n := flag.Int("n", 400, "number of generated build cases (e2e scenarios: a third of it)")
	only := flag.String("only", "", "build | e2e (default both)")
	trace := flag.Int("trace", -1, "debug: print the hook trace of the e2e scenario with this index (generated ones, from 0)")
	flag.Parse()
	sarama.Logger = log.New(ioutil.Discard, "", 0)
	imp := "From SV Require Import Wire.Prim Wire.Records C04.Model C04.Corr." + bigDefs()
	r := rand.New(rand.NewSource(*seed))
	fails := 0
	if *only == "" || *only == "build" {
		w := &cf.Writer{Dir: *out, Prefix: "cases_build", Imports: imp, CaseType: "bcase", MismatchFn: "mismatches_build", ShardSize: 100}
		for _, s := range buildCorpus() {
			t, sc := runBuild(s, r)
			if sc.Monitor != nil {
				fails++
			}
			w.Add(t, sc)
		}
		for i := 0; i < *n; i++ {
			t, sc := runBuild(genBuild(r, i), r)
			if sc.Monitor != nil {
				fails++
			}
			w.Add(t, sc)
		}
		w.Close()
	}
	if *only == "" || *only == "e2e" {
		w := &cf.Writer{Dir: *out, Prefix: "cases_e2e", Imports: imp, CaseType: "ecase", MismatchFn: "mismatches_e2e", ShardSize: 60}
		r2 := rand.New(rand.NewSource(*seed*7919 + 13))
		for _, s := range e2eCorpus() {
			t, sc := runE2E(s)
			if sc.Monitor != nil {
				fails++
			}
			w.Add(t, sc)
		}
		for i := 0; i < *n/3; i++ {
			traceE2E = i == *trace
			t, sc := runE2E(genE2E(r2, i))
			traceE2E = false
			if sc.Monitor != nil {
				fails++
			}
			w.Add(t, sc)
		}
		w.Close()
		// what the broker workers did with every message they received during those scenarios
		wr := &cf.Writer{Dir: *out, Prefix: "cases_recv", Imports: "From SV Require Import C04.Model C04.Corr.", CaseType: "rcase", MismatchFn: "mismatches_recv", ShardSize: 5000}
		seen := map[recvObs]bool{}
		for _, r := range recvLog {
			k := recvObs{Flags: r.Flags, Closing: r.Closing, Retrying: r.Retrying, Obs: r.Obs}
			wr.Add(cf.App("mkRCase", cf.Z(int64(r.Flags)), cf.Bool(r.Closing), cf.Bool(r.Retrying), cf.Z(int64(r.Obs))),
				cf.Sidecar{Case: map[string]interface{}{"flags": r.Flags, "closing": r.Closing, "retrying": r.Retrying, "did": r.Obs, "n": len(seen)}, Kind: "recv", Nontrivial: !seen[k]})
			seen[k] = true
		}
		wr.Close()
	}
	fmt.Fprintf(os.Stderr, "c04corr: monitor failures: %d\n", fails)
}
