// c14corr: drives a real sarama.Broker against a scripted raw TCP server with concurrent callers,
// logs the verifPoint events of broker.go (hooks/c14_broker.patch), evaluates the C14 property
// directly (monitor) and writes every run as a Coq case for SV.C14.Corr (trace replay through the
// model's step function).
package main

import (
	"bytes"
	"encoding/binary"
	"errors"
	"flag"
	"fmt"
	"io"
	"math/rand"
	"net"
	"os"
	"runtime"
	"sort"
	"strconv"
	"strings"
	"sync"
	"sync/atomic"
	"time"

	"github.com/Shopify/sarama"

	cf "verifharness/internal/coqfmt"
)

// ---------------------------------------------------------------- case description

type spec struct {
	Kind string `json:"kind"` // ok delay wrongid swap badlen lie biglen trunc close stall tagnz
	Arg  int64  `json:"arg"`
}

type call struct {
	Kind    string `json:"kind"` // hb api lpr noresp close
	G       int    `json:"g"`    // goroutine issuing it (calls of one goroutine run in sequence)
	DelayUs int    `json:"delay_us"`
}

type caseT struct {
	Name          string `json:"name"`
	Max           int    `json:"max_open_requests"`
	Corr0         int32  `json:"corr0"`
	OldVersion    bool   `json:"old_version"` // conf.Version = 1.0.0: lpr calls fail with ErrUnsupportedVersion before writing
	Calls         []call `json:"calls"`
	Script        []spec `json:"script"`
	Term          string `json:"term"`  // after the script: ok | stall | close
	Steer         string `json:"steer"` // free | jitter | holdrecv | holdsend
	SteerN        int    `json:"steer_n"`
	ReadTimeoutMs int    `json:"read_timeout_ms"`
	Seed          int64  `json:"seed"`
}

var maxResp int32
var panics int32
var failCase, crashCase string

// ---------------------------------------------------------------- events

type event struct {
	Seq  int64
	Kind string // wrote enq deq ans closebegin
	K    int    // caller index (wrote/enq/closebegin)
	ID   int32
	Ok   bool
	Err  int64
	T    int64 // unix nano when logged
}

type result struct {
	Class string `json:"class"` // packet badbody err none hung
	Tag   int64  `json:"tag"`
	Err   int64  `json:"err"`
	Ms    int64  `json:"ms"`
}

type ctxT struct {
	c       caseT
	mu      sync.Mutex
	events  []event
	seq     int64
	cur     sync.Map // goroutine id -> call index
	off     int32    // 1 = stop logging
	nWrote  int32    // wrote events of response-expecting calls
	nDone   int32
	nDeq    int32
	lastWr  int64 // unix nano of last wrote event
	release chan struct{}
	heldOut int32 // outstanding measured while the receiver was held (-1 = not measured)
	syncSeq int64 // last event logged before the held receiver was released (0 = not held)
	rng     *rand.Rand
}

var ctxs sync.Map // *sarama.Broker -> *ctxT

func gid() int64 {
	var buf [64]byte
	n := runtime.Stack(buf[:], false)
	f := strings.Fields(string(buf[:n]))
	if len(f) >= 2 {
		v, _ := strconv.ParseInt(f[1], 10, 64)
		return v
	}
	return -1
}

func errID(err error) int64 {
	if err == nil {
		return 0
	}
	var ne net.Error
	switch {
	case errors.Is(err, io.EOF):
		return 1
	case errors.Is(err, io.ErrUnexpectedEOF):
		return 2
	case errors.As(err, &ne) && ne.Timeout():
		return 3
	case errors.Is(err, sarama.ErrNotConnected):
		return 6
	case errors.Is(err, sarama.ErrUnsupportedVersion):
		return 9
	case errors.Is(err, sarama.ErrInsufficientData):
		return 8
	}
	s := err.Error()
	switch {
	case strings.Contains(s, "too large or too small"):
		return 4
	case strings.Contains(s, "correlation ID didn't match"):
		return 5
	case strings.Contains(s, "tagged fields"):
		return 8
	case strings.Contains(s, "connection reset"), strings.Contains(s, "broken pipe"):
		return 11
	}
	return 99
}

func observer(kind string, args ...interface{}) {
	if len(args) == 0 {
		return
	}
	b, ok := args[0].(*sarama.Broker)
	if !ok {
		return
	}
	v, ok := ctxs.Load(b)
	if !ok {
		return
	}
	x := v.(*ctxT)
	if atomic.LoadInt32(&x.off) != 0 {
		return
	}
	ev := event{K: -1}
	switch kind {
	case "broker.send.wrote":
		ev.Kind, ev.ID = "wrote", args[1].(int32)
	case "broker.send.enqueued":
		ev.Kind, ev.ID = "enq", args[1].(int32)
	case "broker.recv.dequeued":
		ev.Kind, ev.ID = "deq", args[1].(int32)
	case "broker.recv.delivered":
		ev.Kind, ev.ID, ev.Ok = "ans", args[1].(int32), true
	case "broker.recv.failed":
		ev.Kind, ev.ID = "ans", args[1].(int32)
		if e, ok := args[2].(error); ok {
			ev.Err = errID(e)
		}
	case "broker.close.begin":
		ev.Kind = "closebegin"
	default:
		return
	}
	if ev.Kind == "wrote" || ev.Kind == "enq" || ev.Kind == "closebegin" {
		if k, ok := x.cur.Load(gid()); ok {
			ev.K = k.(int)
		}
	}
	x.mu.Lock()
	x.seq++
	ev.Seq = x.seq
	ev.T = time.Now().UnixNano()
	x.events = append(x.events, ev)
	var nth int32
	switch ev.Kind {
	case "wrote":
		if ev.K >= 0 && x.c.Calls[ev.K].Kind != "noresp" {
			x.nWrote++
		}
		x.lastWr = time.Now().UnixNano()
		nth = x.nWrote
	case "ans":
		x.nDone++
	case "deq":
		x.nDeq++
		nth = x.nDeq
	}
	jit := time.Duration(0)
	if x.c.Steer == "jitter" {
		jit = time.Duration(x.rng.Intn(400)) * time.Microsecond
	}
	x.mu.Unlock()
	// steering
	switch {
	case x.c.Steer == "holdrecv" && ev.Kind == "deq" && int(nth) == x.c.SteerN:
		<-x.release
	case x.c.Steer == "holdsend" && ev.Kind == "wrote" && int(nth) == x.c.SteerN:
		time.Sleep(12 * time.Millisecond)
	case jit > 0:
		time.Sleep(jit)
	}
}

// ---------------------------------------------------------------- scripted server

type reqRec struct {
	ID      int32
	Key     int16
	Expects bool
}

type chunk struct {
	T     int64 // unix nano just before the bytes were written
	Trig  int32
	Bytes []byte
	Half  bool
}

type frameRec struct {
	Tag  int64 // serial tag carried by the body
	Cid  int32 // correlation id in the header as sent
	Spec string
	J    int // index of the response-expecting request it answers
}

type server struct {
	ln     net.Listener
	conn   *net.TCPConn
	c      caseT
	mu     sync.Mutex
	reqs   []reqRec
	sent   []byte
	chunks []chunk // what the server did, in order, each with the request that triggered it
	frs    []frameRec
	half   bool // write side closed
	mute   bool // silent from now on
	nexp   int
	nrep   int // replies sent (ok frames) while measuring
	// server-side outstanding, measured up to the first non-ok spec
	measuring bool
	maxOut    int
	stalled   bool // entered a silent state (a read timeout at the client is expected)
	rdDone    bool
	muteUntil time.Time // zero: silent for good; else the server answers again after this moment
	ch        chan reqRec
	wg        sync.WaitGroup
}

func hvOf(key int16) int {
	if key == 46 {
		return 1
	}
	return 0
}

func body(key int16, tag int64) []byte {
	switch key {
	case 12: // heartbeat v0: error code
		return []byte{byte(tag >> 8), byte(tag)}
	case 18: // api versions v0: error code, empty array
		return []byte{byte(tag >> 8), byte(tag), 0, 0, 0, 0}
	case 46: // list partition reassignments v0: throttle, error code, null message, empty array, no tags
		return []byte{byte(tag >> 24), byte(tag >> 16), byte(tag >> 8), byte(tag), 0, 0, 0, 1, 0}
	}
	return []byte{byte(tag >> 8), byte(tag)}
}

func frame(length int32, cid int32, hv int, tagByte byte, bd []byte) []byte {
	var b bytes.Buffer
	_ = binary.Write(&b, binary.BigEndian, length)
	_ = binary.Write(&b, binary.BigEndian, cid)
	if hv == 1 {
		b.WriteByte(tagByte)
	}
	b.Write(bd)
	return b.Bytes()
}

func (s *server) specFor(j int) spec {
	if j < len(s.c.Script) {
		return s.c.Script[j]
	}
	return spec{Kind: s.c.Term}
}

// effective class of a spec for a request with header version hv: ok | fault | desync
func specClass(sp spec, hv int) string {
	switch sp.Kind {
	case "ok", "delay":
		return "ok"
	case "tagnz":
		if hv == 1 {
			return "fault"
		}
		return "ok"
	case "lie":
		return "desync"
	}
	return "fault"
}

func (s *server) send(trig int32, b []byte) {
	if len(b) == 0 {
		return
	}
	s.mu.Lock()
	s.sent = append(s.sent, b...)
	s.chunks = append(s.chunks, chunk{T: time.Now().UnixNano(), Trig: trig, Bytes: b})
	s.mu.Unlock()
	_, _ = s.conn.Write(b)
}

func (s *server) halfClose(trig int32) {
	s.mu.Lock()
	s.half = true
	s.chunks = append(s.chunks, chunk{T: time.Now().UnixNano(), Trig: trig, Half: true})
	s.mu.Unlock()
	_ = s.conn.CloseWrite()
}

func (s *server) writer() {
	defer s.wg.Done()
	serial := int64(1000)
	j := 0
	for r := range s.ch {
		s.mu.Lock()
		wait := time.Duration(0)
		if s.mute && !s.muteUntil.IsZero() {
			wait = time.Until(s.muteUntil)
		}
		s.mu.Unlock()
		if wait > 0 {
			time.Sleep(wait) // requests that arrive during a temporary silence are answered when it ends
		}
		s.mu.Lock()
		if s.mute && !s.muteUntil.IsZero() {
			s.mute = false
		}
		dead := s.half || s.mute
		s.mu.Unlock()
		sp := s.specFor(j)
		hv := hvOf(r.Key)
		jj := j
		j++
		if dead {
			continue
		}
		newFrame := func(cid int32, kind string) (int64, []byte) {
			serial++
			s.mu.Lock()
			s.frs = append(s.frs, frameRec{Tag: serial, Cid: cid, Spec: kind, J: jj})
			s.mu.Unlock()
			return serial, body(r.Key, serial)
		}
		normalLen := func(bd []byte) int32 { return int32(4 + hv + len(bd)) }
		switch sp.Kind {
		case "ok", "delay":
			if sp.Kind == "delay" {
				time.Sleep(time.Duration(sp.Arg) * time.Millisecond)
			}
			_, bd := newFrame(r.ID, sp.Kind)
			// counted as answered before the bytes leave: the server-side count never exceeds the client's
			s.mu.Lock()
			s.nrep++
			s.mu.Unlock()
			s.send(r.ID, frame(normalLen(bd), r.ID, hv, 0, bd))
		case "wrongid":
			cid := int32(int64(r.ID) + sp.Arg)
			_, bd := newFrame(cid, sp.Kind)
			s.send(r.ID, frame(normalLen(bd), cid, hv, 0, bd))
		case "wronghdr": // header only (declared length as for a normal reply): a receiver that kept going would find the next frame aligned
			cid := int32(int64(r.ID) + sp.Arg)
			_, bd := newFrame(cid, sp.Kind)
			s.send(r.ID, frame(normalLen(bd), cid, hv, 0, nil))
		case "badlenhdr":
			_, _ = newFrame(r.ID, sp.Kind)
			s.send(r.ID, frame(int32(sp.Arg), r.ID, hv, 0, nil))
		case "swap":
			cid := r.ID + 1
			_, bd := newFrame(cid, sp.Kind)
			_, bd2 := newFrame(r.ID, sp.Kind)
			s.send(r.ID, append(frame(normalLen(bd), cid, hv, 0, bd), frame(normalLen(bd2), r.ID, hv, 0, bd2)...))
		case "badlen":
			_, bd := newFrame(r.ID, sp.Kind)
			s.send(r.ID, frame(int32(sp.Arg), r.ID, hv, 0, bd))
		case "lie":
			_, bd := newFrame(r.ID, sp.Kind)
			s.send(r.ID, frame(normalLen(bd)+int32(sp.Arg), r.ID, hv, 0, bd))
		case "biglen":
			_, bd := newFrame(r.ID, sp.Kind)
			s.send(r.ID, frame(maxResp, r.ID, hv, 0, bd))
			s.mu.Lock()
			s.mute, s.stalled = true, true
			if sp.Arg == 2 { // silent only until the client's read deadline has certainly passed
				s.muteUntil = time.Now().Add(time.Duration(s.c.ReadTimeoutMs) * time.Millisecond * 3 / 2)
			}
			s.mu.Unlock()
			if sp.Arg == 1 {
				s.halfClose(r.ID)
			}
		case "tagnz":
			_, bd := newFrame(r.ID, sp.Kind)
			if hv == 0 {
				s.mu.Lock()
				s.nrep++
				s.mu.Unlock()
			}
			s.send(r.ID, frame(normalLen(bd), r.ID, hv, byte(sp.Arg), bd))
		case "trunc":
			_, bd := newFrame(r.ID, sp.Kind)
			f := frame(normalLen(bd), r.ID, hv, 0, bd)
			n := int(sp.Arg)
			if n >= len(f) {
				n = len(f) - 1
			}
			s.send(r.ID, f[:n])
			s.halfClose(r.ID)
		case "close":
			s.halfClose(r.ID)
		case "stall":
			s.mu.Lock()
			s.mute, s.stalled = true, true
			if sp.Arg == 1 {
				s.muteUntil = time.Now().Add(time.Duration(s.c.ReadTimeoutMs) * time.Millisecond * 3 / 2)
			}
			s.mu.Unlock()
		}
	}
}

func (s *server) reader() {
	defer s.wg.Done()
	defer close(s.ch)
	defer func() { s.mu.Lock(); s.rdDone = true; s.mu.Unlock() }()
	hdr := make([]byte, 4)
	for {
		if _, err := io.ReadFull(s.conn, hdr); err != nil {
			return
		}
		n := binary.BigEndian.Uint32(hdr)
		if n < 8 || n > 1<<20 {
			return
		}
		p := make([]byte, n)
		if _, err := io.ReadFull(s.conn, p); err != nil {
			return
		}
		r := reqRec{Key: int16(binary.BigEndian.Uint16(p[0:2])), ID: int32(binary.BigEndian.Uint32(p[4:8]))}
		r.Expects = r.Key != 0
		s.mu.Lock()
		s.reqs = append(s.reqs, r)
		if r.Expects {
			j := s.nexp
			s.nexp++
			if s.measuring {
				if out := s.nexp - s.nrep; out > s.maxOut {
					s.maxOut = out
				}
				if specClass(s.specFor(j), hvOf(r.Key)) != "ok" {
					s.measuring = false
				}
			}
		}
		s.mu.Unlock()
		if r.Expects {
			s.ch <- r
		}
	}
}

// ---------------------------------------------------------------- running one case

type obsT struct {
	Results []result   `json:"results"`
	Events  []string   `json:"events"`
	Wire    []int32    `json:"wire"`
	Frames  []frameRec `json:"frames"`
	HeldOut int        `json:"held_outstanding"`
	SrvOut  int        `json:"server_outstanding"`
	Stalled bool       `json:"stalled"`
	Half    bool       `json:"half_closed"`
	NoHooks bool       `json:"no_hooks"`
	Cut     bool       `json:"stream_cut_at_timeout"`
	Ambig   bool       `json:"ambiguous_timing"`
	stream  []byte
	evs     []event
	ids     map[int]int32 // call -> correlation id
	syncSeq int64
	syncN   int // steer_n
}

func runCase(c caseT) (obsT, error) {
	var o obsT
	// infrastructure under load (ephemeral ports, TIME_WAIT, slow accept): listener creation is retried with back-off
	var ln net.Listener
	var err error
	for i := 0; i < 50; i++ {
		if ln, err = net.Listen("tcp", "127.0.0.1:0"); err == nil {
			break
		}
		time.Sleep(time.Duration(20*(i+1)) * time.Millisecond)
	}
	if err != nil {
		return o, fmt.Errorf("listen: %v", err)
	}
	defer ln.Close()
	srv := &server{ln: ln, c: c, measuring: true, ch: make(chan reqRec, 64)}
	accepted := make(chan error, 1)
	go func() {
		cn, err := ln.Accept()
		if err == nil {
			srv.conn = cn.(*net.TCPConn)
		}
		accepted <- err
	}()
	b := sarama.NewBroker(ln.Addr().String())
	conf := sarama.NewConfig()
	conf.Net.MaxOpenRequests = c.Max
	conf.Net.ReadTimeout = time.Duration(c.ReadTimeoutMs) * time.Millisecond
	conf.Net.DialTimeout = 10 * time.Second
	conf.Version = sarama.V2_4_0_0
	if c.OldVersion {
		conf.Version = sarama.V1_0_0_0
	}
	x := &ctxT{c: c, release: make(chan struct{}), heldOut: -1, rng: rand.New(rand.NewSource(c.Seed))}
	ctxs.Store(b, x)
	defer ctxs.Delete(b)
	if err := b.Open(conf); err != nil {
		return o, err
	}
	if ok, err := b.Connected(); !ok || err != nil {
		return o, fmt.Errorf("connect: %v", err)
	}
	select {
	case err := <-accepted:
		if err != nil {
			go func() { _ = b.Close() }()
			return o, fmt.Errorf("accept: %v", err)
		}
	case <-time.After(10 * time.Second):
		go func() { _ = b.Close() }()
		return o, fmt.Errorf("accept: no connection arrived within 10 s")
	}
	sarama.VerifC14SetCorrelationID(b, c.Corr0)
	srv.wg.Add(2)
	go srv.reader()
	go srv.writer()

	// callers
	ng := 0
	for _, cl := range c.Calls {
		if cl.G+1 > ng {
			ng = cl.G + 1
		}
	}
	results := make([]result, len(c.Calls))
	for i := range results {
		results[i].Class = "hung"
	}
	var rmu sync.Mutex
	start := make(chan struct{})
	var wg sync.WaitGroup
	for g := 0; g < ng; g++ {
		g := g
		wg.Add(1)
		go func() {
			defer wg.Done()
			me := gid()
			<-start
			for i, cl := range c.Calls {
				if cl.G != g {
					continue
				}
				if cl.DelayUs > 0 {
					time.Sleep(time.Duration(cl.DelayUs) * time.Microsecond)
				}
				x.cur.Store(me, i)
				t0 := time.Now()
				var r result
				func() {
					defer func() {
						if v := recover(); v != nil {
							r = result{Class: "panic", Tag: 0}
							fmt.Fprintf(os.Stderr, "call %d panicked: %v\n", i, v)
						}
					}()
					switch cl.Kind {
					case "hb":
						resp, err := b.Heartbeat(&sarama.HeartbeatRequest{GroupId: "g", MemberId: fmt.Sprintf("k%d", i)})
						if err == nil {
							r = result{Class: "packet", Tag: int64(uint16(resp.Err))}
						} else {
							r = result{Class: "err", Err: errID(err)}
						}
					case "api":
						resp, err := b.ApiVersions(&sarama.ApiVersionsRequest{})
						if err == nil {
							r = result{Class: "packet", Tag: int64(uint16(resp.Err))}
						} else {
							r = result{Class: "err", Err: errID(err)}
						}
					case "lpr":
						resp, err := b.ListPartitionReassignments(&sarama.ListPartitionReassignmentsRequest{TimeoutMs: 1})
						if err == nil {
							r = result{Class: "packet", Tag: int64(uint32(resp.ThrottleTimeMs))}
						} else {
							r = result{Class: "err", Err: errID(err)}
						}
					case "noresp":
						_, err := b.Produce(&sarama.ProduceRequest{RequiredAcks: sarama.NoResponse})
						if err == nil {
							r = result{Class: "none"}
						} else {
							r = result{Class: "err", Err: errID(err)}
						}
					case "close":
						err := b.Close()
						if err == nil {
							r = result{Class: "none"}
						} else {
							r = result{Class: "err", Err: errID(err)}
						}
					}
				}()
				r.Ms = time.Since(t0).Milliseconds()
				rmu.Lock()
				results[i] = r
				rmu.Unlock()
			}
		}()
	}
	close(start)
	// steering: hold the receiver at its n-th dequeue until the senders are quiescent, measure, release
	if c.Steer == "holdrecv" {
		go func() {
			deadline := time.Now().Add(400 * time.Millisecond)
			for time.Now().Before(deadline) {
				time.Sleep(5 * time.Millisecond)
				x.mu.Lock()
				held := int(x.nDeq) >= c.SteerN
				quiet := x.lastWr != 0 && time.Now().UnixNano()-x.lastWr > int64(25*time.Millisecond)
				x.mu.Unlock()
				if held && quiet {
					break
				}
			}
			x.mu.Lock()
			if int(x.nDeq) >= c.SteerN {
				x.heldOut = x.nWrote - x.nDone
				x.syncSeq = x.seq
			}
			x.mu.Unlock()
			close(x.release)
		}()
	}
	done := make(chan struct{})
	go func() { wg.Wait(); close(done) }()
	select {
	case <-done:
	case <-time.After(5 * time.Second):
	}
	// let the server drain what was written
	for i := 0; i < 200; i++ {
		x.mu.Lock()
		nw := 0
		for _, e := range x.events {
			if e.Kind == "wrote" {
				nw++
			}
		}
		x.mu.Unlock()
		srv.mu.Lock()
		nr := len(srv.reqs)
		rd := srv.rdDone
		srv.mu.Unlock()
		if nr >= nw || rd {
			break
		}
		time.Sleep(5 * time.Millisecond)
	}
	// the receiver logs its last point after the last caller has returned: wait for it
	for i := 0; i < 200; i++ {
		x.mu.Lock()
		settled := x.nDone >= x.nDeq
		x.mu.Unlock()
		if settled {
			break
		}
		time.Sleep(time.Millisecond)
	}
	atomic.StoreInt32(&x.off, 1)
	if c.Steer == "holdrecv" {
		select {
		case <-x.release:
		default:
		}
	}
	rmu.Lock()
	o.Results = append([]result(nil), results...)
	rmu.Unlock()
	x.mu.Lock()
	o.evs = append([]event(nil), x.events...)
	o.HeldOut = int(x.heldOut)
	o.syncSeq, o.syncN = x.syncSeq, c.SteerN
	x.mu.Unlock()
	// cleanup (not part of the case): close the broker unless a call already did, then the server
	go func() { _ = b.Close() }()
	time.Sleep(time.Millisecond)
	_ = srv.conn.Close()
	srv.wg.Wait()
	srv.mu.Lock()
	chunks := append([]chunk(nil), srv.chunks...)
	o.Frames = append([]frameRec(nil), srv.frs...)
	for _, r := range srv.reqs {
		o.Wire = append(o.Wire, r.ID)
	}
	o.SrvOut, o.Stalled = srv.maxOut, srv.stalled
	srv.mu.Unlock()
	// the stream the model reads is what was sent before logging stopped; nothing is sent afterwards
	sort.Slice(o.evs, func(i, j int) bool { return o.evs[i].Seq < o.evs[j].Seq })
	o.ids = map[int]int32{}
	for _, e := range o.evs {
		if e.Kind == "wrote" && e.K >= 0 {
			o.ids[e.K] = e.ID
		}
	}
	// The stream as the receiver experienced it: what the server sent after the first read timeout had been
	// handed to its caller came too late to be read (the deadline is an event of the model: silence = end of
	// the stream).  Something sent shortly before that moment makes the case ambiguous (it is run again).
	{
		var failT int64 = -1
		for _, e := range o.evs {
			if e.Kind == "ans" && !e.Ok && e.Err == 3 {
				failT = e.T
				break
			}
		}
		for _, ch := range chunks {
			if failT >= 0 && ch.T > failT {
				o.Cut = true
				break
			}
			if failT >= 0 && failT-ch.T < int64(20*time.Millisecond) {
				o.Ambig = true
			}
			o.stream = append(o.stream, ch.Bytes...)
			if ch.Half {
				o.Half = true
			}
		}
	}
	// a call for which the receiver logged "delivered" but which returned an error failed to decode the body
	delivered := map[int32]bool{}
	for _, e := range o.evs {
		if e.Kind == "ans" && e.Ok {
			delivered[e.ID] = true
		}
	}
	for i := range o.Results {
		if id, ok := o.ids[i]; ok && o.Results[i].Class == "err" && delivered[id] {
			o.Results[i] = result{Class: "badbody", Ms: o.Results[i].Ms}
		}
	}
	// no event although some call got through send: the hook lines are missing from broker.go
	if len(o.evs) == 0 {
		for i, r := range o.Results {
			if c.Calls[i].Kind != "close" && !(r.Class == "err" && (r.Err == 6 || r.Err == 9)) {
				o.NoHooks = true
			}
		}
	}
	return o, nil
}

// ---------------------------------------------------------------- monitor (the property, directly)

func monitor(c caseT, o obsT) *cf.Monitor {
	// every call returns
	for i, r := range o.Results {
		if r.Class == "panic" {
			return &cf.Monitor{Signature: "c14:call-panicked", What: fmt.Sprintf("call %d (%s) panicked inside the broker", i, c.Calls[i].Kind)}
		}
		if r.Class == "hung" {
			return &cf.Monitor{Signature: "c14:call-hung", What: fmt.Sprintf("call %d (%s) had not returned after 5 s", i, c.Calls[i].Kind)}
		}
	}
	if o.NoHooks {
		return nil
	}
	byTag := map[int64]frameRec{}
	for _, f := range o.Frames {
		byTag[f.Tag] = f
	}
	// position of each response-expecting request in the order the requests were written
	pos := map[int32]int{}
	{
		j := 0
		seen := map[int32]bool{}
		for _, e := range o.evs {
			if e.Kind == "wrote" && e.K >= 0 && c.Calls[e.K].Kind != "noresp" && !seen[e.ID] {
				seen[e.ID] = true
				pos[e.ID] = j
				j++
			}
		}
	}
	// own response
	for i, r := range o.Results {
		if r.Class != "packet" {
			continue
		}
		id, ok := o.ids[i]
		f, okf := byTag[r.Tag]
		if !ok || !okf {
			return &cf.Monitor{Signature: "c14:foreign-response", What: fmt.Sprintf("call %d returned a response (tag %d) that the server never sent for it", i, r.Tag)}
		}
		if f.Cid != id {
			return &cf.Monitor{Signature: "c14:foreign-response", What: fmt.Sprintf("call %d with correlation id %d returned the frame the server sent with id %d", i, id, f.Cid)}
		}
		if f.J != pos[id] {
			return &cf.Monitor{Signature: "c14:foreign-response", What: fmt.Sprintf("call %d (request #%d) returned the frame sent for request #%d", i, pos[id], f.J)}
		}
	}
	// nothing is delivered at or after the first fault
	first := -1
	hvs := map[int]int{}
	for i, cl := range c.Calls {
		if id, ok := o.ids[i]; ok && cl.Kind != "noresp" {
			hv := 0
			if cl.Kind == "lpr" {
				hv = 1
			}
			hvs[pos[id]] = hv
		}
	}
	nreq := len(hvs)
	for j := 0; j < nreq; j++ {
		sp := spec{Kind: c.Term}
		if j < len(c.Script) {
			sp = c.Script[j]
		}
		cls := specClass(sp, hvs[j])
		if cls == "desync" {
			break
		}
		if cls == "fault" {
			first = j
			break
		}
	}
	if first >= 0 {
		for i, r := range o.Results {
			if id, ok := o.ids[i]; ok && (r.Class == "packet" || r.Class == "badbody") && pos[id] >= first {
				return &cf.Monitor{Signature: "c14:delivered-after-fault", What: fmt.Sprintf("request #%d was faulted by the server (%s) but call %d (request #%d) was still handed a response", first, c.specName(first), i, pos[id])}
			}
		}
	}
	// wire order: ids are consecutive from corr0 and the server reads them in the order they were written
	{
		var wrote []int32
		for _, e := range o.evs {
			if e.Kind == "wrote" {
				wrote = append(wrote, e.ID)
			}
		}
		for i, id := range wrote {
			if id != c.Corr0+int32(i) {
				return &cf.Monitor{Signature: "c14:wire-order", What: fmt.Sprintf("request %d on the wire has correlation id %d, expected %d", i, id, c.Corr0+int32(i))}
			}
		}
		for i, id := range o.Wire {
			if i < len(wrote) && wrote[i] != id {
				return &cf.Monitor{Signature: "c14:wire-order", What: fmt.Sprintf("server read id %d at position %d, the client wrote %d", id, i, wrote[i])}
			}
		}
		// promises are served in wire order
		var deq, exp []int32
		for _, e := range o.evs {
			if e.Kind == "deq" {
				deq = append(deq, e.ID)
			}
			if e.Kind == "wrote" && e.K >= 0 && c.Calls[e.K].Kind != "noresp" {
				exp = append(exp, e.ID)
			}
		}
		for i, id := range deq {
			if i >= len(exp) || exp[i] != id {
				return &cf.Monitor{Signature: "c14:promise-order", What: fmt.Sprintf("receiver served id %d as promise #%d; wire order has %v", id, i, exp)}
			}
		}
	}
	// wire bound
	out := o.SrvOut
	if o.HeldOut > out {
		out = o.HeldOut
	}
	if out > c.Max {
		how := "server-side count"
		if o.HeldOut >= out {
			how = "receiver held at a dequeue"
		}
		return &cf.Monitor{Signature: fmt.Sprintf("c14:wire-bound:max+%d", out-c.Max),
			What: fmt.Sprintf("MaxOpenRequests=%d but %d requests were on the wire awaiting a response (%s)", c.Max, out, how)}
	}
	return nil
}

func (c caseT) specName(j int) string {
	if j < len(c.Script) {
		return c.Script[j].Kind
	}
	return c.Term
}

// ---------------------------------------------------------------- generation

func genCase(r *rand.Rand, i int) caseT {
	c := caseT{Name: fmt.Sprintf("rand-%d", i), Max: 1 + r.Intn(3), ReadTimeoutMs: 250, Seed: r.Int63()}
	switch r.Intn(6) {
	case 0:
		c.Corr0 = int32(2147483647 - r.Intn(4))
	case 1:
		c.Corr0 = int32(r.Intn(1000)) - 500
	default:
		c.Corr0 = int32(r.Intn(50))
	}
	c.OldVersion = r.Intn(8) == 0
	ng := 1 + r.Intn(8)
	ncalls := 0
	for g := 0; g < ng; g++ {
		n := 1
		if r.Intn(4) == 0 {
			n = 2
		}
		for k := 0; k < n && ncalls < 10; k++ {
			kinds := []string{"hb", "hb", "api", "api", "lpr", "lpr", "noresp"}
			cl := call{Kind: kinds[r.Intn(len(kinds))], G: g}
			if r.Intn(3) == 0 {
				cl.DelayUs = r.Intn(3000)
			}
			c.Calls = append(c.Calls, cl)
			ncalls++
		}
	}
	if r.Intn(4) == 0 {
		c.Calls = append(c.Calls, call{Kind: "close", G: ng, DelayUs: r.Intn(4000)})
		if r.Intn(3) == 0 {
			c.Calls = append(c.Calls, call{Kind: "close", G: ng + 1, DelayUs: r.Intn(4000)})
		}
	}
	ns := r.Intn(7)
	for j := 0; j < ns; j++ {
		var sp spec
		switch r.Intn(18) {
		case 0, 1, 2, 3, 4, 5:
			sp = spec{Kind: "ok"}
		case 6:
			sp = spec{Kind: "delay", Arg: int64(1 + r.Intn(8))}
		case 7, 8:
			d := []int64{1, -1, 2, 7, -3, 256, 65536, 16777216, -2147483648}
			sp = spec{Kind: "wrongid", Arg: d[r.Intn(len(d))]}
		case 9:
			sp = spec{Kind: "swap"}
		case 10:
			v := []int64{4, 3, 0, -1, int64(maxResp) + 1, 2147483647, -2147483648}
			sp = spec{Kind: "badlen", Arg: v[r.Intn(len(v))]}
		case 11:
			d := []int64{-1, 1, 3, -2}
			sp = spec{Kind: "lie", Arg: d[r.Intn(len(d))]}
		case 12:
			sp = spec{Kind: "trunc", Arg: int64(1 + r.Intn(12))}
		case 13:
			sp = spec{Kind: []string{"close", "stall"}[r.Intn(2)], Arg: int64(r.Intn(2))}
		case 14:
			sp = spec{Kind: "tagnz", Arg: []int64{1, 128, 5}[r.Intn(3)]}
		case 15:
			sp = spec{Kind: "biglen", Arg: int64(r.Intn(3))}
		case 16:
			sp = spec{Kind: "wronghdr", Arg: []int64{1, -1, 3}[r.Intn(3)]}
		case 17:
			sp = spec{Kind: "badlenhdr", Arg: []int64{4, 0, int64(maxResp) + 1, -5}[r.Intn(4)]}
		}
		c.Script = append(c.Script, sp)
	}
	c.Term = []string{"ok", "ok", "stall", "close"}[r.Intn(4)]
	switch r.Intn(6) {
	case 0:
		c.Steer, c.SteerN = "holdrecv", 1+r.Intn(2)
	case 1:
		c.Steer, c.SteerN = "holdsend", 1+r.Intn(3)
	case 2, 3:
		c.Steer = "jitter"
	default:
		c.Steer = "free"
	}
	return c
}

func corpus() []caseT {
	hb := func(n int) []call {
		var cs []call
		for i := 0; i < n; i++ {
			cs = append(cs, call{Kind: "hb", G: i})
		}
		return cs
	}
	return []caseT{
		// the announced defect: MaxOpenRequests=1, 4 callers, silent server, receiver held -> 2 requests on the wire
		{Name: "wire-bound-max1-silent", Max: 1, Calls: hb(4), Term: "stall", Steer: "holdrecv", SteerN: 1, ReadTimeoutMs: 250, Seed: 1},
		{Name: "wire-bound-max2-silent", Max: 2, Calls: hb(5), Term: "stall", Steer: "holdrecv", SteerN: 1, ReadTimeoutMs: 250, Seed: 2},
		{Name: "wire-bound-max3-ok", Max: 3, Calls: hb(6), Term: "ok", Steer: "holdrecv", SteerN: 2, ReadTimeoutMs: 250, Seed: 3},
		{Name: "swap", Max: 3, Calls: hb(3), Script: []spec{{Kind: "swap"}}, Term: "ok", Steer: "free", ReadTimeoutMs: 250, Seed: 4},
		{Name: "wrongid-then-ok", Max: 2, Calls: hb(4), Script: []spec{{Kind: "ok"}, {Kind: "wrongid", Arg: 1}}, Term: "ok", Steer: "free", ReadTimeoutMs: 250, Seed: 5},
		{Name: "wrap", Max: 2, Corr0: 2147483646, Calls: hb(4), Term: "ok", Steer: "free", ReadTimeoutMs: 250, Seed: 6},
		{Name: "trunc-close", Max: 3, Calls: hb(4), Script: []spec{{Kind: "ok"}, {Kind: "trunc", Arg: 5}}, Term: "ok", Steer: "jitter", ReadTimeoutMs: 250, Seed: 7},
		{Name: "oversize", Max: 2, Calls: hb(3), Script: []spec{{Kind: "badlen", Arg: int64(maxResp) + 1}}, Term: "ok", Steer: "free", ReadTimeoutMs: 250, Seed: 8},
		{Name: "wrong-header-then-ok", Max: 2, Calls: hb(4), Script: []spec{{Kind: "ok"}, {Kind: "wronghdr", Arg: 1}}, Term: "ok", Steer: "free", ReadTimeoutMs: 250, Seed: 10},
		{Name: "bad-length-header-then-ok", Max: 3, Calls: hb(4), Script: []spec{{Kind: "badlenhdr", Arg: 4}}, Term: "ok", Steer: "jitter", ReadTimeoutMs: 250, Seed: 11},
		{Name: "body-stall-then-resume", Max: 2, Calls: []call{{Kind: "hb", G: 0}, {Kind: "hb", G: 0}, {Kind: "hb", G: 0}, {Kind: "hb", G: 1, DelayUs: 600000}}, Script: []spec{{Kind: "biglen", Arg: 2}}, Term: "ok", Steer: "free", ReadTimeoutMs: 250, Seed: 12},
		{Name: "header-stall-then-resume", Max: 1, Calls: []call{{Kind: "api", G: 0}, {Kind: "api", G: 0}, {Kind: "hb", G: 1, DelayUs: 600000}}, Script: []spec{{Kind: "ok"}, {Kind: "stall", Arg: 1}}, Term: "ok", Steer: "free", ReadTimeoutMs: 250, Seed: 13},
		{Name: "close-racing", Max: 2, Calls: append(hb(4), call{Kind: "close", G: 4, DelayUs: 200}), Term: "ok", Steer: "jitter", ReadTimeoutMs: 250, Seed: 9},
	}
}

// ---------------------------------------------------------------- Coq printing

func coqCase(c caseT, o obsT) string {
	var kinds, apis []string
	for _, cl := range c.Calls {
		switch cl.Kind {
		case "hb":
			kinds, apis = append(kinds, "KReq 0"), append(apis, "0")
		case "api":
			kinds, apis = append(kinds, "KReq 0"), append(apis, "1")
		case "lpr":
			kinds, apis = append(kinds, "KReq 1"), append(apis, "2")
		case "noresp":
			kinds, apis = append(kinds, "KNoResp"), append(apis, "9")
		case "close":
			kinds, apis = append(kinds, "KClose"), append(apis, "9")
		}
	}
	term := "TStall"
	if o.Half {
		term = "TClose"
	}
	// log: hook events in sequence order; calls without events are placed where the lock order puts them
	var log, tail, fails []string
	closeEndOf := -1
	for i, cl := range c.Calls {
		r := o.Results[i]
		_, wrote := o.ids[i]
		switch {
		case r.Class == "err" && r.Err == 6:
			tail = append(tail, fmt.Sprintf("ENotConn %d", i))
		case cl.Kind == "close" && r.Class == "none":
			closeEndOf = i
		case !wrote && r.Class == "err":
			fails = append(fails, fmt.Sprintf("EFail %d %s", i, cf.Z(r.Err)))
		}
	}
	placedFails := false
	ndeq := 0
	for _, e := range o.evs {
		switch e.Kind {
		case "wrote":
			log = append(log, fmt.Sprintf("EWrote %d %s", e.K, cf.Z(int64(e.ID))))
		case "enq":
			log = append(log, fmt.Sprintf("EEnq %d %s", e.K, cf.Z(int64(e.ID))))
		case "deq":
			log = append(log, fmt.Sprintf("EDeq %s", cf.Z(int64(e.ID))))
			ndeq++
			if o.syncSeq > 0 && ndeq == o.syncN {
				// the receiver was held here: every lock-holder event logged before the release precedes what it does next
				m := 0
				for _, f := range o.evs {
					if f.Seq <= o.syncSeq && (f.Kind == "wrote" || f.Kind == "enq" || f.Kind == "closebegin") {
						m++
					}
				}
				log = append(log, fmt.Sprintf("ESync %d", m))
			}
		case "ans":
			log = append(log, fmt.Sprintf("EAns %s %s %s", cf.Z(int64(e.ID)), cf.Bool(e.Ok), cf.Z(e.Err)))
		case "closebegin":
			log = append(log, fails...)
			placedFails = true
			log = append(log, fmt.Sprintf("ECloseBegin %d", e.K))
			if closeEndOf >= 0 {
				log = append(log, fmt.Sprintf("ECloseEnd %d", closeEndOf))
			}
		}
	}
	if !placedFails {
		log = append(log, fails...)
	}
	if closeEndOf >= 0 {
		log = append(log, "EExit")
	}
	log = append(log, tail...)
	var res []string
	for _, r := range o.Results {
		switch r.Class {
		case "packet":
			res = append(res, cf.App("OPacket", cf.Z(r.Tag)))
		case "badbody":
			res = append(res, "OBadBody")
		case "err":
			res = append(res, cf.App("OErr", cf.Z(r.Err)))
		case "none":
			res = append(res, "ONone")
		default:
			res = append(res, "OHung")
		}
	}
	var wire []int64
	for _, id := range o.Wire {
		wire = append(wire, int64(id))
	}
	return fmt.Sprintf("{| cc_cfg := {| c_max := %d; c_maxresp := %d; c_corr0 := %s; c_kinds := %s; c_stream := %s; c_term := %s |}; cc_api := %s; cc_log := %s; cc_res := %s; cc_wire := %s |}",
		c.Max, maxResp, cf.Z(int64(c.Corr0)), cf.List(kinds), cf.Bytes(o.stream), term, cf.List(apis), cf.List(log), cf.List(res), cf.ZList(wire))
}

// a timeout although the server never went silent, or an error class the model has no id for:
// scheduling noise of the sandbox, the case is run again
func noisy(o obsT) bool {
	if o.Ambig {
		return true
	}
	for _, r := range o.Results {
		if r.Class == "err" && (r.Err == 99 || r.Err == 11) {
			return true
		}
		if r.Class == "err" && r.Err == 3 && !o.Stalled {
			return true
		}
	}
	return false
}

type outT struct {
	skip bool
	c    caseT
	o    obsT
	mon  *cf.Monitor
	err  error
}

// runInfra runs a case; a failure of the harness infrastructure (listener, dial, accept, a panic of harness code) is retried
// on fresh infrastructure with back-off
func runInfra(c caseT) (o obsT, err error) {
	for attempt := 0; attempt < 6; attempt++ {
		o, err = func() (o obsT, err error) {
			defer func() {
				if v := recover(); v != nil {
					err = fmt.Errorf("harness panic: %v", v)
				}
			}()
			if failCase != "" && c.Name == failCase {
				return o, fmt.Errorf("self-test: infrastructure failure injected")
			}
			return runCase(c)
		}()
		if err == nil {
			return o, nil
		}
		fmt.Fprintf(os.Stderr, "case %s attempt %d: %v\n", c.Name, attempt+1, err)
		time.Sleep(time.Duration(200*(attempt+1)) * time.Millisecond)
	}
	return o, err
}

func runChecked(c caseT) (res outT) {
	defer func() {
		if v := recover(); v != nil {
			res = outT{c: c, err: fmt.Errorf("harness panic while evaluating the case: %v", v)}
		}
	}()
	var o obsT
	var err error
	for attempt := 0; attempt < 3; attempt++ {
		o, err = runInfra(c)
		if err != nil {
			break
		}
		if !noisy(o) {
			break
		}
	}
	if err != nil {
		return outT{c: c, err: err}
	}
	if o.Ambig {
		return outT{c: c, o: o, skip: true} // timing too close to call three times in a row: not evaluated
	}
	mon := monitor(c, o)
	// anything but the steered (deterministic) wire-bound measurement must reproduce before it counts
	if mon != nil && !(strings.HasPrefix(mon.Signature, "c14:wire-bound") && o.HeldOut > c.Max) {
		o2, err2 := runInfra(c)
		if err2 != nil {
			return outT{c: c, o: o}
		}
		mon2 := monitor(c, o2)
		if mon2 == nil || mon2.Signature != mon.Signature {
			if mon2 == nil {
				return outT{c: c, o: o2}
			}
			o3, err3 := runInfra(c)
			if err3 != nil {
				return outT{c: c, o: o2}
			}
			mon3 := monitor(c, o3)
			if mon3 == nil || mon3.Signature != mon2.Signature {
				return outT{c: c, o: o3, mon: nil}
			}
			return outT{c: c, o: o3, mon: mon3}
		}
		return outT{c: c, o: o2, mon: mon2}
	}
	return outT{c: c, o: o, mon: mon}
}

func main() {
	out := flag.String("out", ".", "output directory")
	seed := flag.Int64("seed", 1, "seed")
	n := flag.Int("n", 400, "number of random cases")
	workers := flag.Int("workers", 8, "cases run concurrently")
	flag.StringVar(&failCase, "failcase", "", "self-test: the infrastructure of the case with this name always fails")
	flag.StringVar(&crashCase, "crashcase", "", "self-test: the process exits when it reaches the case with this name")
	flag.Parse()
	r := rand.New(rand.NewSource(*seed))
	maxResp = []int32{1000, 4096, 65536}[r.Intn(3)]
	sarama.MaxResponseSize = maxResp
	sarama.VerifSetObserver(observer)
	sarama.PanicHandler = func(v interface{}) {
		atomic.AddInt32(&panics, 1)
		fmt.Fprintf(os.Stderr, "panic in a sarama goroutine: %v\n", v)
	}
	cases := corpus()
	for i := 0; i < *n; i++ {
		cases = append(cases, genCase(r, i))
	}
	// the cases run in batches; each batch is written (and announced) as soon as it is complete, so that a crash of this
	// process does not lose what was already observed
	const batch = 150
	nohooks, skipped, failed, total := 0, 0, 0, 0
	for b0 := 0; b0 < len(cases); b0 += batch {
		b1 := b0 + batch
		if b1 > len(cases) {
			b1 = len(cases)
		}
		outs := make([]outT, b1-b0)
		var wg sync.WaitGroup
		sem := make(chan struct{}, *workers)
		for i := b0; i < b1; i++ {
			i := i
			wg.Add(1)
			sem <- struct{}{}
			go func() {
				defer wg.Done()
				defer func() { <-sem }()
				if crashCase != "" && cases[i].Name == crashCase {
					os.Exit(7) // self-test: the process dies in the middle of a batch
				}
				outs[i-b0] = runChecked(cases[i])
			}()
		}
		wg.Wait()
		w := &cf.Writer{Dir: *out, Prefix: fmt.Sprintf("cases_c14_%03d", b0/batch), Imports: "From SV Require Import C14.Model C14.Corr.", CaseType: "ccase", MismatchFn: "mismatches_c14", ShardSize: 0}
		for _, x := range outs {
			total++
			if x.err != nil {
				// not an observation of the code: the case is left out and reported by name
				failed++
				fmt.Printf("HARNESSFAIL case %s could not be run: %v\n", x.c.Name, x.err)
				continue
			}
			if x.skip {
				skipped++
				continue
			}
			if x.o.NoHooks {
				nohooks++
			}
			nexp := 0
			for _, cl := range x.c.Calls {
				if cl.Kind == "hb" || cl.Kind == "api" || cl.Kind == "lpr" {
					nexp++
				}
			}
			var evs []string
			for _, e := range x.o.evs {
				evs = append(evs, fmt.Sprintf("%s k=%d id=%d ok=%v err=%d", e.Kind, e.K, e.ID, e.Ok, e.Err))
			}
			x.o.Events = evs
			w.Add(coqCase(x.c, x.o), cf.Sidecar{Case: map[string]interface{}{"case": x.c, "max_response_size": maxResp, "observed": x.o},
				Kind: x.c.Steer + "/" + x.c.Term, Nontrivial: nexp >= 2, Monitor: x.mon})
		}
		w.Close() // writes the shard and prints its CASEFILE line
	}
	fmt.Printf("C14 cases=%d nohooks=%d skipped=%d failed=%d panics=%d\n", total, nohooks, skipped, failed, atomic.LoadInt32(&panics))
}
