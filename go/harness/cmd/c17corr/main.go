// c17corr: runs sarama's partitioners, topicProducer.partitionMessage (through the in-package shim, over a real
// client fed by a mock broker) and a real AsyncProducer against a mock broker on generated inputs, and writes the
// observations as Coq cases for SV.C17.Corr plus the direct property oracle (monitor) verdict per case.
package main

import (
	"encoding/json"
	"errors"
	"flag"
	"fmt"
	"hash"
	"hash/fnv"
	"math/rand"
	"os"
	"sort"
	"strconv"
	"strings"
	"sync"
	"time"

	"github.com/Shopify/sarama"

	cf "verifharness/internal/coqfmt"
)

// ---------------------------------------------------------------- specs
type hasherSpec struct {
	Kind string `json:"kind"` // fnv1a | fnv1 | const | werr
	Val  uint32 `json:"val,omitempty"`
	Err  int64  `json:"err,omitempty"`
}
type optSpec struct {
	Kind   string      `json:"kind"` // absfirst | hashfn | fallback
	Hasher *hasherSpec `json:"hasher,omitempty"`
	Arg    *partSpec   `json:"arg,omitempty"` // fallback argument; nil = nil pointer
}
type partSpec struct {
	Kind   string      `json:"kind"` // manual random roundrobin hash reference customhash custom user
	Hasher *hasherSpec `json:"hasher,omitempty"`
	Opts   []optSpec   `json:"opts,omitempty"`
	// user partitioner
	RC     bool  `json:"rc,omitempty"`
	Dyn    *bool `json:"dyn,omitempty"`
	OutErr int64 `json:"out_err,omitempty"` // != 0: returns this error
	OutVal int32 `json:"out_val,omitempty"`
}
type keySpec struct {
	Kind  string `json:"kind"` // nil | bytes | encerr
	Bytes []byte `json:"bytes,omitempty"`
	Err   int64  `json:"err,omitempty"`
}

// ---------------------------------------------------------------- hashers
type constHash struct{ v uint32 }

func (c *constHash) Write(p []byte) (int, error) { return len(p), nil }
func (c *constHash) Sum(b []byte) []byte         { return b }
func (c *constHash) Reset()                      {}
func (c *constHash) Size() int                   { return 4 }
func (c *constHash) BlockSize() int              { return 1 }
func (c *constHash) Sum32() uint32               { return c.v }

type werrHash struct {
	constHash
	e int64
}

func (w *werrHash) Write(p []byte) (int, error) { return 0, fmt.Errorf("e%d", w.e) }

// recHash records the calls made on a custom hasher (the hasher protocol is part of what is compared)
type recHash struct {
	hash.Hash32
	log []string // "R" | "W<bytes as decimal list>"
}

func (r *recHash) Reset() { r.log = append(r.log, "HReset"); r.Hash32.Reset() }
func (r *recHash) Write(p []byte) (int, error) {
	r.log = append(r.log, cf.App("HWrite", cf.Bytes(p)))
	return r.Hash32.Write(p)
}

var lastRec *recHash // the most recently created custom hasher instance

func mkHasher(h hasherSpec) func() hash.Hash32 {
	var inner func() hash.Hash32
	switch h.Kind {
	case "fnv1a":
		inner = fnv.New32a
	case "fnv1":
		inner = fnv.New32
	case "const":
		inner = func() hash.Hash32 { return &constHash{h.Val} }
	case "werr":
		inner = func() hash.Hash32 { return &werrHash{e: h.Err} }
	default:
		panic("hasher kind " + h.Kind)
	}
	return func() hash.Hash32 {
		lastRec = &recHash{Hash32: inner()}
		return lastRec
	}
}

// the top-level partitioner's own hasher is a custom (recordable) one
func ownCustomHasher(s partSpec) bool {
	if s.Kind == "customhash" {
		return true
	}
	if s.Kind == "custom" {
		for _, o := range s.Opts {
			if o.Kind == "hashfn" {
				return true
			}
		}
	}
	return false
}
func coqHasher(h hasherSpec) string {
	switch h.Kind {
	case "fnv1a":
		return "fnv_hasher"
	case "fnv1":
		return "hs_fnv1"
	case "const":
		return cf.App("hs_const", cf.Z(int64(h.Val)))
	case "werr":
		return cf.App("hs_werr", cf.Z(h.Err))
	}
	panic("hasher kind " + h.Kind)
}

// ---------------------------------------------------------------- keys
type errEncoder struct{ e int64 }

func (e errEncoder) Encode() ([]byte, error) { return nil, fmt.Errorf("e%d", e.e) }
func (e errEncoder) Length() int             { return 0 }

func mkKey(k keySpec) sarama.Encoder {
	switch k.Kind {
	case "nil":
		return nil
	case "bytes":
		return sarama.ByteEncoder(append([]byte{}, k.Bytes...))
	case "encerr":
		return errEncoder{k.Err}
	}
	panic("key kind")
}
func coqKey(k keySpec) string {
	switch k.Kind {
	case "nil":
		return "KNil"
	case "bytes":
		return cf.App("KBytes", cf.Bytes(k.Bytes))
	default:
		return cf.App("KEncErr", cf.Z(k.Err))
	}
}

// ---------------------------------------------------------------- user partitioners
type userPart struct {
	spec partSpec
	mu   sync.Mutex
	seen []int32
}

func (u *userPart) Partition(m *sarama.ProducerMessage, n int32) (int32, error) {
	u.mu.Lock()
	u.seen = append(u.seen, n)
	u.mu.Unlock()
	if u.spec.OutErr != 0 {
		return -1, fmt.Errorf("e%d", u.spec.OutErr)
	}
	return u.spec.OutVal, nil
}
func (u *userPart) RequiresConsistency() bool { return u.spec.RC }
func (u *userPart) lastSeen() int64 {
	u.mu.Lock()
	defer u.mu.Unlock()
	if len(u.seen) == 0 {
		return -1
	}
	return int64(u.seen[len(u.seen)-1])
}

type userPartDyn struct{ *userPart }

func (u userPartDyn) MessageRequiresConsistency(*sarama.ProducerMessage) bool { return *u.spec.Dyn }

// ---------------------------------------------------------------- building partitioners
func build(s partSpec) (sarama.Partitioner, *userPart) {
	switch s.Kind {
	case "manual":
		return sarama.NewManualPartitioner("t"), nil
	case "random":
		return sarama.NewRandomPartitioner("t"), nil
	case "roundrobin":
		return sarama.NewRoundRobinPartitioner("t"), nil
	case "hash":
		return sarama.NewHashPartitioner("t"), nil
	case "reference":
		return sarama.NewReferenceHashPartitioner("t"), nil
	case "customhash":
		return sarama.NewCustomHashPartitioner(mkHasher(*s.Hasher))("t"), nil
	case "custom":
		var opts []sarama.HashPartitionerOption
		for _, o := range s.Opts {
			switch o.Kind {
			case "absfirst":
				opts = append(opts, sarama.WithAbsFirst())
			case "hashfn":
				opts = append(opts, sarama.WithCustomHashFunction(mkHasher(*o.Hasher)))
			case "fallback":
				if o.Arg == nil {
					opts = append(opts, sarama.VerifC17FallbackOption(nil))
				} else {
					q, _ := build(*o.Arg)
					opts = append(opts, sarama.VerifC17FallbackOption(q))
				}
			}
		}
		return sarama.NewCustomPartitioner(opts...)("t"), nil
	case "user":
		u := &userPart{spec: s}
		if s.Dyn != nil {
			return userPartDyn{u}, u
		}
		return u, u
	}
	panic("partitioner kind " + s.Kind)
}

func coqHashp(s partSpec) string {
	switch s.Kind {
	case "hash":
		return "new_hash"
	case "reference":
		return "new_reference_hash"
	case "customhash":
		return cf.App("new_custom_hash", coqHasher(*s.Hasher))
	case "custom":
		var it []string
		for _, o := range s.Opts {
			switch o.Kind {
			case "absfirst":
				it = append(it, "OAbsFirst")
			case "hashfn":
				it = append(it, cf.App("OHashFn", coqHasher(*o.Hasher)))
			case "fallback":
				if o.Arg == nil {
					it = append(it, "(OFallback None)")
				} else {
					it = append(it, cf.App("OFallback", cf.Some(coqHashp(*o.Arg))))
				}
			}
		}
		return cf.App("new_custom", cf.List(it))
	}
	panic("not a hash partitioner: " + s.Kind)
}
func coqPart(s partSpec) string {
	switch s.Kind {
	case "manual":
		return "PManual"
	case "random":
		return "PRandom"
	case "roundrobin":
		return "(PRoundRobin 0)"
	case "user":
		dyn := "None"
		if s.Dyn != nil {
			dyn = cf.Some(cf.Bool(*s.Dyn))
		}
		out := cf.App("Chose", cf.Z(int64(s.OutVal)))
		if s.OutErr != 0 {
			out = cf.App("Fail", cf.Z(s.OutErr))
		}
		return cf.App("PCustom", cf.Bool(s.RC), dyn, out)
	}
	return cf.App("PHash", coqHashp(s))
}
func isHashKind(k string) bool {
	return k == "hash" || k == "reference" || k == "customhash" || k == "custom"
}
func hasFallbackOpt(s partSpec) bool {
	for _, o := range s.Opts {
		if o.Kind == "fallback" {
			return true
		}
	}
	return false
}

// ---------------------------------------------------------------- errors
func errID(e error) int64 {
	if e == nil {
		return 0
	}
	switch {
	case errors.Is(e, sarama.ErrUnknownTopicOrPartition):
		return 3
	case errors.Is(e, sarama.ErrLeaderNotAvailable):
		return 5
	case errors.Is(e, sarama.ErrInvalidPartition):
		return -2
	}
	s := e.Error()
	if strings.HasPrefix(s, "e") {
		if v, err := strconv.ParseInt(s[1:], 10, 64); err == nil {
			return v
		}
	}
	return -999
}

// ---------------------------------------------------------------- searched keys
const fnvPrime = 16777619

func fnv1a(b []byte) uint32 {
	h := fnv.New32a()
	h.Write(b)
	return h.Sum32()
}

// preimage finds a 5-byte key whose FNV-1a hash is exactly target (meet in the middle: the multiplication by the odd
// prime is invertible modulo 2^32).
func preimage(target uint32) []byte {
	inv := uint32(1)
	for i := 0; i < 6; i++ { // Newton iteration for the inverse of fnvPrime modulo 2^32
		inv *= 2 - fnvPrime*inv
	}
	fwd := make(map[uint32][2]byte, 65536)
	for a := 0; a < 256; a++ {
		for b := 0; b < 256; b++ {
			h := uint32(2166136261)
			h = (h ^ uint32(a)) * fnvPrime
			h = (h ^ uint32(b)) * fnvPrime
			fwd[h] = [2]byte{byte(a), byte(b)}
		}
	}
	for c := 0; c < 256; c++ {
		for d := 0; d < 256; d++ {
			for e := 0; e < 256; e++ {
				h4 := (target * inv) ^ uint32(e)
				h3 := (h4 * inv) ^ uint32(d)
				h2 := (h3 * inv) ^ uint32(c)
				if ab, ok := fwd[h2]; ok {
					k := []byte{ab[0], ab[1], byte(c), byte(d), byte(e)}
					if fnv1a(k) != target {
						panic("preimage search is wrong")
					}
					return k
				}
			}
		}
	}
	return nil
}

var specialKeys [][]byte // hashes 0x80000000, 0, 0xffffffff, 0x7fffffff, 0x80000001
var negKeys [][]byte     // short keys with negative int32 hash

func initKeys() {
	for _, t := range []uint32{0x80000000, 0, 0xffffffff, 0x7fffffff, 0x80000001} {
		k := preimage(t)
		if k == nil {
			fmt.Fprintf(os.Stderr, "no 5-byte key with hash %#x\n", t)
			os.Exit(2)
		}
		specialKeys = append(specialKeys, k)
	}
	for i := 0; len(negKeys) < 12; i++ {
		k := []byte(fmt.Sprintf("key-%d", i))
		if int32(fnv1a(k)) < 0 {
			negKeys = append(negKeys, k)
		}
	}
}

var nPool = []int32{1, 2, 3, 7, 100, 2147483647}
var hashVals = []uint32{0, 1, 0x7fffffff, 0x80000000, 0x80000001, 0xffffffff, 0xfffffff9, 100}

func genKey(r *rand.Rand) keySpec {
	switch x := r.Intn(20); {
	case x < 4:
		return keySpec{Kind: "nil"}
	case x < 5:
		return keySpec{Kind: "bytes", Bytes: []byte{}}
	case x < 6:
		return keySpec{Kind: "encerr", Err: int64(100 + r.Intn(5))}
	case x < 10:
		return keySpec{Kind: "bytes", Bytes: specialKeys[r.Intn(len(specialKeys))]}
	case x < 13:
		return keySpec{Kind: "bytes", Bytes: negKeys[r.Intn(len(negKeys))]}
	default:
		b := make([]byte, 1+r.Intn(12))
		r.Read(b)
		return keySpec{Kind: "bytes", Bytes: b}
	}
}
func genHasher(r *rand.Rand) *hasherSpec {
	switch x := r.Intn(10); {
	case x < 2:
		return &hasherSpec{Kind: "fnv1a"}
	case x < 4:
		return &hasherSpec{Kind: "fnv1"}
	case x < 9:
		v := hashVals[r.Intn(len(hashVals))]
		if r.Intn(4) == 0 {
			v = r.Uint32()
		}
		return &hasherSpec{Kind: "const", Val: v}
	default:
		return &hasherSpec{Kind: "werr", Err: int64(200 + r.Intn(5))}
	}
}
func genHashSpec(r *rand.Rand, depth int) partSpec {
	switch r.Intn(5) {
	case 0:
		return partSpec{Kind: "hash"}
	case 1:
		return partSpec{Kind: "reference"}
	case 2:
		return partSpec{Kind: "customhash", Hasher: genHasher(r)}
	}
	s := partSpec{Kind: "custom"}
	for i, k := 0, r.Intn(4); i < k; i++ {
		switch x := r.Intn(6); {
		case x < 2:
			s.Opts = append(s.Opts, optSpec{Kind: "absfirst"})
		case x < 4:
			s.Opts = append(s.Opts, optSpec{Kind: "hashfn", Hasher: genHasher(r)})
		default:
			if depth <= 0 || r.Intn(6) == 0 {
				if r.Intn(3) == 0 {
					s.Opts = append(s.Opts, optSpec{Kind: "fallback"}) // nil pointer
				} else {
					a := partSpec{Kind: "hash"}
					s.Opts = append(s.Opts, optSpec{Kind: "fallback", Arg: &a})
				}
			} else {
				a := genHashSpec(r, depth-1)
				s.Opts = append(s.Opts, optSpec{Kind: "fallback", Arg: &a})
			}
		}
	}
	return s
}
func genPart(r *rand.Rand, user bool) partSpec {
	x := r.Intn(12)
	if user && x < 4 {
		s := partSpec{Kind: "user", RC: r.Intn(2) == 0}
		if r.Intn(2) == 0 {
			d := r.Intn(2) == 0
			s.Dyn = &d
		}
		if r.Intn(5) == 0 {
			s.OutErr = int64(300 + r.Intn(5))
		} else {
			s.OutVal = []int32{-1, 0, 1, 2, 3, 4, 5, 6, 7, 2147483647, -2147483648}[r.Intn(11)]
		}
		return s
	}
	switch x {
	case 4:
		return partSpec{Kind: "manual"}
	case 5:
		return partSpec{Kind: "random"}
	case 6, 7:
		return partSpec{Kind: "roundrobin"}
	}
	return genHashSpec(r, 2)
}

// ---------------------------------------------------------------- direct calls
type call struct {
	Key   keySpec `json:"key"`
	MPart int32   `json:"mpart"`
	N     int32   `json:"n"`
	Obs   string  `json:"obs"` // Coq term of type pout
	HCalls []string `json:"hasher_calls,omitempty"` // calls seen on the partitioner's own custom hasher
	hobs  bool
	val   int32
	kind  int // 0 chose 1 fail 2 panic 3 diverge
}

func callPartition(p sarama.Partitioner, m *sarama.ProducerMessage, n int32) (v int32, err error, panicked bool) {
	defer func() {
		if x := recover(); x != nil {
			panicked = true
		}
	}()
	v, err = p.Partition(m, n)
	return
}

func javaChoice(h uint32, n int32) int32 { return int32((int64(int32(h)) & 0x7fffffff) % int64(n)) }

// plainHashInfo: for hash partitioners without options that change the hash, the hash function used (for the monitor)
func sum32(h hasherSpec, b []byte) (uint32, bool) {
	switch h.Kind {
	case "fnv1a":
		return fnv1a(b), true
	case "fnv1":
		x := fnv.New32()
		x.Write(b)
		return x.Sum32(), true
	case "const":
		return h.Val, true
	}
	return 0, false
}

// effective (hasher, referenceAbs) of a hash spec, computed from the documented meaning of the constructors/options
func effective(s partSpec) (hasherSpec, bool) {
	switch s.Kind {
	case "hash":
		return hasherSpec{Kind: "fnv1a"}, false
	case "reference":
		return hasherSpec{Kind: "fnv1a"}, true
	case "customhash":
		return *s.Hasher, false
	}
	h, ref := hasherSpec{Kind: "fnv1a"}, false
	for _, o := range s.Opts {
		if o.Kind == "absfirst" {
			ref = true
		}
		if o.Kind == "hashfn" {
			h = *o.Hasher
		}
	}
	return h, ref
}

// the partitioner that finally serves a keyless message (following fallback options), nil = nil pointer
func keylessServer(s partSpec) *partSpec {
	var last *optSpec
	for i := range s.Opts {
		if s.Opts[i].Kind == "fallback" {
			last = &s.Opts[i]
		}
	}
	if last == nil {
		return &partSpec{Kind: "random"}
	}
	if last.Arg == nil {
		return nil
	}
	return keylessServer(*last.Arg)
}

func runCalls(s partSpec, calls []call) ([]call, *cf.Monitor) {
	lastRec = nil
	p, _ := build(s)
	var rec *recHash
	if ownCustomHasher(s) {
		rec = lastRec
	}
	var mon *cf.Monitor
	setMon := func(sig, what string) {
		if mon == nil {
			mon = &cf.Monitor{Signature: sig, What: what}
		}
	}
	builtin := s.Kind != "user" && s.Kind != "manual"
	type kn struct {
		k string
		n int32
	}
	seenChoice := map[kn]int32{}
	var rrWindow []int32
	var rrN int32
	for i := range calls {
		c := &calls[i]
		m := &sarama.ProducerMessage{Topic: "t", Key: mkKey(c.Key), Partition: c.MPart}
		if isHashKind(s.Kind) && c.Key.Kind == "nil" && sarama.VerifC17FallbackCycle(p) {
			c.Obs, c.kind = "Diverge", 3
			setMon("c17:fallback-self-recursion", "WithCustomFallbackPartitioner ignored its argument (hp.random == hp): Partition() on a keyless message would recurse forever")
			continue
		}
		before := 0
		if rec != nil {
			before = len(rec.log)
		}
		v, err, pan := callPartition(p, m, c.N)
		if rec != nil {
			c.hobs = true
			c.HCalls = append([]string{}, rec.log[before:]...)
			// monitor: every keyed message is hashed from a clean hasher: Reset, then Write of exactly its key bytes
			if c.Key.Kind == "bytes" {
				want := []string{"HReset", cf.App("HWrite", cf.Bytes(c.Key.Bytes))}
				if len(c.HCalls) != 2 || c.HCalls[0] != want[0] || c.HCalls[1] != want[1] {
					setMon("hash:hasher-protocol", fmt.Sprintf("key %v: calls on the hasher were %v, expected Reset then Write(key)", c.Key.Bytes, c.HCalls))
				}
			}
		}
		switch {
		case pan:
			c.Obs, c.kind = "Panic", 2
			if builtin && c.N >= 1 && !(isHashKind(s.Kind) && c.Key.Kind == "nil" && keylessServer(s) == nil) {
				setMon("partition:panic:"+s.Kind, fmt.Sprintf("Partition panicked for n=%d", c.N))
			}
		case err != nil:
			c.Obs, c.kind = cf.App("Fail", cf.Z(errID(err))), 1
		default:
			c.Obs, c.kind, c.val = cf.App("Chose", cf.Z(int64(v))), 0, v
			// ---- monitor: the property statement on this call
			if builtin && c.N >= 1 && (v < 0 || v >= c.N) {
				setMon("range:"+s.Kind, fmt.Sprintf("partition %d outside [0,%d) for key %v", v, c.N, c.Key))
			}
			if s.Kind == "manual" && v != c.MPart {
				setMon("manual:not-own-partition", fmt.Sprintf("returned %d for message partition %d", v, c.MPart))
			}
			if isHashKind(s.Kind) && c.Key.Kind == "bytes" && c.N >= 1 {
				id := kn{string(c.Key.Bytes), c.N}
				if old, ok := seenChoice[id]; ok && old != v {
					setMon("hash:inconsistent", fmt.Sprintf("key %v n=%d mapped to %d and %d", c.Key.Bytes, c.N, old, v))
				}
				seenChoice[id] = v
				if h, ref := effective(s); ref {
					if hv, ok := sum32(h, c.Key.Bytes); ok && v != javaChoice(hv, c.N) {
						setMon("reference:not-java", fmt.Sprintf("hash %#x n=%d: got %d, Java toPositive(h)%%n = %d", hv, c.N, v, javaChoice(hv, c.N)))
					}
				}
			}
		}
		if s.Kind == "roundrobin" {
			if c.kind != 0 || c.N < 1 || c.N != rrN {
				rrWindow, rrN = nil, c.N
			}
			if c.kind == 0 && c.N >= 1 {
				rrWindow = append(rrWindow, v)
				if int32(len(rrWindow)) > c.N {
					rrWindow = rrWindow[1:]
				}
				seen := map[int32]bool{}
				for _, x := range rrWindow {
					if seen[x] {
						setMon("roundrobin:not-cycling", fmt.Sprintf("n=%d: partition %d twice within %d consecutive calls: %v", c.N, x, c.N, rrWindow))
					}
					seen[x] = true
				}
			}
		}
	}
	return calls, mon
}

func genCalls(r *rand.Rand, s partSpec) []call {
	var cs []call
	pickN := func() int32 {
		switch x := r.Intn(20); {
		case x < 14:
			return nPool[r.Intn(len(nPool))]
		case x < 18:
			return int32(1 + r.Intn(1000))
		case x < 19:
			return int32(1 + r.Int31n(2147483646))
		default:
			if s.Kind == "roundrobin" || s.Kind == "manual" || s.Kind == "random" {
				return int32(-r.Intn(3)) // 0, -1, -2
			}
			if isHashKind(s.Kind) {
				return int32(-r.Intn(4)) // 0 (divide by zero), negative counts
			}
			return 1
		}
	}
	if s.Kind == "roundrobin" {
		for seg, k := 0, 1+r.Intn(3); seg < k; seg++ {
			n := pickN()
			runLen := 1 + r.Intn(6)
			if n >= 1 && n <= 7 {
				runLen = int(n) + r.Intn(2*int(n)+1)
			}
			for i := 0; i < runLen; i++ {
				cs = append(cs, call{Key: genKey(r), MPart: int32(r.Intn(5)), N: n})
			}
		}
		return cs
	}
	var keys []keySpec
	for i, k := 0, 1+r.Intn(3); i < k; i++ {
		keys = append(keys, genKey(r))
	}
	for i, k := 0, 2+r.Intn(7); i < k; i++ {
		key := keys[r.Intn(len(keys))]
		if isHashKind(s.Kind) && r.Intn(2) == 0 {
			key = genKey(r)
		}
		mp := int32(r.Intn(9) - 1)
		if r.Intn(8) == 0 {
			mp = []int32{2147483647, -2147483648, 100}[r.Intn(3)]
		}
		cs = append(cs, call{Key: key, MPart: mp, N: pickN()})
	}
	return cs
}

func coqCalls(cs []call) string {
	var it []string
	for _, c := range cs {
		hc := "None"
		if c.hobs {
			hc = cf.Some(cf.List(c.HCalls))
		}
		it = append(it, fmt.Sprintf("{| pc_key := %s; pc_mpart := %s; pc_n := %s; pc_obs := %s; pc_hcalls := %s |}", coqKey(c.Key), cf.Z(int64(c.MPart)), cf.Z(int64(c.N)), c.Obs, hc))
	}
	return cf.List(it)
}

// ---------------------------------------------------------------- cluster pieces
type reporter struct{ msgs []string }

func (r *reporter) Error(a ...interface{})            { r.msgs = append(r.msgs, fmt.Sprint(a...)) }
func (r *reporter) Errorf(f string, a ...interface{}) { r.msgs = append(r.msgs, fmt.Sprintf(f, a...)) }
func (r *reporter) Fatal(a ...interface{})            { panic(fmt.Sprint(a...)) }
func (r *reporter) Fatalf(f string, a ...interface{}) { panic(fmt.Sprintf(f, a...)) }

type partMeta struct {
	ID         int32 `json:"id"`
	Leaderless bool  `json:"leaderless"`
	// Degraded: the partition has a leader but its metadata carries a partition-level error other than
	// LEADER_NOT_AVAILABLE (REPLICA_NOT_AVAILABLE: a follower is down). Its leader is available, so it is writable;
	// the model sees it as an ordinary partition with a leader.
	Degraded bool `json:"degraded,omitempty"`
}
type topicMeta struct {
	Known bool       `json:"known"`
	Parts []partMeta `json:"parts"`
}

func genMeta(r *rand.Rand) topicMeta {
	if r.Intn(12) == 0 {
		return topicMeta{Known: false}
	}
	n := r.Intn(7)
	if r.Intn(10) != 0 && n == 0 {
		n = 1 + r.Intn(6)
	}
	ids := r.Perm(10)[:n]
	mode := r.Intn(6) // 0 none leaderless, 1 all leaderless, else random subset
	tm := topicMeta{Known: true, Parts: []partMeta{}}
	for _, id := range ids {
		l := false
		switch mode {
		case 0:
		case 1:
			l = true
		default:
			l = r.Intn(2) == 0
		}
		tm.Parts = append(tm.Parts, partMeta{ID: int32(id), Leaderless: l, Degraded: !l && r.Intn(3) == 0})
	}
	return tm
}
func coqMeta(tm topicMeta) string {
	if !tm.Known {
		return "None"
	}
	var it []string
	for _, p := range tm.Parts {
		it = append(it, fmt.Sprintf("(%d, %s)", p.ID, cf.Bool(p.Leaderless)))
	}
	return cf.Some(cf.List(it))
}
func metadataResponse(b *sarama.MockBroker, topic string, tm topicMeta) *sarama.MetadataResponse {
	resp := new(sarama.MetadataResponse)
	resp.AddBroker(b.Addr(), b.BrokerID())
	if tm.Known {
		if len(tm.Parts) == 0 {
			resp.AddTopic(topic, sarama.ErrNoError)
		}
		for _, p := range tm.Parts {
			if p.Leaderless {
				resp.AddTopicPartition(topic, p.ID, -1, nil, nil, nil, sarama.ErrLeaderNotAvailable)
			} else if p.Degraded {
				resp.AddTopicPartition(topic, p.ID, b.BrokerID(), nil, nil, nil, sarama.ErrReplicaNotAvailable)
			} else {
				resp.AddTopicPartition(topic, p.ID, b.BrokerID(), nil, nil, nil, sarama.ErrNoError)
			}
		}
	}
	return resp
}
func (tm topicMeta) sets() (all, writable []int32) {
	for _, p := range tm.Parts {
		all = append(all, p.ID)
		if !p.Leaderless {
			writable = append(writable, p.ID)
		}
	}
	sort.Slice(all, func(i, j int) bool { return all[i] < all[j] })
	sort.Slice(writable, func(i, j int) bool { return writable[i] < writable[j] })
	return
}
func baseConfig() *sarama.Config {
	conf := sarama.NewConfig()
	conf.Version = sarama.V0_8_2_0
	conf.Metadata.Retry.Max = 0
	conf.Metadata.Retry.Backoff = 0
	conf.Producer.Retry.Max = 0
	conf.Producer.Retry.Backoff = time.Millisecond
	conf.Producer.Return.Successes = true
	conf.Producer.Return.Errors = true
	return conf
}

// ---------------------------------------------------------------- partitionMessage through the shim
type rmsg struct {
	Key     keySpec `json:"key"`
	MPart   int32   `json:"mpart"`
	Obs     string  `json:"obs"`
	Offered int64   `json:"offered"`
}

func contains(l []int32, x int32) bool {
	for _, y := range l {
		if x == y {
			return true
		}
	}
	return false
}

func runRoute(b *sarama.MockBroker, s partSpec, tm topicMeta, msgs []rmsg) ([]rmsg, *cf.Monitor) {
	b.SetHandlerByMap(map[string]sarama.MockResponse{"MetadataRequest": sarama.NewMockWrapper(metadataResponse(b, "t", tm))})
	conf := baseConfig()
	client, err := sarama.NewClient([]string{b.Addr()}, conf)
	if err != nil {
		panic(err)
	}
	defer client.Close()
	p, u := build(s)
	all, writable := tm.sets()
	var mon *cf.Monitor
	setMon := func(sig, what string) {
		if mon == nil {
			mon = &cf.Monitor{Signature: sig, What: what}
		}
	}
	for i := range msgs {
		x := &msgs[i]
		x.Offered = -1
		m := &sarama.ProducerMessage{Topic: "t", Key: mkKey(x.Key), Partition: x.MPart}
		if isHashKind(s.Kind) && x.Key.Kind == "nil" && sarama.VerifC17FallbackCycle(p) {
			x.Obs = "RDiverge"
			setMon("c17:fallback-self-recursion", "WithCustomFallbackPartitioner ignored its argument (hp.random == hp): a keyless message would recurse forever")
			continue
		}
		before := 0
		if u != nil {
			before = len(u.seen)
		}
		var rerr error
		pan := false
		func() {
			defer func() {
				if recover() != nil {
					pan = true
				}
			}()
			rerr = sarama.VerifC17Route(client, conf, p, m)
		}()
		if u != nil && len(u.seen) > before {
			x.Offered = u.lastSeen()
		}
		switch {
		case pan:
			x.Obs = "RPanic"
			if !(isHashKind(s.Kind) && x.Key.Kind == "nil" && keylessServer(s) == nil) {
				setMon("route:panic", fmt.Sprintf("partitionMessage panicked instead of routing or failing the message (partitioner %s, key %s)", s.Kind, x.Key.Kind))
			}
		case rerr != nil:
			x.Obs = cf.App("RErr", cf.Z(errID(rerr)))
			if m.Partition != x.MPart {
				setMon("route:error-but-partition-assigned", fmt.Sprintf("error %v but msg.Partition changed %d -> %d", rerr, x.MPart, m.Partition))
			}
		default:
			x.Obs = cf.App("RTo", cf.Z(int64(m.Partition)))
		}
		// ---- monitor: the routing rule, stated on what was observed
		keyed := x.Key.Kind != "nil"
		var wantSet []int32
		consistent := false
		switch {
		case s.Kind == "user" && s.Dyn != nil:
			consistent = *s.Dyn
		case s.Kind == "user":
			consistent = s.RC
		case s.Kind == "manual":
			consistent = true
		case isHashKind(s.Kind):
			consistent = keyed
		}
		if consistent {
			wantSet = all
		} else {
			wantSet = writable
		}
		if x.Offered >= 0 && x.Offered != int64(len(wantSet)) {
			setMon("route:wrong-partition-set", fmt.Sprintf("partitioner (consistency=%v) was offered %d partitions, expected %d", consistent, x.Offered, len(wantSet)))
		}
		if len(wantSet) == 0 && rerr == nil && !pan {
			setMon("route:sent-with-no-partition-available", fmt.Sprintf("no partition available but message routed to %d", m.Partition))
		}
		if rerr == nil && !pan {
			if !contains(wantSet, m.Partition) {
				setMon("route:partition-not-offered", fmt.Sprintf("routed to %d which is not among the offered %v", m.Partition, wantSet))
			}
			if s.Kind == "user" || s.Kind == "manual" {
				choice := s.OutVal
				if s.Kind == "manual" {
					choice = x.MPart
				}
				if choice < 0 || int(choice) >= len(wantSet) {
					setMon("route:invalid-choice-accepted", fmt.Sprintf("choice %d of %d partitions was accepted", choice, len(wantSet)))
				} else if wantSet[choice] != m.Partition {
					setMon("route:choice-not-honoured", fmt.Sprintf("choice %d of %v but routed to %d", choice, wantSet, m.Partition))
				}
			}
			if isHashKind(s.Kind) && x.Key.Kind == "bytes" {
				// the partitioner is deterministic on keyed messages: ask it again
				q, _ := build(s)
				if c, e, pn := callPartition(q, &sarama.ProducerMessage{Key: mkKey(x.Key)}, int32(len(wantSet))); e == nil && !pn && c >= 0 && int(c) < len(wantSet) && wantSet[c] != m.Partition {
					setMon("route:choice-not-honoured", fmt.Sprintf("hash choice %d of %v but routed to %d", c, wantSet, m.Partition))
				}
			}
		}
		if rerr != nil && (s.Kind == "user" || s.Kind == "manual") && s.OutErr == 0 && len(wantSet) > 0 {
			choice := s.OutVal
			if s.Kind == "manual" {
				choice = x.MPart
			}
			if choice >= 0 && int(choice) < len(wantSet) {
				setMon("route:valid-choice-rejected", fmt.Sprintf("choice %d of %v rejected with %v", choice, wantSet, rerr))
			}
		}
	}
	return msgs, mon
}

func genRMsgs(r *rand.Rand, s partSpec) []rmsg {
	var ms []rmsg
	for i, k := 0, 1+r.Intn(6); i < k; i++ {
		key := genKey(r)
		if r.Intn(3) == 0 {
			key = keySpec{Kind: "nil"}
		}
		ms = append(ms, rmsg{Key: key, MPart: int32(r.Intn(9) - 1)})
	}
	return ms
}
func coqRMsgs(ms []rmsg) string {
	var it []string
	for _, m := range ms {
		it = append(it, fmt.Sprintf("{| rm_key := %s; rm_mpart := %s; rm_obs := %s; rm_offered := %s |}", coqKey(m.Key), cf.Z(int64(m.MPart)), m.Obs, cf.Z(m.Offered)))
	}
	return cf.List(it)
}

// ---------------------------------------------------------------- black box: AsyncProducer against a mock broker
type dmsg struct {
	ID    int64   `json:"id"`
	Key   keySpec `json:"key"`
	MPart int32   `json:"mpart"`
	Succ  bool    `json:"succ"`
	Part  int32   `json:"part"`
	Err   string  `json:"err,omitempty"`
}

func runProducer(s partSpec, tm topicMeta, msgs []dmsg) ([]dmsg, [][2]int64, *cf.Monitor, error) {
	rep := &reporter{}
	b := sarama.NewMockBroker(rep, 1)
	defer b.Close()
	b.SetHandlerByMap(map[string]sarama.MockResponse{
		"MetadataRequest": sarama.NewMockWrapper(metadataResponse(b, "t", tm)),
		"ProduceRequest":  sarama.NewMockProduceResponse(rep),
	})
	conf := baseConfig()
	p, _ := build(s)
	if sarama.VerifC17FallbackCycle(p) {
		// a keyless message would overflow the stack of the topic producer's goroutine: do not run, report
		for i := range msgs {
			msgs[i].Part = msgs[i].MPart
		}
		return msgs, nil, &cf.Monitor{Signature: "c17:fallback-self-recursion", What: "WithCustomFallbackPartitioner ignored its argument (hp.random == hp): a keyless message would recurse forever"}, nil
	}
	var mon *cf.Monitor
	var monMu sync.Mutex
	setMon := func(sig, what string) {
		monMu.Lock()
		if mon == nil {
			mon = &cf.Monitor{Signature: sig, What: what}
		}
		monMu.Unlock()
	}
	// a panic inside the topic producer's goroutine would kill the harness: turn it into an error + monitor failure
	g := guard{p, func(n int32) {
		setMon("dispatch:partitioner-panic", fmt.Sprintf("Partition() panicked inside the producer (numPartitions=%d)", n))
	}}
	if _, ok := p.(sarama.DynamicConsistencyPartitioner); ok {
		conf.Producer.Partitioner = func(string) sarama.Partitioner { return guardDyn{g} }
	} else {
		conf.Producer.Partitioner = func(string) sarama.Partitioner { return g }
	}
	prod, err := sarama.NewAsyncProducer([]string{b.Addr()}, conf)
	if err != nil {
		return nil, nil, nil, err
	}
	byID := map[int64]*dmsg{}
	for i := range msgs {
		byID[msgs[i].ID] = &msgs[i]
	}
	got := map[int64]int{}
	for i := range msgs {
		x := &msgs[i]
		prod.Input() <- &sarama.ProducerMessage{Topic: "t", Key: mkKey(x.Key), Partition: x.MPart, Value: sarama.StringEncoder(fmt.Sprintf("m%d", x.ID)), Metadata: x.ID}
		// one at a time: wait for this message's outcome (keeps the run deterministic)
		select {
		case m := <-prod.Successes():
			d := byID[m.Metadata.(int64)]
			d.Succ, d.Part = true, m.Partition
			got[d.ID]++
		case e := <-prod.Errors():
			d := byID[e.Msg.Metadata.(int64)]
			d.Succ, d.Part, d.Err = false, e.Msg.Partition, e.Err.Error()
			got[d.ID]++
		case <-time.After(20 * time.Second):
			prod.AsyncClose()
			return nil, nil, nil, fmt.Errorf("no outcome for message %d within 20s", x.ID)
		}
	}
	prod.AsyncClose()
	for range prod.Successes() {
		setMon("dispatch:extra-outcome", "an extra success event arrived at close")
	}
	for range prod.Errors() {
		setMon("dispatch:extra-outcome", "an extra error event arrived at close")
	}
	var seen [][2]int64
	_, writable := tm.sets()
	for _, rr := range b.History() {
		if pr, ok := rr.Request.(*sarama.ProduceRequest); ok {
			for _, rec := range sarama.VerifC17ProduceRecords(pr) {
				id, _ := strconv.ParseInt(strings.TrimPrefix(string(rec.Value), "m"), 10, 64)
				seen = append(seen, [2]int64{int64(rec.Partition), id})
				d := byID[id]
				// ---- monitor: a message is sent to the partition reported, and never when it failed
				if d == nil {
					continue
				}
				if !d.Succ {
					setMon("dispatch:failed-message-was-sent", fmt.Sprintf("message %d failed (%s) but reached the broker in partition %d", id, d.Err, rec.Partition))
				} else if d.Part != rec.Partition {
					setMon("dispatch:sent-elsewhere", fmt.Sprintf("message %d reported partition %d but was sent to %d", id, d.Part, rec.Partition))
				}
				if !contains(writable, rec.Partition) {
					setMon("dispatch:sent-to-leaderless", fmt.Sprintf("message %d sent to partition %d which has no leader", id, rec.Partition))
				}
			}
		}
	}
	for _, d := range msgs {
		if d.Succ {
			found := false
			for _, sn := range seen {
				if sn[1] == d.ID {
					found = true
				}
			}
			if !found {
				setMon("dispatch:success-never-sent", fmt.Sprintf("message %d reported success but never reached the broker", d.ID))
			}
		}
	}
	sort.Slice(seen, func(i, j int) bool {
		if seen[i][0] != seen[j][0] {
			return seen[i][0] < seen[j][0]
		}
		return seen[i][1] < seen[j][1]
	})
	return msgs, seen, mon, nil
}

type guard struct {
	p       sarama.Partitioner
	onPanic func(n int32)
}

func (g guard) Partition(m *sarama.ProducerMessage, n int32) (v int32, err error) {
	defer func() {
		if recover() != nil {
			g.onPanic(n)
			v, err = -1, errors.New("partitioner panicked")
		}
	}()
	return g.p.Partition(m, n)
}
func (g guard) RequiresConsistency() bool { return g.p.RequiresConsistency() }

type guardDyn struct{ guard }

func (g guardDyn) MessageRequiresConsistency(m *sarama.ProducerMessage) bool {
	return g.p.(sarama.DynamicConsistencyPartitioner).MessageRequiresConsistency(m)
}

func dispatchSafe(s partSpec) bool { // no partitioner that can panic inside the producer's goroutines
	if s.Kind == "custom" {
		for _, o := range s.Opts {
			if o.Kind == "fallback" && (o.Arg == nil || !dispatchSafe(*o.Arg)) {
				return false
			}
		}
	}
	return true
}

func coqDMsgs(ms []dmsg) string {
	var it []string
	for _, m := range ms {
		it = append(it, fmt.Sprintf("{| dm_id := %d; dm_key := %s; dm_mpart := %s; dm_succ := %s; dm_part := %s |}", m.ID, coqKey(m.Key), cf.Z(int64(m.MPart)), cf.Bool(m.Succ), cf.Z(int64(m.Part))))
	}
	return cf.List(it)
}

// ---------------------------------------------------------------- main
func main() {
	out := flag.String("out", ".", "output directory")
	seed := flag.Int64("seed", 1, "seed")
	n := flag.Int("n", 300, "number of random direct-call cases (routing cases: n*2/3, producer cases: n/8)")
	replay := flag.String("replay", "", "replay file (evidence/replay/C17-*.json): re-run exactly that case")
	flag.Parse()
	sarama.Logger = nopLogger{}
	initKeys()
	var rp struct {
		Case *struct {
			Partitioner partSpec   `json:"partitioner"`
			Calls       []call     `json:"calls"`
			Meta        *topicMeta `json:"meta"`
			Msgs        json.RawMessage `json:"msgs"`
			Broker      *[][2]int64 `json:"broker"`
		} `json:"case"`
	}
	if *replay != "" {
		raw, err := os.ReadFile(*replay)
		if err == nil {
			err = json.Unmarshal(raw, &rp)
		}
		if err != nil || rp.Case == nil {
			fmt.Fprintln(os.Stderr, "cannot read replay file:", err)
			os.Exit(2)
		}
		*n = 0
	}
	r := rand.New(rand.NewSource(*seed))
	imports := "From SV Require Import C17.Model C17.Corr."
	wp := &cf.Writer{Dir: *out, Prefix: "cases_part", Imports: imports, CaseType: "pcase", MismatchFn: "mismatches_p", ShardSize: 250}
	wr := &cf.Writer{Dir: *out, Prefix: "cases_route", Imports: imports, CaseType: "rcase", MismatchFn: "mismatches_r", ShardSize: 250}
	wd := &cf.Writer{Dir: *out, Prefix: "cases_dispatch", Imports: imports, CaseType: "dcase", MismatchFn: "mismatches_d", ShardSize: 250}

	// ---- corpus: the fallback witness, then the extreme hashes on every hash variant and partition count
	type pc struct {
		s  partSpec
		cs []call
	}
	var corpus []pc
	fbArg := partSpec{Kind: "custom", Opts: []optSpec{{Kind: "hashfn", Hasher: &hasherSpec{Kind: "const", Val: 5}}}}
	corpus = append(corpus, pc{partSpec{Kind: "custom", Opts: []optSpec{{Kind: "fallback", Arg: &fbArg}}},
		[]call{{Key: keySpec{Kind: "nil"}, N: 7}, {Key: keySpec{Kind: "bytes", Bytes: []byte("a")}, N: 7}, {Key: keySpec{Kind: "nil"}, N: 1}}})
	corpus = append(corpus, pc{partSpec{Kind: "custom", Opts: []optSpec{{Kind: "fallback"}}},
		[]call{{Key: keySpec{Kind: "nil"}, N: 3}, {Key: keySpec{Kind: "bytes", Bytes: []byte("a")}, N: 3}}})
	for _, kind := range []string{"hash", "reference"} {
		var cs []call
		for _, k := range specialKeys {
			for _, nn := range nPool {
				cs = append(cs, call{Key: keySpec{Kind: "bytes", Bytes: k}, N: nn})
			}
		}
		corpus = append(corpus, pc{partSpec{Kind: kind}, cs})
	}
	for _, abs := range []bool{false, true} {
		for _, hv := range hashVals {
			s := partSpec{Kind: "custom", Opts: []optSpec{{Kind: "hashfn", Hasher: &hasherSpec{Kind: "const", Val: hv}}}}
			if abs {
				s.Opts = append(s.Opts, optSpec{Kind: "absfirst"})
			}
			var cs []call
			for _, nn := range nPool {
				cs = append(cs, call{Key: keySpec{Kind: "bytes", Bytes: []byte("k")}, N: nn})
			}
			corpus = append(corpus, pc{s, cs})
		}
	}
	if rp.Case != nil {
		corpus = nil
		if rp.Case.Calls != nil {
			corpus = []pc{{rp.Case.Partitioner, rp.Case.Calls}}
		}
	}
	for i := 0; i < len(corpus)+*n; i++ {
		var s partSpec
		var cs []call
		if i < len(corpus) {
			s, cs = corpus[i].s, corpus[i].cs
		} else {
			s = genPart(r, false)
			cs = genCalls(r, s)
		}
		cs, mon := runCalls(s, cs)
		term := fmt.Sprintf("{| pp_p := %s; pp_calls := %s |}", coqPart(s), coqCalls(cs))
		wp.Add(term, cf.Sidecar{Case: map[string]interface{}{"partitioner": s, "calls": cs}, Kind: "partition:" + s.Kind, Nontrivial: len(cs) >= 2, Monitor: mon})
	}

	// ---- routing
	rep := &reporter{}
	b := sarama.NewMockBroker(rep, 1)
	type rc struct {
		s  partSpec
		tm topicMeta
		ms []rmsg
	}
	tmMixed := topicMeta{Known: true, Parts: []partMeta{{ID: 5}, {ID: 0, Leaderless: true}, {ID: 2}, {ID: 9, Leaderless: true}}}
	// partitions with a live leader whose metadata carries REPLICA_NOT_AVAILABLE stay writable (adversary change C17-11)
	tmDegraded := topicMeta{Known: true, Parts: []partMeta{{ID: 4, Degraded: true}, {ID: 1}, {ID: 7, Leaderless: true}, {ID: 6, Degraded: true}}}
	tmAllDegraded := topicMeta{Known: true, Parts: []partMeta{{ID: 0, Degraded: true}}}
	rcorpus := []rc{
		{partSpec{Kind: "custom", Opts: []optSpec{{Kind: "fallback", Arg: &fbArg}}}, tmMixed, []rmsg{{Key: keySpec{Kind: "nil"}}, {Key: keySpec{Kind: "bytes", Bytes: []byte("a")}}}},
		{partSpec{Kind: "hash"}, tmMixed, []rmsg{{Key: keySpec{Kind: "bytes", Bytes: specialKeys[0]}}, {Key: keySpec{Kind: "nil"}}, {Key: keySpec{Kind: "bytes", Bytes: negKeys[0]}}}},
		{partSpec{Kind: "roundrobin"}, tmMixed, []rmsg{{Key: keySpec{Kind: "nil"}}, {Key: keySpec{Kind: "bytes", Bytes: []byte("x")}}, {Key: keySpec{Kind: "nil"}}}},
		{partSpec{Kind: "manual"}, tmMixed, []rmsg{{MPart: 0, Key: keySpec{Kind: "nil"}}, {MPart: 3, Key: keySpec{Kind: "nil"}}, {MPart: 4, Key: keySpec{Kind: "nil"}}, {MPart: -1, Key: keySpec{Kind: "nil"}}}},
		{partSpec{Kind: "random"}, topicMeta{Known: true, Parts: []partMeta{{ID: 1, Leaderless: true}, {ID: 3, Leaderless: true}}}, []rmsg{{Key: keySpec{Kind: "nil"}}}},
		{partSpec{Kind: "hash"}, topicMeta{Known: true, Parts: []partMeta{}}, []rmsg{{Key: keySpec{Kind: "nil"}}, {Key: keySpec{Kind: "bytes", Bytes: []byte("a")}}}},
		{partSpec{Kind: "roundrobin"}, tmDegraded, []rmsg{{Key: keySpec{Kind: "nil"}}, {Key: keySpec{Kind: "nil"}}, {Key: keySpec{Kind: "nil"}}, {Key: keySpec{Kind: "nil"}}}},
		{partSpec{Kind: "hash"}, tmDegraded, []rmsg{{Key: keySpec{Kind: "nil"}}, {Key: keySpec{Kind: "bytes", Bytes: []byte("a")}}}},
		{partSpec{Kind: "random"}, tmAllDegraded, []rmsg{{Key: keySpec{Kind: "nil"}}}},
		{partSpec{Kind: "roundrobin"}, tmAllDegraded, []rmsg{{Key: keySpec{Kind: "nil"}}, {Key: keySpec{Kind: "nil"}}}},
	}
	var dreplay []dmsg
	if rp.Case != nil {
		rcorpus = nil
		if rp.Case.Meta != nil && rp.Case.Broker == nil {
			var ms []rmsg
			if err := json.Unmarshal(rp.Case.Msgs, &ms); err != nil {
				panic(err)
			}
			rcorpus = []rc{{rp.Case.Partitioner, *rp.Case.Meta, ms}}
		}
		if rp.Case.Meta != nil && rp.Case.Broker != nil {
			if err := json.Unmarshal(rp.Case.Msgs, &dreplay); err != nil {
				panic(err)
			}
		}
	}
	nr := *n * 2 / 3
	for i := 0; i < len(rcorpus)+nr; i++ {
		var c rc
		if i < len(rcorpus) {
			c = rcorpus[i]
		} else {
			c.s = genPart(r, true)
			c.tm = genMeta(r)
			c.ms = genRMsgs(r, c.s)
		}
		ms, mon := runRoute(b, c.s, c.tm, c.ms)
		term := fmt.Sprintf("{| rc_p := %s; rc_md := %s; rc_msgs := %s |}", coqPart(c.s), coqMeta(c.tm), coqRMsgs(ms))
		wr.Add(term, cf.Sidecar{Case: map[string]interface{}{"partitioner": c.s, "meta": c.tm, "msgs": ms}, Kind: "route:" + c.s.Kind, Nontrivial: c.tm.Known && len(c.tm.Parts) > 0, Monitor: mon})
	}
	b.Close()

	// ---- producer
	nd := *n / 8
	if dreplay != nil {
		nd = 1
	}
	for i := 0; i < nd; i++ {
		var s partSpec
		var tm topicMeta
		var ms []dmsg
		if dreplay != nil {
			s, tm, ms = rp.Case.Partitioner, *rp.Case.Meta, dreplay
		} else {
			s = genPart(r, true)
			for !dispatchSafe(s) {
				s = genPart(r, true)
			}
			tm = genMeta(r)
			for j, k := 0, 2+r.Intn(6); j < k; j++ {
				key := genKey(r)
				if r.Intn(3) == 0 {
					key = keySpec{Kind: "nil"}
				}
				ms = append(ms, dmsg{ID: int64(j + 1), Key: key, MPart: int32(r.Intn(8) - 1)})
			}
		}
		ms, seen, mon, err := runProducer(s, tm, ms)
		if err != nil {
			fmt.Fprintln(os.Stderr, "producer run failed:", err)
			os.Exit(3)
		}
		var sn []string
		for _, x := range seen {
			sn = append(sn, fmt.Sprintf("(%d, %d)", x[0], x[1]))
		}
		term := fmt.Sprintf("{| dc_p := %s; dc_md := %s; dc_msgs := %s; dc_broker := %s |}", coqPart(s), coqMeta(tm), coqDMsgs(ms), cf.List(sn))
		wd.Add(term, cf.Sidecar{Case: map[string]interface{}{"partitioner": s, "meta": tm, "msgs": ms, "broker": seen}, Kind: "dispatch:" + s.Kind, Nontrivial: tm.Known && len(tm.Parts) > 0, Monitor: mon})
	}
	wp.Close()
	wr.Close()
	wd.Close()
}

type nopLogger struct{}

func (nopLogger) Print(...interface{})          {}
func (nopLogger) Printf(string, ...interface{}) {}
func (nopLogger) Println(...interface{})        {}
